(* Proofs about model/SeriesIndex.v (property C04, histories). *)
From Coq Require Import List ZArith Lia Bool.
From Qryn Require Import model.SeriesIndex.
Import ListNotations.
Open Scope Z_scope.

(* ------------------------------------------------------------------ small facts *)
Lemma row_eqb_eq a b : row_eqb a b = true <-> a = b.
Proof.
  destruct a as [[a1 a2] a3], b as [[b1 b2] b3]. unfold row_eqb.
  rewrite !andb_true_iff, !Z.eqb_eq. split; [intros [[-> ->] ->]; reflexivity|intros H; inversion H; auto].
Qed.

Lemma mem_row_In x l : mem_row x l = true <-> In x l.
Proof.
  unfold mem_row. rewrite existsb_exists. split.
  - intros [y [Hy He]]. apply row_eqb_eq in He. now subst.
  - intros H. exists x. split; [assumption|now apply row_eqb_eq].
Qed.

Lemma nodup_z_In x l : In x (nodup_z l) <-> In x l.
Proof.
  induction l as [|y l IH]; cbn [nodup_z]; [tauto|].
  destruct (existsb (Z.eqb y) l) eqn:E.
  - rewrite IH. split; [auto with datatypes|]. intros [<-|H]; [|assumption].
    apply existsb_exists in E. destruct E as [z [Hz Hyz]]. apply Z.eqb_eq in Hyz. now subst.
  - cbn [In]. now rewrite IH.
Qed.

Lemma days_of_In d es : In d (days_of es) <-> exists e, In e es /\ day_of (e_ts e) = d.
Proof.
  unfold days_of. rewrite nodup_z_In, in_map_iff. split; intros [e [H1 H2]]; exists e; tauto.
Qed.

Lemma stype_eqb_eq a b : stype_eqb a b = true <-> a = b.
Proof. destruct a, b; cbn; split; intros H; try reflexivity; discriminate H. Qed.

Lemma types_of_complete e es : In e es -> In (e_type e) (types_of es).
Proof.
  intros H. unfold types_of. apply filter_In. split.
  - destruct (e_type e); cbn; auto.
  - apply existsb_exists. exists e. split; [assumption|now apply stype_eqb_eq].
Qed.

(* ------------------------------------------------------------------ the parser: one fact for all three folds
   an accumulator step is "good" when the cache and the rows only grow and every new cache entry is a new row *)
Definition grows (a b : list row * list row) : Prop :=
  incl (fst a) (fst b) /\ incl (snd a) (snd b) /\
  (forall x, In x (fst b) -> In x (fst a) \/ In x (snd b)).

Lemma grows_refl a : grows a a.
Proof. split; [apply incl_refl|]. split; [apply incl_refl|auto]. Qed.

Lemma grows_trans a b c : grows a b -> grows b c -> grows a c.
Proof.
  intros [A1 [A2 A3]] [B1 [B2 B3]]. split; [eapply incl_tran; eassumption|]. split; [eapply incl_tran; eassumption|].
  intros x Hx. destruct (B3 x Hx) as [H|H]; [|now right]. destruct (A3 x H) as [H'|H']; [now left|right; now apply B2].
Qed.

Lemma announce_type_spec d fp acc t :
  grows acc (announce_type d fp acc t) /\ In (d, fp, tcode t) (fst (announce_type d fp acc t)).
Proof.
  destruct acc as [c r]. unfold announce_type. destruct (mem_row (d, fp, tcode t) c) eqn:E.
  - split; [apply grows_refl|]. now apply mem_row_In.
  - cbn [fst snd]. split; [|now left]. split; [intros x Hx; now right|]. split; [intros x Hx; apply in_or_app; now left|].
    intros x [<-|Hx]; [right; apply in_or_app; right; now left|now left].
Qed.

Lemma announce_spec d fp : forall tps acc,
  grows acc (announce fp tps acc d) /\ forall t, In t tps -> In (d, fp, tcode t) (fst (announce fp tps acc d)).
Proof.
  unfold announce. induction tps as [|t tps IH]; intros acc; cbn [fold_left].
  - split; [apply grows_refl|intros ? []].
  - destruct (announce_type_spec d fp acc t) as [G1 M1]. destruct (IH (announce_type d fp acc t)) as [G2 M2].
    split; [eapply grows_trans; eassumption|]. intros t' [<-|Ht']; [|now apply M2].
    destruct G2 as [G2 _]. now apply G2.
Qed.

Lemma on_entries_spec s : forall acc,
  grows acc (on_entries acc s) /\
  forall e t, In e (s_entries s) -> In t (types_of (s_entries s)) ->
              In (day_of (e_ts e), s_fp s, tcode t) (fst (on_entries acc s)).
Proof.
  unfold on_entries.
  assert (G : forall days acc,
            grows acc (fold_left (announce (s_fp s) (types_of (s_entries s))) days acc) /\
            forall d t, In d days -> In t (types_of (s_entries s)) ->
                        In (d, s_fp s, tcode t) (fst (fold_left (announce (s_fp s) (types_of (s_entries s))) days acc))).
  { induction days as [|d days IH]; intros acc; cbn [fold_left].
    - split; [apply grows_refl|intros ? ? []].
    - destruct (announce_spec d (s_fp s) (types_of (s_entries s)) acc) as [G1 M1].
      destruct (IH (announce (s_fp s) (types_of (s_entries s)) acc d)) as [G2 M2].
      split; [eapply grows_trans; eassumption|]. intros d' t [<-|Hd] Ht; [|now apply M2].
      destruct G2 as [G2 _]. apply G2. now apply M1. }
  intros acc. destruct (G (days_of (s_entries s)) acc) as [G1 M1]. split; [assumption|].
  intros e t He Ht. apply M1; [|assumption]. apply days_of_In. exists e. auto.
Qed.

Lemma parse_fold : forall ss acc,
  grows acc (fold_left on_entries ss acc) /\
  forall s e t, In s ss -> In e (s_entries s) -> In t (types_of (s_entries s)) ->
                In (day_of (e_ts e), s_fp s, tcode t) (fst (fold_left on_entries ss acc)).
Proof.
  induction ss as [|s ss IH]; intros acc; cbn [fold_left].
  - split; [apply grows_refl|intros ? ? ? []].
  - destruct (on_entries_spec s acc) as [G1 M1]. destruct (IH (on_entries acc s)) as [G2 M2].
    split; [eapply grows_trans; eassumption|]. intros s' e t [<-|Hs] He Ht; [|now apply (M2 s' e t)].
    destruct G2 as [G2 _]. apply G2. now apply M1.
Qed.

Lemma parse_spec c0 ss c' rows :
  parse c0 ss = (c', rows) ->
  incl c0 c' /\
  (forall s e, In s ss -> In e (s_entries s) -> In (day_of (e_ts e), s_fp s, tcode (e_type e)) c') /\
  (forall x, In x c' -> In x c0 \/ In x rows).
Proof.
  unfold parse. intros H. destruct (parse_fold ss (c0, [])) as [[G1 [G2 G3]] M]. rewrite H in *. cbn [fst snd] in *.
  split; [assumption|]. split; [|assumption].
  intros s e Hs He. apply (M s e (e_type e) Hs He). now apply types_of_complete.
Qed.

Lemma samples_of_In fp d t ss :
  In (fp, d, t) (samples_of ss) ->
  exists s e, In s ss /\ In e (s_entries s) /\ fp = s_fp s /\ d = day_of (e_ts e) /\ t = tcode (e_type e).
Proof.
  unfold samples_of. rewrite in_flat_map. intros [s [Hs H]]. apply in_map_iff in H.
  destruct H as [e [He1 He2]]. inversion He1; subst. exists s, e. auto.
Qed.

(* ------------------------------------------------------------------ the invariant
   I: every cached triple has its row inserted;  J: every acknowledged sample has the row of its day and type;
   P: for every request in flight: as long as every insert of its chunks succeeded the rows of those chunks are
      inserted, and every sample of the request (in the chunks sent and in the chunk being filled) has its row
      inserted already or among the rows the request announced itself (sent or still to be sent). *)
Definition I (st : state) : Prop := incl (cache st) (ts_rows st).
Definition J (st : state) : Prop := forall fp d t, In (fp, d, t) (acked st) -> In (d, fp, t) (ts_rows st).
Definition covered (rows : list row) (f : flight) : Prop :=
  (f_ok f = true -> incl (f_ann f) rows) /\
  (forall fp d t, In (fp, d, t) (f_spl f ++ f_done f) ->
     In (d, fp, t) (f_rows f) \/ In (d, fp, t) (f_ann f) \/ In (d, fp, t) rows).
Definition P (st : state) : Prop := forall f, In f (pending st) -> covered (ts_rows st) f.
Definition inv (st : state) : Prop := I st /\ J st /\ P st.

Lemma covered_mono rows rows' f : incl rows rows' -> covered rows f -> covered rows' f.
Proof.
  intros Hi [Hc1 Hc2]. split.
  - intros Hok. eapply incl_tran; [now apply Hc1|assumption].
  - intros fp d t Hin. destruct (Hc2 fp d t Hin) as [H|[H|H]]; [now left|right; now left|right; right; now apply Hi].
Qed.

Lemma remove_nth_In {A} (x : A) : forall k l, In x (remove_nth k l) -> In x l.
Proof.
  induction k as [|k IH]; intros [|y l] H; cbn [remove_nth] in H; try contradiction.
  - now right.
  - destruct H as [<-|H]; [now left|right; now apply IH].
Qed.

Lemma set_nth_In {A} (x y : A) : forall k l, In y (set_nth k x l) -> y = x \/ In y l.
Proof.
  induction k as [|k IH]; intros [|z l] H; cbn [set_nth] in H; try contradiction.
  - destruct H as [<-|H]; [now left|right; now right].
  - destruct H as [<-|H]; [right; now left|]. destruct (IH _ H) as [->|H']; [now left|right; now right].
Qed.

Lemma store_chunk_mono rows f ts_ok : incl rows (store_chunk rows f ts_ok).
Proof. unfold store_chunk. destruct ts_ok; [apply incl_appr|]; apply incl_refl. Qed.

Lemma covered_empty rows : covered rows empty_flight.
Proof. split; [intros _ x []|intros ? ? ? []]. Qed.

(* parsing further streams keeps a request covered *)
Lemma more_covered st f ss : I st -> covered (ts_rows st) f -> covered (ts_rows st) (more_req st f ss).
Proof.
  intros HI [Hc1 Hc2]. unfold more_req. split; cbn [f_ok f_ann f_rows f_spl f_done].
  - exact Hc1.
  - destruct (parse_fold ss (f_rows f ++ f_ann f ++ cache st, f_rows f)) as [[G1 [G2 G3]] M].
    cbn [fst snd] in *. intros fp d t Hin.
    rewrite <- app_assoc in Hin. apply in_app_or in Hin. destruct Hin as [Hin|Hin].
    + (* a sample parsed earlier: its row is where it was, and the rows of the chunk only grow *)
      destruct (Hc2 fp d t (proj2 (in_app_iff _ _ _) (or_introl Hin))) as [H|H]; [left; now apply G2|now right].
    + apply in_app_or in Hin. destruct Hin as [Hin|Hin].
      * apply samples_of_In in Hin. destruct Hin as [s [e [Hs [He [-> [-> ->]]]]]].
        pose proof (M s e (e_type e) Hs He (types_of_complete e _ He)) as Hc.
        destruct (G3 _ Hc) as [H|H]; [|now left].
        apply in_app_or in H. destruct H as [H|H]; [left; now apply G2|].
        apply in_app_or in H. destruct H as [H|H]; [right; now left|right; right; now apply HI].
      * destruct (Hc2 fp d t (proj2 (in_app_iff _ _ _) (or_intror Hin))) as [H|H]; [left; now apply G2|now right].
Qed.

Lemma begin_covered st ss : I st -> covered (ts_rows st) (begin_req st ss).
Proof. intros HI. apply more_covered; [assumption|apply covered_empty]. Qed.

(* sending the chunk keeps a request covered by the table as it is after the chunk's series insert *)
Lemma send_covered rows f ts_ok spl_ok :
  covered rows f -> covered (store_chunk rows f ts_ok) (send_chunk f ts_ok spl_ok).
Proof.
  intros [Hc1 Hc2]. pose proof (store_chunk_mono rows f ts_ok) as Hmono.
  unfold send_chunk. split; cbn [f_ok f_ann f_rows f_spl f_done].
  - intros Hok. apply andb_true_iff in Hok. destruct Hok as [Hok _]. apply andb_true_iff in Hok. destruct Hok as [Hok Hts].
    apply incl_app; [|eapply incl_tran; [now apply Hc1|assumption]].
    unfold store_chunk. destruct ts_ok; [apply incl_appl, incl_refl|].
    rewrite orb_false_r in Hts. destruct (f_rows f); [intros ? []|discriminate Hts].
  - cbn [app]. intros fp d t Hin. right.
    destruct (Hc2 fp d t Hin) as [H|[H|H]].
    + left. apply in_or_app. now left.
    + left. apply in_or_app. now right.
    + right. now apply Hmono.
Qed.

Lemma finish_inv st f ts_ok spl_ok pend :
  inv st -> covered (ts_rows st) f -> incl pend (pending st) ->
  inv (fst (finish st f ts_ok spl_ok pend)).
Proof.
  intros [HI [HJ HP]] Hc Hpend. unfold finish. cbn [fst].
  pose proof (store_chunk_mono (ts_rows st) f ts_ok) as Hmono.
  destruct (send_covered _ f ts_ok spl_ok Hc) as [Hs1 Hs2].
  set (g := send_chunk f ts_ok spl_ok) in *. set (rows' := store_chunk (ts_rows st) f ts_ok) in *.
  split; [|split].
  - unfold I. cbn [cache ts_rows]. destruct (f_ok g) eqn:Ea.
    + apply incl_app; [now apply Hs1|]. eapply incl_tran; eassumption.
    + eapply incl_tran; eassumption.
  - intros fp d t Hin. cbn [acked ts_rows] in *. destruct (f_ok g) eqn:Ea.
    + apply in_app_or in Hin. destruct Hin as [Hin|Hin]; [|apply Hmono; now apply HJ].
      assert (Hin' : In (fp, d, t) (f_spl g ++ f_done g)) by (subst g; cbn [send_chunk f_spl f_done app]; exact Hin).
      destruct (Hs2 fp d t Hin') as [H|[H|H]]; [subst g; cbn [send_chunk f_rows] in H; contradiction|now apply (Hs1 eq_refl)|assumption].
    + apply Hmono. now apply HJ.
  - intros h Hh. cbn [pending ts_rows] in *. apply (covered_mono (ts_rows st)); [assumption|]. apply HP. now apply Hpend.
Qed.

Lemma step_inv st a : inv st -> inv (fst (step st a)).
Proof.
  intros Hinv. pose proof Hinv as [HI [HJ HP]].
  destruct a as [ss ts_ok spl_ok|ss|ss|k ss|k ts_ok spl_ok|k ts_ok spl_ok|k| |k]; cbn [step].
  - pose proof (finish_inv st (begin_req st ss) ts_ok spl_ok (pending st) Hinv (begin_covered st ss HI) (incl_refl _)) as H.
    destruct (finish st (begin_req st ss) ts_ok spl_ok (pending st)) as [st' ack]. exact H.
  - exact Hinv.
  - cbn [fst]. split; [exact HI|]. split; [exact HJ|].
    intros f Hf. cbn [pending ts_rows] in *. apply in_app_or in Hf. destruct Hf as [Hf|[<-|[]]]; [now apply HP|].
    now apply begin_covered.
  - destruct (nth_error (pending st) k) as [f|] eqn:En; [|exact Hinv].
    assert (Hf : covered (ts_rows st) f) by (apply HP; eapply nth_error_In; eassumption).
    cbn [fst]. split; [exact HI|]. split; [exact HJ|].
    intros g Hg. cbn [pending ts_rows] in *. destruct (set_nth_In _ _ _ _ Hg) as [->|Hg']; [now apply more_covered|now apply HP].
  - destruct (nth_error (pending st) k) as [f|] eqn:En; [|exact Hinv].
    assert (Hf : covered (ts_rows st) f) by (apply HP; eapply nth_error_In; eassumption).
    pose proof (store_chunk_mono (ts_rows st) f ts_ok) as Hmono.
    cbn [fst]. split; [|split].
    + unfold I. cbn [cache ts_rows]. eapply incl_tran; eassumption.
    + intros fp d t Hin. cbn [acked ts_rows] in *. apply Hmono. now apply HJ.
    + intros g Hg. cbn [pending ts_rows] in *. destruct (set_nth_In _ _ _ _ Hg) as [->|Hg'].
      * now apply send_covered.
      * apply (covered_mono (ts_rows st)); [assumption|now apply HP].
  - destruct (nth_error (pending st) k) as [f|] eqn:En; [|exact Hinv].
    assert (Hf : covered (ts_rows st) f) by (apply HP; eapply nth_error_In; eassumption).
    pose proof (finish_inv st f ts_ok spl_ok (remove_nth k (pending st)) Hinv Hf
                           (fun x Hx => remove_nth_In x k _ Hx)) as H.
    destruct (finish st f ts_ok spl_ok (remove_nth k (pending st))) as [st' ack]. exact H.
  - destruct (nth_error (pending st) k) as [f|] eqn:En; [|exact Hinv].
    cbn [fst]. split; [exact HI|]. split; [exact HJ|].
    intros g Hg. cbn [pending ts_rows] in *. apply HP. eapply remove_nth_In; eassumption.
  - cbn [fst]. split; [intros x []|]. split; [exact HJ|exact HP].
  - cbn [fst]. split; [|split; [exact HJ|exact HP]].
    intros x Hx. cbn [cache ts_rows] in *. apply HI. eapply remove_nth_In; exact Hx.
Qed.

Lemma inv_init : inv init.
Proof. split; [intros x []|]. split; [intros ? ? ? []|intros ? []]. Qed.

Lemma run_inv : forall h st, inv st -> inv (run st h).
Proof.
  induction h as [|a h IH]; intros st Hinv; cbn [run]; [assumption|]. apply IH. now apply step_inv.
Qed.

(* ------------------------------------------------------------------ boolean forms *)
Lemma indexed_typed_of_row rows fp d t : In (d, fp, t) rows -> indexed_typed rows (fp, d, t) = true.
Proof.
  intros H. cbn [indexed_typed]. apply existsb_exists. exists (d, fp, t). split; [assumption|].
  now rewrite !Z.eqb_refl.
Qed.

Lemma indexed_typed_indexed rows s : indexed_typed rows s = true -> indexed rows s = true.
Proof.
  destruct s as [[fp d] t]. cbn [indexed_typed indexed]. rewrite !existsb_exists.
  intros [[[rd rfp] rt] [Hin H]]. exists (rd, rfp, rt). split; [assumption|].
  apply andb_true_iff in H. tauto.
Qed.

Lemma all_typed_all st : all_indexed_typed st = true -> all_indexed st = true.
Proof.
  unfold all_indexed_typed, all_indexed. rewrite !forallb_forall. intros H s Hs. apply indexed_typed_indexed. now apply H.
Qed.

Lemma clear_inv st : inv st -> inv (clear_cache st).
Proof. intros [_ [HJ HP]]. split; [intros x []|]. split; [exact HJ|exact HP]. Qed.

Lemma run_dist_inv : forall h st, inv st -> inv (run_dist st h).
Proof.
  induction h as [|a h IH]; intros st Hinv; cbn [run_dist]; [assumption|]. apply IH, clear_inv. now apply step_inv.
Qed.

Lemma acked_indexed_typed_dist h : all_indexed_typed (run_dist init h) = true.
Proof.
  unfold all_indexed_typed. apply forallb_forall. intros [[fp d] t] Hin.
  destruct (run_dist_inv h init inv_init) as [_ [HJ _]].
  apply indexed_typed_of_row. now apply HJ.
Qed.

Lemma acked_indexed_typed_all h : all_indexed_typed (run init h) = true.
Proof.
  unfold all_indexed_typed. apply forallb_forall. intros [[fp d] t] Hin.
  destruct (run_inv h init inv_init) as [_ [HJ _]].
  apply indexed_typed_of_row. now apply HJ.
Qed.

Lemma acked_indexed_all h : all_indexed (run init h) = true.
Proof. apply all_typed_all. apply acked_indexed_typed_all. Qed.

(* the cache never runs ahead of the table: whatever it holds has been inserted (so a hit can be trusted) *)
Lemma cache_covered h : incl (cache (run init h)) (ts_rows (run init h)).
Proof. destruct (run_inv h init inv_init) as [HI _]. exact HI. Qed.

(* ------------------------------------------------------------------ witnesses *)
(* one series, one log line on 2024-01-10 *)
Definition w_stream : stream := {| s_fp := 7; s_entries := [{| e_ts := 1704888000000000000; e_type := TLog |}] |}.
Definition w_stream_metric : stream := {| s_fp := 7; s_entries := [{| e_ts := 1704888060000000000; e_type := TMetric |}] |}.
Definition w_other : stream := {| s_fp := 9; s_entries := [{| e_ts := 1704888000000000000; e_type := TLog |}] |}.

(* #13 as it was: the series insert of the first push fails (client sees 5xx, samples are stored); the client
   retries the identical push, which was acknowledged although no series row was ever inserted ... *)
Definition w_retry : list action := [Push [w_stream] false true; Push [w_stream] true true].
Lemma w_retry_old_not_indexed : all_indexed (run_old init w_retry) = false.
Proof. vm_compute. reflexivity. Qed.
(* ... and a second way into the same state: a body that is malformed after its first stream *)
Definition w_badbody : list action := [PushBad [w_stream]; Push [w_stream] true true].
Lemma w_badbody_old_not_indexed : all_indexed (run_old init w_badbody) = false.
Proof. vm_compute. reflexivity. Qed.
(* now the retry announces the series again *)
Example w_retry_indexed :
  run_obs init w_retry = [OPush false [(19732, 7, 1)] 1; OPush true [(19732, 7, 1)] 1] /\
  run_obs init w_badbody = [OBad; OPush true [(19732, 7, 1)] 1].
Proof. vm_compute. split; reflexivity. Qed.

(* overlapping requests: B is parsed while the inserts of A are in flight, then A's series insert fails.
   With an entry made at parse time B would have sent no row and been acknowledged. *)
Definition w_overlap : list action := [Begin [w_stream]; Begin [w_stream]; End 0 false true; End 0 true true].
Example w_overlap_indexed :
  run_obs init w_overlap = [OBegin; OBegin; OPush false [(19732, 7, 1)] 1; OPush true [(19732, 7, 1)] 1] /\
  all_indexed_typed (run init w_overlap) = true /\ acked (run init w_overlap) <> [].
Proof. vm_compute. split; [reflexivity|]. split; [reflexivity|discriminate]. Qed.

(* the witness of the fixed type defect: the same labels first with a log line, then with a metric
   value on the same day. The second push announces (day, fp, 2) and inserts the type-2 row. *)
Definition w_types : list action := [Push [w_stream] true true; Push [w_stream_metric] true true].
Example w_types_indexed :
  all_indexed_typed (run init w_types) = true /\ ts_rows (run init w_types) = [(19732, 7, 2); (19732, 7, 1)].
Proof. vm_compute. split; reflexivity. Qed.

(* a history with faults, resets, overlapping requests, a mid-request flush, a malformed body and varying types that
   acknowledges samples *)
Definition w_mixed : list action :=
  [Push [w_stream] true true; Push [w_stream; w_stream_metric] false true; Begin [w_other]; CacheReset;
   PushBad [w_other]; Push [w_stream_metric] true false; Flush 0 true true; More 0 [w_stream];
   End 0 true true; Push [w_stream; w_other] true true].
Example w_mixed_ok : List.length (acked (run init w_mixed)) = 5%nat /\ all_indexed_typed (run init w_mixed) = true.
Proof. vm_compute. split; reflexivity. Qed.

(* the mid-request flush: a long request announces its series in chunk 1, whose series insert FAILS; the samples of
   the same series in its last chunk (which carries no row: the request remembers what it announced) are inserted
   successfully. The request is not acknowledged and nothing is cached; the client's retry announces the series
   again, all its inserts succeed, it is acknowledged and its samples are indexed. *)
Definition w_stream_later : stream := {| s_fp := 7; s_entries := [{| e_ts := 1704888120000000000; e_type := TLog |}] |}.
Definition w_flush_try (ts1 : bool) : list action :=
  [Begin [w_stream]; Flush 0 ts1 true; More 0 [w_stream_later]; End 0 true true].
Definition w_flush : list action := w_flush_try false ++ w_flush_try true.
Example w_flush_indexed :
  run_obs init w_flush = [OBegin; OFlush [(19732, 7, 1)] 1; OBegin; OPush false [] 1;
                          OBegin; OFlush [(19732, 7, 1)] 1; OBegin; OPush true [] 1] /\
  cache (run init (w_flush_try false)) = [] /\ acked (run init (w_flush_try false)) = [] /\
  ts_rows (run init (w_flush_try false)) = [] /\
  all_indexed_typed (run init w_flush) = true /\ List.length (acked (run init w_flush)) = 2%nat /\
  cache (run init w_flush) = [(19732, 7, 1)].
Proof. vm_compute. repeat (split; [reflexivity|]). reflexivity. Qed.

(* every chunk succeeds: the samples of the last chunk of series 7 (no row of their own) and of series 9 (announced in
   the last chunk) are acknowledged together with those of chunk 1, all indexed; both rows are cached only now *)
Definition w_flush_ok : list action :=
  [Begin [w_stream]; Flush 0 true true; More 0 [w_stream_later; w_other]; End 0 true true].
Example w_flush_ok_indexed :
  run_obs init w_flush_ok = [OBegin; OFlush [(19732, 7, 1)] 1; OBegin; OPush true [(19732, 9, 1)] 2] /\
  cache (run init (firstn 3 w_flush_ok)) = [] /\
  cache (run init w_flush_ok) = [(19732, 9, 1); (19732, 7, 1)] /\
  List.length (acked (run init w_flush_ok)) = 3%nat /\ all_indexed_typed (run init w_flush_ok) = true.
Proof. vm_compute. repeat (split; [reflexivity|]). reflexivity. Qed.

(* a chunk that was sent is not confirmed before the request ends: a push handled in between announces the series
   itself, and when the long request turns out malformed (400) its stored row stays, uncached and unacknowledged *)
Definition w_flush_abort : list action := [Begin [w_stream]; Flush 0 true true; Push [w_stream] true true; Abort 0].
Example w_flush_abort_obs :
  run_obs init w_flush_abort = [OBegin; OFlush [(19732, 7, 1)] 1; OPush true [(19732, 7, 1)] 1; OBad] /\
  ts_rows (run init w_flush_abort) = [(19732, 7, 1); (19732, 7, 1)] /\
  List.length (acked (run init w_flush_abort)) = 1%nat /\ pending (run init w_flush_abort) = [].
Proof. vm_compute. repeat (split; [reflexivity|]). reflexivity. Qed.

(* fastcache drops an entry: the next push of the series announces it again (nothing is lost, one more row is written) *)
Definition w_evict : list action := [Push [w_stream] true true; Push [w_stream] true true; CacheEvict 0; Push [w_stream] true true].
Example w_evict_announces_again :
  run_obs init w_evict = [OPush true [(19732, 7, 1)] 1; OPush true [] 1; OReset; OPush true [(19732, 7, 1)] 1] /\
  all_indexed_typed (run init w_evict) = true.
Proof. vm_compute. split; reflexivity. Qed.

(* ------------------------------------------------------------------ where an inserted row comes from
   Every series row ever inserted was announced by a stream of the history that has the row's fingerprint, an
   entry on the row's day and an entry of the row's type. (The row's labels text is encodeLabels of that stream's
   labels - checked on the code by the history correspondence -, so with label_document_roundtrip and a
   fingerprint that tells the history's label sets apart the row found for an acknowledged sample carries the
   sample's own label set.) *)
Definition from_stream (s : stream) (x : row) : Prop :=
  exists d t, In d (days_of (s_entries s)) /\ In t (types_of (s_entries s)) /\ x = (d, s_fp s, tcode t).

Definition streams_of_action (a : action) : list stream :=
  match a with Push ss _ _ | PushBad ss | Begin ss | More _ ss => ss | _ => [] end.
Definition all_streams (h : list action) : list stream := flat_map streams_of_action h.

Lemma announce_type_rows d fp acc t x :
  In x (snd (announce_type d fp acc t)) -> In x (snd acc) \/ x = (d, fp, tcode t).
Proof.
  destruct acc as [c r]. unfold announce_type. destruct (mem_row (d, fp, tcode t) c); cbn [snd]; [now left|].
  intros H. apply in_app_or in H. destruct H as [H|[<-|[]]]; [now left|now right].
Qed.

Lemma announce_rows fp : forall tps acc d x,
  In x (snd (announce fp tps acc d)) -> In x (snd acc) \/ exists t, In t tps /\ x = (d, fp, tcode t).
Proof.
  unfold announce. induction tps as [|t tps IH]; intros acc d x H; cbn [fold_left] in H; [now left|].
  destruct (IH _ _ _ H) as [H1|[t' [Ht' ->]]].
  - destruct (announce_type_rows _ _ _ _ _ H1) as [H2| ->]; [now left|right; exists t; split; [now left|reflexivity]].
  - right. exists t'. split; [now right|reflexivity].
Qed.

Lemma on_entries_rows s acc x : In x (snd (on_entries acc s)) -> In x (snd acc) \/ from_stream s x.
Proof.
  unfold on_entries.
  assert (G : forall days acc,
            In x (snd (fold_left (announce (s_fp s) (types_of (s_entries s))) days acc)) ->
            In x (snd acc) \/ exists d t, In d days /\ In t (types_of (s_entries s)) /\ x = (d, s_fp s, tcode t)).
  { induction days as [|d days IH]; intros a H; cbn [fold_left] in H; [now left|].
    destruct (IH _ H) as [H1|[d' [t [Hd [Ht ->]]]]].
    - destruct (announce_rows _ _ _ _ _ H1) as [H2|[t [Ht ->]]]; [now left|].
      right. exists d, t. split; [now left|]. split; [assumption|reflexivity].
    - right. exists d', t. split; [now right|]. split; [assumption|reflexivity]. }
  intros H. destruct (G _ _ H) as [H1|[d [t [Hd [Ht ->]]]]]; [now left|].
  right. exists d, t. split; [assumption|]. split; [assumption|reflexivity].
Qed.

Lemma fold_rows_origin x : forall ss acc, In x (snd (fold_left on_entries ss acc)) ->
  In x (snd acc) \/ exists s, In s ss /\ from_stream s x.
Proof.
  induction ss as [|s ss IH]; intros acc H; cbn [fold_left] in H; [now left|].
  destruct (IH _ H) as [H1|[s' [Hs' Hf]]].
  - destruct (on_entries_rows _ _ _ H1) as [H2|H2]; [now left|right; exists s; split; [now left|assumption]].
  - right. exists s'. split; [now right|assumption].
Qed.

Lemma parse_rows_origin c ss x : In x (snd (parse c ss)) -> exists s, In s ss /\ from_stream s x.
Proof. unfold parse. intros H. destruct (fold_rows_origin _ _ _ H) as [[]|H']. exact H'. Qed.

(* rows inserted and rows waiting in the chunk of a request in flight all stem from the streams seen so far *)
Definition rows_from (S : list stream) (rows : list row) : Prop :=
  forall x, In x rows -> exists s, In s S /\ from_stream s x.
Definition origin_inv (S : list stream) (st : state) : Prop :=
  rows_from S (ts_rows st) /\ (forall f, In f (pending st) -> rows_from S (f_rows f)).

Lemma rows_from_mono S S' rows : incl S S' -> rows_from S rows -> rows_from S' rows.
Proof. intros Hi H x Hx. destruct (H x Hx) as [s [Hs Hf]]. exists s. split; [now apply Hi|assumption]. Qed.

Lemma origin_mono S S' st : incl S S' -> origin_inv S st -> origin_inv S' st.
Proof.
  intros Hi [H1 H2]. split; [now apply (rows_from_mono S)|]. intros f Hf. apply (rows_from_mono S); [assumption|now apply H2].
Qed.

Lemma more_origin S st f ss : rows_from S (f_rows f) -> rows_from (S ++ ss) (f_rows (more_req st f ss)).
Proof.
  intros Hf x Hx. unfold more_req in Hx. cbn [f_rows] in Hx.
  destruct (fold_rows_origin _ _ _ Hx) as [H|[s [Hs Hfs]]]; cbn [snd] in *.
  - destruct (Hf x H) as [s [Hs Hfs]]. exists s. split; [apply in_or_app; now left|assumption].
  - exists s. split; [apply in_or_app; now right|assumption].
Qed.

Lemma begin_origin S st ss : rows_from (S ++ ss) (f_rows (begin_req st ss)).
Proof. apply more_origin. intros ? []. Qed.

Lemma store_origin S rows f ts_ok : rows_from S rows -> rows_from S (f_rows f) -> rows_from S (store_chunk rows f ts_ok).
Proof.
  intros H1 Hf x Hx. unfold store_chunk in Hx. destruct ts_ok; [|now apply H1].
  apply in_app_or in Hx. destruct Hx as [Hx|Hx]; [now apply Hf|now apply H1].
Qed.

Lemma finish_origin S st f ts_ok spl_ok pend :
  origin_inv S st -> rows_from S (f_rows f) -> incl pend (pending st) ->
  origin_inv S (fst (finish st f ts_ok spl_ok pend)).
Proof.
  intros [H1 H2] Hf Hp. unfold finish. cbn [fst]. split; cbn [ts_rows pending].
  - now apply store_origin.
  - intros g Hg. apply H2. now apply Hp.
Qed.

Lemma step_origin S st a : origin_inv S st -> origin_inv (S ++ streams_of_action a) (fst (step st a)).
Proof.
  intros Hinv. assert (Hinv' : origin_inv (S ++ streams_of_action a) st) by (apply (origin_mono S); [apply incl_appl, incl_refl|assumption]).
  destruct a as [ss ts_ok spl_ok|ss|ss|k ss|k ts_ok spl_ok|k ts_ok spl_ok|k| |k]; cbn [step streams_of_action] in *.
  - pose proof (finish_origin _ st (begin_req st ss) ts_ok spl_ok (pending st) Hinv' (begin_origin S st ss) (incl_refl _)) as H.
    destruct (finish st (begin_req st ss) ts_ok spl_ok (pending st)) as [st' ack]. exact H.
  - exact Hinv'.
  - destruct Hinv' as [H1 H2]. cbn [fst]. split; cbn [ts_rows pending]; [exact H1|].
    intros f Hf. apply in_app_or in Hf. destruct Hf as [Hf|[<-|[]]]; [now apply H2|apply begin_origin].
  - destruct (nth_error (pending st) k) as [f|] eqn:En; [|exact Hinv'].
    destruct Hinv as [_ H2o]. destruct Hinv' as [H1 H2]. cbn [fst]. split; cbn [ts_rows pending]; [exact H1|].
    intros g Hg. destruct (set_nth_In _ _ _ _ Hg) as [->|Hg']; [|now apply H2].
    apply more_origin. apply H2o. eapply nth_error_In; eassumption.
  - destruct (nth_error (pending st) k) as [f|] eqn:En; [|exact Hinv'].
    destruct Hinv' as [H1 H2]. cbn [fst]. split; cbn [ts_rows pending].
    + apply store_origin; [exact H1|]. apply H2. eapply nth_error_In; eassumption.
    + intros g Hg. destruct (set_nth_In _ _ _ _ Hg) as [->|Hg']; [|now apply H2]. intros ? [].
  - destruct (nth_error (pending st) k) as [f|] eqn:En; [|exact Hinv'].
    assert (Hf : rows_from (S ++ []) (f_rows f)).
    { destruct Hinv' as [_ H2]. apply H2. eapply nth_error_In; eassumption. }
    pose proof (finish_origin _ st f ts_ok spl_ok (remove_nth k (pending st)) Hinv' Hf (fun x Hx => remove_nth_In x k _ Hx)) as H.
    destruct (finish st f ts_ok spl_ok (remove_nth k (pending st))) as [st' ack]. exact H.
  - destruct (nth_error (pending st) k) as [f|] eqn:En; [|exact Hinv'].
    destruct Hinv' as [H1 H2]. cbn [fst]. split; cbn [ts_rows pending]; [exact H1|].
    intros g Hg. apply H2. eapply remove_nth_In; eassumption.
  - destruct Hinv' as [H1 H2]. cbn [fst]. split; cbn [ts_rows pending]; assumption.
  - destruct Hinv' as [H1 H2]. cbn [fst]. split; cbn [ts_rows pending]; assumption.
Qed.

Lemma run_origin : forall h S st, origin_inv S st -> origin_inv (S ++ all_streams h) (run st h).
Proof.
  induction h as [|a h IH]; intros S st Hinv; cbn [run all_streams flat_map].
  - now rewrite app_nil_r.
  - fold (all_streams h). rewrite app_assoc. apply IH. now apply step_origin.
Qed.

Lemma inserted_rows_have_origin h x :
  In x (ts_rows (run init h)) -> exists s, In s (all_streams h) /\ from_stream s x.
Proof.
  intros Hx. assert (H0 : origin_inv [] init) by (split; [intros ? []|intros ? []]).
  destruct (run_origin h [] init H0) as [H1 _]. cbn [app] in H1. now apply H1.
Qed.

(* both directions together: an acknowledged sample finds a row, and that row was written for a stream with the
   sample's fingerprint *)
Lemma acked_sample_row_and_origin h fp d t :
  In (fp, d, t) (acked (run init h)) ->
  In (d, fp, t) (ts_rows (run init h)) /\ exists s, In s (all_streams h) /\ s_fp s = fp /\ from_stream s (d, fp, t).
Proof.
  intros Hin. destruct (run_inv h init inv_init) as [_ [HJ _]]. pose proof (HJ _ _ _ Hin) as Hrow.
  split; [assumption|]. destruct (inserted_rows_have_origin h _ Hrow) as [s [Hs Hf]].
  exists s. split; [assumption|]. split; [|assumption].
  destruct Hf as [d' [t' [_ [_ E]]]]. now inversion E.
Qed.
