(* Proofs about model/SeriesIndex.v (property C04, histories). *)
From Coq Require Import List ZArith Lia Bool.
From Qryn Require Import model.SeriesIndex.
Import ListNotations.
Open Scope Z_scope.

(* ------------------------------------------------------------------ small facts *)
Lemma pair_eqb_eq a b : pair_eqb a b = true <-> a = b.
Proof.
  destruct a as [a1 a2], b as [b1 b2]. unfold pair_eqb. cbn [fst snd].
  rewrite andb_true_iff, !Z.eqb_eq. split; [intros [-> ->]; reflexivity|intros H; inversion H; auto].
Qed.

Lemma mem_pair_In p l : mem_pair p l = true <-> In p l.
Proof.
  unfold mem_pair. rewrite existsb_exists. split.
  - intros [x [Hx He]]. apply pair_eqb_eq in He. now subst.
  - intros H. exists p. split; [assumption|now apply pair_eqb_eq].
Qed.

Lemma nodup_z_In x l : In x (nodup_z l) <-> In x l.
Proof.
  induction l as [|y l IH]; cbn [nodup_z]; [tauto|].
  destruct (existsb (Z.eqb y) l) eqn:E.
  - rewrite IH. split; [auto with datatypes|]. intros [<-|H]; [|assumption].
    apply existsb_exists in E. destruct E as [z [Hz Hyz]]. apply Z.eqb_eq in Hyz. now subst.
  - cbn [In]. now rewrite IH.
Qed.

Lemma days_of_In d es : In d (days_of es) <-> exists e, In e es /\ day_of (e_ts e) = d.
Proof.
  unfold days_of. rewrite nodup_z_In, in_map_iff. split; intros [e [H1 H2]]; exists e; tauto.
Qed.

Lemma stype_eqb_eq a b : stype_eqb a b = true <-> a = b.
Proof. destruct a, b; cbn; split; intros H; try reflexivity; discriminate H. Qed.

Lemma types_of_complete e es : In e es -> In (e_type e) (types_of es).
Proof.
  intros H. unfold types_of. apply filter_In. split.
  - destruct (e_type e); cbn; auto.
  - apply existsb_exists. exists e. split; [assumption|now apply stype_eqb_eq].
Qed.

Lemma types_eqb_eq a b : types_eqb a b = true -> a = b.
Proof.
  revert b. induction a as [|x a IH]; intros [|y b] H; cbn [types_eqb] in H; try discriminate H; [reflexivity|].
  apply andb_true_iff in H. destruct H as [H1 H2]. apply stype_eqb_eq in H1. apply IH in H2. now subst.
Qed.

(* ------------------------------------------------------------------ one stream *)
(* what a pair newly put into the cache by a stream of fingerprint fp with entries es comes with *)
Definition fresh (fp : Z) (es : list entry) (rows : list row) (d : Z) : Prop :=
  (exists e, In e es /\ day_of (e_ts e) = d) /\
  forall t, In t (types_of es) -> In (d, fp, tcode t) rows.

Lemma announce_fold fp es : forall days c0 r0 c' rows,
  (forall d, In d days -> exists e, In e es /\ day_of (e_ts e) = d) ->
  fold_left (announce fp (types_of es)) days (c0, r0) = (c', rows) ->
  incl c0 c' /\ incl r0 rows /\
  (forall d, In d days -> In (d, fp) c') /\
  (forall p, In p c' -> In p c0 \/ (snd p = fp /\ fresh fp es rows (fst p))).
Proof.
  induction days as [|d days IH]; intros c0 r0 c' rows Hd H; cbn [fold_left] in H.
  - inversion H; subst. split; [apply incl_refl|]. split; [apply incl_refl|]. split; [intros ? []|auto].
  - unfold announce at 2 in H. destruct (mem_pair (d, fp) c0) eqn:E.
    + apply IH in H; [|intros; apply Hd; now right]. destruct H as [H1 [H2 [H3 H4]]].
      split; [assumption|]. split; [assumption|]. split; [|assumption].
      intros x [<-|Hx]; [|now apply H3]. apply H1. now apply mem_pair_In.
    + apply IH in H; [|intros; apply Hd; now right]. destruct H as [H1 [H2 [H3 H4]]].
      split; [intros x Hx; apply H1; now right|].
      split; [intros x Hx; apply H2; apply in_or_app; now left|].
      split.
      * intros x [<-|Hx]; [|now apply H3]. apply H1. now left.
      * intros p Hp. destruct (H4 p Hp) as [[<-|Hc]|Hf]; [|now left|now right].
        right. cbn [fst snd]. split; [reflexivity|]. split; [apply Hd; now left|].
        intros t Ht. apply H2. apply in_or_app. right. apply in_map_iff. exists t. split; [reflexivity|assumption].
Qed.

Lemma on_entries_spec s c0 r0 c' rows :
  on_entries (c0, r0) s = (c', rows) ->
  incl c0 c' /\ incl r0 rows /\
  (forall e, In e (s_entries s) -> In (day_of (e_ts e), s_fp s) c') /\
  (forall p, In p c' -> In p c0 \/ (snd p = s_fp s /\ fresh (s_fp s) (s_entries s) rows (fst p))).
Proof.
  unfold on_entries. intros H. apply announce_fold in H; [|intros d Hd; now apply days_of_In].
  destruct H as [H1 [H2 [H3 H4]]]. split; [assumption|]. split; [assumption|]. split; [|assumption].
  intros e He. apply H3. apply days_of_In. exists e. split; [assumption|reflexivity].
Qed.

Lemma fresh_mono fp es r1 r2 d : incl r1 r2 -> fresh fp es r1 d -> fresh fp es r2 d.
Proof. intros Hi [H1 H2]. split; [assumption|]. intros t Ht. apply Hi. now apply H2. Qed.

(* ------------------------------------------------------------------ a whole request *)
Lemma parse_fold : forall ss c0 r0 c' rows,
  fold_left on_entries ss (c0, r0) = (c', rows) ->
  incl c0 c' /\ incl r0 rows /\
  (forall s e, In s ss -> In e (s_entries s) -> In (day_of (e_ts e), s_fp s) c') /\
  (forall p, In p c' -> In p c0 \/ exists s, In s ss /\ snd p = s_fp s /\ fresh (s_fp s) (s_entries s) rows (fst p)).
Proof.
  induction ss as [|s ss IH]; intros c0 r0 c' rows H; cbn [fold_left] in H.
  - inversion H; subst. split; [apply incl_refl|]. split; [apply incl_refl|]. split; [intros ? ? []|auto].
  - destruct (on_entries (c0, r0) s) as [c1 r1] eqn:E1.
    apply on_entries_spec in E1. destruct E1 as [A1 [A2 [A3 A4]]].
    apply IH in H. destruct H as [B1 [B2 [B3 B4]]].
    split; [eapply incl_tran; eassumption|]. split; [eapply incl_tran; eassumption|]. split.
    + intros s' e [<-|Hs] He; [apply B1; now apply A3|now apply (B3 s' e)].
    + intros p Hp. destruct (B4 p Hp) as [Hc|[s' [Hs' [Hfp Hf]]]].
      * destruct (A4 p Hc) as [H0|[Hfp Hf]]; [now left|]. right. exists s. split; [now left|]. split; [assumption|].
        eapply fresh_mono; eassumption.
      * right. exists s'. split; [now right|]. split; assumption.
Qed.

Lemma parse_spec c0 ss c' rows :
  parse c0 ss = (c', rows) ->
  incl c0 c' /\
  (forall s e, In s ss -> In e (s_entries s) -> In (day_of (e_ts e), s_fp s) c') /\
  (forall p, In p c' -> In p c0 \/ exists s, In s ss /\ snd p = s_fp s /\ fresh (s_fp s) (s_entries s) rows (fst p)).
Proof. unfold parse. intros H. apply parse_fold in H. tauto. Qed.

Lemma samples_of_In fp d t ss :
  In (fp, d, t) (samples_of ss) ->
  exists s e, In s ss /\ In e (s_entries s) /\ fp = s_fp s /\ d = day_of (e_ts e) /\ t = tcode (e_type e).
Proof.
  unfold samples_of. rewrite in_flat_map. intros [s [Hs H]]. apply in_map_iff in H.
  destruct H as [e [He1 He2]]. inversion He1; subst. exists s, e. auto.
Qed.

(* ------------------------------------------------------------------ invariants
   S: the streams the history may push. The typed invariant says: every announced pair has, among
   the inserted rows, one row per sample type of every stream of S with that fingerprint. *)
Section INV.
  Variable S : list stream.
  Hypothesis Hstable : forall s1 s2, In s1 S -> In s2 S -> s_fp s1 = s_fp s2 ->
                       types_of (s_entries s1) = types_of (s_entries s2).

  Definition I (st : state) : Prop :=
    forall d fp, In (d, fp) (cache st) -> exists t, In (d, fp, t) (ts_rows st).
  Definition J (st : state) : Prop :=
    forall fp d t, In (fp, d, t) (acked st) -> exists t', In (d, fp, t') (ts_rows st).
  Definition It (st : state) : Prop :=
    forall d fp, In (d, fp) (cache st) ->
    forall s t, In s S -> s_fp s = fp -> In t (types_of (s_entries s)) -> In (d, fp, tcode t) (ts_rows st).
  Definition Jt (st : state) : Prop :=
    forall fp d t, In (fp, d, t) (acked st) -> In (d, fp, t) (ts_rows st).

  Definition next_dirty (a : action) : bool :=
    match a with CacheReset => false | Push _ ts_ok _ => negb ts_ok end.
  Definition allowed (dirty : bool) (a : action) : Prop :=
    match a with CacheReset => True | Push _ _ _ => dirty = false end.
  Definition within (a : action) : Prop :=
    match a with CacheReset => True | Push ss _ _ => incl ss S end.

  Lemma step_untyped st a dirty :
    allowed dirty a -> J st -> (dirty = false -> I st) ->
    J (fst (step st a)) /\ (next_dirty a = false -> I (fst (step st a))).
  Proof.
    intros Ha HJ HI. destruct a as [ss ts_ok spl_ok|]; cbn [step].
    - cbn [allowed] in Ha. specialize (HI Ha).
      destruct (parse (cache st) ss) as [c' rows] eqn:Ep. cbn [fst].
      apply parse_spec in Ep. destruct Ep as [P1 [P2 P3]].
      (* the cache after the parse is covered by the rows present if the series insert took place or was not needed *)
      assert (Hcov : is_nil rows || ts_ok = true ->
                     forall d fp, In (d, fp) c' -> exists t, In (d, fp, t) (if ts_ok then rows ++ ts_rows st else ts_rows st)).
      { intros Hd d fp Hin. destruct (P3 _ Hin) as [H0|[s [Hs [Hfp [[e [He Hde]] Hr]]]]].
        - destruct (HI d fp H0) as [t Ht]. exists t. destruct ts_ok; [apply in_or_app; now right|assumption].
        - cbn [fst snd] in *. subst fp. pose proof (Hr _ (types_of_complete e _ He)) as Hrow.
          destruct ts_ok.
          + exists (tcode (e_type e)). apply in_or_app. now left.
          + rewrite orb_false_r in Hd. destruct rows; [destruct Hrow|discriminate Hd]. }
      split.
      + intros fp d t Hin. cbn [acked ts_rows] in *.
        destruct (is_nil rows || ts_ok) eqn:Ed; cbn [andb] in Hin.
        * destruct spl_ok; cbn in Hin.
          -- apply in_app_or in Hin. destruct Hin as [Hin|Hin].
             ++ apply samples_of_In in Hin. destruct Hin as [s [e [Hs [He [-> [-> _]]]]]].
                apply (Hcov eq_refl). now apply (P2 s e).
             ++ destruct (HJ _ _ _ Hin) as [t' Ht']. exists t'. destruct ts_ok; [apply in_or_app; now right|assumption].
          -- destruct (HJ _ _ _ Hin) as [t' Ht']. exists t'. destruct ts_ok; [apply in_or_app; now right|assumption].
        * destruct (HJ _ _ _ Hin) as [t' Ht']. exists t'. destruct ts_ok; [apply in_or_app; now right|assumption].
      + cbn [next_dirty]. intros Hn. apply negb_false_iff in Hn. subst ts_ok.
        intros d fp Hin. cbn [cache ts_rows] in *. apply (Hcov (orb_true_r _) d fp Hin).
    - cbn [fst next_dirty]. split; [exact HJ|]. intros _ d fp [].
  Qed.

  Lemma step_typed st a dirty :
    allowed dirty a -> within a -> Jt st -> (dirty = false -> It st) ->
    Jt (fst (step st a)) /\ (next_dirty a = false -> It (fst (step st a))).
  Proof.
    intros Ha Hw HJ HI. destruct a as [ss ts_ok spl_ok|]; cbn [step].
    - cbn [allowed] in Ha. specialize (HI Ha). cbn [within] in Hw.
      destruct (parse (cache st) ss) as [c' rows] eqn:Ep. cbn [fst].
      apply parse_spec in Ep. destruct Ep as [P1 [P2 P3]].
      assert (Hcov : is_nil rows || ts_ok = true ->
                     forall d fp, In (d, fp) c' -> forall s t, In s S -> s_fp s = fp -> In t (types_of (s_entries s)) ->
                     In (d, fp, tcode t) (if ts_ok then rows ++ ts_rows st else ts_rows st)).
      { intros Hd d fp Hin s t HsS Hfp Ht. destruct (P3 _ Hin) as [H0|[s0 [Hs0 [Hfp0 [[e [He Hde]] Hr]]]]].
        - pose proof (HI d fp H0 s t HsS Hfp Ht) as Hrow. destruct ts_ok; [apply in_or_app; now right|assumption].
        - cbn [fst snd] in *. subst fp.
          assert (Et : types_of (s_entries s) = types_of (s_entries s0)).
          { apply Hstable; [assumption|now apply Hw|congruence]. }
          rewrite Et in Ht. pose proof (Hr _ Ht) as Hrow. rewrite <- Hfp0 in Hrow.
          destruct ts_ok.
          + apply in_or_app. now left.
          + rewrite orb_false_r in Hd. destruct rows; [destruct Hrow|discriminate Hd]. }
      split.
      + intros fp d t Hin. cbn [acked ts_rows] in *.
        destruct (is_nil rows || ts_ok) eqn:Ed; cbn [andb] in Hin.
        * destruct spl_ok; cbn in Hin.
          -- apply in_app_or in Hin. destruct Hin as [Hin|Hin].
             ++ apply samples_of_In in Hin. destruct Hin as [s [e [Hs [He [-> [-> ->]]]]]].
                apply (Hcov eq_refl _ _ (P2 s e Hs He) s (e_type e)); [now apply Hw|reflexivity|now apply types_of_complete].
             ++ pose proof (HJ _ _ _ Hin) as Ht'. destruct ts_ok; [apply in_or_app; now right|assumption].
          -- pose proof (HJ _ _ _ Hin) as Ht'. destruct ts_ok; [apply in_or_app; now right|assumption].
        * pose proof (HJ _ _ _ Hin) as Ht'. destruct ts_ok; [apply in_or_app; now right|assumption].
      + cbn [next_dirty]. intros Hn. apply negb_false_iff in Hn. subst ts_ok.
        intros d fp Hin. cbn [cache ts_rows] in *. apply (Hcov (orb_true_r _) d fp Hin).
    - cbn [fst next_dirty]. split; [exact HJ|]. intros _ d fp [].
  Qed.

  Lemma clean_step dirty a h :
    clean_hist dirty (a :: h) = true -> allowed dirty a /\ clean_hist (next_dirty a) h = true.
  Proof.
    destruct a as [ss ts_ok spl_ok|]; cbn [clean_hist allowed next_dirty].
    - intros H. apply andb_true_iff in H. destruct H as [H1 H2]. apply negb_true_iff in H1. auto.
    - auto.
  Qed.

  Lemma run_untyped : forall h st dirty,
    clean_hist dirty h = true -> J st -> (dirty = false -> I st) -> J (run st h).
  Proof.
    induction h as [|a h IH]; intros st dirty Hc HJ HI; cbn [run]; [assumption|].
    apply clean_step in Hc. destruct Hc as [Ha Hc].
    destruct (step_untyped st a dirty Ha HJ HI) as [HJ' HI'].
    exact (IH _ _ Hc HJ' HI').
  Qed.

  Lemma run_typed : forall h st dirty,
    clean_hist dirty h = true -> Forall within h -> Jt st -> (dirty = false -> It st) -> Jt (run st h).
  Proof.
    induction h as [|a h IH]; intros st dirty Hc Hw HJ HI; cbn [run]; [assumption|].
    apply clean_step in Hc. destruct Hc as [Ha Hc]. inversion Hw as [|? ? Hwa Hwh]; subst.
    destruct (step_typed st a dirty Ha Hwa HJ HI) as [HJ' HI'].
    exact (IH _ _ Hc Hwh HJ' HI').
  Qed.
End INV.

(* ------------------------------------------------------------------ boolean forms *)
Lemma indexed_of_row rows fp d t t' : In (d, fp, t') rows -> indexed rows (fp, d, t) = true.
Proof.
  intros H. cbn [indexed]. apply existsb_exists. exists (d, fp, t'). split; [assumption|].
  now rewrite !Z.eqb_refl.
Qed.

Lemma indexed_typed_of_row rows fp d t : In (d, fp, t) rows -> indexed_typed rows (fp, d, t) = true.
Proof.
  intros H. cbn [indexed_typed]. apply existsb_exists. exists (d, fp, t). split; [assumption|].
  now rewrite !Z.eqb_refl.
Qed.

Lemma acked_indexed_clean h : clean_hist false h = true -> all_indexed (run init h) = true.
Proof.
  intros Hc. unfold all_indexed. apply forallb_forall. intros [[fp d] t] Hin.
  assert (HJ : J (run init h)).
  { apply (run_untyped h init false Hc); [intros ? ? ? []|intros _ ? ? []]. }
  destruct (HJ fp d t Hin) as [t' Ht']. now apply (indexed_of_row _ fp d t t').
Qed.

Lemma within_all_streams h : Forall (within (all_streams h)) h.
Proof.
  assert (G : forall h0 S, incl (all_streams h0) S -> Forall (within S) h0).
  { induction h0 as [|a h0 IH]; intros S Hi; constructor.
    - destruct a as [ss ? ?|]; cbn [within]; [|exact Logic.I].
      intros s Hs. apply Hi. unfold all_streams. cbn [flat_map]. apply in_or_app. now left.
    - apply IH. intros s Hs. apply Hi. unfold all_streams. cbn [flat_map]. apply in_or_app. now right. }
  apply G. apply incl_refl.
Qed.

Lemma types_stable_spec h : types_stable h = true ->
  forall s1 s2, In s1 (all_streams h) -> In s2 (all_streams h) -> s_fp s1 = s_fp s2 ->
  types_of (s_entries s1) = types_of (s_entries s2).
Proof.
  unfold types_stable. intros H s1 s2 H1 H2 Hfp.
  rewrite forallb_forall in H. specialize (H s1 H1). rewrite forallb_forall in H. specialize (H s2 H2).
  unfold stable_pair in H. apply orb_true_iff in H. destruct H as [H|H].
  - apply negb_true_iff, Z.eqb_neq in H. contradiction.
  - now apply types_eqb_eq.
Qed.

Lemma acked_indexed_typed_clean h :
  clean_hist false h = true -> types_stable h = true -> all_indexed_typed (run init h) = true.
Proof.
  intros Hc Hs. unfold all_indexed_typed. apply forallb_forall. intros [[fp d] t] Hin.
  assert (HJ : Jt (run init h)).
  { apply (run_typed (all_streams h) (types_stable_spec h Hs) h init false Hc (within_all_streams h));
      [intros ? ? ? []|intros _ ? ? []]. }
  apply indexed_typed_of_row. now apply HJ.
Qed.

(* ------------------------------------------------------------------ witnesses *)
(* one series, one log line on 2024-01-10 *)
Definition w_stream : stream := {| s_fp := 7; s_entries := [{| e_ts := 1704888000000000000; e_type := TLog |}] |}.
(* #13: the series insert of the first push fails (client sees 5xx, samples are stored); the client
   retries the identical push, which is acknowledged although no series row was ever inserted *)
Definition w_retry : list action := [Push [w_stream] false true; Push [w_stream] true true].
Lemma w_retry_not_indexed : all_indexed (run init w_retry) = false.
Proof. vm_compute. reflexivity. Qed.

(* the same labels first with a log line, then with a metric value on the same day: the second push
   finds the pair announced and adds no type-2 row; PromQL selects  type IN (2, 0)  *)
Definition w_stream_metric : stream := {| s_fp := 7; s_entries := [{| e_ts := 1704888060000000000; e_type := TMetric |}] |}.
Definition w_types : list action := [Push [w_stream] true true; Push [w_stream_metric] true true].
Lemma w_types_not_indexed : all_indexed_typed (run init w_types) = false /\ clean_hist false w_types = true.
Proof. vm_compute. split; reflexivity. Qed.

(* the guards are satisfiable by histories with faults, resets and several series *)
Definition w_clean : list action :=
  [Push [w_stream] true true; Push [w_stream; w_stream] false true; CacheReset; Push [w_stream] true false; Push [w_stream] true true].
Example w_clean_ok : clean_hist false w_clean = true /\ types_stable w_clean = true /\
                     acked (run init w_clean) <> [].
Proof. vm_compute. split; [reflexivity|]. split; [reflexivity|discriminate]. Qed.
