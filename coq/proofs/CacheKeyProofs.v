(* Proofs about model/CacheKey.v (property C04). *)
From Coq Require Import List ZArith Lia Bool String Ascii.
From Qryn Require Import model.GoQuote model.SeriesIndex model.CacheKey proofs.SeriesIndexProofs.
Import ListNotations.
Open Scope Z_scope.

(* ------------------------------------------------------------------ the little-endian serializer is injective *)
Lemma byte_chr n : 0 <= n < 256 -> byte (chr n) = n.
Proof.
  intros H. unfold byte, chr. rewrite N_ascii_embedding by lia. apply Z2N.id. lia.
Qed.

Lemma un_le_le_bytes : forall n k, 0 <= k -> un_le (le_bytes n k) = k mod 256 ^ Z.of_nat n.
Proof.
  induction n as [|n IH]; intros k Hk.
  - cbn [le_bytes un_le Z.of_nat]. rewrite Z.pow_0_r, Z.mod_1_r. reflexivity.
  - cbn [le_bytes un_le]. rewrite byte_chr by (apply Z.mod_pos_bound; lia).
    rewrite IH by (apply Z.div_pos; lia).
    rewrite Nat2Z.inj_succ, Z.pow_succ_r by lia.
    rewrite Z.rem_mul_r by lia. reflexivity.
Qed.

Lemma ser_le8_injective a b :
  0 <= a < 2 ^ 64 -> 0 <= b < 2 ^ 64 -> ser_le8 a = ser_le8 b -> a = b.
Proof.
  intros Ha Hb H. apply (f_equal un_le) in H. unfold ser_le8 in H.
  rewrite !un_le_le_bytes in H by lia. change (256 ^ Z.of_nat 8) with (2 ^ 64) in H.
  rewrite !Z.mod_small in H by lia. exact H.
Qed.

(* ------------------------------------------------------------------ round 7: the node prefix keeps the views of the nodes apart *)
Lemma le_bytes_length n : forall k, String.length (le_bytes n k) = n.
Proof. induction n as [|n IH]; intros k; cbn [le_bytes String.length]; [reflexivity|]. now rewrite IH. Qed.

Lemma str_length_app (p s : string) : String.length (p ++ s) = (String.length p + String.length s)%nat.
Proof. induction p as [|a p IH]; cbn [String.append String.length]; [reflexivity|]. now rewrite IH. Qed.

Lemma str_app_inj : forall (p q s t : string),
  String.length s = String.length t -> (p ++ s = q ++ t)%string -> p = q /\ s = t.
Proof.
  induction p as [|a p IH]; intros [|b q] s t Hl H; cbn [String.append] in H.
  - now split.
  - exfalso. subst s. cbn [String.length] in Hl. rewrite str_length_app in Hl. lia.
  - exfalso. subst t. cbn [String.length] in Hl. rewrite str_length_app in Hl. lia.
  - injection H as Hab H. destruct (IH q s t Hl H) as [Hp Hs]. subst. now split.
Qed.

Lemma node_key_injective p q a b :
  0 <= a < 2 ^ 64 -> 0 <= b < 2 ^ 64 -> node_key p a = node_key q b -> p = q /\ a = b.
Proof.
  intros Ha Hb H. unfold node_key in H.
  destruct (str_app_inj p q (ser_le8 a) (ser_le8 b)) as [Hp Hs]; [|exact H|].
  - unfold ser_le8. now rewrite !le_bytes_length.
  - split; [exact Hp|now apply ser_le8_injective].
Qed.

Lemma view_key_code_injective n m a b :
  0 <= a < 2 ^ 64 -> 0 <= b < 2 ^ 64 -> view_key_code n a = view_key_code m b -> n_node n = n_node m /\ a = b.
Proof. unfold view_key_code. apply node_key_injective. Qed.

(* two entries of database_data as in the tester's demonstration: different node names, the default database name *)
Definition ex_ch1 : cnode := {| n_node := "ch1"; n_db := "qryn" |}.
Definition ex_ch2 : cnode := {| n_node := "ch2"; n_db := "qryn" |}.
Lemma view_key_by_db_collides :
  n_node ex_ch1 <> n_node ex_ch2 /\
  (forall k, view_key_by_db ex_ch1 k = view_key_by_db ex_ch2 k) /\
  view_key_code ex_ch1 7 <> view_key_code ex_ch2 7.
Proof. split; [discriminate|split; [reflexivity|vm_compute; discriminate]]. Qed.

(* ------------------------------------------------------------------ byte-keyed cache = triple-keyed cache *)
Section KEYED.
  Variable key : row -> Z.
  Variable ser : Z -> string.
  Hypothesis Hinj : forall x y, ck key ser x = ck key ser y -> x = y.

  Notation ckf := (ck key ser).
  (* the model threads ONE set (cache extended by the request's own rows) through the parse *)
  Definition sim (c : list row) (a b : list row * list row) : Prop := b = (fst a ++ c, snd a).

  Lemma kmem_mem x c : kmem key ser x (map ckf c) = mem_row x c.
  Proof.
    unfold kmem, mem_row. induction c as [|y c IH]; [reflexivity|].
    cbn [map existsb]. rewrite IH. f_equal.
    destruct (row_eqb x y) eqn:E.
    - apply row_eqb_eq in E. subst. apply String.eqb_refl.
    - apply String.eqb_neq. intros H. apply Hinj in H. subst.
      assert (row_eqb y y = true) by now apply row_eqb_eq. congruence.
  Qed.

  Lemma mem_row_app x (a b : list row) : mem_row x (a ++ b) = mem_row x a || mem_row x b.
  Proof. unfold mem_row. apply existsb_app. Qed.

  Lemma fold_sim {X} c (f g : list row * list row -> X -> list row * list row) :
    (forall a b x, sim c a b -> sim c (f a x) (g b x)) ->
    forall l a b, sim c a b -> sim c (fold_left f l a) (fold_left g l b).
  Proof.
    intros H. induction l as [|x l IH]; intros a b Hs; cbn [fold_left]; [assumption|].
    apply IH. now apply H.
  Qed.

  Lemma announce_type_sim c d fp a b t :
    sim c a b -> sim c (k_announce_type key ser (map ckf c) d fp a t) (announce_type d fp b t).
  Proof.
    unfold sim. intros ->. destruct a as [loc rows]. cbn [fst snd].
    unfold k_announce_type, announce_type. rewrite kmem_mem.
    rewrite mem_row_app.
    destruct (mem_row (d, fp, tcode t) loc || mem_row (d, fp, tcode t) c); reflexivity.
  Qed.

  Lemma parse_sim c ss : sim c (k_parse key ser (map ckf c) ss) (parse c ss).
  Proof.
    unfold k_parse, parse. apply fold_sim; [|reflexivity].
    intros a b s Hs. unfold k_on_entries, on_entries. apply fold_sim; [|assumption].
    intros a' b' d Hs'. unfold k_announce, announce. apply fold_sim; [|assumption].
    intros a'' b'' t Hs''. now apply announce_type_sim.
  Qed.

  Lemma k_parse_rows c ss : snd (k_parse key ser (map ckf c) ss) = snd (parse c ss).
  Proof. pose proof (parse_sim c ss) as H. unfold sim in H. now rewrite H. Qed.

  (* ConfirmSeries on the byte keys = entering the rows into the model's set *)
  Lemma k_confirm_map c rows : k_confirm key ser (map ckf c) rows = map ckf (rows ++ c).
  Proof. unfold k_confirm. now rewrite map_app. Qed.
  Lemma k_refines c ss :
    snd (k_parse key ser (map ckf c) ss) = snd (parse c ss) /\
    k_confirm key ser (map ckf c) (snd (parse c ss)) = map ckf (snd (parse c ss) ++ c).
  Proof. split; [apply k_parse_rows|apply k_confirm_map]. Qed.
End KEYED.

(* without injectivity the refinement fails: a serializer that keeps the low 32 bits only, two
   announcements whose keys agree there - the second one is swallowed *)
Definition ser_low32 (k : Z) : string := le_bytes 8 (k mod 4294967296).
Definition ex_key (x : row) : Z := let '(d, fp, t) := x in fp.     (* any key hash; here the fingerprint itself *)
Definition ex_s1 : stream := {| s_fp := 4561022149596265783; s_entries := [{| e_ts := 1704888000000000000; e_type := TLog |}] |}.
Definition ex_s2 : stream := {| s_fp := 12476575841660157239; s_entries := [{| e_ts := 1704888000000000000; e_type := TLog |}] |}.
Definition ex_rows1 : list row := snd (k_parse ex_key ser_low32 [] [ex_s1]).
Example truncating_serializer_swallows :
  ex_rows1 = [(19732, 4561022149596265783, 1)] /\
  snd (parse ex_rows1 [ex_s2]) = [(19732, 12476575841660157239, 1)] /\
  snd (k_parse ex_key ser_low32 (k_confirm ex_key ser_low32 [] ex_rows1) [ex_s2]) = [] /\
  snd (k_parse ex_key ser_le8 (k_confirm ex_key ser_le8 [] ex_rows1) [ex_s2]) = snd (parse ex_rows1 [ex_s2]).
Proof. vm_compute. repeat split. Qed.
