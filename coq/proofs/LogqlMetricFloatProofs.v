(* Proofs for C08, float64: see model/LogqlMetricFloat.v for what is exact and what is approximate. *)
From Coq Require Import List ZArith QArith Qcanon String Bool Lia Permutation.
From Qryn Require Import model.Logql model.LogqlPlan model.LogqlMetricSem model.LogqlMetricFloat.
Import ListNotations.
Open Scope Z_scope.

Lemma qz_add a b : Qcplus (qz a) (qz b) = qz (a + b).
Proof.
  unfold qz. apply Qc_is_canon. cbn [this Qcplus Q2Qc]. rewrite !Qred_correct. rewrite inject_Z_plus. reflexivity.
Qed.
Lemma qsum_qz zs : qsum (map qz zs) = qz (zsum zs).
Proof. induction zs as [|z r IH]; cbn [map qsum fold_right zsum]; [reflexivity|]. fold (qsum (map qz r)). rewrite IH. apply qz_add. Qed.
Lemma zsum_app a b : zsum (a ++ b) = zsum a + zsum b.
Proof. induction a as [|x r IH]; cbn [app zsum fold_right]; [reflexivity|]. fold (zsum (r ++ b)). fold (zsum r). lia. Qed.
Lemma abs_sum_app a b : abs_sum (a ++ b) = abs_sum a + abs_sum b.
Proof. induction a as [|x r IH]; cbn [app abs_sum fold_right]; [reflexivity|]. fold (abs_sum (r ++ b)). fold (abs_sum r). lia. Qed.
Lemma zsum_abs zs : Z.abs (zsum zs) <= abs_sum zs.
Proof. induction zs as [|x r IH]; cbn [zsum abs_sum fold_right]; [lia|]. fold (zsum r). fold (abs_sum r). lia. Qed.
Lemma abs_sum_nonneg zs : 0 <= abs_sum zs.
Proof. induction zs as [|x r IH]; cbn [abs_sum fold_right]; [lia|]. fold (abs_sum r). lia. Qed.
Lemma zsum_perm a b : Permutation a b -> zsum a = zsum b.
Proof. induction 1; cbn [zsum fold_right] in *; try fold (zsum l) in *; try fold (zsum l') in *; lia. Qed.
Lemma abs_sum_perm a b : Permutation a b -> abs_sum a = abs_sum b.
Proof. induction 1; cbn [abs_sum fold_right] in *; try fold (abs_sum l) in *; try fold (abs_sum l') in *; lia. Qed.

Lemma map_eq_app_inv {A B} (f : A -> B) : forall l1 l2 l, (l1 ++ l2)%list = map f l ->
  exists a b, l = (a ++ b)%list /\ l1 = map f a /\ l2 = map f b.
Proof.
  induction l1 as [|x r IH]; intros l2 l H; cbn [app] in H.
  - exists [], l. auto.
  - destruct l as [|y l']; [discriminate|]. cbn [map] in H. inversion H; subst.
    destruct (IH _ _ H2) as [a [b [-> [-> ->]]]]. exists (y :: a), b. auto.
Qed.

Section FLOAT64_PROOFS.
  Variable rnd : Qc -> Qc.
  Hypothesis rnd_int : forall z, int53 z -> rnd (qz z) = qz z.

  (* integer summands whose absolute values add up to at most 2^53: every summation tree is exact *)
  Lemma fl_sum_int t : forall zs, leaves t = map qz zs -> abs_sum zs <= 2 ^ 53 -> fl_sum rnd t = qz (zsum zs).
  Proof.
    induction t as [q|l IHl r IHr]; intros zs Hl Hb; cbn [leaves fl_sum] in *.
    - destruct zs as [|z [|? ?]]; try discriminate. inversion Hl; subst. cbn. f_equal. lia.
    - destruct (map_eq_app_inv qz _ _ _ Hl) as [a [b [-> [Ha Hb']]]].
      rewrite abs_sum_app in Hb. pose proof (abs_sum_nonneg a). pose proof (abs_sum_nonneg b).
      rewrite (IHl a Ha) by lia. rewrite (IHr b Hb') by lia. rewrite qz_add, zsum_app. apply rnd_int.
      unfold int53. pose proof (zsum_abs a). pose proof (zsum_abs b). lia.
  Qed.
  Theorem fl_sum_exact t zs vals : Permutation (leaves t) vals -> vals = map qz zs -> abs_sum zs <= 2 ^ 53 ->
    fl_sum rnd t = qsum vals.
  Proof.
    intros Hp -> Hb. apply Permutation_map_inv in Hp. destruct Hp as [zs' [Hl Hp]].
    rewrite (fl_sum_int t zs' Hl) by (rewrite <- (abs_sum_perm _ _ Hp); exact Hb).
    rewrite qsum_qz. f_equal. symmetry. now apply zsum_perm.
  Qed.

  Lemma bytes_sum (g : list mrow) :
    bytes_of g = qz (zsum (map (fun r => Z.of_nat (String.length (r_line r))) g)).
  Proof. unfold bytes_of. rewrite <- qsum_qz, map_map. reflexivity. Qed.

  (* count_over_time / bytes_over_time: exact below 2^53 lines / bytes per window *)
  Theorem fl_lra_exact v (g : list mrow) :
    match v with
    | LVCount => Z.of_nat (List.length g) <= 2 ^ 53
    | LVBytes => zsum (map (fun r => Z.of_nat (String.length (r_line r))) g) <= 2 ^ 53
    | _ => False
    end -> fl_eval_lra rnd v g = eval_lra v g.
  Proof.
    assert (Hnn : 0 <= zsum (map (fun r => Z.of_nat (String.length (r_line r))) g)).
    { induction g as [|x r IH]; cbn [map zsum fold_right]; [lia|]. fold (zsum (map (fun r => Z.of_nat (String.length (r_line r))) r)). lia. }
    destruct v; intros H; try contradiction; cbn [fl_eval_lra eval_lra].
    - apply rnd_int. unfold int53. lia.
    - rewrite bytes_sum. apply rnd_int. unfold int53. lia.
  Qed.
  (* rate / bytes_rate over a range of whole seconds: the correctly rounded value of the reference's rational *)
  Theorem fl_lra_rate_one_rounding v (g : list mrow) k :
    0 < k <= 2 ^ 53 ->
    match v with
    | LVCountDiv d => d = k * 1000000000 /\ Z.of_nat (List.length g) <= 2 ^ 53
    | LVBytesDiv d => d = k * 1000000000 /\ zsum (map (fun r => Z.of_nat (String.length (r_line r))) g) <= 2 ^ 53
    | _ => False
    end -> fl_eval_lra rnd v g = rnd (eval_lra v g).
  Proof.
    intros Hk.
    assert (Hnn : 0 <= zsum (map (fun r => Z.of_nat (String.length (r_line r))) g)).
    { induction g as [|x r IH]; cbn [map zsum fold_right]; [lia|]. fold (zsum (map (fun r => Z.of_nat (String.length (r_line r))) r)). lia. }
    assert (Hs : forall d, d = k * 1000000000 -> rnd (secs_exact d) = secs_exact d).
    { intros d ->. replace (secs_exact (k * 1000000000)) with (qz k); [apply rnd_int; unfold int53; lia|].
      unfold secs_exact, qfrac, qz. apply Qc_is_canon. cbn [this Q2Qc]. rewrite !Qred_correct.
      unfold Qeq, inject_Z. cbn [Qnum Qden]. lia. }
    destruct v; intros H; try contradiction; destruct H as [Hd Hb]; cbn [fl_eval_lra eval_lra]; rewrite (Hs _ Hd).
    - unfold qlen. rewrite rnd_int by (unfold int53; lia). reflexivity.
    - rewrite bytes_sum. rewrite rnd_int by (unfold int53; lia). reflexivity.
  Qed.
  (* sum_over_time / sum: exact; rate over unwrapped samples and avg: one rounding of the reference's rational *)
  Theorem fl_uw_rate_one_rounding t zs vals d k :
    Permutation (leaves t) vals -> vals = map qz zs -> abs_sum zs <= 2 ^ 53 -> 0 < k <= 2 ^ 53 -> d = k * 1000000000 ->
    fl_eval_uw_rate rnd d t = rnd (Qcdiv (qsum vals) (secs_exact d)).
  Proof.
    intros Hp Hv Hb Hk ->. unfold fl_eval_uw_rate. rewrite (fl_sum_exact t zs vals Hp Hv Hb).
    replace (secs_exact (k * 1000000000)) with (qz k); [now rewrite rnd_int by (unfold int53; lia)|].
    unfold secs_exact, qfrac, qz. apply Qc_is_canon. cbn [this Q2Qc]. rewrite !Qred_correct.
    unfold Qeq, inject_Z. cbn [Qnum Qden]. lia.
  Qed.
  Theorem fl_avg_one_rounding t zs vals :
    Permutation (leaves t) vals -> vals = map qz zs -> abs_sum zs <= 2 ^ 53 -> Z.of_nat (List.length vals) <= 2 ^ 53 ->
    fl_eval_avg rnd t = rnd (qavg vals).
  Proof.
    intros Hp Hv Hb Hn. unfold fl_eval_avg, qavg, qlen. rewrite (fl_sum_exact t zs vals Hp Hv Hb).
    rewrite (Permutation_length Hp). now rewrite rnd_int by (unfold int53; lia).
  Qed.
End FLOAT64_PROOFS.

(* the selections: one of the inputs, whatever the numbers are *)
Lemma fold_pick {A} (f : A -> A -> A) (Hf : forall a b, f a b = a \/ f a b = b) : forall (l : list A) x, In (fold_left f l x) (x :: l).
Proof.
  induction l as [|y r IH]; intros x; cbn [fold_left]; [now left|].
  destruct (IH (f x y)) as [E|Hin]; [|right; now right].
  rewrite <- E. destruct (Hf x y) as [E2|E2]; rewrite E2; [now left|right; now left].
Qed.
Theorem qmin_l_selects l : l <> [] -> In (qmin_l l) l.
Proof. destruct l as [|x r]; [congruence|]. intros _. apply fold_pick. intros a b. unfold qmin. destruct (qleb a b); auto. Qed.
Theorem qmax_l_selects l : l <> [] -> In (qmax_l l) l.
Proof. destruct l as [|x r]; [congruence|]. intros _. apply fold_pick. intros a b. unfold qmax. destruct (qleb a b); auto. Qed.
Theorem argmin_selects {A} (ts : A -> Z) (l : list A) x : argmin_ts ts l = Some x -> In x l.
Proof.
  destruct l as [|y r]; [discriminate|]. cbn [argmin_ts]. intros H. inversion H. apply fold_pick.
  intros a b. destruct (Z.ltb (ts b) (ts a)); auto.
Qed.
Theorem argmax_selects {A} (ts : A -> Z) (l : list A) x : argmax_ts ts l = Some x -> In x l.
Proof.
  destruct l as [|y r]; [discriminate|]. cbn [argmax_ts]. intros H. inversion H. apply fold_pick.
  intros a b. destruct (Z.ltb (ts a) (ts b)); auto.
Qed.

(* hypotheses met: three integer samples 3, -1, 7 summed as (3 + -1) + 7 under a rounding that is the identity *)
Example fl_sum_exact_hyp :
  let t := SNode (SNode (SLeaf (qz 3)) (SLeaf (qz (-1)))) (SLeaf (qz 7)) in
  Permutation (leaves t) (map qz [7; 3; -1]) /\ abs_sum [7; 3; -1] <= 2 ^ 53 /\ (forall z, int53 z -> (fun q => q) (qz z) = qz z)
  /\ fl_sum (fun q => q) t = qsum (map qz [7; 3; -1]).
Proof.
  cbv zeta. split.
  - cbn [leaves app map]. apply Permutation_sym. apply (perm_trans (l' := [qz 3; qz 7; qz (-1)])); [apply perm_swap|apply perm_skip, perm_swap].
  - split; [cbn; lia|]. split; [reflexivity|]. apply Qc_is_canon. vm_compute. reflexivity.
Qed.
