From Coq Require Import List ZArith Bool Lia.
From Qryn Require Import model.ReplanFix.
Import ListNotations.
Open Scope Z_scope.

Lemma quot_mul_self : forall a d, d <> 0 -> Z.quot (Z.quot a d * d) d = Z.quot a d.
Proof. intros a d D. apply Z.quot_mul. exact D. Qed.

Lemma quot_mul_add_self : forall a d, d <> 0 -> Z.quot (Z.quot a d * d + d) d = Z.quot a d + 1.
Proof.
  intros a d D. replace (Z.quot a d * d + d) with ((Z.quot a d + 1) * d) by ring. apply Z.quot_mul. exact D.
Qed.

(* From is rounded idempotently, To is not: a second rounding moves it up by one more range *)
Lemma fix_from_idempotent : forall d c, d <> 0 -> f_from (fix_window d (fix_window d c)) = f_from (fix_window d c).
Proof. intros d c D. cbn. rewrite quot_mul_self by exact D. reflexivity. Qed.

Lemma fix_to_moves_up : forall d c, d <> 0 -> f_to (fix_window d (fix_window d c)) = f_to (fix_window d c) + d.
Proof. intros d c D. cbn. rewrite quot_mul_add_self by exact D. ring. Qed.

Lemma fix_window_is_nth0 : forall d c, fix_window d c = fix_nth_window d c 0.
Proof. intros d c. unfold fix_window, fix_nth_window. cbn. f_equal. ring. Qed.

Lemma fix_nth_window_shift : forall d c k, d <> 0 -> fix_nth_window d (fix_window d c) k = fix_nth_window d c (S k).
Proof.
  intros d c k D. unfold fix_nth_window. cbn [fix_window f_from f_to f_step].
  rewrite quot_mul_self, quot_mul_add_self by exact D. f_equal. rewrite Nat2Z.inj_succ. ring.
Qed.

(* a refusal leaves the context alone, so the same object under the same context is refused for ever *)
Lemma fix_refused_for_ever : forall d k c j, fix_refuses c = true -> nth j (fix_run_one d k c) None = None.
Proof.
  intros d k. induction k as [|k IH]; intros c j R; cbn.
  - destruct j; reflexivity.
  - assert (P : fix_process d c = None) by (unfold fix_process; rewrite R; reflexivity).
    destruct j as [|j]; [exact P|]. unfold fix_after. rewrite P. apply IH. exact R.
Qed.

(* ONE object under ONE context: whenever the (k+1)-th execution is not refused, Main sees From rounded once and
   To rounded and moved up by k+1 ranges *)
Lemma fix_one_context_nth : forall d k c w, d <> 0 ->
  nth k (fix_run_one d (S k) c) None = Some w -> w = fix_nth_window d c k.
Proof.
  intros d k. induction k as [|k IH]; intros c w D H.
  - cbn in H. unfold fix_process in H. destruct (fix_refuses c); [discriminate H|].
    injection H as <-. apply fix_window_is_nth0.
  - change (fix_run_one d (S (S k)) c) with (fix_process d c :: fix_run_one d (S k) (fix_after d c)) in H.
    cbn [nth] in H. destruct (fix_refuses c) eqn:R.
    + assert (P : fix_process d c = None) by (unfold fix_process; rewrite R; reflexivity).
      unfold fix_after in H. rewrite P in H. rewrite fix_refused_for_ever in H by exact R. discriminate H.
    + assert (P : fix_process d c = Some (fix_window d c)) by (unfold fix_process; rewrite R; reflexivity).
      unfold fix_after in H. rewrite P in H. apply IH in H; [|exact D]. rewrite H. apply fix_nth_window_shift. exact D.
Qed.

(* ONE object, a new context per execution: the result of an execution is a function of the context of THAT execution *)
Lemma fix_fresh_nth : forall d cs1 c cs2,
  nth (List.length cs1) (fix_run_fresh d (cs1 ++ c :: cs2)) None = fix_process d c.
Proof.
  intros d cs1 c cs2. unfold fix_run_fresh. rewrite map_app. cbn.
  rewrite app_nth2; rewrite map_length; [|lia]. rewrite Nat.sub_diag. reflexivity.
Qed.

(* what an accepted execution hands to Main (times from 1970 on): whole ranges, covering the requested window, less than one
   range wider below and at most one range wider above *)
Lemma fix_window_covers : forall d c, 0 < d -> 0 <= f_from c -> f_from c <= f_to c ->
  let w := fix_window d c in
  f_from w <= f_from c < f_from w + d /\ f_to c < f_to w <= f_to c + d /\
  Z.rem (f_from w) d = 0 /\ Z.rem (f_to w) d = 0.
Proof.
  intros d c D F T. cbn.
  assert (Dn : d <> 0) by lia.
  pose proof (Z.quot_rem' (f_from c) d) as E1. pose proof (Z.rem_bound_pos (f_from c) d F D) as B1.
  pose proof (Z.quot_rem' (f_to c) d) as E2. assert (T0 : 0 <= f_to c) by lia.
  pose proof (Z.rem_bound_pos (f_to c) d T0 D) as B2.
  repeat split; try lia.
  - apply Z.rem_mul. exact Dn.
  - replace (Z.quot (f_to c) d * d + d) with ((Z.quot (f_to c) d + 1) * d) by ring. apply Z.rem_mul. exact Dn.
Qed.

(* before 1970 Go's truncating division rounds From UP: the window handed to Main starts after the requested one *)
Lemma fix_window_before_epoch : exists d c, 0 < d /\ f_from c <= f_to c /\ f_from c < f_from (fix_window d c).
Proof. exists 2, {| f_from := -1; f_to := 5; f_step := 1 |}. cbn. lia. Qed.

(* under ONE context the second execution is not the first: the witness of the harness (5 m ranges, one hour window, 15 s step) *)
Definition fix_witness_ctx : fctx := {| f_from := 1700000123000000000; f_to := 1700003723000000000; f_step := 15000000000 |}.
Definition fix_witness_d : Z := 300000000000.
Lemma fix_one_context_differs :
  fix_run_one fix_witness_d 2 fix_witness_ctx =
    [Some {| f_from := 1700000100000000000; f_to := 1700004000000000000; f_step := 15000000000 |};
     Some {| f_from := 1700000100000000000; f_to := 1700004300000000000; f_step := 15000000000 |}].
Proof. vm_compute. reflexivity. Qed.

(* among contexts with From <= To refusals are monotone in To (same From, same step): under one context the drift ends in a refusal *)
Lemma fix_refuses_mono : forall c c', f_step c' = f_step c -> f_from c' = f_from c -> f_from c <= f_to c -> f_to c <= f_to c' ->
  fix_refuses c = true -> fix_refuses c' = true.
Proof.
  intros c c' S F FT T. unfold fix_refuses. rewrite S, F. intro H.
  destruct (f_step c <=? 0) eqn:E1; [reflexivity|]. cbn in *. apply Z.leb_gt in E1.
  apply orb_true_iff in H. apply orb_true_iff. destruct H as [H|H].
  - apply Z.ltb_lt in H. lia.
  - right. apply Z.ltb_lt in H. apply Z.ltb_lt.
    pose proof (Z.quot_le_mono (f_to c - f_from c) (f_to c' - f_from c) (f_step c) E1 ltac:(lia)). lia.
Qed.

(* ... and it does: with a positive range every context is refused after finitely many executions under it *)
Lemma fix_one_context_eventually_refused : forall d c, 0 < d -> 0 < f_step c -> f_from c <= f_to c ->
  exists k, fix_refuses (fix_nth_window d c k) = true.
Proof.
  intros d c D S FT. exists (Z.to_nat (11001 * f_step c)). unfold fix_refuses. cbn [fix_nth_window f_from f_to f_step].
  apply orb_true_iff. right. apply Z.ltb_lt.
  rewrite Z2Nat.id by lia.
  pose proof (Z.quot_le_mono (f_from c) (f_to c) d D FT) as Q.
  set (a := Z.quot (f_from c) d) in *. set (b := Z.quot (f_to c) d) in *.
  assert (G : 11001 * f_step c <= b * d + d + 11001 * f_step c * d - a * d) by nia.
  pose proof (Z.quot_le_mono _ _ (f_step c) S G) as M.
  rewrite Z.quot_mul in M by lia. lia.
Qed.

(* ---- the exact result of every execution under one context ---- *)
Definition fix_nth_result (d : Z) (c : fctx) (k : nat) : option fctx :=
  if fix_refuses c then None else
  match k with
  | O => Some (fix_nth_window d c 0)
  | S j => if fix_refuses (fix_nth_window d c j) then None else Some (fix_nth_window d c (S j))
  end.

Lemma fix_accepted_window_ordered : forall d c k, 0 < d -> fix_refuses c = false ->
  f_from (fix_nth_window d c k) <= f_to (fix_nth_window d c k).
Proof.
  intros d c k D R. unfold fix_refuses in R. apply orb_false_iff in R. destruct R as [R _].
  apply orb_false_iff in R. destruct R as [_ R]. apply Z.ltb_ge in R. cbn.
  pose proof (Z.quot_le_mono (f_from c) (f_to c) d D R). nia.
Qed.

Lemma fix_one_context_exact : forall d k c, 0 < d ->
  nth k (fix_run_one d (S k) c) None = fix_nth_result d c k.
Proof.
  intros d k. induction k as [|k IH]; intros c D.
  - cbn. unfold fix_process, fix_nth_result. destruct (fix_refuses c); [reflexivity|]. rewrite fix_window_is_nth0. reflexivity.
  - change (fix_run_one d (S (S k)) c) with (fix_process d c :: fix_run_one d (S k) (fix_after d c)). cbn [nth].
    unfold fix_nth_result. destruct (fix_refuses c) eqn:R.
    + assert (P : fix_process d c = None) by (unfold fix_process; rewrite R; reflexivity).
      unfold fix_after. rewrite P. apply fix_refused_for_ever. exact R.
    + assert (P : fix_process d c = Some (fix_window d c)) by (unfold fix_process; rewrite R; reflexivity).
      unfold fix_after. rewrite P. rewrite IH by exact D. unfold fix_nth_result.
      assert (Dn : d <> 0) by lia.
      destruct k as [|i].
      * rewrite fix_window_is_nth0 at 1. rewrite fix_nth_window_shift by exact Dn. reflexivity.
      * rewrite !fix_nth_window_shift by exact Dn. rewrite (fix_window_is_nth0 d c).
        destruct (fix_refuses (fix_nth_window d c 0)) eqn:R0; [|reflexivity].
        rewrite (fix_refuses_mono (fix_nth_window d c 0) (fix_nth_window d c (S i))); try reflexivity; try exact R0.
        -- apply fix_accepted_window_ordered; assumption.
        -- unfold fix_nth_window; cbn [f_to]. pose proof (Nat2Z.is_nonneg (S i)). change (Z.of_nat 0) with 0. nia.
Qed.
(* the model computes in Z, the code in int64: for times within +-2^62 ns (years 1823 .. 2116) and ranges up to 2^62 ns no
   intermediate or result of the modelled part leaves the int64 range, so there is no wrap-around to model *)
Definition in_i64 (z : Z) : Prop := - 2 ^ 63 <= z < 2 ^ 63.
Lemma fix_window_in_int64 : forall d c, 0 < d <= 2 ^ 62 -> - 2 ^ 62 <= f_from c < 2 ^ 62 -> - 2 ^ 62 <= f_to c < 2 ^ 62 ->
  in_i64 (f_to c - f_from c) /\ in_i64 (Z.quot (f_from c) d * d) /\ in_i64 (Z.quot (f_to c) d * d) /\
  in_i64 (f_from (fix_window d c)) /\ in_i64 (f_to (fix_window d c)).
Proof.
  intros d c D F T. unfold in_i64. cbn [fix_window f_from f_to].
  assert (P : 2 ^ 63 = 2 * 2 ^ 62) by reflexivity. rewrite P.
  assert (B : forall a, - 2 ^ 62 <= a < 2 ^ 62 -> - 2 ^ 62 <= Z.quot a d * d < 2 ^ 62).
  { intros a A. destruct (Z_le_gt_dec 0 a) as [N|N].
    - pose proof (Z.mul_quot_le a d N ltac:(lia)). pose proof (Z.quot_pos a d N ltac:(lia)). nia.
    - pose proof (Z.mul_quot_ge a d ltac:(lia) ltac:(lia)). nia. }
  pose proof (B _ F). pose proof (B _ T). lia.
Qed.
