(* C08, round 5: EXACTLY the ranges made of whole 15-second slots can be answered from the roll-up table metrics_15s (seed C08-e tested
   the range in whole seconds: [15500ms] took the shortcut). *)
From Coq Require Import List ZArith NArith QArith Qcanon String Ascii Bool Lia.
From Qryn Require Import lib.Strs model.Sql model.Logql model.LogqlPlan model.LogqlMetricSem proofs.LogqlMetricProofs.
Import ListNotations.
Open Scope Z_scope.

(* EXACTLY the ranges made of whole 15-second slots can be answered from the roll-up table: for every other range the line at
   ts = d (the first instant of the second window) sits in a slot that starts in the first window *)
Lemma shortcut_bucket_iff_whole_slots d : 0 < d ->
  (forall ts, 0 <= ts -> bucket_sql_z d (floor15 ts) = bucket_sql_z d ts) <-> d mod 15000000000 = 0.
Proof.
  intros Hd. split.
  - intros H. specialize (H d ltac:(lia)).
    destruct (Z.eq_dec (d mod 15000000000) 0) as [E|E]; [exact E|exfalso].
    assert (F : 0 <= floor15 d < d).
    { unfold floor15. rewrite quot_div_nonneg by lia.
      pose proof (Z.div_mod d 15000000000 ltac:(lia)). pose proof (Z.mod_pos_bound d 15000000000 ltac:(lia)).
      pose proof (Z.div_pos d 15000000000 ltac:(lia) ltac:(lia)). lia. }
    unfold bucket_sql_z in H. rewrite (Z.quot_small (floor15 d) d) in H by lia. rewrite Z.quot_same in H by lia. lia.
  - intros E ts Hts.
    pose proof (Z.div_mod d 15000000000 ltac:(lia)) as D. rewrite E in D.
    assert (K : 0 < d / 15000000000) by (apply Z.div_str_pos; pose proof (Z.mod_pos_bound d 15000000000 ltac:(lia)); lia).
    set (k := d / 15000000000) in *.
    assert (Ed : d = 15000000000 * k) by lia. rewrite Ed.
    now apply bucket_floor15.
Qed.
(* seed C08-e: the range tested in WHOLE SECONDS: 15.5 s has 15 whole seconds, a multiple of 15 - and is no such range *)
Example whole_seconds_test_is_not_enough :
  let d := 15500000000 in
  15 <= d / 1000000000 /\ (d / 1000000000) mod 15 = 0 /\ bucket_sql_z d (floor15 d) <> bucket_sql_z d d.
Proof. vm_compute. repeat split; discriminate. Qed.
