(* C05, fourth session: proofs about model/IngestShared.v *)
From Coq Require Import List String Ascii ZArith NArith Bool Lia.
From Qryn Require Import model.IngestRobust model.IngestPipe model.IngestShared proofs.IngestPipeProofs.
Import ListNotations.
Open Scope string_scope.
Open Scope N_scope.

(* ------------------------------------------------------------------------------------------ *)
(** * 1. The remote-write decoder *)

Definition mk (ser n : N) : dcall := {| dc_series := ser; dc_ts := n; dc_msg := n; dc_val := n; dc_types := n |}.
Definition canon (k : N) : list (string * N) := [("tsns", k); ("value", k); ("msg", k)].
Definition gst (l : list (string * N)) (p idx ser : N) (cs : list dcall) : dst :=
  {| ds_len := l; ds_ctr := [("points", p)]; ds_idx := idx; ds_series := ser; ds_calls := cs |}.
Definition pst (k p idx ser : N) (cs : list dcall) : dst := gst (canon k) p idx ser cs.

(* one sample: append to the three slices, count, hand over at the limit *)
Definition pstep (ser : N) (x : N * N * list dcall) : N * N * list dcall :=
  let '(k, p, cs) := x in if 1000 <=? p + 1 then (0, 0, mk ser (k + 1) :: cs) else (k + 1, p + 1, cs).

Lemma inner_step : forall n k p idx ser cs,
  execl n prom_inner (pst k p idx ser cs) =
  Some (let '(k', p', cs') := pstep ser (k, p, cs) in pst k' p' idx ser cs').
Proof.
  intros. unfold execl, prom_inner, pst, gst, canon, prom_call, prom_flush_limit, pstep.
  cbn -[N.add N.leb].
  destruct (1000 <=? p + 1) eqn:E.
  - cbn -[N.add N.leb]. reflexivity.
  - reflexivity.
Qed.

Lemma inner_loop : forall n m k p idx ser cs,
  N.iter m (iter_body (execl n prom_inner)) (Some (pst k p idx ser cs)) =
  Some (let '(k', p', cs') := N.iter m (pstep ser) (k, p, cs) in pst k' p' (idx + m) ser cs').
Proof.
  intros n m. induction m as [|m IH] using N.peano_ind; intros k p idx ser cs.
  - cbn [N.iter]. now rewrite N.add_0_r.
  - rewrite !N.iter_succ, IH. destruct (N.iter m (pstep ser) (k, p, cs)) as [[k1 p1] cs1].
    unfold iter_body. rewrite inner_step. destruct (pstep ser (k1, p1, cs1)) as [[k2 p2] cs2].
    unfold pst, gst, set_idx. cbn [ds_len ds_ctr ds_idx ds_series ds_calls]. do 2 f_equal. lia.
Qed.

(* one series *)
Definition pseries_k (n p ser : N) (cs : list dcall) : N := fst (fst (N.iter n (pstep (ser + 1)) (0, p, cs))).
Definition pseries (n : N) (x : N * N * list dcall) : N * N * list dcall :=
  let '(p, ser, cs) := x in
  let '(k', p', cs') := N.iter n (pstep (ser + 1)) (0, p, cs) in
  (p', ser + 1, if 0 <? k' then mk (ser + 1) k' :: cs' else cs').

Lemma series_step : forall n l p idx ser cs, l = [] \/ (exists k, l = canon k) ->
  run_series prom_prog (Some (gst l p idx ser cs)) n =
  Some (let '(p', ser', cs') := pseries n (p, ser, cs) in pst (pseries_k n p ser cs) p' n ser' cs').
Proof.
  intros n l p idx ser cs Hl. unfold run_series, execl, prom_prog, dp_series.
  assert (E : execl_with (exec n) [DMake0 "tsns"; DMake0 "value"; DMake0 "msg"] (next_series (gst l p idx ser cs))
              = Some (pst 0 p idx (ser + 1) cs)).
  { destruct Hl as [->|[k ->]]; reflexivity. }
  change (execl_with (exec n) [DMake0 "tsns"; DMake0 "value"; DMake0 "msg"; DRange prom_inner; DIfLenPos "tsns" [prom_call]] (next_series (gst l p idx ser cs)))
    with (match execl_with (exec n) [DMake0 "tsns"; DMake0 "value"; DMake0 "msg"] (next_series (gst l p idx ser cs)) with
          | Some st' => execl_with (exec n) [DRange prom_inner; DIfLenPos "tsns" [prom_call]] st' | None => None end).
  rewrite E.
  change (execl_with (exec n) [DRange prom_inner; DIfLenPos "tsns" [prom_call]] (pst 0 p idx (ser + 1) cs))
    with (match N.iter n (iter_body (execl n prom_inner)) (Some (pst 0 p 0 (ser + 1) cs)) with
          | Some st' => execl_with (exec n) [DIfLenPos "tsns" [prom_call]] st' | None => None end).
  rewrite inner_loop. unfold pseries, pseries_k.
  destruct (N.iter n (pstep (ser + 1)) (0, p, cs)) as [[k1 p1] cs1]. rewrite N.add_0_l. cbn [fst].
  unfold pst, gst, canon, prom_call. cbn -[N.ltb N.add].
  destruct (0 <? k1); reflexivity.
Qed.

Definition pfold (ns : list N) (x : N * N * list dcall) : N * N * list dcall := fold_left (fun x n => pseries n x) ns x.

Lemma run_fold : forall ns l p idx ser cs, l = [] \/ (exists k, l = canon k) ->
  exists l' idx', (l' = [] \/ (exists k, l' = canon k)) /\
    fold_left (run_series prom_prog) ns (Some (gst l p idx ser cs)) =
    Some (let '(p', ser', cs') := pfold ns (p, ser, cs) in gst l' p' idx' ser' cs').
Proof.
  induction ns as [|n ns IH]; intros l p idx ser cs Hl.
  - exists l, idx. split; [exact Hl|reflexivity].
  - cbn [fold_left pfold]. rewrite (series_step n l p idx ser cs Hl).
    destruct (pseries n (p, ser, cs)) as [[p1 ser1] cs1] eqn:E.
    destruct (IH (canon (pseries_k n p ser cs)) p1 n ser1 cs1 (or_intror (ex_intro _ _ eq_refl))) as [l' [idx' [Hl' H]]].
    exists l', idx'. split; [exact Hl'|]. unfold pst. rewrite H. reflexivity.
Qed.

Lemma prom_run : forall ns,
  run_dprog prom_prog ns = Some (rev (snd (pfold ns (0, 0, [])))).
Proof.
  intros ns. unfold run_dprog.
  change (execl 0 (dp_init prom_prog) dst0) with (Some (gst [] 0 0 0 [])).
  destruct (run_fold ns [] 0 0 0 [] (or_introl eq_refl)) as [l' [idx' [_ H]]]. rewrite H.
  destruct (pfold ns (0, 0, [])) as [[p ser] cs]. reflexivity.
Qed.

(* invariants of the pure functions *)
Definition call_good (c : dcall) : Prop := dcall_consistent c = true /\ 1 <= dc_ts c <= 1000.
Definition tot (cs : list dcall) : N := sumN (map dc_ts cs).

Lemma mk_consistent : forall ser n, dcall_consistent (mk ser n) = true.
Proof. intros. unfold dcall_consistent, mk. cbn. now rewrite N.eqb_refl. Qed.

Lemma pstep_inv : forall ser k p cs, k <= p -> p < 1000 -> Forall call_good cs ->
  let '(k', p', cs') := pstep ser (k, p, cs) in
  k' <= p' /\ p' < 1000 /\ Forall call_good cs' /\ tot cs' + k' = tot cs + k + 1.
Proof.
  intros ser k p cs Hk Hp Hg. unfold pstep. destruct (1000 <=? p + 1) eqn:E.
  - apply N.leb_le in E. split; [lia|]. split; [lia|]. split.
    + constructor; [|exact Hg]. split; [apply mk_consistent|]. cbn. lia.
    + unfold tot. cbn [map sumN mk dc_ts]. lia.
  - apply N.leb_gt in E. repeat split; try lia. exact Hg.
Qed.

Lemma piter_inv : forall ser m k p cs, k <= p -> p < 1000 -> Forall call_good cs ->
  let '(k', p', cs') := N.iter m (pstep ser) (k, p, cs) in
  k' <= p' /\ p' < 1000 /\ Forall call_good cs' /\ tot cs' + k' = tot cs + k + m.
Proof.
  intros ser m. induction m as [|m IH] using N.peano_ind; intros k p cs Hk Hp Hg.
  - cbn [N.iter]. repeat split; try assumption; lia.
  - rewrite N.iter_succ. specialize (IH k p cs Hk Hp Hg).
    destruct (N.iter m (pstep ser) (k, p, cs)) as [[k1 p1] cs1]. destruct IH as [H1 [H2 [H3 H4]]].
    pose proof (pstep_inv ser k1 p1 cs1 H1 H2 H3) as H. destruct (pstep ser (k1, p1, cs1)) as [[k2 p2] cs2].
    destruct H as [H5 [H6 [H7 H8]]]. repeat split; try assumption; lia.
Qed.

Lemma pseries_inv : forall n p ser cs, p < 1000 -> Forall call_good cs ->
  let '(p', _, cs') := pseries n (p, ser, cs) in p' < 1000 /\ Forall call_good cs' /\ tot cs' = tot cs + n.
Proof.
  intros n p ser cs Hp Hg. unfold pseries.
  pose proof (piter_inv (ser + 1) n 0 p cs (N.le_0_l _) Hp Hg) as H.
  destruct (N.iter n (pstep (ser + 1)) (0, p, cs)) as [[k1 p1] cs1]. destruct H as [H1 [H2 [H3 H4]]].
  destruct (0 <? k1) eqn:E.
  - apply N.ltb_lt in E. split; [exact H2|]. split.
    + constructor; [|exact H3]. split; [apply mk_consistent|]. cbn. lia.
    + unfold tot in *. cbn [map sumN mk dc_ts]. lia.
  - apply N.ltb_ge in E. split; [exact H2|]. split; [exact H3|]. lia.
Qed.

Lemma pfold_inv : forall ns p ser cs, p < 1000 -> Forall call_good cs ->
  let '(p', _, cs') := pfold ns (p, ser, cs) in p' < 1000 /\ Forall call_good cs' /\ tot cs' = tot cs + sumN ns.
Proof.
  induction ns as [|n ns IH]; intros p ser cs Hp Hg.
  - cbn [pfold fold_left sumN]. repeat split; try assumption; lia.
  - cbn [pfold fold_left sumN]. pose proof (pseries_inv n p ser cs Hp Hg) as H.
    destruct (pseries n (p, ser, cs)) as [[p1 ser1] cs1]. destruct H as [H1 [H2 H3]].
    specialize (IH p1 ser1 cs1 H1 H2). unfold pfold in IH.
    destruct (fold_left (fun x n0 => pseries n0 x) ns (p1, ser1, cs1)) as [[p2 ser2] cs2].
    destruct IH as [H4 [H5 H6]]. repeat split; try assumption; lia.
Qed.

Lemma sumN_app : forall a b, sumN (a ++ b) = sumN a + sumN b.
Proof. induction a as [|x a IH]; intros b; cbn [app sumN]; [reflexivity|rewrite IH; lia]. Qed.
Lemma sumN_rev : forall l, sumN (rev l) = sumN l.
Proof. induction l as [|x l IH]; cbn [rev sumN]; [reflexivity|]. rewrite sumN_app, IH. cbn [sumN]. lia. Qed.

(* for EVERY body: the decoder does not panic, every call hands over four slices of one length between 1 and the limit,
   and the calls carry every sample of the body exactly once *)
Theorem prom_decoder_contract : forall ns, exists cs,
  run_dprog prom_prog ns = Some cs /\ Forall call_good cs /\ sumN (map dc_ts cs) = sumN ns.
Proof.
  intros ns. rewrite prom_run. eexists. split; [reflexivity|].
  pose proof (pfold_inv ns 0 0 [] ltac:(lia) (Forall_nil _)) as H.
  destruct (pfold ns (0, 0, [])) as [[p ser] cs]. destruct H as [_ [H2 H3]]. cbn [snd].
  split; [apply Forall_rev; exact H2|]. rewrite map_rev, sumN_rev. unfold tot in H3. cbn [map sumN] in H3. lia.
Qed.

(* ------------------------------------------------------------------------------------------ *)
(** * 2. The Loki protobuf decoder: one call per stream, four slices of len(entries) *)

Definition canon2 (n : N) : list (string * N) := [("tsns", n); ("msgs", n)].
Definition gst2 (l : list (string * N)) (idx ser : N) (cs : list dcall) : dst :=
  {| ds_len := l; ds_ctr := []; ds_idx := idx; ds_series := ser; ds_calls := cs |}.

Lemma store_loop : forall n m i ser cs, i + m <= n ->
  N.iter m (iter_body (execl n [DStore "tsns"; DStore "msgs"])) (Some (gst2 (canon2 n) i ser cs)) =
  Some (gst2 (canon2 n) (i + m) ser cs).
Proof.
  intros n m. induction m as [|m IH] using N.peano_ind; intros i ser cs H.
  - cbn [N.iter]. now rewrite N.add_0_r.
  - rewrite N.iter_succ, IH by lia. cbv -[N.ltb N.add N.succ].
    assert (E : (i + m <? n) = true) by (apply N.ltb_lt; lia). rewrite !E.
    replace (i + N.succ m) with (i + m + 1) by lia. reflexivity.
Qed.

Lemma series_step2 : forall n l idx ser cs, l = [] \/ (exists k, l = canon2 k) ->
  run_series lokiproto_prog (Some (gst2 l idx ser cs)) n =
  Some (gst2 (canon2 n) n (ser + 1) (mk (ser + 1) n :: cs)).
Proof.
  intros n l idx ser cs Hl. unfold run_series, execl, lokiproto_prog, dp_series.
  assert (E : execl_with (exec n) [DMayReturn; DMakeN "tsns"; DMakeN "msgs"] (next_series (gst2 l idx ser cs))
              = Some (gst2 (canon2 n) idx (ser + 1) cs)).
  { destruct Hl as [->|[k ->]]; reflexivity. }
  change (execl_with (exec n) [DMayReturn; DMakeN "tsns"; DMakeN "msgs"; DRange [DStore "tsns"; DStore "msgs"];
                               DCall (DVar "tsns") (DVar "msgs") DRangeLen DRangeLen] (next_series (gst2 l idx ser cs)))
    with (match execl_with (exec n) [DMayReturn; DMakeN "tsns"; DMakeN "msgs"] (next_series (gst2 l idx ser cs)) with
          | Some st' => execl_with (exec n) [DRange [DStore "tsns"; DStore "msgs"]; DCall (DVar "tsns") (DVar "msgs") DRangeLen DRangeLen] st'
          | None => None end).
  rewrite E.
  change (execl_with (exec n) [DRange [DStore "tsns"; DStore "msgs"]; DCall (DVar "tsns") (DVar "msgs") DRangeLen DRangeLen]
            (gst2 (canon2 n) idx (ser + 1) cs))
    with (match N.iter n (iter_body (execl n [DStore "tsns"; DStore "msgs"])) (Some (gst2 (canon2 n) 0 (ser + 1) cs)) with
          | Some st' => execl_with (exec n) [DCall (DVar "tsns") (DVar "msgs") DRangeLen DRangeLen] st' | None => None end).
  rewrite store_loop by lia. rewrite N.add_0_l. reflexivity.
Qed.

Lemma run_fold2 : forall ns l idx ser cs, l = [] \/ (exists k, l = canon2 k) ->
  exists l' idx', fold_left (run_series lokiproto_prog) ns (Some (gst2 l idx ser cs)) =
                  Some (gst2 l' idx' (ser + N.of_nat (List.length ns)) (rev (simple_calls ser ns) ++ cs)%list).
Proof.
  induction ns as [|n ns IH]; intros l idx ser cs Hl.
  - exists l, idx. cbn [fold_left List.length N.of_nat simple_calls rev app]. now rewrite N.add_0_r.
  - cbn [fold_left]. rewrite (series_step2 n l idx ser cs Hl).
    destruct (IH (canon2 n) n (ser + 1) (mk (ser + 1) n :: cs) (or_intror (ex_intro _ n eq_refl))) as [l' [idx' H]].
    exists l', idx'. rewrite H. cbn [simple_calls rev List.length]. rewrite <- app_assoc. cbn [app].
    unfold mk. do 2 f_equal. lia.
Qed.

(* for EVERY body: no index out of range, one call per stream with four slices of the stream's number of entries *)
Theorem lokiproto_decoder_contract : forall ns, run_dprog lokiproto_prog ns = Some (simple_calls 0 ns).
Proof.
  intros ns. unfold run_dprog. change (execl 0 (dp_init lokiproto_prog) dst0) with (Some (gst2 [] 0 0 [])).
  destruct (run_fold2 ns [] 0 0 [] (or_introl eq_refl)) as [l' [idx' H]]. rewrite H.
  cbn [ds_calls gst2]. now rewrite app_nil_r, rev_involutive.
Qed.

Lemma simple_calls_consistent : forall ns i, Forall (fun c => dcall_consistent c = true) (simple_calls i ns).
Proof.
  induction ns as [|n ns IH]; intros i; cbn [simple_calls]; constructor; [|apply IH].
  unfold dcall_consistent. cbn. now rewrite N.eqb_refl.
Qed.

(* ------------------------------------------------------------------------------------------ *)
(** * 3. The shared batch *)

Lemma all_equal_is_repeat : forall l, all_equal l = true -> l = repeat (hd 0 l) (List.length l).
Proof.
  intros [|x r] H; [reflexivity|]. cbn [all_equal] in H. cbn [hd List.length repeat]. f_equal.
  induction r as [|y r IH]; [reflexivity|]. cbn [forallb] in H. apply andb_true_iff in H as [H1 H2].
  apply N.eqb_eq in H1. subst y. cbn [List.length repeat]. f_equal. exact (IH H2).
Qed.

Lemma all_equal_repeat_N : forall x n, all_equal (repeat x n) = true.
Proof.
  intros x [|n]; [reflexivity|]. cbn [repeat all_equal]. induction n as [|n IH]; [reflexivity|].
  cbn [repeat forallb]. now rewrite N.eqb_refl, IH.
Qed.

Lemma add_cols_repeat : forall n a b, add_cols (repeat a n) (repeat b n) = repeat (a + b) n.
Proof. induction n as [|n IH]; intros a b; cbn [repeat add_cols]; [reflexivity|now rewrite IH]. Qed.

Lemma sreq_ok_repeat : forall ncols r, sreq_ok ncols r = true -> exists w, sr_cols r = repeat w ncols.
Proof.
  intros ncols r H. unfold sreq_ok in H. apply andb_true_iff in H as [H1 H2]. apply Nat.eqb_eq in H1.
  exists (hd 0 (sr_cols r)). rewrite <- H1. now apply all_equal_is_repeat.
Qed.

(* whatever the clients, the interleaving of their requests and the moments of the flushes: when every request is
   rectangular no block is refused and nobody is answered with an error *)
Theorem shared_batch_ok : forall ncols cnt evs b v, sb_cols b = repeat v ncols -> sevs_ok ncols evs = true ->
  Forall (fun a => sa_ok a = true) (srun ncols cnt b evs).
Proof.
  intros ncols cnt. induction evs as [|e evs IH]; intros b v Hb Hok; cbn [srun]; [constructor|].
  cbn [sevs_ok forallb] in Hok. apply andb_true_iff in Hok as [H1 H2].
  destruct e as [r|]; cbn [sstep].
  - destruct (sreq_ok_repeat ncols r H1) as [w Hw].
    destruct (0 <? nth cnt (sr_cols r) 0).
    + cbn [app]. apply (IH _ (v + w)); [|exact H2]. cbn [sb_cols]. now rewrite Hb, Hw, add_cols_repeat.
    + apply Forall_app. split; [constructor; [reflexivity|constructor]|].
      apply (IH _ (v + w)); [|exact H2]. cbn [sb_cols]. now rewrite Hb, Hw, add_cols_repeat.
  - destruct (sb_wait b) as [|c ws] eqn:W.
    + cbn [app]. apply (IH _ v); assumption.
    + apply Forall_app. split.
      * apply Forall_forall. intros a Ha. apply in_map_iff in Ha as [c' [<- _]]. cbn [sa_ok].
        unfold block_accepted. rewrite Hb. apply all_equal_repeat_N.
      * apply (IH _ 0); [reflexivity|exact H2].
Qed.

(* and the hypothesis is needed: one torn request fails the OTHER client that shares the batch *)
Lemma torn_request_fails_the_other_client :
  srun 5 spl_counted (sbatch0 5)
       [SvReq {| sr_client := 1; sr_cols := [1; 1; 1; 1; 1] |}; SvReq {| sr_client := 2; sr_cols := [1500; 1500; 1500; 2500; 1500] |}; SvFlush]
  = [{| sa_client := 1; sa_ok := false |}; {| sa_client := 2; sa_ok := false |}].
Proof. vm_compute. reflexivity. Qed.

(* ------------------------------------------------------------------------------------------ *)
(** * 4. From the decoder's calls to the requests in the shared batch *)

Definition lens_match (c : dcall) (e : ent_ev) : Prop :=
  en_ts e = N.to_nat (dc_ts c) /\ en_msg e = N.to_nat (dc_msg c) /\ en_val e = N.to_nat (dc_val c) /\ en_types e = N.to_nat (dc_types c).
(* how Decode ends after its calls: returns nil, returns an error, panics *)
Definition tail_ok (tail : list lcol_event) : bool :=
  forallb (fun ev => match ev with LcEntries _ => false | _ => true end) tail.

Lemma consistent_events : forall cs evs, Forall (fun c => dcall_consistent c = true) cs -> Forall2 lens_match cs evs ->
  events_consistent (map LcEntries evs) = true.
Proof.
  intros cs evs Hc H. induction H as [|c e cs evs [H1 [H2 [H3 H4]]] _ IH]; [reflexivity|].
  inversion Hc as [|? ? Hc1 Hc2]; subst. cbn [map events_consistent forallb]. fold (events_consistent (map LcEntries evs)).
  rewrite (IH Hc2), andb_true_r. unfold dcall_consistent in Hc1. apply andb_true_iff in Hc1 as [Hc1 Hc3].
  apply andb_true_iff in Hc1 as [Hc1 Hc4]. apply N.eqb_eq in Hc1, Hc3, Hc4.
  unfold ent_consistent. rewrite H1, H2, H3, H4, Hc1, Hc3, Hc4, !Nat.eqb_refl. reflexivity.
Qed.

Lemma events_consistent_app : forall a tail, events_consistent a = true -> tail_ok tail = true -> events_consistent (a ++ tail) = true.
Proof.
  intros a tail Ha Ht. unfold events_consistent in *. rewrite forallb_app, Ha. cbn [andb].
  unfold tail_ok in Ht. rewrite forallb_forall in *. intros ev Hin. specialize (Ht ev Hin). destruct ev; [discriminate|reflexivity|reflexivity].
Qed.

Lemma field_len_const : forall sf n f, existsb (String.eqb f) sf = true -> field_len (const_cols sf n) f = n.
Proof.
  induction sf as [|a sf IH]; intros n f H; [discriminate|]. cbn [existsb] in H. unfold field_len, const_cols. cbn [map find fst].
  rewrite String.eqb_sym. destruct (String.eqb f a); [reflexivity|]. cbn [orb] in H. exact (IH n f H).
Qed.

Lemma map_const_repeat : forall (A : Type) (g : A -> N) (l : list A) n, (forall x, In x l -> g x = n) -> map g l = repeat n (List.length l).
Proof. induction l as [|x l IH]; intros n H; cbn [map List.length repeat]; [reflexivity|]. rewrite (H x (or_introl eq_refl)), (IH n); [reflexivity|]. intros y Hy. apply H. now right. Qed.

Section REQUESTS.
  Variables (p : entries_prog) (sf tf cs ct : list string).
  Hypothesis Hok : entries_ok p sf tf cs ct = true.
  Hypothesis Hspl : forallb (fun f => existsb (String.eqb f) sf) spl_block_fields = true.
  Hypothesis Hts : forallb (fun f => existsb (String.eqb f) tf) ts_block_fields = true.

  Lemma inv_requests_ok : forall who b, lbatch_inv sf tf b ->
    sreq_ok 5 (spl_request who b) = true /\ sreq_ok 4 (ts_request who b) = true.
  Proof.
    intros who b [n [k [Hs Ht]]]. unfold sreq_ok, spl_request, ts_request. cbn [sr_cols]. rewrite Hs, Ht.
    rewrite (map_const_repeat _ (field_len (const_cols sf n)) spl_block_fields n),
            (map_const_repeat _ (field_len (const_cols tf k)) ts_block_fields k).
    - rewrite !all_equal_repeat_N, !repeat_length. split; reflexivity.
    - intros f Hin. apply field_len_const. rewrite forallb_forall in Hts. exact (Hts f Hin).
    - intros f Hin. apply field_len_const. rewrite forallb_forall in Hspl. exact (Hspl f Hin).
  Qed.

  (* every request a decoder that keeps the contract makes reach the insert services is rectangular over exactly the
     columns of the INSERT, whatever the sizes, the series announced, and however Decode ends *)
  Lemma contract_requests_ok : forall calls evs tail who, Forall (fun c => dcall_consistent c = true) calls ->
    Forall2 lens_match calls evs -> tail_ok tail = true ->
    Forall (fun b => sreq_ok 5 (spl_request who b) = true /\ sreq_ok 4 (ts_request who b) = true)
           (sent_lbatches p sf tf (lbatch0 sf tf) (map LcEntries evs ++ tail)).
  Proof.
    intros calls evs tail who Hc Hm Ht.
    pose proof (sent_lbatches_inv p sf tf cs ct Hok (map LcEntries evs ++ tail) (lbatch0 sf tf) (lbatch0_inv sf tf)
                  (events_consistent_app _ _ (consistent_events _ _ Hc Hm) Ht)) as H.
    eapply Forall_impl; [|exact H]. intros b Hb. apply inv_requests_ok. exact Hb.
  Qed.
End REQUESTS.

Lemma call_good_consistent : forall cs, Forall call_good cs -> Forall (fun c => dcall_consistent c = true) cs.
Proof. intros cs H. eapply Forall_impl; [|exact H]. intros c [Hc _]. exact Hc. Qed.

(* ------------------------------------------------------------------------------------------ *)
(** * 5. Profile requests at the shared batch *)

Lemma opt_all_map_some : forall (A B : Type) (g : A -> option B) (l : list A) r,
  opt_all (map g l) = Some r -> List.length r = List.length l /\ forall i a, nth_error l i = Some a -> exists b, g a = Some b /\ nth_error r i = Some b.
Proof.
  induction l as [|x l IH]; intros r H; cbn [map opt_all] in H.
  - inversion H; subst. split; [reflexivity|]. intros [|i] a Ha; discriminate.
  - destruct (g x) as [b|] eqn:E; [|discriminate]. destruct (opt_all (map g l)) as [y|] eqn:E2; [|discriminate].
    inversion H; subst. destruct (IH y eq_refl) as [Hl Hn]. split; [cbn; now rewrite Hl|].
    intros [|i] a Ha; cbn [nth_error] in *.
    + inversion Ha; subst. exists b. split; [exact E|reflexivity].
    + exact (Hn i a Ha).
Qed.

Lemma all_equal_forall : forall l v, (forall x, In x l -> x = v) -> all_equal l = true.
Proof.
  intros [|x r] v H; [reflexivity|]. cbn [all_equal]. apply forallb_forall. intros y Hy.
  rewrite (H x (or_introl eq_refl)), (H y (or_intror Hy)). apply N.eqb_refl.
Qed.

(* a request with one row per column is accepted ... *)
Lemma profile_one_row_rectangular : forall p cols c,
  profile_request_cols p cols 1 = Some c -> all_equal c = true /\ List.length c = List.length cols.
Proof.
  intros p cols c H. unfold profile_request_cols in H. destruct (opt_all_map_some _ _ _ _ _ H) as [Hl Hn]. split; [|exact Hl].
  apply (all_equal_forall c 1). intros x Hx. apply In_nth_error in Hx as [i Hi].
  assert (Hlt : (i < List.length cols)%nat) by (rewrite <- Hl; apply nth_error_Some; congruence).
  destruct (nth_error cols i) as [col|] eqn:Ec; [|apply nth_error_None in Ec; lia].
  destruct (Hn i col Ec) as [b [Hb Hi']]. rewrite Hi in Hi'. inversion Hi'; subst b.
  unfold kop_rows in Hb. destruct (snd col) as [f|f|s]; [destruct (is_app (pp_ops p) f)|destruct (is_set (pp_ops p) f)|]; congruence.
Qed.

(* ... and one with any other number of rows is torn as soon as the service has a per-row column first and a
   per-request column somewhere: exactly the shape profile_ok demands *)
Lemma profile_other_rows_torn : forall p fields cols unknown calls c,
  profile_ok p fields cols unknown = true -> calls <> 1 -> profile_request_cols p cols calls = Some c -> all_equal c = false.
Proof.
  intros p fields cols unknown calls c Hok Hne H. unfold profile_ok in Hok.
  apply andb_true_iff in Hok as [Hok Hone]. apply andb_true_iff in Hok as [_ Hfirst].
  destruct cols as [|[n0 k0] rest]; [discriminate|]. destruct k0 as [f0| |]; try discriminate. clear Hfirst.
  unfold profile_request_cols in H. cbn [map opt_all snd kop_rows] in H.
  destruct (is_app (pp_ops p) f0); [|discriminate].
  destruct (opt_all (map (fun c0 => kop_rows (pp_ops p) calls (snd c0)) rest)) as [y|] eqn:E; [|discriminate].
  inversion H; subst c. cbn [all_equal]. cbn [existsb snd] in Hone.
  apply existsb_exists in Hone as [col [Hin Hk]]. destruct (snd col) as [|g|] eqn:Ek; try discriminate.
  apply In_nth_error in Hin as [i Hi]. destruct (opt_all_map_some _ _ _ _ _ E) as [_ Hn].
  destruct (Hn i col Hi) as [b [Hb Hy]]. rewrite Ek in Hb. cbn [kop_rows] in Hb. destruct (is_set (pp_ops p) g); [|discriminate].
  inversion Hb; subst b. apply nth_error_In in Hy.
  destruct (forallb (N.eqb calls) y) eqn:F; [|reflexivity]. rewrite forallb_forall in F. specialize (F 1 Hy).
  apply N.eqb_eq in F. contradiction.
Qed.

(* ------------------------------------------------------------------------------------------ *)
(** * 6. The gzip layer of a pprof body *)

Lemma pprof_guard_bounded : forall limit wire layers, (0 <= limit)%Z ->
  (snd (pprof_guard limit wire layers) <= limit)%Z /\
  match fst (pprof_guard limit wire layers) with PpParsed n => (n <= Z.max wire limit)%Z | PpRefused => True end.
Proof.
  intros limit wire [|n rest] Hl; cbn [pprof_guard fst snd]; [split; lia|].
  destruct (limit <? n)%Z eqn:E; cbn [fst snd]; [split; [lia|exact I]|]. apply Z.ltb_ge in E.
  destruct rest; cbn [fst snd]; split; try lia; exact I.
Qed.

Lemma pprof_guard_orig_unbounded : forall limit, (0 <= limit)%Z -> exists layers, (limit < snd (pprof_guard_orig 0 layers))%Z.
Proof. intros limit H. exists [(limit + 1)%Z]. cbn. lia. Qed.

(* ------------------------------------------------------------------------------------------ *)
(** * 7. What the lockstep verdict means *)

Lemma chg_eqb_eq : forall a b, chg_eqb a b = true -> a = b.
Proof. intros [] []; cbn; try discriminate; try reflexivity. intros H. apply String.eqb_eq in H. now subst. Qed.
Lemma chgs_eqb_eq : forall a b, chgs_eqb a b = true -> a = b.
Proof.
  induction a as [|x a IH]; intros [|y b] H; cbn in H; try discriminate; [reflexivity|].
  apply andb_true_iff in H as [H1 H2]. now rewrite (chg_eqb_eq _ _ H1), (IH _ H2).
Qed.

(* what a list does to ONE member: its own changes, in order *)
Lemma run_block_member : forall ev blk st m,
  run_block ev st blk m = fold_left (fun n c => apply_chg ev c n) (proj m blk) (st m).
Proof.
  intros ev. induction blk as [|[x c] blk IH]; intros st m; [reflexivity|].
  unfold run_block in *. cbn [fold_left fst snd]. rewrite IH. unfold proj. cbn [filter fst].
  unfold upd. rewrite (String.eqb_sym m x). destruct (String.eqb x m) eqn:E.
  - apply String.eqb_eq in E. subst x. reflexivity.
  - reflexivity.
Qed.

Lemma uniform_block_keeps_equal : forall members b ev st, block_uniform members b = true ->
  members_equal members st -> members_equal members (run_block ev st (fst b)).
Proof.
  intros members [blk cf] ev st Hu Heq m m' Hm Hm'. cbn [fst]. rewrite !run_block_member.
  unfold block_uniform in Hu. cbn [fst snd] in Hu. apply andb_true_iff in Hu as [_ Hu].
  destruct members as [|m0 r]; [contradiction|]. apply andb_true_iff in Hu as [_ Hu]. rewrite forallb_forall in Hu.
  assert (P : forall x, In x (m0 :: r) -> proj x blk = proj m0 blk).
  { intros x [<-|Hx]; [reflexivity|]. apply chgs_eqb_eq. exact (Hu x Hx). }
  rewrite (P m Hm), (P m' Hm'), (Heq m m' Hm Hm'). reflexivity.
Qed.

(* any sequence of executions of uniform lists, with any values of the make expressions *)
Theorem lockstep_keeps_members_equal : forall members blocks, forallb (block_uniform members) blocks = true ->
  forall tr, (forall blk ev, In (blk, ev) tr -> exists cf, In (blk, cf) blocks) ->
  forall st, members_equal members st -> members_equal members (run_trace st tr).
Proof.
  intros members blocks Hb. rewrite forallb_forall in Hb.
  induction tr as [|[blk ev] tr IH]; intros Htr st Hst; cbn [run_trace]; [exact Hst|].
  apply IH.
  - intros b e Hin. apply (Htr b e). now right.
  - destruct (Htr blk ev (or_introl eq_refl)) as [cf Hin]. exact (uniform_block_keeps_equal members (blk, cf) ev st (Hb _ Hin) Hst).
Qed.

(* the hypothesis is needed, and counting kinds per list (the third session's rule) is not enough: every member gets one append
   and one reset in this list, and the two end up with different lengths *)
Lemma kind_counting_is_not_enough :
  let blk := [("a", ChAppend1); ("b", ChReset); ("a", ChReset); ("b", ChAppend1)] in
  block_uniform ["a"; "b"] (blk, false) = false /\
  run_block (fun _ => 0) (fun _ => 0) blk "a" <> run_block (fun _ => 0) (fun _ => 0) blk "b".
Proof. split; [reflexivity|]. vm_compute. discriminate. Qed.

(* ------------------------------------------------------------------------------------------ *)
(** * 8. Span requests at the shared batches *)

Section SPAN_REQUESTS.
  Variables (h : handler_prog) (sf af cs ca : list string).
  Hypothesis Hok : handler_ok h sf af cs ca = true.

  Lemma consumed_in_fields : forallb (fun f => existsb (String.eqb f) sf) cs = true /\ forallb (fun f => existsb (String.eqb f) af) ca = true.
  Proof. unfold handler_ok in Hok. apply andb_true_iff in Hok as [H1 H2]. apply andb_true_iff in H1 as [_ H1]. split; assumption. Qed.

  Lemma inv_span_requests_ok : forall who b, batch_inv sf af b ->
    sreq_ok (List.length cs) (span_request who cs (b_spans b)) = true /\ sreq_ok (List.length ca) (span_request who ca (b_attrs b)) = true.
  Proof.
    destruct consumed_in_fields as [Hs Ha]. rewrite forallb_forall in Hs, Ha.
    intros who b [n [k [Hbs Hba]]]. unfold sreq_ok, span_request. cbn [sr_cols]. rewrite Hbs, Hba.
    rewrite (map_const_repeat _ (field_len (const_cols sf n)) cs n), (map_const_repeat _ (field_len (const_cols af k)) ca k).
    - rewrite !all_equal_repeat_N, !repeat_length, !Nat.eqb_refl. split; reflexivity.
    - intros f Hin. apply field_len_const. exact (Ha f Hin).
    - intros f Hin. apply field_len_const. exact (Hs f Hin).
  Qed.

  Lemma span_requests_ok : forall evs who,
    Forall (fun b => sreq_ok (List.length cs) (span_request who cs (b_spans b)) = true /\ sreq_ok (List.length ca) (span_request who ca (b_attrs b)) = true)
           (sent_batches h sf af (batch0 sf af) evs).
  Proof.
    intros evs who. eapply Forall_impl; [|exact (sent_batches_inv h sf af cs ca Hok evs (batch0 sf af) (batch0_inv sf af))].
    intros b Hb. apply inv_span_requests_ok. exact Hb.
  Qed.
End SPAN_REQUESTS.

(* ------------------------------------------------------------------------------------------ *)
(** * 9. The multipart form of /ingest *)

Lemma mform_inflated_bounded : forall limit f, (0 <= limit)%Z -> (mform_inflated limit f <= decompressor_limit + 1 + limit)%Z.
Proof.
  intros limit f Hl. unfold mform_inflated, decompressor_limit. destruct (mf_boundary_ok f && mf_closed f); [|lia].
  destruct (mform_file f) as [p|]; [|lia]. destruct (mp_content p); lia.
Qed.
Lemma mform_accepted_has_profile : forall limit f, mform_accepts limit f = true ->
  exists p, In p (mf_parts f) /\ mp_name p = mform_field /\ mp_file p = true /\
            (mp_content p = McProfile \/ (mp_content p = McNested /\ (mp_inflated2 p <= limit)%Z)) /\
            (0 < mp_inflated p <= decompressor_limit)%Z.
Proof.
  intros limit f H. unfold mform_accepts in H. apply andb_true_iff in H as [_ H]. unfold mform_file in H.
  destruct (find _ (mf_parts f)) as [p|] eqn:E; [|discriminate]. apply find_some in E as [Hin Hp].
  apply andb_true_iff in Hp as [Hn Hf]. apply String.eqb_eq in Hn. exists p. destruct (mp_content p); try discriminate.
  - apply andb_true_iff in H as [H1 H2]. apply Z.ltb_lt in H1. apply Z.leb_le in H2.
    split; [exact Hin|]. split; [exact Hn|]. split; [exact Hf|]. split; [left; reflexivity|lia].
  - apply andb_true_iff in H as [H H3]. apply andb_true_iff in H as [H1 H2]. apply Z.ltb_lt in H1. apply Z.leb_le in H2, H3.
    split; [exact Hin|]. split; [exact Hn|]. split; [exact Hf|]. split; [right; split; [reflexivity|exact H3]|lia].
Qed.
