(* Property C11, selector chains, part 1: the algebra of the reference meaning.  and_sem / or_sem (TraceqlSem.v) on lists of
   per-trace results, seen through find_tres: what a trace gets in A && B and in A || B, that trace ids stay unique, that both
   respect the equivalence deq (same traces, same span SETS, same recency key -- the order of the list and of the span lists is
   not part of the meaning, result_ok does not look at it), and that || is associative up to deq (the planner nests a chain of
   || to the left, the reference meaning to the right). *)
From Coq Require Import List ZArith QArith String Ascii Bool Lia Permutation.
From Qryn Require Import model.TqSql model.Traceql model.TraceqlPlan model.TraceqlSem model.TraceqlCase
     proofs.TraceqlBridgeLib proofs.TraceqlIndexSearchProofs proofs.TraceqlGroupedProofs proofs.TraceqlTopkProofs.
Import ListNotations.
Open Scope string_scope.
Open Scope list_scope.

Definition seteq (a b : list string) : Prop := forall s, In s a <-> In s b.
Definition oeq (x y : option tres) : Prop :=
  match x, y with
  | None, None => True
  | Some x, Some y => t_trace x = t_trace y /\ seteq (t_spans x) (t_spans y) /\ t_key x = t_key y
  | _, _ => False
  end.
Definition tnodup (a : list tres) : Prop := NoDup (map t_trace a).
Definition deq (a b : list tres) : Prop := tnodup a /\ tnodup b /\ forall t, oeq (find_tres t a) (find_tres t b).

Definition merge (x y : tres) : tres :=
  {| t_trace := t_trace x; t_spans := union_strs (t_spans x) (t_spans y); t_key := Z.max (t_key x) (t_key y) |}.

Lemma seteq_refl a : seteq a a. Proof. intros s. tauto. Qed.
Lemma seteq_sym a b : seteq a b -> seteq b a. Proof. intros H s. symmetry. apply H. Qed.
Lemma seteq_trans a b c : seteq a b -> seteq b c -> seteq a c. Proof. intros H1 H2 s. rewrite (H1 s). apply H2. Qed.

Lemma oeq_refl x : oeq x x.
Proof. destruct x as [x|]; cbn; [|exact I]. split; [reflexivity|]. split; [apply seteq_refl|reflexivity]. Qed.
Lemma oeq_sym x y : oeq x y -> oeq y x.
Proof. destruct x as [x|], y as [y|]; cbn; try tauto. intros [H1 [H2 H3]]. split; [now symmetry|]. split; [now apply seteq_sym|now symmetry]. Qed.
Lemma oeq_trans x y z : oeq x y -> oeq y z -> oeq x z.
Proof.
  destruct x as [x|], y as [y|], z as [z|]; cbn; try tauto. intros [H1 [H2 H3]] [K1 [K2 K3]].
  split; [congruence|]. split; [eapply seteq_trans; eassumption|congruence].
Qed.

Lemma deq_refl a : tnodup a -> deq a a.
Proof. intros H. split; [assumption|]. split; [assumption|]. intros t. apply oeq_refl. Qed.
Lemma deq_sym a b : deq a b -> deq b a.
Proof. intros [H1 [H2 H3]]. split; [assumption|]. split; [assumption|]. intros t. apply oeq_sym, H3. Qed.
Lemma deq_trans a b c : deq a b -> deq b c -> deq a c.
Proof. intros [H1 [H2 H3]] [K1 [K2 K3]]. split; [assumption|]. split; [assumption|]. intros t. eapply oeq_trans; [apply H3|apply K3]. Qed.

(* ---------- find_tres ---------- *)
Lemma find_tres_cons t x l : find_tres t (x :: l) = if String.eqb (t_trace x) t then Some x else find_tres t l.
Proof. reflexivity. Qed.
Lemma find_tres_app t l1 l2 : find_tres t (l1 ++ l2) = match find_tres t l1 with Some x => Some x | None => find_tres t l2 end.
Proof. induction l1 as [|x l1 IH]; [reflexivity|]. cbn [app]. rewrite !find_tres_cons. destruct (String.eqb (t_trace x) t); [reflexivity|exact IH]. Qed.
Lemma find_tres_some t l x : find_tres t l = Some x -> In x l /\ t_trace x = t.
Proof. intros H. apply find_some in H. destruct H as [H1 H2]. split; [assumption|now apply String.eqb_eq]. Qed.
Lemma find_tres_none t l : find_tres t l = None <-> ~ In t (map t_trace l).
Proof.
  induction l as [|x l IH]; [cbn; tauto|]. rewrite find_tres_cons. cbn [map In].
  destruct (String.eqb (t_trace x) t) eqn:E.
  - apply String.eqb_eq in E. split; [discriminate|]. intros H. exfalso. apply H. now left.
  - apply String.eqb_neq in E. rewrite IH. tauto.
Qed.
Lemma find_tres_in l x : tnodup l -> In x l -> find_tres (t_trace x) l = Some x.
Proof.
  unfold tnodup. induction l as [|y l IH]; intros Hnd Hin; [destruct Hin|]. cbn [map] in Hnd. inversion Hnd as [|? ? Hy Hnd']; subst.
  rewrite find_tres_cons. destruct Hin as [->|Hin]; [now rewrite String.eqb_refl|].
  destruct (String.eqb (t_trace y) (t_trace x)) eqn:E; [|now apply IH].
  apply String.eqb_eq in E. exfalso. apply Hy. rewrite E. now apply in_map.
Qed.
Lemma find_tres_map t (g : tres -> tres) l : (forall x, t_trace (g x) = t_trace x) ->
  find_tres t (map g l) = option_map g (find_tres t l).
Proof. intros Hg. induction l as [|x l IH]; [reflexivity|]. cbn [map]. rewrite !find_tres_cons, Hg. destruct (String.eqb (t_trace x) t); [reflexivity|exact IH]. Qed.

Lemma union_strs_in a b s : In s (union_strs a b) <-> In s a \/ In s b.
Proof. unfold union_strs. rewrite nodup_by_str_in. apply in_app_iff. Qed.
Lemma union_strs_NoDup a b : NoDup (union_strs a b).
Proof. apply NoDup_nodup_by_str. Qed.

(* ---------- what a trace gets in A && B / A || B ---------- *)
Lemma find_and t a b :
  find_tres t (and_sem a b) = match find_tres t a, find_tres t b with Some x, Some y => Some (merge x y) | _, _ => None end.
Proof.
  unfold and_sem. induction a as [|x0 a IH]; [reflexivity|]. cbn [flat_map]. rewrite find_tres_app, find_tres_cons, IH. clear IH.
  destruct (String.eqb (t_trace x0) t) eqn:E.
  - assert (E' := E). apply String.eqb_eq in E'. replace (find_tres (t_trace x0) b) with (find_tres t b) by now rewrite E'.
    destruct (find_tres t b) as [y|].
    + fold (merge x0 y). rewrite find_tres_cons. cbn [merge t_trace]. now rewrite E.
    + cbn [find_tres find]. now destruct (find_tres t a).
  - destruct (find_tres (t_trace x0) b) as [y|]; [|reflexivity].
    fold (merge x0 y). rewrite find_tres_cons. cbn [merge t_trace]. rewrite E. reflexivity.
Qed.

Definition or_left (b : list tres) (x : tres) : tres := match find_tres (t_trace x) b with Some y => merge x y | None => x end.
Lemma or_left_trace b x : t_trace (or_left b x) = t_trace x.
Proof. unfold or_left. now destruct (find_tres (t_trace x) b). Qed.

Lemma find_or t a b :
  find_tres t (or_sem a b) = match find_tres t a with
                             | Some x => Some (match find_tres t b with Some y => merge x y | None => x end)
                             | None => find_tres t b end.
Proof.
  unfold or_sem. fold (merge). change (map _ a) with (map (or_left b) a).
  rewrite find_tres_app, (find_tres_map t (or_left b) a (or_left_trace b)).
  destruct (find_tres t a) as [x|] eqn:Ea.
  - cbn [option_map]. unfold or_left. destruct (find_tres_some _ _ _ Ea) as [_ ->]. reflexivity.
  - cbn [option_map]. induction b as [|y0 b IH]; [reflexivity|]. cbn [filter]. rewrite find_tres_cons.
    destruct (String.eqb (t_trace y0) t) eqn:E.
    + apply String.eqb_eq in E. rewrite E, Ea. rewrite find_tres_cons, E, String.eqb_refl. reflexivity.
    + destruct (find_tres (t_trace y0) a); [exact IH|]. rewrite find_tres_cons, E. exact IH.
Qed.

(* ---------- trace ids stay unique ---------- *)
Lemma and_traces a b t : In t (map t_trace (and_sem a b)) -> In t (map t_trace a).
Proof.
  intros H. destruct (find_tres t (and_sem a b)) as [m|] eqn:E; [|now apply find_tres_none in E].
  rewrite find_and in E. destruct (find_tres t a) as [x|] eqn:Ea; [|discriminate].
  destruct (find_tres_some _ _ _ Ea) as [Hx <-]. now apply in_map.
Qed.
Lemma tnodup_and a b : tnodup a -> tnodup (and_sem a b).
Proof.
  unfold tnodup, and_sem. induction a as [|x0 a IH]; intros H; [constructor|]. cbn [map] in H. inversion H as [|? ? Hx Hnd]; subst.
  cbn [flat_map]. rewrite map_app. destruct (find_tres (t_trace x0) b) as [y|]; [|now apply IH].
  cbn [map app t_trace]. constructor; [|now apply IH]. intros Hin. apply Hx. now apply (and_traces a b).
Qed.

Lemma NoDup_app2 {A} (l1 l2 : list A) : NoDup l1 -> NoDup l2 -> (forall x, In x l1 -> ~ In x l2) -> NoDup (l1 ++ l2).
Proof.
  induction l1 as [|x l1 IH]; intros H1 H2 Hd; [exact H2|]. inversion H1 as [|? ? Hx Hnd]; subst. cbn [app]. constructor.
  - intros Hin. apply in_app_or in Hin. destruct Hin as [Hin|Hin]; [contradiction|]. exact (Hd x (or_introl eq_refl) Hin).
  - apply IH; [assumption|assumption|]. intros y Hy. apply Hd. now right.
Qed.
Lemma tnodup_or a b : tnodup a -> tnodup b -> tnodup (or_sem a b).
Proof.
  unfold tnodup, or_sem. intros Ha Hb. rewrite map_app, map_map.
  rewrite (map_ext _ t_trace) by (intros x; now destruct (find_tres (t_trace x) b)).
  apply NoDup_app2; [assumption|now apply NoDup_map_filter|].
  intros t Hin Hin2. apply in_map_iff in Hin2. destruct Hin2 as [y [<- Hy]]. apply filter_In in Hy. destruct Hy as [_ Hy].
  destruct (find_tres (t_trace y) a) eqn:E; [discriminate|]. now apply find_tres_none in E.
Qed.

(* ---------- && and || respect deq; || is associative ---------- *)
Lemma merge_oeq x y x' y' : oeq (Some x) (Some x') -> oeq (Some y) (Some y') -> oeq (Some (merge x y)) (Some (merge x' y')).
Proof.
  cbn. intros [H1 [H2 H3]] [K1 [K2 K3]]. split; [assumption|]. split; [|now rewrite H3, K3].
  intros s. rewrite !union_strs_in, (H2 s), (K2 s). tauto.
Qed.

Lemma deq_and a a' b b' : deq a a' -> deq b b' -> deq (and_sem a b) (and_sem a' b').
Proof.
  intros [Ha [Ha' Ea]] [Hb [Hb' Eb]]. split; [now apply tnodup_and|]. split; [now apply tnodup_and|].
  intros t. rewrite !find_and. specialize (Ea t). specialize (Eb t).
  destruct (find_tres t a) as [x|], (find_tres t a') as [x'|]; try contradiction; [|exact I].
  destruct (find_tres t b) as [y|], (find_tres t b') as [y'|]; try contradiction; [|exact I].
  now apply merge_oeq.
Qed.
Lemma deq_or a a' b b' : deq a a' -> deq b b' -> deq (or_sem a b) (or_sem a' b').
Proof.
  intros [Ha [Ha' Ea]] [Hb [Hb' Eb]]. split; [now apply tnodup_or|]. split; [now apply tnodup_or|].
  intros t. rewrite !find_or. specialize (Ea t). specialize (Eb t).
  destruct (find_tres t a) as [x|], (find_tres t a') as [x'|]; try contradiction; [|exact Eb].
  destruct (find_tres t b) as [y|], (find_tres t b') as [y'|]; try contradiction; [now apply merge_oeq|exact Ea].
Qed.

Lemma or_assoc a b c : tnodup a -> tnodup b -> tnodup c -> deq (or_sem (or_sem a b) c) (or_sem a (or_sem b c)).
Proof.
  intros Ha Hb Hc. split; [apply tnodup_or; [now apply tnodup_or|assumption]|]. split; [apply tnodup_or; [assumption|now apply tnodup_or]|].
  intros t. rewrite !find_or.
  destruct (find_tres t a) as [x|], (find_tres t b) as [y|], (find_tres t c) as [z|]; try apply oeq_refl.
  cbn [oeq merge t_trace t_spans t_key]. split; [reflexivity|]. split; [|lia].
  intros s. rewrite !union_strs_in. tauto.
Qed.

(* ---------- well-formed results: every trace carries at least one span, all of them spans of that trace ---------- *)
Definition twf (ids : string -> list string) (l : list tres) : Prop :=
  forall y, In y l -> t_spans y <> [] /\ incl (t_spans y) (ids (t_trace y)).

Lemma in_and a b m : In m (and_sem a b) -> exists x y, In x a /\ In y b /\ t_trace y = t_trace x /\ m = merge x y.
Proof.
  unfold and_sem. intros H. apply in_flat_map in H. destruct H as [x [Hx Hm]].
  destruct (find_tres (t_trace x) b) as [y|] eqn:E; [|destruct Hm]. destruct Hm as [<-|[]].
  destruct (find_tres_some _ _ _ E) as [Hy Ht]. exists x, y. repeat split; assumption.
Qed.
Lemma in_or a b m : In m (or_sem a b) -> (In m b) \/ (exists x, In x a /\ (m = x \/ exists y, In y b /\ t_trace y = t_trace x /\ m = merge x y)).
Proof.
  unfold or_sem. intros H. apply in_app_or in H. destruct H as [H|H].
  - right. apply in_map_iff in H. destruct H as [x [<- Hx]]. exists x. split; [assumption|].
    destruct (find_tres (t_trace x) b) as [y|] eqn:E; [|now left]. right.
    destruct (find_tres_some _ _ _ E) as [Hy Ht]. exists y. repeat split; assumption.
  - left. apply filter_In in H. tauto.
Qed.
Lemma merge_wf ids x y : t_trace y = t_trace x -> t_spans x <> [] -> incl (t_spans x) (ids (t_trace x)) -> incl (t_spans y) (ids (t_trace y)) ->
  t_spans (merge x y) <> [] /\ incl (t_spans (merge x y)) (ids (t_trace (merge x y))).
Proof.
  intros Ht Hne Hx Hy. cbn [merge t_spans t_trace]. split.
  - destruct (t_spans x) as [|s0 r] eqn:E; [congruence|]. intros Hn.
    assert (Hin : In s0 (union_strs (s0 :: r) (t_spans y))) by (apply union_strs_in; left; now left). rewrite Hn in Hin. destruct Hin.
  - intros s Hs. apply union_strs_in in Hs. destruct Hs as [Hs|Hs]; [now apply Hx|]. rewrite <- Ht. now apply Hy.
Qed.
Lemma twf_and ids a b : twf ids a -> twf ids b -> twf ids (and_sem a b).
Proof.
  intros Ha Hb m Hm. destruct (in_and a b m Hm) as [x [y [Hx [Hy [Ht ->]]]]].
  destruct (Ha x Hx) as [A1 A2]. destruct (Hb y Hy) as [B1 B2]. now apply merge_wf.
Qed.
Lemma twf_or ids a b : twf ids a -> twf ids b -> twf ids (or_sem a b).
Proof.
  intros Ha Hb m Hm. destruct (in_or a b m Hm) as [H|[x [Hx [->|[y [Hy [Ht ->]]]]]]]; [now apply Hb|now apply Ha|].
  destruct (Ha x Hx) as [A1 A2]. destruct (Hb y Hy) as [B1 B2]. now apply merge_wf.
Qed.
Lemma twf_deq ids a b : deq a b -> twf ids b -> twf ids a.
Proof.
  intros [Ha [Hb E]] Hw x Hx. specialize (E (t_trace x)). rewrite (find_tres_in a x Ha Hx) in E.
  destruct (find_tres (t_trace x) b) as [y|] eqn:Ey; [|contradiction]. destruct E as [E1 [E2 E3]].
  destruct (find_tres_some _ _ _ Ey) as [Hy _]. destruct (Hw y Hy) as [W1 W2]. split.
  - intros Hn. apply W1. destruct (t_spans y) as [|s r]; [reflexivity|]. exfalso. assert (Hin : In s (t_spans x)) by (apply E2; now left). rewrite Hn in Hin. destruct Hin.
  - intros s Hs. rewrite E1. apply W2. now apply E2.
Qed.

(* the two lists have the same traces, hence the same length *)
Lemma deq_traces a b : deq a b -> forall t, In t (map t_trace a) <-> In t (map t_trace b).
Proof.
  intros [Ha [Hb E]] t. specialize (E t). split; intros H.
  - destruct (find_tres t b) eqn:Eb; [destruct (find_tres_some _ _ _ Eb) as [H1 <-]; now apply in_map|].
    destruct (find_tres t a) eqn:Ea; [contradiction|]. now apply find_tres_none in Ea.
  - destruct (find_tres t a) eqn:Ea; [destruct (find_tres_some _ _ _ Ea) as [H1 <-]; now apply in_map|].
    destruct (find_tres t b) eqn:Eb; [contradiction|]. now apply find_tres_none in Eb.
Qed.
Lemma deq_length a b : deq a b -> List.length a = List.length b.
Proof.
  intros H. rewrite <- (map_length t_trace a), <- (map_length t_trace b). apply Permutation_length.
  destruct H as [Ha [Hb E]]. apply NoDup_Permutation; [assumption|assumption|]. apply deq_traces. split; [assumption|]. split; assumption.
Qed.
