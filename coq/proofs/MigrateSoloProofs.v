(* C18 -- the small-step process model (pstep / solo_run, used for the interleavings of two starters) refines the
   big-step `update` in general: one process alone, stepped with enough fuel under the same outcome list, makes
   exactly the calls of `update`, ends in the same database and returns the same verdict -- for every statement
   semantics, script lists, configuration, outcome list and start database.  (Before: 8 computed runs.) *)
From Coq Require Import List String NArith ZArith Bool Arith Lia.
From Qryn Require Import model.Migrate proofs.MigrateProofs.
Import ListNotations.
Open Scope nat_scope.

Section SoloProofs.
  Variables (cat stmt : Type).
  Variable exec : stmt -> cat -> option cat.
  Variable pexec : list bool -> stmt -> cat -> cat.
  Variable scripts : stream -> list stmt.

  Notation db := (db cat).
  Notation loop := (loop cat stmt exec pexec).
  Notation prelude := (prelude cat).
  Notation us := (us cat stmt exec pexec scripts).
  Notation run_streams := (run_streams cat stmt exec pexec scripts).
  Notation update := (update cat stmt exec pexec scripts).
  Notation pstep := (pstep cat stmt exec pexec scripts).
  Notation solo_run := (solo_run cat stmt exec pexec scripts).
  Notation p_next := (p_next stmt scripts).
  Notation do_call := (do_call cat).
  Notation len k := (List.length (scripts k)).

  (* the process after Update returned: nil / an error *)
  Definition p_done (ok : bool) : proc := if ok then p_at [] PCreateVer else p_fail.

  Lemma solo_S c f p os (d : db) :
    solo_run c (S f) p os d =
    match p_ks p with
    | [] => (p, d, [])
    | _ => let '(p1, d1, l1) := pstep c p (o_hd os) d in
           let '(p2, d2, l2) := solo_run c f p1 (match l1 with [] => os | _ => tl os end) d1 in (p2, d2, l1 ++ l2)
    end.
  Proof. reflexivity. Qed.

  Lemma solo_done c f p os (d : db) : p_ks p = [] -> solo_run c f p os d = (p, d, []).
  Proof. intros H. destruct f; cbn; [reflexivity|]. now rewrite H. Qed.

  Lemma skipn_cons_inv {A} (l : list A) i x t : skipn i l = x :: t -> nth_error l i = Some x /\ skipn (S i) l = t /\ i < List.length l.
  Proof.
    rewrite skipn_nth. destruct (nth_error l i) as [y|] eqn:E; [|discriminate]. intros H. inversion H; subst.
    split; [reflexivity|]. split; [reflexivity|]. apply nth_error_Some. congruence.
  Qed.
  Lemma skipn_nil_inv {A} (l : list A) i : skipn i l = [] -> List.length l <= i.
  Proof. rewrite skipn_nth. destruct (nth_error l i) eqn:E; [discriminate|]. intros _. now apply nth_error_None. Qed.

  (* ---- the script loop of one stream *)
  Lemma solo_loop c k ks : forall todo i os (d : db) fuel, skipn i (scripts k) = todo ->
    solo_run c (List.length (r_log (loop k todo i os d)) + fuel) (p_next k ks i) os d =
    if r_ok (loop k todo i os d)
    then (let '(p2, d2, l2) := solo_run c fuel (p_at ks PCreateVer) (r_os (loop k todo i os d)) (r_db (loop k todo i os d)) in
          (p2, d2, r_log (loop k todo i os d) ++ l2))
    else (p_fail, r_db (loop k todo i os d), r_log (loop k todo i os d)).
  Proof.
    induction todo as [|x todo IH]; intros i os d fuel Hs.
    - apply skipn_nil_inv in Hs. unfold Migrate.p_next. apply Nat.ltb_ge in Hs. rewrite Hs.
      cbn [Migrate.loop r_log r_ok r_os r_db List.length plus app].
      destruct (solo_run c fuel (p_at ks PCreateVer) os d) as [[p2 d2] l2]. reflexivity.
    - apply skipn_cons_inv in Hs. destruct Hs as (Hx & Hs & Hlt).
      unfold Migrate.p_next at 1. apply Nat.ltb_lt in Hlt. rewrite Hlt.
      cbn [Migrate.loop].
      destruct (do_call (o_hd os) (eff_script cat stmt exec x) (peff_script cat stmt pexec x) d) as [d1 r1] eqn:E1.
      destruct (res_ok r1) eqn:R1.
      + destruct (do_call (o_hd (tl os)) (eff_setver cat k (S i)) (peff_none cat) d1) as [d2 r2] eqn:E2.
        destruct (res_ok r2) eqn:R2.
        * specialize (IH (S i) (tl (tl os)) d2 fuel Hs).
          cbn [r_log r_ok r_os r_db List.length plus].
          rewrite solo_S. cbn [p_at p_ks]. unfold Migrate.pstep at 1. cbn [p_at p_ks p_pc]. rewrite Hx, E1, R1.
          rewrite solo_S. cbn [p_at p_ks]. unfold Migrate.pstep at 1. cbn [p_at p_ks p_pc]. rewrite E2, R2.
          rewrite IH. destruct (r_ok (loop k todo (S i) (tl (tl os)) d2)).
          -- destruct (solo_run c fuel (p_at ks PCreateVer) (r_os (loop k todo (S i) (tl (tl os)) d2)) (r_db (loop k todo (S i) (tl (tl os)) d2))) as [[p2 d3] l2].
             reflexivity.
          -- reflexivity.
        * cbn [r_log r_ok r_os r_db List.length plus].
          rewrite solo_S. cbn [p_at p_ks]. unfold Migrate.pstep at 1. cbn [p_at p_ks p_pc]. rewrite Hx, E1, R1.
          rewrite solo_S. cbn [p_at p_ks]. unfold Migrate.pstep at 1. cbn [p_at p_ks p_pc]. rewrite E2, R2.
          rewrite solo_done by reflexivity. reflexivity.
      + cbn [r_log r_ok r_os r_db List.length plus].
        rewrite solo_S. cbn [p_at p_ks]. unfold Migrate.pstep at 1. cbn [p_at p_ks p_pc]. rewrite Hx, E1, R1.
        rewrite solo_done by reflexivity. reflexivity.
  Qed.

  (* ---- the head of updateScripts *)
  Lemma solo_prelude c k ks os (d : db) fuel :
    solo_run c (List.length (r_log (prelude c k os d)) + fuel) (p_at (k :: ks) PCreateVer) os d =
    if r_ok (prelude c k os d)
    then (let '(p2, d2, l2) := solo_run c fuel (p_next k ks (d_vers (r_db (prelude c k os d)) k)) (r_os (prelude c k os d)) (r_db (prelude c k os d)) in
          (p2, d2, r_log (prelude c k os d) ++ l2))
    else (p_fail, r_db (prelude c k os d), r_log (prelude c k os d)).
  Proof.
    unfold Migrate.prelude.
    destruct (do_call (o_hd os) (eff_create_ver cat) (peff_none cat) d) as [d1 r1] eqn:E1.
    destruct (res_ok r1) eqn:R1; cbn [negb].
    2:{ cbn [r_log r_ok r_os r_db List.length plus].
        rewrite solo_S. cbn [p_at p_ks]. unfold Migrate.pstep at 1. cbn [p_at p_ks p_pc]. rewrite E1, R1.
        rewrite solo_done by reflexivity. reflexivity. }
    destruct (clustered c) eqn:Ecl.
    - destruct (do_call (o_hd (tl os)) (eff_create_vd cat) (peff_none cat) d1) as [d2 r2] eqn:E2.
      destruct (res_ok r2) eqn:R2; cbn [negb].
      2:{ cbn [r_log r_ok r_os r_db List.length plus].
          rewrite solo_S. cbn [p_at p_ks]. unfold Migrate.pstep at 1. cbn [p_at p_ks p_pc]. rewrite E1, R1, Ecl.
          rewrite solo_S. cbn [p_at p_ks]. unfold Migrate.pstep at 1. cbn [p_at p_ks p_pc]. rewrite E2, R2.
          rewrite solo_done by reflexivity. reflexivity. }
      destruct (do_call (o_hd (tl (tl os))) (eff_read cat c) (peff_none cat) d2) as [d3 r3] eqn:E3.
      cbn [r_log r_ok r_os r_db List.length plus app negb].
      rewrite solo_S. cbn [p_at p_ks]. unfold Migrate.pstep at 1. cbn [p_at p_ks p_pc]. rewrite E1, R1, Ecl.
      rewrite solo_S. cbn [p_at p_ks]. unfold Migrate.pstep at 1. cbn [p_at p_ks p_pc]. rewrite E2, R2.
      rewrite solo_S. cbn [p_at p_ks]. unfold Migrate.pstep at 1. cbn [p_at p_ks p_pc]. rewrite E3.
      destruct (res_ok r3) eqn:R3.
      + destruct (solo_run c fuel (p_next k ks (d_vers d3 k)) (tl (tl (tl os))) d3) as [[p2 d4] l2]. reflexivity.
      + rewrite solo_done by reflexivity. reflexivity.
    - destruct (do_call (o_hd (tl os)) (eff_read cat c) (peff_none cat) d1) as [d3 r3] eqn:E3.
      cbn [r_log r_ok r_os r_db List.length plus app negb].
      rewrite solo_S. cbn [p_at p_ks]. unfold Migrate.pstep at 1. cbn [p_at p_ks p_pc]. rewrite E1, R1, Ecl.
      rewrite solo_S. cbn [p_at p_ks]. unfold Migrate.pstep at 1. cbn [p_at p_ks p_pc]. rewrite E3.
      destruct (res_ok r3) eqn:R3.
      + destruct (solo_run c fuel (p_next k ks (d_vers d3 k)) (tl (tl os)) d3) as [[p2 d4] l2]. reflexivity.
      + rewrite solo_done by reflexivity. reflexivity.
  Qed.

  (* ---- updateScripts of one stream *)
  Lemma solo_us c k ks os (d : db) fuel :
    solo_run c (List.length (r_log (us c k os d)) + fuel) (p_at (k :: ks) PCreateVer) os d =
    if r_ok (us c k os d)
    then (let '(p2, d2, l2) := solo_run c fuel (p_at ks PCreateVer) (r_os (us c k os d)) (r_db (us c k os d)) in
          (p2, d2, r_log (us c k os d) ++ l2))
    else (p_fail, r_db (us c k os d), r_log (us c k os d)).
  Proof.
    unfold Migrate.us. destruct (r_ok (prelude c k os d)) eqn:Hp.
    - cbn [r_log r_ok r_os r_db]. rewrite app_length, <- Nat.add_assoc, solo_prelude, Hp.
      set (p := prelude c k os d) in *. set (v := d_vers (r_db p) k).
      rewrite (solo_loop c k ks (skipn v (scripts k)) v (r_os p) (r_db p) fuel eq_refl).
      destruct (r_ok (loop k (skipn v (scripts k)) v (r_os p) (r_db p))).
      + destruct (solo_run c fuel (p_at ks PCreateVer) (r_os (loop k (skipn v (scripts k)) v (r_os p) (r_db p)))
                    (r_db (loop k (skipn v (scripts k)) v (r_os p) (r_db p)))) as [[p2 d2] l2].
        now rewrite app_assoc.
      + reflexivity.
    - rewrite solo_prelude, Hp. reflexivity.
  Qed.

  (* ---- Update *)
  Lemma solo_run_streams c : forall ks os (d : db) fuel,
    solo_run c (List.length (r_log (run_streams c ks os d)) + fuel) (p_at ks PCreateVer) os d =
    (p_done (r_ok (run_streams c ks os d)), r_db (run_streams c ks os d), r_log (run_streams c ks os d)).
  Proof.
    induction ks as [|k ks IH]; intros os d fuel; cbn [Migrate.run_streams].
    - cbn [r_log r_ok r_db List.length plus]. now rewrite solo_done.
    - destruct (r_ok (us c k os d)) eqn:Hu.
      + cbn [r_log r_ok r_db]. rewrite app_length, <- Nat.add_assoc, solo_us, Hu, IH. reflexivity.
      + pose proof (solo_us c k ks os d fuel) as H. rewrite Hu in H. rewrite Hu. exact H.
  Qed.

  Lemma proc0_is c : proc0 c = p_at (streams_of c) PCreateVer.
  Proof. reflexivity. Qed.

  (* one process alone, in small steps with enough fuel, IS the big-step update *)
  Theorem solo_is_update c os (d : db) fuel :
    List.length (r_log (update c os d)) <= fuel ->
    solo_run c fuel (proc0 c) os d = (p_done (r_ok (update c os d)), r_db (update c os d), r_log (update c os d)).
  Proof.
    intros H. replace fuel with (List.length (r_log (update c os d)) + (fuel - List.length (r_log (update c os d)))) by lia.
    rewrite proc0_is. apply solo_run_streams.
  Qed.

  (* a bound on the number of calls of one start, independent of outcomes and database: 3 + 2 per script, per stream *)
  Definition calls_bound (c : cfg) : nat := fold_right (fun k n => 3 + 2 * len k + n) 0 (streams_of c).

  Lemma loop_log_bound k : forall todo i os (d : db), List.length (r_log (loop k todo i os d)) <= 2 * List.length todo.
  Proof.
    induction todo as [|x todo IH]; intros i os d; cbn [Migrate.loop]; [cbn; lia|].
    destruct (do_call (o_hd os) (eff_script cat stmt exec x) (peff_script cat stmt pexec x) d) as [d1 r1].
    destruct (res_ok r1); [|cbn; lia].
    destruct (do_call (o_hd (tl os)) (eff_setver cat k (S i)) (peff_none cat) d1) as [d2 r2].
    destruct (res_ok r2); [|cbn; lia].
    cbn [r_log List.length]. specialize (IH (S i) (tl (tl os)) d2). lia.
  Qed.
  Lemma prelude_log_bound c k os (d : db) : List.length (r_log (prelude c k os d)) <= 3.
  Proof.
    unfold Migrate.prelude. destruct (do_call (o_hd os) (eff_create_ver cat) (peff_none cat) d) as [d1 r1].
    destruct (res_ok r1); cbn [negb]; [|cbn; lia].
    destruct (clustered c).
    - destruct (do_call (o_hd (tl os)) (eff_create_vd cat) (peff_none cat) d1) as [d2 r2].
      destruct (res_ok r2); cbn [negb]; [|cbn; lia].
      destruct (do_call (o_hd (tl (tl os))) (eff_read cat c) (peff_none cat) d2) as [d3 r3]. cbn; lia.
    - destruct (do_call (o_hd (tl os)) (eff_read cat c) (peff_none cat) d1) as [d3 r3]. cbn; lia.
  Qed.
  Lemma us_log_bound c k os (d : db) : List.length (r_log (us c k os d)) <= 3 + 2 * len k.
  Proof.
    unfold Migrate.us. pose proof (prelude_log_bound c k os d) as Hp. destruct (r_ok (prelude c k os d)); [|lia].
    cbn [r_log]. rewrite app_length.
    pose proof (loop_log_bound k (skipn (d_vers (r_db (prelude c k os d)) k) (scripts k)) (d_vers (r_db (prelude c k os d)) k)
                  (r_os (prelude c k os d)) (r_db (prelude c k os d))) as Hl.
    pose proof (skipn_length (d_vers (r_db (prelude c k os d)) k) (scripts k)) as Hs. lia.
  Qed.
  Lemma run_streams_log_bound c : forall ks os (d : db),
    List.length (r_log (run_streams c ks os d)) <= fold_right (fun k n => 3 + 2 * len k + n) 0 ks.
  Proof.
    induction ks as [|k ks IH]; intros os d; cbn [Migrate.run_streams fold_right]; [cbn; lia|].
    pose proof (us_log_bound c k os d) as Hu. destruct (r_ok (us c k os d)); [|lia].
    cbn [r_log]. rewrite app_length. specialize (IH (r_os (us c k os d)) (r_db (us c k os d))). lia.
  Qed.

  Theorem solo_refines_update c os (d : db) :
    solo_run c (calls_bound c) (proc0 c) os d = (p_done (r_ok (update c os d)), r_db (update c os d), r_log (update c os d)).
  Proof. apply solo_is_update. apply run_streams_log_bound. Qed.
End SoloProofs.
