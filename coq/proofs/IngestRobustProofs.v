(* Proofs for property C05 over model/IngestRobust.v. *)
From Coq Require Import List String Ascii ZArith NArith Bool Lia.
From Qryn Require Import model.IngestRobust.
Import ListNotations.

(* ------------------------------------------------------------------------------------------ *)
(** * Goroutine inventory: what inventory_ok means *)

Lemma inventory_ok_sound : forall gs, inventory_ok gs = true ->
  forall g, In g gs ->
    g_recovers g = true \/
    exists c, In (g_file g, g_func g, g_ord g, g_target g, c) allow_list.
Proof.
  intros gs H g Hin. unfold inventory_ok in H. apply andb_true_iff in H as [Hall _].
  rewrite forallb_forall in Hall. specialize (Hall g Hin). unfold goroutine_ok in Hall.
  apply orb_true_iff in Hall as [Hr|Ha]; [left; exact Hr|right].
  unfold g_allowed in Ha. apply existsb_exists in Ha as [[[[[f fn] o] t] c] [Hin' Heq]].
  apply andb_true_iff in Heq as [Heq Ht]. apply andb_true_iff in Heq as [Heq Ho].
  apply andb_true_iff in Heq as [Hf Hfn].
  apply String.eqb_eq in Hf, Hfn, Ht. apply Z.eqb_eq in Ho. subst. exists c. exact Hin'.
Qed.

Lemma inventory_ok_decoders_recover : forall gs, inventory_ok gs = true ->
  forall f fn o, In (f, fn, o) must_recover ->
    exists g, In g gs /\ g_file g = f /\ g_func g = fn /\ g_ord g = o /\ g_recovers g = true.
Proof.
  intros gs H f fn o Hin. unfold inventory_ok in H. apply andb_true_iff in H as [_ Hm].
  rewrite forallb_forall in Hm. specialize (Hm _ Hin). cbn [recovering_present] in Hm.
  apply existsb_exists in Hm as [g [Hg Heq]]. exists g. split; [exact Hg|].
  apply andb_true_iff in Heq as [Heq Hr]. apply andb_true_iff in Heq as [Heq Ho].
  apply andb_true_iff in Heq as [Hf Hfn].
  apply String.eqb_eq in Hf, Hfn. apply Z.eqb_eq in Ho. subst. auto.
Qed.

(* ------------------------------------------------------------------------------------------ *)
(** * ErrorHandler *)

Lemma status_of_typed_error : forall e, e_kind e <> KPlain -> status_of_error e = Some (e_code e).
Proof.
  intros e H. unfold status_of_error, error_handler_model. cbn [eh_eval].
  destruct (e_kind e); cbn; try reflexivity. contradiction.
Qed.

Lemma status_of_plain_error : forall e, e_kind e = KPlain ->
  status_of_error e = if prefix reset_prefix (e_msg e) then None else Some 500%Z.
Proof.
  intros e H. unfold status_of_error, error_handler_model. cbn [eh_eval]. rewrite H. cbn.
  destruct (prefix reset_prefix (e_msg e)); reflexivity.
Qed.

(* every error the handler can be given is answered with a 4xx/5xx status -- provided its typed code is one
   of `codes` (all in range) and, for an untyped error, its text does not begin with the reset marker *)
Lemma every_error_has_status_gen : forall codes, forallb code_is_error_status codes = true ->
  forall e, (e_kind e <> KPlain -> In (e_code e) codes) ->
            (e_kind e = KPlain -> prefix reset_prefix (e_msg e) = false) ->
  exists c, status_of_error e = Some c /\ (400 <= c <= 599)%Z.
Proof.
  intros codes Hc e Hcode Hmsg. rewrite forallb_forall in Hc.
  destruct (e_kind e) eqn:Hk.
  - assert (Hne : e_kind e <> KPlain) by (rewrite Hk; discriminate).
    exists (e_code e). split; [apply status_of_typed_error; exact Hne|].
    assert (Hin : In (e_code e) codes) by (apply Hcode; discriminate).
    specialize (Hc _ Hin). unfold code_is_error_status in Hc.
    apply andb_true_iff in Hc as [H1 H2]. apply Z.leb_le in H1, H2. lia.
  - assert (Hne : e_kind e <> KPlain) by (rewrite Hk; discriminate).
    exists (e_code e). split; [apply status_of_typed_error; exact Hne|].
    assert (Hin : In (e_code e) codes) by (apply Hcode; discriminate).
    specialize (Hc _ Hin). unfold code_is_error_status in Hc.
    apply andb_true_iff in Hc as [H1 H2]. apply Z.leb_le in H1, H2. lia.
  - exists 500%Z. split; [|lia]. rewrite (status_of_plain_error e Hk), (Hmsg eq_refl). reflexivity.
Qed.

Lemma reset_prefix_is_silent : status_of_error (e_plain "connection reset by peer: insert failed") = None.
Proof. vm_compute. reflexivity. Qed.

Lemma status_cls_is_response : forall s, status_cls s <> Crash /\ status_cls s <> Hang.
Proof.
  intros [c|]; cbn; [|split; discriminate].
  destruct (c <? 300)%Z; [split; discriminate|]. destruct (c <? 500)%Z; split; discriminate.
Qed.

(* ------------------------------------------------------------------------------------------ *)
(** * Loops *)
Open Scope N_scope.

Lemma pow18 : 10 ^ 18 = 1000000000000000000. Proof. reflexivity. Qed.
Lemma pow64 : 2 ^ 64 = 18446744073709551616. Proof. reflexivity. Qed.

Lemma ns_enough : forall k t, 0 < t -> 10 ^ 18 <= t * 10 ^ N.of_nat k -> ns_fuel (S k) t <> None.
Proof.
  induction k as [|k IH]; intros t Ht H.
  - cbn [ns_fuel]. replace (10 ^ N.of_nat 0) with 1 in H by reflexivity.
    destruct (N.ltb_spec t (10 ^ 18)) as [Hlt|Hge]; [lia|].
    rewrite andb_false_r. discriminate.
  - cbn [ns_fuel]. destruct ((0 <? t) && (t <? 10 ^ 18)); [|discriminate].
    apply IH; [lia|]. replace (N.of_nat (S k)) with (N.succ (N.of_nat k)) in H by lia.
    rewrite N.pow_succ_r' in H. lia.
Qed.

Lemma ns_terminates_all : forall t, ns_fuel ns_fuel_enough t <> None.
Proof.
  intros t. destruct (N.eq_dec t 0) as [->|Hne].
  - vm_compute. discriminate.
  - unfold ns_fuel_enough. apply (ns_enough 18); [lia|]. change (N.of_nat 18) with 18.
    assert (10 ^ 18 * 1 <= 10 ^ 18 * t) by (apply N.mul_le_mono_l; lia). lia.
Qed.

(* the loop as it was: for every amount of fuel, started at 0 it is still running *)
Lemma ns_orig_zero_never_returns : forall fuel, ns_orig_fuel fuel 0 = None.
Proof. induction fuel as [|f IH]; cbn; [reflexivity|exact IH]. Qed.

Lemma ns_zero : forall f r, ns_fuel f 0 = Some r -> r = 0.
Proof. intros [|f] r H; cbn in H; [discriminate|]. now inversion H. Qed.

Lemma ns_result : forall f t r, ns_fuel f t = Some r -> (t = 0 /\ r = 0) \/ (0 < t /\ 10 ^ 18 <= r).
Proof.
  induction f as [|f IH]; intros t r H; cbn [ns_fuel] in H; [discriminate|].
  destruct (N.ltb_spec 0 t) as [Hpos|Hz]; cbn [andb] in H.
  - destruct (N.ltb_spec t (10 ^ 18)) as [Hlt|Hge].
    + destruct (IH _ _ H) as [[Hc _]|[_ Hr]]; [lia|right; split; [exact Hpos|exact Hr]].
    + inversion H; subst. right. split; assumption.
  - inversion H; subst. left. split; lia.
Qed.

(* uint64 arithmetic never wraps inside ns: modelling the timestamp by N is exact *)
Lemma ns_below_2_64_gen : forall f t r, t < 2 ^ 64 -> ns_fuel f t = Some r -> r < 2 ^ 64.
Proof.
  induction f as [|f IH]; intros t r Ht H; cbn [ns_fuel] in H; [discriminate|].
  destruct (N.ltb_spec 0 t) as [Hpos|Hz]; cbn [andb] in H.
  - destruct (N.ltb_spec t (10 ^ 18)) as [Hlt|Hge].
    + apply (IH (t * 10)); [|exact H]. rewrite pow18 in Hlt. rewrite pow64. lia.
    + inversion H; subst. exact Ht.
  - inversion H; subst. exact Ht.
Qed.

Lemma ffa_enough : forall k cur len, 0 < cur -> len <= cur * 2 ^ N.of_nat k -> ffa_loop (S k) cur len <> None.
Proof.
  induction k as [|k IH]; intros cur len Hc H.
  - cbn [ffa_loop]. replace (2 ^ N.of_nat 0) with 1 in H by reflexivity.
    destruct (N.ltb_spec cur len); [lia|discriminate].
  - cbn [ffa_loop]. destruct (N.ltb_spec cur len); [|discriminate].
    apply IH; [lia|]. replace (N.of_nat (S k)) with (N.succ (N.of_nat k)) in H by lia.
    rewrite N.pow_succ_r' in H. lia.
Qed.

Lemma fast_fill_array_terminates : forall len, fast_fill_array (ffa_fuel len) len = LDone.
Proof.
  intros len. unfold fast_fill_array. destruct (N.eqb_spec len 0) as [->|Hnz]; [reflexivity|].
  assert (Hpos : 0 < len) by lia.
  destruct (ffa_loop (ffa_fuel len) 1 len) eqn:E; [reflexivity|]. exfalso. revert E.
  unfold ffa_fuel. apply ffa_enough; [lia|]. rewrite N2Nat.id, N.mul_1_l.
  destruct (N.eq_dec len 1) as [->|Hne]; [cbn; lia|].
  apply (N.log2_up_spec len). lia.
Qed.

Lemma fast_fill_array_orig_zero_panics : forall fuel, fast_fill_array_orig fuel 0 = LPanic.
Proof. reflexivity. Qed.

Lemma ff_zero_spins : forall fuel len, 0 < len -> ff_loop fuel 0 len = None.
Proof.
  induction fuel as [|f IH]; intros len H; cbn [ff_loop]; [reflexivity|].
  destruct (N.ltb_spec 0 len); [|lia]. change (0 / 2) with 0. apply IH. exact H.
Qed.

Lemma fast_fill_never_returns : forall fuel len, 1 < len -> ff_loop fuel 1 len = None.
Proof.
  intros [|f] len H; cbn [ff_loop]; [reflexivity|].
  destruct (N.ltb_spec 1 len); [|lia]. change (1 / 2) with 0. apply ff_zero_spins. lia.
Qed.

(* ------------------------------------------------------------------------------------------ *)
(** * The push goroutine *)

Lemma world_ok_cols : forall w s, world_ok w = true -> cols_nil w s = false.
Proof.
  intros [a b c d e] s H. unfold world_ok in H. cbn in H.
  destruct a, b, c, d, e; cbn in H; try discriminate; destruct s; reflexivity.
Qed.

Lemma world_ok_eq : forall w, world_ok w = true -> w = world0.
Proof.
  intros [a b c d e] H. unfold world_ok in H. cbn in H.
  destruct a, b, c, d, e; cbn in H; try discriminate; reflexivity.
Qed.

Lemma fixed_ok : forall ids, forallb id_ok ids = true -> fixed_append_panics ids = false.
Proof. intros ids H. unfold fixed_append_panics. now rewrite H. Qed.

Lemma push_spans_ok : forall w sp at_, world_ok w = true ->
  forallb id_ok sp = true -> forallb id_ok at_ = true ->
  push_resp ctx_traces w (resp_spans sp at_) = (ROk, w).
Proof.
  intros w sp at_ Hw Hs Ha. rewrite (world_ok_eq w Hw).
  unfold push_resp, resp_spans, ctx_traces, do_push. cbn.
  rewrite (fixed_ok _ Hs), (fixed_ok _ Ha). reflexivity.
Qed.

Definition span_st_ok (st : span_st) : Prop :=
  forallb id_ok (ss_spans st) = true /\ forallb id_ok (ss_attrs st) = true.

Lemma span_st0_ok : span_st_ok span_st0.
Proof. split; reflexivity. Qed.

Lemma forallb_repeat : forall (A : Type) (f : A -> bool) x n, f x = true -> forallb f (repeat x n) = true.
Proof. intros A f x n H. induction n as [|n IH]; cbn; [reflexivity|]. now rewrite H, IH. Qed.

Lemma on_span_inv : forall st r st' out, span_st_ok st -> on_span st r = inl (st', out) ->
  span_st_ok st' /\
  (out = [] \/ exists sp at_, out = [resp_spans sp at_] /\ forallb id_ok sp = true /\ forallb id_ok at_ = true).
Proof.
  intros st r st' out [Hs Ha] H. unfold on_span in H.
  destruct ((si_tid r =? 16) && (si_sid r =? 8)) eqn:Hid; cbn [negb] in H; [|discriminate].
  assert (Hok : id_ok (si_tid r, si_sid r) = true) by exact Hid.
  assert (Hs1 : forallb id_ok (ss_spans st ++ [(si_tid r, si_sid r)]) = true).
  { rewrite forallb_app, Hs. cbn. now rewrite Hok. }
  assert (Ha1 : forallb id_ok (ss_attrs st ++ repeat (si_tid r, si_sid r) (si_keys r)) = true).
  { rewrite forallb_app, Ha. cbn. now apply forallb_repeat. }
  cbn [ss_size ss_spans ss_attrs] in H.
  destruct (MiB <? ss_size st + si_bytes r + si_abytes r); inversion H; subst; clear H.
  - split; [exact span_st0_ok|]. right. eexists. eexists. split; [reflexivity|]. split; assumption.
  - split; [split; assumption|]. left. reflexivity.
Qed.

Lemma do_parse_cons_ok' : forall c w failed p rest, p_err p = None -> push_resp c w p = (ROk, w) ->
  do_parse c w failed (p :: rest) = do_parse c w failed rest.
Proof. intros c w failed p rest H H0. cbn [do_parse]. rewrite H, H0. reflexivity. Qed.

Lemma spans_no_crash : forall evs st w failed, world_ok w = true -> span_st_ok st ->
  fst (do_parse ctx_traces w failed (parse_spans st evs)) <> PCrash /\
  world_ok (snd (do_parse ctx_traces w failed (parse_spans st evs))) = true.
Proof.
  unfold parse_spans.
  induction evs as [|ev evs IH]; intros st w failed Hw Hst; cbn [parse_spans_with].
  - destruct Hst as [Hs Ha]. rewrite do_parse_cons_ok'; [|reflexivity|apply push_spans_ok; assumption].
    cbn. destruct failed; split; try discriminate; exact Hw.
  - destruct ev as [r| |e].
    + destruct (on_span st r) as [[st' out]|e] eqn:Hon.
      * destruct (on_span_inv _ _ _ _ Hst Hon) as [Hst' [->|[sp [at_ [-> [Hs Ha]]]]]].
        -- cbn [app]. apply IH; assumption.
        -- cbn [app]. rewrite do_parse_cons_ok'; [|reflexivity|apply push_spans_ok; assumption].
           apply IH; assumption.
      * cbn. split; [discriminate|exact Hw].
    + cbn. split; [discriminate|exact Hw].
    + cbn. split; [discriminate|exact Hw].
Qed.

(* logs *)
Definition ts_ok (t : ts_cols) : Prop := tc_labels t = tc_dates t.

Lemma push_logs_ok : forall w ts rows, world_ok w = true -> ts_ok ts ->
  push_resp ctx_logs w (resp_logs ts rows) = (ROk, w).
Proof.
  intros w ts rows Hw Ht. rewrite (world_ok_eq w Hw).
  unfold push_resp, resp_logs, ctx_logs, do_push. cbn.
  red in Ht. rewrite Ht, N.ltb_irrefl. reflexivity.
Qed.

Lemma ts_add_ok : forall t k, ts_ok t -> ts_ok (ts_add t k).
Proof. intros t k H. unfold ts_ok, ts_add in *. cbn. now rewrite H. Qed.

Lemma do_parse_cons_ok : forall c w failed p rest, p_err p = None -> push_resp c w p = (ROk, w) ->
  do_parse c w failed (p :: rest) = do_parse c w failed rest.
Proof. intros c w failed p rest H H0. cbn [do_parse]. rewrite H, H0. reflexivity. Qed.

Lemma on_entries_inv : forall st r st' out, ts_ok (ls_ts st) -> on_entries st r = (st', out) ->
  ts_ok (ls_ts st') /\ (out = [] \/ exists ts rows, out = [resp_logs ts rows] /\ ts_ok ts).
Proof.
  intros st r st' out Hst H. unfold on_entries in H. cbn [ls_size ls_ts ls_rows] in H.
  destruct (MiB <? ls_size st + ei_bytes r)%N; inversion H; subst; clear H.
  - split; [reflexivity|]. right. eexists. eexists. split; [reflexivity|]. apply ts_add_ok. exact Hst.
  - split; [cbn [ls_ts]; apply ts_add_ok; exact Hst|]. left. reflexivity.
Qed.

Lemma logs_no_crash : forall evs st w failed, world_ok w = true -> ts_ok (ls_ts st) ->
  fst (do_parse ctx_logs w failed (parse_logs st evs)) <> PCrash /\
  world_ok (snd (do_parse ctx_logs w failed (parse_logs st evs))) = true.
Proof.
  induction evs as [|ev evs IH]; intros st w failed Hw Hst; cbn [parse_logs].
  - rewrite do_parse_cons_ok; [|reflexivity|apply push_logs_ok; assumption].
    cbn. destruct failed; split; try discriminate; exact Hw.
  - destruct ev as [r| |e].
    + destruct (on_entries st r) as [st' out] eqn:Hon.
      destruct (on_entries_inv _ _ _ _ Hst Hon) as [Hst' [->|[ts [rows [-> Hts]]]]].
      * cbn [app]. apply IH; assumption.
      * cbn [app]. rewrite do_parse_cons_ok; [|reflexivity|apply push_logs_ok; assumption].
        apply IH; assumption.
    + cbn. split; [discriminate|exact Hw].
    + cbn. split; [discriminate|exact Hw].
Qed.

(* profiles *)
Lemma push_prof_ok : forall w rows, world_ok w = true -> push_resp ctx_logs w (resp_prof rows) = (ROk, w).
Proof.
  intros w rows Hw. rewrite (world_ok_eq w Hw). reflexivity.
Qed.

Lemma prof_no_crash : forall evs rows w failed, world_ok w = true ->
  fst (do_parse ctx_logs w failed (parse_prof rows evs)) <> PCrash /\
  world_ok (snd (do_parse ctx_logs w failed (parse_prof rows evs))) = true.
Proof.
  induction evs as [|ev evs IH]; intros rows w failed Hw; cbn [parse_prof].
  - destruct (0 <? rows).
    + rewrite do_parse_cons_ok; [|reflexivity|apply push_prof_ok; assumption].
      cbn. destruct failed; split; try discriminate; exact Hw.
    + cbn. destruct failed; split; try discriminate; exact Hw.
  - destruct ev as [b| |e].
    + destruct (MiB <? b).
      * rewrite do_parse_cons_ok; [|reflexivity|apply push_prof_ok; assumption].
        apply IH. exact Hw.
      * apply IH. exact Hw.
    + cbn. split; [discriminate|exact Hw].
    + cbn. split; [discriminate|exact Hw].
Qed.

(* the code before fix 267315b: a 3-byte trace id reaches ColFixedStr.Append in the goroutine without recover *)
Lemma orig_push_crashes :
  fst (do_parse ctx_traces world0 false
        (parse_spans_orig span_st0 [EvSpan {| si_tid := 3; si_sid := 8; si_keys := 1%nat; si_bytes := 100; si_abytes := 50 |}]))
  = PCrash.
Proof. vm_compute. reflexivity. Qed.

Close Scope N_scope.

(* ------------------------------------------------------------------------------------------ *)
(** * Requests *)

Lemma cls_of_parse_resp : forall r, r <> PCrash -> cls_of_parse r <> Crash /\ cls_of_parse r <> Hang.
Proof.
  intros [e| | |] H; cbn; try (split; discriminate); [apply status_cls_is_response|contradiction].
Qed.

Lemma ingest_decode_no_hang : forall p from until name w, ingest_decode p from until name w <> DHang.
Proof.
  intros p from until name w. unfold ingest_decode.
  destruct (parse_uint64 from) as [start|]; [|discriminate].
  destruct (parse_uint64 until) as [en|]; [|discriminate].
  destruct (name_labels name); try discriminate.
  destruct (ns_fuel ns_fuel_enough start) eqn:E1; [|exfalso; exact (ns_terminates_all _ E1)].
  destruct (ns_fuel ns_fuel_enough en) eqn:E2; [|exfalso; exact (ns_terminates_all _ E2)].
  destruct w; discriminate.
Qed.

Lemma ingest_is_response : forall ct from until name w,
  ingest_outcome ct from until name w <> Crash /\ ingest_outcome ct from until name w <> Hang.
Proof.
  intros ct from until name w. unfold ingest_outcome.
  destruct (String.eqb from "" || String.eqb name "" || String.eqb until ""); [split; discriminate|].
  destruct (ingest_select ct) as [p|]; [|split; discriminate].
  destruct (ingest_decode p from until name w) as [evs|] eqn:E; [|exfalso; exact (ingest_decode_no_hang _ _ _ _ _ E)].
  apply cls_of_parse_resp. apply (prof_no_crash evs 0%N world0 false). reflexivity.
Qed.

Lemma zipkin_is_response : forall nd spans, zipkin_outcome nd spans <> Crash /\ zipkin_outcome nd spans <> Hang.
Proof.
  intros nd spans. unfold zipkin_outcome. apply cls_of_parse_resp.
  apply (spans_no_crash _ span_st0 world0 false); [reflexivity|exact span_st0_ok].
Qed.

Lemma otlp_is_response : forall rs, otlp_outcome rs <> Crash /\ otlp_outcome rs <> Hang.
Proof.
  intros rs. unfold otlp_outcome. apply cls_of_parse_resp.
  apply (spans_no_crash _ span_st0 world0 false); [reflexivity|exact span_st0_ok].
Qed.

Lemma proto_logs_is_response : forall a, proto_logs_outcome a <> Crash /\ proto_logs_outcome a <> Hang.
Proof. intros [|]; vm_compute; split; discriminate. Qed.

Definition is_response (e : expect) : Prop := e <> Exact Crash /\ e <> Exact Hang.

Lemma exact_resp : forall c, c <> Crash /\ c <> Hang -> is_response (Exact c).
Proof. intros c [H1 H2]. split; intro E; inversion E; subst; contradiction. Qed.

Lemma route_is_response : forall q, is_response (route_outcome q).
Proof.
  intros q. unfold route_outcome. destruct (q_body q) as [from until name|nd spans|rs|s fb tail|p|bad| ].
  - apply exact_resp, ingest_is_response.
  - destruct (q_wire_ok q); [apply exact_resp, zipkin_is_response|split; discriminate].
  - destruct (q_wire_ok q); [apply exact_resp, otlp_is_response|].
    apply exact_resp. vm_compute. split; discriminate.
  - apply exact_resp. unfold snappy_outcome.
    destruct (if unsnappy_decodes s then q_wire_ok q else fb); [|apply proto_logs_is_response].
    destruct (String.eqb tail ""); [apply proto_logs_is_response|].
    apply cls_of_parse_resp. discriminate.
  - destruct (precision_ok p); [|apply exact_resp; split; discriminate].
    destruct (q_wire_ok q); [apply exact_resp, proto_logs_is_response|split; discriminate].
  - destruct bad; [apply exact_resp; vm_compute; split; discriminate|].
    destruct (q_wire_ok q); [apply exact_resp, proto_logs_is_response|split; discriminate].
  - split; discriminate.
Qed.

Lemma predict_is_response : forall q, is_response (predict q).
Proof.
  intros q. unfold predict.
  destruct (q_body q) eqn:Hb; try (destruct (content_encoding (q_ce q) (q_gz_ok q)) as [|c] eqn:Hce;
    [apply route_is_response|
     unfold content_encoding in Hce;
     destruct (String.eqb (q_ce q) ""); [discriminate|];
     destruct (String.eqb (q_ce q) "gzip"); [destruct (q_gz_ok q); [discriminate|inversion Hce; split; discriminate]|];
     destruct (String.eqb (q_ce q) "snappy"); [discriminate|inversion Hce; split; discriminate]]).
  split; discriminate.
Qed.

(* malformed ids are answered 4xx: the first span with a wrong width decides, whatever follows *)
Lemma bad_width_first_is_4xx : forall r rest, negb ((si_tid r =? 16) && (si_sid r =? 8))%N = true ->
  cls_of_parse (fst (do_parse ctx_traces world0 false (parse_spans span_st0 (EvSpan r :: rest)))) = C4xx.
Proof.
  intros r rest H. unfold parse_spans. cbn [parse_spans_with]. unfold on_span. rewrite H. reflexivity.
Qed.

(* ... and so does a span with a wrong width ANYWHERE in the request: the spans before it (well-formed, flushed
   or not) are pushed without incident, then the handler's error is the answer *)
Definition span_good (r : span_in) : Prop := ((si_tid r =? 16) && (si_sid r =? 8))%N = true.

Lemma on_span_good : forall st r, span_good r -> exists st' out, on_span st r = inl (st', out).
Proof.
  intros st r H. unfold on_span. red in H. rewrite H. cbn [negb].
  destruct (MiB <? _)%N; eexists; eexists; reflexivity.
Qed.

Lemma bad_width_anywhere_is_4xx : forall pre r rest st w failed,
  world_ok w = true -> span_st_ok st -> Forall span_good pre ->
  negb ((si_tid r =? 16) && (si_sid r =? 8))%N = true ->
  cls_of_parse (fst (do_parse ctx_traces w failed (parse_spans st (map EvSpan pre ++ EvSpan r :: rest)))) = C4xx.
Proof.
  unfold parse_spans.
  induction pre as [|a pre IH]; intros r rest st w failed Hw Hst Hpre Hbad; cbn [map app parse_spans_with].
  - unfold on_span. rewrite Hbad. reflexivity.
  - inversion Hpre as [|? ? Ha Hpre']; subst.
    destruct (on_span_good st a Ha) as [st' [out Hon]]. rewrite Hon.
    destruct (on_span_inv _ _ _ _ Hst Hon) as [Hst' [->|[sp [at_ [-> [Hs Hat]]]]]].
    + cbn [app]. apply IH; assumption.
    + cbn [app]. rewrite do_parse_cons_ok'; [|reflexivity|apply push_spans_ok; assumption].
      apply IH; assumption.
Qed.

(* ------------------------------------------------------------------------------------------ *)
(** * Malformed input is answered with an error status, well-formed input is accepted *)

Definition ev_bad (ev : span_event) : bool :=
  match ev with EvSpan r => negb (id_ok (si_tid r, si_sid r)) | EvPanic => true | EvErr _ => true end.
Definition ev_err_proper (ev : span_event) : Prop :=
  match ev with EvErr e => is_error_cls (status_cls (status_of_error e)) = true | _ => True end.

Lemma spans_bad_is_error : forall evs st w failed, world_ok w = true -> span_st_ok st ->
  Forall ev_err_proper evs -> existsb ev_bad evs = true ->
  is_error_cls (cls_of_parse (fst (do_parse ctx_traces w failed (parse_spans st evs)))) = true.
Proof.
  unfold parse_spans.
  induction evs as [|ev evs IH]; intros st w failed Hw Hst Hp Hb; [discriminate|].
  inversion Hp as [|? ? Hp1 Hp2]; subst. cbn [parse_spans_with].
  destruct ev as [r| |e].
  - destruct (id_ok (si_tid r, si_sid r)) eqn:Hid.
    + cbn [existsb ev_bad] in Hb. rewrite Hid in Hb. cbn in Hb.
      destruct (on_span_good st r Hid) as [st' [out Hon]]. rewrite Hon.
      destruct (on_span_inv _ _ _ _ Hst Hon) as [Hst' [->|[sp [at_ [-> [Hs Hat]]]]]].
      * cbn [app]. apply IH; assumption.
      * cbn [app]. rewrite do_parse_cons_ok'; [|reflexivity|apply push_spans_ok; assumption].
        apply IH; assumption.
    + unfold on_span. change ((si_tid r =? 16) && (si_sid r =? 8))%N with (id_ok (si_tid r, si_sid r)).
      rewrite Hid. reflexivity.
  - reflexivity.
  - exact Hp1.
Qed.

Lemma spans_good_is_done : forall evs st w, world_ok w = true -> span_st_ok st ->
  existsb ev_bad evs = false ->
  fst (do_parse ctx_traces w false (parse_spans st evs)) = PDone.
Proof.
  unfold parse_spans.
  induction evs as [|ev evs IH]; intros st w Hw Hst Hb; cbn [parse_spans_with].
  - destruct Hst as [Hs Ha]. rewrite do_parse_cons_ok'; [|reflexivity|apply push_spans_ok; assumption].
    reflexivity.
  - cbn [existsb] in Hb. apply orb_false_iff in Hb as [Hb1 Hb2].
    destruct ev as [r| |e]; try discriminate Hb1. cbn [ev_bad] in Hb1. apply negb_false_iff in Hb1.
    destruct (on_span_good st r Hb1) as [st' [out Hon]]. rewrite Hon.
    destruct (on_span_inv _ _ _ _ Hst Hon) as [Hst' [->|[sp [at_ [-> [Hs Hat]]]]]].
    + cbn [app]. apply IH; assumption.
    + cbn [app]. rewrite do_parse_cons_ok'; [|reflexivity|apply push_spans_ok; assumption].
      apply IH; assumption.
Qed.

Lemma zipkin_events_bad : forall nd spans, existsb ev_bad (zipkin_events nd spans) = existsb zspan_malformed spans.
Proof.
  induction spans as [|s rest IH]; cbn [zipkin_events existsb]; [reflexivity|].
  unfold zspan_malformed at 1. destruct (decode_zspan s) as [ids|e]; cbn [existsb ev_bad].
  - rewrite IH. destruct ids; reflexivity.
  - reflexivity.
Qed.

Lemma zipkin_events_proper : forall nd spans, Forall ev_err_proper (zipkin_events nd spans).
Proof.
  induction spans as [|s rest IH]; cbn [zipkin_events]; [constructor|].
  destruct (decode_zspan s) as [ids|e] eqn:E.
  - constructor; [exact I|exact IH].
  - constructor; [|constructor]. cbn [ev_err_proper]. unfold decode_zspan in E.
    destruct (decode_hex (z_tid s) 32), (decode_hex (z_sid s) 16), (decode_hex (z_pid s) 16);
      try (destruct (time_ok (z_ts s) && time_ok (z_dur s))); inversion E; reflexivity.
Qed.

Lemma ospan_event_bad : forall hr s, ev_bad (ospan_event hr s) = ospan_malformed hr s.
Proof.
  intros hr s. unfold ospan_event, ospan_malformed. destruct (o_nilattr s); reflexivity.
Qed.

Lemma otlp_events_bad : forall rs,
  existsb ev_bad (otlp_events rs) = existsb (fun r => existsb (ospan_malformed (r_has_resource r)) (r_spans r)) rs.
Proof.
  unfold otlp_events. induction rs as [|r rest IH]; cbn [flat_map existsb]; [reflexivity|].
  rewrite existsb_app, IH. f_equal.
  induction (r_spans r) as [|s ss IHs]; cbn [map existsb]; [reflexivity|].
  now rewrite ospan_event_bad, IHs.
Qed.

Lemma otlp_events_proper : forall rs, Forall ev_err_proper (otlp_events rs).
Proof.
  intros rs. apply Forall_forall. intros ev Hin. unfold otlp_events in Hin.
  apply in_flat_map in Hin as [r [_ Hin]]. apply in_map_iff in Hin as [s [<- _]].
  unfold ospan_event. destruct (o_nilattr s); exact I.
Qed.

Lemma ingest_char : forall ct from until name w,
  (ingest_outcome ct from until name w = C2xx /\ ingest_malformed ct from until name w = false) \/
  (is_error_cls (ingest_outcome ct from until name w) = true /\ ingest_malformed ct from until name w = true).
Proof.
  intros ct from until name w. unfold ingest_outcome, ingest_malformed, ingest_decode, name_ok.
  destruct (String.eqb from "" || String.eqb name "" || String.eqb until ""); [right; split; reflexivity|].
  cbn [orb]. destruct (ingest_select ct) as [p|]; [|right; split; reflexivity].
  destruct (parse_uint64 from) as [start|]; [|right; split; reflexivity].
  destruct (ns_fuel ns_fuel_enough start) eqn:E1; [|exfalso; exact (ns_terminates_all _ E1)].
  destruct (parse_uint64 until) as [en|]; [|right; split; reflexivity].
  destruct (ns_fuel ns_fuel_enough en) eqn:E2; [|exfalso; exact (ns_terminates_all _ E2)].
  destruct (name_labels name); destruct w;
    first [left; split; reflexivity | right; split; reflexivity].
Qed.

(* before the fix the multipart route kept going with end = 0 when `until` did not parse *)
Lemma until_error_was_dropped : ingest_until_dropped_orig IPMultipart "abc" = Some 0%N /\ parse_uint64 "abc" = None.
Proof. split; reflexivity. Qed.

Lemma route_char : forall q, q_body q <> BBytes ->
  (body_malformed q = true -> expect_is_error (route_outcome q) = true) /\
  (body_malformed q = false -> route_outcome q = Exact C2xx).
Proof.
  intros q Hb. unfold body_malformed, route_outcome.
  destruct (q_body q) as [from until name|nd spans|rs|s fb tail|p|bad| ]; [| | | | | |contradiction].
  - destruct (ingest_char (q_ct q) from until name (q_wire_ok q)) as [[H1 H2]|[H1 H2]]; rewrite H2.
    + split; [discriminate|intros _; now rewrite H1].
    + split; [intros _; exact H1|discriminate].
  - destruct (q_wire_ok q); cbn [negb orb]; [|split; [reflexivity|discriminate]].
    rewrite <- (zipkin_events_bad nd spans). unfold zipkin_outcome. split; intros H.
    + cbn [expect_is_error]. apply spans_bad_is_error; [reflexivity|exact span_st0_ok|apply zipkin_events_proper|exact H].
    + rewrite (spans_good_is_done _ span_st0 world0 eq_refl span_st0_ok H). reflexivity.
  - destruct (q_wire_ok q); cbn [negb orb]; [|split; [reflexivity|discriminate]].
    rewrite <- (otlp_events_bad rs). unfold otlp_outcome. split; intros H.
    + cbn [expect_is_error]. apply spans_bad_is_error; [reflexivity|exact span_st0_ok|apply otlp_events_proper|exact H].
    + rewrite (spans_good_is_done _ span_st0 world0 eq_refl span_st0_ok H). reflexivity.
  - unfold snappy_outcome. destruct (if unsnappy_decodes s then q_wire_ok q else fb); cbn [negb orb].
    + destruct (String.eqb tail ""); cbn [negb]; split; try discriminate; intros _; reflexivity.
    + split; try discriminate; intros _; reflexivity.
  - destruct (precision_ok p), (q_wire_ok q); split; try discriminate; intros _; reflexivity.
  - destruct bad, (q_wire_ok q); split; try discriminate; intros _; reflexivity.
Qed.

Lemma content_encoding_status_is_error : forall ce gz c, content_encoding ce gz = CeStatus c -> is_error_cls c = true.
Proof.
  intros ce gz c H. unfold content_encoding in H.
  destruct (String.eqb ce ""); [discriminate|].
  destruct (String.eqb ce "gzip"); [destruct gz; [discriminate|inversion H; reflexivity]|].
  destruct (String.eqb ce "snappy"); [discriminate|inversion H; reflexivity].
Qed.

Lemma predict_char : forall q, q_body q <> BBytes ->
  (malformed q = true -> expect_is_error (predict q) = true) /\
  (malformed q = false -> predict q = Exact C2xx).
Proof.
  intros q Hb. unfold malformed, predict.
  destruct (route_char q Hb) as [R1 R2].
  destruct (q_body q) eqn:E; try contradiction;
    (destruct (content_encoding (q_ce q) (q_gz_ok q)) as [|c] eqn:Hce;
     [split; [exact R1|exact R2]
     |split; [intros _; cbn [expect_is_error]; exact (content_encoding_status_is_error _ _ _ Hce)|discriminate]]).
Qed.

(* ------------------------------------------------------------------------------------------ *)
(** * Client text inside an untyped error cannot silence ErrorHandler *)

Lemma diverge_sound : forall p h, diverge p h = true -> forall s, prefix p (h ++ s) = false.
Proof.
  induction p as [|a p IH]; intros h H s; [discriminate|].
  destruct h as [|b h]; [discriminate|]. cbn [diverge] in H. cbn [append prefix].
  destruct (Ascii.eqb a b) eqn:E.
  - apply Ascii.eqb_eq in E. subst b. destruct (ascii_dec a a) as [_|n]; [|contradiction].
    apply IH. exact H.
  - apply Ascii.eqb_neq in E. destruct (ascii_dec a b) as [e|_]; [contradiction|reflexivity].
Qed.

Lemma sites_safe_sound : forall sites, sites_safe error_handler_model sites = true ->
  forall st, In st sites -> forall rest,
    status_of_error (e_plain (site_head st ++ rest)) = Some 500%Z.
Proof.
  intros sites H st Hin rest. unfold sites_safe in H. apply andb_true_iff in H as [H _].
  cbn [error_handler_model prefix_literals forallb] in H. rewrite andb_true_r in H.
  rewrite forallb_forall in H. specialize (H st Hin). unfold site_cannot_start_with in H.
  rewrite (status_of_plain_error (e_plain (site_head st ++ rest)) eq_refl). cbn [e_plain e_msg].
  now rewrite (diverge_sound _ _ H).
Qed.

(* the client-text errors of the modelled routes, for EVERY client string *)
Lemma client_text_errors_answered : forall s,
  status_of_error (e_from s) = Some 500%Z /\ status_of_error (e_until s) = Some 500%Z /\
  status_of_error (e_labels s) = Some 500%Z.
Proof. intros s. split; [|split]; reflexivity. Qed.
