(* Property C11: index_search_correct.  The rows of the CTE index_search (sql_spans, what the statement
   evaluates to by index_search_bridge) are exactly the spans of the reference meaning -- (trace, span)
   groups of index rows inside the time window -- whose rows satisfy the selector's expression. *)
From Coq Require Import List ZArith NArith QArith String Ascii Bool Lia Permutation.
From Qryn Require Import model.TqSql model.Traceql model.TraceqlPlan model.TraceqlSem
     proofs.TraceqlBitsetProofs proofs.TraceqlAnalyzeProofs proofs.TraceqlEvalProofs proofs.TraceqlSelectorProofs
     proofs.TraceqlBridgeLib proofs.TraceqlIndexSearchProofs.
Import ListNotations.
Open Scope string_scope.
Open Scope list_scope.
Open Scope nat_scope.

Lemma filter_comm {A} (p q : A -> bool) l : filter p (filter q l) = filter q (filter p l).
Proof.
  induction l as [|x l IH]; [reflexivity|]. cbn [filter].
  destruct (p x) eqn:Ep, (q x) eqn:Eq; cbn [filter]; rewrite ?Ep, ?Eq, IH; reflexivity.
Qed.

Lemma non_null_filter_irrelevant {A} (F : A -> value) (p : A -> bool) l :
  (forall x, p x = false -> F x = VNull) -> non_null (map F (filter p l)) = non_null (map F l).
Proof.
  intros H. unfold non_null. induction l as [|x l IH]; [reflexivity|]. cbn [filter map].
  destruct (p x) eqn:E; cbn [map filter].
  - now rewrite IH.
  - rewrite (H x E). cbn [is_null negb]. exact IH.
Qed.

Lemma filter_true {A} (l : list A) : filter (fun _ : A => true) l = l.
Proof. induction l as [|x l IH]; [reflexivity|]. cbn [filter]. now rewrite IH. Qed.

Section CORRECT.
  Variable re_match : string -> string -> bool.
  Variable parse_float : string -> option Q.
  Notation csem := (cond_sem re_match parse_float true).
  Notation esem := (exp_sem re_match parse_float true).

  Variable c : ctx.
  Variable d : db.
  (* the index is consistent: the partition date of a row inside the window lies inside the date bounds
     (date = UTC day of timestamp_ns, written by the same writer), and the rows of one span carry the
     span's timestamp and duration *)
  Hypothesis Hdates : forall r, In r d -> in_window c r = true -> date_ok c r = true.
  Hypothesis Hunif : forall a b, In a d -> In b d -> same_span a b = true -> r_ts a = r_ts b /\ r_dur a = r_dur b.

  Variable e : attr_exp.
  Variable attr : string.
  Let cd : condition := fst (analyze_cond e ([], [])).
  Let terms : list attr_sel := fst (snd (analyze_cond e ([], []))).
  Variable conds : list expr.
  Hypothesis Hkeys : keys_ok e = true.
  Hypothesis Hconds : map_res get_term terms = Ok conds.
  Hypothesis Hlits : forallb term_lit_ok terms = true.
  Hypothesis Hlen : List.length terms <= 64.

  Notation sql_spans := (sql_spans re_match parse_float c d e attr conds).
  Notation ww := (with_where e attr conds).
  Notation pre := (prefilter re_match parse_float true terms (extra_sem attr)).

  (* the value of the aggregated attribute of a reference span *)
  Definition agg_ref (sp : span) : option value :=
    if String.eqb attr "" then None
    else if String.eqb attr "duration" then Some (VNum (inject_Z (sp_dur sp)))
    else Some (match non_null (map (fun r => if String.eqb (r_key r) (strip_agg attr)
                                             then match parse_float (r_val r) with Some q => VNum q | None => VNull end
                                             else VNull) (sp_rows sp)) with
               | v :: _ => v | [] => VNull end).
  Definition mspan_of (sp : span) : mspan :=
    {| m_trace := sp_trace sp; m_span := sp_span sp; m_dur := sp_dur sp; m_ts := sp_ts sp; m_agg := agg_ref sp |}.

  Let W : list irow := filter (in_window c) d.
  Definition pre' (r : irow) : bool := if ww then pre r else true.

  Lemma where_is_window_pre : filter (where_sem re_match parse_float c e attr conds) d = filter pre' W.
  Proof.
    subst W. rewrite filter_comm. unfold where_sem, window_sql, pre'.
    assert (E : forall l, (forall r, In r l -> In r d) ->
                          filter (fun r => date_ok c r && in_window c r && (if ww then pre r else true)) l
                          = filter (in_window c) (filter (fun r => if ww then pre r else true) l)).
    { induction l as [|x l IH]; intros Hl; [reflexivity|]. cbn [filter].
      rewrite (IH (fun r Hr => Hl r (or_intror Hr))).
      destruct (in_window c x) eqn:Ew.
      - rewrite (Hdates x (Hl x (or_introl eq_refl)) Ew). cbn [andb].
        destruct (if ww then pre x else true); cbn [filter]; now rewrite ?Ew.
      - rewrite andb_false_r. cbn [andb]. destruct (if ww then pre x else true); cbn [filter]; now rewrite ?Ew. }
    apply E. auto.
  Qed.

  Lemma W_in r : In r W -> In r d.
  Proof. subst W. intros H. now apply filter_In in H. Qed.

  Lemma class_uniform rep : In rep W -> uniform_dur (filter (same_span rep) W).
  Proof.
    intros Hrep a b Ha Hb. apply filter_In in Ha, Hb. destruct Ha as [Ha Ea], Hb as [Hb Eb].
    assert (Eab : same_span a b = true) by (eapply same_span_trans; [rewrite same_span_sym; exact Ea|exact Eb]).
    exact (proj2 (Hunif a b (W_in a Ha) (W_in b Hb) Eab)).
  Qed.

  Lemma facts : cond_wf (List.length terms) cd /\ forall rows, csem terms rows cd = esem e rows.
  Proof. exact (analyze_facts re_match parse_float e conds Hkeys Hconds Hlits Hlen). Qed.

  Lemma csem_nil ts cnd : csem ts [] cnd = false.
  Proof.
    induction cnd as [i|op l IHl r IHr]; cbn [cond_sem].
    - destruct (nth_error ts i); reflexivity.
    - rewrite IHl, IHr. now destruct op.
  Qed.

  (* the surviving rows of a class decide like the whole class *)
  Lemma class_decides full :
    uniform_dur full ->
    (filter pre' full <> [] /\ csem terms (filter pre' full) cd = true) <-> esem e full = true.
  Proof.
    intros Hu. destruct facts as [Hwf Hsem]. rewrite <- Hsem. unfold pre'.
    unfold with_where. fold terms cd.
    destruct (wh_list e attr conds) as [|w0 wr] eqn:Ewh.
    - cbv beta iota.
      rewrite filter_true. split; [tauto|]. intros Hc. split; [|assumption]. intros ->.
      rewrite csem_nil in Hc. discriminate.
    - destruct (holds_without_indexed terms cd) eqn:Eh; cbn [negb]; cbv beta iota.
      + rewrite filter_true. split; [tauto|]. intros Hc. split; [|assumption]. intros ->.
        rewrite csem_nil in Hc. discriminate.
      + exact (prefilter_sound re_match parse_float true terms (extra_sem attr) full cd Hu Hwf Eh).
  Qed.

  Lemma mk_mspan_class rep grp full :
    In rep W -> full = filter (same_span rep) W -> grp = filter pre' full -> grp <> [] ->
    mk_mspan parse_float attr grp =
    mspan_of {| sp_trace := r_trace rep; sp_span := r_span rep; sp_ts := r_ts rep; sp_dur := r_dur rep; sp_rows := full |}.
  Proof.
    intros Hrep Hfull Hgrp Hne. destruct grp as [|r0 rest] eqn:Eg; [congruence|].
    assert (Hr0 : In r0 full /\ pre' r0 = true).
    { assert (H : In r0 (filter pre' full)) by (rewrite <- Hgrp; now left). now apply filter_In in H. }
    destruct Hr0 as [Hr0 Hp0]. rewrite Hfull in Hr0. apply filter_In in Hr0. destruct Hr0 as [Hr0W E0].
    destruct (Hunif rep r0 (W_in _ Hrep) (W_in _ Hr0W) E0) as [Ets Edur].
    unfold same_span in E0. apply andb_true_iff in E0. destruct E0 as [Et Es]. apply String.eqb_eq in Et, Es.
    unfold mk_mspan, mspan_of, agg_of, agg_ref. cbn [sp_trace sp_span sp_ts sp_dur sp_rows]. rewrite <- Et, <- Es, <- Ets, <- Edur.
    f_equal. destruct (String.eqb attr "") eqn:A0; [reflexivity|]. destruct (String.eqb attr "duration") eqn:A1; [reflexivity|].
    f_equal. rewrite Hgrp.
    rewrite (non_null_filter_irrelevant _ pre' full); [reflexivity|].
    intros x Hx. unfold pre' in Hx. destruct ww; [|discriminate].
    unfold prefilter in Hx. apply orb_false_iff in Hx. destruct Hx as [_ Hx]. unfold extra_sem, agg_step in Hx.
    rewrite A0, A1 in Hx. cbn [fst] in Hx. now rewrite Hx.
  Qed.

  (* index_search_correct *)
  Theorem index_search_rows m :
    In m sql_spans <->
    exists sp, In sp (spans_of c d) /\ esem e (sp_rows sp) = true /\ m = mspan_of sp.
  Proof.
    unfold TraceqlIndexSearchProofs.sql_spans. rewrite where_is_window_pre. fold terms cd.
    rewrite in_map_iff. unfold spans_of. fold W.
    pose proof (groups_are_classes same_span same_span_refl same_span_sym same_span_trans) as GC.
    pose proof (nodup_by_spec same_span same_span_refl same_span_sym) as NS.
    split.
    - intros [grp [<- Hg]]. apply filter_In in Hg. destruct Hg as [Hg Hc].
      apply GC in Hg. destruct Hg as [rep' [Hrep' Egrp]].
      destruct (NS (filter pre' W) []) as [N1 _]. destruct (N1 rep' Hrep') as [Hin' _].
      apply filter_In in Hin'. destruct Hin' as [HrW Hp'].
      destruct (NS W []) as [M1 M2]. destruct (M2 rep' HrW) as [Hs|[rep [Hrep Er]]]; [discriminate|].
      destruct (M1 rep Hrep) as [HrepW _].
      set (full := filter (same_span rep) W).
      assert (Egrp2 : grp = filter pre' full).
      { rewrite Egrp. subst full. rewrite filter_comm. f_equal. symmetry. apply (filter_class same_span same_span_sym same_span_trans). exact Er. }
      assert (Hne : grp <> []).
      { rewrite Egrp. intros En. assert (H : In rep' (filter (same_span rep') (filter pre' W))).
        { apply filter_In. split; [apply filter_In; now split|apply same_span_refl]. }
        rewrite En in H. destruct H. }
      exists {| sp_trace := r_trace rep; sp_span := r_span rep; sp_ts := r_ts rep; sp_dur := r_dur rep; sp_rows := full |}.
      split; [|split].
      + apply in_map_iff. exists rep. split; [reflexivity|assumption].
      + cbn [sp_rows]. apply (class_decides full (class_uniform rep HrepW)). rewrite <- Egrp2. now split.
      + now apply (mk_mspan_class rep grp full).
    - intros [sp [Hsp [He ->]]]. apply in_map_iff in Hsp. destruct Hsp as [rep [<- Hrep]]. cbn [sp_rows] in He.
      destruct (NS W []) as [M1 _]. destruct (M1 rep Hrep) as [HrepW _].
      set (full := filter (same_span rep) W) in *.
      destruct (proj2 (class_decides full (class_uniform rep HrepW)) He) as [Hne Hc].
      exists (filter pre' full). split.
      + apply (mk_mspan_class rep (filter pre' full) full); auto.
      + apply filter_In. split; [|assumption].
        apply GC. destruct (filter pre' full) as [|r0 rest] eqn:Ef; [congruence|].
        assert (Hr0 : In r0 (filter pre' full)) by (rewrite Ef; now left).
        apply filter_In in Hr0. destruct Hr0 as [Hr0f Hp0]. subst full. apply filter_In in Hr0f. destruct Hr0f as [Hr0W E0].
        destruct (NS (filter pre' W) []) as [_ N2].
        destruct (N2 r0 (proj2 (filter_In _ _ _) (conj Hr0W Hp0))) as [Hs|[rep'' [Hrep'' Er'']]]; [discriminate|].
        exists rep''. split; [assumption|]. rewrite <- Ef, filter_comm.
        apply (filter_class same_span same_span_sym same_span_trans).
        eapply same_span_trans; [exact E0|]. now rewrite same_span_sym.
  Qed.
End CORRECT.
