(* Property C11, layer "aggregate HAVING": the comparison AggregatorPlanner appends to the HAVING of index_grouped
   (toFloat64(count(distinct index_search.span_id)) / avgIf / sumIf / minIf / maxIf (agg_val, isNotNull(agg_val)) <op> number),
   run by the evaluator over the index_search rows of one trace, is true exactly when agg_sem -- the aggregate filter of the
   reference meaning -- holds of the matched spans of that trace.  Then traceql_correct_agg: the one-selector theorem with an
   aggregate filter. *)
From Coq Require Import List ZArith NArith QArith String Ascii Bool Lia Permutation.
From Qryn Require Import model.TqSql model.Traceql model.TraceqlPlan model.TraceqlSem model.TraceqlCase
     proofs.TraceqlBitsetProofs proofs.TraceqlAnalyzeProofs proofs.TraceqlEvalProofs proofs.TraceqlSelectorProofs
     proofs.TraceqlBridgeLib proofs.TraceqlIndexSearchProofs proofs.TraceqlIndexCorrectProofs proofs.TraceqlGroupedProofs
     proofs.TraceqlTopkProofs proofs.TraceqlCorrectProofs.
Import ListNotations.
Open Scope string_scope.
Open Scope list_scope.
Open Scope nat_scope.

(* ================================================================ rationals: sums and extrema of a multiset *)
Lemma fold_Qplus l : forall a, (fold_left Qplus l a == a + fold_right Qplus 0 l)%Q.
Proof. induction l as [|x l IH]; intros a; cbn [fold_left fold_right]; [ring|]. rewrite IH. ring. Qed.
Lemma fold_right_Qplus_perm l l' : Permutation l l' -> (fold_right Qplus 0 l == fold_right Qplus 0 l')%Q.
Proof.
  induction 1 as [|x l l' _ IH|x y l|l l' l'' _ IH1 _ IH2]; cbn [fold_right]; [reflexivity|now rewrite IH|ring|now rewrite IH1].
Qed.
Lemma Qsum_perm l l' : Permutation l l' -> (Qsum l == Qsum l')%Q.
Proof. intros H. unfold Qsum. rewrite !fold_Qplus. now rewrite (fold_right_Qplus_perm l l' H). Qed.

Lemma cmp_Q_compat_l c a b x : (a == b)%Q -> cmp_Q c a x = cmp_Q c b x.
Proof.
  intros H. unfold cmp_Q.
  rewrite !Qeq_bool_le, (Qle_bool_compat_l x a b H), (Qle_bool_compat_r x a b H). reflexivity.
Qed.

Definition qmaxf (a b : Q) : Q := if Qle_bool a b then b else a.
Definition qminf (a b : Q) : Q := if Qle_bool b a then b else a.

Lemma Qle_bool_false a b : Qle_bool a b = false -> (b <= a)%Q.
Proof.
  intros H. destruct (Qlt_le_dec b a) as [Hl|Hl]; [now apply Qlt_le_weak|]. apply Qle_bool_iff in Hl. congruence.
Qed.

Lemma qmax_fold_spec r : forall x, let m := fold_left qmaxf r x in
  In m (x :: r) /\ forall y, In y (x :: r) -> (y <= m)%Q.
Proof.
  induction r as [|z r IH]; intros x; cbn [fold_left].
  - split; [now left|]. intros y [<-|[]]. apply Qle_refl.
  - destruct (IH (qmaxf x z)) as [H1 H2]. split.
    + destruct H1 as [H1|H1]; [|right; now right]. rewrite <- H1. unfold qmaxf. destruct (Qle_bool x z); [right; now left|now left].
    + intros y Hy. assert (Hm : (qmaxf x z <= fold_left qmaxf r (qmaxf x z))%Q) by (apply H2; now left).
      destruct Hy as [<-|[<-|Hy]]; [| |apply H2; now right].
      * eapply Qle_trans; [|exact Hm]. unfold qmaxf. destruct (Qle_bool x z) eqn:E; [now apply Qle_bool_iff|apply Qle_refl].
      * eapply Qle_trans; [|exact Hm]. unfold qmaxf. destruct (Qle_bool x z) eqn:E; [apply Qle_refl|now apply Qle_bool_false].
Qed.
Lemma qmin_fold_spec r : forall x, let m := fold_left qminf r x in
  In m (x :: r) /\ forall y, In y (x :: r) -> (m <= y)%Q.
Proof.
  induction r as [|z r IH]; intros x; cbn [fold_left].
  - split; [now left|]. intros y [<-|[]]. apply Qle_refl.
  - destruct (IH (qminf x z)) as [H1 H2]. split.
    + destruct H1 as [H1|H1]; [|right; now right]. rewrite <- H1. unfold qminf. destruct (Qle_bool z x); [right; now left|now left].
    + intros y Hy. assert (Hm : (fold_left qminf r (qminf x z) <= qminf x z)%Q) by (apply H2; now left).
      destruct Hy as [<-|[<-|Hy]]; [| |apply H2; now right].
      * eapply Qle_trans; [exact Hm|]. unfold qminf. destruct (Qle_bool z x) eqn:E; [now apply Qle_bool_iff|apply Qle_refl].
      * eapply Qle_trans; [exact Hm|]. unfold qminf. destruct (Qle_bool z x) eqn:E; [apply Qle_refl|now apply Qle_bool_false].
Qed.

Lemma Qmax_l_eq l : Qmax_l l = match l with [] => None | x :: r => Some (fold_left qmaxf r x) end.
Proof. reflexivity. Qed.
Lemma Qmin_l_eq l : Qmin_l l = match l with [] => None | x :: r => Some (fold_left qminf r x) end.
Proof. reflexivity. Qed.

Lemma Qmax_perm l l' a b : Permutation l l' -> Qmax_l l = Some a -> Qmax_l l' = Some b -> (a == b)%Q.
Proof.
  intros Hp. rewrite !Qmax_l_eq. destruct l as [|x r]; [discriminate|]. destruct l' as [|x' r']; [discriminate|].
  intros Ha Hb. injection Ha as <-. injection Hb as <-.
  destruct (qmax_fold_spec r x) as [A1 A2]. destruct (qmax_fold_spec r' x') as [B1 B2]. cbv zeta in *.
  apply Qle_antisym; [apply B2; eapply Permutation_in; eassumption|apply A2; eapply Permutation_in; [symmetry; exact Hp|exact B1]].
Qed.
Lemma Qmin_perm l l' a b : Permutation l l' -> Qmin_l l = Some a -> Qmin_l l' = Some b -> (a == b)%Q.
Proof.
  intros Hp. rewrite !Qmin_l_eq. destruct l as [|x r]; [discriminate|]. destruct l' as [|x' r']; [discriminate|].
  intros Ha Hb. injection Ha as <-. injection Hb as <-.
  destruct (qmin_fold_spec r x) as [A1 A2]. destruct (qmin_fold_spec r' x') as [B1 B2]. cbv zeta in *.
  apply Qle_antisym; [apply A2; eapply Permutation_in; [symmetry; exact Hp|exact B1]|apply B2; eapply Permutation_in; eassumption].
Qed.

(* the evaluator's extrema over Float64 values are the same folds *)
Lemma vmax_l_nums qs : vmax_l (map VNum qs) = match qs with [] => Some VNull | x :: r => Some (VNum (fold_left qmaxf r x)) end.
Proof.
  destruct qs as [|x r]; [reflexivity|]. unfold vmax_l. cbn [map]. revert x.
  induction r as [|y r IH]; intros x; cbn [map fold_left]; [reflexivity|]. cbn [vleb]. unfold qmaxf at 2.
  destruct (Qle_bool x y); apply IH.
Qed.
Lemma vmin_l_nums qs : vmin_l (map VNum qs) = match qs with [] => Some VNull | x :: r => Some (VNum (fold_left qminf r x)) end.
Proof.
  destruct qs as [|x r]; [reflexivity|]. unfold vmin_l. cbn [map]. revert x.
  induction r as [|y r IH]; intros x; cbn [map fold_left]; [reflexivity|]. cbn [vleb]. unfold qminf at 2.
  destruct (Qle_bool y x); apply IH.
Qed.

(* ================================================================ the aggregated value of a span, both sides *)
Definition num_or_null (o : option Q) : value := match o with Some q => VNum q | None => VNull end.
Definition qs_of (vl : list value) : list Q := flat_map (fun v => match v with VNum q => [q] | _ => [] end) vl.

Lemma agg_ref_value parse_float attr sp : String.eqb attr "" = false ->
  agg_ref parse_float attr sp = Some (num_or_null (agg_value parse_float attr sp)).
Proof.
  intros Ha. unfold agg_ref, agg_value. rewrite Ha. destruct (String.eqb attr "duration"); [reflexivity|]. f_equal.
  induction (sp_rows sp) as [|r l IH]; [reflexivity|]. cbn [map first_some].
  destruct (String.eqb (r_key r) (strip_agg attr)).
  - destruct (parse_float (r_val r)); [reflexivity|]. unfold non_null in *. cbn [filter is_null negb]. exact IH.
  - unfold non_null in *. cbn [filter is_null negb]. exact IH.
Qed.

Lemma qs_of_nums (l : list (option Q)) : qs_of (map num_or_null l) = flat_map (fun o => match o with Some v => [v] | None => [] end) l.
Proof. induction l as [|[q|] l IH]; [reflexivity| |]; cbn [map qs_of flat_map num_or_null app]; fold (qs_of (map num_or_null l)); now rewrite IH. Qed.

(* filter "isNotNull(agg_val)" then drop NULLs: the numbers *)
Lemma ifagg_values (vl : list value) : (forall v, In v vl -> v = VNull \/ exists q, v = VNum q) ->
  non_null (map snd (filter (fun p : option bool * value => match fst p with Some true => true | _ => false end)
                            (map (fun v => (Some (negb (is_null v)), v)) vl)))
  = map VNum (qs_of vl).
Proof.
  induction vl as [|v vl IH]; intros H; [reflexivity|].
  assert (IH' := IH (fun w Hw => H w (or_intror Hw))). cbn [map filter fst].
  destruct (H v (or_introl eq_refl)) as [->|[q ->]]; cbn [is_null negb map snd]; unfold non_null in *; cbn [filter is_null negb qs_of flat_map app map].
  - exact IH'.
  - fold (qs_of vl). now rewrite IH'.
Qed.

Lemma all_some_asQ qs : all_some (map as_Q (map VNum qs)) = Some qs.
Proof. induction qs as [|q qs IH]; [reflexivity|]. cbn [map all_some as_Q]. now rewrite IH. Qed.

Lemma vnodup_strs (l : list string) : NoDup l -> List.length (vnodup (map VStr l) []) = List.length l.
Proof.
  assert (G : forall seen, NoDup l -> (forall x, In x l -> ~ In (VStr x) seen) -> (forall v, In v seen -> exists s, v = VStr s) ->
              List.length (vnodup (map VStr l) seen) = List.length l).
  { induction l as [|x l IH]; intros seen Hnd Hs Hseen; [reflexivity|]. cbn [map vnodup].
    inversion Hnd as [|? ? Hx Hnd']; subst.
    destruct (existsb (veqb (VStr x)) seen) eqn:E.
    - exfalso. apply existsb_exists in E. destruct E as [v [Hv Ev]]. destruct (Hseen v Hv) as [s ->]. cbn [veqb] in Ev.
      apply String.eqb_eq in Ev. subst s. exact (Hs x (or_introl eq_refl) Hv).
    - cbn [List.length]. f_equal. apply IH; [assumption| |].
      + intros y Hy [Hin|Hin]; [injection Hin as ->; contradiction|exact (Hs y (or_intror Hy) Hin)].
      + intros v [<-|Hv]; [now exists x|now apply Hseen]. }
  intros Hnd. apply G; [assumption|intros x _ []|intros v []].
Qed.

(* ================================================================ the HAVING of AggregatorPlanner over the rows of one trace *)
Definition is_ifagg (fn : fname) : bool := match fn with FAvgIf | FMaxIf | FMinIf | FSumIf => true | _ => false end.
Definition ifagg (fn : fname) (ps : list (option bool * value)) : option value :=
  let vs := non_null (map snd (filter (fun p => match fst p with Some true => true | _ => false end) ps)) in
  match vs with
  | [] => Some VNull
  | _ =>
    match fn with
    | FMaxIf => vmax_l vs
    | FMinIf => vmin_l vs
    | _ => match all_some (map as_Q vs) with
           | Some qs => let s := fold_left Qplus qs 0%Q in
                        Some (VNum (match fn with FSumIf => s | _ => (s / inject_Z (Z.of_nat (List.length qs)))%Q end))
           | None => None end
    end
  end.

Lemma isx_assoc p s : (p ++ "index_search" ++ s)%string = (isx p ++ s)%string.
Proof. unfold isx. generalize "index_search"%string as a. intros a. induction p as [|ch p IH]; [reflexivity|]. cbn [append]. now rewrite IH. Qed.

Section AGGEV.
  Variable re_match : string -> string -> bool.
  Variable parse_float : string -> option Q.
  Variable hash64 : string -> Z.
  Variable cte : env.
  Variable p : string.      (* prefix of the operand ("" for a one-selector search) *)
  Variable wts : bool.      (* the statement carries the max_timestamp_ns column of an operand *)
  Notation EV := (ev re_match parse_float hash64 cte (al2 wts) ["trace_id"]).

  Lemma ev_ifagg fn f self g r x cnd : is_ifagg fn = true ->
    EV (S f) true self g r (Fn fn [x; cnd]) =
    match all_some (map (fun r' => match EV f false self [] r' cnd, EV f false self [] r' x with
                                   | Some cv, Some xv => match truth cv with Some t => Some (t, xv) | None => None end
                                   | _, _ => None end) g) with
    | None => None
    | Some ps => ifagg fn ps
    end.
  Proof. destruct fn; try discriminate; intros _; reflexivity. Qed.

  Lemma ev_count_distinct f self g r x :
    EV (S f) true self g r (Fn FCount [Distinct x]) =
    match all_some (map (fun r' => EV f false self [] r' x) g) with
    | Some vs => Some (VInt (Z.of_nat (List.length (vnodup (non_null vs) []))))
    | None => None end.
  Proof. reflexivity. Qed.

  Variable m0 : mspan.
  Variable rest : list mspan.
  Notation g := (m0 :: rest).
  Notation G := (map (qrow p) (m0 :: rest)).

  (* the comparison against the printed number, around any aggregate value *)
  Lemma having_cmp a va c txt th :
    ordered c = true -> num_of_text txt = Some th ->
    EV 38 true "" G (qrow p m0) a = Some va -> (va = VNull \/ exists x, va = VNum x) ->
    exists v t, EV ev_fuel true "" G (qrow p m0) (LOp OAnd [LOp (lop_of c) [a; FloatV txt]]) = Some v
                /\ truth v = Some t
                /\ is_true3 t = match va with VNum x => cmp_Q c x th | _ => false end.
  Proof.
    intros Ho Ht Ha Hva. unfold ev_fuel. change 40 with (S (S 38)). revert Ha. set (GG := map (qrow p) (m0 :: rest)). intros Ha.
    rewrite ev_LOp. cbn [map]. rewrite (ev_LOp_cmp re_match parse_float hash64 cte (al2 wts) ["trace_id"] 38 true "" GG (qrow p m0) c a (FloatV txt) Ho).
    rewrite Ha. change 38 with (S 37). rewrite ev_FloatV, Ht.
    destruct Hva as [->|[x ->]].
    - change (vcmp (lop_of c) VNull (VNum th)) with (Some VNull). cbn [all_some map truth and3 of3].
      exists VNull, None. repeat split.
    - rewrite (vcmp_num c x th Ho). cbn [all_some map]. rewrite truth_vbool. cbn [all_some]. rewrite and3_1.
      exists (vbool (cmp_Q c x th)), (Some (cmp_Q c x th)). split; [reflexivity|]. split; [apply truth_vbool|]. now destruct (cmp_Q c x th).
  Qed.

  (* count(distinct index_search.span_id) *)
  Lemma ev_count_spans : NoDup (map m_span g) ->
    EV 38 true "" G (qrow p m0) (Fn FToFloat64 [Fn FCount [Distinct (Id (p ++ "index_search.span_id")%string)]])
    = Some (VNum (inject_Z (Z.of_nat (List.length g)))).
  Proof.
    intros Hnd. change 38 with (S (S 36)). rewrite ev_ToFloat64, ev_count_distinct. rewrite map_map.
    rewrite (all_some_map_ext _ (fun m => VStr (m_span m))).
    - rewrite (non_null_map_nn (fun m => VStr (m_span m))) by reflexivity.
      rewrite <- (map_map m_span VStr), (vnodup_strs _ Hnd), map_length. reflexivity.
    - intros m _. change 36 with (S 35). rewrite ev_Id_row. change (p ++ "index_search.span_id")%string with (p ++ "index_search" ++ ".span_id")%string. rewrite (isx_assoc p ".span_id").
      rewrite (eqb_dot _ "") by (try reflexivity; apply isx_dotted; reflexivity). cbv iota.
      rewrite al2_dotted by (apply isx_dotted; reflexivity). apply q_qspan.
  Qed.

  (* avgIf / sumIf / minIf / maxIf (agg_val, isNotNull(agg_val)) *)
  Variable av : mspan -> value.
  Hypothesis Hav : forall m, In m g -> m_agg m = Some (av m) /\ (av m = VNull \/ exists q, av m = VNum q).
  Definition gq : list Q := qs_of (map av g).

  Lemma ev_ifagg_val fn : is_ifagg fn = true ->
    EV 38 true "" G (qrow p m0) (Fn fn [Id "agg_val"; Fn FIsNotNull [Id "agg_val"]])
    = ifagg fn (map (fun v => (Some (negb (is_null v)), v)) (map av g)).
  Proof.
    intros Hfn. change 38 with (S 37). rewrite (ev_ifagg fn 37 "" G (qrow p m0) _ _ Hfn). rewrite !map_map.
    rewrite (all_some_map_ext _ (fun m => (Some (negb (is_null (av m))), av m))); [reflexivity|].
    intros m Hm. destruct (Hav m Hm) as [Hm1 _].
    assert (Hid : forall f, EV (S f) false "" [] (qrow p m) (Id "agg_val") = Some (av m)).
    { intros f. rewrite ev_Id_row. change (String.eqb "agg_val" "") with false. cbv iota.
      rewrite al2_agg_val. rewrite q_agg. exact Hm1. }
    change 37 with (S 36). rewrite ev_IsNotNull. change 36 with (S 35). rewrite !Hid. now rewrite truth_vbool.
  Qed.

  Lemma ifagg_nums fn : is_ifagg fn = true ->
    ifagg fn (map (fun v => (Some (negb (is_null v)), v)) (map av g)) =
    match gq with
    | [] => Some VNull
    | x :: r =>
        Some (VNum match fn with
                   | FMaxIf => fold_left qmaxf r x
                   | FMinIf => fold_left qminf r x
                   | FSumIf => Qsum gq
                   | _ => (Qsum gq / inject_Z (Z.of_nat (List.length gq)))%Q
                   end)
    end.
  Proof.
    intros Hfn. unfold ifagg. rewrite ifagg_values.
    - fold gq. destruct gq as [|x r] eqn:E; [reflexivity|]. cbn [map].
      destruct fn; try discriminate.
      + cbn [as_Q all_some]. rewrite all_some_asQ. reflexivity.
      + change (VNum x :: map VNum r) with (map VNum (x :: r)). rewrite vmax_l_nums. reflexivity.
      + change (VNum x :: map VNum r) with (map VNum (x :: r)). rewrite vmin_l_nums. reflexivity.
      + cbn [as_Q all_some]. rewrite all_some_asQ. reflexivity.
    - intros v Hv. apply in_map_iff in Hv. destruct Hv as [m [<- Hm]]. exact (proj2 (Hav m Hm)).
  Qed.
End AGGEV.

(* ================================================================ deciding the aggregate filter from a permutation of the values *)
Lemma Permutation_filter' {A} (p : A -> bool) l l' : Permutation l l' -> Permutation (filter p l) (filter p l').
Proof.
  induction 1 as [|x l l' _ IH|x y l|l l' l'' _ IH1 _ IH2]; cbn [filter].
  - constructor.
  - destruct (p x); [now constructor|assumption].
  - destruct (p x), (p y); try reflexivity. apply perm_swap.
  - etransitivity; eassumption.
Qed.
Lemma flat_map_map' {A B C} (h : A -> B) (k : B -> list C) l : flat_map k (map h l) = flat_map (fun x => k (h x)) l.
Proof. induction l as [|x l IH]; [reflexivity|]. cbn [map flat_map]. now rewrite IH. Qed.

Definition sql_fn (fn : aggfn) : fname :=
  match fn with AgAvg => FAvgIf | AgMax => FMaxIf | AgMin => FMinIf | AgSum => FSumIf | AgCount => FCount end.
Lemma agg_expr_if fn p : fn <> AgCount -> agg_expr fn p = Fn (sql_fn fn) [Id "agg_val"; Fn FIsNotNull [Id "agg_val"]] /\ is_ifagg (sql_fn fn) = true.
Proof. destruct fn; try congruence; intros _; split; reflexivity. Qed.

(* the value the SQL aggregate has over the numbers gq, compared with th', against the reference over a permutation of them *)
Lemma agg_decide (fn : aggfn) (c : cmp) (gq vals : list Q) (th th' : Q) :
  fn <> AgCount -> Permutation gq vals -> (th' == th)%Q ->
  match (match gq with
         | [] => VNull
         | x :: r => VNum match sql_fn fn with
                          | FMaxIf => fold_left qmaxf r x
                          | FMinIf => fold_left qminf r x
                          | FSumIf => Qsum gq
                          | _ => (Qsum gq / inject_Z (Z.of_nat (List.length gq)))%Q
                          end
         end) with VNum x => cmp_Q c x th' | _ => false end
  = match vals with
    | [] => false
    | _ => match fn with
           | AgSum => cmp_Q c (Qsum vals) th
           | AgAvg => cmp_Q c (Qsum vals / inject_Z (Z.of_nat (List.length vals)))%Q th
           | AgMax => match Qmax_l vals with Some m => cmp_Q c m th | None => false end
           | _ => match Qmin_l vals with Some m => cmp_Q c m th | None => false end
           end
    end.
Proof.
  intros Hfn Hp Hth.
  destruct gq as [|x r].
  - apply Permutation_nil in Hp. now subst vals.
  - destruct vals as [|y s]; [apply Permutation_sym, Permutation_nil in Hp; discriminate|].
    assert (Hs : (Qsum (x :: r) == Qsum (y :: s))%Q) by now apply Qsum_perm.
    assert (Hl : List.length (x :: r) = List.length (y :: s)) by now apply Permutation_length.
    destruct fn; cbn [sql_fn]; [exfalso; now apply Hfn| | | |]; rewrite (cmp_Q_compat c _ th' th Hth).
    + apply cmp_Q_compat_l. exact Hs.
    + rewrite Qmin_l_eq. apply cmp_Q_compat_l. apply (Qmin_perm (x :: r) (y :: s)); [assumption|reflexivity|reflexivity].
    + rewrite Qmax_l_eq. apply cmp_Q_compat_l. apply (Qmax_perm (x :: r) (y :: s)); [assumption|reflexivity|reflexivity].
    + apply cmp_Q_compat_l. rewrite Hs, Hl. reflexivity.
Qed.

(* ================================================================ one selector with an aggregate filter *)
Lemma comparison_fn_lop c fn : comparison_fn c = Ok fn -> ordered c = true /\ fn = lop_of c.
Proof. destruct c; cbn; intros H; try discriminate; injection H as <-; split; reflexivity. Qed.

Lemma agg_sem_round parse_float ag l : agg_lit_exact ag = true -> agg_sem parse_float true ag l = agg_sem parse_float false ag l.
Proof.
  unfold agg_lit_exact, agg_sem. destruct (agg_threshold true ag) as [a|], (agg_threshold false ag) as [b|]; try discriminate; [|reflexivity].
  intros H. apply Qeq_bool_iff in H.
  destruct (g_fn ag); try (apply cmp_Q_compat; exact H);
    destruct (flat_map _ l); try reflexivity; try (apply cmp_Q_compat; exact H);
    try (destruct (Qmax_l _); [apply cmp_Q_compat; exact H|reflexivity]);
    try (destruct (Qmin_l _); [apply cmp_Q_compat; exact H|reflexivity]).
Qed.

Definition ref_vals parse_float (attr : string) (l : list span) : list Q :=
  flat_map (fun s => match agg_value parse_float attr s with Some v => [v] | None => [] end) l.
Lemma agg_sem_noncount parse_float ag th l : agg_threshold true ag = Some th -> g_fn ag <> AgCount ->
  agg_sem parse_float true ag l =
  match ref_vals parse_float (g_attr ag) l with
  | [] => false
  | _ => match g_fn ag with
         | AgSum => cmp_Q (g_cmp ag) (Qsum (ref_vals parse_float (g_attr ag) l)) th
         | AgAvg => cmp_Q (g_cmp ag) (Qsum (ref_vals parse_float (g_attr ag) l) / inject_Z (Z.of_nat (List.length (ref_vals parse_float (g_attr ag) l))))%Q th
         | AgMax => match Qmax_l (ref_vals parse_float (g_attr ag) l) with Some m => cmp_Q (g_cmp ag) m th | None => false end
         | _ => match Qmin_l (ref_vals parse_float (g_attr ag) l) with Some m => cmp_Q (g_cmp ag) m th | None => false end
         end
  end.
Proof. intros Eth Hfn. unfold agg_sem, ref_vals. rewrite Eth. destruct (g_fn ag); try congruence; reflexivity. Qed.

Section AGG.
  Variable re_match : string -> string -> bool.
  Variable parse_float : string -> option Q.
  Variable hash64 : string -> Z.
  Variable c : ctx.
  Variable d : db.
  Hypothesis Hrf : rf_max c = 0%Z.
  Hypothesis Hcons : db_consistent c d.
  Hypothesis Hcap : spans_capped c d.

  Variable e : attr_exp.
  Notation cd := (fst (analyze_cond e ([], []))).
  Notation terms := (fst (snd (analyze_cond e ([], [])))).
  Hypothesis Hkeys : keys_ok e = true.
  Hypothesis Hlits : forallb term_lit_ok terms = true.
  Hypothesis Hlen : List.length terms <= 64.
  Hypothesis Hdepth : cond_depth cd <= 28.
  Hypothesis Hexact : lits_exact e = true.

  Variable ag : aggregator.
  Hypothesis Hguard : agg_guard ag = true.
  Hypothesis Hagx : agg_lit_exact ag = true.
  Variable ao : andor.
  Definition q2 : script := Script {| sel_attr := Some e; sel_agg := Some ag |} ao None.
  Notation attr := (g_attr ag).

  Definition hv2p (p txt : string) : expr := LOp OAnd [LOp (lop_of (g_cmp ag)) [agg_expr (g_fn ag) p; FloatV txt]].
  Definition hv2 (txt : string) : expr := hv2p "" txt.
  Definition grouped2 (conds : list expr) (txt : string) : select :=
    grouped_stmt "" false [("index_search", stmt1 c e attr conds)] (Some (hv2 txt)) (lim_of c).

  Lemma plan_agg_inv n s : plan q2 MSearch c n = Ok s ->
    agg_lacks_attr {| sel_attr := Some e; sel_agg := Some ag |} = false
    /\ exists conds txt, map_res get_term terms = Ok conds /\ ordered (g_cmp ag) = true /\ agg_cmp_text ag = Ok txt
                         /\ s = index_limit c (traces_data c (grouped2 conds txt)).
  Proof.
    unfold plan, plan_search, plan_index, q2. cbn [sc_tail]. unfold simple_planner. cbn [check sel_attr sel_agg bind sc_head tails_have_attr].
    destruct (agg_lacks_attr {| sel_attr := Some e; sel_agg := Some ag |}) eqn:Ela; [discriminate|]. cbn [bind].
    unfold analyze. cbn [sel_attr]. destruct (analyze_cond e ([], [])) as [cd0 [ts0 mp0]] eqn:Ea. cbn [fst snd] in *.
    unfold agg_attr_of. cbn [sel_agg].
    destruct (map_res get_term ts0) as [conds|er|] eqn:Hc.
    - pose proof (attr_condition_is_stmt1 c Hrf e attr conds) as Hs. rewrite Ea in Hs. cbn [fst snd] in Hs. rewrite (Hs Hc n). cbn [bind].
      unfold aggregator_planner. destruct (comparison_fn (g_cmp ag)) as [fn|er|] eqn:Ef; cbn [bind]; try discriminate.
      destruct (agg_cmp_text ag) as [txt|er|] eqn:Et; cbn [bind]; try discriminate.
      destruct (comparison_fn_lop _ _ Ef) as [Ho ->].
      intros H. injection H as <-. split; [reflexivity|]. exists conds, txt. repeat split; try assumption.
      unfold grouped2, hv2, hv2p, index_limit, lim_of. destruct (Z.eqb (limit c) 0); reflexivity.
    - unfold attr_condition. rewrite Hc. cbn [bind]. discriminate.
    - unfold attr_condition. rewrite Hc. cbn [bind]. discriminate.
  Qed.

  Lemma withs_agg conds txt : exists rest,
    s_withs (index_limit c (traces_data c (grouped2 conds txt)))
    = ("index_search", stmt1 c e attr conds) :: ("index_grouped", grouped2 conds txt) :: rest.
  Proof.
    unfold index_limit. destruct (Z.eqb (limit c) 0); unfold traces_data, grouped2, grouped_stmt, stmt1;
      cbn [set_with set_limit s_withs fold_left add_with existsb fst snd app]; eexists; reflexivity.
  Qed.

  Notation matched := (matched_of re_match parse_float c d e).
  Definition P2 (g : list mspan) : bool := agg_sem parse_float true ag (ms matched (g_trace g)).

  Section INNER.
  Variable conds : list expr.
  Hypothesis Hc : map_res get_term terms = Ok conds.
  Variable txt : string.
  Hypothesis Hord : ordered (g_cmp ag) = true.
  Hypothesis Htxt : agg_cmp_text ag = Ok txt.
  Hypothesis Hla : agg_lacks_attr {| sel_attr := Some e; sel_agg := Some ag |} = false.

  Notation T := (sql_spans re_match parse_float c d e attr conds).
  Notation f := (mspan_of parse_float attr).

  Lemma group_perm m0 rest : In (m0 :: rest) (group_rows same_tr T) ->
    Permutation (m0 :: rest) (map f (ms matched (m_trace m0))).
  Proof.
    intros Hg. destruct (group_rows_spec same_tr same_tr_refl same_tr_sym same_tr_trans T) as [Hcls _].
    destruct (Hcls _ Hg) as [r0 [g' [E Ef]]]. injection E as <- <-. rewrite Ef at 1.
    rewrite (Permutation_filter' (same_tr m0) _ _ (perm_spans re_match parse_float c d Hcons e Hkeys Hlits Hlen attr conds Hc)).
    rewrite (filter_map_comm f (fun sp => String.eqb (sp_trace sp) (m_trace m0)) (same_tr m0)); [reflexivity|].
    intros sp. unfold same_tr. cbn [mspan_of m_trace]. apply String.eqb_sym.
  Qed.

  Lemma group_spans_NoDup m0 rest : In (m0 :: rest) (group_rows same_tr T) -> NoDup (map m_span (m0 :: rest)).
  Proof.
    intros Hg. destruct (group_rows_spec same_tr same_tr_refl same_tr_sym same_tr_trans T) as [Hcls _].
    destruct (Hcls _ Hg) as [r0 [g' [E Ef]]]. injection E as <- <-.
    assert (Hk : NoDup (map mkey (m0 :: rest))).
    { rewrite Ef. apply NoDup_map_filter. exact (sql_spans_NoDup re_match parse_float c d e attr conds). }
    apply (NoDup_map_inv (fun s => (m_trace m0, s))). rewrite map_map.
    rewrite (map_ext_in _ mkey); [exact Hk|].
    intros m Hm. rewrite Ef in Hm. apply filter_In in Hm. destruct Hm as [_ Et]. unfold same_tr in Et. apply String.eqb_eq in Et.
    unfold mkey. now rewrite Et.
  Qed.

  Lemma hv2_decides cte p wts m0 rest : In (m0 :: rest) (group_rows same_tr T) ->
    exists v t, ev re_match parse_float hash64 cte (al2 wts) ["trace_id"] ev_fuel true "" (map (qrow p) (m0 :: rest)) (qrow p m0) (hv2p p txt) = Some v
                /\ truth v = Some t /\ is_true3 t = P2 (m0 :: rest).
  Proof.
    intros Hg. pose proof (group_perm m0 rest Hg) as Hperm.
    unfold agg_guard in Hguard. rewrite Htxt in Hguard.
    destruct (agg_threshold true ag) as [th|] eqn:Eth; [|discriminate].
    destruct (num_of_text txt) as [th'|] eqn:Etxt; [|discriminate]. apply Qeq_bool_iff in Hguard.
    unfold P2, hv2p. cbn [g_trace].
    assert (Hcases : g_fn ag = AgCount \/ g_fn ag <> AgCount) by (destruct (g_fn ag); [now left|right; discriminate..]).
    destruct Hcases as [Efn|Hfn].
    - (* count *)
      unfold agg_sem. rewrite Eth, Efn.
      destruct (having_cmp re_match parse_float hash64 cte p wts m0 rest _ _ (g_cmp ag) txt th' Hord Etxt
                  (ev_count_spans re_match parse_float hash64 cte p wts m0 rest (group_spans_NoDup m0 rest Hg)) (or_intror (ex_intro _ _ eq_refl)))
        as [v [t [H1 [H2 H3]]]].
      exists v, t. split; [exact H1|]. split; [exact H2|]. rewrite H3.
      rewrite (Permutation_length Hperm), map_length. apply cmp_Q_compat. exact Hguard.
    - (* avg / sum / min / max over agg_val *)
      assert (Hattr : String.eqb attr "" = false).
      { unfold agg_lacks_attr in Hla. cbn [sel_agg] in Hla. destruct (g_fn ag); [congruence|exact Hla..]. }
      destruct (agg_expr_if (g_fn ag) p Hfn) as [Eexpr Hif]. rewrite Eexpr.
      set (av := fun m : mspan => match m_agg m with Some v => v | None => VNull end).
      assert (Hfav : forall sp, av (f sp) = num_or_null (agg_value parse_float attr sp)).
      { intros sp. unfold av. cbn [mspan_of m_agg]. now rewrite (agg_ref_value parse_float attr sp Hattr). }
      assert (Hav : forall m, In m (m0 :: rest) -> m_agg m = Some (av m) /\ (av m = VNull \/ exists q, av m = VNum q)).
      { intros m Hm. apply (Permutation_in _ Hperm) in Hm. apply in_map_iff in Hm. destruct Hm as [sp [<- _]].
        split.
        - unfold av. cbn [mspan_of m_agg]. now rewrite (agg_ref_value parse_float attr sp Hattr).
        - rewrite Hfav. destruct (agg_value parse_float attr sp) as [q|]; [right; now exists q|now left]. }
      pose proof (ev_ifagg_val re_match parse_float hash64 cte p wts m0 rest av Hav (sql_fn (g_fn ag)) Hif) as Hev.
      rewrite (ifagg_nums m0 rest av Hav (sql_fn (g_fn ag)) Hif) in Hev.
      set (gqv := gq m0 rest av) in *.
      assert (Hpq : Permutation gqv (ref_vals parse_float attr (ms matched (m_trace m0)))).
      { unfold gqv, gq, qs_of. rewrite (Permutation_map av Hperm).
        rewrite map_map, (map_ext _ _ Hfav), <- (map_map (agg_value parse_float attr) num_or_null).
        fold (qs_of (map num_or_null (map (agg_value parse_float attr) (ms matched (m_trace m0))))).
        rewrite qs_of_nums, flat_map_map'. reflexivity. }
      set (va := match gqv with
                 | [] => VNull
                 | x :: r => VNum match sql_fn (g_fn ag) with
                                  | FMaxIf => fold_left qmaxf r x
                                  | FMinIf => fold_left qminf r x
                                  | FSumIf => Qsum gqv
                                  | _ => (Qsum gqv / inject_Z (Z.of_nat (List.length gqv)))%Q
                                  end
                 end).
      assert (Hev' : ev re_match parse_float hash64 cte (al2 wts) ["trace_id"] 38 true "" (map (qrow p) (m0 :: rest)) (qrow p m0)
                        (Fn (sql_fn (g_fn ag)) [Id "agg_val"; Fn FIsNotNull [Id "agg_val"]]) = Some va).
      { rewrite Hev. unfold va. destruct gqv; reflexivity. }
      assert (Hva : va = VNull \/ exists x, va = VNum x).
      { unfold va. destruct gqv; [now left|right; eexists; reflexivity]. }
      destruct (having_cmp re_match parse_float hash64 cte p wts m0 rest _ va (g_cmp ag) txt th' Hord Etxt Hev' Hva) as [v [t [H1 [H2 H3]]]].
      exists v, t. split; [exact H1|]. split; [exact H2|]. rewrite H3.
      rewrite (agg_sem_noncount parse_float ag th _ Eth Hfn). unfold va.
      exact (agg_decide (g_fn ag) (g_cmp ag) gqv _ th th' Hfn Hpq Hguard).
  Qed.
  End INNER.

  Lemma sem_agg_round : traceql_sem re_match parse_float false c d q2 = all_ref matched (agg_sem parse_float true ag).
  Proof.
    unfold traceql_sem, q2. cbn [script_len script_sem_fuel and_run]. unfold sel_sem. cbn [sel_attr sel_agg].
    unfold all_ref, traces_ref, mkt, ms, matched_of.
    assert (Ef : filter (fun sp => exp_sem re_match parse_float false e (sp_rows sp)) (spans_of c d)
                 = filter (fun sp => exp_sem re_match parse_float true e (sp_rows sp)) (spans_of c d)).
    { apply filter_ext. intros sp. symmetry. now apply exp_sem_round. }
    rewrite Ef.
    assert (Eg : forall l, agg_sem parse_float false ag l = agg_sem parse_float true ag l) by (intros l; symmetry; now apply agg_sem_round).
    destruct ao; cbv zeta; apply flat_map_ext; intros t; now rewrite Eg.
  Qed.

  Theorem traceql_correct_agg n s :
    plan q2 MSearch c n = Ok s ->
    exists res, index_rows_g re_match parse_float hash64 c d s = Some res
                /\ result_ok c (traceql_sem re_match parse_float false c d q2) res = true.
  Proof.
    intros Hplan. destruct (plan_agg_inv n s Hplan) as [Hla [conds [txt [Hc [Hord [Htxt ->]]]]]].
    destruct (withs_agg conds txt) as [rest Hw].
    set (T := sql_spans re_match parse_float c d e attr conds).
    assert (Hans : exists SEL, grouped_answer T P2 (lim_of c) = Some SEL).
    { unfold grouped_answer, lim_of. destruct (Z.eqb (limit c) 0); [eexists; reflexivity|].
      change (map (fun g => ([VInt (g_key g)], g)) (tgroups T P2)) with (map (fun g => enc (g_key g, g)) (tgroups T P2)).
      rewrite <- (map_map (fun g => (g_key g, g)) enc), sort_by_enc. eexists; reflexivity. }
    destruct Hans as [SEL Hans].
    exists (map (fun g => (g_trace g, g_spans g)) SEL). split.
    - unfold index_rows_g. rewrite Hw. cbn [eval_until_g].
      change 12 with (S 11). rewrite eval_sel_S.
      rewrite (index_search_bridge re_match parse_float hash64 c d e attr conds Hkeys Hc Hlits Hlen Hdepth).
      change (String.eqb "index_search" "index_grouped") with false. cbv iota.
      rewrite eval_sel_S. unfold grouped2. fold T.
      assert (Hal : having_aliases ev_fuel (hv2 txt) = []).
      { unfold hv2, hv2p. apply having_aliases_nil_LOp2; [destruct (g_fn ag); reflexivity|reflexivity]. }
      rewrite (grouped_bridge re_match parse_float hash64 [(attrs_table c, map row_of_irow d)] "" false
                 (eval_sel re_match parse_float hash64 [(attrs_table c, map row_of_irow d)] 11)
                 [("index_search", map mspan_row T)] T eq_refl (Some (hv2 txt)) P2 Hal).
      + rewrite Hans. cbn [option_map]. rewrite String.eqb_refl. rewrite map_map.
        apply all_some_map_ext. intros g _. unfold g_row. cbn [app lookup String.eqb Ascii.eqb Bool.eqb].
        now rewrite all_some_VStr.
      + intros h m0 rest' Hh Hg. injection Hh as <-. exact (hv2_decides conds Hc txt Hord Htxt Hla _ "" false m0 rest' Hg).
      + discriminate.
    - rewrite sem_agg_round.
      exact (answer_ok T matched (mspan_of parse_float attr) (fun _ => eq_refl) (fun _ => eq_refl) (fun _ => eq_refl)
               (mem_spans re_match parse_float c d Hcons e Hkeys Hlits Hlen attr conds Hc) P2 (agg_sem parse_float true ag)
               (fun _ _ => eq_refl) (cap_spans re_match parse_float c d Hcons Hcap e Hkeys Hlits Hlen attr conds Hc) c SEL Hans).
  Qed.

  (* without the guard spans_capped, judged by result_ok_cap (see traceql_correct_single_any_spans): the aggregate filter is decided over
     ALL matched spans of a trace (HAVING sees every row of the group), only the returned span list is cut at 100 *)
  Theorem traceql_correct_agg_any_spans n s :
    plan q2 MSearch c n = Ok s ->
    exists res, index_rows_g re_match parse_float hash64 c d s = Some res
                /\ result_ok_cap 100 c (traceql_sem re_match parse_float false c d q2) res = true.
  Proof.
    intros Hplan. destruct (plan_agg_inv n s Hplan) as [Hla [conds [txt [Hc [Hord [Htxt ->]]]]]].
    destruct (withs_agg conds txt) as [rest Hw].
    set (T := sql_spans re_match parse_float c d e attr conds).
    assert (Hans : exists SEL, grouped_answer T P2 (lim_of c) = Some SEL).
    { unfold grouped_answer, lim_of. destruct (Z.eqb (limit c) 0); [eexists; reflexivity|].
      change (map (fun g => ([VInt (g_key g)], g)) (tgroups T P2)) with (map (fun g => enc (g_key g, g)) (tgroups T P2)).
      rewrite <- (map_map (fun g => (g_key g, g)) enc), sort_by_enc. eexists; reflexivity. }
    destruct Hans as [SEL Hans].
    exists (map (fun g => (g_trace g, g_spans g)) SEL). split.
    - unfold index_rows_g. rewrite Hw. cbn [eval_until_g].
      change 12 with (S 11). rewrite eval_sel_S.
      rewrite (index_search_bridge re_match parse_float hash64 c d e attr conds Hkeys Hc Hlits Hlen Hdepth).
      change (String.eqb "index_search" "index_grouped") with false. cbv iota.
      rewrite eval_sel_S. unfold grouped2. fold T.
      assert (Hal : having_aliases ev_fuel (hv2 txt) = []).
      { unfold hv2, hv2p. apply having_aliases_nil_LOp2; [destruct (g_fn ag); reflexivity|reflexivity]. }
      rewrite (grouped_bridge re_match parse_float hash64 [(attrs_table c, map row_of_irow d)] "" false
                 (eval_sel re_match parse_float hash64 [(attrs_table c, map row_of_irow d)] 11)
                 [("index_search", map mspan_row T)] T eq_refl (Some (hv2 txt)) P2 Hal).
      + rewrite Hans. cbn [option_map]. rewrite String.eqb_refl. rewrite map_map.
        apply all_some_map_ext. intros g _. unfold g_row. cbn [app lookup String.eqb Ascii.eqb Bool.eqb].
        now rewrite all_some_VStr.
      + intros h m0 rest' Hh Hg. injection Hh as <-. exact (hv2_decides conds Hc txt Hord Htxt Hla _ "" false m0 rest' Hg).
      + discriminate.
    - rewrite sem_agg_round. unfold result_ok_cap.
      pose proof (mem_spans re_match parse_float c d Hcons e Hkeys Hlits Hlen attr conds Hc) as Hmem.
      apply (answer_ok_j T matched (mspan_of parse_float attr) (fun _ => eq_refl) (fun _ => eq_refl)
               Hmem P2 (agg_sem parse_float true ag) (fun _ _ => eq_refl) c (cap_set 100) SEL); [|exact Hans].
      intros g Hg.
      apply (grp_spans_cap T matched (mspan_of parse_float attr) (fun _ => eq_refl) (fun _ => eq_refl) Hmem g Hg).
      + exact (group_spans_NoDup' re_match parse_float c d e attr conds g Hg).
      + exact (ref_spans_NoDup re_match parse_float c d e (g_trace g)).
  Qed.
End AGG.

(* ================================================================ one portion of a complex request, with an aggregate filter *)
Section AGGP.
  Variable re_match : string -> string -> bool.
  Variable parse_float : string -> option Q.
  Variable hash64 : string -> Z.
  Variable c : ctx.
  Variable d : db.
  Hypothesis Hok : rf_ok c = true.
  Notation V := (visible hash64 c d).
  Hypothesis Hcons : db_consistent c V.
  Hypothesis Hcap : spans_capped c V.

  Variable e : attr_exp.
  Notation cd := (fst (analyze_cond e ([], []))).
  Notation terms := (fst (snd (analyze_cond e ([], [])))).
  Hypothesis Hkeys : keys_ok e = true.
  Hypothesis Hlits : forallb term_lit_ok terms = true.
  Hypothesis Hlen : List.length terms <= 64.
  Hypothesis Hdepth : cond_depth cd <= 28.
  Hypothesis Hexact : lits_exact e = true.
  Variable ag : aggregator.
  Hypothesis Hguard : agg_guard ag = true.
  Hypothesis Hagx : agg_lit_exact ag = true.
  Variable ao : andor.
  Notation attr := (g_attr ag).

  Theorem traceql_correct_agg_portion n s :
    plan (q2 e ag ao) MSearch c n = Ok s ->
    exists res, index_rows_g re_match parse_float hash64 c d s = Some res
                /\ result_ok c (traceql_sem re_match parse_float false c V (q2 e ag ao)) res = true.
  Proof.
    intros Hplan. destruct (rf_single c Hok) as [x Hx].
    unfold plan, plan_search, plan_index, q2 in Hplan. cbn [sc_tail] in Hplan. unfold simple_planner in Hplan.
    cbn [check sel_attr sel_agg bind sc_head tails_have_attr] in Hplan.
    destruct (agg_lacks_attr {| sel_attr := Some e; sel_agg := Some ag |}) eqn:Hla; [discriminate|]. cbn [bind] in Hplan.
    unfold analyze in Hplan. cbn [sel_attr] in Hplan. destruct (analyze_cond e ([], [])) as [cd0 [ts0 mp0]] eqn:Ea. cbn [fst snd] in *.
    unfold agg_attr_of in Hplan. cbn [sel_agg] in Hplan.
    destruct (map_res get_term ts0) as [conds|er|] eqn:Hc; [|unfold attr_condition in Hplan; rewrite Hc in Hplan; discriminate..].
    pose proof (attr_condition_gen c e attr conds) as Hs. rewrite Ea in Hs. cbn [fst snd] in Hs.
    rewrite (Hs Hc n), Hx in Hplan. cbn [bind] in Hplan.
    unfold aggregator_planner in Hplan. destruct (comparison_fn (g_cmp ag)) as [fn|er|] eqn:Ef; cbn [bind] in Hplan; try discriminate.
    destruct (agg_cmp_text ag) as [txt|er|] eqn:Et; cbn [bind] in Hplan; try discriminate.
    destruct (comparison_fn_lop _ _ Ef) as [Hord ->].
    assert (Hc' : map_res get_term (fst (snd (analyze_cond e ([], [])))) = Ok conds) by now rewrite Ea.
    assert (Hlits' : forallb term_lit_ok (fst (snd (analyze_cond e ([], [])))) = true) by now rewrite Ea.
    assert (Hlen' : List.length (fst (snd (analyze_cond e ([], [])))) <= 64) by now rewrite Ea.
    assert (Hdepth' : cond_depth (fst (analyze_cond e ([], []))) <= 28) by now rewrite Ea.
    set (S1 := and_where [x] (stmt1 c e attr conds)) in *.
    set (T := sql_spans re_match parse_float c V e attr conds).
    set (HV := hv2 ag txt).
    assert (Eg : index_limit c (and_having [LOp (lop_of (g_cmp ag)) [agg_expr (g_fn ag) ""; FloatV txt]] (index_groupby "" S1))
                 = grouped_stmt "" false [("index_search", S1)] (Some HV) (lim_of c)).
    { unfold index_limit, lim_of, HV, hv2, hv2p. destruct (Z.eqb (limit c) 0); reflexivity. }
    rewrite Eg in Hplan. injection Hplan as <-.
    assert (Hw : exists rest, s_withs (index_limit c (traces_data c (grouped_stmt "" false [("index_search", S1)] (Some HV) (lim_of c))))
                              = ("index_search", S1) :: ("index_grouped", grouped_stmt "" false [("index_search", S1)] (Some HV) (lim_of c)) :: rest).
    { unfold index_limit. destruct (Z.eqb (limit c) 0); unfold traces_data, grouped_stmt, S1, stmt1;
        cbn [and_where and_into set_with set_limit s_withs fold_left add_with existsb fst snd app]; eexists; reflexivity. }
    destruct Hw as [rest Hw].
    set (P := P2 re_match parse_float c V e ag).
    assert (Hans : exists SEL, grouped_answer T P (lim_of c) = Some SEL).
    { unfold grouped_answer, lim_of. destruct (Z.eqb (limit c) 0); [eexists; reflexivity|].
      change (map (fun g => ([VInt (g_key g)], g)) (tgroups T P)) with (map (fun g => enc (g_key g, g)) (tgroups T P)).
      rewrite <- (map_map (fun g => (g_key g, g)) enc), sort_by_enc. eexists; reflexivity. }
    destruct Hans as [SEL Hans].
    exists (map (fun g => (g_trace g, g_spans g)) SEL). split.
    - unfold index_rows_g. rewrite Hw. cbn [eval_until_g].
      change 12 with (S 11). rewrite eval_sel_S. unfold S1.
      rewrite (index_search_bridge_portion re_match parse_float hash64 c d e attr conds Hkeys Hc' Hlits' Hlen' Hdepth' Hok x Hx). fold T.
      change (String.eqb "index_search" "index_grouped") with false. cbv iota.
      rewrite eval_sel_S.
      assert (Hal : having_aliases ev_fuel HV = []).
      { unfold HV, hv2, hv2p. apply having_aliases_nil_LOp2; [destruct (g_fn ag); reflexivity|reflexivity]. }
      rewrite (grouped_bridge re_match parse_float hash64 [(attrs_table c, map row_of_irow d)] "" false
                 (eval_sel re_match parse_float hash64 [(attrs_table c, map row_of_irow d)] 11)
                 [("index_search", map mspan_row T)] T eq_refl (Some HV) P Hal).
      + rewrite Hans. cbn [option_map]. rewrite String.eqb_refl. rewrite map_map.
        apply all_some_map_ext. intros g _. unfold g_row. cbn [app lookup String.eqb Ascii.eqb Bool.eqb].
        now rewrite all_some_VStr.
      + intros h m0 rest' Hh Hg. injection Hh as <-.
        exact (hv2_decides re_match parse_float hash64 c V Hcons e Hkeys Hlits' Hlen' ag Hguard conds Hc' txt Hord Et Hla _ "" false m0 rest' Hg).
      + discriminate.
    - rewrite (sem_agg_round re_match parse_float c V e Hexact ag Hagx ao).
      exact (answer_ok T (matched_of re_match parse_float c V e) (mspan_of parse_float attr) (fun _ => eq_refl) (fun _ => eq_refl) (fun _ => eq_refl)
               (mem_spans re_match parse_float c V Hcons e Hkeys Hlits' Hlen' attr conds Hc') P (agg_sem parse_float true ag)
               (fun _ _ => eq_refl) (cap_spans re_match parse_float c V Hcons Hcap e Hkeys Hlits' Hlen' attr conds Hc') c SEL Hans).
  Qed.
End AGGP.

