(* sanitizeProfile (coq/model/ProfRewrite.v sanitize), facts that hold for EVERY payload: a first part of
   "sanitize p is sane" (the hypothesis payloads_sane of payload_merge_is_sum) proved instead of evaluated per payload:
   after the three renumbering passes the ids of functions, mappings and locations are 1..n in order (the lazily
   appended empty mapping included). *)
From Coq Require Import List ZArith Bool Lia.
From Qryn Require Import model.ProfRewrite.
Import ListNotations.
Open Scope Z_scope.

Section Renumber.
  Context {A : Type} (getid : A -> Z) (setid : A -> Z -> A).
  Hypothesis get_set : forall x j, getid (setid x j) = j.

  Lemma renumber_positional : forall l j t, positional getid (fst (renumber getid setid l j t)) j = true.
  Proof.
    induction l as [|x r IH]; intros j t; cbn [renumber]; [reflexivity|].
    specialize (IH (j + 1) (aset t (getid x) j)).
    destruct (renumber getid setid r (j + 1) (aset t (getid x) j)) as [r' t'] eqn:E.
    cbn [fst positional] in *. rewrite get_set, Z.eqb_refl, IH. reflexivity.
  Qed.

  Lemma renumber_length : forall l j t, length (fst (renumber getid setid l j t)) = length l.
  Proof.
    induction l as [|x r IH]; intros j t; cbn [renumber]; [reflexivity|].
    specialize (IH (j + 1) (aset t (getid x) j)).
    destruct (renumber getid setid r (j + 1) (aset t (getid x) j)) as [r' t'] eqn:E.
    cbn [fst length] in *. rewrite IH. reflexivity.
  Qed.

  Lemma positional_snoc : forall l j x,
    positional getid (l ++ [x]) j = positional getid l j && Z.eqb (getid x) (j + Z.of_nat (length l)).
  Proof.
    induction l as [|y r IH]; intros j x; cbn [app positional length].
    - rewrite Z.add_0_r, andb_true_r. reflexivity.
    - rewrite IH, andb_assoc. do 2 f_equal. lia.
  Qed.
End Renumber.

Lemma san_loc_maps_fake t n : forall ls fake, (fake = 0 \/ fake = n + 1) ->
  snd (san_loc_maps t n ls fake) = 0 \/ snd (san_loc_maps t n ls fake) = n + 1.
Proof.
  induction ls as [|x r IH]; intros fake Hf; cbn [san_loc_maps]; [exact Hf|].
  destruct (Z.eqb (l_map x) 0).
  - set (fake' := if Z.eqb fake 0 then n + 1 else fake).
    assert (Hf' : fake' = 0 \/ fake' = n + 1).
    { unfold fake'. destruct Hf as [-> | ->]; [right; reflexivity|]. destruct (Z.eqb (n + 1) 0); right; reflexivity. }
    specialize (IH fake' Hf'). destruct (san_loc_maps t n r fake') as [r' f']. exact IH.
  - specialize (IH fake Hf). destruct (san_loc_maps t n r fake) as [r' f']. destruct (Z.eqb (aget t (l_map x)) 0); exact IH.
Qed.

Theorem sanitize_ids_positional p :
  positional f_id (p_funs (sanitize p)) 1 = true /\ positional m_id (p_maps (sanitize p)) 1 = true /\
  positional l_id (p_locs (sanitize p)) 1 = true.
Proof.
  unfold sanitize.
  match goal with |- context [renumber m_id set_mid ?l 1 []] => set (ml := l) end.
  pose proof (renumber_positional m_id set_mid (fun _ _ => eq_refl) ml 1 []) as Hm.
  pose proof (renumber_length m_id set_mid ml 1 []) as Hml.
  destruct (renumber m_id set_mid ml 1 []) as [maps1 tm]. cbn [fst] in Hm, Hml.
  pose proof (san_loc_maps_fake tm (Z.of_nat (length maps1)) (p_locs p) 0 (or_introl eq_refl)) as Hfake.
  destruct (san_loc_maps tm (Z.of_nat (length maps1)) (p_locs p) 0) as [locs1 fake]. cbn [snd] in Hfake.
  match goal with |- context [renumber f_id set_fid ?l 1 []] => set (fl := l) end.
  pose proof (renumber_positional f_id set_fid (fun _ _ => eq_refl) fl 1 []) as Hf.
  destruct (renumber f_id set_fid fl 1 []) as [funs tf]. cbn [fst] in Hf.
  pose proof (renumber_positional l_id set_lid (fun _ _ => eq_refl) (san_loc_funs tf locs1) 1 []) as Hl.
  destruct (renumber l_id set_lid (san_loc_funs tf locs1) 1 []) as [locs tl]. cbn [fst] in Hl.
  cbn [p_funs p_maps p_locs]. split; [exact Hf|]. split; [|exact Hl].
  destruct (Z.eqb fake 0) eqn:E; [exact Hm|].
  rewrite positional_snoc, Hm. cbn [andb empty_map m_id]. apply Z.eqb_eq.
  destruct Hfake as [H0|H1]; [rewrite H0 in E; discriminate E|]. lia.
Qed.

(* ... and the first string of the sanitized table is the empty string (token 0), for every payload *)
Lemma index_of0_spec : forall l i, 0 <= i ->
  (index_of0 l i = -1 /\ ~ In 0 l) \/
  (i <= index_of0 l i < i + Z.of_nat (length l) /\ nth (Z.to_nat (index_of0 l i - i)) l 1 = 0).
Proof.
  induction l as [|x r IH]; intros i Hi; cbn [index_of0]; [left; split; [reflexivity|intros []]|].
  destruct (Z.eqb x 0) eqn:E.
  - right. apply Z.eqb_eq in E. rewrite Z.sub_diag. cbn [Z.to_nat nth length]. split; [lia|exact E].
  - apply Z.eqb_neq in E. destruct (IH (i + 1) ltac:(lia)) as [[H1 H2]|[H1 H2]].
    + left. split; [exact H1|]. intros [H|H]; [exact (E H)|exact (H2 H)].
    + right. cbn [length]. split; [lia|].
      replace (Z.to_nat (index_of0 r (i + 1) - i)) with (S (Z.to_nat (index_of0 r (i + 1) - (i + 1)))) by lia.
      exact H2.
Qed.

Lemma nth_set_nth_same : forall l n v d, (n < length l)%nat -> nth n (set_nth l n v) d = v.
Proof.
  induction l as [|x r IH]; intros n v d H; cbn [length] in H; [lia|].
  destruct n as [|n]; cbn [set_nth nth]; [reflexivity|]. apply IH. lia.
Qed.
Lemma nth_set_nth_other : forall l n m v d, n <> m -> nth m (set_nth l n v) d = nth m l d.
Proof.
  induction l as [|x r IH]; intros n m v d H; [destruct n; reflexivity|].
  destruct n as [|n], m as [|m]; cbn [set_nth nth]; try reflexivity; [congruence|]. apply IH. congruence.
Qed.
Lemma set_nth_length : forall l n v, length (set_nth l n v) = length l.
Proof. induction l as [|x r IH]; intros [|n] v; cbn [set_nth length]; try reflexivity. rewrite IH. reflexivity. Qed.
Lemma nth_default_irrelevant : forall (l : list Z) n d d', (n < length l)%nat -> nth n l d = nth n l d'.
Proof. intros. apply nth_indep. assumption. Qed.

Theorem sanitize_first_string_empty p : nth 0 (p_strs (sanitize p)) (-1) = 0.
Proof.
  unfold sanitize.
  destruct (renumber m_id set_mid _ 1 []) as [maps1 tm].
  destruct (san_loc_maps tm _ (p_locs p) 0) as [locs1 fake].
  destruct (renumber f_id set_fid _ 1 []) as [funs tf].
  destruct (renumber l_id set_lid _ 1 []) as [locs tl].
  cbn [p_strs].
  destruct (index_of0_spec (p_strs p) 0 ltac:(lia)) as [[H1 H2]|[H1 H2]].
  - (* no empty string: one is appended at position z = length *)
    rewrite H1. change (Z.eqb (-1) (-1)) with true. cbv iota.
    set (strs1 := p_strs p ++ [0]). set (n := length (p_strs p)). rewrite Nat2Z.id.
    assert (Hz : nth n strs1 0 = 0) by (unfold strs1, n; rewrite app_nth2, Nat.sub_diag by lia; reflexivity).
    assert (Hlen : length strs1 = S n) by (unfold strs1, n; rewrite app_length; cbn; lia).
    destruct n as [|n'] eqn:En.
    + rewrite nth_set_nth_same by (rewrite set_nth_length; lia). rewrite <- Hz. apply nth_indep. lia.
    + rewrite nth_set_nth_other by discriminate. rewrite nth_set_nth_same by lia. exact Hz.
  - rewrite Z.sub_0_r in H2. destruct H1 as [Hlo Hhi]. cbn [Z.add] in Hhi.
    destruct (Z.eqb (index_of0 (p_strs p) 0) (-1)) eqn:E; [apply Z.eqb_eq in E; lia|].
    set (z := Z.to_nat (index_of0 (p_strs p) 0)) in *.
    assert (Hzl : (z < length (p_strs p))%nat) by (unfold z; lia).
    assert (Hz : nth z (p_strs p) 0 = 0) by (rewrite <- H2; apply nth_indep; exact Hzl).
    destruct z as [|z'] eqn:Ez.
    + rewrite nth_set_nth_same by (rewrite set_nth_length; lia). rewrite <- Hz. apply nth_indep. lia.
    + rewrite nth_set_nth_other by discriminate. rewrite nth_set_nth_same by lia. exact Hz.
Qed.
