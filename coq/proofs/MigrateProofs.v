(* C18 -- proofs about the update protocol of model/Migrate.v, generic in the catalogue type, the statement
   type, the statement semantics and the script lists.  Adapted from the feasibility probe MigrateProbe.v
   (DESIGN.md C.8), extended to per-call faults, the ver-table calls and the six streams. *)
From Coq Require Import List String NArith ZArith Bool Arith Lia.
From Qryn Require Import model.Migrate.
Import ListNotations.
Open Scope nat_scope.

Lemma stream_eqb_eq a b : stream_eqb a b = true <-> a = b.
Proof. split; [destruct a, b; vm_compute; congruence|intros ->; destruct b; reflexivity]. Qed.
Lemma stream_eqb_refl a : stream_eqb a a = true.
Proof. now apply stream_eqb_eq. Qed.
Lemma stream_eqb_neq a b : a <> b -> stream_eqb a b = false.
Proof. intros H. destruct (stream_eqb a b) eqn:E; [apply stream_eqb_eq in E; contradiction|reflexivity]. Qed.

Lemma res_ok_applied r : res_ok r = true -> res_applied r = true.
Proof. destruct r; cbn; congruence. Qed.

Lemma skipn_nth {A} (l : list A) n :
  skipn n l = match nth_error l n with Some x => x :: skipn (S n) l | None => [] end.
Proof. revert n; induction l as [|y l IH]; intros [|n]; cbn [skipn nth_error]; try reflexivity. apply IH. Qed.

Section ProtoProofs.
  Variables (cat stmt : Type).
  Variable exec : stmt -> cat -> option cat.
  Variable pexec : list bool -> stmt -> cat -> cat.
  Variable scripts : stream -> list stmt.

  Notation db := (db cat).
  Notation loop := (loop cat stmt exec pexec).
  Notation prelude := (prelude cat).
  Notation us := (us cat stmt exec pexec scripts).
  Notation run_streams := (run_streams cat stmt exec pexec scripts).
  Notation update := (update cat stmt exec pexec scripts).
  Notation multi_run := (multi_run cat stmt exec pexec scripts).
  Notation do_call := (do_call cat).
  Notation eff_script := (eff_script cat stmt exec).
  Notation peff_script := (peff_script cat stmt pexec).
  Notation peff_none := (peff_none cat).
  Notation eff_setver := (eff_setver cat).
  Notation apply_all := (apply_all cat stmt exec).
  Notation prefix := (prefix cat stmt exec).
  Notation apply_streams := (apply_streams cat stmt exec scripts).
  Notation len k := (List.length (scripts k)).

  (* ------------------------------------------------------------ one database call *)
  Lemma do_call_inv_gen o eff peff (d d1 : db) r1 :
    do_call o eff peff d = (d1, r1) ->
    (r1 = ROk /\ eff d = Some d1) \/ (r1 = RFAfter /\ eff d = Some d1)
    \/ (res_applied r1 = false /\ (d1 = d \/ exists m, d1 = peff m d)).
  Proof.
    unfold Migrate.do_call. destruct o; [destruct (eff d) eqn:E| |destruct (eff d) eqn:E|];
      intros H; inversion H; subst; cbn; auto;
      right; right; (split; [reflexivity|]); right; eexists; reflexivity.
  Qed.

  (* a call on ver / ver_dist: no partial effect *)
  Lemma do_call_inv o eff (d d1 : db) r1 :
    do_call o eff peff_none d = (d1, r1) ->
    (r1 = ROk /\ eff d = Some d1) \/ (r1 = RFAfter /\ eff d = Some d1)
    \/ (res_applied r1 = false /\ d1 = d).
  Proof.
    intros H. destruct (do_call_inv_gen _ _ _ _ _ _ H) as [A|[A|[A [B|[m B]]]]]; auto.
  Qed.

  Lemma do_call_ok_clean eff peff (d d' : db) : eff d = Some d' -> do_call OOk eff peff d = (d', ROk).
  Proof. intros H. unfold Migrate.do_call. now rewrite H. Qed.

  Lemma eff_script_inv x (d d1 : db) :
    eff_script x d = Some d1 ->
    exists c', exec x (d_cat d) = Some c' /\ d_cat d1 = c' /\ d_vers d1 = d_vers d /\
               d_ver_tbl d1 = d_ver_tbl d /\ d_vd_tbl d1 = d_vd_tbl d.
  Proof.
    unfold Migrate.eff_script. destruct (exec x (d_cat d)) as [c'|]; [|discriminate].
    intros H; inversion H; subst. exists c'. cbn. auto.
  Qed.

  (* a script call: versions and the ver tables stay; the catalogue is the statement's result when it
     completed, otherwise unchanged or a partial application *)
  Lemma script_call_inv o x (d d1 : db) r1 :
    do_call o (eff_script x) (peff_script x) d = (d1, r1) ->
    d_vers d1 = d_vers d /\ d_ver_tbl d1 = d_ver_tbl d /\ d_vd_tbl d1 = d_vd_tbl d /\
    ((res_applied r1 = true /\ exec x (d_cat d) = Some (d_cat d1)) \/
     (res_applied r1 = false /\ (d_cat d1 = d_cat d \/ exists m, d_cat d1 = pexec m x (d_cat d)))).
  Proof.
    intros H. destruct (do_call_inv_gen _ _ _ _ _ _ H) as [[-> He]|[[-> He]|[A [->|[m ->]]]]].
    - apply eff_script_inv in He. destruct He as (c' & Ex & <- & Hv & Ht & Hd). cbn. auto 6.
    - apply eff_script_inv in He. destruct He as (c' & Ex & <- & Hv & Ht & Hd). cbn. auto 6.
    - auto 7.
    - unfold Migrate.peff_script. cbn. repeat (split; [reflexivity|]). right. split; [exact A|]. right. eauto.
  Qed.

  Lemma eff_setver_inv k v (d d1 : db) :
    eff_setver k v d = Some d1 ->
    d_cat d1 = d_cat d /\ d_ver_tbl d1 = d_ver_tbl d /\ d_vd_tbl d1 = d_vd_tbl d /\
    d_vers d1 k = Nat.max (d_vers d k) v /\ (forall k', k' <> k -> d_vers d1 k' = d_vers d k').
  Proof.
    unfold Migrate.eff_setver. destruct (d_ver_tbl d) eqn:E; [|discriminate].
    intros H; inversion H; subst. cbn. rewrite stream_eqb_refl. repeat (split; [auto|]).
    intros k' Hk. now rewrite (stream_eqb_neq _ _ Hk).
  Qed.

  (* ------------------------------------------------------------ the head of updateScripts *)
  Definition no_scripts (l : list event) : Prop := filter is_script_event l = [].

  Lemma prelude_props c k os (d : db) :
    let p := prelude c k os d in
    d_cat (r_db p) = d_cat d /\ d_vers (r_db p) = d_vers d /\
    (d_ver_tbl d = true -> d_ver_tbl (r_db p) = true) /\
    (r_ok p = true -> d_ver_tbl (r_db p) = true) /\
    no_scripts (r_log p) /\
    (os = [] -> r_ok p = true /\ r_os p = []).
  Proof.
    unfold Migrate.prelude, no_scripts.
    destruct (do_call (o_hd os) (eff_create_ver cat) peff_none d) as [d1 r1] eqn:E1.
    assert (H1 : d_cat d1 = d_cat d /\ d_vers d1 = d_vers d /\ d_vd_tbl d1 = d_vd_tbl d /\
                 (d_ver_tbl d = true -> d_ver_tbl d1 = true) /\ (res_ok r1 = true -> d_ver_tbl d1 = true) /\
                 (os = [] -> res_ok r1 = true)).
    { unfold Migrate.do_call, eff_create_ver in E1. destruct (o_hd os) eqn:Eo; inversion E1; subst; cbn;
        repeat (split; [auto; try discriminate|]); try (intros ->; cbn in Eo; discriminate); auto. }
    destruct H1 as (Hc1 & Hv1 & Hd1 & Ht1 & Hok1 & Hcl1).
    destruct (res_ok r1) eqn:R1; cbn [negb].
    2:{ cbn [r_db r_ok r_log r_os]. split; [exact Hc1|]. split; [exact Hv1|]. split; [exact Ht1|].
        split; [discriminate|]. split; [reflexivity|]. intros Hos. specialize (Hcl1 Hos). discriminate. }
    specialize (Hok1 eq_refl).
    destruct (clustered c) eqn:Ecl.
    - destruct (do_call (o_hd (tl os)) (eff_create_vd cat) peff_none d1) as [d2 r2] eqn:E2.
      assert (H2 : d_cat d2 = d_cat d1 /\ d_vers d2 = d_vers d1 /\ d_ver_tbl d2 = d_ver_tbl d1 /\
                   (res_ok r2 = true -> d_vd_tbl d2 = true) /\ (os = [] -> res_ok r2 = true)).
      { unfold Migrate.do_call, eff_create_vd in E2. destruct (o_hd (tl os)) eqn:Eo; inversion E2; subst; cbn;
          repeat (split; [auto; try discriminate|]); try (intros ->; cbn in Eo; discriminate); auto. }
      destruct H2 as (Hc2 & Hv2 & Ht2 & Hok2 & Hcl2).
      destruct (res_ok r2) eqn:R2; cbn [negb].
      2:{ cbn [r_db r_ok r_log r_os]. rewrite Hc2, Hv2, Ht2. split; [exact Hc1|]. split; [exact Hv1|].
          split; [exact Ht1|]. split; [discriminate|]. split; [reflexivity|].
          intros Hos. specialize (Hcl2 Hos). discriminate. }
      specialize (Hok2 eq_refl).
      destruct (do_call (o_hd (tl (tl os))) (eff_read cat c) peff_none d2) as [d3 r3] eqn:E3.
      assert (H3 : d3 = d2 /\ (os = [] -> res_ok r3 = true)).
      { unfold Migrate.do_call, eff_read in E3. rewrite Ecl, Hok2, Ht2, Hok1 in E3. cbn in E3.
        destruct (o_hd (tl (tl os))) eqn:Eo; inversion E3; subst; (split; [reflexivity|]);
          try (intros ->; cbn in Eo; discriminate); auto. }
      destruct H3 as (-> & Hcl3). cbn [r_db r_ok r_log r_os].
      rewrite Hc2, Hv2, Ht2. split; [exact Hc1|]. split; [exact Hv1|]. split; [exact Ht1|].
      split; [intros _; exact Hok1|]. split; [cbn; reflexivity|].
      intros Hos. split; [now apply Hcl3|now subst os].
    - destruct (do_call (o_hd (tl os)) (eff_read cat c) peff_none d1) as [d3 r3] eqn:E3.
      assert (H3 : d3 = d1 /\ (os = [] -> res_ok r3 = true)).
      { unfold Migrate.do_call, eff_read in E3. rewrite Ecl, Hok1 in E3.
        destruct (o_hd (tl os)) eqn:Eo; inversion E3; subst; (split; [reflexivity|]);
          try (intros ->; cbn in Eo; discriminate); auto. }
      destruct H3 as (-> & Hcl3). cbn [r_db r_ok r_log r_os negb].
      split; [exact Hc1|]. split; [exact Hv1|]. split; [exact Ht1|].
      split; [intros _; exact Hok1|]. split; [cbn; reflexivity|].
      intros Hos. split; [now apply Hcl3|now subst os].
  Qed.

  (* ------------------------------------------------------------ version_never_ahead: the monitor accepts every log *)
  (* what is recorded never exceeds the database's version, which never exceeds what was applied *)
  Definition Link (d : db) (m : mst) : Prop := forall k, m_rec m k <= d_vers d k /\ d_vers d k <= m_app m k.

  Lemma mon_run_app m l1 l2 :
    mon_run m (l1 ++ l2) = match mon_run m l1 with Some a => mon_run a l2 | None => None end.
  Proof. revert m; induction l1 as [|e l1 IH]; intros m; cbn; [reflexivity|]. destruct (mon_step m e); auto. Qed.

  Lemma mon_run_no_scripts m l : no_scripts l -> mon_run m l = Some m.
  Proof.
    unfold no_scripts. induction l as [|e l IH]; cbn; [reflexivity|].
    destruct e; cbn; try discriminate; auto.
  Qed.

  Definition bump_app (m : mst) (k : stream) (i : nat) : mst :=
    {| m_app := fun k' => if stream_eqb k' k then Nat.max (m_app m k') (S i) else m_app m k'; m_rec := m_rec m |}.
  Definition bump_rec (m : mst) (k : stream) (v : nat) : mst :=
    {| m_app := m_app m; m_rec := fun k' => if stream_eqb k' k then Nat.max (m_rec m k') v else m_rec m k' |}.

  Lemma mon_script m k i r : m_rec m k <= i -> i <= m_app m k ->
    mon_step m (EScript k i r) = Some (if res_applied r then bump_app m k i else m).
  Proof.
    intros H1 H2. cbn. apply Nat.leb_le in H1, H2. rewrite H1, H2. destruct r; reflexivity.
  Qed.
  Lemma mon_ins m k v r : v <= m_app m k ->
    mon_step m (EInsVer k v r) = Some (if res_applied r then bump_rec m k v else m).
  Proof. intros H. cbn. apply Nat.leb_le in H. rewrite H. destruct (res_applied r); reflexivity. Qed.

  Lemma loop_mon k : forall todo os (d : db) m, Link d m ->
    exists m', mon_run m (r_log (loop k todo (d_vers d k) os d)) = Some m' /\
               Link (r_db (loop k todo (d_vers d k) os d)) m'.
  Proof.
    induction todo as [|x todo IH]; intros os d m HL; cbn [Migrate.loop].
    - cbn. eauto.
    - destruct (do_call (o_hd os) (eff_script x) (peff_script x) d) as [d1 r1] eqn:E1.
      set (m1 := if res_applied r1 then bump_app m k (d_vers d k) else m).
      destruct (HL k) as [Hrec Hle].
      assert (Hv1 : d_vers d1 = d_vers d) by (destruct (script_call_inv _ _ _ _ _ E1) as (Hv & _); exact Hv).
      assert (HL1 : Link d1 m1).
      { intros k'. rewrite Hv1. destruct (HL k') as [Ha Hb]. unfold m1, bump_app.
        destruct (res_applied r1); cbn [m_app m_rec]; [|auto]. split; [exact Ha|]. destruct (stream_eqb k' k); lia. }
      destruct (res_ok r1) eqn:R1.
      + pose proof (res_ok_applied _ R1) as A1.
        destruct (do_call (o_hd (tl os)) (eff_setver k (S (d_vers d k))) peff_none d1) as [d2 r2] eqn:E2.
        assert (Happ1k : S (d_vers d k) <= m_app m1 k).
        { unfold m1, bump_app. rewrite A1. cbn [m_app]. rewrite stream_eqb_refl. lia. }
        assert (Hrec1k : m_rec m1 k <= d_vers d k) by (unfold m1, bump_app; destruct (res_applied r1); exact Hrec).
        set (m2 := if res_applied r2 then bump_rec m1 k (S (d_vers d k)) else m1).
        assert (HL2 : Link d2 m2 /\ (res_ok r2 = true -> d_vers d2 k = S (d_vers d k))).
        { assert (Hap : forall d', eff_setver k (S (d_vers d k)) d1 = Some d' -> Link d' (bump_rec m1 k (S (d_vers d k))) /\ d_vers d' k = S (d_vers d k)).
          { intros d' He. apply eff_setver_inv in He. destruct He as (_ & _ & _ & Hk & Hoth).
            assert (Hk' : d_vers d' k = S (d_vers d k)) by (rewrite Hk, Hv1; lia).
            split; [|exact Hk']. intros k'. unfold bump_rec. cbn [m_app m_rec].
            destruct (stream_eqb k' k) eqn:Ek.
            - apply stream_eqb_eq in Ek. subst k'. rewrite Hk'. lia.
            - rewrite Hoth; [apply HL1|intros ->; rewrite stream_eqb_refl in Ek; discriminate]. }
          unfold m2. destruct (do_call_inv _ _ _ _ _ E2) as [[-> He]|[[-> He]|[Hn ->]]]; cbn [res_applied res_ok].
          - destruct (Hap _ He). auto.
          - destruct (Hap _ He). split; [assumption|discriminate].
          - rewrite Hn. split; [exact HL1|]. intros Hok. rewrite (res_ok_applied _ Hok) in Hn. discriminate. }
        destruct HL2 as [HL2 Hd2k].
        destruct (res_ok r2) eqn:R2.
        * specialize (Hd2k eq_refl).
          destruct (IH (tl (tl os)) d2 m2 HL2) as (m' & Hm & HL'). rewrite Hd2k in Hm, HL'.
          cbn [r_log r_db Migrate.mon_run]. rewrite (mon_script _ _ _ _ Hrec Hle). fold m1.
          rewrite (mon_ins _ _ _ _ Happ1k). fold m2. eauto.
        * cbn [r_log r_db Migrate.mon_run]. rewrite (mon_script _ _ _ _ Hrec Hle). fold m1.
          rewrite (mon_ins _ _ _ _ Happ1k). fold m2. eauto.
      + cbn [r_log r_db Migrate.mon_run]. rewrite (mon_script _ _ _ _ Hrec Hle). fold m1. eauto.
  Qed.

  Lemma us_mon c k os (d : db) m : Link d m ->
    exists m', mon_run m (r_log (us c k os d)) = Some m' /\ Link (r_db (us c k os d)) m'.
  Proof.
    intros HL. unfold Migrate.us.
    destruct (prelude_props c k os d) as (Hc & Hv & _ & _ & Hns & _).
    set (p := prelude c k os d) in *.
    assert (HLp : Link (r_db p) m) by (intros k'; rewrite Hv; apply HL).
    destruct (r_ok p).
    - destruct (loop_mon k (skipn (d_vers (r_db p) k) (scripts k)) (r_os p) (r_db p) m HLp) as (m' & Hm & HL').
      cbn [r_log r_db]. rewrite mon_run_app, (mon_run_no_scripts _ _ Hns). eauto.
    - rewrite (mon_run_no_scripts _ _ Hns). eauto.
  Qed.

  Lemma run_streams_mon c : forall ks os (d : db) m, Link d m ->
    exists m', mon_run m (r_log (run_streams c ks os d)) = Some m' /\ Link (r_db (run_streams c ks os d)) m'.
  Proof.
    induction ks as [|k ks IH]; intros os d m HL; cbn [Migrate.run_streams].
    - cbn. eauto.
    - destruct (us_mon c k os d m HL) as (m1 & Hm1 & HL1).
      destruct (r_ok (us c k os d)).
      + destruct (IH (r_os (us c k os d)) (r_db (us c k os d)) m1 HL1) as (m2 & Hm2 & HL2).
        cbn [r_log r_db]. rewrite mon_run_app, Hm1. eauto.
      + eauto.
  Qed.

  Lemma multi_run_mon c : forall runs (d : db) m, Link d m ->
    exists m', mon_run m (snd (multi_run c runs d)) = Some m' /\ Link (fst (multi_run c runs d)) m'.
  Proof.
    induction runs as [|os runs IH]; intros d m HL; cbn [Migrate.multi_run].
    - cbn. eauto.
    - destruct (run_streams_mon c (streams_of c) os d m HL) as (m1 & Hm1 & HL1).
      fold (update c os d) in Hm1, HL1.
      destruct (IH (r_db (update c os d)) m1 HL1) as (m2 & Hm2 & HL2).
      destruct (multi_run c runs (r_db (update c os d))) as [d' l]. cbn [fst snd] in *.
      rewrite mon_run_app, Hm1. eauto.
  Qed.

  Theorem never_ahead c runs c0 :
    exists m, mon_run mst0 (snd (multi_run c runs (db0 cat c0))) = Some m /\
              forall k, m_rec m k <= d_vers (fst (multi_run c runs (db0 cat c0))) k /\
                        d_vers (fst (multi_run c runs (db0 cat c0))) k <= m_app m k.
  Proof. apply multi_run_mon. intros k. cbn. lia. Qed.

  (* ------------------------------------------------------------ noop_when_current *)
  Lemma us_noop c k os (d : db) : len k <= d_vers d k ->
    let r := us c k os d in
    d_cat (r_db r) = d_cat d /\ d_vers (r_db r) = d_vers d /\ no_scripts (r_log r) /\
    (os = [] -> r_ok r = true /\ r_os r = []).
  Proof.
    intros Hle. unfold Migrate.us.
    destruct (prelude_props c k os d) as (Hc & Hv & _ & _ & Hns & Hcl).
    set (p := prelude c k os d) in *.
    destruct (r_ok p) eqn:Hok.
    - rewrite skipn_all2 by (rewrite Hv; exact Hle). cbn.
      unfold no_scripts in *. rewrite app_nil_r. split; [exact Hc|]. split; [exact Hv|]. split; [exact Hns|].
      intros ->. destruct (Hcl eq_refl) as [_ Ho]. split; [reflexivity|exact Ho].
    - split; [exact Hc|]. split; [exact Hv|]. split; [exact Hns|].
      intros ->. destruct (Hcl eq_refl). congruence.
  Qed.

  Lemma no_scripts_app l1 l2 : no_scripts l1 -> no_scripts l2 -> no_scripts (l1 ++ l2).
  Proof. unfold no_scripts. intros H1 H2. now rewrite filter_app, H1, H2. Qed.

  Lemma run_streams_noop c : forall ks os (d : db), (forall k, In k ks -> len k <= d_vers d k) ->
    let r := run_streams c ks os d in
    d_cat (r_db r) = d_cat d /\ d_vers (r_db r) = d_vers d /\ no_scripts (r_log r) /\
    (os = [] -> r_ok r = true /\ r_os r = []).
  Proof.
    induction ks as [|k ks IH]; intros os d H; cbn [Migrate.run_streams].
    - cbn. split; [reflexivity|]. split; [reflexivity|]. split; [reflexivity|]. intros ->. auto.
    - destruct (us_noop c k os d (H k (or_introl eq_refl))) as (Hc & Hv & Hns & Hcl).
      destruct (r_ok (us c k os d)) eqn:Hok.
      + assert (H' : forall k', In k' ks -> len k' <= d_vers (r_db (us c k os d)) k').
        { intros k' Hk'. rewrite Hv. apply H. now right. }
        destruct (IH (r_os (us c k os d)) (r_db (us c k os d)) H') as (Hc2 & Hv2 & Hns2 & Hcl2).
        cbn [r_db r_log r_ok r_os]. rewrite Hc2, Hv2. split; [exact Hc|]. split; [exact Hv|].
        split; [now apply no_scripts_app|].
        intros ->. destruct (Hcl eq_refl) as [_ Ho]. apply Hcl2. exact Ho.
      + split; [exact Hc|]. split; [exact Hv|]. split; [exact Hns|].
        intros ->. destruct (Hcl eq_refl). congruence.
  Qed.

  (* ------------------------------------------------------------ convergence *)
  Lemma apply_all_app l1 l2 c0 :
    apply_all (l1 ++ l2) c0 = match apply_all l1 c0 with Some c1 => apply_all l2 c1 | None => None end.
  Proof. revert c0; induction l1 as [|x l1 IH]; intros c0; cbn; [reflexivity|]. destruct (exec x c0); auto. Qed.

  Lemma prefix_S l n c0 x :
    nth_error l n = Some x ->
    prefix l (S n) c0 = match prefix l n c0 with Some c1 => exec x c1 | None => None end.
  Proof.
    intros Hn. unfold Migrate.prefix.
    assert (E : firstn (S n) l = firstn n l ++ [x]).
    { revert l Hn. induction n as [|n IH]; intros [|y l] Hn; cbn in *; try discriminate.
      - now inversion Hn.
      - f_equal. now apply IH. }
    rewrite E, apply_all_app. destruct (apply_all (firstn n l) c0); [|reflexivity].
    cbn. destruct (exec x c); reflexivity.
  Qed.

  Lemma apply_all_firstn_none : forall l n m c0, n <= m ->
    apply_all (firstn n l) c0 = None -> apply_all (firstn m l) c0 = None.
  Proof.
    induction l as [|x l IH]; intros [|n] [|m] c0 Hle H; cbn in *; try discriminate; try lia.
    destruct (exec x c0); [|reflexivity]. apply (IH n m); [lia|exact H].
  Qed.

  Lemma prefix_all l c0 : prefix l (List.length l) c0 = apply_all l c0.
  Proof. unfold Migrate.prefix. now rewrite firstn_all. Qed.

  (* ---- the premise of convergence, as propositions.  Mid x c cm: cm is what the database can look like
     while statement x, started in c, has not been seen to complete (x ran on some of the hosts).  One server:
     cm = c or cm = the result of x.  GoodAt x c1: from every such state, x completes to the same c2, and an
     incomplete execution stays among these states. *)
  Variable Mid : stmt -> cat -> cat -> Prop.
  Hypothesis Mid_refl : forall x c, Mid x c c.
  Definition GoodAt (x : stmt) (c1 : cat) : Prop :=
    exists c2, Mid x c1 c2 /\
      forall cm, Mid x c1 cm -> exec x cm = Some c2 /\ forall m, Mid x c1 (pexec m x cm).
  Definition reexecP (l : list stmt) (c0 : cat) : Prop :=
    forall n x c1, nth_error l n = Some x -> prefix l n c0 = Some c1 -> GoodAt x c1.
  Fixpoint reexec_streamsP (ks : list stream) (c0 : cat) : Prop :=
    match ks with
    | [] => True
    | k :: ks' => reexecP (scripts k) c0 /\ exists c1, apply_all (scripts k) c0 = Some c1 /\ reexec_streamsP ks' c1
    end.

  (* invariant of one stream relative to the catalogue c0 it started from in the uninterrupted run: the
     recorded version v never exceeds the script count, scripts 0..v-1 are applied, and script v is
     somewhere between not started and complete (but unrecorded) *)
  Definition StreamInv (k : stream) (c0 : cat) (d : db) : Prop :=
    d_vers d k <= len k /\
    exists cp, prefix (scripts k) (d_vers d k) c0 = Some cp /\
               match nth_error (scripts k) (d_vers d k) with
               | Some x => Mid x cp (d_cat d)
               | None => d_cat d = cp
               end.

  Lemma StreamInv_at k c0 (d : db) v cp :
    d_vers d k = v -> v <= len k -> prefix (scripts k) v c0 = Some cp -> d_cat d = cp -> StreamInv k c0 d.
  Proof.
    intros Hv Hle Hp Hc. unfold StreamInv. rewrite Hv. split; [exact Hle|]. exists cp. split; [exact Hp|].
    destruct (nth_error (scripts k) v); [rewrite Hc; apply Mid_refl|exact Hc].
  Qed.

  Lemma loop_inv k c0 : reexecP (scripts k) c0 -> forall n os (d : db),
    n + d_vers d k = len k -> StreamInv k c0 d ->
    let r := loop k (skipn (d_vers d k) (scripts k)) (d_vers d k) os d in
    StreamInv k c0 (r_db r) /\ (forall k', k' <> k -> d_vers (r_db r) k' = d_vers d k') /\
    (r_ok r = true -> d_vers (r_db r) k = len k /\ apply_all (scripts k) c0 = Some (d_cat (r_db r))).
  Proof.
    intros HR. induction n as [|n IH]; intros os d Hn HI.
    - rewrite skipn_all2 by lia. cbn. split; [exact HI|]. split; [auto|]. intros _.
      split; [lia|]. destruct HI as (_ & cp & Hp & Hm).
      assert (Hnone : nth_error (scripts k) (d_vers d k) = None) by (apply nth_error_None; lia).
      rewrite Hnone in Hm. replace (d_vers d k) with (len k) in Hp by lia. rewrite prefix_all in Hp. now rewrite Hm.
    - rewrite skipn_nth. destruct (nth_error (scripts k) (d_vers d k)) as [x|] eqn:Hx.
      2:{ apply nth_error_None in Hx. lia. }
      assert (Hlt : d_vers d k < len k) by (apply nth_error_Some; congruence).
      cbn [Migrate.loop].
      destruct HI as (Hle & cp & Hp & Hm). rewrite Hx in Hm.
      destruct (HR _ _ _ Hx Hp) as (c2 & Hmid2 & Hgood).
      assert (Hp2 : prefix (scripts k) (S (d_vers d k)) c0 = Some c2).
      { rewrite (prefix_S _ _ _ _ Hx), Hp. exact (proj1 (Hgood cp (Mid_refl x cp))). }
      destruct (do_call (o_hd os) (eff_script x) (peff_script x) d) as [d1 r1] eqn:E1.
      destruct (script_call_inv _ _ _ _ _ E1) as (Hv1 & _ & _ & Hcases).
      assert (Hm1 : Mid x cp (d_cat d1) /\ (res_applied r1 = true -> d_cat d1 = c2)).
      { destruct Hcases as [[A Ex]|[A [Hc|[m Hc]]]].
        - rewrite (proj1 (Hgood _ Hm)) in Ex. injection Ex as Ex. split; [rewrite <- Ex; exact Hmid2|intros _; now rewrite <- Ex].
        - rewrite Hc. split; [exact Hm|]. intros B. rewrite B in A. discriminate.
        - rewrite Hc. split; [exact (proj2 (Hgood _ Hm) m)|]. intros B. rewrite B in A. discriminate. }
      destruct Hm1 as [Hm1 Hc1].
      assert (HI1 : StreamInv k c0 d1).
      { unfold StreamInv. rewrite Hv1. split; [exact Hle|]. exists cp. split; [exact Hp|]. now rewrite Hx. }
      destruct (res_ok r1) eqn:R1.
      2:{ cbn [r_db r_ok]. split; [exact HI1|]. split; [intros; now rewrite Hv1|discriminate]. }
      specialize (Hc1 (res_ok_applied _ R1)).
      destruct (do_call (o_hd (tl os)) (eff_setver k (S (d_vers d k))) peff_none d1) as [d2 r2] eqn:E2.
      assert (Hset : forall d', eff_setver k (S (d_vers d k)) d1 = Some d' ->
                d_cat d' = d_cat d1 /\ d_vers d' k = S (d_vers d k) /\ (forall k', k' <> k -> d_vers d' k' = d_vers d k')).
      { intros d' He. apply eff_setver_inv in He. destruct He as (Hc & _ & _ & Hk & Ho).
        split; [exact Hc|]. split; [rewrite Hk, Hv1; lia|]. intros k' Hk'. rewrite (Ho k' Hk'). now rewrite Hv1. }
      assert (HI2a : forall d', eff_setver k (S (d_vers d k)) d1 = Some d' -> StreamInv k c0 d').
      { intros d' He. destruct (Hset _ He) as (Hc & Hk & _).
        apply (StreamInv_at k c0 d' (S (d_vers d k)) c2 Hk ltac:(lia) Hp2). now rewrite Hc. }
      destruct (res_ok r2) eqn:R2.
      + destruct (do_call_inv _ _ _ _ _ E2) as [[_ He]|[[-> _]|[Hn' _]]]; [|discriminate|].
        2:{ rewrite (res_ok_applied _ R2) in Hn'. discriminate. }
        destruct (Hset _ He) as (Hc2 & Hk2 & Ho2).
        assert (Hn2 : n + d_vers d2 k = len k) by lia.
        pose proof (IH (tl (tl os)) d2 Hn2 (HI2a _ He)) as IH2. rewrite Hk2 in IH2.
        cbn [r_db r_ok]. destruct IH2 as (Ha & Hb & Hc). split; [exact Ha|]. split; [|exact Hc].
        intros k' Hk'. rewrite (Hb k' Hk'). now apply Ho2.
      + cbn [r_db r_ok]. split; [|split; [|discriminate]].
        * destruct (do_call_inv _ _ _ _ _ E2) as [[_ He]|[[_ He]|[_ ->]]]; [now apply HI2a|now apply HI2a|exact HI1].
        * intros k' Hk'. destruct (do_call_inv _ _ _ _ _ E2) as [[_ He]|[[_ He]|[_ ->]]];
            [destruct (Hset _ He) as (_ & _ & Ho); now apply Ho|destruct (Hset _ He) as (_ & _ & Ho); now apply Ho|now rewrite Hv1].
  Qed.

  (* without injected faults the loop runs to the end *)
  Lemma loop_clean k c0 : reexecP (scripts k) c0 ->
    forall n (d : db), n + d_vers d k = len k -> StreamInv k c0 d -> d_ver_tbl d = true ->
    let r := loop k (skipn (d_vers d k) (scripts k)) (d_vers d k) [] d in r_ok r = true /\ r_os r = [].
  Proof.
    intros HR. induction n as [|n IH]; intros d Hn HI Ht.
    - rewrite skipn_all2 by lia. cbn. auto.
    - rewrite skipn_nth. destruct (nth_error (scripts k) (d_vers d k)) as [x|] eqn:Hx.
      2:{ apply nth_error_None in Hx. lia. }
      assert (Hlt : d_vers d k < len k) by (apply nth_error_Some; congruence).
      cbn [Migrate.loop o_hd tl].
      destruct HI as (Hle & cp & Hp & Hm). rewrite Hx in Hm.
      destruct (HR _ _ _ Hx Hp) as (c2 & Hmid2 & Hgood).
      assert (Hp2 : prefix (scripts k) (S (d_vers d k)) c0 = Some c2).
      { rewrite (prefix_S _ _ _ _ Hx), Hp. exact (proj1 (Hgood cp (Mid_refl x cp))). }
      pose proof (proj1 (Hgood _ Hm)) as Ex.
      assert (He1 : eff_script x d = Some (set_cat cat d c2)) by (unfold Migrate.eff_script; now rewrite Ex).
      rewrite (do_call_ok_clean _ _ _ _ He1). cbn [res_ok].
      set (d1 := set_cat cat d c2).
      assert (He2 : eff_setver k (S (d_vers d k)) d1 = Some (set_ver cat d1 k (S (d_vers d k)))).
      { unfold Migrate.eff_setver. cbn. now rewrite Ht. }
      rewrite (do_call_ok_clean _ _ _ _ He2). cbn [res_ok].
      set (d2 := set_ver cat d1 k (S (d_vers d k))).
      assert (Hk2 : d_vers d2 k = S (d_vers d k)) by (cbn; rewrite stream_eqb_refl; lia).
      assert (HI2 : StreamInv k c0 d2) by (apply (StreamInv_at k c0 d2 _ c2 Hk2 ltac:(lia) Hp2); reflexivity).
      assert (Hn2 : n + d_vers d2 k = len k) by lia.
      pose proof (IH d2 Hn2 HI2 Ht) as IH2. rewrite Hk2 in IH2. cbn [r_ok r_os]. exact IH2.
  Qed.

  Lemma us_inv c k c0 os (d : db) : reexecP (scripts k) c0 -> StreamInv k c0 d ->
    let r := us c k os d in
    StreamInv k c0 (r_db r) /\ (forall k', k' <> k -> d_vers (r_db r) k' = d_vers d k') /\
    (r_ok r = true -> d_vers (r_db r) k = len k /\ apply_all (scripts k) c0 = Some (d_cat (r_db r))).
  Proof.
    intros HR HI. unfold Migrate.us.
    destruct (prelude_props c k os d) as (Hc & Hv & _ & _ & _ & _).
    set (p := prelude c k os d) in *.
    assert (HIp : StreamInv k c0 (r_db p)) by (unfold StreamInv in *; now rewrite Hc, Hv).
    destruct (r_ok p) eqn:Hok.
    - assert (Hn : (len k - d_vers (r_db p) k) + d_vers (r_db p) k = len k) by (destruct HIp; lia).
      pose proof (loop_inv k c0 HR _ (r_os p) (r_db p) Hn HIp) as (Ha & Hb & Hcc).
      cbn [r_db r_ok]. split; [exact Ha|]. split; [|exact Hcc]. intros k' Hk'. rewrite (Hb k' Hk'). now rewrite Hv.
    - cbv zeta. split; [exact HIp|]. split; [intros; now rewrite Hv|]. intros Hx. rewrite Hok in Hx. discriminate.
  Qed.

  Lemma us_clean c k c0 (d : db) : reexecP (scripts k) c0 ->
    StreamInv k c0 d -> r_ok (us c k [] d) = true /\ r_os (us c k [] d) = [].
  Proof.
    intros HR HI. unfold Migrate.us.
    destruct (prelude_props c k [] d) as (Hc & Hv & _ & Htbl & _ & Hcl).
    set (p := prelude c k [] d) in *. destruct (Hcl eq_refl) as [Hok Hos]. rewrite Hok, Hos.
    assert (HIp : StreamInv k c0 (r_db p)) by (unfold StreamInv in *; now rewrite Hc, Hv).
    assert (Hn : (len k - d_vers (r_db p) k) + d_vers (r_db p) k = len k) by (destruct HIp; lia).
    exact (loop_clean k c0 HR _ (r_db p) Hn HIp (Htbl Hok)).
  Qed.

  (* invariant of the whole database relative to the stream list: a (possibly empty) prefix of the streams
     is complete, the next one is in progress, the later ones are untouched *)
  Fixpoint InvL (ks : list stream) (c0 : cat) (d : db) : Prop :=
    match ks with
    | [] => d_cat d = c0
    | k :: ks' =>
      (d_vers d k = len k /\ exists c1, apply_all (scripts k) c0 = Some c1 /\ InvL ks' c1 d)
      \/ (d_vers d k < len k /\ (forall k', In k' ks' -> d_vers d k' = 0) /\ StreamInv k c0 d)
    end.

  Lemma InvL_frame : forall ks c0 (d d' : db), d_cat d' = d_cat d -> (forall k, In k ks -> d_vers d' k = d_vers d k) ->
    InvL ks c0 d -> InvL ks c0 d'.
  Proof.
    induction ks as [|k ks IH]; intros c0 d d' Hc Hv H; cbn [InvL] in *.
    - congruence.
    - destruct H as [(Hk & c1 & Ha & Hr)|(Hk & Hz & HS)].
      + left. rewrite (Hv k (or_introl eq_refl)). split; [exact Hk|]. exists c1. split; [exact Ha|].
        apply (IH c1 d d' Hc); [|exact Hr]. intros k' Hk'. apply Hv. now right.
      + right. rewrite (Hv k (or_introl eq_refl)). split; [exact Hk|]. split.
        * intros k' Hk'. rewrite (Hv k' (or_intror Hk')). now apply Hz.
        * unfold StreamInv in *. now rewrite (Hv k (or_introl eq_refl)), Hc.
  Qed.

  Lemma InvL_fresh : forall ks c0 (d : db), d_cat d = c0 -> (forall k, In k ks -> d_vers d k = 0) -> InvL ks c0 d.
  Proof.
    induction ks as [|k ks IH]; intros c0 d Hc Hz; cbn [InvL]; [exact Hc|].
    pose proof (Hz k (or_introl eq_refl)) as Hk.
    destruct (scripts k) as [|x l] eqn:Es.
    - left. rewrite Hk. split; [reflexivity|]. exists c0. split; [reflexivity|].
      apply IH; [exact Hc|]. intros k' Hk'. apply Hz. now right.
    - right. rewrite Hk. split; [cbn; lia|]. split; [intros k' Hk'; apply Hz; now right|].
      apply (StreamInv_at k c0 d 0 c0 Hk ltac:(lia)); [reflexivity|exact Hc].
  Qed.

  Lemma us_step c k ks c0 c1 os (d : db) :
    ~ In k ks -> reexecP (scripts k) c0 -> apply_all (scripts k) c0 = Some c1 -> InvL (k :: ks) c0 d ->
    let r := us c k os d in
    InvL (k :: ks) c0 (r_db r) /\ (r_ok r = true -> d_vers (r_db r) k = len k /\ InvL ks c1 (r_db r)) /\
    (forall k', k' <> k -> d_vers (r_db r) k' = d_vers d k').
  Proof.
    intros Hnin HR Ha HI. cbn [InvL] in HI. destruct HI as [(Hk & c1' & Ha' & Hr)|(Hk & Hz & HS)].
    - (* stream already complete: us is a no-op on it *)
      rewrite Ha in Ha'. inversion Ha'; subst c1'.
      destruct (us_noop c k os d ltac:(lia)) as (Hc & Hv & _ & _).
      assert (Hr' : InvL ks c1 (r_db (us c k os d))).
      { apply (InvL_frame ks c1 d); [exact Hc| |exact Hr]. intros; now rewrite Hv. }
      split; [|split].
      + cbn [InvL]. left. rewrite Hv. split; [exact Hk|]. exists c1. auto.
      + intros _. rewrite Hv. auto.
      + intros; now rewrite Hv.
    - destruct (us_inv c k c0 os d HR HS) as (HS' & Hfr & Hdone).
      set (r := us c k os d) in *.
      assert (Hz' : forall k', In k' ks -> d_vers (r_db r) k' = 0).
      { intros k' Hk'. rewrite Hfr; [now apply Hz|]. intros ->. contradiction. }
      assert (Hcomplete : d_vers (r_db r) k = len k -> InvL ks c1 (r_db r)).
      { intros He. apply InvL_fresh; [|exact Hz'].
        destruct HS' as (_ & cp & Hp & Hm). rewrite He in Hp, Hm.
        assert (Hnone : nth_error (scripts k) (len k) = None) by (apply nth_error_None; lia).
        rewrite Hnone in Hm. rewrite prefix_all, Ha in Hp. congruence. }
      split; [|split; [|exact Hfr]].
      + cbn [InvL]. pose proof HS' as (Hle & _).
        destruct (Nat.eq_dec (d_vers (r_db r) k) (len k)) as [He|Hne].
        * left. split; [exact He|]. exists c1. split; [exact Ha|]. now apply Hcomplete.
        * right. split; [lia|]. split; [exact Hz'|exact HS'].
      + intros Hok. destruct (Hdone Hok) as [He _]. split; [exact He|]. now apply Hcomplete.
  Qed.

  Lemma run_streams_inv c : forall ks c0 os (d : db), NoDup ks -> reexec_streamsP ks c0 -> InvL ks c0 d ->
    let r := run_streams c ks os d in
    InvL ks c0 (r_db r) /\ (forall k', ~ In k' ks -> d_vers (r_db r) k' = d_vers d k') /\
    (r_ok r = true -> apply_streams ks c0 = Some (d_cat (r_db r)) /\ forall k, In k ks -> d_vers (r_db r) k = len k).
  Proof.
    induction ks as [|k ks IH]; intros c0 os d Hnd Hre HI; cbn [Migrate.run_streams].
    - cbn. split; [exact HI|]. split; [auto|]. intros _. cbn in HI. split; [now rewrite HI|intros k []].
    - inversion Hnd as [|? ? Hnin Hnd']; subst.
      destruct Hre as (HR & c1 & Ha & Hre').
      destruct (us_step c k ks c0 c1 os d Hnin HR Ha HI) as (HI1 & Hdone & Hfr).
      set (r := us c k os d) in *.
      destruct (r_ok r) eqn:Hok.
      + destruct (Hdone eq_refl) as [Hk HI1'].
        destruct (IH c1 (r_os r) (r_db r) Hnd' Hre' HI1') as (HI2 & Hfr2 & Hdone2).
        set (r2 := run_streams c ks (r_os r) (r_db r)) in *. cbn [r_db r_ok].
        assert (Hk2 : d_vers (r_db r2) k = len k) by (rewrite (Hfr2 k Hnin); exact Hk).
        split; [|split].
        * cbn [InvL]. left. split; [exact Hk2|]. exists c1. auto.
        * intros k' Hk'. rewrite Hfr2 by (intros Hin; apply Hk'; now right).
          apply Hfr. intros ->. apply Hk'. now left.
        * intros Hok2. destruct (Hdone2 Hok2) as [Hap Hall]. cbn [Migrate.apply_streams]. rewrite Ha.
          split; [exact Hap|]. intros k' [<-|Hk']; [exact Hk2|now apply Hall].
      + cbv zeta. split; [exact HI1|]. split; [|intros Hx; rewrite Hok in Hx; discriminate].
        intros k' Hk'. apply Hfr. intros ->. apply Hk'. now left.
  Qed.

  Lemma run_streams_clean c : forall ks c0 (d : db), NoDup ks -> reexec_streamsP ks c0 -> InvL ks c0 d ->
    r_ok (run_streams c ks [] d) = true.
  Proof.
    induction ks as [|k ks IH]; intros c0 d Hnd Hre HI; cbn [Migrate.run_streams]; [reflexivity|].
    inversion Hnd as [|? ? Hnin Hnd']; subst.
    destruct Hre as (HR & c1 & Ha & Hre').
    assert (Hcl : r_ok (us c k [] d) = true /\ r_os (us c k [] d) = []).
    { cbn [InvL] in HI. destruct HI as [(Hk & _)|(_ & _ & HS)].
      - destruct (us_noop c k [] d ltac:(lia)) as (_ & _ & _ & H). now apply H.
      - apply (us_clean c k c0 d HR HS). }
    destruct Hcl as [Hok Hos].
    destruct (us_step c k ks c0 c1 [] d Hnin HR Ha HI) as (_ & Hdone & _).
    rewrite Hok, Hos. cbn [r_ok]. destruct (Hdone Hok) as [_ HI1]. exact (IH c1 _ Hnd' Hre' HI1).
  Qed.

  Lemma multi_run_inv c c0 : NoDup (streams_of c) -> reexec_streamsP (streams_of c) c0 ->
    forall runs (d : db), InvL (streams_of c) c0 d -> InvL (streams_of c) c0 (fst (multi_run c runs d)).
  Proof.
    intros Hnd Hre. induction runs as [|os runs IH]; intros d HI; cbn [Migrate.multi_run]; [exact HI|].
    destruct (run_streams_inv c (streams_of c) c0 os d Hnd Hre HI) as (HI1 & _ & _).
    fold (update c os d) in HI1. specialize (IH _ HI1).
    destruct (multi_run c runs (r_db (update c os d))) as [d' l]. exact IH.
  Qed.

  Lemma streams_nodup c : NoDup (streams_of c).
  Proof.
    unfold streams_of. destruct (dist c); cbn;
      repeat (constructor; [cbn; intuition discriminate|]); constructor.
  Qed.

  (* after any number of interrupted runs (failures before / after any call, statements that completed on some
     hosts only), one run without faults completes and ends where a migration that was never interrupted ends *)
  Theorem converges_gen c c0 runs :
    reexec_streamsP (streams_of c) c0 ->
    let d := fst (multi_run c runs (db0 cat c0)) in
    let r := update c [] d in
    r_ok r = true /\ apply_streams (streams_of c) c0 = Some (d_cat (r_db r)) /\
    forall k, In k (streams_of c) -> d_vers (r_db r) k = len k.
  Proof.
    intros Hre d r.
    assert (H0 : InvL (streams_of c) c0 (db0 cat c0)) by (apply InvL_fresh; cbn; auto).
    pose proof (multi_run_inv c c0 (streams_nodup c) Hre runs _ H0) as HI. fold d in HI.
    pose proof (run_streams_clean c _ c0 d (streams_nodup c) Hre HI) as Hok.
    destruct (run_streams_inv c _ c0 [] d (streams_nodup c) Hre HI) as (_ & _ & Hdone).
    fold (update c [] d) in Hok, Hdone. fold r in Hok, Hdone.
    split; [exact Hok|]. exact (Hdone Hok).
  Qed.
End ProtoProofs.


(* ------------------------------------------------------------------ one server: no partial effects *)
Definition pexec_one {cat stmt : Type} : list bool -> stmt -> cat -> cat := fun _ _ c => c.

Section OneServer.
  Variables (cat stmt : Type).
  Variable exec : stmt -> cat -> option cat.
  Variable scripts : stream -> list stmt.
  Variable cat_eqb : cat -> cat -> bool.
  Hypothesis cat_eqb_sound : forall a b, cat_eqb a b = true -> a = b.

  (* on one server a statement that has not been seen to complete either did nothing or took effect *)
  Definition Mid1 (x : stmt) (c cm : cat) : Prop := cm = c \/ exec x c = Some cm.

  Notation reexecP1 := (reexecP cat stmt exec pexec_one Mid1).

  Lemma reexec_ok_sound : forall l c0, reexec_ok cat stmt exec cat_eqb l c0 = true ->
    reexecP1 l c0 /\ exists cf, apply_all cat stmt exec l c0 = Some cf.
  Proof.
    induction l as [|x l IH]; intros c0 H.
    - split; [|cbn; eauto]. intros [|n] y c1 Hn; cbn in Hn; discriminate.
    - cbn in H. destruct (exec x c0) as [c1|] eqn:E0; [|discriminate].
      destruct (exec x c1) as [c2|] eqn:E1; [|discriminate].
      apply andb_true_iff in H. destruct H as [Heq Hr]. apply cat_eqb_sound in Heq. subst c2.
      destruct (IH c1 Hr) as [HP [cf Hcf]]. split.
      + intros [|n] y a Hn Hp.
        * cbn in Hn, Hp. inversion Hn; subst y. inversion Hp; subst a.
          exists c1. split; [right; exact E0|]. intros cm [->|Hcm].
          -- split; [exact E0|]. intros m. left. reflexivity.
          -- rewrite E0 in Hcm. inversion Hcm; subst cm. split; [exact E1|]. intros m. right. exact E0.
        * cbn in Hn. unfold Migrate.prefix in Hp. cbn in Hp. rewrite E0 in Hp. exact (HP n y a Hn Hp).
      + exists cf. cbn. now rewrite E0.
  Qed.

  Lemma reexec_streams_sound : forall ks c0, reexec_streams cat stmt exec scripts cat_eqb ks c0 = true ->
    reexec_streamsP cat stmt exec pexec_one scripts Mid1 ks c0.
  Proof.
    induction ks as [|k ks IH]; intros c0 H; cbn in *; [exact I|].
    apply andb_true_iff in H. destruct H as [H1 H2].
    destruct (reexec_ok_sound _ _ H1) as [HR [cf Hcf]]. split; [exact HR|].
    rewrite Hcf in H2. exists cf. split; [exact Hcf|]. now apply IH.
  Qed.

  Theorem converges c c0 runs :
    reexec_streams cat stmt exec scripts cat_eqb (streams_of c) c0 = true ->
    let d := fst (multi_run cat stmt exec pexec_one scripts c runs (db0 cat c0)) in
    let r := update cat stmt exec pexec_one scripts c [] d in
    r_ok r = true /\ apply_streams cat stmt exec scripts (streams_of c) c0 = Some (d_cat (r_db r)) /\
    forall k, In k (streams_of c) -> d_vers (r_db r) k = List.length (scripts k).
  Proof.
    intros Hre. apply (converges_gen cat stmt exec pexec_one scripts Mid1).
    - intros x c1. left. reflexivity.
    - now apply reexec_streams_sound.
  Qed.
End OneServer.

(* ------------------------------------------------------------------ soundness of the structural equality *)
Lemma list_eqb_sound {A} (f : A -> A -> bool) :
  (forall x y, f x y = true -> x = y) -> forall a b, list_eqb f a b = true -> a = b.
Proof.
  intros Hf. induction a as [|x a IH]; intros [|y b] H; cbn in H; try discriminate; [reflexivity|].
  apply andb_true_iff in H. destruct H as [H1 H2]. f_equal; [now apply Hf|now apply IH].
Qed.

Lemma str_eqb_sound x y : String.eqb x y = true -> x = y.
Proof. apply String.eqb_eq. Qed.

Lemma obj_eqb_sound a b : obj_eqb a b = true -> a = b.
Proof.
  unfold obj_eqb. intros H. repeat (apply andb_true_iff in H; destruct H as [H ?]).
  destruct a as [k1 e1 r1 c1 o1 t1 d1], b as [k2 e2 r2 c2 o2 t2 d2]; cbn in *.
  f_equal.
  - destruct k1, k2; cbn in H; congruence.
  - destruct e1, e2; cbn in *; congruence.
  - now apply Bool.eqb_prop.
  - now apply (list_eqb_sound _ str_eqb_sound).
  - now apply (list_eqb_sound _ str_eqb_sound).
  - now apply String.eqb_eq.
  - now apply N.eqb_eq.
Qed.

Lemma cat_eqb_sound a b : cat_eqb a b = true -> a = b.
Proof.
  unfold cat_eqb. intros H. apply andb_true_iff in H. destruct H as [H1 H2].
  destruct a as [o1 r1], b as [o2 r2]; cbn in *. f_equal.
  - apply (list_eqb_sound _) in H1; [exact H1|].
    intros [n1 x1] [n2 x2] H. cbn in H. apply andb_true_iff in H. destruct H as [Ha Hb].
    apply String.eqb_eq in Ha. apply obj_eqb_sound in Hb. congruence.
  - apply (list_eqb_sound _) in H2; [exact H2|].
    intros [a1 b1] [a2 b2] H. unfold row_eqb in H. cbn in H. apply andb_true_iff in H. destruct H as [Ha Hb].
    apply String.eqb_eq in Ha. apply String.eqb_eq in Hb. congruence.
Qed.

(* ------------------------------------------------------------------ the observation oracle accepts every model log *)
(* omon (the oracle checks/c18.py evaluates on the call logs of the real Update, scripts identified by
   content) never rejects a log the model can produce: so a rejection of an observed log is either a
   property violation or a model/implementation mismatch, never an artefact of the oracle. *)
Lemma stream_of_k_k k : stream_of_k (stream_k k) = Some k.
Proof. destruct k; reflexivity. Qed.

Section ObsProofs.
  Variables (cat stmt : Type).
  Variable exec : stmt -> cat -> option cat.
  Variable pexec : list bool -> stmt -> cat -> cat.
  Variable scripts : stream -> list stmt.
  Variable sids : stream -> list N.
  Hypothesis sids_len : forall k, List.length (sids k) = List.length (scripts k).
  Hypothesis sids_nonzero : forall k i, i < List.length (sids k) -> sid_at sids k i <> 0%N.

  Notation db := (db cat).
  Notation absl l := (map (abs_event sids) l).
  Notation omon_run := (omon_run sids).
  Notation omon_step := (omon_step sids).
  Notation len k := (List.length (scripts k)).

  Definition OLink (d : db) (m : omst) : Prop := forall k, om_rec m k <= d_vers d k /\ d_vers d k <= om_app m k.

  Lemma omon_run_app m l1 l2 :
    omon_run m (l1 ++ l2) = match omon_run m l1 with Some a => omon_run a l2 | None => None end.
  Proof. revert m; induction l1 as [|e l1 IH]; intros m; cbn; [reflexivity|]. destruct (omon_step m e); auto. Qed.

  Lemma existsb_nth_skipn_firstn : forall (l : list N) r v a, r <= v -> v < a -> v < List.length l ->
    existsb (N.eqb (nth v l 0%N)) (skipn r (firstn a l)) = true.
  Proof.
    induction l as [|x l IH]; intros r v a Hrv Hva Hvl; cbn in Hvl; [lia|].
    destruct a as [|a]; [lia|]. destruct v as [|v].
    - assert (r = 0) by lia. subst r. cbn. now rewrite N.eqb_refl.
    - destruct r as [|r]; cbn [firstn skipn nth].
      + cbn [existsb]. pose proof (IH 0 v a ltac:(lia) ltac:(lia) ltac:(lia)) as H0. cbn [skipn] in H0.
        rewrite H0. apply orb_true_r.
      + apply IH; lia.
  Qed.

  (* a script event of stream k at index v, in a state where v is not recorded yet and at most applied *)
  Lemma omon_script k v r (m : omst) : om_cur m = Some k -> om_rec m k <= v -> v <= om_app m k -> v < len k ->
    exists m', omon_step m (OScript (sid_at sids k v) r) = Some m' /\ om_cur m' = Some k /\ om_rec m' = om_rec m /\
               (forall k', om_app m k' <= om_app m' k') /\ (res_applied r = true -> S v <= om_app m' k).
  Proof.
    intros Hcur Hrec Hle Hlt. cbn [Migrate.omon_step]. destruct (res_reached r) eqn:Rr.
    2:{ exists m. split; [reflexivity|]. split; [exact Hcur|]. split; [reflexivity|]. split; [auto|].
        destruct r; cbn in *; discriminate. }
    rewrite Hcur. rewrite <- sids_len in Hlt.
    assert (Hnz : N.eqb (sid_at sids k v) 0 = false) by (apply N.eqb_neq, sids_nonzero, Hlt).
    rewrite Hnz. cbn [negb]. rewrite !andb_true_r.
    destruct ((om_app m k <? List.length (sids k)) && N.eqb (sid_at sids k (om_app m k)) (sid_at sids k v)) eqn:B.
    - destruct (res_applied r) eqn:A.
      + eexists. split; [reflexivity|]. cbn [om_cur om_app om_rec]. split; [reflexivity|]. split; [reflexivity|]. split.
        * intros k'. destruct (stream_eqb k' k) eqn:E; [apply stream_eqb_eq in E; subst; lia|lia].
        * intros _. rewrite stream_eqb_refl. lia.
      + exists m. split; [reflexivity|]. split; [exact Hcur|]. split; [reflexivity|]. split; [auto|discriminate].
    - assert (Hgt : v < om_app m k).
      { destruct (Nat.eq_dec v (om_app m k)) as [He|Hne]; [|lia]. exfalso. rewrite <- He in B.
        rewrite N.eqb_refl, andb_true_r in B. apply Nat.ltb_ge in B. lia. }
      unfold sid_at at 1. rewrite (existsb_nth_skipn_firstn _ _ _ _ Hrec Hgt Hlt).
      exists m. split; [reflexivity|]. split; [exact Hcur|]. split; [reflexivity|]. split; [auto|intros _; lia].
  Qed.

  Definition obump_rec (m : omst) (k : stream) (v : nat) : omst :=
    {| om_cur := om_cur m; om_app := om_app m;
       om_rec := fun k' => if stream_eqb k' k then Nat.max (om_rec m k') v else om_rec m k' |}.

  Lemma omon_insver k v r (m : omst) : v <= om_app m k ->
    omon_step m (OInsVer (stream_k k) (N.of_nat v) r) = Some (if res_applied r then obump_rec m k v else m).
  Proof.
    intros H. cbn [Migrate.omon_step]. rewrite stream_of_k_k, Nat2N.id.
    apply Nat.leb_le in H. rewrite H. destruct (res_applied r); reflexivity.
  Qed.

  Lemma loop_omon k : forall n os (d : db) m, n + d_vers d k = len k -> om_cur m = Some k -> OLink d m ->
    let r := loop cat stmt exec pexec k (skipn (d_vers d k) (scripts k)) (d_vers d k) os d in
    exists m', omon_run m (absl (r_log r)) = Some m' /\ OLink (r_db r) m'.
  Proof.
    induction n as [|n IH]; intros os d m Hn Hcur HL.
    - rewrite skipn_all2 by lia. cbn. eauto.
    - rewrite skipn_nth. destruct (nth_error (scripts k) (d_vers d k)) as [x|] eqn:Hx.
      2:{ apply nth_error_None in Hx. lia. }
      assert (Hlt : d_vers d k < len k) by (apply nth_error_Some; congruence).
      cbn [Migrate.loop].
      destruct (do_call cat (o_hd os) (eff_script cat stmt exec x) (peff_script cat stmt pexec x) d) as [d1 r1] eqn:E1.
      destruct (HL k) as [Hrec Hle].
      destruct (omon_script k (d_vers d k) r1 m Hcur Hrec Hle Hlt) as (m1 & Hs1 & Hcur1 & Hrec1 & Hmono & Happ).
      assert (Hv1 : d_vers d1 = d_vers d) by (destruct (script_call_inv _ _ _ _ _ _ _ _ _ E1) as (Hv & _); exact Hv).
      assert (HL1 : OLink d1 m1).
      { intros k'. rewrite Hv1, Hrec1. destruct (HL k') as [Ha Hb]. specialize (Hmono k'). lia. }
      destruct (res_ok r1) eqn:R1.
      + specialize (Happ (res_ok_applied _ R1)).
        destruct (do_call cat (o_hd (tl os)) (eff_setver cat k (S (d_vers d k))) (peff_none cat) d1) as [d2 r2] eqn:E2.
        set (m2 := if res_applied r2 then obump_rec m1 k (S (d_vers d k)) else m1).
        assert (Hcur2 : om_cur m2 = Some k) by (unfold m2, obump_rec; destruct (res_applied r2); exact Hcur1).
        assert (HL2 : OLink d2 m2 /\ (res_ok r2 = true -> d_vers d2 k = S (d_vers d k))).
        { assert (Hap : forall d', eff_setver cat k (S (d_vers d k)) d1 = Some d' ->
                         OLink d' (obump_rec m1 k (S (d_vers d k))) /\ d_vers d' k = S (d_vers d k)).
          { intros d' He. apply eff_setver_inv in He. destruct He as (_ & _ & _ & Hk & Hoth).
            assert (Hk' : d_vers d' k = S (d_vers d k)) by (rewrite Hk, Hv1; lia).
            split; [|exact Hk']. intros k'. unfold obump_rec. cbn [om_app om_rec].
            destruct (stream_eqb k' k) eqn:Ek.
            - apply stream_eqb_eq in Ek. subst k'. rewrite Hk', Hrec1. lia.
            - rewrite Hoth; [apply HL1|intros ->; rewrite stream_eqb_refl in Ek; discriminate]. }
          unfold m2. destruct (do_call_inv _ _ _ _ _ _ E2) as [[-> He]|[[-> He]|[Hn' ->]]]; cbn [res_applied res_ok].
          - destruct (Hap _ He). auto.
          - destruct (Hap _ He). split; [assumption|discriminate].
          - rewrite Hn'. split; [exact HL1|]. intros Hok. rewrite (res_ok_applied _ Hok) in Hn'. discriminate. }
        destruct HL2 as [HL2 Hd2k].
        destruct (res_ok r2) eqn:R2.
        * specialize (Hd2k eq_refl).
          assert (Hn2 : n + d_vers d2 k = len k) by lia.
          destruct (IH (tl (tl os)) d2 m2 Hn2 Hcur2 HL2) as (m' & Hm & HL'). rewrite Hd2k in Hm, HL'.
          cbn [r_log r_db map abs_event Migrate.omon_run]. rewrite Hs1, (omon_insver _ _ _ _ Happ). fold m2. eauto.
        * cbn [r_log r_db map abs_event Migrate.omon_run]. rewrite Hs1, (omon_insver _ _ _ _ Happ). fold m2. eauto.
      + cbn [r_log r_db map abs_event Migrate.omon_run]. rewrite Hs1. eauto.
  Qed.

  Lemma prelude_omon c k os (d : db) m :
    let p := prelude cat c k os d in
    exists m', omon_run m (absl (r_log p)) = Some m' /\ om_app m' = om_app m /\ om_rec m' = om_rec m /\
               (r_ok p = true -> om_cur m' = Some k).
  Proof.
    unfold Migrate.prelude.
    destruct (do_call cat (o_hd os) (eff_create_ver cat) (peff_none cat) d) as [d1 r1].
    destruct (res_ok r1); cbn [negb].
    2:{ cbn. eexists. split; [reflexivity|]. split; [reflexivity|]. split; [reflexivity|discriminate]. }
    destruct (clustered c).
    - destruct (do_call cat (o_hd (tl os)) (eff_create_vd cat) (peff_none cat) d1) as [d2 r2].
      destruct (res_ok r2); cbn [negb].
      2:{ cbn. eexists. split; [reflexivity|]. split; [reflexivity|]. split; [reflexivity|discriminate]. }
      destruct (do_call cat (o_hd (tl (tl os))) (eff_read cat c) (peff_none cat) d2) as [d3 r3].
      cbn [negb r_log r_ok map app abs_event Migrate.omon_run Migrate.omon_step]. rewrite stream_of_k_k.
      eexists. split; [reflexivity|]. cbn. auto.
    - destruct (do_call cat (o_hd (tl os)) (eff_read cat c) (peff_none cat) d1) as [d3 r3].
      cbn [negb r_log r_ok map app abs_event Migrate.omon_run Migrate.omon_step]. rewrite stream_of_k_k.
      eexists. split; [reflexivity|]. cbn. auto.
  Qed.

  Lemma us_omon c k os (d : db) m : OLink d m ->
    let r := us cat stmt exec pexec scripts c k os d in
    exists m', omon_run m (absl (r_log r)) = Some m' /\ OLink (r_db r) m'.
  Proof.
    intros HL. unfold Migrate.us.
    destruct (prelude_props cat c k os d) as (_ & Hv & _ & _ & _ & _).
    destruct (prelude_omon c k os d m) as (m1 & Hm1 & Happ1 & Hrec1 & Hcur1).
    set (p := prelude cat c k os d) in *.
    assert (HLp : OLink (r_db p) m1) by (intros k'; rewrite Hv, Happ1, Hrec1; apply HL).
    destruct (r_ok p) eqn:Hok.
    - cbn [r_log r_db]. rewrite map_app, omon_run_app, Hm1.
      destruct (le_lt_dec (len k) (d_vers (r_db p) k)) as [Hge|Hlt].
      + rewrite skipn_all2 by exact Hge. cbn. eauto.
      + assert (Hn : (len k - d_vers (r_db p) k) + d_vers (r_db p) k = len k) by lia.
        exact (loop_omon k _ (r_os p) (r_db p) m1 Hn (Hcur1 eq_refl) HLp).
    - eauto.
  Qed.

  Lemma run_streams_omon c : forall ks os (d : db) m, OLink d m ->
    let r := run_streams cat stmt exec pexec scripts c ks os d in
    exists m', omon_run m (absl (r_log r)) = Some m' /\ OLink (r_db r) m'.
  Proof.
    induction ks as [|k ks IH]; intros os d m HL; cbn [Migrate.run_streams].
    - cbn. eauto.
    - destruct (us_omon c k os d m HL) as (m1 & Hm1 & HL1).
      destruct (r_ok (us cat stmt exec pexec scripts c k os d)).
      + destruct (IH (r_os (us cat stmt exec pexec scripts c k os d)) (r_db (us cat stmt exec pexec scripts c k os d)) m1 HL1) as (m2 & Hm2 & HL2).
        cbn [r_log r_db]. rewrite map_app, omon_run_app, Hm1. eauto.
      + eauto.
  Qed.

  Lemma multi_run_omon c : forall runs (d : db) m, OLink d m ->
    exists m', omon_run m (absl (snd (multi_run cat stmt exec pexec scripts c runs d))) = Some m' /\
               OLink (fst (multi_run cat stmt exec pexec scripts c runs d)) m'.
  Proof.
    induction runs as [|os runs IH]; intros d m HL; cbn [Migrate.multi_run].
    - cbn. eauto.
    - destruct (run_streams_omon c (streams_of c) os d m HL) as (m1 & Hm1 & HL1).
      fold (update cat stmt exec pexec scripts c os d) in Hm1, HL1.
      destruct (IH (r_db (update cat stmt exec pexec scripts c os d)) m1 HL1) as (m2 & Hm2 & HL2).
      destruct (multi_run cat stmt exec pexec scripts c runs (r_db (update cat stmt exec pexec scripts c os d))) as [d' l].
      cbn [fst snd] in *. rewrite map_app, omon_run_app, Hm1. eauto.
  Qed.

  Theorem oracle_accepts_model_logs c runs c0 :
    omon_ok sids (absl (snd (multi_run cat stmt exec pexec scripts c runs (db0 cat c0)))) = true.
  Proof.
    unfold omon_ok.
    destruct (multi_run_omon c runs (db0 cat c0) {| om_cur := None; om_app := fun _ => 0; om_rec := fun _ => 0 |}) as (m' & Hm & _).
    - intros k. cbn. lia.
    - now rewrite Hm.
  Qed.
End ObsProofs.
