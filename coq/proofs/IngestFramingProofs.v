(* Proofs for property C05 over model/IngestFraming.v *)
From Coq Require Import List String Ascii ZArith Bool Lia.
From Qryn Require Import model.IngestRobust model.IngestPipe.
From Qryn Require Import model.IngestFraming.
Import ListNotations.
Local Open Scope list_scope.
Local Open Scope Z_scope.

(* ------------------------------------------------------------------------------------------ *)
(** * 1. helpers.LimitDecoded *)

Lemma under_read_bounds : forall rem k chunk, 0 <= k -> 0 <= fst (under_read rem k chunk) <= k.
Proof.
  intros rem k chunk Hk. unfold under_read.
  destruct (chunk <=? 0) eqn:Hc; [cbn; lia|]. destruct (rem <=? 0) eqn:Hr; [cbn; lia|]. cbn [fst]. lia.
Qed.

Lemma under_read_le_rem : forall rem k chunk, 0 <= rem -> fst (under_read rem k chunk) <= rem.
Proof.
  intros rem k chunk Hr. unfold under_read.
  destruct (chunk <=? 0); [cbn; lia|]. destruct (rem <=? 0); [cbn; lia|]. cbn [fst]. lia.
Qed.

(* one Read: never negative, never beyond what is left of the limit; the counter stays >= -1; the data position moves by
   what the decompressor produced (one byte more than delivered when the limit is crossed) *)
Lemma lim_read_step : forall s plen chunk, -1 <= l_left s -> 0 <= plen ->
  let '((n, _), s') := lim_read s plen chunk in
  0 <= n <= Z.max 0 (l_left s) /\ -1 <= l_left s' /\ n <= Z.max 0 (l_left s) - Z.max 0 (l_left s') /\
  l_rem s - l_rem s' = l_left s - l_left s' /\ n <= l_rem s - l_rem s'.
Proof.
  intros s plen chunk Hl Hp. unfold lim_read. destruct (l_left s <? 0) eqn:Hneg.
  - apply Z.ltb_lt in Hneg. cbn. lia.
  - apply Z.ltb_ge in Hneg.
    set (k := if plen >? l_left s + 1 then l_left s + 1 else plen).
    assert (Hk : 0 <= k <= l_left s + 1) by (subst k; destruct (plen >? l_left s + 1) eqn:E; lia).
    pose proof (under_read_bounds (l_rem s) k chunk ltac:(lia)) as Hb.
    destruct (under_read (l_rem s) k chunk) as [n e]. cbn [fst l_left l_rem] in *.
    destruct (l_left s - n <? 0) eqn:Hover; [apply Z.ltb_lt in Hover|apply Z.ltb_ge in Hover]; cbn [fst l_left l_rem]; lia.
Qed.

Definition calls_ok (calls : list (Z * Z)) : Prop := Forall (fun c => 0 <= fst c) calls.

Lemma lim_run_delivered : forall calls s, calls_ok calls -> -1 <= l_left s ->
  0 <= delivered (lim_run s calls) <= Z.max 0 (l_left s).
Proof.
  induction calls as [|[plen chunk] rest IH]; intros s Hc Hl; cbn [lim_run delivered fold_right]; [lia|].
  inversion Hc as [|? ? Hp Hrest]; subst. cbn [fst] in Hp.
  pose proof (lim_read_step s plen chunk Hl Hp) as Hs.
  destruct (lim_read s plen chunk) as [[n e] s']. destruct Hs as (Hn & Hge & Hd & _).
  cbn [delivered fold_right fst]. specialize (IH s' Hrest Hge). unfold delivered in IH. lia.
Qed.

(* whatever the consumer asks for and whatever the decompressor does, at most `limit` decoded bytes come out *)
Lemma limited_reader_bound : forall limit decoded calls, 0 <= limit -> calls_ok calls ->
  0 <= delivered (lim_run (lim_init limit decoded) calls) <= limit.
Proof.
  intros limit decoded calls Hl Hc. pose proof (lim_run_delivered calls (lim_init limit decoded) Hc) as H. cbn [lim_init l_left] in H. lia.
Qed.

(* a body within the limit is read exactly as without the limiter *)
Lemma lim_run_transparent : forall calls s, calls_ok calls -> 0 <= l_rem s <= l_left s ->
  lim_run s calls = under_run (l_rem s) calls.
Proof.
  induction calls as [|[plen chunk] rest IH]; intros s Hc Hs; [reflexivity|].
  inversion Hc as [|? ? Hp Hrest]; subst. cbn [fst] in Hp. cbn [lim_run under_run].
  unfold lim_read. destruct (l_left s <? 0) eqn:Hneg; [apply Z.ltb_lt in Hneg; lia|].
  assert (Heq : under_read (l_rem s) (if plen >? l_left s + 1 then l_left s + 1 else plen) chunk = under_read (l_rem s) plen chunk).
  { unfold under_read. destruct (chunk <=? 0); [reflexivity|]. destruct (l_rem s <=? 0) eqn:Hr; [reflexivity|].
    apply Z.leb_gt in Hr. destruct (plen >? l_left s + 1) eqn:E; [|reflexivity]. f_equal. lia. }
  rewrite Heq. pose proof (under_read_le_rem (l_rem s) plen chunk ltac:(lia)) as Hle.
  pose proof (under_read_bounds (l_rem s) plen chunk Hp) as Hb.
  destruct (under_read (l_rem s) plen chunk) as [n e] eqn:Hu. cbn [fst l_left] in *.
  destruct (l_left s - n <? 0) eqn:Hover; [apply Z.ltb_lt in Hover; lia|]. f_equal.
  rewrite (IH _ Hrest); cbn [l_rem l_left]; [reflexivity|lia].
Qed.

Lemma limited_reader_transparent : forall limit decoded calls, calls_ok calls -> 0 <= decoded <= limit ->
  lim_run (lim_init limit decoded) calls = under_run decoded calls.
Proof. intros. apply (lim_run_transparent calls (lim_init limit decoded)); cbn; assumption. Qed.

(* io.ReadAll over the limiter *)
Definition all_inv (s : lim_st) (limit decoded acc : Z) : Prop :=
  l_left s = limit - acc /\ l_rem s = decoded - acc /\ 0 <= acc /\ acc <= decoded /\ acc <= limit.

Lemma read_all_inv : forall calls s limit decoded acc, calls_ok calls -> 0 <= limit -> 0 <= decoded ->
  all_inv s limit decoded acc ->
  match read_all s calls acc with
  | AllOk n => n = decoded /\ decoded <= limit
  | AllErr ETooLong n => n = limit /\ limit < decoded
  | AllErr EUnder n => n <= Z.min decoded limit
  | AllErr _ _ => False
  | AllMore n => n <= Z.min decoded limit
  end.
Proof.
  induction calls as [|[plen chunk] rest IH]; intros s limit decoded acc Hc Hl Hd (H1 & H2 & H3 & H4 & H5); cbn [read_all]; [lia|].
  inversion Hc as [|? ? Hp Hrest]; subst. cbn [fst] in Hp.
  unfold lim_read. destruct (l_left s <? 0) eqn:Hneg.
  - apply Z.ltb_lt in Hneg. lia.
  - apply Z.ltb_ge in Hneg.
    set (k := if plen >? l_left s + 1 then l_left s + 1 else plen).
    assert (Hk : 0 <= k <= l_left s + 1) by (subst k; destruct (plen >? l_left s + 1) eqn:E; lia).
    unfold under_read. destruct (chunk <=? 0) eqn:Hch.
    + cbn [fst l_left]. replace (l_left s - 0 <? 0) with false by (symmetry; apply Z.ltb_ge; lia). lia.
    + destruct (l_rem s <=? 0) eqn:Hr.
      * apply Z.leb_le in Hr. cbn [fst l_left]. replace (l_left s - 0 <? 0) with false by (symmetry; apply Z.ltb_ge; lia). lia.
      * apply Z.leb_gt in Hr. cbn [fst l_left].
        destruct (l_left s - Z.min (Z.min k chunk) (l_rem s) <? 0) eqn:Hover.
        -- apply Z.ltb_lt in Hover. apply Z.leb_gt in Hch. lia.
        -- apply Z.ltb_ge in Hover. apply IH; try assumption. unfold all_inv. cbn [l_left l_rem]. apply Z.leb_gt in Hch. lia.
Qed.

(* ReadAll returns the whole body iff it is within the limit; beyond it, exactly `limit` bytes were buffered when the 400
   error came; a corrupt stream or an interrupted loop never buffered more than min(decoded, limit) *)
Lemma read_all_result : forall limit decoded calls, calls_ok calls -> 0 <= limit -> 0 <= decoded ->
  match read_all (lim_init limit decoded) calls 0 with
  | AllOk n => n = decoded /\ decoded <= limit
  | AllErr ETooLong n => n = limit /\ limit < decoded
  | AllErr EUnder n => n <= Z.min decoded limit
  | AllErr _ _ => False
  | AllMore n => n <= Z.min decoded limit
  end.
Proof.
  intros limit decoded calls Hc Hl Hd. apply read_all_inv; try assumption. unfold all_inv, lim_init. cbn. lia.
Qed.

(* progress: calls that offer room (len(p) >= 1) to a decompressor that makes progress (chunk >= 1) end the loop after at
   most min(decoded, limit) + 2 calls *)
Definition calls_progress (calls : list (Z * Z)) : Prop := Forall (fun c => 1 <= fst c /\ 1 <= snd c) calls.

Lemma read_all_progress : forall calls s acc, calls_progress calls -> -1 <= l_left s -> 0 <= l_rem s ->
  Z.min (l_rem s) (l_left s + 1) + 1 < Z.of_nat (List.length calls) ->
  match read_all s calls acc with AllMore _ => False | _ => True end.
Proof.
  induction calls as [|[plen chunk] rest IH]; intros s acc Hc Hl Hr Hlen; cbn [read_all].
  - cbn [List.length] in Hlen. lia.
  - inversion Hc as [|? ? [Hp Hch] Hrest]; subst. cbn [fst snd] in Hp, Hch.
    unfold lim_read. destruct (l_left s <? 0) eqn:Hneg; [exact I|]. apply Z.ltb_ge in Hneg.
    unfold under_read. destruct (chunk <=? 0) eqn:E; [apply Z.leb_le in E; lia|].
    destruct (l_rem s <=? 0) eqn:Hr0.
    + cbn [fst l_left]. replace (l_left s - 0 <? 0) with false by (symmetry; apply Z.ltb_ge; lia). exact I.
    + apply Z.leb_gt in Hr0. cbn [fst l_left].
      set (k := if plen >? l_left s + 1 then l_left s + 1 else plen).
      assert (Hk : 1 <= k <= l_left s + 1) by (subst k; destruct (plen >? l_left s + 1) eqn:E2; lia).
      destruct (l_left s - Z.min (Z.min k chunk) (l_rem s) <? 0) eqn:Hover; [exact I|]. apply Z.ltb_ge in Hover.
      apply IH; try assumption; cbn [l_left l_rem]; try lia.
      cbn [List.length] in Hlen. rewrite Nat2Z.inj_succ in Hlen. lia.
Qed.

Lemma read_all_terminates : forall limit decoded calls, calls_progress calls -> 0 <= limit -> 0 <= decoded ->
  Z.min decoded (limit + 1) + 1 < Z.of_nat (List.length calls) ->
  match read_all (lim_init limit decoded) calls 0 with AllMore _ => False | _ => True end.
Proof. intros. apply read_all_progress; cbn; try assumption; lia. Qed.

(* the decoded size a request can make the server read no longer depends on the compression ratio *)
Lemma bytes_read_limited_bound : forall ce body decoded limit, 0 <= body -> 0 <= limit ->
  bytes_read_limited ce body decoded limit <= Z.max body limit.
Proof. intros ce body decoded limit Hb Hl. unfold bytes_read_limited. destruct (String.eqb ce ""); lia. Qed.

(* fourth session: by the limit alone, whatever the Content-Encoding (none included) and the size of the body *)
Lemma bytes_read_limited_by_limit : forall ce body decoded limit, bytes_read_limited ce body decoded limit <= limit.
Proof. intros. unfold bytes_read_limited. lia. Qed.
(* the reader of the third session let a body without Content-Encoding through whole *)
Lemma bytes_read_v3_plain_unbounded : forall limit, 0 <= limit -> exists body, limit < bytes_read_limited_v3 "" body body limit.
Proof. intros limit H. exists (limit + 1). cbn. lia. Qed.

(* ... so the oracle's allowance for a request is bounded by its wire size and the operator's limit alone *)
Lemma served_kb_bound : forall ob, served_kb ob <= Z.max (ob_body_kb ob) (ob_limit_kb ob).
Proof. intros ob. unfold served_kb, served_kb_v3. destruct (0 <? ob_limit_kb ob) eqn:E; [apply Z.ltb_lt in E|]; lia. Qed.
Lemma served_kb_by_limit : forall ob, 0 < ob_limit_kb ob -> served_kb ob <= ob_limit_kb ob.
Proof. intros ob H. unfold served_kb. apply Z.ltb_lt in H. rewrite H. lia. Qed.

(* before the fix the routes read the decompressor itself: one Read with room for everything delivers everything,
   the same call through the limiter stops at the limit *)
Lemma unlimited_reader_delivers_all : forall decoded, 0 < decoded ->
  delivered (under_run decoded [(decoded, decoded)]) = decoded.
Proof.
  intros decoded Hd. cbn [under_run delivered fold_right]. unfold under_read.
  destruct (decoded <=? 0) eqn:E; [apply Z.leb_le in E; lia|]. cbn [fst]. lia.
Qed.
Lemma limited_reader_stops : forall limit decoded, 0 <= limit -> limit < decoded ->
  lim_run (lim_init limit decoded) [(decoded, decoded)] = [(limit, ETooLong)].
Proof.
  intros limit decoded Hl Hd. cbn [lim_run]. unfold lim_read, lim_init. cbn [l_left l_rem].
  destruct (limit <? 0) eqn:E; [apply Z.ltb_lt in E; lia|].
  assert (Hu : under_read decoded (if decoded >? limit + 1 then limit + 1 else decoded) decoded = (limit + 1, ENil)).
  { unfold under_read. destruct (decoded <=? 0) eqn:E2; [apply Z.leb_le in E2; lia|].
    destruct (decoded >? limit + 1) eqn:E1; f_equal; lia. }
  rewrite Hu. cbn [fst l_left].
  replace (limit - (limit + 1) <? 0) with true by (symmetry; apply Z.ltb_lt; lia). repeat f_equal. lia.
Qed.

(* ------------------------------------------------------------------------------------------ *)
(** * 2. The connection: a body the client does not finish *)

(* with a read deadline every client behaviour ends the wait, no later than the deadline *)
Lemma read_body_bounded : forall evs deadline need got now, 0 < deadline -> 0 <= now < deadline ->
  match read_body deadline need got now evs with
  | BodyRead t => now <= t < deadline
  | BodyAborted t => now <= t <= deadline
  | BodyWaitsForever => False
  end.
Proof.
  induction evs as [|e r IH]; intros deadline need got now Hd Hn; cbn [read_body].
  - destruct (need <=? got); [lia|]. replace (0 <? deadline) with true by (symmetry; apply Z.ltb_lt; lia). lia.
  - destruct (need <=? got); [lia|]. destruct e as [n|ms|].
    + apply IH; assumption.
    + replace (0 <? deadline) with true by (symmetry; apply Z.ltb_lt; lia). cbn [andb].
      destruct (deadline <=? now + Z.max 0 ms) eqn:E; [lia|]. apply Z.leb_gt in E.
      specialize (IH deadline need got (now + Z.max 0 ms) Hd ltac:(lia)).
      destruct (read_body deadline need got (now + Z.max 0 ms) r); lia.
    + lia.
Qed.

Lemma stalled_body_released : forall deadline need evs, 0 < deadline ->
  match read_body deadline need 0 0 evs with
  | BodyRead t => 0 <= t < deadline
  | BodyAborted t => 0 <= t <= deadline
  | BodyWaitsForever => False
  end.
Proof. intros. apply read_body_bounded; lia. Qed.

(* the zero-value server (http.Serve, before the fix): a client that sends part of the body and goes silent holds the
   handler for ever, however long one waits *)
Lemma stalled_body_held_without_deadline : forall need sent silences, 0 <= sent < need ->
  read_body 0 need 0 0 (CDeliver sent :: map CSilence silences) = BodyWaitsForever.
Proof.
  intros need sent silences Hs. cbn [read_body].
  replace (need <=? 0) with false by (symmetry; apply Z.leb_gt; lia). rewrite Z.max_r by lia. cbn [Z.add].
  generalize 0 at 2 as now. induction silences as [|ms r IH]; intros now; cbn [map read_body];
    replace (need <=? sent) with false by (symmetry; apply Z.leb_gt; lia); [reflexivity|].
  cbn [Z.ltb Z.compare andb]. apply IH.
Qed.

(* a client that delivers its body is never cut by the absence of a deadline: same answer time as the data *)
Lemma complete_body_is_read : forall deadline need now, need <= 0 -> read_body deadline need 0 now [] = BodyRead now.
Proof. intros. cbn [read_body]. replace (need <=? 0) with true by (symmetry; apply Z.leb_le; lia). reflexivity. Qed.

(* ------------------------------------------------------------------------------------------ *)
(** * 3. NDJSON framing *)

Lemma scan_lines_all : forall max ls, existsb (fun l => max <=? nl_len l) ls = false -> scan_lines max ls = (ls, false).
Proof.
  induction ls as [|l r IH]; intros H; [reflexivity|]. cbn [existsb] in H. apply orb_false_iff in H as [H1 H2].
  cbn [scan_lines]. replace (nl_len l <? max) with true by (symmetry; apply Z.ltb_lt; apply Z.leb_gt in H1; lia).
  rewrite (IH H2). reflexivity.
Qed.

Lemma scan_lines_stop : forall max ls, existsb (fun l => max <=? nl_len l) ls = true -> snd (scan_lines max ls) = true.
Proof.
  induction ls as [|l r IH]; intros H; [discriminate|]. cbn [existsb] in H. cbn [scan_lines].
  destruct (nl_len l <? max) eqn:E.
  - apply Z.ltb_lt in E. replace (max <=? nl_len l) with false in H by (symmetry; apply Z.leb_gt; lia). cbn [orb] in H.
    specialize (IH H). destruct (scan_lines max r) as [ts e]. cbn [snd] in *. exact IH.
  - reflexivity.
Qed.

(* what is handed out is a prefix of the body's lines, all of them shorter than max *)
Lemma scan_lines_prefix : forall max ls, exists rest, ls = (fst (scan_lines max ls) ++ rest)%list.
Proof.
  induction ls as [|l r [rest IH]]; [exists []; reflexivity|]. cbn [scan_lines]. destruct (nl_len l <? max).
  - destruct (scan_lines max r) as [ts e]. cbn [fst] in *. exists rest. cbn [app]. f_equal. exact IH.
  - exists (l :: r). reflexivity.
Qed.

Lemma frame_loop_all : forall ts h, existsb (fun l => negb (nl_ok l)) ts = false ->
  frame_loop true ts h = (h + Z.of_nat (List.length ts), false).
Proof.
  induction ts as [|t r IH]; intros h H; cbn [frame_loop List.length]; [f_equal; cbn; lia|].
  cbn [existsb] in H. apply orb_false_iff in H as [H1 H2]. apply negb_false_iff in H1. rewrite H1, (IH _ H2).
  f_equal. rewrite Nat2Z.inj_succ. lia.
Qed.

Lemma frame_loop_stop : forall ts h, existsb (fun l => negb (nl_ok l)) ts = true -> snd (frame_loop true ts h) = true.
Proof.
  induction ts as [|t r IH]; intros h H; [discriminate|]. cbn [existsb] in H. cbn [frame_loop].
  destruct (nl_ok t); [cbn [negb orb] in H; apply IH; exact H|reflexivity].
Qed.

Lemma existsb_orb_split : forall (A : Type) (f g : A -> bool) l,
  existsb (fun x => f x || g x) l = existsb f l || existsb g l.
Proof.
  induction l as [|x r IH]; [reflexivity|]. cbn [existsb]. rewrite IH.
  destruct (f x), (g x), (existsb f r), (existsb g r); reflexivity.
Qed.

Lemma existsb_app_false : forall (A : Type) (f : A -> bool) a b, existsb f (a ++ b)%list = false -> existsb f a = false.
Proof. intros A f a b H. rewrite existsb_app in H. apply orb_false_iff in H as [H _]. exact H. Qed.

(* a body without a framing problem: every line is handled, the request goes on *)
Lemma wellformed_body_fully_handled : forall p b, frame_ok p = true -> nd_malformed (fp_max_token p) b = false ->
  frame_run p b = FrOk (Z.of_nat (List.length (body_lines b))).
Proof.
  intros p b Hp Hm. unfold frame_ok in Hp. repeat (apply andb_true_iff in Hp as [Hp ?]).
  unfold nd_malformed in Hm. apply orb_false_iff in Hm as [Hl He]. rewrite existsb_orb_split in Hl.
  apply orb_false_iff in Hl as [Hok Hlen].
  unfold frame_run, scan. fold (body_lines b). rewrite (scan_lines_all _ _ Hlen).
  match goal with H : fp_line_err_returns p = true |- _ => rewrite H end.
  rewrite (frame_loop_all _ 0 Hok). destruct (nb_end b); [reflexivity|discriminate].
Qed.

(* every framing problem ends the request with an error: a refused line, a line of max bytes or more, a failing reader *)
Lemma malformed_body_is_an_error : forall p b, frame_ok p = true -> nd_malformed (fp_max_token p) b = true ->
  exists n, frame_run p b = FrErr n.
Proof.
  intros p b Hp Hm. unfold frame_ok in Hp. repeat (apply andb_true_iff in Hp as [Hp ?]).
  unfold frame_run, scan. fold (body_lines b).
  match goal with H : fp_line_err_returns p = true |- _ => rewrite H end.
  match goal with H : fp_checks_scan_err p = true |- _ => rewrite H end.
  destruct (existsb (fun l => fp_max_token p <=? nl_len l) (body_lines b)) eqn:Hlen.
  - pose proof (scan_lines_stop _ _ Hlen) as Hs. destruct (scan_lines (fp_max_token p) (body_lines b)) as [ts e]. cbn [snd] in Hs. subst e.
    destruct (frame_loop true ts 0) as [n stopped]. destruct stopped; eexists; reflexivity.
  - rewrite (scan_lines_all _ _ Hlen).
    destruct (existsb (fun l => negb (nl_ok l)) (body_lines b)) eqn:Hok.
    + pose proof (frame_loop_stop _ 0 Hok) as Hs. destruct (frame_loop true (body_lines b) 0) as [n stopped]. cbn [snd] in Hs. subst stopped.
      eexists; reflexivity.
    + rewrite (frame_loop_all _ 0 Hok). unfold nd_malformed in Hm. rewrite existsb_orb_split, Hok, Hlen in Hm. cbn [orb] in Hm.
      destruct (nb_end b); [discriminate|eexists; reflexivity].
Qed.

(* never a silent drop: the loop reports success only when it handled every line of the body *)
Lemma frame_ok_means_every_line_handled : forall p b n, frame_ok p = true -> frame_run p b = FrOk n ->
  n = Z.of_nat (List.length (body_lines b)) /\ nd_malformed (fp_max_token p) b = false.
Proof.
  intros p b n Hp Hr. destruct (nd_malformed (fp_max_token p) b) eqn:Hm.
  - destruct (malformed_body_is_an_error p b Hp Hm) as [k Hk]. rewrite Hk in Hr. discriminate.
  - rewrite (wellformed_body_fully_handled p b Hp Hm) in Hr. inversion Hr. split; reflexivity.
Qed.

(* the loops as they were (no Buffer call: 64 KiB tokens; no scanner.Err() check): a line of 70000 bytes ended the scan,
   it and the line after it were dropped, and Decode returned nil *)
Lemma scanner_error_was_dropped :
  frame_run frame_prog_orig {| nb_lines := [{| nl_len := 70000; nl_ok := true; nl_rows := 1 |}; {| nl_len := 20; nl_ok := true; nl_rows := 1 |}]; nb_tail := None; nb_end := EndClean |} = FrOk 0.
Proof. reflexivity. Qed.
