(* C02 round 8: the overload guard behind the appends (model/IngestGuard.v) is refuted; below its limit it is the model. *)
From Coq Require Import List NArith ZArith Bool Lia.
From Qryn Require Import model.Ingest model.PushHandler model.IngestSpec.
From Qryn Require Import model.IngestGuard.
Import ListNotations.

Notation demo_run step := (run_with step (svc_init KSamples 0 0) [] overload_demo).

(* what the client of request 4 is told, and where its row went *)
Lemma overload_demo_events :
  option_map snd (demo_run (guard_step bandwidth_limit)) = Some
  [ EReq 0 (PEnv 1) KSamples (row1 1) 10 None;
    EDial 0 true; ESwap 0;
    ESend 0 KSamples (table_of 5 [1%N]);
    EReq 0 (PEnv 2) KSamples (row1 2) (mib 20) None;
    EReq 0 (PEnv 3) KSamples (row1 3) (mib 20) None;
    EReq 0 (PEnv 4) KSamples (row1 4) (mib 20) (Some false);    (* refused at once: [SVC006] *)
    EResolve (PEnv 4) KSamples (row1 4) false;
    EDone 0 true;
    EResolve (PEnv 1) KSamples (row1 1) true;
    ESwap 0;
    ESend 0 KSamples (table_of 5 [2%N; 3%N; 4%N]);              (* ... and its row 4 is in the next block *)
    EDone 0 true;
    EResolve (PEnv 2) KSamples (row1 2) true;
    EResolve (PEnv 3) KSamples (row1 3) true ].
Proof. vm_compute. reflexivity. Qed.

Definition guard_events : list event :=
  match demo_run (guard_step bandwidth_limit) with Some (_, es) => es | None => [] end.
Lemma overload_demo_runs : exists x, demo_run (guard_step bandwidth_limit) = Some (x, guard_events).
Proof. vm_compute. eexists. reflexivity. Qed.

Definition model_events : list event :=
  match demo_run sstep with Some (_, es) => es | None => [] end.
Lemma model_demo_runs : exists y, demo_run sstep = Some (y, model_events).
Proof. vm_compute. eexists. reflexivity. Qed.

Lemma model_events_accepted : exists m, run_mon (smon_step MTable) (smon_init 1) model_events = Some m.
Proof. vm_compute. eexists. reflexivity. Qed.

Theorem overload_guard_refuted :
  exists tr x es,
    run_with (guard_step bandwidth_limit) (svc_init KSamples 0 0) [] tr = Some (x, es) /\
    forallb (sact_wf KSamples) tr = true /\                                   (* every request is a table *)
    run_mon (smon_step MTable) (smon_init 1) es = None /\                     (* a block is not the table of its waiters' rows *)
    run_mon (smon_step MClean) (smon_init 1) es = None /\                     (* ... nor the appends of exactly its waiters *)
    (exists y es', run_with sstep (svc_init KSamples 0 0) [] tr = Some (y, es') /\   (* the same actions on the unchanged model: accepted *)
                   (exists m, run_mon (smon_step MTable) (smon_init 1) es' = Some m)).
Proof.
  exists overload_demo. destruct overload_demo_runs as [x H]. exists x, guard_events.
  split; [exact H|]. split; [vm_compute; reflexivity|]. split; [vm_compute; reflexivity|]. split; [vm_compute; reflexivity|].
  destruct model_demo_runs as [y H']. exists y, model_events. split; [exact H'|].
  exact model_events_accepted.
Qed.

(* As long as no request brings the accounted size over the limit, the variant is the model: step by step ... *)
Theorem guard_below_the_limit_is_the_model : forall lim s a,
  (forall p r sz s' vs, a = SRequest p r sz -> sstep s a = Some (s', vs) -> (size s' <= lim)%Z) ->
  guard_step lim s a = sstep s a.
Proof.
  intros lim s a H. destruct a; try reflexivity.
  unfold guard_step. destruct (sstep s (SRequest p r sz)) as [[s' vs]|] eqn:E; [|reflexivity].
  destruct vs; [|reflexivity].
  specialize (H p r sz s' [] eq_refl eq_refl).
  destruct (Z.ltb_spec lim (size s')); [lia|reflexivity].
Qed.

(* ... and run by run: a run of the model in which the accounted size never exceeds the limit is the variant's run, same events *)
Fixpoint sizes_below (lim : Z) (s : svc) (tr : list sact) : Prop :=
  match tr with
  | [] => True
  | a :: tr' => match sstep s a with
                | Some (s', _) => (size s' <= lim)%Z /\ sizes_below lim s' tr'
                | None => True
                end
  end.

Theorem guard_runs_below_the_limit_are_model_runs : forall lim tr s st,
  sizes_below lim s tr -> run_with (guard_step lim) s st tr = run_with sstep s st tr.
Proof.
  intros lim tr. induction tr as [|a tr IH]; intros s st H; [reflexivity|].
  cbn [run_with sizes_below] in *.
  assert (G : guard_step lim s a = sstep s a).
  { apply guard_below_the_limit_is_the_model. intros p r sz s' vs -> E. rewrite E in H. tauto. }
  rewrite G. destruct (sstep s a) as [[s' vs]|]; [|reflexivity].
  destruct H as [_ H]. destruct (apply_sevs 0 (kd s) st vs) as [st' es]. now rewrite IH.
Qed.

(* the hypothesis is satisfiable by the demo with sizes of 10 MiB (30 MiB pile up): there the variant and the model coincide *)
Definition small_demo : list sact :=
  map (fun a => match a with SRequest p r sz => SRequest p r (Z.min sz (mib 10)) | _ => a end) overload_demo.
Example small_demo_is_below : sizes_below bandwidth_limit (svc_init KSamples 0 0) small_demo.
Proof. vm_compute. repeat split; discriminate. Qed.
Example small_demo_runs_alike :
  run_with (guard_step bandwidth_limit) (svc_init KSamples 0 0) [] small_demo = run_with sstep (svc_init KSamples 0 0) [] small_demo
  /\ exists x es, run_with sstep (svc_init KSamples 0 0) [] small_demo = Some (x, es) /\ List.length es = 15%nat.
Proof. split; [apply guard_runs_below_the_limit_are_model_runs, small_demo_is_below|]. vm_compute. do 2 eexists. split; reflexivity. Qed.

(* the guard in FRONT of processRequest: a refused request changes nothing but the flush plan, for every state and request *)
Theorem early_guard_refusal_leaves_no_cell : forall lim s p r sz s' vs,
  early_guard_step lim s (SRequest p r sz) = Some (s', vs) -> imm_of vs = Some false -> running s = true ->
  cols s' = cols s /\ results s' = results s /\ size s' = size s.
Proof.
  intros lim s p r sz s' vs H I R. unfold early_guard_step in H. rewrite R in H. cbn [andb] in H.
  destruct (Z.ltb lim (size s + sz)).
  - injection H as <- <-. cbn. repeat split.
  - cbn [sstep] in H. rewrite R in H. cbn [negb] in H.
    destruct (eff (kd s) r) as [r'|]; [|discriminate].
    destruct (Nat.eqb (length (nth (keycol (kd s)) r' [])) 0); injection H as <- <-; cbn in I; discriminate.
Qed.
Example early_guard_demo_accepted :
  exists x es, run_with (early_guard_step bandwidth_limit) (svc_init KSamples 0 0) [] overload_demo = Some (x, es) /\
               (exists m, run_mon (smon_step MTable) (smon_init 1) es = Some m) /\
               (exists m, run_mon (smon_step MClean) (smon_init 1) es = Some m) /\
               In (EReq 0 (PEnv 4) KSamples (row1 4) (mib 20) (Some false)) es.
Proof. vm_compute. do 2 eexists. split; [reflexivity|]. split; [eexists; reflexivity|]. split; [eexists; reflexivity|]. tauto. Qed.
