(* Proofs about model/Rotate.v (property C19). *)
From Coq Require Import List ZArith Bool String Ascii Lia.
From Qryn Require Import model.Rotate.
Import ListNotations.
Open Scope string_scope.
Open Scope list_scope.
Open Scope Z_scope.

(* ------------------------------------------------------------------ keys *)
Lemma key_is_djb : forall g, key g = key_spec g.
Proof. destruct g; vm_compute; reflexivity. Qed.

Lemma key_inj : forall g g', key g = key g' -> g = g'.
Proof. destruct g, g'; intro H; try reflexivity; vm_compute in H; discriminate. Qed.

Lemma key_eqb_refl g : (key g =? key g) = true.
Proof. apply Z.eqb_refl. Qed.
Lemma key_eqb_neq g g' : g' <> g -> (key g' =? key g) = false.
Proof. intro H. apply Z.eqb_neq. intro E. apply H. now apply key_inj. Qed.

(* ------------------------------------------------------------------ tables *)
Lemma table_beq_refl t : table_beq t t = true.
Proof. destruct t; reflexivity. Qed.
Lemma table_beq_neq t t' : t <> t' -> table_beq t t' = false.
Proof. destruct t, t'; intro H; try reflexivity; congruence. Qed.

(* the storage-policy groups partition the tables, and so do the TTL groups *)
Lemma tables_partition : forall g g' t,
  is_sp g = is_sp g' -> In t (tables_of g) -> In t (tables_of g') -> g = g'.
Proof.
  intros g g' t Hk H1 H2.
  destruct g, g'; try reflexivity; try discriminate Hk; destruct t; cbn in H1, H2; exfalso; intuition discriminate.
Qed.

Lemma table_min_group : forall g t, is_sp g = false -> In t (tables_of g) -> table_min t = g_min g.
Proof.
  intros g t Hk Hin. destruct g; try discriminate Hk; destruct t; cbn in Hin; try reflexivity; exfalso; intuition discriminate.
Qed.

(* ------------------------------------------------------------------ effect of single calls *)
Lemma recd_put_same d g v : recd (apply d (CPut g v)) g = v.
Proof. unfold recd. cbn. now rewrite key_eqb_refl. Qed.
Lemma recd_put_other d g g' v : g' <> g -> recd (apply d (CPut g v)) g' = recd d g'.
Proof. intro H. unfold recd. cbn. now rewrite key_eqb_neq. Qed.
Lemma val_put d g g' v t : val (apply d (CPut g v)) g' t = val d g' t.
Proof. reflexivity. Qed.
Lemma recd_alter cfg d g t g' : recd (apply d (alter_call cfg g t)) g' = recd d g'.
Proof. unfold alter_call. destruct (is_sp g); reflexivity. Qed.
Lemma val_alter_same cfg d g t : val (apply d (alter_call cfg g t)) g t = desired cfg g.
Proof.
  unfold val, alter_call, desired. destruct (is_sp g); cbn; now rewrite table_beq_refl.
Qed.
Lemma val_alter_other cfg d g t g' t' :
  In t (tables_of g) -> In t' (tables_of g') -> (g' <> g \/ t' <> t) ->
  val (apply d (alter_call cfg g t)) g' t' = val d g' t'.
Proof.
  intros Hin Hin' Hne. unfold val, alter_call.
  destruct (is_sp g) eqn:E, (is_sp g') eqn:E'; cbn; try reflexivity.
  - destruct (table_eq_dec t' t) as [->|Ht]; [|now rewrite table_beq_neq].
    exfalso. destruct Hne as [Hne|Hne]; [|congruence]. apply Hne.
    apply (tables_partition g' g t); congruence.
  - destruct (table_eq_dec t' t) as [->|Ht]; [|now rewrite table_beq_neq].
    exfalso. destruct Hne as [Hne|Hne]; [|congruence]. apply Hne.
    apply (tables_partition g' g t); congruence.
Qed.

(* ------------------------------------------------------------------ exec *)
Lemma exec_log w c : w_log (fst (exec w c)) = (c, snd (exec w c)) :: w_log w.
Proof. unfold exec. destruct (w_fault w) as [[[|k] eff]|]; reflexivity. Qed.

Lemma exec_pres (P : db -> Prop) w c :
  P (w_db w) -> P (apply (w_db w) c) -> P (w_db (fst (exec w c))).
Proof. unfold exec. destruct (w_fault w) as [[[|k] [|]]|]; cbn; auto. Qed.

Lemma exec_ok w c : snd (exec w c) = true -> w_db (fst (exec w c)) = apply (w_db w) c.
Proof. unfold exec. destruct (w_fault w) as [[[|k] eff]|]; cbn; auto; discriminate. Qed.

Lemma exec_nofault w c : w_fault w = None -> snd (exec w c) = true /\ w_fault (fst (exec w c)) = None.
Proof. unfold exec. intros ->. cbn. auto. Qed.

Lemma exec_all_inv (P : db -> Prop) : forall cs w,
  (forall d c, In c cs -> P d -> P (apply d c)) -> P (w_db w) -> P (w_db (fst (exec_all w cs))).
Proof.
  induction cs as [|c r IH]; intros w Hstep H0; cbn; [exact H0|].
  destruct (exec w c) as [w1 ok] eqn:E.
  assert (H1 : P (w_db w1)).
  { change w1 with (fst (w1, ok)). rewrite <- E. apply exec_pres; [exact H0|]. apply Hstep; [now left|exact H0]. }
  destruct ok; [|exact H1].
  apply IH; [|exact H1]. intros d c' Hin. apply Hstep. now right.
Qed.

Lemma exec_all_ok : forall cs w, snd (exec_all w cs) = true ->
  w_db (fst (exec_all w cs)) = fold_left apply cs (w_db w).
Proof.
  induction cs as [|c r IH]; intros w H; cbn in *; [reflexivity|].
  destruct (exec w c) as [w1 ok] eqn:E. destruct ok; [|discriminate].
  rewrite (IH w1 H). f_equal.
  change w1 with (fst (w1, true)). rewrite <- E. apply exec_ok. now rewrite E.
Qed.

Lemma exec_all_nofault : forall cs w, w_fault w = None ->
  snd (exec_all w cs) = true /\ w_fault (fst (exec_all w cs)) = None.
Proof.
  induction cs as [|c r IH]; intros w H; cbn; [auto|].
  destruct (exec w c) as [w1 ok] eqn:E.
  destruct (exec_nofault w c H) as [Hok Hf]. rewrite E in Hok, Hf. cbn in Hok, Hf. subst ok.
  now apply IH.
Qed.

(* the log only grows; successful exec_all logged every call as successful *)
Lemma exec_all_log : forall cs w, exists l,
  w_log (fst (exec_all w cs)) = l ++ w_log w /\
  (forall e, In e l -> In (fst e) cs) /\
  (snd (exec_all w cs) = true -> forall c, In c cs -> In (c, true) l).
Proof.
  induction cs as [|c r IH]; intros w; cbn.
  - exists []. cbn. repeat split; auto; contradiction.
  - destruct (exec w c) as [w1 ok] eqn:E.
    pose proof (exec_log w c) as HL. rewrite E in HL. cbn in HL.
    destruct ok.
    + destruct (IH w1) as [l [H1 [H2 H3]]]. exists (l ++ [(c, true)]).
      split; [|split].
      * rewrite H1, HL. now rewrite <- app_assoc.
      * intros e He. apply in_app_or in He. destruct He as [He|[<-|[]]]; [right; now apply H2|now left].
      * intros Hok c' [<-|Hin]; apply in_or_app; [right; now left|left; now apply H3].
    + exists [(c, false)]. split; [|split].
      * cbn [fst]. rewrite HL. reflexivity.
      * intros e [<-|[]]. now left.
      * discriminate.
Qed.

(* ------------------------------------------------------------------ the ALTER loop as a pure fold *)
Definition alters_for (cfg : config) (g : group) (ts : list table) : list call :=
  flat_map (fun t => if is_sp g then [alter_call cfg g t] else [CTune t; alter_call cfg g t]) ts.

Lemma alters_unfold cfg g : alters cfg g = alters_for cfg g (tables_of g).
Proof. reflexivity. Qed.

Lemma fold_alters_cons cfg g a ts d :
  fold_left apply (alters_for cfg g (a :: ts)) d = fold_left apply (alters_for cfg g ts) (apply d (alter_call cfg g a)).
Proof. unfold alters_for. cbn [flat_map]. destruct (is_sp g); cbn [app fold_left]; reflexivity. Qed.

Lemma in_alters_for cfg g ts c :
  In c (alters_for cfg g ts) -> (exists t, c = CTune t) \/ (exists t, In t ts /\ c = alter_call cfg g t).
Proof.
  unfold alters_for. intro H. apply in_flat_map in H. destruct H as [t [Ht Hc]].
  destruct (is_sp g); cbn in Hc.
  - destruct Hc as [<-|[]]. right. eauto.
  - destruct Hc as [<-|[<-|[]]]; [left|right]; eauto.
Qed.

Lemma alters_set cfg g : forall ts d t,
  (forall x, In x ts -> In x (tables_of g)) -> In t (tables_of g) ->
  In t ts \/ val d g t = desired cfg g ->
  val (fold_left apply (alters_for cfg g ts) d) g t = desired cfg g.
Proof.
  induction ts as [|a ts IH]; intros d t Hsub Hin H.
  - cbn. destruct H as [[]|H]. exact H.
  - rewrite fold_alters_cons. apply IH; [intros x Hx; apply Hsub; now right|exact Hin|].
    destruct (table_eq_dec t a) as [->|Hne].
    + right. apply val_alter_same.
    + destruct H as [[->|H]|H]; [congruence|now left|right].
      rewrite val_alter_other; auto. apply Hsub. now left.
Qed.

Lemma alters_frame cfg g : forall ts d g' t',
  (forall x, In x ts -> In x (tables_of g)) -> g' <> g -> In t' (tables_of g') ->
  val (fold_left apply (alters_for cfg g ts) d) g' t' = val d g' t'.
Proof.
  induction ts as [|a ts IH]; intros d g' t' Hsub Hne Hin; [reflexivity|].
  rewrite fold_alters_cons. rewrite IH; auto; [|intros x Hx; apply Hsub; now right].
  apply val_alter_other; auto. apply Hsub. now left.
Qed.

Lemma alters_recd cfg g : forall ts d g', recd (fold_left apply (alters_for cfg g ts) d) g' = recd d g'.
Proof.
  induction ts as [|a ts IH]; intros d g'; [reflexivity|].
  rewrite fold_alters_cons, IH. apply recd_alter.
Qed.

(* ------------------------------------------------------------------ consistency *)
Lemma consistent_alter cfg d g t :
  consistent d -> recd d g = "" -> In t (tables_of g) -> consistent (apply d (alter_call cfg g t)).
Proof.
  intros Hc Hr Hin g' t' Hin' Hrec. rewrite recd_alter in *.
  destruct (group_eq_dec g' g) as [->|Hne]; [congruence|].
  rewrite val_alter_other; auto.
Qed.

Lemma consistent_put_empty d g : consistent d -> consistent (apply d (CPut g "")).
Proof.
  intros Hc g' t' Hin' Hrec. rewrite val_put.
  destruct (group_eq_dec g' g) as [->|Hne].
  - rewrite recd_put_same in Hrec. congruence.
  - rewrite recd_put_other in * by exact Hne. auto.
Qed.

Lemma consistent_put_all d g v :
  consistent d -> (forall t, In t (tables_of g) -> val d g t = v) -> consistent (apply d (CPut g v)).
Proof.
  intros Hc Hall g' t' Hin' Hrec. rewrite val_put.
  destruct (group_eq_dec g' g) as [->|Hne].
  - rewrite recd_put_same. auto.
  - rewrite recd_put_other in * by exact Hne. auto.
Qed.

(* the invariant that holds while the ALTER loop of group g runs *)
Lemma alters_keep_invariant cfg g d c :
  In c (alters cfg g) -> consistent d /\ recd d g = "" -> consistent (apply d c) /\ recd (apply d c) g = "".
Proof.
  intros Hin [Hc Hr]. rewrite alters_unfold in Hin. apply in_alters_for in Hin.
  destruct Hin as [[t ->]|[t [Ht ->]]]; [now split|].
  split; [now apply consistent_alter|now rewrite recd_alter].
Qed.

Lemma alter_and_record_consistent cfg g w :
  consistent (w_db w) -> recd (w_db w) g = "" -> consistent (w_db (fst (alter_and_record cfg g w))).
Proof.
  intros Hc Hr. unfold alter_and_record.
  destruct (exec_all w (alters cfg g)) as [w3 ok3] eqn:E.
  assert (H3 : consistent (w_db w3) /\ recd (w_db w3) g = "").
  { change w3 with (fst (w3, ok3)). rewrite <- E.
    apply (exec_all_inv (fun d => consistent d /\ recd d g = "")); [|now split].
    intros d c Hin. now apply (alters_keep_invariant cfg). }
  destruct ok3; [|cbn; tauto].
  apply exec_pres; [tauto|].
  apply consistent_put_all; [tauto|].
  intros t Ht.
  assert (D : w_db w3 = fold_left apply (alters cfg g) (w_db w)).
  { change w3 with (fst (w3, true)). rewrite <- E. apply exec_all_ok. now rewrite E. }
  rewrite D, alters_unfold. apply alters_set; auto.
Qed.

Lemma exec_get_db w g : w_db (fst (exec w (CGet g))) = w_db w.
Proof. apply (exec_pres (fun d => d = w_db w)); reflexivity. Qed.

Lemma group_op_consistent cfg g w :
  consistent (w_db w) -> consistent (w_db (fst (group_op cfg g w))).
Proof.
  intros Hc. unfold group_op.
  destruct (exec w (CGet g)) as [w1 ok1] eqn:E1.
  assert (H1 : w_db w1 = w_db w).
  { change w1 with (fst (w1, ok1)). rewrite <- E1. apply exec_get_db. }
  destruct ok1; [|cbn; now rewrite H1].
  destruct (skip cfg g (recd (w_db w) g)); [cbn; now rewrite H1|].
  unfold forget.
  destruct (String.eqb (recd (w_db w) g) "") eqn:Ev.
  - apply String.eqb_eq in Ev. apply alter_and_record_consistent; rewrite H1; auto.
  - destruct (exec w1 (CPut g "")) as [w2 ok2] eqn:E2.
    assert (H2 : consistent (w_db w2)).
    { change w2 with (fst (w2, ok2)). rewrite <- E2. apply exec_pres; rewrite H1; [exact Hc|].
      now apply consistent_put_empty. }
    destruct ok2; [|exact H2].
    apply alter_and_record_consistent; [exact H2|].
    change w2 with (fst (w2, true)). rewrite <- E2. rewrite exec_ok by (now rewrite E2).
    apply recd_put_same.
Qed.

Lemma seq_ops_consistent cfg : forall gs w,
  consistent (w_db w) -> consistent (w_db (fst (seq_ops cfg gs w))).
Proof.
  induction gs as [|g r IH]; intros w Hc; cbn; [exact Hc|].
  destruct (group_op cfg g w) as [w1 ok] eqn:E.
  assert (H1 : consistent (w_db w1)).
  { change w1 with (fst (w1, ok)). rewrite <- E. now apply group_op_consistent. }
  destruct ok; [now apply IH|exact H1].
Qed.

Lemma run_consistent cfg f d : consistent d -> consistent (run_db cfg f d).
Proof. intro Hc. unfold run_db, run, rotate. now apply seq_ops_consistent. Qed.

Lemma run_hist_consistent : forall h d, consistent d -> consistent (run_hist h d).
Proof.
  induction h as [|[cfg f] r IH]; intros d Hc; [exact Hc|].
  unfold run_hist. cbn [fold_left fst snd]. apply IH. now apply run_consistent.
Qed.

(* ------------------------------------------------------------------ what a group operation can issue *)
Definition group_call (cfg : config) (g : group) (c : call) : Prop :=
  c = CGet g \/ (exists v, c = CPut g v) \/ In c (alters cfg g).

Lemma in_alters cfg g t : In t (tables_of g) -> In (alter_call cfg g t) (alters cfg g).
Proof.
  intro H. unfold alters. apply in_flat_map. exists t. split; [exact H|].
  destruct (is_sp g); cbn; auto.
Qed.

(* any predicate on the database kept by every call of the group is kept by the group operation,
   whatever the fault *)
Lemma alter_and_record_inv cfg g (P : db -> Prop) w :
  (forall d c, group_call cfg g c -> P d -> P (apply d c)) -> P (w_db w) ->
  P (w_db (fst (alter_and_record cfg g w))).
Proof.
  intros Hstep H0. unfold alter_and_record.
  destruct (exec_all w (alters cfg g)) as [w3 ok3] eqn:E.
  assert (H3 : P (w_db w3)).
  { change w3 with (fst (w3, ok3)). rewrite <- E. apply exec_all_inv; [|exact H0].
    intros d c Hin. apply Hstep. right. now right. }
  destruct ok3; [|exact H3].
  apply exec_pres; [exact H3|]. apply Hstep; [|exact H3]. right. left. eauto.
Qed.

Lemma group_op_inv cfg g (P : db -> Prop) w :
  (forall d c, group_call cfg g c -> P d -> P (apply d c)) -> P (w_db w) ->
  P (w_db (fst (group_op cfg g w))).
Proof.
  intros Hstep H0. unfold group_op.
  destruct (exec w (CGet g)) as [w1 ok1] eqn:E1.
  assert (H1 : P (w_db w1)).
  { change w1 with (fst (w1, ok1)). rewrite <- E1. now rewrite exec_get_db. }
  destruct ok1; [|exact H1].
  destruct (skip cfg g (recd (w_db w) g)); [exact H1|].
  unfold forget. destruct (String.eqb (recd (w_db w) g) "").
  - now apply alter_and_record_inv.
  - destruct (exec w1 (CPut g "")) as [w2 ok2] eqn:E2.
    assert (H2 : P (w_db w2)).
    { change w2 with (fst (w2, ok2)). rewrite <- E2. apply exec_pres; [exact H1|].
      apply Hstep; [|exact H1]. right. left. eauto. }
    destruct ok2; [|exact H2]. now apply alter_and_record_inv.
Qed.

(* the state of another group is not touched *)
Definition same_group_state (d0 : db) (g' : group) (d : db) : Prop :=
  recd d g' = recd d0 g' /\ forall t', In t' (tables_of g') -> val d g' t' = val d0 g' t'.

Lemma group_call_frame cfg g g' d0 d c :
  g' <> g -> group_call cfg g c -> same_group_state d0 g' d -> same_group_state d0 g' (apply d c).
Proof.
  intros Hne Hc [Hr Hv]. destruct Hc as [->|[[v ->]|Hin]].
  - now split.
  - split; [now rewrite recd_put_other|]. intros t' Ht. rewrite val_put. auto.
  - rewrite alters_unfold in Hin. apply in_alters_for in Hin.
    destruct Hin as [[t ->]|[t [Ht ->]]]; [now split|].
    split; [now rewrite recd_alter|]. intros t' Ht'. rewrite val_alter_other; auto.
Qed.

Lemma group_op_frame cfg g g' w :
  g' <> g -> same_group_state (w_db w) g' (w_db (fst (group_op cfg g w))).
Proof.
  intro Hne. apply (group_op_inv cfg g (same_group_state (w_db w) g')).
  - intros d c Hc. now apply (group_call_frame cfg g).
  - now split.
Qed.

Lemma seq_ops_frame cfg g' : forall gs w,
  ~ In g' gs -> same_group_state (w_db w) g' (w_db (fst (seq_ops cfg gs w))).
Proof.
  induction gs as [|g r IH]; intros w Hnin; cbn; [now split|].
  destruct (group_op cfg g w) as [w1 ok] eqn:E.
  assert (H1 : same_group_state (w_db w) g' (w_db w1)).
  { change w1 with (fst (w1, ok)). rewrite <- E. apply group_op_frame. intros ->. apply Hnin. now left. }
  destruct ok; [|exact H1].
  destruct (IH w1) as [Hr Hv]; [intro H; apply Hnin; now right|].
  destruct H1 as [Hr1 Hv1]. split; [congruence|].
  intros t' Ht. rewrite Hv by exact Ht. now apply Hv1.
Qed.

(* ------------------------------------------------------------------ the desired value is never the empty text *)
Lemma append_nonempty_r a b : b <> "" -> (a ++ b)%string <> "".
Proof. destruct a; cbn; [auto|discriminate]. Qed.

Lemma drop_text_nonempty c d : drop_text c d <> "".
Proof. unfold drop_text. destruct c; cbn [col_text append]; discriminate. Qed.

Lemma join_last_nonempty sep : forall l x, x <> "" -> join sep (l ++ [x]) <> "".
Proof.
  induction l as [|a l IH]; intros x Hx; [exact Hx|].
  cbn [app join]. destruct (l ++ [x]) as [|y r] eqn:E.
  - apply app_eq_nil in E. destruct E. discriminate.
  - apply append_nonempty_r. apply append_nonempty_r. rewrite <- E. now apply IH.
Qed.

Lemma desired_nonempty cfg g : wanted cfg g = true -> desired cfg g <> "".
Proof.
  unfold wanted, desired. destruct (is_sp g); cbn [andb negb].
  - intros H E. rewrite E in H. discriminate.
  - intros _. unfold ttl_text. apply join_last_nonempty. apply drop_text_nonempty.
Qed.

Lemma skip_of_recorded cfg g v : (wanted cfg g = true -> v = desired cfg g) -> skip cfg g v = true.
Proof.
  unfold wanted, skip. destruct (is_sp g && String.eqb (storage_policy cfg) "")%bool; cbn; [auto|].
  intro H. rewrite H by reflexivity. apply String.eqb_refl.
Qed.

Lemma skip_wanted cfg g v : skip cfg g v = true -> wanted cfg g = true -> v = desired cfg g.
Proof.
  unfold wanted, skip. destruct (is_sp g && String.eqb (storage_policy cfg) "")%bool; cbn; [discriminate|].
  intros H _. now apply String.eqb_eq.
Qed.

(* ------------------------------------------------------------------ a group operation that succeeded *)
Lemma alter_and_record_post cfg g w :
  snd (alter_and_record cfg g w) = true ->
  recd (w_db (fst (alter_and_record cfg g w))) g = desired cfg g /\
  forall t, In t (tables_of g) -> val (w_db (fst (alter_and_record cfg g w))) g t = desired cfg g.
Proof.
  unfold alter_and_record.
  destruct (exec_all w (alters cfg g)) as [w3 ok3] eqn:E. destruct ok3; [|discriminate].
  intro Hok. rewrite exec_ok by exact Hok.
  split; [apply recd_put_same|].
  intros t Ht. rewrite val_put.
  assert (D : w_db w3 = fold_left apply (alters cfg g) (w_db w)).
  { change w3 with (fst (w3, true)). rewrite <- E. apply exec_all_ok. now rewrite E. }
  rewrite D, alters_unfold. apply alters_set; auto.
Qed.

Lemma group_op_post cfg g w :
  snd (group_op cfg g w) = true -> wanted cfg g = true ->
  recd (w_db (fst (group_op cfg g w))) g = desired cfg g /\
  (consistent (w_db w) -> forall t, In t (tables_of g) -> val (w_db (fst (group_op cfg g w))) g t = desired cfg g).
Proof.
  unfold group_op.
  destruct (exec w (CGet g)) as [w1 ok1] eqn:E1.
  assert (H1 : w_db w1 = w_db w).
  { change w1 with (fst (w1, ok1)). rewrite <- E1. apply exec_get_db. }
  destruct ok1; [|discriminate].
  destruct (skip cfg g (recd (w_db w) g)) eqn:Es.
  - intros _ Hw. cbn [fst]. rewrite H1. pose proof (skip_wanted _ _ _ Es Hw) as Hr.
    split; [exact Hr|]. intros Hc t Ht. rewrite (Hc g t Ht); [exact Hr|].
    rewrite Hr. now apply desired_nonempty.
  - destruct (forget g (recd (w_db w) g) w1) as [w2 ok2] eqn:E2.
    destruct ok2; [|discriminate].
    intros Hok _. destruct (alter_and_record_post cfg g w2 Hok) as [Hr Hv]. split; [exact Hr|]. intros _. exact Hv.
Qed.

Lemma alter_and_record_nofault cfg g w : w_fault w = None ->
  snd (alter_and_record cfg g w) = true /\ w_fault (fst (alter_and_record cfg g w)) = None.
Proof.
  intro H. unfold alter_and_record.
  destruct (exec_all w (alters cfg g)) as [w3 ok3] eqn:E.
  destruct (exec_all_nofault (alters cfg g) w H) as [Hok Hf]. rewrite E in Hok, Hf. cbn in Hok, Hf. subst ok3.
  now apply exec_nofault.
Qed.

Lemma group_op_nofault cfg g w : w_fault w = None ->
  snd (group_op cfg g w) = true /\ w_fault (fst (group_op cfg g w)) = None.
Proof.
  intro H. unfold group_op.
  destruct (exec w (CGet g)) as [w1 ok1] eqn:E1.
  destruct (exec_nofault w (CGet g) H) as [Hok Hf]. rewrite E1 in Hok, Hf. cbn in Hok, Hf. subst ok1.
  destruct (skip cfg g (recd (w_db w) g)); [now split|].
  unfold forget. destruct (String.eqb (recd (w_db w) g) ""); [now apply alter_and_record_nofault|].
  destruct (exec w1 (CPut g "")) as [w2 ok2] eqn:E2.
  destruct (exec_nofault w1 (CPut g "") Hf) as [Hok2 Hf2]. rewrite E2 in Hok2, Hf2. cbn in Hok2, Hf2. subst ok2.
  now apply alter_and_record_nofault.
Qed.

Lemma seq_ops_nofault cfg : forall gs w, w_fault w = None ->
  snd (seq_ops cfg gs w) = true /\ w_fault (fst (seq_ops cfg gs w)) = None.
Proof.
  induction gs as [|g r IH]; intros w H; cbn; [now split|].
  destruct (group_op cfg g w) as [w1 ok] eqn:E.
  destruct (group_op_nofault cfg g w H) as [Hok Hf]. rewrite E in Hok, Hf. cbn in Hok, Hf. subst ok.
  now apply IH.
Qed.

Lemma seq_ops_post cfg : forall gs w,
  NoDup gs -> snd (seq_ops cfg gs w) = true ->
  forall g, In g gs -> wanted cfg g = true ->
    recd (w_db (fst (seq_ops cfg gs w))) g = desired cfg g /\
    (consistent (w_db w) -> forall t, In t (tables_of g) -> val (w_db (fst (seq_ops cfg gs w))) g t = desired cfg g).
Proof.
  induction gs as [|a r IH]; intros w Hnd Hok g Hin Hw; [destruct Hin|].
  cbn in Hok |- *.
  destruct (group_op cfg a w) as [w1 ok] eqn:E. destruct ok; [|discriminate].
  inversion Hnd as [|a' r' Hnin Hnd']; subst.
  assert (Hc1 : consistent (w_db w) -> consistent (w_db w1)).
  { intro Hc. change w1 with (fst (w1, true)). rewrite <- E. now apply group_op_consistent. }
  destruct (in_dec group_eq_dec g r) as [Hr|Hnr].
  - destruct (IH w1 Hnd' Hok g Hr Hw) as [H1 H2]. split; [exact H1|]. intro Hc. apply H2. now apply Hc1.
  - destruct Hin as [->|Hin]; [|contradiction].
    pose proof (group_op_post cfg g w) as HP. rewrite E in HP. cbn [fst snd] in HP.
    destruct (HP eq_refl Hw) as [P1 P2].
    destruct (seq_ops_frame cfg g r w1 Hnr) as [F1 F2].
    split; [congruence|].
    intros Hc t Ht. rewrite F2 by exact Ht. now apply P2.
Qed.

Lemma groups_nodup : NoDup groups.
Proof. unfold groups. repeat constructor; cbn; intuition discriminate. Qed.
Lemma in_groups g : In g groups.
Proof. destruct g; cbn; tauto. Qed.

Lemma run_ok_converged cfg f d :
  snd (run cfg f d) = true ->
  (forall g, wanted cfg g = true -> recd (run_db cfg f d) g = desired cfg g) /\
  (consistent d -> converged cfg (run_db cfg f d)).
Proof.
  intro Hok. unfold run_db, run, rotate in *.
  split.
  - intros g Hw. now apply (seq_ops_post cfg groups _ groups_nodup Hok g (in_groups g) Hw).
  - intros Hc g Hw. destruct (seq_ops_post cfg groups _ groups_nodup Hok g (in_groups g) Hw) as [H1 H2].
    split; [exact H1|]. now apply H2.
Qed.

Lemma run_nofault_ok cfg d : snd (run cfg None d) = true.
Proof. unfold run, rotate. now apply seq_ops_nofault. Qed.

(* ------------------------------------------------------------------ a repeated run only reads *)
Lemma group_op_silent cfg g w :
  w_fault w = None -> skip cfg g (recd (w_db w) g) = true ->
  group_op cfg g w = ({| w_db := w_db w; w_log := (CGet g, true) :: w_log w; w_fault := None |}, true).
Proof.
  intros Hf Hs. unfold group_op, exec. rewrite Hf. cbn. now rewrite Hs.
Qed.

Lemma seq_ops_silent cfg : forall gs w,
  w_fault w = None -> (forall g, In g gs -> skip cfg g (recd (w_db w) g) = true) ->
  seq_ops cfg gs w =
  ({| w_db := w_db w; w_log := rev (map (fun g => (CGet g, true)) gs) ++ w_log w; w_fault := None |}, true).
Proof.
  induction gs as [|g r IH]; intros w Hf Hs.
  - cbn. destruct w; cbn in *; now subst.
  - cbn [seq_ops]. rewrite group_op_silent; auto; [|apply Hs; now left].
    rewrite IH; cbn [w_db w_log w_fault]; auto; [|intros g' Hg'; apply Hs; now right].
    cbn [map rev]. now rewrite <- app_assoc.
Qed.

Definition reads_only : list (call * bool) := rev (map (fun g => (CGet g, true)) groups).

Lemma second_run cfg d :
  run cfg None (run_db cfg None d) =
  ({| w_db := run_db cfg None d; w_log := reads_only; w_fault := None |}, true).
Proof.
  unfold run at 1, rotate. rewrite seq_ops_silent.
  - cbn [w_db w_log w_fault]. unfold reads_only. now rewrite app_nil_r.
  - reflexivity.
  - cbn [w_db]. intros g _. apply skip_of_recorded. intro Hw.
    now apply (proj1 (run_ok_converged cfg None d (run_nofault_ok cfg d))).
Qed.

(* ------------------------------------------------------------------ the log: what is issued, and in which order *)
Lemma alter_and_record_calls cfg g w : exists l,
  w_log (fst (alter_and_record cfg g w)) = l ++ w_log w /\ forall e, In e l -> group_call cfg g (fst e).
Proof.
  unfold alter_and_record.
  destruct (exec_all w (alters cfg g)) as [w3 ok3] eqn:E.
  destruct (exec_all_log (alters cfg g) w) as [l [H1 [H2 _]]]. rewrite E in H1. cbn [fst] in H1.
  destruct ok3.
  - exists ((CPut g (desired cfg g), snd (exec w3 (CPut g (desired cfg g)))) :: l). split.
    + rewrite exec_log, H1. reflexivity.
    + intros e [<-|He]; [right; left; cbn; eauto|right; right; now apply H2].
  - exists l. split; [exact H1|]. intros e He. right. right. now apply H2.
Qed.

Lemma group_op_calls cfg g w : exists l,
  w_log (fst (group_op cfg g w)) = l ++ w_log w /\ forall e, In e l -> group_call cfg g (fst e).
Proof.
  unfold group_op.
  destruct (exec w (CGet g)) as [w1 ok1] eqn:E1.
  pose proof (exec_log w (CGet g)) as L1. rewrite E1 in L1. cbn [fst snd] in L1.
  assert (G1 : forall e, In e [(CGet g, ok1)] -> group_call cfg g (fst e)).
  { intros e [<-|[]]. now left. }
  destruct ok1; [|exists [(CGet g, false)]; split; [exact L1|exact G1]].
  destruct (skip cfg g (recd (w_db w) g)); [exists [(CGet g, true)]; split; [exact L1|exact G1]|].
  unfold forget. destruct (String.eqb (recd (w_db w) g) "").
  - destruct (alter_and_record_calls cfg g w1) as [l [H1 H2]].
    exists (l ++ [(CGet g, true)]). split; [rewrite H1, L1; now rewrite <- app_assoc|].
    intros e He. apply in_app_or in He. destruct He as [He|He]; auto.
  - destruct (exec w1 (CPut g "")) as [w2 ok2] eqn:E2.
    pose proof (exec_log w1 (CPut g "")) as L2. rewrite E2 in L2. cbn [fst snd] in L2.
    assert (G2 : forall e, In e [(CPut g "", ok2); (CGet g, true)] -> group_call cfg g (fst e)).
    { intros e [<-|[<-|[]]]; [right; left; cbn; eauto|now left]. }
    destruct ok2; [|exists [(CPut g "", false); (CGet g, true)]; split; [cbn [fst]; rewrite L2, L1; reflexivity|exact G2]].
    destruct (alter_and_record_calls cfg g w2) as [l [H1 H2]].
    exists (l ++ [(CPut g "", true); (CGet g, true)]). split; [rewrite H1, L2, L1; now rewrite <- app_assoc|].
    intros e He. apply in_app_or in He. destruct He as [He|He]; auto.
Qed.

Lemma seq_ops_calls cfg (Q : call -> Prop) : forall gs w,
  (forall g c, In g gs -> group_call cfg g c -> Q c) ->
  (forall e, In e (w_log w) -> Q (fst e)) ->
  forall e, In e (w_log (fst (seq_ops cfg gs w))) -> Q (fst e).
Proof.
  induction gs as [|g r IH]; intros w HQ H0; cbn; [exact H0|].
  destruct (group_op cfg g w) as [w1 ok] eqn:E.
  assert (H1 : forall e, In e (w_log w1) -> Q (fst e)).
  { destruct (group_op_calls cfg g w) as [l [L G]]. rewrite E in L. cbn [fst] in L. rewrite L.
    intros e He. apply in_app_or in He. destruct He as [He|He]; [|now apply H0].
    apply (HQ g); [now left|now apply G]. }
  destruct ok; [|exact H1].
  apply IH; [|exact H1]. intros g' c Hg'. apply HQ. now right.
Qed.

(* tier minimum *)
Lemma clamp_spec m v : m <= max_int32 -> clamp m v = Z.min (Z.max m v) max_int32.
Proof.
  intros Hm. unfold clamp. destruct (v <? m) eqn:E.
  - apply Z.ltb_lt in E. destruct (max_int32 <? m) eqn:E2; [apply Z.ltb_lt in E2; lia|]. lia.
  - apply Z.ltb_ge in E. destruct (max_int32 <? v) eqn:E2; [apply Z.ltb_lt in E2|apply Z.ltb_ge in E2]; lia.
Qed.
Lemma clamp_ge m v : m <= max_int32 -> m <= clamp m v.
Proof. intros Hm. rewrite (clamp_spec m v Hm). lia. Qed.
Lemma g_min_le_max g : g_min g <= max_int32.
Proof. destruct g; vm_compute; discriminate. Qed.

(* the tier arithmetic, over Z, for every timeout (any integer, in particular every int64 time.Duration) *)
Lemma tier_secs_spec minv ns : minv <= max_int32 ->
  tier_secs minv ns = Z.min (Z.max minv (whole_seconds ns)) max_int32.
Proof. intros Hm. unfold tier_secs. now apply clamp_spec. Qed.
Lemma tier_secs_bounds minv ns : minv <= max_int32 -> minv <= tier_secs minv ns <= max_int32.
Proof. intros Hm. rewrite (tier_secs_spec minv ns Hm). lia. Qed.
Lemma tier_secs_exact minv ns : minv <= whole_seconds ns <= max_int32 -> tier_secs minv ns = whole_seconds ns.
Proof. intros H. rewrite tier_secs_spec; lia. Qed.
Lemma whole_seconds_mono a b : a <= b -> whole_seconds a <= whole_seconds b.
Proof. intros H. unfold whole_seconds, second_ns. apply Z.quot_le_mono; lia. Qed.
Lemma tier_secs_mono minv a b : minv <= max_int32 -> a <= b -> tier_secs minv a <= tier_secs minv b.
Proof. intros Hm H. rewrite !tier_secs_spec by exact Hm. pose proof (whole_seconds_mono a b H). lia. Qed.
(* never earlier than the configured timeout (up to the int32 cap), never later than max(minimum, configured) *)
Lemma tier_secs_window minv ns : minv <= max_int32 ->
  Z.min (whole_seconds ns) max_int32 <= tier_secs minv ns <= Z.max minv (whole_seconds ns).
Proof. intros Hm. rewrite tier_secs_spec by exact Hm. lia. Qed.
(* whole seconds of a timeout of s seconds and a sub-second rest *)
Lemma whole_seconds_of s r : 0 <= s -> 0 <= r < second_ns -> whole_seconds (s * second_ns + r) = s.
Proof.
  intros Hs Hr. unfold whole_seconds, second_ns in *. rewrite Z.quot_div_nonneg by lia.
  symmetry. apply (Z.div_unique_pos _ _ s r); [lia|]. lia.
Qed.

(* the code before the fix (amd64): a tier of 100 years moved the data after the minimum *)
Lemma old_conversion_moves_early : exists ns, 0 < ns < 2 ^ 63 /\ max_int32 < whole_seconds ns /\
  old_tier_secs 60 ns = 60 /\ old_tier_secs 86400 ns = 86400 /\ tier_secs 60 ns = max_int32.
Proof. exists 3153600000000000000. vm_compute. repeat split; congruence. Qed.

Lemma group_call_tiers_ok cfg g c : group_call cfg g c -> tiers_ok c.
Proof.
  intros [->|[[v ->]|Hin]]; cbn; auto.
  rewrite alters_unfold in Hin. apply in_alters_for in Hin.
  destruct Hin as [[t ->]|[t [Ht ->]]]; cbn; auto.
  unfold alter_call. destruct (is_sp g) eqn:Ek; cbn; auto.
  rewrite (table_min_group g t Ek Ht). unfold tiers_of.
  apply Forall_forall. intros tr Hin. apply in_map_iff in Hin. destruct Hin as [p [<- _]]. cbn. apply clamp_ge. apply g_min_le_max.
Qed.

Lemma run_tiers_ok cfg f d : forall e, In e (run_log cfg f d) -> tiers_ok (fst e).
Proof.
  unfold run_log, run, rotate. apply seq_ops_calls.
  - intros g c _. apply group_call_tiers_ok.
  - intros e [].
Qed.

(* every MODIFY TTL of every run carries exactly the configured tiers: per tier of the configuration, in its order,
   min(max(table minimum, whole seconds of the timeout), 2^31-1) seconds and the configured disk; and the
   configured number of days for the final delete *)
Definition tiers_spec (t : table) (ds : list policy) : list tier :=
  map (fun p => {| tr_secs := Z.min (Z.max (table_min t) (whole_seconds (p_ns p))) max_int32; tr_disk := p_disk p |}) ds.
Definition ttl_exact (cfg : config) (c : call) : Prop :=
  match c with CTtl t _ ts dd => ts = tiers_spec t (days cfg) /\ dd = drop_days cfg | _ => True end.

Lemma group_call_ttl_exact cfg g c : group_call cfg g c -> ttl_exact cfg c.
Proof.
  intros [->|[[v ->]|Hin]]; cbn; auto.
  rewrite alters_unfold in Hin. apply in_alters_for in Hin.
  destruct Hin as [[t ->]|[t [Ht ->]]]; cbn; auto.
  unfold alter_call. destruct (is_sp g) eqn:Ek; cbn; auto.
  split; [|reflexivity]. unfold tiers_of, tiers_spec. rewrite (table_min_group g t Ek Ht).
  apply map_ext. intros p. f_equal. apply tier_secs_spec. apply g_min_le_max.
Qed.

Lemma run_ttl_exact cfg f d : forall e, In e (run_log cfg f d) -> ttl_exact cfg (fst e).
Proof.
  unfold run_log, run, rotate. apply seq_ops_calls.
  - intros g c _. apply group_call_ttl_exact.
  - intros e [].
Qed.

(* record after all: in the log (newest first) every record of a value is preceded by a successful ALTER
   of every table of its group to that value *)
Definition log_ok (cfg : config) (l : list (call * bool)) : Prop :=
  forall newer older g v b, l = newer ++ (CPut g v, b) :: older -> v <> "" ->
    v = desired cfg g /\ forall t, In t (tables_of g) -> In (alter_call cfg g t, true) older.

Lemma log_ok_nil cfg : log_ok cfg [].
Proof. intros [|x newer] older g v b E; discriminate. Qed.

Lemma log_ok_cons_other cfg l c b :
  log_ok cfg l -> (forall g v, c = CPut g v -> v = "") -> log_ok cfg ((c, b) :: l).
Proof.
  intros H Hc [|x newer] older g v b' E Hv.
  - cbn in E. inversion E; subst. exfalso. apply Hv. now apply (Hc g v).
  - cbn in E. inversion E; subst. now apply (H newer older g v b').
Qed.

Lemma log_ok_cons_put cfg l g b :
  log_ok cfg l -> (forall t, In t (tables_of g) -> In (alter_call cfg g t, true) l) ->
  log_ok cfg ((CPut g (desired cfg g), b) :: l).
Proof.
  intros H Hall [|x newer] older g' v b' E Hv.
  - cbn in E. inversion E; subst. split; auto.
  - cbn in E. inversion E; subst. now apply (H newer older g' v b').
Qed.

Lemma log_ok_app cfg : forall l' l,
  log_ok cfg l -> (forall e g v, In e l' -> fst e = CPut g v -> v = "") -> log_ok cfg (l' ++ l).
Proof.
  induction l' as [|[c b] r IH]; intros l H Hn; [exact H|].
  cbn [app]. apply log_ok_cons_other.
  - apply IH; [exact H|]. intros e g v He. apply Hn. now right.
  - intros g v Hc. apply (Hn (c, b) g v); [now left|exact Hc].
Qed.

Lemma alters_not_put cfg g c g' v : In c (alters cfg g) -> c <> CPut g' v.
Proof.
  intro Hin. rewrite alters_unfold in Hin. apply in_alters_for in Hin.
  destruct Hin as [[t ->]|[t [_ ->]]]; [discriminate|]. unfold alter_call. destruct (is_sp g); discriminate.
Qed.

Lemma alter_and_record_log_ok cfg g w :
  log_ok cfg (w_log w) -> log_ok cfg (w_log (fst (alter_and_record cfg g w))).
Proof.
  intro H. unfold alter_and_record.
  destruct (exec_all w (alters cfg g)) as [w3 ok3] eqn:E.
  destruct (exec_all_log (alters cfg g) w) as [l [H1 [H2 H3]]]. rewrite E in H1, H3. cbn [fst snd] in H1, H3.
  assert (L3 : log_ok cfg (w_log w3)).
  { rewrite H1. apply log_ok_app; [exact H|]. intros e g' v He Hc. exfalso.
    apply (alters_not_put cfg g (fst e) g' v); [now apply H2|exact Hc]. }
  destruct ok3; [|exact L3].
  rewrite exec_log. apply log_ok_cons_put; [exact L3|].
  intros t Ht. rewrite H1. apply in_or_app. left. apply H3; [reflexivity|]. now apply in_alters.
Qed.

Lemma group_op_log_ok cfg g w :
  log_ok cfg (w_log w) -> log_ok cfg (w_log (fst (group_op cfg g w))).
Proof.
  intro H. unfold group_op.
  destruct (exec w (CGet g)) as [w1 ok1] eqn:E1.
  assert (L1 : log_ok cfg (w_log w1)).
  { change w1 with (fst (w1, ok1)). rewrite <- E1. rewrite exec_log. apply log_ok_cons_other; [exact H|]. discriminate. }
  destruct ok1; [|exact L1].
  destruct (skip cfg g (recd (w_db w) g)); [exact L1|].
  unfold forget. destruct (String.eqb (recd (w_db w) g) ""); [now apply alter_and_record_log_ok|].
  destruct (exec w1 (CPut g "")) as [w2 ok2] eqn:E2.
  assert (L2 : log_ok cfg (w_log w2)).
  { change w2 with (fst (w2, ok2)). rewrite <- E2. rewrite exec_log. apply log_ok_cons_other; [exact L1|].
    intros g' v Hc. now inversion Hc. }
  destruct ok2; [|exact L2]. now apply alter_and_record_log_ok.
Qed.

Lemma seq_ops_log_ok cfg : forall gs w, log_ok cfg (w_log w) -> log_ok cfg (w_log (fst (seq_ops cfg gs w))).
Proof.
  induction gs as [|g r IH]; intros w H; cbn; [exact H|].
  destruct (group_op cfg g w) as [w1 ok] eqn:E.
  assert (H1 : log_ok cfg (w_log w1)).
  { change w1 with (fst (w1, ok)). rewrite <- E. now apply group_op_log_ok. }
  destruct ok; [now apply IH|exact H1].
Qed.

Lemma run_log_ok cfg f d : log_ok cfg (run_log cfg f d).
Proof. unfold run_log, run, rotate. apply seq_ops_log_ok. apply log_ok_nil. Qed.

(* a failed call is the last one of its run *)
Lemma fresh_consistent ttl pol : consistent {| d_ttl := ttl; d_policy := pol; d_settings := fun _ => "" |}.
Proof. intros g t _ H. exfalso. now apply H. Qed.

(* ------------------------------------------------------------------ examples: the hypotheses are met by non-trivial values *)
Definition fresh : db := {| d_ttl := fun _ => "<initial>"; d_policy := fun _ => "<initial>"; d_settings := fun _ => "" |}.

(* two tiers: 30 s (below both minima) to disk cold, 100 years (seconds do not fit int32: capped) *)
Definition ex_a : config :=
  {| cluster := "c1"; distributed := true;
     days := [ {| p_ns := 30000000000; p_disk := "cold" |};
               {| p_ns := 3153600000000000000; p_disk := "" |} ];
     drop_days := 30; storage_policy := "tiered" |}.
Definition ex_b : config :=
  {| cluster := "c1"; distributed := true; days := days ex_a; drop_days := 60; storage_policy := "tiered" |}.

Definition n_alters (l : list (call * bool)) : nat :=
  List.length (filter (fun e => match fst e with CTune _ | CTtl _ _ _ _ | CPolicy _ _ => true | _ => false end) l).

Example fresh_is_consistent : consistent fresh.
Proof. apply fresh_consistent. Qed.

(* first run on a fresh database: 8 reads, 21 ALTERs, 8 records; afterwards converged; repeated runs: 8 reads *)
Example ex_first_run :
  (List.length (run_log ex_a None fresh), n_alters (run_log ex_a None fresh),
   converged_b ex_a (run_db ex_a None fresh),
   List.length (run_log ex_a None (run_db ex_a None fresh)), n_alters (run_log ex_a None (run_db ex_a None fresh)))
  = (37%nat, 21%nat, true, 8%nat, 0%nat).
Proof. vm_compute. reflexivity. Qed.

(* the emitted tiers of that run: 60 / 86400 for the 30 s tier, the int32 cap for the 100-year tier *)
Example ex_tiers :
  map (fun e => match fst e with CTtl t _ ts _ => map tr_secs ts | _ => [] end)
      (filter (fun e => match fst e with CTtl TimeSeries _ _ _ | CTtl SamplesV3 _ _ _ => true | _ => false end)
              (run_log ex_a None fresh))
  = [[86400; 2147483647]; [60; 2147483647]].
Proof. vm_compute. reflexivity. Qed.

(* configuration a, then b interrupted after the first table of the time_series group was altered, then a again:
   before the repair (record left in place during the loop) the last run skipped that group *)
Example ex_interrupted_then_reverted :
  let d1 := run_db ex_a None fresh in
  let d2 := run_db ex_b (Some (11%nat, false)) d1 in
  (snd (run ex_b (Some (11%nat, false)) d1), consistent_b d2, converged_b ex_b d2,
   converged_b ex_a (run_db ex_a None d2), n_alters (run_log ex_a None d2)) = (false, true, false, true, 6%nat).
Proof. vm_compute. reflexivity. Qed.

(* a run that records: its log contains a record of a non-empty value *)
Example ex_records : exists newer older b,
  run_log ex_a None fresh = newer ++ (CPut TtlTimeSeries (desired ex_a TtlTimeSeries), b) :: older /\
  desired ex_a TtlTimeSeries <> "".
Proof.
  exists (firstn 14 (run_log ex_a None fresh)), (skipn 15 (run_log ex_a None fresh)), true.
  split; [vm_compute; reflexivity|]. apply desired_nonempty. reflexivity.
Qed.

(* ------------------------------------------------------------------ an interrupted run is a prefix of the uninterrupted one *)
(* w runs under some fault, w' under none; as long as no call failed both have the same database and issued the
   same calls; once a call failed, w stops and w' only adds calls *)
Definition sync (w w' : world) : Prop :=
  w_db w = w_db w' /\ map fst (w_log w) = map fst (w_log w') /\ w_fault w' = None.
Definition behind (l l' : list (call * bool)) : Prop := exists x, map fst l' = x ++ map fst l.
Definition sim_res (r r' : world * bool) : Prop :=
  snd r' = true /\ w_fault (fst r') = None /\
  ((snd r = true /\ sync (fst r) (fst r')) \/ (snd r = false /\ behind (w_log (fst r)) (w_log (fst r')))).

Lemma behind_refl_eq l l' : map fst l = map fst l' -> behind l l'.
Proof. intro H. exists []. now rewrite H. Qed.
Lemma behind_ext l l' x : behind l l' -> behind l (x ++ l').
Proof. intros [y H]. exists (map fst x ++ y). rewrite map_app, H. now rewrite app_assoc. Qed.

Lemma exec_sim w w' c : sync w w' -> sim_res (exec w c) (exec w' c).
Proof.
  intros [Hd [Hl Hf]]. unfold sim_res, exec. rewrite Hf.
  destruct (w_fault w) as [[[|k] eff]|]; cbn [fst snd w_db w_log w_fault].
  - split; [reflexivity|]. split; [reflexivity|]. right. split; [reflexivity|].
    apply behind_refl_eq. cbn. now rewrite Hl.
  - split; [reflexivity|]. split; [reflexivity|]. left. split; [reflexivity|].
    split; [now rewrite Hd|]. split; [cbn; now rewrite Hl|reflexivity].
  - split; [reflexivity|]. split; [reflexivity|]. left. split; [reflexivity|].
    split; [now rewrite Hd|]. split; [cbn; now rewrite Hl|reflexivity].
Qed.

Lemma exec_all_ext cs w : exists l, w_log (fst (exec_all w cs)) = l ++ w_log w.
Proof. destruct (exec_all_log cs w) as [l [H _]]. eauto. Qed.

Lemma exec_all_sim : forall cs w w', sync w w' -> sim_res (exec_all w cs) (exec_all w' cs).
Proof.
  induction cs as [|c r IH]; intros w w' Hs.
  - cbn. destruct Hs as [Hd [Hl Hf]]. split; [reflexivity|]. split; [exact Hf|]. left. split; [reflexivity|].
    now split.
  - cbn [exec_all]. pose proof (exec_sim w w' c Hs) as H.
    destruct (exec w c) as [w1 ok] eqn:E, (exec w' c) as [w1' ok'] eqn:E'.
    destruct H as [Hok' [Hf' H]]. cbn [fst snd] in Hok', Hf', H. subst ok'.
    destruct H as [[-> Hs1]|[-> Hb]].
    + now apply IH.
    + pose proof (exec_all_nofault r w1' Hf') as [N1 N2].
      split; [exact N1|]. split; [exact N2|]. right. split; [reflexivity|]. cbn [fst].
      destruct (exec_all_ext r w1') as [x ->]. now apply behind_ext.
Qed.

Lemma alter_and_record_ext cfg g w : exists l, w_log (fst (alter_and_record cfg g w)) = l ++ w_log w.
Proof. destruct (alter_and_record_calls cfg g w) as [l [H _]]. eauto. Qed.
Lemma group_op_ext cfg g w : exists l, w_log (fst (group_op cfg g w)) = l ++ w_log w.
Proof. destruct (group_op_calls cfg g w) as [l [H _]]. eauto. Qed.
Lemma seq_ops_ext cfg : forall gs w, exists l, w_log (fst (seq_ops cfg gs w)) = l ++ w_log w.
Proof.
  induction gs as [|g r IH]; intros w; cbn; [now exists []|].
  destruct (group_op cfg g w) as [w1 ok] eqn:E.
  destruct (group_op_ext cfg g w) as [l1 H1]. rewrite E in H1. cbn [fst] in H1.
  destruct ok; [|eauto].
  destruct (IH w1) as [l2 H2]. exists (l2 ++ l1). now rewrite H2, H1, app_assoc.
Qed.

Lemma alter_and_record_sim cfg g w w' :
  sync w w' -> sim_res (alter_and_record cfg g w) (alter_and_record cfg g w').
Proof.
  intro Hs. unfold alter_and_record. pose proof (exec_all_sim (alters cfg g) w w' Hs) as H.
  destruct (exec_all w (alters cfg g)) as [w3 ok3], (exec_all w' (alters cfg g)) as [w3' ok3'].
  destruct H as [Hok' [Hf' H]]. cbn [fst snd] in Hok', Hf', H. subst ok3'.
  destruct H as [[-> Hs3]|[-> Hb]].
  - now apply exec_sim.
  - destruct (exec_nofault w3' (CPut g (desired cfg g)) Hf') as [N1 N2].
    split; [exact N1|]. split; [exact N2|]. right. split; [reflexivity|]. cbn [fst].
    rewrite exec_log. now apply (behind_ext _ _ [_]).
Qed.

Lemma group_op_sim cfg g w w' : sync w w' -> sim_res (group_op cfg g w) (group_op cfg g w').
Proof.
  intro Hs. unfold group_op. pose proof (exec_sim w w' (CGet g) Hs) as H.
  assert (Hd : w_db w = w_db w') by apply Hs.
  destruct (exec w (CGet g)) as [w1 ok1], (exec w' (CGet g)) as [w1' ok1'].
  destruct H as [Hok' [Hf' H]]. cbn [fst snd] in Hok', Hf', H. subst ok1'. rewrite <- Hd.
  destruct H as [[-> Hs1]|[-> Hb]].
  - destruct (skip cfg g (recd (w_db w) g)).
    + split; [reflexivity|]. split; [exact Hf'|]. left. now split.
    + unfold forget. destruct (String.eqb (recd (w_db w) g) ""); [now apply alter_and_record_sim|].
      pose proof (exec_sim w1 w1' (CPut g "") Hs1) as H2.
      destruct (exec w1 (CPut g "")) as [w2 ok2], (exec w1' (CPut g "")) as [w2' ok2'].
      destruct H2 as [Hok2' [Hf2' H2]]. cbn [fst snd] in Hok2', Hf2', H2. subst ok2'.
      destruct H2 as [[-> Hs2]|[-> Hb2]]; [now apply alter_and_record_sim|].
      destruct (alter_and_record_nofault cfg g w2' Hf2') as [N1 N2].
      split; [exact N1|]. split; [exact N2|]. right. split; [reflexivity|]. cbn [fst].
      destruct (alter_and_record_ext cfg g w2') as [x ->]. now apply behind_ext.
  - (* the read itself failed: the uninterrupted run continues *)
    assert (G : forall r', (exists x, w_log (fst r') = x ++ w_log w1') -> snd r' = true -> w_fault (fst r') = None ->
                sim_res (w1, false) r').
    { intros r' [x Hx] N1 N2. split; [exact N1|]. split; [exact N2|]. right. split; [reflexivity|]. cbn [fst].
      rewrite Hx. now apply behind_ext. }
    destruct (skip cfg g (recd (w_db w) g)).
    + apply G; [now exists []|reflexivity|exact Hf'].
    + unfold forget. destruct (String.eqb (recd (w_db w) g) "").
      * apply G; [apply alter_and_record_ext|now apply alter_and_record_nofault..].
      * destruct (exec w1' (CPut g "")) as [w2' ok2'] eqn:E2.
        destruct (exec_nofault w1' (CPut g "") Hf') as [M1 M2]. rewrite E2 in M1, M2. cbn [fst snd] in M1, M2. subst ok2'.
        pose proof (exec_log w1' (CPut g "")) as L2. rewrite E2 in L2. cbn [fst snd] in L2.
        apply G; [|now apply alter_and_record_nofault..].
        destruct (alter_and_record_ext cfg g w2') as [x ->]. exists (x ++ [(CPut g "", true)]).
        now rewrite L2, <- app_assoc.
Qed.

Lemma seq_ops_sim cfg : forall gs w w', sync w w' -> sim_res (seq_ops cfg gs w) (seq_ops cfg gs w').
Proof.
  induction gs as [|g r IH]; intros w w' Hs.
  - cbn. split; [reflexivity|]. split; [apply Hs|]. left. now split.
  - cbn [seq_ops]. pose proof (group_op_sim cfg g w w' Hs) as H.
    destruct (group_op cfg g w) as [w1 ok], (group_op cfg g w') as [w1' ok'].
    destruct H as [Hok' [Hf' H]]. cbn [fst snd] in Hok', Hf', H. subst ok'.
    destruct H as [[-> Hs1]|[-> Hb]]; [now apply IH|].
    destruct (seq_ops_nofault cfg r w1' Hf') as [N1 N2].
    split; [exact N1|]. split; [exact N2|]. right. split; [reflexivity|]. cbn [fst].
    destruct (seq_ops_ext cfg r w1') as [x ->]. now apply behind_ext.
Qed.

(* newest-first logs: the uninterrupted run's calls are the interrupted run's calls plus later ones *)
Lemma run_is_prefix cfg f d : exists later,
  map fst (run_log cfg None d) = later ++ map fst (run_log cfg f d).
Proof.
  unfold run_log, run, rotate.
  pose proof (seq_ops_sim cfg groups {| w_db := d; w_log := []; w_fault := f |} {| w_db := d; w_log := []; w_fault := None |}) as H.
  destruct H as [_ [_ [[_ [_ [Hl _]]]|[_ Hb]]]]; [now split| |exact Hb].
  exists []. now rewrite Hl.
Qed.

(* a failed call is the last call of its run: every older log entry succeeded *)
Definition all_ok (l : list (call * bool)) : Prop := Forall (fun e => snd e = true) l.
Definition good (r : world * bool) : Prop :=
  if snd r then all_ok (w_log (fst r))
  else exists c l, w_log (fst r) = (c, false) :: l /\ all_ok l.

Lemma exec_good w c : all_ok (w_log w) -> good (exec w c).
Proof.
  intro H. unfold good, exec. destruct (w_fault w) as [[[|k] eff]|]; cbn [fst snd w_log].
  - eauto.
  - now constructor.
  - now constructor.
Qed.

Lemma exec_all_good : forall cs w, all_ok (w_log w) -> good (exec_all w cs).
Proof.
  induction cs as [|c r IH]; intros w H; [exact H|].
  cbn [exec_all]. pose proof (exec_good w c H) as G.
  destruct (exec w c) as [w1 ok]. destruct ok; [now apply IH|exact G].
Qed.

Lemma alter_and_record_good cfg g w : all_ok (w_log w) -> good (alter_and_record cfg g w).
Proof.
  intro H. unfold alter_and_record. pose proof (exec_all_good (alters cfg g) w H) as G.
  destruct (exec_all w (alters cfg g)) as [w3 ok3]. destruct ok3; [now apply exec_good|exact G].
Qed.

Lemma group_op_good cfg g w : all_ok (w_log w) -> good (group_op cfg g w).
Proof.
  intro H. unfold group_op. pose proof (exec_good w (CGet g) H) as G1.
  destruct (exec w (CGet g)) as [w1 ok1]. destruct ok1; [|exact G1].
  destruct (skip cfg g (recd (w_db w) g)); [exact G1|].
  unfold forget. destruct (String.eqb (recd (w_db w) g) ""); [now apply alter_and_record_good|].
  pose proof (exec_good w1 (CPut g "") G1) as G2.
  destruct (exec w1 (CPut g "")) as [w2 ok2]. destruct ok2; [now apply alter_and_record_good|exact G2].
Qed.

Lemma seq_ops_good cfg : forall gs w, all_ok (w_log w) -> good (seq_ops cfg gs w).
Proof.
  induction gs as [|g r IH]; intros w H; [exact H|].
  cbn [seq_ops]. pose proof (group_op_good cfg g w H) as G.
  destruct (group_op cfg g w) as [w1 ok]. destruct ok; [now apply IH|exact G].
Qed.

Lemma run_good cfg f d : good (run cfg f d).
Proof. unfold run, rotate. apply seq_ops_good. constructor. Qed.

Lemma run_failed_call_is_last cfg f d e rest :
  run_log cfg f d = e :: rest -> all_ok rest /\ (snd (run cfg f d) = snd e).
Proof.
  unfold run_log. pose proof (run_good cfg f d) as G. unfold good in G.
  destruct (snd (run cfg f d)); intro E.
  - rewrite E in G. inversion G; subst. split; [assumption|]. now symmetry.
  - destruct G as [c [l [G1 G2]]]. rewrite E in G1. inversion G1; subst. now split.
Qed.
