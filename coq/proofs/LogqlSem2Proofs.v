(* C07, part 2 (continued): the planner chain of a query of in_fragment2 keeps the invariant of LogqlSem2Base.v
   stage by stage; the labels join is the base case; ORDER BY / LIMIT / the final select give logql_sem2. *)
From Coq Require Import List ZArith NArith QArith String Ascii Bool Lia Permutation Sorted.
From Qryn Require Import lib.Strs model.Sql model.SqlRender model.Logql model.LogqlRegexp model.LogqlPlan model.SqlEval model.LogqlSem
  proofs.SqlEvalProofs proofs.LogqlSemProofs proofs.LogqlRegexpProofs.
From Qryn Require Import proofs.LogqlSem2Base.
From Qryn Require model.LogqlTemplate.
Import ListNotations.
Open Scope string_scope.

(* ---------- the two references coincide on a pipeline without line_format ---------- *)
Definition no_lfmt (ppl : list stage) : bool := forallb (fun s => match s with PLineFormat _ => false | _ => true end) ppl.
Lemma run_l_no_lfmt {RG : ReGroups} re_match parse_float json_get hash_labels : forall ppl line st, no_lfmt ppl = true ->
  run_lstages re_match parse_float json_get hash_labels ppl line st
  = option_map (pair line) (run_stages re_match parse_float json_get hash_labels ppl line st).
Proof.
  induction ppl as [|s r IH]; intros line st H; [reflexivity|]. cbn [no_lfmt forallb] in H. apply andb_prop in H. destruct H as [Hs Hr].
  destruct s as [op v rl|f|fn ps|tm| |lb|ps]; cbn [run_lstages run_stages]; try reflexivity; try discriminate Hs.
  - destruct (line_ok re_match line op v); [now apply IH|reflexivity].
  - destruct (lf_ok re_match parse_float (p_labels st) f); [now apply IH|reflexivity].
  - destruct fn; try reflexivity.
    + destruct (json_stage json_get hash_labels ps line st); [now apply IH|reflexivity].
    + destruct (regexp_stage hash_labels ps line st); [now apply IH|reflexivity].
  - now apply IH.
Qed.
Lemma log_rows3_no_lfmt {RG : ReGroups} re_match parse_float json_get hash_labels q c d : no_lfmt (sel_pipeline q) = true ->
  log_rows3 re_match parse_float json_get hash_labels q c d = log_rows2 re_match parse_float json_get hash_labels q c d.
Proof.
  intros H. unfold log_rows3, log_rows2. induction (d_samples d) as [|x l IH]; [reflexivity|]. cbn [flat_map]. rewrite IH. f_equal.
  unfold sample_out3, sample_out. destruct (in_window c x && type_in c (x_type x) && forallb _ _); [|reflexivity].
  rewrite (run_l_no_lfmt re_match parse_float json_get hash_labels _ _ _ H).
  destruct (run_stages _ _ _ _ _ _ _) as [st|]; reflexivity.
Qed.
Lemma simple_ops_no_lf : forall r, existsb is_label_filter (take_while (fun s => negb (is_relabel s)) r) = false ->
  simple_ops r = map (fun _ => false) r.
Proof.
  induction r as [|s r IH]; intros H; [reflexivity|]. cbn [simple_ops]. destruct (is_relabel s) eqn:E; [reflexivity|].
  cbn [take_while negb] in H. rewrite E in H. cbn [negb existsb] in H. apply orb_false_iff in H. destruct H as [H1 H2].
  cbn [map]. now rewrite H1, (IH H2).
Qed.

Section PLAN2.
  Context {RG : ReGroups}.
  Variable re_match : string -> string -> bool.
  Variable parse_float : string -> option Q.
  Variable json_get : string -> list string -> string.
  Variable hash_labels : labels -> Z.
  Variable tie : forall A : Type, list A -> list A.
  Hypothesis tie_perm : forall A (l : list A), Permutation (tie A l) l.
  Variable c : pctx.
  Variable d : database.
  Hypothesis Hctx : ctx_ok c = true.
  Variable ms : list matcher.

  Notation "'A7' f" := (f re_match parse_float json_get hash_labels tie c d) (at level 10, f at level 9, only parsing).
  Notation EV := (ev re_match parse_float json_get hash_labels tie (to_sqldb c d)).
  Notation ET := (etab re_match parse_float json_get hash_labels tie (to_sqldb c d)).
  Notation ES := (esel re_match parse_float json_get hash_labels tie (to_sqldb c d)).
  Notation SINV := (sinv re_match parse_float json_get hash_labels tie c d ms).
  Notation LIVE := (live re_match parse_float json_get hash_labels c d ms).

  (* the planner state in which every planner of the chain above the labels join is processed *)
  Notation st0 := (clear_caches pst0).

  Lemma sup_no_lfmt ppl : forallb stage_supported ppl = true -> no_lfmt ppl = true.
  Proof.
    induction ppl as [|s r IH]; intros H; [reflexivity|]. cbn [forallb] in H. apply andb_prop in H. destruct H as [Hs Hr].
    cbn [no_lfmt forallb]. fold (no_lfmt r). rewrite (IH Hr). destruct s; try discriminate Hs; reflexivity.
  Qed.
  Lemma log_rows2_live ppl : no_lfmt ppl = true ->
    log_rows2 re_match parse_float json_get hash_labels {| sel_matchers := ms; sel_pipeline := ppl |} c d = map mkout2 (LIVE ppl).
  Proof.
    intros H. rewrite <- (log_rows3_no_lfmt re_match parse_float json_get hash_labels _ c d) by exact H. apply log_rows3_live.
  Qed.

  Definition pinv (cur : planner) (done : list stage) (m : mode) (swap : bool) : Prop :=
    exists sel st' cur', process cur c st0 = Some (sel, st', cur') /\ SINV sel done m swap.

  (* ---------- one planner per stage ---------- *)
  Lemma pinv_json cur done m swap ps paths : pinv cur done m swap -> (m = MFresh \/ m = MParsed) ->
    all_paths ps = Some paths -> pinv (PParserP PJson ps cur) (done ++ [PParser PJson ps]) MParsed swap.
  Proof.
    intros [sel [st' [cur' [Hp Hs]]]] Hm Hpa.
    exists (json_patch ps paths sel), st', (PParserP PJson ps cur'). split.
    - cbn [process]. rewrite Hp. cbn [bind]. rewrite Hpa. reflexivity.
    - now apply (A7 sinv_json ms sel done m swap ps paths).
  Qed.
  Lemma pinv_regexp cur done m swap ps : pinv cur done m swap -> (m = MFresh \/ m = MParsed) ->
    regexp_ok ps = true -> regexp_oracle ps -> pinv (PParserP PRegexp ps cur) (done ++ [PParser PRegexp ps]) MParsed swap.
  Proof.
    intros [sel [st' [cur' [Hp Hs]]]] Hm Hok Ho.
    unfold regexp_ok in Hok. apply andb_prop in Hok. destruct Hok as [Hne Hpl].
    destruct ps as [|p0 ps']; [discriminate|].
    destruct (re_plan (re_source (p0 :: ps'))) as [[sent names]|] eqn:Epl; [|discriminate].
    destruct (re_plan_sent_names _ _ _ Epl) as [Es En].
    exists (regexp_patch (p0 :: ps') sel), st', (PParserP PRegexp (p0 :: ps') cur'). split.
    - cbn [process]. rewrite Hp. cbn [bind]. change (pp_val p0) with (re_source (p0 :: ps')). rewrite Epl, Es, En. reflexivity.
    - now apply (A7 sinv_regexp ms sel done m swap).
  Qed.
  Lemma pinv_drop cur done m swap ps : pinv cur done m swap -> (m = MFresh \/ m = MParsed) ->
    pinv (PDropP ps cur) (done ++ [PDrop ps]) MParsed swap.
  Proof.
    intros [sel [st' [cur' [Hp Hs]]]] Hm. exists (drop_patch ps sel), st', (PDropP ps cur'). split.
    - cbn [process]. rewrite Hp. cbn [bind]. reflexivity.
    - now apply (A7 sinv_drop ms sel done m swap ps).
  Qed.
  Lemma pinv_label_filter cur done m f : pinv cur done m false -> (m = MFresh \/ m = MFilt) -> lf_supported f = true -> lf_oracle_ok parse_float f ->
    pinv (PLabelFilterP f cur) (done ++ [PLabelFilter f]) MFilt false.
  Proof.
    intros [sel [st' [cur' [Hp Hs]]]] Hmode Hsup Hor. destruct (lf_cond_some_g None f Hsup) as [cond Hc].
    exists (and_where [cond] sel), st', (PLabelFilterP f cur'). split.
    - cbn [process]. rewrite Hp. cbn [bind]. rewrite Hc. reflexivity.
    - apply (A7 sinv_filter ms sel done m cond (fun u => lf_ok re_match parse_float (p_labels (snd u)) f) (PLabelFilter f) Hs Hmode).
      + intros T src out _ t Ht b Hb Hl.
        apply (A7 ev_lf_cond_g None [(b ++ src t)%list] (p_labels (snd (out t)))); [|exact Hc|exact Hor].
        intros name. cbn [label_expr]. apply ev_labels_idx. now apply lookup_app_some.
      + apply live_label_filter.
  Qed.
  Lemma pinv_line_filter cur done m op v rl : pinv cur done m false -> (m = MFresh \/ m = MFilt) ->
    stage_oracle_ok re_match parse_float (PLineFilter op v rl) ->
    pinv (PLineFilterP op v rl cur) (done ++ [PLineFilter op v rl]) MFilt false.
  Proof.
    intros [sel [st' [cur' [Hp Hs]]]] Hmode Hor.
    exists (and_where [line_filter_clause op v rl] sel), st', (PLineFilterP op v rl cur'). split.
    - cbn [process]. rewrite Hp. cbn [bind]. reflexivity.
    - apply (A7 sinv_filter ms sel done m (line_filter_clause op v rl) (fun u => line_ok re_match (x_line (fst u)) op v)
               (PLineFilter op v rl) Hs Hmode).
      + intros T src out Hsrc t Ht b Hb _. pose proof (Hsrc t Ht) as H1.
        apply (A7 ev_lft_clause (op, v, rl) (b ++ src t)%list [] (x_line (fst (out t)))); [|exact Hor].
        unfold line_row. rewrite lookup_alias_skip by (first [exact Hb|apply not_alias; reflexivity]). exact H1.
      + apply live_line_filter.
  Qed.
  Lemma pinv_renew cur done m swap : pinv cur done m swap -> pinv (PMainRenew cur true) done MFresh false.
  Proof.
    intros [sel [st' [cur' [Hp Hs]]]].
    exists (renew_select ("subsel_" ++ string_of_N (pid st' + 1)) sel). eexists. exists (PMainRenew cur' true). split.
    - cbn [process]. rewrite Hp. cbn [bind next_id]. reflexivity.
    - now apply (A7 sinv_renew ms _ sel done m swap).
  Qed.

  (* a template of the fragment (tpl_plain): it parses, and executing it succeeds on every label map *)
  Lemma plain_total ns :
    forallb (fun n => match n with
                      | LogqlTemplate.TText _ => true
                      | LogqlTemplate.TAct [[LogqlTemplate.OF _ []]] => true
                      | _ => false end) ns = true -> tpl_total ns.
  Proof.
    intros H ls. induction ns as [|n ns IH]; [discriminate|]. cbn [forallb] in H. apply andb_prop in H. destruct H as [Hn Hr].
    specialize (IH Hr). cbn [LogqlTemplate.tpl_exec]. destruct n as [t|cmds].
    - destruct (LogqlTemplate.tpl_exec ns ls); [discriminate|contradiction].
    - destruct cmds as [|c0 cs]; [discriminate Hn|]. destruct c0 as [|o os]; [discriminate Hn|].
      destruct o as [nm ch| |]; try discriminate Hn. destruct ch; [|discriminate Hn]. destruct os; [|discriminate Hn].
      destruct cs; [|discriminate Hn]. cbn [LogqlTemplate.act_exec].
      destruct (LogqlTemplate.tpl_exec ns ls); [discriminate|contradiction].
  Qed.
  Lemma pinv_lfmt cur done m swap tm : pinv cur done m swap -> (m = MFresh \/ m = MFilt) -> tpl_plain tm = true ->
    pinv (PLineFormatP tm cur) (done ++ [PLineFormat tm]) MFmt swap.
  Proof.
    intros [sel [st' [cur' [Hp Hs]]]] Hm Hpl. unfold tpl_plain in Hpl.
    destruct (LogqlTemplate.tpl_parse tm) as [ns| |] eqn:Ep; try discriminate.
    exists (lfmt_patch ns sel). eexists. exists (PLineFormatP tm cur'). split.
    - cbn [process]. rewrite Hp. cbn [bind next_id]. rewrite Ep. reflexivity.
    - apply (A7 sinv_lfmt ms sel done m swap tm ns Hs Hm Ep). now apply plain_total.
  Qed.

  (* ---------- the stages of the fragment, the renew flag, which stage an open select accepts ---------- *)
  Definition frag_stage (s : stage) : bool := is_filter s || is_json s || LogqlSem.is_drop s || is_regexp s || is_lfmt s.
  Definition compat (m : mode) (swap : bool) (s : stage) : Prop :=
    match s with
    | PParser PJson _ => m = MFresh \/ m = MParsed
    | PParser PRegexp _ => m = MFresh \/ m = MParsed
    | PDrop _ => m = MFresh \/ m = MParsed
    | PLineFilter _ _ _ | PLabelFilter _ => swap = false /\ (m = MFresh \/ m = MFilt)
    | PLineFormat _ => m = MFresh \/ m = MFilt
    | _ => False
    end.
  Definition mode_after (s : stage) : mode :=
    match s with PParser _ _ => MParsed | PDrop _ => MParsed | PLineFormat _ => MFmt | _ => MFilt end.
  Definition step (s : stage) (rn : bool) (cur : planner) : option planner :=
    match plan_stage s false cur with None => None | Some cur2 => Some (if rn then PMainRenew cur2 true else cur2) end.

  Lemma pinv_step cur done m swap s rn : pinv cur done m swap -> frag_stage s = true ->
    stage_oracle_ok re_match parse_float s -> compat m swap s ->
    exists cur3, step s rn cur = Some cur3
      /\ pinv cur3 (done ++ [s]) (if rn then MFresh else mode_after s) (if rn then false else swap).
  Proof.
    intros Hp Hf Hor Hc. unfold step.
    assert (H : exists cur2, plan_stage s false cur = Some cur2 /\ pinv cur2 (done ++ [s]) (mode_after s) swap).
    { destruct s as [op v rl|f|fn ps|tm| |lb|ps]; cbn [compat] in Hc; try contradiction.
      - destruct Hc as [-> Hc]. eexists. split; [reflexivity|]. now apply (pinv_line_filter cur done m).
      - destruct Hc as [-> Hc]. eexists. split; [reflexivity|]. unfold frag_stage in Hf. cbn [is_filter is_json LogqlSem.is_drop is_regexp is_lfmt orb] in Hf.
        rewrite !orb_false_r in Hf. now apply (pinv_label_filter cur done m).
      - destruct fn; try contradiction; unfold frag_stage in Hf; cbn [is_filter is_json LogqlSem.is_drop is_regexp is_lfmt orb] in Hf.
        + rewrite !orb_false_r in Hf. unfold json_ok in Hf. destruct (all_paths ps) as [paths|] eqn:Ep; [|discriminate].
          eexists. split; [reflexivity|]. now apply (pinv_json cur done m swap ps paths).
        + rewrite !orb_false_r in Hf. eexists. split; [reflexivity|]. now apply (pinv_regexp cur done m swap ps).
      - unfold frag_stage in Hf. cbn [is_filter is_json LogqlSem.is_drop is_regexp is_lfmt orb] in Hf.
        eexists. split; [reflexivity|]. now apply (pinv_lfmt cur done m swap tm).
      - eexists. split; [reflexivity|]. now apply (pinv_drop cur done m). }
    destruct H as [cur2 [-> Hp2]]. destruct rn.
    - eexists. split; [reflexivity|]. now apply (pinv_renew cur2 _ (mode_after s) swap).
    - eexists. split; [reflexivity|]. exact Hp2.
  Qed.

  Definition rn_flag (s : stage) (r : list stage) : bool :=
    match r with
    | [] => false
    | n :: _ => match s with
                | PLineFormat _ => true
                | _ => if is_parser s then negb (is_parser n) else if LogqlPlan.is_drop s then negb (LogqlPlan.is_drop n) else is_relabel n
                end
    end.
  Lemma renew_after_cons s r j i : (j <= i)%nat -> renew_after (s :: r) (Some j) i = rn_flag s r :: renew_after r (Some j) (S i).
  Proof.
    intros H. cbn [renew_after]. f_equal. unfold rn_flag. destruct r as [|n r']; [reflexivity|].
    rewrite (leb_correct _ _ H), andb_true_r. destruct s; reflexivity.
  Qed.
  Lemma compat_next s n r m swap : frag_stage s = true -> frag_stage n = true -> compat m swap s ->
    compat (if rn_flag s (n :: r) then MFresh else mode_after s) (if rn_flag s (n :: r) then false else swap) n.
  Proof.
    intros Hs Hn Hc. unfold rn_flag.
    destruct s as [op v rl|f|fn ps|tm| |lb|ps]; cbn [compat] in Hc; try contradiction;
      try (destruct fn; try contradiction);
      destruct n as [op' v' rl'|f'|fn' ps'|tm'| |lb'|ps']; try discriminate Hn;
      try (destruct fn'; try discriminate Hn);
      cbn [is_parser LogqlPlan.is_drop is_relabel negb mode_after compat]; intuition (subst; auto).
  Qed.

  Section CHAIN.
    Variable j : nat.
    Variable fp : planner.

    Lemma spl_rest : forall l i cur done m swap, (j < i)%nat -> forallb frag_stage l = true ->
      (forall s, List.In s l -> stage_oracle_ok re_match parse_float s) ->
      pinv cur done m swap -> (match l with s :: _ => compat m swap s | [] => True end) ->
      exists p m' swap', plan_spl l (map (fun _ => false) l) (renew_after l (Some j) i) i (Some j) fp cur = Some p
                         /\ pinv p (done ++ l) m' swap'.
    Proof.
      induction l as [|s r IH]; intros i cur done m swap Hi Hf Hor Hp Hc.
      - exists cur, m, swap. split; [reflexivity|]. now rewrite app_nil_r.
      - cbn [forallb] in Hf. apply andb_prop in Hf. destruct Hf as [Hfs Hfr].
        destruct (pinv_step cur done m swap s (rn_flag s r) Hp Hfs (Hor s (or_introl eq_refl)) Hc) as [cur3 [Hst Hp3]].
        rewrite renew_after_cons by lia. cbn [map plan_spl].
        replace (Nat.eqb i j) with false by (symmetry; apply Nat.eqb_neq; lia).
        replace (Nat.leb j i) with true by (symmetry; apply Nat.leb_le; lia).
        unfold step in Hst. destruct (plan_stage s false cur) as [cur2|]; [|discriminate]. injection Hst as <-.
        destruct (IH (S i) _ (done ++ [s])%list _ _ (Nat.lt_lt_succ_r _ _ Hi) Hfr (fun s' Hs' => Hor s' (or_intror Hs')) Hp3) as [p [m' [swap' [Hpl Hpp]]]].
        + destruct r as [|n r']; [exact I|]. cbn [forallb] in Hfr. apply andb_prop in Hfr. destruct Hfr as [Hfn _].
          now apply (compat_next s n r' m swap).
        + exists p, m', swap'. split; [exact Hpl|]. now rewrite <- app_assoc in Hpp.
    Qed.
  End CHAIN.

  (* ================= the labels join: base case ================= *)
  Hypothesis Hdb : db_ok c d.
  Hypothesis Hne : ms <> [].
  Hypothesis Hlen : (List.length ms <= 64)%nat.
  Hypothesis Hguard : forall m, List.In m ms -> matcher_val_ok re_match m "" = true ->
    forall s, List.In s (d_series d) -> List.In (m_name m) (map fst (ts_labels s)).

  Definition c_nolimit : pctx :=
    {| c_from_ns := c_from_ns c; c_to_ns := c_to_ns c; c_limit := 0; c_asc := c_asc c; c_cluster := c_cluster c;
       c_type := c_type c; c_finalize := c_finalize c; c_step_ns := c_step_ns c; t_gin := t_gin c; t_samples := t_samples c;
       t_ts := t_ts c; t_ts_dist := t_ts_dist c; t_m15 := t_m15 c |}.
  Lemma nl_limit : c_limit c_nolimit = 0%Z. Proof. reflexivity. Qed.
  Lemma nl_db : to_sqldb c_nolimit d = to_sqldb c d. Proof. reflexivity. Qed.
  Lemma nl_asc : c_asc c_nolimit = c_asc c. Proof. reflexivity. Qed.
  Lemma nl_base w : main_base c_nolimit w = main_base c w. Proof. reflexivity. Qed.
  Lemma nl_leb : ts_leb c_nolimit = ts_leb c. Proof. reflexivity. Qed.
  (* the main select under the join: ORDER BY, no LIMIT *)
  Lemma es_main_nl w lfs F : ES (snd w) = Some (map fp_row F) ->
    (forall t, List.In t lfs -> stage_oracle_ok re_match parse_float (lft_stage t)) ->
    exists xs, Permutation xs (filter (main_pred re_match c F lfs) (d_samples d))
      /\ ES (set_orderby [Ord (Id "timestamp_ns") (c_asc c)] (main_filtered c w lfs)) = Some (map main_row (isort (ts_leb c) xs)).
  Proof.
    intros Hw Ho.
    destruct (es_main re_match parse_float json_get hash_labels tie tie_perm c_nolimit d w lfs F Hw Ho) as [xs [Hp He]].
    exists xs. split; [exact Hp|]. rewrite main_filtered_eq.
    (* c_nolimit differs from c in c_limit only: fold every occurrence back, piece by piece (one conversion of the whole
       statement took 18 s) *)
    unfold main_select, limited in He. rewrite nl_limit in He. cbn [Z.eqb] in He.
    rewrite nl_db, nl_asc, nl_base, nl_leb in He.
    exact He.
  Qed.

  Definition jinit (tl : list series_row) (x : sample) : pstate := {| p_labels := labels_in tl x; p_fp := x_fp x |}.
  Definition jsrc (t : lstate) : row :=
    (menv (fst t) ++ env_of "_time_series" [("fingerprint", VInt (p_fp (snd t))); ("labels", VMap (p_labels (snd t)))])%list.

  Lemma join_src mainreq tsreq (ml : list sample) (tl : list series_row) :
    ES mainreq = Some (map main_row ml) -> ES tsreq = Some (map ts_out tl) ->
    (forall x, List.In x ml -> exists s, List.In s tl /\ ts_fp s = x_fp x) ->
    exists tl', Permutation tl' tl
      /\ A7 src_rows (join_select c mainreq tsreq) = Some (map (fun x => jsrc (x, jinit tl' x)) ml).
  Proof.
    intros Hm Ht Hex.
    destruct (Permutation_map_inv (fun s => env_of "_time_series" (ts_out s)) _
                (tie_perm _ (map (fun s => env_of "_time_series" (ts_out s)) tl))) as [tl' [Etl Hperm]].
    exists tl'. split; [now apply Permutation_sym|].
    unfold src_rows, join_select.
    cbn [s_from s_joins set_joins set_from set_cols with_ add_withs set_withs empty_select fold_left].
    rewrite (A7 et_wref). rewrite Hm. cbn [option_map]. rewrite qualify_map.
    unfold join1.
    assert (Etp : (String.eqb (join_type c) "ANY LEFT " || String.eqb (join_type c) "GLOBAL ANY LEFT ") = true)
      by (unfold join_type; destruct (c_cluster c); reflexivity).
    rewrite Etp, (A7 et_wref), Ht. cbn [option_map]. rewrite qualify_map.
    fold jenv in Etl |- *. rewrite Etl.
    apply map_opt_map_total. intros x Hx.
    rewrite (find_opt_map_total jenv _ (fun s => Z.eqb (x_fp x) (ts_fp s))).
    2:{ intros s _. unfold Eq. cbn [ev].
        change (lookup "main.fingerprint" (env_of "main" (main_row x) ++ jenv s)%list) with (Some (VInt (x_fp x))).
        change (lookup "_time_series.fingerprint" (env_of "main" (main_row x) ++ jenv s)%list) with (Some (VInt (ts_fp s))).
        cbn iota beta. rewrite vcmp_eq_int. apply truthy_vbool. }
    destruct (find_some_of_exists (fun s => Z.eqb (x_fp x) (ts_fp s)) tl') as [s0 E0].
    { destruct (Hex x Hx) as [s [Hs Hfp]]. exists s. split.
      - apply (Permutation_in s Hperm Hs).
      - apply Z.eqb_eq. now symmetry. }
    rewrite E0. cbn [option_map]. unfold jsrc, jinit, labels_in. cbn [fst snd p_fp p_labels]. rewrite E0.
    apply find_some in E0. destruct E0 as [_ E0]. apply Z.eqb_eq in E0. rewrite E0. reflexivity.
  Qed.

  Section BASE.
    Variable pre : list stage.
    Hypothesis Hpre : forallb stage_supported pre = true.
    Hypothesis Hor_pre : forall s, List.In s pre -> stage_oracle_ok re_match parse_float s.

    Lemma slfs_in2 : forall l f, List.In f (slfs l) -> List.In (PLabelFilter f) l.
    Proof.
      induction l as [|s l IH]; intros f Hf; [destruct Hf|]. destruct s; cbn [slfs] in Hf; try (right; now apply IH).
      destruct Hf as [<-|Hf]; [now left|right; now apply IH].
    Qed.
    Lemma lfts_in2 : forall l t, List.In t (lfts l) -> List.In (lft_stage t) l.
    Proof.
      induction l as [|s l IH]; intros t Ht; [destruct Ht|]. destruct s; cbn [lfts] in Ht; try (right; now apply IH).
      destruct Ht as [<-|Ht]; [now left|right; now apply IH].
    Qed.

    Lemma pinv_join_gen (wl : bool) :
      pinv (PLabelsJoin (PMainOrderBy ["timestamp_ns"] (lf_wrap (lfts pre) (PFingerprintFilter (fp_planner ms (slfs pre)) PMainInit)))
                        (fp_planner ms (slfs pre)) PTimeSeriesInit wl) pre MFresh true.
    Proof.
      assert (Hfs : forall f, List.In f (slfs pre) -> lf_supported f = true /\ lf_oracle_ok parse_float f).
      { intros f Hf. apply slfs_in2 in Hf. split.
        - rewrite forallb_forall in Hpre. apply (Hpre _ Hf).
        - apply (Hor_pre _ Hf). }
      assert (Hlo : forall t, List.In t (lfts pre) -> stage_oracle_ok re_match parse_float (lft_stage t)).
      { intros t Ht. apply lfts_in2 in Ht. apply (Hor_pre _ Ht). }
      destruct (A7 process_fp Hctx ms Hne (slfs pre) Hfs st0) as [wq [st2 [Hpf [Hc2 Hq]]]].
      pose (w := ("fp_sel", wq)). set (F := fp_chain_list re_match parse_float c d ms (slfs pre)) in *.
      destruct (es_main_nl w (lfts pre) F Hq Hlo) as [xs [Hxs Hmain]].
      pose proof (A7 es_ts Hctx w F Hq) as Hts.
      set (ml := isort (ts_leb c) xs) in *.
      assert (Hguard' : absent_guard re_match {| sel_matchers := ms; sel_pipeline := pre |} d) by exact Hguard.
      assert (Hml : forall x, List.In x ml -> List.In x (d_samples d) /\ main_pred re_match c F (lfts pre) x = true).
      { intros x Hx. apply (Permutation_in _ (isort_perm (ts_leb c) xs)) in Hx. apply (Permutation_in _ Hxs) in Hx.
        now apply filter_In in Hx. }
      destruct (join_src _ _ ml (filter (ts_pred c F) (d_series d)) Hmain Hts) as [tl' [Htl Hsrc]].
      { intros x Hx. destruct (Hml x Hx) as [H1 H2].
        destruct (labels_in_sem re_match parse_float json_get c d Hdb ms pre Hne Hlen Hguard' _ x (Permutation_refl _) H1 H2)
          as [_ [s [Hs Hfp]]]. now exists s. }
      exists (join_select c (set_orderby [Ord (Id "timestamp_ns") (c_asc c)] (main_filtered c w (lfts pre))) (ts_select c w)).
      eexists. eexists. split.
      - cbn [process with_connector bind fp_cache clear_caches pst0]. rewrite Hpf. cbn [bind].
        rewrite (process_main c ("fp_sel", wq) (fp_planner ms (slfs pre)) (lfts pre) (set_fp_cache ("fp_sel", wq) st2)) by reflexivity.
        cbn [bind map]. unfold join_select, ts_select, w. cbn [fst snd]. reflexivity.
      - exists (Id "main.timestamp_ns"), (Id "main.fingerprint"), (Id "_time_series.labels"), (Id "main.string"), (Id "main.value"),
               None, (map (fun x => (x, jinit tl' x)) ml), jsrc, (fun t => t), (fun _ => true).
        split; [|split; [|split; [|split; [|split; [|split; [|split; [|split; [|split; [|split]]]]]]]]].
        + constructor; reflexivity.
        + rewrite map_map. exact Hsrc.
        + intros t Ht. apply in_map_iff in Ht. destruct Ht as [x [<- Hx]].
          constructor; intros b Hb; intros; rewrite (A7 ev_id_src) by (assumption || reflexivity); reflexivity.
        + intros _ t Ht. reflexivity.
        + intros t Ht. reflexivity.
        + rewrite filter_true, map_id. rewrite (live_filters re_match parse_float json_get hash_labels c d ms pre Hpre).
          assert (Hfilt : filter (main_pred re_match c F (lfts pre)) (d_samples d)
                          = filter (sample_ok re_match parse_float {| sel_matchers := ms; sel_pipeline := pre |} c d) (d_samples d)).
          { apply filter_ext_in. intros x Hx.
            apply (main_pred_sem re_match parse_float json_get c d Hdb ms pre Hne Hlen Hpre Hguard' x Hx). }
          rewrite <- Hfilt.
          rewrite (map_ext_in (fun x => (x, jinit tl' x)) (fun x => (x, init_state d x))).
          * apply Permutation_map. eapply Permutation_trans; [apply isort_perm|exact Hxs].
          * intros x Hx. destruct (Hml x Hx) as [H1 H2].
            destruct (labels_in_sem re_match parse_float json_get c d Hdb ms pre Hne Hlen Hguard' tl' x Htl H1 H2) as [Hl _].
            unfold jinit, init_state. now rewrite Hl.
        + reflexivity.
        + intros _ t Ht b Hb. apply in_map_iff in Ht. destruct Ht as [x [<- Hx]].
          rewrite (A7 ev_id_src) by (assumption || reflexivity). reflexivity.
        + intros _ Hsw. discriminate Hsw.
        + intros _ t Ht b Hb. apply in_map_iff in Ht. destruct Ht as [x [<- Hx]].
          rewrite (A7 ev_id_src) by (assumption || reflexivity). reflexivity.
        + intros _ t Ht. apply in_map_iff in Ht. destruct Ht as [x [<- Hx]]. split; [reflexivity|].
          intros b Hb. rewrite (A7 ev_id_src) by (assumption || reflexivity). reflexivity.
    Qed.
    Lemma pinv_join :
      pinv (PLabelsJoin (PMainOrderBy ["timestamp_ns"] (lf_wrap (lfts pre) (PFingerprintFilter (fp_planner ms (slfs pre)) PMainInit)))
                        (fp_planner ms (slfs pre)) PTimeSeriesInit true) pre MFresh true.
    Proof. exact (pinv_join_gen true). Qed.
  End BASE.

  (* ================= the planner of a fragment query: filters, then the first relabelling stage, then anything ================= *)
  Lemma is_filter_supported s : is_filter s = stage_supported s.
  Proof. destruct s; reflexivity. Qed.
  Definition jstage (s : stage) : bool := is_json s || LogqlSem.is_drop s || is_regexp s || is_lfmt s.
  Lemma frag_split : forall l, forallb frag_stage l = true -> existsb jstage l = true ->
    exists pre s0 rest, l = (pre ++ s0 :: rest)%list /\ forallb stage_supported pre = true /\ jstage s0 = true.
  Proof.
    induction l as [|s l IH]; intros Hf Hex; [discriminate|].
    cbn [forallb existsb] in Hf, Hex. apply andb_prop in Hf. destruct Hf as [Hs Hl].
    destruct (jstage s) eqn:E.
    - exists [], s, l. split; [reflexivity|]. split; [reflexivity|exact E].
    - cbn [orb] in Hex. destruct (IH Hl Hex) as [pre [s0 [rest [-> [Hp H0]]]]].
      exists (s :: pre), s0, rest. split; [reflexivity|]. split; [|exact H0].
      cbn [forallb]. rewrite Hp, andb_true_r. unfold frag_stage in Hs. unfold jstage in E.
      rewrite <- !orb_assoc in Hs. rewrite <- !orb_assoc in E.
      rewrite E, orb_false_r in Hs.
      now rewrite <- is_filter_supported.
  Qed.
  (* behind the first stage that needs the labels no label filter is pushed down to the series table *)
  Lemma lfmt_simple_split : forall pre s0 rest, forallb stage_supported pre = true -> jstage s0 = true ->
    lfmt_simple_ok (pre ++ s0 :: rest) = true -> simple_ops (s0 :: rest) = map (fun _ => false) (s0 :: rest).
  Proof.
    induction pre as [|s pre IH]; intros s0 rest Hp H0 Hs.
    - cbn [app lfmt_simple_ok] in Hs. cbn [simple_ops]. destruct (is_relabel s0) eqn:E; [reflexivity|].
      destruct s0; try discriminate H0; try discriminate E.
      apply negb_true_iff in Hs. cbn [is_label_filter map]. now rewrite (simple_ops_no_lf rest Hs).
    - cbn [forallb] in Hp. apply andb_prop in Hp. destruct Hp as [H1 H2]. apply (IH s0 rest H2 H0).
      cbn [app lfmt_simple_ok] in Hs. destruct s; try discriminate H1; exact Hs.
  Qed.

  Section PREFIX.
    Variable rs : list stage.
    Variable s0 : stage.
    Variable rest : list stage.
    Hypothesis Ers : rs = s0 :: rest.
    Hypothesis Hjoin : match s0 with PParser _ _ | PDrop _ | PLineFormat _ => True | _ => False end.
    Hypothesis Hsimple : simple_ops rs = map (fun _ => false) rs.

    Lemma pre_simple : forall pre, forallb stage_supported pre = true ->
      simple_ops (pre ++ rs) = (map is_label_filter pre ++ map (fun _ => false) rs)%list.
    Proof.
      induction pre as [|s pre IH]; intros H.
      - cbn [app map]. exact Hsimple.
      - cbn [forallb] in H. apply andb_prop in H. destruct H as [Hs Hl]. cbn [app simple_ops map].
        destruct s; try discriminate; cbn [is_relabel is_label_filter]; now rewrite IH.
    Qed.
    Lemma pre_lji : forall pre i, forallb stage_supported pre = true ->
      labels_join_idx (pre ++ rs) (map is_label_filter pre ++ map (fun _ => false) rs) i = Some (i + List.length pre)%nat.
    Proof.
      induction pre as [|s pre IH]; intros i H.
      - cbn [app map List.length]. rewrite Ers. cbn [map labels_join_idx]. rewrite Nat.add_0_r.
        destruct s0; try contradiction; reflexivity.
      - cbn [forallb] in H. apply andb_prop in H. destruct H as [Hs Hl]. cbn [app map labels_join_idx List.length].
        rewrite Nat.add_succ_r, <- Nat.add_succ_l.
        destruct s; try discriminate; cbn [is_label_filter]; now apply IH.
    Qed.
    Lemma pre_renew : forall pre i j, forallb stage_supported pre = true -> j = (i + List.length pre)%nat ->
      renew_after (pre ++ rs) (Some j) i = (map (fun _ => false) pre ++ renew_after rs (Some j) j)%list.
    Proof.
      induction pre as [|s pre IH]; intros i j H Hj.
      - cbn [app map List.length] in *. rewrite Nat.add_0_r in Hj. now subst j.
      - cbn [forallb] in H. apply andb_prop in H. destruct H as [Hs Hl]. cbn [List.length] in Hj.
        cbn [app renew_after map]. rewrite (IH (S i) j Hl) by lia. f_equal.
        assert (Hlt : Nat.leb j i = false) by (apply Nat.leb_gt; lia).
        destruct (pre ++ rs)%list as [|n l']; [reflexivity|].
        destruct s; try discriminate; cbn [is_parser LogqlPlan.is_drop]; now rewrite Hlt, andb_false_r.
    Qed.
    Lemma pre_plan_ts : forall pre acc, forallb stage_supported pre = true ->
      fold_left (fun fp sb => match fst sb, snd sb with PLabelFilter f, true => PSimpleLabelFilter f fp | _, _ => fp end)
                (combine (pre ++ rs) (map is_label_filter pre ++ map (fun _ => false) rs)) acc
      = fold_left (fun fp f => PSimpleLabelFilter f fp) (slfs pre) acc.
    Proof.
      induction pre as [|s pre IH]; intros acc H.
      - cbn [app map slfs fold_left]. clear Ers Hsimple. induction rs as [|a l IHl] in acc |- *; [reflexivity|].
        cbn [map combine fold_left fst snd]. destruct a; apply IHl.
      - cbn [forallb] in H. apply andb_prop in H. destruct H as [Hs Hl].
        cbn [app map combine fold_left fst snd slfs]. destruct s; try discriminate; cbn [is_label_filter fold_left]; now apply IH.
    Qed.
    Lemma pre_plan_spl fp : forall pre i j cur, forallb stage_supported pre = true -> j = (i + List.length pre)%nat ->
      plan_spl (pre ++ rs) (map is_label_filter pre ++ map (fun _ => false) rs)
               (map (fun _ => false) pre ++ renew_after rs (Some j) j) i (Some j) fp cur
      = plan_spl rs (map (fun _ => false) rs) (renew_after rs (Some j) j) j (Some j) fp (lf_wrap (lfts pre) cur).
    Proof.
      induction pre as [|s pre IH]; intros i j cur H Hj.
      - cbn [app map List.length lfts lf_wrap fold_left] in *. rewrite Nat.add_0_r in Hj. now subst j.
      - cbn [forallb] in H. apply andb_prop in H. destruct H as [Hs Hl]. cbn [List.length] in Hj.
        cbn [app map plan_spl]. replace (Nat.eqb i j) with false by (symmetry; apply Nat.eqb_neq; lia).
        destruct s; try discriminate; cbn [plan_stage is_label_filter lfts]; rewrite (IH (S i) j _ Hl) by lia; reflexivity.
    Qed.
  End PREFIX.

  (* ================= the outermost select and the theorem ================= *)
  Definition fin_row2 (t : lstate) : row :=
    [("fingerprint", VInt (p_fp (snd t))); ("labels", VMap (p_labels (snd t))); ("string", VStr (x_line (fst t)));
     ("timestamp_ns", VInt (x_ts (fst t)))].
  Lemma es_final2 req swap (pl : list lstate) : ES req = Some (map (st_row swap) pl) ->
    exists rows, ES (final_select c req) = Some rows /\ Permutation rows (map fin_row2 pl).
  Proof.
    intros Hr.
    destruct (order_groups_gen re_match parse_float json_get hash_labels tie tie_perm c d [Ord (Id "fingerprint") (c_asc c); Ord (Id "timestamp_ns") (c_asc c)]
                (fun t => [(fin_row2 t ++ env_of "prefinal" (st_row swap t))%list])
                (fun t => [VInt (p_fp (snd t)); VInt (x_ts (fst t))]) pl)
      as [pl' [Hperm Hord]]; [discriminate|reflexivity|reflexivity|].
    eexists. split.
    - rewrite (A7 esel_flat) by reflexivity.
      change (s_from (final_select c req)) with (Some (WRef "prefinal" req)).
      change (s_prewhere (final_select c req)) with (@None expr). change (s_where (final_select c req)) with (@None expr).
      change (s_limit (final_select c req)) with (@None expr).
      change (s_orderby (final_select c req)) with [Ord (Id "fingerprint") (c_asc c); Ord (Id "timestamp_ns") (c_asc c)].
      change (s_cols (final_select c req)) with
          [SimpleCol "prefinal.fingerprint" "fingerprint"; SimpleCol "prefinal.labels" "labels";
           SimpleCol "prefinal.string" "string"; SimpleCol "prefinal.timestamp_ns" "timestamp_ns"].
      cbn iota beta. rewrite (A7 et_wref), Hr. cbn [option_map]. rewrite qualify_map, map_map.
      rewrite (map_ext _ (fun t => (fin_row2 t ++ env_of "prefinal" (st_row swap t))%list)) by (intros t; destruct swap; reflexivity).
      rewrite (filter_opt_total _ (fun _ => true)) by (intros r _; reflexivity).
      rewrite filter_true, map_map.
      match goal with |- match ?O with _ => _ end = _ => pose proof (Hord : O = _) as HO; rewrite HO end.
      apply (map_opt_map_total _ _ fin_row2). intros t _. destruct swap; reflexivity.
    - apply Permutation_map. eapply Permutation_trans; [apply isort_perm|exact Hperm].
  Qed.

  (* the outermost select of Plan(script, false): ORDER BY timestamp_ns only *)
  Definition bp_final_select (req : select) : select :=
    set_orderby [Ord (Id "timestamp_ns") (c_asc c)]
      (set_from (WRef "prefinal" req)
        (set_cols [SimpleCol "prefinal.fingerprint" "fingerprint"; SimpleCol "prefinal.labels" "labels";
                   SimpleCol "prefinal.string" "string"; SimpleCol "prefinal.timestamp_ns" "timestamp_ns"]
          (with_ [("prefinal", req)] empty_select))).
  Lemma es_final_bp req swap (pl : list lstate) : ES req = Some (map (st_row swap) pl) ->
    exists pl', Permutation pl' pl /\ ES (bp_final_select req) = Some (map fin_row2 (isort (lts_leb c) pl')).
  Proof.
    intros Hr.
    destruct (order_groups_gen re_match parse_float json_get hash_labels tie tie_perm c d [Ord (Id "timestamp_ns") (c_asc c)]
                (fun t => [(fin_row2 t ++ env_of "prefinal" (st_row swap t))%list])
                (fun t => [VInt (x_ts (fst t))]) pl)
      as [pl' [Hperm Hord]]; [discriminate|reflexivity|reflexivity|].
    exists pl'. split; [exact Hperm|].
    rewrite (A7 esel_flat) by reflexivity.
    change (s_from (bp_final_select req)) with (Some (WRef "prefinal" req)).
    change (s_prewhere (bp_final_select req)) with (@None expr). change (s_where (bp_final_select req)) with (@None expr).
    change (s_limit (bp_final_select req)) with (@None expr).
    change (s_orderby (bp_final_select req)) with [Ord (Id "timestamp_ns") (c_asc c)].
    change (s_cols (bp_final_select req)) with
        [SimpleCol "prefinal.fingerprint" "fingerprint"; SimpleCol "prefinal.labels" "labels";
         SimpleCol "prefinal.string" "string"; SimpleCol "prefinal.timestamp_ns" "timestamp_ns"].
    cbn iota beta. rewrite (A7 et_wref), Hr. cbn [option_map]. rewrite qualify_map, map_map.
    rewrite (map_ext _ (fun t => (fin_row2 t ++ env_of "prefinal" (st_row swap t))%list)) by (intros t; destruct swap; reflexivity).
    rewrite (filter_opt_total _ (fun _ => true)) by (intros r _; reflexivity).
    rewrite filter_true, map_map.
    match goal with |- match ?O with _ => _ end = _ => pose proof (Hord : O = _) as HO; rewrite HO end.
    rewrite (isort_ext _ (lts_leb c)) by (intros a b; unfold ord_dirs; cbn [map]; apply keys_leb_1).
    apply (map_opt_map_total _ _ fin_row2). intros t _. destruct swap; reflexivity.
  Qed.

  Lemma process_finalizer_bp P sel st' P' : process P c st0 = Some (sel, st', P') -> c_finalize c = true ->
    process (PMainFinalizer P false false) c pst0 = Some (bp_final_select sel, st', PMainFinalizer P' false false).
  Proof. intros H Hf. cbn [process]. rewrite H. cbn [bind]. rewrite Hf. reflexivity. Qed.

  Lemma src_rows_set_orderby o q : A7 src_rows (set_orderby o q) = A7 src_rows q.
  Proof. reflexivity. Qed.
  Lemma src_rows_set_limit l q : A7 src_rows (set_limit l q) = A7 src_rows q.
  Proof. reflexivity. Qed.
  Lemma lts_leb_total a b : lts_leb c a b = true \/ lts_leb c b a = true.
  Proof. unfold lts_leb, ts_leb. destruct (c_asc c); rewrite !Z.leb_le; lia. Qed.
  Lemma lts_leb_trans a b e : lts_leb c a b = true -> lts_leb c b e = true -> lts_leb c a e = true.
  Proof. unfold lts_leb, ts_leb. destruct (c_asc c); rewrite !Z.leb_le; lia. Qed.

  Lemma sorted_mkout2 L : StronglySorted (fun a b => lts_leb c a b = true) L ->
    ts_sorted (c_asc c) (map mkout2 L).
  Proof.
    unfold ts_sorted. induction 1 as [|t l Hs IH Hall]; cbn [map]; constructor; [exact IH|].
    rewrite Forall_forall in *. intros o Ho. apply in_map_iff in Ho. destruct Ho as [u [<- Hu]].
    specialize (Hall u Hu). unfold lts_leb, ts_leb in Hall. cbn [mkout2 o_ts].
    destruct (c_asc c); now apply Z.leb_le.
  Qed.

  (* Plan(script, false) of a pipeline of filters only (the usual prefix in front of `| json` / `| logfmt` / line_format):
     the labels join closes the plan, the outermost select orders by timestamp *)
  Section BP1.
    Variable ppl : list stage.
    Hypothesis Hsup : forallb stage_supported ppl = true.
    Hypothesis Hor1 : forall s, List.In s ppl -> stage_oracle_ok re_match parse_float s.
    Let q1 := {| sel_matchers := ms; sel_pipeline := ppl |}.

    Lemma plan_log_fragment_bp :
      plan_log q1 false =
      Some (PMainFinalizer
              (PLabelsJoin (PMainOrderBy ["timestamp_ns"]
                              (lf_wrap (lfts ppl) (PFingerprintFilter (fp_planner ms (slfs ppl)) PMainInit)))
                           (fp_planner ms (slfs ppl)) PTimeSeriesInit false) false false).
    Proof.
      unfold plan_log, q1. cbn [sel_pipeline sel_matchers].
      rewrite (sup_no_parser ppl Hsup), (sup_lji ppl 0 Hsup), (sup_renew ppl 0 Hsup).
      unfold plan_ts. rewrite (sup_plan_ts ppl _ Hsup). fold (fp_planner ms (slfs ppl)).
      rewrite (sup_plan_spl _ ppl 0%nat _ Hsup). reflexivity.
    Qed.

    Theorem bp_plan1_correct :
      exists sel rows outs,
        bp_select q1 c = Some sel
        /\ eval re_match parse_float json_get hash_labels tie (to_sqldb c d) sel = Some rows
        /\ map row_out rows = map Some outs
        /\ Permutation outs (log_rows2 re_match parse_float json_get hash_labels q1 c d)
        /\ ts_sorted (c_asc c) outs.
    Proof.
      destruct (pinv_join_gen ppl Hsup Hor1 false) as [sel [st' [cur' [Hproc Hs]]]].
      destruct (ctx_names c Hctx) as [_ [_ [_ [_ [_ [Hfin Hl0]]]]]].
      destruct (A7 sinv_closed ms sel ppl MFresh true Hs) as [U [HU HpermU]].
      destruct (es_final_bp sel true U HU) as [pl' [Hpl' Hfinal]].
      exists (bp_final_select sel), (map fin_row2 (isort (lts_leb c) pl')), (map mkout2 (isort (lts_leb c) pl')).
      split; [|split; [exact Hfinal|split; [|split]]].
      - unfold bp_select. rewrite plan_log_fragment_bp. rewrite (process_finalizer_bp _ _ _ _ Hproc Hfin). reflexivity.
      - rewrite !map_map. apply map_ext. intros t. reflexivity.
      - unfold q1. rewrite (log_rows2_live ppl (sup_no_lfmt ppl Hsup)). apply Permutation_map.
        eapply Permutation_trans; [apply isort_perm|]. eapply Permutation_trans; [exact Hpl'|exact HpermU].
      - apply sorted_mkout2. apply (isort_sorted (lts_leb c) lts_leb_total lts_leb_trans).
    Qed.
  End BP1.

  Section FINAL.
    Variable ppl : list stage.
    Hypothesis Hfrag : forallb frag_stage ppl = true.
    Hypothesis Hex : existsb jstage ppl = true.
    Hypothesis Hsimp : lfmt_simple_ok ppl = true.
    Hypothesis Hor : forall s, List.In s ppl -> stage_oracle_ok re_match parse_float s.
    Let q := {| sel_matchers := ms; sel_pipeline := ppl |}.

    Lemma plan_log2_fin fin : exists p m swap,
      plan_log q fin = Some (PMainFinalizer (if fin then PMainLimit (PMainOrderBy ["timestamp_ns"] p) else PMainOrderBy ["timestamp_ns"] p)
                                            false fin) /\ pinv p ppl m swap.
    Proof.
      destruct (frag_split ppl Hfrag Hex) as [pre [s0 [rest [E [Hpre H0]]]]].
      assert (Hjoin : match s0 with PParser _ _ | PDrop _ | PLineFormat _ => True | _ => False end)
        by (destruct s0; cbn in H0; try discriminate H0; exact I).
      assert (Hsimple : simple_ops (s0 :: rest) = map (fun _ => false) (s0 :: rest)).
      { apply (lfmt_simple_split pre s0 rest Hpre H0). now rewrite <- E. }
      assert (Hf2 : forallb frag_stage pre = true /\ frag_stage s0 = true /\ forallb frag_stage rest = true).
      { rewrite E, forallb_app in Hfrag. cbn [forallb] in Hfrag. apply andb_prop in Hfrag. destruct Hfrag as [H1 H2].
        apply andb_prop in H2. tauto. }
      destruct Hf2 as [_ [Hfs0 Hfrest]].
      assert (Hor_pre : forall s, List.In s pre -> stage_oracle_ok re_match parse_float s).
      { intros s Hs. apply Hor. rewrite E. apply in_or_app. now left. }
      assert (Hor0 : stage_oracle_ok re_match parse_float s0).
      { apply Hor. rewrite E. apply in_or_app. right. now left. }
      assert (Hor_rest : forall s, List.In s rest -> stage_oracle_ok re_match parse_float s).
      { intros s Hs. apply Hor. rewrite E. apply in_or_app. right. now right. }
      assert (Hc0 : compat MFresh true s0).
      { unfold jstage in H0. destruct s0 as [op v rl|f|fn ps|tm| |lb|ps]; cbn [is_json LogqlSem.is_drop is_regexp is_lfmt orb] in H0; try discriminate H0.
        - destruct fn; cbn [orb] in H0; try discriminate H0; now left.
        - now left.
        - now left. }
      pose proof (pinv_join pre Hpre Hor_pre) as Hj.
      destruct (pinv_step _ pre MFresh true s0 (rn_flag s0 rest) Hj Hfs0 Hor0 Hc0) as [cur3 [Hst Hp3]].
      assert (Hst2 : exists cur2, plan_stage s0 false
                 (PLabelsJoin (PMainOrderBy ["timestamp_ns"] (lf_wrap (lfts pre) (PFingerprintFilter (fp_planner ms (slfs pre)) PMainInit)))
                              (fp_planner ms (slfs pre)) PTimeSeriesInit true) = Some cur2
               /\ cur3 = if rn_flag s0 rest then PMainRenew cur2 true else cur2).
      { unfold step in Hst. destruct (plan_stage s0 false _) as [cur2|]; [|discriminate]. injection Hst as <-. now exists cur2. }
      destruct Hst2 as [cur2 [Hps ->]].
      destruct (spl_rest (List.length pre) (fp_planner ms (slfs pre)) rest (S (List.length pre)) _ (pre ++ [s0])%list _ _
                  (Nat.lt_succ_diag_r _) Hfrest Hor_rest Hp3) as [p [m' [swap' [Hpl Hpp]]]].
      { destruct rest as [|n r']; [exact I|]. cbn [forallb] in Hfrest. apply andb_prop in Hfrest. destruct Hfrest as [Hfn _].
        now apply (compat_next s0 n r' MFresh true). }
      exists p, m', swap'. split; [|rewrite E; now rewrite <- app_assoc in Hpp].
      unfold plan_log, q. cbv zeta. cbn [sel_pipeline sel_matchers]. rewrite E.
      rewrite (pre_simple (s0 :: rest) Hsimple pre Hpre).
      rewrite (pre_lji (s0 :: rest) s0 rest eq_refl Hjoin pre 0 Hpre). cbn [Nat.add].
      rewrite (pre_renew (s0 :: rest) pre 0 (List.length pre) Hpre eq_refl).
      unfold plan_ts. rewrite (pre_plan_ts (s0 :: rest) pre _ Hpre). fold (fp_planner ms (slfs pre)).
      rewrite (pre_plan_spl (s0 :: rest) (fp_planner ms (slfs pre)) pre 0 (List.length pre) _ Hpre eq_refl).
      rewrite renew_after_cons by lia. cbn [map plan_spl]. rewrite Nat.eqb_refl, Nat.leb_refl.
      rewrite Hps, Hpl. destruct fin; reflexivity.
    Qed.
    Lemma plan_log2 : exists p m swap,
      plan_log q true = Some (PMainFinalizer (PMainLimit (PMainOrderBy ["timestamp_ns"] p)) false true) /\ pinv p ppl m swap.
    Proof. exact (plan_log2_fin true). Qed.

    Theorem log_plan2_correct :
      exists sel rows outs,
        log_select q c = Some sel
        /\ eval re_match parse_float json_get hash_labels tie (to_sqldb c d) sel = Some rows
        /\ map row_out rows = map Some outs
        /\ logql_sem3 re_match parse_float json_get hash_labels q c d outs.
    Proof.
      destruct plan_log2 as [p [m [swap [Hplan [sel [st' [cur' [Hproc Hs]]]]]]]].
      destruct (ctx_names c Hctx) as [_ [_ [_ [_ [_ [Hfin Hl0]]]]]].
      destruct Hs as [e_ts [e_fp [e_lab [e_str [e_val [w [T [src [out [keep [Hf [Hsrc [Hcs [Hstr [Hw [Hperm _]]]]]]]]]]]]]]]].
      pose (sel_o := set_orderby [Ord (Id "timestamp_ns") (c_asc c)] sel).
      pose (sel_l := if Z.eqb (c_limit c) 0 then sel_o else set_limit (Some (IntV (c_limit c))) sel_o).
      assert (Hf' : flat5 sel_l (cols5 swap e_ts e_fp e_lab e_str e_val) w [Ord (Id "timestamp_ns") (c_asc c)]
                          (if Z.eqb (c_limit c) 0 then None else Some (IntV (c_limit c)))).
      { unfold sel_l, sel_o. destruct (c_limit c =? 0)%Z.
        - eapply flat5_set_orderby. exact Hf.
        - eapply flat5_set_limit. eapply flat5_set_orderby. exact Hf. }
      assert (Hsrc' : A7 src_rows sel_l = Some (map src T)).
      { unfold sel_l, sel_o. destruct (c_limit c =? 0)%Z; rewrite ?src_rows_set_limit, src_rows_set_orderby; exact Hsrc. }
      destruct (es_five_sorted re_match parse_float json_get hash_labels tie tie_perm c d sel_l swap e_ts e_fp e_lab e_str e_val w T src out keep
                  Hf' Hsrc' Hcs (A7 wsem_cond w T src out keep swap Hw)) as [ys [Hys Hes]].
      set (pl := limited c (isort (lts_leb c) ys)) in *.
      destruct (es_final2 sel_l swap pl Hes) as [rows [Hfinal Hrows]].
      assert (Hout : map row_out (map fin_row2 pl) = map Some (map mkout2 pl)).
      { rewrite !map_map. apply map_ext. intros t. reflexivity. }
      pose proof (Permutation_map row_out Hrows) as Hp. rewrite Hout in Hp.
      destruct (Permutation_map_inv Some _ Hp) as [outs [Eouts Hpo]].
      exists (final_select c sel_l), rows, outs. split; [|split; [exact Hfinal|split; [exact Eouts|]]].
      - unfold log_select. rewrite Hplan. cbn [process]. rewrite Hproc. cbn [bind]. rewrite Hfin. cbn [negb map].
        unfold final_select, sel_l, sel_o. destruct (c_limit c =? 0)%Z; reflexivity.
      - assert (Hlive : Permutation ys (live re_match parse_float json_get hash_labels c d ms ppl)).
        { eapply Permutation_trans; [exact Hys|exact Hperm]. }
        unfold logql_sem3. unfold q. rewrite log_rows3_live. unfold pl, limited in Hpo.
        destruct (c_limit c =? 0)%Z eqn:El.
        + eapply Permutation_trans; [apply Permutation_sym, Hpo|]. apply Permutation_map.
          eapply Permutation_trans; [apply isort_perm|exact Hlive].
        + destruct (limit_topk (lts_leb c) lts_leb_total lts_leb_trans ys (Z.to_nat (c_limit c))) as [rest [Hperm' [Hlen' Hord]]].
          exists (map mkout2 rest). split; [|split].
          * eapply Permutation_trans; [apply Permutation_map, Permutation_sym, Hlive|].
            eapply Permutation_trans; [apply Permutation_map, Hperm'|]. rewrite map_app.
            apply Permutation_app_tail. exact Hpo.
          * rewrite <- (Permutation_length Hpo), !map_length, Hlen', (Permutation_length Hlive). lia.
          * intros r o Hr Ho. apply (Permutation_in _ (Permutation_sym Hpo)) in Hr.
            apply in_map_iff in Hr. destruct Hr as [x [<- Hx]]. apply in_map_iff in Ho. destruct Ho as [y [<- Hy]].
            specialize (Hord x y Hx Hy). unfold lts_leb, ts_leb in Hord. cbn [mkout2 o_ts].
            destruct (c_asc c); now apply Z.leb_le.
    Qed.

    (* round 8: the select UNDER the outermost one (what MainFinalizerPlanner.Process returns when ctx.CHFinalize is not set)
       already evaluates to the reference answer; its five-column rows read back as the lines *)
    Lemma log_plan2_inner :
      exists req rows outs,
        log_select q c = Some (final_select c req)
        /\ eval re_match parse_float json_get hash_labels tie (to_sqldb c d) req = Some rows
        /\ map row_out rows = map Some outs
        /\ logql_sem3 re_match parse_float json_get hash_labels q c d outs.
    Proof.
      destruct plan_log2 as [p [m [swap [Hplan [sel [st' [cur' [Hproc Hs]]]]]]]].
      destruct (ctx_names c Hctx) as [_ [_ [_ [_ [_ [Hfin Hl0]]]]]].
      destruct Hs as [e_ts [e_fp [e_lab [e_str [e_val [w [T [src [out [keep [Hf [Hsrc [Hcs [Hstr [Hw [Hperm _]]]]]]]]]]]]]]]].
      pose (sel_o := set_orderby [Ord (Id "timestamp_ns") (c_asc c)] sel).
      pose (sel_l := if Z.eqb (c_limit c) 0 then sel_o else set_limit (Some (IntV (c_limit c))) sel_o).
      assert (Hf' : flat5 sel_l (cols5 swap e_ts e_fp e_lab e_str e_val) w [Ord (Id "timestamp_ns") (c_asc c)]
                          (if Z.eqb (c_limit c) 0 then None else Some (IntV (c_limit c)))).
      { unfold sel_l, sel_o. destruct (c_limit c =? 0)%Z.
        - eapply flat5_set_orderby. exact Hf.
        - eapply flat5_set_limit. eapply flat5_set_orderby. exact Hf. }
      assert (Hsrc' : A7 src_rows sel_l = Some (map src T)).
      { unfold sel_l, sel_o. destruct (c_limit c =? 0)%Z; rewrite ?src_rows_set_limit, src_rows_set_orderby; exact Hsrc. }
      destruct (es_five_sorted re_match parse_float json_get hash_labels tie tie_perm c d sel_l swap e_ts e_fp e_lab e_str e_val w T src out keep
                  Hf' Hsrc' Hcs (A7 wsem_cond w T src out keep swap Hw)) as [ys [Hys Hes]].
      set (pl := limited c (isort (lts_leb c) ys)) in *.
      assert (Hx : exists outs, outs = map mkout2 pl /\ Permutation (map mkout2 pl) outs)
        by (eexists; split; [reflexivity|apply Permutation_refl]).
      destruct Hx as [outs [Eouts Hpo]].
      exists sel_l, (map (st_row swap) pl), outs. split; [|split; [exact Hes|split]].
      - unfold log_select. rewrite Hplan. cbn [process]. rewrite Hproc. cbn [bind]. rewrite Hfin. cbn [negb map].
        unfold final_select, sel_l, sel_o. destruct (c_limit c =? 0)%Z; reflexivity.
      - rewrite Eouts, !map_map. apply map_ext. intros t. destruct swap; reflexivity.
      - assert (Hlive : Permutation ys (live re_match parse_float json_get hash_labels c d ms ppl)).
        { eapply Permutation_trans; [exact Hys|exact Hperm]. }
        unfold logql_sem3. unfold q. rewrite log_rows3_live. unfold pl, limited in Hpo.
        destruct (c_limit c =? 0)%Z eqn:El.
        + eapply Permutation_trans; [apply Permutation_sym, Hpo|]. apply Permutation_map.
          eapply Permutation_trans; [apply isort_perm|exact Hlive].
        + destruct (limit_topk (lts_leb c) lts_leb_total lts_leb_trans ys (Z.to_nat (c_limit c))) as [rest [Hperm' [Hlen' Hord]]].
          exists (map mkout2 rest). split; [|split].
          * eapply Permutation_trans; [apply Permutation_map, Permutation_sym, Hlive|].
            eapply Permutation_trans; [apply Permutation_map, Hperm'|]. rewrite map_app.
            apply Permutation_app_tail. exact Hpo.
          * rewrite <- (Permutation_length Hpo), !map_length, Hlen', (Permutation_length Hlive). lia.
          * intros r o Hr Ho. apply (Permutation_in _ (Permutation_sym Hpo)) in Hr.
            apply in_map_iff in Hr. destruct Hr as [x [<- Hx]]. apply in_map_iff in Ho. destruct Ho as [y [<- Hy]].
            specialize (Hord x y Hx Hy). unfold lts_leb, ts_leb in Hord. cbn [mkout2 o_ts].
            destruct (c_asc c); now apply Z.leb_le.
    Qed.

    (* Plan(script, false): every line the pipeline lets through, whatever ctx.Limit says, in timestamp order *)
    Theorem bp_plan2_correct :
      exists sel rows outs,
        bp_select q c = Some sel
        /\ eval re_match parse_float json_get hash_labels tie (to_sqldb c d) sel = Some rows
        /\ map row_out rows = map Some outs
        /\ Permutation outs (log_rows3 re_match parse_float json_get hash_labels q c d)
        /\ ts_sorted (c_asc c) outs.
    Proof.
      destruct (plan_log2_fin false) as [p [m [swap [Hplan [sel [st' [cur' [Hproc Hs]]]]]]]].
      destruct (ctx_names c Hctx) as [_ [_ [_ [_ [_ [Hfin Hl0]]]]]].
      destruct Hs as [e_ts [e_fp [e_lab [e_str [e_val [w [T [src [out [keep [Hf [Hsrc [Hcs [Hstr [Hw [Hperm _]]]]]]]]]]]]]]]].
      pose (sel_o := set_orderby [Ord (Id "timestamp_ns") (c_asc c)] sel).
      assert (Hf' : flat5 sel_o (cols5 swap e_ts e_fp e_lab e_str e_val) w [Ord (Id "timestamp_ns") (c_asc c)] None).
      { unfold sel_o. eapply flat5_set_orderby. exact Hf. }
      assert (Hsrc' : A7 src_rows sel_o = Some (map src T)) by (unfold sel_o; rewrite src_rows_set_orderby; exact Hsrc).
      destruct (es_five_sorted_nl re_match parse_float json_get hash_labels tie tie_perm c d sel_o swap e_ts e_fp e_lab e_str e_val w T src out keep
                  Hf' Hsrc' Hcs (A7 wsem_cond w T src out keep swap Hw)) as [ys [Hys Hes]].
      destruct (es_final_bp sel_o swap _ Hes) as [pl' [Hpl' Hfinal]].
      exists (bp_final_select sel_o), (map fin_row2 (isort (lts_leb c) pl')), (map mkout2 (isort (lts_leb c) pl')).
      split; [|split; [exact Hfinal|split; [|split]]].
      - unfold bp_select. rewrite Hplan. cbn [process]. rewrite Hproc. cbn [bind]. rewrite Hfin. cbn [negb map]. reflexivity.
      - rewrite !map_map. apply map_ext. intros t. reflexivity.
      - unfold q. rewrite log_rows3_live. apply Permutation_map.
        eapply Permutation_trans; [apply isort_perm|]. eapply Permutation_trans; [exact Hpl'|].
        eapply Permutation_trans; [apply isort_perm|]. eapply Permutation_trans; [exact Hys|exact Hperm].
      - apply sorted_mkout2. apply (isort_sorted (lts_leb c) lts_leb_total lts_leb_trans).
    Qed.
  End FINAL.
End PLAN2.

(* ---------- fragment 2 (no line_format) inside the generalised development ---------- *)
Definition frag2_stage (s : stage) : bool := is_filter s || is_json s || LogqlSem.is_drop s || is_regexp s.
Lemma frag2_frag ppl : forallb frag2_stage ppl = true -> forallb frag_stage ppl = true.
Proof.
  induction ppl as [|s r IH]; intros H; [reflexivity|]. cbn [forallb] in *. apply andb_prop in H. destruct H as [Hs Hr].
  rewrite (IH Hr), andb_true_r. unfold frag_stage. unfold frag2_stage in Hs. now rewrite Hs.
Qed.
Lemma frag2_jstage ppl : existsb (fun s => is_json s || LogqlSem.is_drop s || is_regexp s) ppl = true -> existsb jstage ppl = true.
Proof.
  induction ppl as [|s r IH]; intros H; [discriminate|]. cbn [existsb] in *. apply orb_prop in H. destruct H as [H|H].
  - unfold jstage. now rewrite H.
  - rewrite (IH H). apply orb_true_r.
Qed.
Lemma frag2_no_lfmt ppl : forallb frag2_stage ppl = true -> no_lfmt ppl = true.
Proof.
  induction ppl as [|s r IH]; intros H; [reflexivity|]. cbn [forallb] in H. apply andb_prop in H. destruct H as [Hs Hr].
  cbn [no_lfmt forallb]. fold (no_lfmt r). rewrite (IH Hr). destruct s; try discriminate Hs; reflexivity.
Qed.
Lemma no_lfmt_simple ppl : no_lfmt ppl = true -> lfmt_simple_ok ppl = true.
Proof.
  induction ppl as [|s r IH]; intros H; [reflexivity|]. cbn [no_lfmt forallb] in H. apply andb_prop in H. destruct H as [Hs Hr].
  cbn [lfmt_simple_ok]. destruct (is_relabel s); [reflexivity|]. destruct s; try discriminate Hs; now apply IH.
Qed.

Theorem logql_breakpoint_plan_proof :
  forall (RG : ReGroups) re_match parse_float json_get hash_labels (tie : forall A : Type, list A -> list A),
    (forall A (l : list A), Permutation (tie A l) l) ->
    forall q c d, in_fragment q || in_fragment2 q = true -> oracle_ok re_match parse_float q -> ctx_ok c = true -> db_ok c d ->
    width_guard q = true -> absent_guard re_match q d ->
    bp_correct2 re_match parse_float json_get hash_labels tie q c d.
Proof.
  intros RG re_match parse_float json_get hash_labels tie Htie [ms ppl] c d Hfrag Hor Hctx Hdb Hw Hg.
  unfold width_guard in Hw. cbn [sel_matchers] in Hw. apply Nat.leb_le in Hw.
  destruct (in_fragment {| sel_matchers := ms; sel_pipeline := ppl |}) eqn:E1.
  { unfold in_fragment in E1. cbn [sel_matchers sel_pipeline] in E1. apply andb_prop in E1. destruct E1 as [Hne Hsup].
    apply (bp_plan1_correct re_match parse_float json_get hash_labels tie Htie c d Hctx ms Hdb); try assumption.
    - intros ->. discriminate.
    - lia. }
  cbn [orb] in Hfrag. apply Nat.leb_le in Hw.
  unfold in_fragment2 in Hfrag. cbn [sel_matchers sel_pipeline] in Hfrag.
  apply andb_prop in Hfrag. destruct Hfrag as [Hfrag Hex]. apply andb_prop in Hfrag. destruct Hfrag as [Hne Hall].
  unfold width_guard in Hw. cbn [sel_matchers] in Hw. apply Nat.leb_le in Hw.
  fold frag2_stage in Hall.
  destruct (bp_plan2_correct re_match parse_float json_get hash_labels tie Htie c d Hctx ms Hdb) with (ppl := ppl)
    as [sel [rows [outs [H1 [H2 [H3 [H4 H5]]]]]]]; try assumption.
  - intros ->. discriminate.
  - lia.
  - now apply frag2_frag.
  - now apply frag2_jstage.
  - apply no_lfmt_simple. now apply frag2_no_lfmt.
  - exists sel, rows, outs. split; [exact H1|]. split; [exact H2|]. split; [exact H3|]. split; [|exact H5].
    rewrite <- (log_rows3_no_lfmt re_match parse_float json_get hash_labels _ c d); [exact H4|]. now apply frag2_no_lfmt.
Qed.

(* ================= the property theorem ================= *)
Theorem logql_log_partial_parsers_proof :
  forall (RG : ReGroups) re_match parse_float json_get hash_labels (tie : forall A : Type, list A -> list A),
    (forall A (l : list A), Permutation (tie A l) l) ->
    forall q c d, in_fragment2 q = true -> oracle_ok re_match parse_float q -> ctx_ok c = true -> db_ok c d ->
    width_guard q = true -> absent_guard re_match q d ->
    log_correct2 re_match parse_float json_get hash_labels tie q c d.
Proof.
  intros RG re_match parse_float json_get hash_labels tie Htie [ms ppl] c d Hfrag Hor Hctx Hdb Hw Hg.
  unfold in_fragment2 in Hfrag. cbn [sel_matchers sel_pipeline] in Hfrag.
  apply andb_prop in Hfrag. destruct Hfrag as [Hfrag Hex]. apply andb_prop in Hfrag. destruct Hfrag as [Hne Hall].
  unfold width_guard in Hw. cbn [sel_matchers] in Hw. apply Nat.leb_le in Hw.
  fold frag2_stage in Hall.
  destruct (log_plan2_correct re_match parse_float json_get hash_labels tie Htie c d Hctx ms Hdb) with (ppl := ppl)
    as [sel [rows [outs [H1 [H2 [H3 H4]]]]]]; try assumption.
  - intros ->. discriminate.
  - lia.
  - now apply frag2_frag.
  - now apply frag2_jstage.
  - apply no_lfmt_simple. now apply frag2_no_lfmt.
  - exists sel, rows, outs. split; [exact H1|]. split; [exact H2|]. split; [exact H3|].
    unfold logql_sem2. unfold logql_sem3 in H4.
    rewrite <- (log_rows3_no_lfmt re_match parse_float json_get hash_labels _ c d); [exact H4|]. now apply frag2_no_lfmt.
Qed.

(* ================= line_format pipelines (fragment 3) ================= *)
Theorem logql_log_line_format_proof :
  forall (RG : ReGroups) re_match parse_float json_get hash_labels (tie : forall A : Type, list A -> list A),
    (forall A (l : list A), Permutation (tie A l) l) ->
    forall q c d, in_fragment3 q = true -> oracle_ok re_match parse_float q -> ctx_ok c = true -> db_ok c d ->
    width_guard q = true -> absent_guard re_match q d ->
    log_correct3 re_match parse_float json_get hash_labels tie q c d.
Proof.
  intros RG re_match parse_float json_get hash_labels tie Htie [ms ppl] c d Hfrag Hor Hctx Hdb Hw Hg.
  unfold in_fragment3 in Hfrag. cbn [sel_matchers sel_pipeline] in Hfrag.
  apply andb_prop in Hfrag. destruct Hfrag as [Hfrag Hsimp]. apply andb_prop in Hfrag. destruct Hfrag as [Hfrag Hex].
  apply andb_prop in Hfrag. destruct Hfrag as [Hne Hall].
  unfold width_guard in Hw. cbn [sel_matchers] in Hw. apply Nat.leb_le in Hw.
  apply (log_plan2_correct re_match parse_float json_get hash_labels tie Htie c d Hctx ms Hdb); try assumption.
  - intros ->. discriminate.
  - lia.
  - clear -Hex. induction ppl as [|s r IH]; [discriminate|]. cbn [existsb] in *. apply orb_prop in Hex. destruct Hex as [H|H].
    + unfold jstage. rewrite H. now rewrite !orb_true_r.
    + rewrite (IH H). apply orb_true_r.
Qed.

(* ---- the hypotheses are met by an ordinary query with a json stage, a label filter on the extracted label, a drop and
        line filters on both sides ---- *)
Definition ex2_line : string := "{""level"":""info"",""msg"":""ok""}".
Definition ex2_json (line : string) (path : list string) : string :=
  if String.eqb line ex2_line then
    match path with
    | [p] => if String.eqb p "level" then "info" else if String.eqb p "msg" then "ok" else ""
    | _ => "" end
  else "".
Definition ex2_hash (ls : labels) : Z := (100 + Z.of_nat (List.length ls))%Z.
Definition ex2_query : strsel :=
  {| sel_matchers := [{| m_name := "b"; m_op := MEq; m_val := "1" |}];
     sel_pipeline := [PLineFilter LFContains "lev" None;
                      PParser PJson [{| pp_label := "lvl"; pp_val := "level"; pp_path := Some ["level"] |};
                                     {| pp_label := "m"; pp_val := "msg"; pp_path := Some ["msg"] |}];
                      PLabelFilter (LF (HSimple {| slf_label := "lvl"; slf_fn := LEq; slf_str := Some "info"; slf_num := None |}) None None);
                      PDrop [("b", None); ("m", Some "nope")];
                      PLineFilter LFNotContains "zzz" None;
                      PParser PJson [{| pp_label := "lvl"; pp_val := "nothing"; pp_path := Some ["nothing"] |}]] |}.
Definition ex2_db : database :=
  {| d_gin := [gin_of w_series ("b", "1")]; d_series := [w_series];
     d_samples := [{| x_fp := 7; x_ts := 1700000000000000005; x_line := ex2_line; x_type := 1 |};
                   {| x_fp := 7; x_ts := 1700000000000000006; x_line := "plain text lev"; x_type := 1 |}] |}.
Lemma ex2_db_ok : db_ok ex_ctx ex2_db.
Proof.
  unfold db_ok, ex2_db. cbn [d_gin d_series d_samples]. split; [|split; [|split]].
  - intros g. split.
    + intros [<-|[]]. exists w_series, ("b", "1"). cbn. tauto.
    + intros [s [kv [[<-|[]] [[<-|[]] ->]]]]. now left.
  - intros s1 s2 [<-|[]] [<-|[]] _. reflexivity.
  - intros s [<-|[]]. cbn. constructor; [intros []|constructor].
  - intros x [<-|[<-|[]]]; exists w_series; (split; [now left|]); (split; [reflexivity|]); (split; [reflexivity|]);
      vm_compute; discriminate.
Qed.
Example partial_parsers_guards_met :
  in_fragment2 ex2_query = true /\ oracle_ok no_re no_float ex2_query /\ ctx_ok ex_ctx = true /\ db_ok ex_ctx ex2_db
  /\ width_guard ex2_query = true /\ absent_guard no_re ex2_query ex2_db
  /\ match log_select ex2_query ex_ctx with
     | Some sel => option_map (map row_out) (eval no_re no_float ex2_json ex2_hash tie_id (to_sqldb ex_ctx ex2_db) sel)
     | None => None end
     = Some [Some {| o_fp := 102; o_labels := [("lvl", "info"); ("m", "ok")]; o_line := ex2_line; o_ts := 1700000000000000005 |}].
Proof.
  split; [reflexivity|]. split.
  { intros s Hs. cbn in Hs. destruct Hs as [<-|[<-|[<-|[<-|[<-|[<-|[]]]]]]]; cbn; try tauto. split; [intros He; discriminate|exact I]. }
  split; [reflexivity|]. split; [exact ex2_db_ok|]. split; [reflexivity|]. split.
  { intros m Hm He s Hs. cbn in Hm. destruct Hm as [<-|[]]. vm_compute in He. discriminate. }
  vm_compute; reflexivity.
Qed.

(* ---- ... and by a query with a regexp stage whose expression nests a group in a NAMED group: the names are paired with the
        groups by opening parenthesis (ip, n, verb), the label filter reads an extracted label, the drop removes another ---- *)
Definition ex3_line : string := "10.2 get".
Definition ex3_re : string := "(?P<ip>(?P<n>\d+)\.\d+) (?P<verb>\w+)".
#[local] Instance ex3_groups : ReGroups | 0 := fun pat line =>
  if String.eqb pat "((\d+)\.\d+) (\w+)" then Some (if String.eqb line ex3_line then ["10.2"; "10"; "get"] else [""; ""; ""]) else None.
Definition ex3_query : strsel :=
  {| sel_matchers := [{| m_name := "b"; m_op := MEq; m_val := "1" |}];
     sel_pipeline := [PParser PRegexp [{| pp_label := ""; pp_val := ex3_re; pp_path := None |}];
                      PLabelFilter (LF (HSimple {| slf_label := "n"; slf_fn := LEq; slf_str := Some "10"; slf_num := None |}) None None);
                      PDrop [("ip", None)]] |}.
Definition ex3_db : database :=
  {| d_gin := [gin_of w_series ("b", "1")]; d_series := [w_series];
     d_samples := [{| x_fp := 7; x_ts := 1700000000000000005; x_line := ex3_line; x_type := 1 |};
                   {| x_fp := 7; x_ts := 1700000000000000006; x_line := "no match here"; x_type := 1 |}] |}.
Lemma ex3_db_ok : db_ok ex_ctx ex3_db.
Proof.
  unfold db_ok, ex3_db. cbn [d_gin d_series d_samples]. split; [|split; [|split]].
  - intros g. split.
    + intros [<-|[]]. exists w_series, ("b", "1"). cbn. tauto.
    + intros [s [kv [[<-|[]] [[<-|[]] ->]]]]. now left.
  - intros s1 s2 [<-|[]] [<-|[]] _. reflexivity.
  - intros s [<-|[]]. cbn. constructor; [intros []|constructor].
  - intros x [<-|[<-|[]]]; exists w_series; (split; [now left|]); (split; [reflexivity|]); (split; [reflexivity|]);
      vm_compute; discriminate.
Qed.
Example partial_regexp_guards_met :
  in_fragment2 ex3_query = true /\ oracle_ok (RG := ex3_groups) no_re no_float ex3_query /\ ctx_ok ex_ctx = true /\ db_ok ex_ctx ex3_db
  /\ width_guard ex3_query = true /\ absent_guard no_re ex3_query ex3_db
  /\ match log_select ex3_query ex_ctx with
     | Some sel => option_map (map row_out) (eval (RG := ex3_groups) no_re no_float ex2_json ex2_hash tie_id (to_sqldb ex_ctx ex3_db) sel)
     | None => None end
     = Some [Some {| o_fp := 103; o_labels := [("b", "1"); ("n", "10"); ("verb", "get")]; o_line := ex3_line; o_ts := 1700000000000000005 |}].
Proof.
  split; [reflexivity|]. split.
  { intros s Hs. cbn in Hs. destruct Hs as [<-|[<-|[<-|[]]]]; cbn [stage_oracle_ok lf_oracle_ok simple_oracle_ok]; try tauto.
    - intros line. change (re_sent _) with "((\d+)\.\d+) (\w+)". change (re_names _) with ["ip"; "n"; "verb"].
      unfold re_groups, ex3_groups. cbn [String.eqb Ascii.eqb Bool.eqb]. destruct (String.eqb line ex3_line); eexists; split; reflexivity.
    - split; [intros He; discriminate|exact I]. }
  split; [reflexivity|]. split; [exact ex3_db_ok|]. split; [reflexivity|]. split.
  { intros m Hm He s Hs. cbn in Hm. destruct Hm as [<-|[]]. vm_compute in He. discriminate. }
  vm_compute; reflexivity.
Qed.

(* ---- the breakpoint plan: ctx.Limit = 1, yet Plan(script, false) returns both matching lines, oldest first (forward) ---- *)
Definition bp_db : database :=
  {| d_gin := [gin_of w_series ("b", "1")]; d_series := [w_series];
     d_samples := [{| x_fp := 7; x_ts := 1700000000000000005; x_line := "hello"; x_type := 1 |};
                   {| x_fp := 7; x_ts := 1700000000000000003; x_line := "well"; x_type := 1 |};
                   {| x_fp := 7; x_ts := 1700000000000000004; x_line := "no"; x_type := 1 |}] |}.
Lemma bp_db_ok : db_ok ex_ctx bp_db.
Proof.
  unfold db_ok, bp_db. cbn [d_gin d_series d_samples]. split; [|split; [|split]].
  - intros g. split.
    + intros [<-|[]]. exists w_series, ("b", "1"). cbn. tauto.
    + intros [s [kv [[<-|[]] [[<-|[]] ->]]]]. now left.
  - intros s1 s2 [<-|[]] [<-|[]] _. reflexivity.
  - intros s [<-|[]]. cbn. constructor; [intros []|constructor].
  - intros x [<-|[<-|[<-|[]]]]; exists w_series; (split; [now left|]); (split; [reflexivity|]); (split; [reflexivity|]);
      vm_compute; discriminate.
Qed.
Example breakpoint_guards_met :
  in_fragment ex_query || in_fragment2 ex_query = true /\ oracle_ok (RG := no_groups) no_re no_float ex_query /\ ctx_ok ex_ctx = true
  /\ db_ok ex_ctx bp_db /\ width_guard ex_query = true /\ absent_guard no_re ex_query bp_db /\ c_limit ex_ctx = 1%Z
  /\ match bp_select ex_query ex_ctx with
     | Some sel => option_map (map row_out) (eval (RG := no_groups) no_re no_float no_json no_hash tie_id (to_sqldb ex_ctx bp_db) sel)
     | None => None end
     = Some [Some {| o_fp := 7; o_labels := [("b", "1")]; o_line := "well"; o_ts := 1700000000000000003 |};
             Some {| o_fp := 7; o_labels := [("b", "1")]; o_line := "hello"; o_ts := 1700000000000000005 |}].
Proof.
  split; [reflexivity|]. split.
  { intros s Hs. cbn in Hs. destruct Hs as [<-|[<-|[<-|[]]]]; cbn [stage_oracle_ok lf_oracle_ok simple_oracle_ok]; try tauto.
    split; [intros He; discriminate|exact I]. }
  split; [reflexivity|]. split; [exact bp_db_ok|]. split; [reflexivity|]. split.
  { intros m Hm He s Hs. cbn in Hm. destruct Hm as [<-|[<-|[]]].
    - vm_compute in He. discriminate.
    - destruct Hs as [<-|[]]. cbn. now left. }
  split; [reflexivity|]. vm_compute; reflexivity.
Qed.

(* ================= one statement for both fragments ================= *)
(* on a pipeline of filters the two reference semantics are the same list of lines *)
Lemma log_rows2_filters {RG : ReGroups} re_match parse_float json_get hash_labels q c d :
  forallb stage_supported (sel_pipeline q) = true ->
  log_rows2 re_match parse_float json_get hash_labels q c d = log_rows re_match parse_float q c d.
Proof.
  intros Hsup. destruct q as [ms ppl]. cbn [sel_pipeline] in Hsup.
  rewrite (log_rows2_live re_match parse_float json_get hash_labels c d ms ppl (sup_no_lfmt ppl Hsup)).
  rewrite (live_filters re_match parse_float json_get hash_labels c d ms ppl Hsup).
  unfold log_rows. rewrite map_map. apply map_ext. intros x. reflexivity.
Qed.
Theorem logql_log_correct_proof :
  forall (RG : ReGroups) re_match parse_float json_get hash_labels (tie : forall A : Type, list A -> list A),
    (forall A (l : list A), Permutation (tie A l) l) ->
    forall q c d, in_fragment q || in_fragment2 q = true -> oracle_ok re_match parse_float q -> ctx_ok c = true -> db_ok c d ->
    width_guard q = true -> absent_guard re_match q d ->
    log_correct2 re_match parse_float json_get hash_labels tie q c d.
Proof.
  intros RG re_match parse_float json_get hash_labels tie Htie q c d Hfrag Hor Hctx Hdb Hw Hg.
  destruct (in_fragment q) eqn:E1.
  - destruct (logql_log_partial_proof RG re_match parse_float json_get hash_labels tie Htie q c d E1 Hor Hctx Hdb Hw Hg)
      as [sel [rows [outs [H1 [H2 [H3 H4]]]]]].
    exists sel, rows, outs. split; [exact H1|]. split; [exact H2|]. split; [exact H3|].
    unfold in_fragment in E1. apply andb_prop in E1. destruct E1 as [_ Hsup].
    unfold logql_sem2. rewrite (log_rows2_filters re_match parse_float json_get hash_labels q c d Hsup). exact H4.
  - cbn [orb] in Hfrag.
    exact (logql_log_partial_parsers_proof RG re_match parse_float json_get hash_labels tie Htie q c d Hfrag Hor Hctx Hdb Hw Hg).
Qed.

(* ================= the three fragments in one statement (reference logql_sem3) ================= *)
Theorem logql_log_correct3_proof :
  forall (RG : ReGroups) re_match parse_float json_get hash_labels (tie : forall A : Type, list A -> list A),
    (forall A (l : list A), Permutation (tie A l) l) ->
    forall q c d, in_fragment q || in_fragment2 q || in_fragment3 q = true -> oracle_ok re_match parse_float q -> ctx_ok c = true ->
    db_ok c d -> width_guard q = true -> absent_guard re_match q d ->
    log_correct3 re_match parse_float json_get hash_labels tie q c d.
Proof.
  intros RG re_match parse_float json_get hash_labels tie Htie q c d Hfrag Hor Hctx Hdb Hw Hg.
  destruct (in_fragment q || in_fragment2 q) eqn:E12.
  - destruct (logql_log_correct_proof RG re_match parse_float json_get hash_labels tie Htie q c d E12 Hor Hctx Hdb Hw Hg)
      as [sel [rows [outs [H1 [H2 [H3 H4]]]]]].
    exists sel, rows, outs. split; [exact H1|]. split; [exact H2|]. split; [exact H3|].
    assert (Hn : no_lfmt (sel_pipeline q) = true).
    { apply orb_prop in E12. destruct E12 as [E|E].
      - unfold in_fragment in E. apply andb_prop in E. destruct E as [_ E]. now apply sup_no_lfmt.
      - unfold in_fragment2 in E. apply andb_prop in E. destruct E as [E _]. apply andb_prop in E. destruct E as [_ E].
        now apply frag2_no_lfmt. }
    unfold logql_sem3. rewrite (log_rows3_no_lfmt re_match parse_float json_get hash_labels q c d Hn). exact H4.
  - cbn [orb] in Hfrag. now apply logql_log_line_format_proof.
Qed.

(* ---- the hypotheses of the line_format theorem are met: a json stage, a REGULAR-EXPRESSION line filter and a line_format in
        one select (the filter tests the stored line: repair regex-line-filter-reads-alias), then a filter on the new line ---- *)
Definition ex4_re (s p : string) : bool := contains "lev" s.       (* stands for RE2 on the one expression used: l.v *)
Definition ex4_query : strsel :=
  {| sel_matchers := [{| m_name := "b"; m_op := MEq; m_val := "1" |}];
     sel_pipeline := [PParser PJson [{| pp_label := "lvl"; pp_val := "level"; pp_path := Some ["level"] |}];
                      PLineFilter LFRe "l.v" None;
                      PLineFormat "{{.lvl}}: done {x}";
                      PLineFilter LFContains "info: d" None] |}.
Example line_format_guards_met :
  in_fragment3 ex4_query = true /\ oracle_ok (RG := no_groups) ex4_re no_float ex4_query /\ ctx_ok ex_ctx = true /\ db_ok ex_ctx ex2_db
  /\ width_guard ex4_query = true /\ absent_guard ex4_re ex4_query ex2_db
  /\ match log_select ex4_query ex_ctx with
     | Some sel => option_map (map row_out) (eval (RG := no_groups) ex4_re no_float ex2_json ex2_hash tie_id (to_sqldb ex_ctx ex2_db) sel)
     | None => None end
     = Some [Some {| o_fp := 102; o_labels := [("b", "1"); ("lvl", "info")]; o_line := "info: done {x}"; o_ts := 1700000000000000005 |}].
Proof.
  split; [reflexivity|]. split.
  { intros s Hs. cbn in Hs. destruct Hs as [<-|[<-|[<-|[<-|[]]]]]; cbn; tauto. }
  split; [reflexivity|]. split; [exact ex2_db_ok|]. split; [reflexivity|]. split.
  { intros m Hm He s Hs. cbn in Hm. destruct Hm as [<-|[]]. vm_compute in He. discriminate. }
  vm_compute; reflexivity.
Qed.

(* ================= Plan(script, false) of a line_format pipeline (fragment 3), and of all three fragments =================
   The statement of bp_correct2 over the reference in which the line travels with the state (log_rows3), written out. *)
Theorem logql_breakpoint_plan_line_format_proof :
  forall (RG : ReGroups) re_match parse_float json_get hash_labels (tie : forall A : Type, list A -> list A),
    (forall A (l : list A), Permutation (tie A l) l) ->
    forall q c d, in_fragment3 q = true -> oracle_ok re_match parse_float q -> ctx_ok c = true -> db_ok c d ->
    width_guard q = true -> absent_guard re_match q d ->
    exists sel rows outs,
      bp_select q c = Some sel
      /\ eval re_match parse_float json_get hash_labels tie (to_sqldb c d) sel = Some rows
      /\ map row_out rows = map Some outs
      /\ Permutation outs (log_rows3 re_match parse_float json_get hash_labels q c d)
      /\ ts_sorted (c_asc c) outs.
Proof.
  intros RG re_match parse_float json_get hash_labels tie Htie [ms ppl] c d Hfrag Hor Hctx Hdb Hw Hg.
  unfold in_fragment3 in Hfrag. cbn [sel_matchers sel_pipeline] in Hfrag.
  apply andb_prop in Hfrag. destruct Hfrag as [Hfrag Hsimp]. apply andb_prop in Hfrag. destruct Hfrag as [Hfrag Hex].
  apply andb_prop in Hfrag. destruct Hfrag as [Hne Hall].
  unfold width_guard in Hw. cbn [sel_matchers] in Hw. apply Nat.leb_le in Hw.
  apply (bp_plan2_correct re_match parse_float json_get hash_labels tie Htie c d Hctx ms Hdb); try assumption.
  - intros ->. discriminate.
  - lia.
  - clear -Hex. induction ppl as [|s r IH]; [discriminate|]. cbn [existsb] in *. apply orb_prop in Hex. destruct Hex as [H|H].
    + unfold jstage. rewrite H. now rewrite !orb_true_r.
    + rewrite (IH H). apply orb_true_r.
Qed.
Theorem logql_breakpoint_plan_all_proof :
  forall (RG : ReGroups) re_match parse_float json_get hash_labels (tie : forall A : Type, list A -> list A),
    (forall A (l : list A), Permutation (tie A l) l) ->
    forall q c d, in_fragment q || in_fragment2 q || in_fragment3 q = true -> oracle_ok re_match parse_float q -> ctx_ok c = true ->
    db_ok c d -> width_guard q = true -> absent_guard re_match q d ->
    exists sel rows outs,
      bp_select q c = Some sel
      /\ eval re_match parse_float json_get hash_labels tie (to_sqldb c d) sel = Some rows
      /\ map row_out rows = map Some outs
      /\ Permutation outs (log_rows3 re_match parse_float json_get hash_labels q c d)
      /\ ts_sorted (c_asc c) outs.
Proof.
  intros RG re_match parse_float json_get hash_labels tie Htie q c d Hfrag Hor Hctx Hdb Hw Hg.
  destruct (in_fragment q || in_fragment2 q) eqn:E12.
  - destruct (logql_breakpoint_plan_proof RG re_match parse_float json_get hash_labels tie Htie q c d E12 Hor Hctx Hdb Hw Hg)
      as [sel [rows [outs [H1 [H2 [H3 [H4 H5]]]]]]].
    exists sel, rows, outs. split; [exact H1|]. split; [exact H2|]. split; [exact H3|]. split; [|exact H5].
    assert (Hn : no_lfmt (sel_pipeline q) = true).
    { apply orb_prop in E12. destruct E12 as [E|E].
      - unfold in_fragment in E. apply andb_prop in E. destruct E as [_ E]. now apply sup_no_lfmt.
      - unfold in_fragment2 in E. apply andb_prop in E. destruct E as [E _]. apply andb_prop in E. destruct E as [_ E].
        now apply frag2_no_lfmt. }
    rewrite (log_rows3_no_lfmt re_match parse_float json_get hash_labels q c d Hn). exact H4.
  - cbn [orb] in Hfrag. now apply logql_breakpoint_plan_line_format_proof.
Qed.
(* the statement Plan(script, false) builds for the example query of line_format_guards_met (whose hypotheses hold) evaluates
   to the formatted line: the breakpoint plan of a fragment-3 pipeline executed by SqlEval *)
Example line_format_bp_evaluates :
  match bp_select ex4_query ex_ctx with
  | Some sel => option_map (map row_out) (eval (RG := no_groups) ex4_re no_float ex2_json ex2_hash tie_id (to_sqldb ex_ctx ex2_db) sel)
  | None => None end
  = Some [Some {| o_fp := 102; o_labels := [("b", "1"); ("lvl", "info")]; o_line := "info: done {x}"; o_ts := 1700000000000000005 |}].
Proof. vm_compute; reflexivity. Qed.
