(* C07, part 2: the whole SQL-planned pipeline (line filters, label filters, json stages with parameters and drops
   IN ANY ORDER, in_fragment2). The SELECT produced by the planners (LogqlPlan.v), evaluated by SqlEval.v, returns
   the lines the reference semantics logql_sem2 (run_stages: a line travels with its current label map and
   fingerprint) defines.
   Part A: generic evaluation of a "five column" select (timestamp_ns, fingerprint, labels, string, value) whose
           labels / fingerprint bodies were patched by relabelling stages and whose WHERE holds filters.
   Part B: the meaning of the expressions the relabelling planners install (mapUpdate + json map, mapFilter, hash).
   Part C: the reference side (run_stages over a prefix; the list of live states).
   Part D: the invariant between "the select of the planner built for a prefix" and "the live states of the prefix",
           one step per stage kind, renew, the labels join as the base case.
   Part E: the planner chain of a query of the fragment, ORDER BY / LIMIT / final select, the theorem. *)
From Coq Require Import List ZArith NArith QArith String Ascii Bool Lia Permutation.
From Qryn Require Import lib.Strs model.Sql model.SqlRender model.Logql model.LogqlRegexp model.LogqlPlan model.SqlEval model.LogqlSem
  proofs.SqlEvalProofs proofs.LogqlSemProofs proofs.LogqlRegexpProofs.
From Qryn Require model.LogqlTemplate proofs.LogqlTemplateProofs.
Import ListNotations.
Open Scope string_scope.

(* ---------- lists ---------- *)
Lemma lookup_app_some k (a b : row) v : lookup k a = Some v -> lookup k (a ++ b)%list = Some v.
Proof.
  induction a as [|kv a IH]; cbn [lookup app]; [discriminate|].
  destruct (String.eqb k (fst kv)); [trivial|exact IH].
Qed.
Lemma lookup_app_none k (a b : row) : lookup k a = None -> lookup k (a ++ b)%list = lookup k b.
Proof.
  induction a as [|kv a IH]; cbn [lookup app]; [reflexivity|].
  destruct (String.eqb k (fst kv)); [discriminate|exact IH].
Qed.
Lemma lookup_not_key k (a : row) : ~ List.In k (map fst a) -> lookup k a = None.
Proof.
  induction a as [|kv a IH]; intros H; cbn [lookup]; [reflexivity|].
  destruct (String.eqb_spec k (fst kv)) as [->|Hne]; [exfalso; apply H; now left|].
  apply IH. intros Hin. apply H. now right.
Qed.
Lemma Permutation_filter {A} (p : A -> bool) l l' : Permutation l l' -> Permutation (filter p l) (filter p l').
Proof.
  induction 1 as [|x l l' _ IH|x y l|l l' l'' _ IH1 _ IH2]; cbn [filter].
  - constructor.
  - destruct (p x); [now constructor|exact IH].
  - destruct (p x), (p y); try apply Permutation_refl. apply perm_swap.
  - eapply Permutation_trans; eassumption.
Qed.
Lemma filter_filter {A} (p q : A -> bool) l : filter p (filter q l) = filter (fun a => q a && p a) l.
Proof.
  induction l as [|a l IH]; [reflexivity|]. cbn [filter]. destruct (q a); cbn [filter andb]; [|exact IH].
  destruct (p a); now rewrite IH.
Qed.
Lemma Forall2_snoc {A B} (R : A -> B -> Prop) l l' a b : Forall2 R l l' -> R a b -> Forall2 R (l ++ [a]) (l' ++ [b]).
Proof. intros H1 H2. apply Forall2_app; [exact H1|]. constructor; [exact H2|constructor]. Qed.

(* the aliases of a five column select *)
Definition alias5 : list string := ["timestamp_ns"; "fingerprint"; "labels"; "string"; "value"].
Definition alias_env (b : row) : Prop := forall k, List.In k (map fst b) -> List.In k alias5.
Lemma lookup_alias_skip k (b r : row) : alias_env b -> ~ List.In k alias5 -> lookup k (b ++ r)%list = lookup k r.
Proof. intros Hb Hk. apply lookup_app_none, lookup_not_key. intros Hin. apply Hk, Hb, Hin. Qed.
Lemma alias_env_nil : alias_env [].
Proof. intros k []. Qed.

Definition cols5 (swap : bool) (e_ts e_fp e_lab e_str e_val : expr) : list expr :=
  ((if swap then [Col e_fp "fingerprint"; Col e_ts "timestamp_ns"] else [Col e_ts "timestamp_ns"; Col e_fp "fingerprint"])
   ++ [Col e_lab "labels"; Col e_str "string"; Col e_val "value"])%list.
Definition vals5 (swap : bool) (vts vfp vlab vstr vval : value) : row :=
  ((if swap then [("fingerprint", vfp); ("timestamp_ns", vts)] else [("timestamp_ns", vts); ("fingerprint", vfp)])
   ++ [("labels", vlab); ("string", vstr); ("value", vval)])%list.

(* a result row: the line x with its current state; x_line of the first component is the CURRENT text of the line (a
   line_format stage rewrites it) *)
Definition lstate := (sample * pstate)%type.
Definition set_line (x : sample) (l : string) : sample := {| x_fp := x_fp x; x_ts := x_ts x; x_line := l; x_type := x_type x |}.
Lemma set_line_id x : set_line x (x_line x) = x.
Proof. destruct x; reflexivity. Qed.
Definition st_row (swap : bool) (t : lstate) : row :=
  vals5 swap (VInt (x_ts (fst t))) (VInt (p_fp (snd t))) (VMap (p_labels (snd t))) (VStr (x_line (fst t))) (VNum (inject_Z 0)).

Ltac alias_solve :=
  let k := fresh "k" in let Hk := fresh "Hk" in
  intros k Hk; cbn [map fst List.In app] in Hk; unfold alias5; cbn [List.In]; tauto.

Section BRIDGE2.
  Context {RG : ReGroups}.
  Variable re_match : string -> string -> bool.
  Variable parse_float : string -> option Q.
  Variable json_get : string -> list string -> string.
  Variable hash_labels : labels -> Z.
  Variable tie : forall A : Type, list A -> list A.
  Hypothesis tie_perm : forall A (l : list A), Permutation (tie A l) l.
  Variable c : pctx.
  Variable d : database.
  Hypothesis Hctx : ctx_ok c = true.

  Notation EV := (ev re_match parse_float json_get hash_labels tie (to_sqldb c d)).
  Notation ET := (etab re_match parse_float json_get hash_labels tie (to_sqldb c d)).
  Notation ES := (esel re_match parse_float json_get hash_labels tie (to_sqldb c d)).
  Notation RUN := (run_lstages re_match parse_float json_get hash_labels).

  (* ================= Part A: a five column select ================= *)
  (* what the bodies of the five columns mean on a source row r, for the line x in state st: every body is evaluated three
     times (twice while the aliases are bound, once for the projection), each time under alias bindings put in front of r *)
  Record colsem (e_ts e_fp e_lab e_str e_val : expr) (r : row) (t : lstate) : Prop := {
    cs_ts : forall b, alias_env b -> EV e_ts [(b ++ r)%list] = Some (VInt (x_ts (fst t)));
    cs_fp : forall b, alias_env b -> lookup "labels" b = Some (VMap (p_labels (snd t))) ->
              EV e_fp [(b ++ r)%list] = Some (VInt (p_fp (snd t)));
    cs_lab : forall b, alias_env b -> (lookup "string" b = None \/ lookup "string" b = Some (VStr (x_line (fst t)))) ->
              EV e_lab [(b ++ r)%list] = Some (VMap (p_labels (snd t)));
    cs_str : forall b, alias_env b -> (lookup "labels" b = None \/ lookup "labels" b = Some (VMap (p_labels (snd t)))) ->
              EV e_str [(b ++ r)%list] = Some (VStr (x_line (fst t)));
    cs_val : forall b, alias_env b -> EV e_val [(b ++ r)%list] = Some (VNum (inject_Z 0))
  }.

  Lemma arow5 swap e_ts e_fp e_lab e_str e_val r t : colsem e_ts e_fp e_lab e_str e_val r t ->
    arow EV (cols5 swap e_ts e_fp e_lab e_str e_val) r = (st_row swap t ++ r)%list.
  Proof.
    intros [Hts Hfp Hlab Hstr Hval].
    pose proof (Hts [] alias_env_nil) as Hts0. pose proof (Hlab [] alias_env_nil (or_introl eq_refl)) as Hlab0.
    pose proof (Hstr [] alias_env_nil (or_introl eq_refl)) as Hstr0. pose proof (Hval [] alias_env_nil) as Hval0.
    cbn [app] in Hts0, Hlab0, Hstr0, Hval0.
    unfold arow, st_row, vals5, cols5.
    destruct swap; cbn [alias_binds flat_map app String.eqb]; unfold row in *;
      rewrite Hts0, Hlab0, Hstr0, Hval0; destruct (EV e_fp [r]) as [v0|];
      (rewrite Hts by alias_solve); (rewrite Hlab by (alias_solve || (right; reflexivity)));
      (rewrite Hstr by (alias_solve || (right; reflexivity))); (rewrite Hval by alias_solve);
      (rewrite Hfp by (alias_solve || reflexivity)); reflexivity.
  Qed.

  Lemma st_row_alias swap t : alias_env (st_row swap t).
  Proof. destruct swap; unfold st_row, vals5; alias_solve. Qed.
  Lemma st_row_labels swap t : lookup "labels" (st_row swap t) = Some (VMap (p_labels (snd t))).
  Proof. destruct swap; reflexivity. Qed.
  Lemma st_row_string swap t : lookup "string" (st_row swap t) = Some (VStr (x_line (fst t))).
  Proof. destruct swap; reflexivity. Qed.

  Lemma project5 swap e_ts e_fp e_lab e_str e_val r t : colsem e_ts e_fp e_lab e_str e_val r t ->
    map_opt (fun c0 => match EV (col_body c0) [(st_row swap t ++ r)%list] with Some v => Some (col_name c0, v) | None => None end)
            (cols5 swap e_ts e_fp e_lab e_str e_val) = Some (st_row swap t).
  Proof.
    intros [Hts Hfp Hlab Hstr Hval].
    pose proof (Hts _ (st_row_alias swap t)) as H1. pose proof (Hfp _ (st_row_alias swap t) (st_row_labels swap t)) as H2.
    pose proof (Hlab _ (st_row_alias swap t) (or_intror (st_row_string swap t))) as H3.
    pose proof (Hstr _ (st_row_alias swap t) (or_intror (st_row_labels swap t))) as H4. pose proof (Hval _ (st_row_alias swap t)) as H5.
    unfold cols5. destruct swap; cbn [map_opt app col_body col_name]; rewrite H1, H2, H3, H4, H5; reflexivity.
  Qed.

  (* a SELECT without GROUP BY, as esel_flat but with joins *)
  Lemma esel_nogroup q : s_distinct q = false -> s_offset q = None -> s_unions q = [] ->
    s_groupby q = [] -> s_having q = None ->
    ES q =
    match fold_left (join1 tie ET EV) (s_joins q) (match s_from q with None => Some [[]] | Some f => ET f end) with
    | None => None
    | Some rows00 =>
      match filter_opt (fun r => match cond_ok EV (s_prewhere q) r, cond_ok EV (s_where q) r with
                                 | Some a, Some b => Some (a && b) | _, _ => None end) (map (arow EV (s_cols q)) rows00) with
      | None => None
      | Some rows1 =>
        match order_groups tie EV (s_orderby q) (map (fun r => [r]) rows1) with
        | None => None
        | Some sorted =>
          match (match s_limit q with
                 | None => Some sorted
                 | Some (IntV n) => Some (firstn (Z.to_nat n) (match s_orderby q with [] => tie _ sorted | _ => sorted end))
                 | Some _ => None end) with
          | None => None
          | Some out =>
            map_opt (fun g => map_opt (fun c0 => match EV (col_body c0) g with
                                                 | Some v => Some (col_name c0, v) | None => None end)
                                      (s_cols q)) out
          end
        end
      end
    end.
  Proof.
    intros H1 H2 H3 H5 H6. unfold esel, esel_gen. rewrite H1, H2, H3, H5, H6. reflexivity.
  Qed.

  (* the fields of a five column select: no DISTINCT / OFFSET / UNION / GROUP BY / HAVING / PREWHERE *)
  Record flat5 (q : select) (cols : list expr) (w : option expr) (ords : list expr) (lim : option expr) : Prop := {
    f_distinct : s_distinct q = false; f_offset : s_offset q = None; f_unions : s_unions q = [];
    f_groupby : s_groupby q = []; f_having : s_having q = None; f_prewhere : s_prewhere q = None;
    f_cols : s_cols q = cols; f_where : s_where q = w; f_orderby : s_orderby q = ords; f_limit : s_limit q = lim
  }.
  Definition src_rows (q : select) : option table :=
    fold_left (join1 tie ET EV) (s_joins q) (match s_from q with None => Some [[]] | Some f => ET f end).

  (* after FROM / JOIN / aliases / WHERE: the kept lines, each as its extended row *)
  Lemma es_five q swap e_ts e_fp e_lab e_str e_val w ords lim (T : list lstate) (src : lstate -> row)
      (out : lstate -> lstate) (keep : lstate -> bool) :
    flat5 q (cols5 swap e_ts e_fp e_lab e_str e_val) w ords lim ->
    src_rows q = Some (map src T) ->
    (forall t, List.In t T -> colsem e_ts e_fp e_lab e_str e_val (src t) (out t)) ->
    (forall t, List.In t T -> cond_ok EV w (st_row swap (out t) ++ src t)%list = Some (keep t)) ->
    ES q =
    match order_groups tie EV ords (map (fun t => [(st_row swap (out t) ++ src t)%list]) (filter keep T)) with
    | None => None
    | Some sorted =>
      match (match lim with
             | None => Some sorted
             | Some (IntV n) => Some (firstn (Z.to_nat n) (match ords with [] => tie _ sorted | _ => sorted end))
             | Some _ => None end) with
      | None => None
      | Some out0 =>
        map_opt (fun g => map_opt (fun c0 => match EV (col_body c0) g with
                                             | Some v => Some (col_name c0, v) | None => None end)
                                  (cols5 swap e_ts e_fp e_lab e_str e_val)) out0
      end
    end.
  Proof.
    intros [F1 F2 F3 F4 F5 F6 F7 F8 F9 F10] Hsrc Hcs Hw.
    rewrite (esel_nogroup q F1 F2 F3 F4 F5). fold (src_rows q). rewrite Hsrc, F6, F7, F8, F9, F10.
    rewrite map_map.
    rewrite (filter_opt_map_total (fun t => arow EV (cols5 swap e_ts e_fp e_lab e_str e_val) (src t)) _ keep).
    2:{ intros t Ht. rewrite (arow5 swap _ _ _ _ _ _ _ (Hcs t Ht)). cbn [cond_ok]. rewrite (Hw t Ht). reflexivity. }
    rewrite map_map.
    rewrite (map_ext_in (fun t => [arow EV (cols5 swap e_ts e_fp e_lab e_str e_val) (src t)])
                        (fun t => [(st_row swap (out t) ++ src t)%list])).
    2:{ intros t Ht. apply filter_In in Ht. destruct Ht as [Ht _]. now rewrite (arow5 swap _ _ _ _ _ _ _ (Hcs t Ht)). }
    reflexivity.
  Qed.

  (* no ORDER BY, no LIMIT: exactly the kept lines, in source order *)
  Lemma es_five_plain q swap e_ts e_fp e_lab e_str e_val w (T : list lstate) src out keep :
    flat5 q (cols5 swap e_ts e_fp e_lab e_str e_val) w [] None ->
    src_rows q = Some (map src T) ->
    (forall t, List.In t T -> colsem e_ts e_fp e_lab e_str e_val (src t) (out t)) ->
    (forall t, List.In t T -> cond_ok EV w (st_row swap (out t) ++ src t)%list = Some (keep t)) ->
    ES q = Some (map (st_row swap) (map out (filter keep T))).
  Proof.
    intros Hf Hsrc Hcs Hw. rewrite (es_five q swap _ _ _ _ _ w [] None T src out keep Hf Hsrc Hcs Hw).
    cbn [order_groups]. rewrite map_map.
    apply map_opt_map_total. intros t Ht. apply filter_In in Ht. destruct Ht as [Ht _].
    apply project5. now apply Hcs.
  Qed.

  Definition lts_leb (a b : lstate) : bool := ts_leb c (fst a) (fst b).

  (* ORDER BY timestamp_ns <dir> LIMIT <limit>: a sorted (top-limit) selection of some reordering of the kept lines *)
  Lemma es_five_sorted q swap e_ts e_fp e_lab e_str e_val w (T : list lstate) src out keep :
    flat5 q (cols5 swap e_ts e_fp e_lab e_str e_val) w [Ord (Id "timestamp_ns") (c_asc c)]
          (if Z.eqb (c_limit c) 0 then None else Some (IntV (c_limit c))) ->
    src_rows q = Some (map src T) ->
    (forall t, List.In t T -> colsem e_ts e_fp e_lab e_str e_val (src t) (out t)) ->
    (forall t, List.In t T -> cond_ok EV w (st_row swap (out t) ++ src t)%list = Some (keep t)) ->
    exists ys, Permutation ys (map out (filter keep T))
      /\ ES q = Some (map (st_row swap) (limited c (isort lts_leb ys))).
  Proof.
    intros Hf Hsrc Hcs Hw. rewrite (es_five q swap _ _ _ _ _ w _ _ T src out keep Hf Hsrc Hcs Hw).
    destruct (order_groups_gen re_match parse_float json_get hash_labels tie tie_perm c d
                [Ord (Id "timestamp_ns") (c_asc c)]
                (fun t => [(st_row swap (out t) ++ src t)%list]) (fun t => [VInt (x_ts (fst (out t)))])
                (filter keep T)) as [xs [Hperm Hord]].
    - discriminate.
    - intros t. cbn [map_opt ev]. rewrite (lookup_app_some _ _ _ (VInt (x_ts (fst (out t))))) by (destruct swap; reflexivity).
      reflexivity.
    - reflexivity.
    - exists (map out xs). split; [now apply Permutation_map|].
      match goal with |- match ?O with _ => _ end = _ => pose proof (Hord : O = _) as HO; rewrite HO end.
      rewrite (isort_ext _ (fun a b => lts_leb (out a) (out b))) by (intros a b; unfold ord_dirs; cbn [map]; apply keys_leb_1).
      assert (Hin : forall t, List.In t (isort (fun a b => lts_leb (out a) (out b)) xs) -> List.In t T).
      { intros t Ht'. apply (Permutation_in _ (isort_perm _ xs)) in Ht'. apply (Permutation_in _ Hperm) in Ht'.
        now apply filter_In in Ht'. }
      rewrite (isort_map out lts_leb). unfold limited. destruct (c_limit c =? 0)%Z.
      + rewrite !map_map. apply map_opt_map_total. intros t Ht. apply project5. apply Hcs. now apply Hin.
      + rewrite <- !firstn_map, !map_map. rewrite !firstn_map. apply map_opt_map_total. intros t Ht. apply project5. apply Hcs.
        apply Hin. now apply in_firstn in Ht.
  Qed.

  (* ORDER BY timestamp_ns <dir> without LIMIT (Plan(script, false)): the kept lines of some reordering, sorted *)
  Lemma es_five_sorted_nl q swap e_ts e_fp e_lab e_str e_val w (T : list lstate) src out keep :
    flat5 q (cols5 swap e_ts e_fp e_lab e_str e_val) w [Ord (Id "timestamp_ns") (c_asc c)] None ->
    src_rows q = Some (map src T) ->
    (forall t, List.In t T -> colsem e_ts e_fp e_lab e_str e_val (src t) (out t)) ->
    (forall t, List.In t T -> cond_ok EV w (st_row swap (out t) ++ src t)%list = Some (keep t)) ->
    exists ys, Permutation ys (map out (filter keep T))
      /\ ES q = Some (map (st_row swap) (isort lts_leb ys)).
  Proof.
    intros Hf Hsrc Hcs Hw. rewrite (es_five q swap _ _ _ _ _ w _ _ T src out keep Hf Hsrc Hcs Hw).
    destruct (order_groups_gen re_match parse_float json_get hash_labels tie tie_perm c d
                [Ord (Id "timestamp_ns") (c_asc c)]
                (fun t => [(st_row swap (out t) ++ src t)%list]) (fun t => [VInt (x_ts (fst (out t)))])
                (filter keep T)) as [xs [Hperm Hord]].
    - discriminate.
    - intros t. cbn [map_opt ev]. rewrite (lookup_app_some _ _ _ (VInt (x_ts (fst (out t))))) by (destruct swap; reflexivity).
      reflexivity.
    - reflexivity.
    - exists (map out xs). split; [now apply Permutation_map|].
      match goal with |- match ?O with _ => _ end = _ => pose proof (Hord : O = _) as HO; rewrite HO end.
      rewrite (isort_ext _ (fun a b => lts_leb (out a) (out b))) by (intros a b; unfold ord_dirs; cbn [map]; apply keys_leb_1).
      assert (Hin : forall t, List.In t (isort (fun a b => lts_leb (out a) (out b)) xs) -> List.In t T).
      { intros t Ht'. apply (Permutation_in _ (isort_perm _ xs)) in Ht'. apply (Permutation_in _ Hperm) in Ht'.
        now apply filter_In in Ht'. }
      rewrite (isort_map out lts_leb). rewrite !map_map. apply map_opt_map_total. intros t Ht. apply project5. apply Hcs. now apply Hin.
  Qed.

  (* ================= Part B: the expressions the relabelling planners install ================= *)
  Lemma ev_map_update a b g : EV (Fn "mapUpdate" [a; b]) g =
    match EV a g, EV b g with Some (VMap m1), Some (VMap m2) => Some (VMap (map_update m1 m2)) | _, _ => None end.
  Proof. reflexivity. Qed.
  Lemma strs_eqb_refl l : strs_eqb l l = true.
  Proof. induction l as [|a l IH]; [reflexivity|]. cbn [strs_eqb]. now rewrite String.eqb_refl, IH. Qed.
  Lemma ev_json_path path g : EV (json_path_sql path) g =
    match EV (Id "string") g, path_lits (map json_part path) with
    | Some (VStr s), Some p => Some (VStr (json_get s p)) | _, _ => None end.
  Proof.
    unfold json_path_sql. cbn [ev String.eqb Ascii.eqb Bool.eqb andb].
    destruct (match g with r :: _ => lookup "string" r | [] => None end) as [[z|s|q0|m|]|]; try reflexivity.
    destruct (path_lits (map json_part path)) as [p|]; [|reflexivity].
    now rewrite String.eqb_refl, strs_eqb_refl.
  Qed.
  (* the parts read back from the printed path are the parts of the oracle: a key as it is (a leading byte 0 doubled), an
     index part (byte 0 + digits) through the bare number *)
  Lemma path_lits_part l : path_lits (map json_part l) = Some l.
  Proof.
    induction l as [|a l IH]; [reflexivity|]. cbn [map]. unfold json_part at 1.
    destruct a as [|ch0 dd0]; [cbn [path_lits key_lit]; now rewrite IH|].
    destruct (Ascii.eqb_spec ch0 "000"%char) as [->|Hch0].
    - destruct dd0 as [|ch1 dd1]; [cbn [path_lits]; now rewrite IH|].
      destruct (Ascii.eqb_spec ch1 "000"%char) as [->|Hch1]; cbn [path_lits key_lit]; rewrite IH; [|reflexivity].
      cbn [Ascii.eqb Bool.eqb]. reflexivity.
    - cbn [path_lits key_lit]. rewrite IH. apply Ascii.eqb_neq in Hch0. now rewrite Hch0.
  Qed.
  Lemma ev_sep_json ls ps g :
    EV (Sep "" [Raw "mapFilter((k,v) -> v != '', mapFromArrays(["; Sep "," ls; Raw "], ["; Sep "," ps; Raw "]))"]) g =
    match str_lits ls, map_opt (fun p => match EV p g with Some (VStr v) => Some v | _ => None end) ps with
    | Some ks, Some vs => if Nat.eqb (List.length ks) (List.length vs) then Some (VMap (filter nonempty_kv (combine ks vs))) else None
    | _, _ => None end.
  Proof. reflexivity. Qed.
  Lemma str_lits_strv l : str_lits (map StrV l) = Some l.
  Proof. induction l as [|a l IH]; [reflexivity|]. cbn [map str_lits]. now rewrite IH. Qed.
  Lemma all_paths_length : forall ps paths, all_paths ps = Some paths -> List.length paths = List.length ps.
  Proof.
    induction ps as [|p ps IH]; intros paths H; cbn [all_paths] in H; [injection H as <-; reflexivity|].
    destruct (pp_path p); [|discriminate]. destruct (all_paths ps) as [xs|]; [|discriminate].
    injection H as <-. cbn [List.length]. now rewrite (IH xs eq_refl).
  Qed.
  Lemma ev_json_map lbls paths r g line : lookup "string" r = Some (VStr line) -> List.length lbls = List.length paths ->
    EV (sql_json_parser lbls paths) (r :: g) = Some (VMap (filter nonempty_kv (combine lbls (map (json_get line) paths)))).
  Proof.
    intros Hs Hlen. unfold sql_json_parser. rewrite ev_sep_json, str_lits_strv.
    rewrite (map_opt_map_total json_path_sql _ (json_get line)).
    2:{ intros p _. rewrite ev_json_path, path_lits_part. cbn [ev]. now rewrite Hs. }
    rewrite map_length, Hlen, Nat.eqb_refl. reflexivity.
  Qed.
  Lemma ev_map_filter cl b g :
    EV (Fn "mapFilter" [Sep "" [Raw "(k,v) -> "; Sep " and " cl]; b]) g =
    match EV b g with
    | Some (VMap m) => match drop_specs cl with Some sp => Some (VMap (filter (drop_keeps sp) m)) | None => None end
    | _ => None end.
  Proof. reflexivity. Qed.
  Lemma drop_specs_clauses ps : drop_specs (map drop_clause ps) = Some (map drop_spec ps).
  Proof.
    induction ps as [|[k v] ps IH]; [reflexivity|]. cbn [map]. unfold drop_clause at 1, drop_spec at 1. cbn [fst snd].
    destruct v as [v|].
    - destruct (String.eqb v "") eqn:E; cbn [drop_specs]; rewrite IH; reflexivity.
    - cbn [drop_specs]. rewrite IH. reflexivity.
  Qed.
  Lemma ev_fp_of_labels r g :
    EV fp_of_labels (r :: g) = match lookup "labels" r with Some (VMap m) => Some (VInt (hash_labels m)) | _ => None end.
  Proof. reflexivity. Qed.

  Lemma lookup_string_env b r line : lookup "string" r = Some (VStr line) ->
    (lookup "string" b = None \/ lookup "string" b = Some (VStr line)) -> lookup "string" (b ++ r)%list = Some (VStr line).
  Proof. intros Hr [Hb|Hb]; [now rewrite lookup_app_none|now apply lookup_app_some]. Qed.

  (* | json l1="p1", ... : the labels body is wrapped in mapUpdate(., <extracted map>), the fingerprint becomes the hash *)
  Definition json_state (params : list parser_param) (paths : list (list string)) (t : lstate) : lstate :=
    let ls := map_update (p_labels (snd t)) (filter nonempty_kv (combine (map pp_label params) (map (json_get (x_line (fst t))) paths))) in
    (fst t, {| p_labels := ls; p_fp := hash_labels ls |}).
  Lemma colsem_json e_ts e_fp e_lab e_str e_val r t params paths :
    colsem e_ts e_fp e_lab e_str e_val r t -> lookup "string" r = Some (VStr (x_line (fst t))) ->
    (forall b, alias_env b -> EV e_str [(b ++ r)%list] = Some (VStr (x_line (fst t)))) ->
    all_paths params = Some paths ->
    colsem e_ts fp_of_labels (Fn "mapUpdate" [e_lab; sql_json_parser (map pp_label params) paths]) e_str e_val r
           (json_state params paths t).
  Proof.
    intros [Hts Hfp Hlab _ Hval] Hs Hstr Hp. constructor; cbn [json_state fst snd p_labels p_fp]; try assumption; [| |intros b Hb _; now apply Hstr].
    - intros b Hb Hl. rewrite ev_fp_of_labels, (lookup_app_some _ _ _ _ Hl). reflexivity.
    - intros b Hb Hl. rewrite ev_map_update, (Hlab b Hb Hl).
      rewrite (ev_json_map _ _ _ _ (x_line (fst t))).
      + reflexivity.
      + now apply lookup_string_env.
      + rewrite map_length. symmetry. now apply all_paths_length.
  Qed.

  (* | regexp "re" : the labels body is wrapped in mapUpdate(., <regexMap>), the fingerprint becomes the hash *)
  Lemma ev_sep_regex ls re g :
    EV (Sep "" [Raw regex_map_t1; Sep "," ls; Raw regex_map_t2; StrV re; Raw regex_map_t3]) g =
    match str_lits ls, g with
    | Some names, r :: _ =>
      match lookup "string" r with
      | Some (VStr line) =>
        match re_groups re line with
        | Some vs => if Nat.eqb (List.length vs) (List.length names) then Some (VMap (re_pairs names vs)) else None
        | None => None end
      | _ => None end
    | _, _ => None end.
  Proof. reflexivity. Qed.
  Lemma regex_map_0 names re g :
    EV (regex_map names re) g = EV (Sep "" [Raw regex_map_t1; Sep "," (map StrV names); Raw regex_map_t2; StrV re; Raw regex_map_t3]) g.
  Proof. reflexivity. Qed.
  Lemma ev_regex_map names re r g line vs : lookup "string" r = Some (VStr line) ->
    re_groups re line = Some vs -> List.length vs = List.length names ->
    EV (regex_map names re) (r :: g) = Some (VMap (re_pairs names vs)).
  Proof.
    intros Hs Hg Hl. rewrite regex_map_0, ev_sep_regex, str_lits_strv, Hs, Hg, Hl, Nat.eqb_refl. reflexivity.
  Qed.
  Definition regexp_vals (ps : list parser_param) (line : string) : list string :=
    match re_groups (re_sent ps) line with Some vs => vs | None => [] end.
  Definition regexp_state (ps : list parser_param) (t : lstate) : lstate :=
    let ls := map_update (p_labels (snd t)) (re_pairs (re_names ps) (regexp_vals ps (x_line (fst t)))) in
    (fst t, {| p_labels := ls; p_fp := hash_labels ls |}).
  Definition regexp_oracle (ps : list parser_param) : Prop :=
    forall line, exists vs, re_groups (re_sent ps) line = Some vs /\ List.length vs = List.length (re_names ps).
  Lemma regexp_stage_state ps t : regexp_oracle ps ->
    regexp_stage hash_labels ps (x_line (fst t)) (snd t) = Some (snd (regexp_state ps t)).
  Proof.
    intros Ho. destruct (Ho (x_line (fst t))) as [vs [Hg Hl]]. unfold regexp_stage, regexp_state, regexp_vals.
    rewrite Hg, Hl, Nat.eqb_refl. reflexivity.
  Qed.
  Lemma colsem_regexp e_ts e_fp e_lab e_str e_val r t ps :
    colsem e_ts e_fp e_lab e_str e_val r t -> lookup "string" r = Some (VStr (x_line (fst t))) ->
    (forall b, alias_env b -> EV e_str [(b ++ r)%list] = Some (VStr (x_line (fst t)))) ->
    regexp_oracle ps ->
    colsem e_ts fp_of_labels (Fn "mapUpdate" [e_lab; regex_map (re_names ps) (re_sent ps)]) e_str e_val r (regexp_state ps t).
  Proof.
    intros [Hts Hfp Hlab _ Hval] Hs Hstr Ho. constructor; cbn [regexp_state fst snd p_labels p_fp]; try assumption; [| |intros b Hb _; now apply Hstr].
    - intros b Hb Hl. rewrite ev_fp_of_labels, (lookup_app_some _ _ _ _ Hl). reflexivity.
    - intros b Hb Hl. rewrite ev_map_update, (Hlab b Hb Hl).
      destruct (Ho (x_line (fst t))) as [vs [Hg Hlen]].
      rewrite (ev_regex_map _ _ _ _ (x_line (fst t)) vs); [|now apply lookup_string_env|exact Hg|exact Hlen].
      unfold regexp_vals. rewrite Hg. reflexivity.
  Qed.
  (* the planner's reading of the expression is the left-to-right reading of its text *)
  Lemma re_plan_sent_names ps sent names : re_plan (re_source ps) = Some (sent, names) -> sent = re_sent ps /\ names = re_names ps.
  Proof.
    intros H. destruct (re_plan_by_opening_parenthesis _ _ _ H) as [ts [Hl [-> ->]]].
    unfold re_sent, re_names, re_toks. rewrite Hl. split; reflexivity.
  Qed.

  (* | drop ... : the labels body is wrapped in mapFilter(<lambda>, .) *)
  Definition drop_state (ps : list (string * option string)) (t : lstate) : lstate := (fst t, drop_stage hash_labels ps (snd t)).
  Lemma colsem_drop e_ts e_fp e_lab e_str e_val r t ps :
    colsem e_ts e_fp e_lab e_str e_val r t ->
    (forall b, alias_env b -> EV e_str [(b ++ r)%list] = Some (VStr (x_line (fst t)))) ->
    colsem e_ts fp_of_labels (map_drop_filter e_lab ps) e_str e_val r (drop_state ps t).
  Proof.
    intros [Hts Hfp Hlab _ Hval] Hstr. constructor; cbn [drop_state drop_stage fst snd p_labels p_fp]; try assumption; [| |intros b Hb _; now apply Hstr].
    - intros b Hb Hl. rewrite ev_fp_of_labels, (lookup_app_some _ _ _ _ Hl). reflexivity.
    - intros b Hb Hl. unfold map_drop_filter. rewrite ev_map_filter, (Hlab b Hb Hl), drop_specs_clauses. reflexivity.
  Qed.

  (* label filters over the labels column of the same select: labels['name'] *)
  Definition label_expr (getter : option (string -> expr)) (name : string) : expr :=
    match getter with Some g => g name | None => Idx (Id "labels") (QRaw name) end.
  Lemma ev_simple_cond_g getter s cond G ls :
    (forall name, EV (label_expr getter name) G = Some (VStr (label_of ls name))) ->
    simple_cond getter s = Some cond -> simple_oracle_ok parse_float s ->
    EV cond G = Some (vbool (simple_ok re_match parse_float ls s)).
  Proof.
    intros HJ0 Hc Ho. unfold simple_cond in Hc. unfold simple_ok, simple_oracle_ok in *.
    pose proof (HJ0 (slf_label s)) as HJ. unfold label_expr in HJ.
    remember (match getter with Some g => g (slf_label s) | None => Idx (Id "labels") (QRaw (slf_label s)) end) as J eqn:EJ.
    destruct (lblop_numeric s) eqn:En.
    - specialize (Ho eq_refl). destruct (slf_num s) as [[txt f]|]; [|discriminate].
      destruct Ho as [Hf Htxt]. destruct (String.eqb txt ""); [discriminate|].
      destruct (parse_float txt) as [n|] eqn:Ptxt; [|congruence].
      assert (HL : EV (Fn "toFloat64OrNull" [J]) G
                   = Some (match parse_float (label_of ls (slf_label s)) with Some q => VNum q | None => VNull end)).
      { cbn [ev String.eqb Ascii.eqb Bool.eqb]. now rewrite HJ. }
      remember (Fn "toFloat64OrNull" [J]) as L eqn:EL.
      assert (HF : EV (FloatV f) G = Some (VNum n)) by (cbn [ev]; now rewrite Hf).
      remember (FloatV f) as FV eqn:EFV.
      destruct (slf_fn s); cbn [num_cmp]; try discriminate; injection Hc as <-;
        unfold And, Eq, Neq, Gt, Ge, Lt, Le; cbn [ev map_opt]; rewrite HL, HF; cbn iota beta;
        destruct (parse_float (label_of ls (slf_label s))) as [x|]; try reflexivity;
        cbn [vcmp num_of option_map cmp_holds]; destruct (Qcompare x n); reflexivity.
    - destruct (slf_str s) as [w|]; [|discriminate].
      destruct (slf_fn s); try discriminate; injection Hc as <-; unfold Eq, Neq, sql_match;
        cbn [ev map_opt String.eqb Ascii.eqb Bool.eqb]; rewrite HJ;
        rewrite ?str_fn2_str, ?vcmp_eq_str, ?vcmp_neq_str, ?vcmp_bool_1, ?vcmp_bool_0; reflexivity.
  Qed.
  Lemma ev_lf_cond_g getter G ls (HJ : forall name, EV (label_expr getter name) G = Some (VStr (label_of ls name))) :
    forall f cond, lf_cond getter f = Some cond -> lf_oracle_ok parse_float f ->
    EV cond G = Some (vbool (lf_ok re_match parse_float ls f)).
  Proof.
    fix IH 1. intros f cond Hc Ho. destruct f as [head op tail].
    cbn [lf_cond] in Hc. cbn [lf_oracle_ok] in Ho. destruct Ho as [Hoh Hot]. cbn [lf_ok].
    assert (Hhead : forall l, match head with HSimple s => simple_cond getter s | HComplex f' => lf_cond getter f' end = Some l ->
              EV l G = Some (vbool match head with HSimple s => simple_ok re_match parse_float ls s
                                                      | HComplex f' => lf_ok re_match parse_float ls f' end)).
    { intros l Hl'. destruct head as [s|f']; [now apply (ev_simple_cond_g getter s)|now apply IH]. }
    destruct (match head with HSimple s => simple_cond getter s | HComplex f' => lf_cond getter f' end) as [l|]; [|discriminate].
    specialize (Hhead l eq_refl).
    destruct tail as [t|]; [|injection Hc as <-; exact Hhead].
    destruct (lf_cond getter t) as [rr|] eqn:Et; [|discriminate].
    pose proof (IH t rr Et Hot) as Htail.
    destruct op as [[|]|]; [| |discriminate]; injection Hc as <-; unfold And, Or; cbn [ev map_opt];
      rewrite Hhead, Htail; cbn iota beta; [apply vlogic_and2|apply vlogic_or2].
  Qed.
  Lemma simple_cond_some_g getter s : simple_supported s = true -> exists cond, simple_cond getter s = Some cond.
  Proof.
    unfold simple_supported, simple_cond. destruct (lblop_numeric s) eqn:En.
    - destruct (slf_num s) as [[txt f]|]; [|discriminate]. intros Ht. apply negb_true_iff in Ht. rewrite Ht.
      unfold lblop_numeric in En. destruct (slf_fn s); try discriminate; eexists; reflexivity.
    - destruct (slf_str s) as [w|]; [|discriminate]. destruct (slf_fn s); try discriminate; eexists; reflexivity.
  Qed.
  Lemma lf_cond_some_g getter : forall f, lf_supported f = true -> exists cond, lf_cond getter f = Some cond.
  Proof.
    fix IH 1. intros f H. destruct f as [head op tail]. cbn [lf_supported] in H. apply andb_prop in H. destruct H as [Hh Ht].
    cbn [lf_cond].
    assert (Hhead : exists l, match head with HSimple s => simple_cond getter s | HComplex f' => lf_cond getter f' end = Some l).
    { destruct head as [s|f']; [now apply simple_cond_some_g|now apply IH]. }
    destruct Hhead as [l ->]. destruct tail as [t|]; [|eexists; reflexivity].
    apply andb_prop in Ht. destruct Ht as [Ht Hop]. destruct (IH t Ht) as [rr ->].
    destruct op as [[|]|]; [| |discriminate]; eexists; reflexivity.
  Qed.
  Lemma ev_labels_idx r g ls name : lookup "labels" r = Some (VMap ls) ->
    EV (Idx (Id "labels") (QRaw name)) (r :: g) = Some (VStr (label_of ls name)).
  Proof. intros H. cbn [ev]. now rewrite H. Qed.

  (* ---------- | line_format "tmpl": the `string` body becomes the format() call over the labels column ---------- *)
  Lemma ev_format f args g :
    EV (Sep "" [Raw "format("; StrV f; Raw ", "; Sep ", " args; Raw ")"]) g =
    match map_opt (fun a => match EV a g with Some (VStr v) => Some v | _ => None end) args with
    | Some vs => option_map VStr (LogqlTemplate.format_eval f vs)
    | None => None end.
  Proof. reflexivity. Qed.
  Lemma label_of_lookup ls n : label_of ls n = LogqlTemplate.lookup ls n.
  Proof. induction ls as [|[k v] ls IH]; [reflexivity|]. cbn [label_of LogqlTemplate.lookup fst snd]. now rewrite IH. Qed.
  Lemma ev_tpl_sql ns env g ls : lookup "labels" env = Some (VMap ls) ->
    EV (LogqlTemplate.tpl_sql ns) (env :: g) = option_map VStr (LogqlTemplate.tpl_sql_value ns ls).
  Proof.
    intros Hl. unfold LogqlTemplate.tpl_sql, LogqlTemplate.tpl_sql_value.
    destruct (LogqlTemplate.tpl_fmt (LogqlTemplate.pieces ns) 0) as [f a]. destruct a as [|a0 a']; [reflexivity|].
    rewrite ev_format. rewrite (map_opt_map_total LogqlTemplate.label_arg _ (LogqlTemplate.lookup ls)); [reflexivity|].
    intros n _. unfold LogqlTemplate.label_arg. cbn [ev]. rewrite Hl. now rewrite label_of_lookup.
  Qed.
  Definition tpl_out (ns : list LogqlTemplate.tnode) (ls : labels) : string :=
    match LogqlTemplate.tpl_exec ns ls with Some o => o | None => "" end.
  Definition tpl_total (ns : list LogqlTemplate.tnode) : Prop := forall ls, LogqlTemplate.tpl_exec ns ls <> None.
  Definition lfmt_state (ns : list LogqlTemplate.tnode) (t : lstate) : lstate :=
    (set_line (fst t) (tpl_out ns (p_labels (snd t))), snd t).
  Lemma colsem_lfmt e_ts e_fp e_lab e_str e_val r t ns :
    colsem e_ts e_fp e_lab e_str e_val r t -> tpl_total ns ->
    lookup "labels" r = Some (VMap (p_labels (snd t))) ->
    (forall b, alias_env b -> EV e_lab [(b ++ r)%list] = Some (VMap (p_labels (snd t)))) ->
    colsem e_ts e_fp e_lab (LogqlTemplate.tpl_sql ns) e_val r (lfmt_state ns t).
  Proof.
    intros [Hts Hfp Hlab _ Hval] Htot Hls Hlf. constructor; cbn [lfmt_state fst snd set_line x_ts x_line]; try assumption.
    - intros b Hb _. now apply Hlf.
    - intros b Hb Hl.
      assert (Hlb : lookup "labels" (b ++ r)%list = Some (VMap (p_labels (snd t)))).
      { destruct Hl as [Hl|Hl]; [now rewrite lookup_app_none|now apply lookup_app_some]. }
      etransitivity; [exact (ev_tpl_sql ns (b ++ r)%list [] _ Hlb)|]. unfold tpl_out.
      destruct (LogqlTemplate.tpl_exec ns (p_labels (snd t))) as [o|] eqn:Eo; [|exfalso; now apply (Htot (p_labels (snd t)))].
      now rewrite (LogqlTemplateProofs.line_format_sql_value ns _ o Eo).
  Qed.

  (* the WHERE of a select is None or one `and` whose conjuncts are two-valued on every kept-or-not line, under EVERY alias
     binding that gives `labels` its current value (the conjuncts read the alias labels and the source column samples.string,
     never the alias string: a line_format in the same select does not disturb them) *)
  Definition wsem (w : option expr) (T : list lstate) (src : lstate -> row) (out : lstate -> lstate) (keep : lstate -> bool) : Prop :=
    match w with
    | None => forall t, List.In t T -> keep t = true
    | Some (LOp OAnd cl) =>
      cl <> [] /\ forall t, List.In t T -> exists bs,
        (forall b, alias_env b -> lookup "labels" b = Some (VMap (p_labels (snd (out t)))) ->
           Forall2 (fun e v => EV e [(b ++ src t)%list] = Some (vbool v)) cl bs)
        /\ keep t = forallb (fun b => b) bs
    | Some _ => False
    end.
  Lemma wsem_cond w T src out keep swap : wsem w T src out keep ->
    forall t, List.In t T -> cond_ok EV w (st_row swap (out t) ++ src t)%list = Some (keep t).
  Proof.
    intros H t Ht. destruct w as [e|]; cbn [wsem cond_ok] in *; [|now rewrite (H t Ht)].
    destruct e; try contradiction. destruct fn; try contradiction. destruct H as [Hne H].
    destruct (H t Ht) as [bs [HF ->]]. change (LOp OAnd cl) with (And cl). cbn [cond_ok].
    pose proof (HF _ (st_row_alias swap (out t)) (st_row_labels swap (out t))) as HF'.
    pose proof (ev_and_bools re_match parse_float json_get hash_labels tie c d cl bs _ Hne HF') as HX.
    unfold row in *. rewrite HX.
    apply truthy_vbool.
  Qed.
  Lemma wsem_and w T src out keep cond (ok : lstate -> bool) : wsem w T src out keep ->
    (forall t, List.In t T -> forall b, alias_env b -> lookup "labels" b = Some (VMap (p_labels (snd (out t)))) ->
       EV cond [(b ++ src t)%list] = Some (vbool (ok t))) ->
    wsem (and_into w [cond]) T src out (fun t => keep t && ok t).
  Proof.
    intros H Hc. destruct w as [e|]; cbn [wsem and_into] in *.
    - destruct e; try contradiction. destruct fn; try contradiction. destruct H as [Hne H]. unfold And. split.
      + destruct cl; [congruence|discriminate].
      + intros t Ht. destruct (H t Ht) as [bs [HF Hk]]. exists (bs ++ [ok t])%list. split.
        * intros b Hb Hl. apply Forall2_snoc; [now apply HF|now apply Hc].
        * rewrite forallb_app, Hk. cbn [forallb]. now rewrite andb_true_r.
    - unfold And. split; [discriminate|]. intros t Ht. exists [ok t]. split.
      + intros b Hb Hl. constructor; [now apply Hc|constructor].
      + rewrite (H t Ht). cbn [forallb]. now rewrite andb_true_r.
  Qed.
  Lemma wsem_labels_ext w T src out out' keep : (forall t, p_labels (snd (out' t)) = p_labels (snd (out t))) ->
    wsem w T src out keep -> wsem w T src out' keep.
  Proof.
    intros E H. destruct w as [e|]; cbn [wsem] in *; [|exact H].
    destruct e; try contradiction. destruct fn; try contradiction. destruct H as [Hne H]. split; [exact Hne|].
    intros t Ht. destruct (H t Ht) as [bs [HF Hk]]. exists bs. split; [|exact Hk]. intros b Hb Hl. apply HF; [exact Hb|]. now rewrite <- E.
  Qed.

  (* ================= Part C: the reference side - live states of a prefix of the pipeline ================= *)
  Variable ms : list matcher.
  Definition base_ok (x : sample) : bool :=
    in_window c x && type_in c (x_type x) && forallb (matcher_ok re_match (series_labels d (x_fp x))) ms.
  Definition init_state (x : sample) : pstate := {| p_labels := series_labels d (x_fp x); p_fp := x_fp x |}.
  Definition live_of (stages : list stage) (x : sample) : list lstate :=
    if base_ok x then match RUN stages (x_line x) (init_state x) with Some (l, st) => [(set_line x l, st)] | None => [] end else [].
  Definition live (stages : list stage) : list lstate := flat_map (live_of stages) (d_samples d).
  Definition mkout2 (t : lstate) : outrow :=
    {| o_fp := p_fp (snd t); o_labels := p_labels (snd t); o_line := x_line (fst t); o_ts := x_ts (fst t) |}.

  Lemma log_rows3_live ppl :
    log_rows3 re_match parse_float json_get hash_labels {| sel_matchers := ms; sel_pipeline := ppl |} c d = map mkout2 (live ppl).
  Proof.
    unfold log_rows3, live. induction (d_samples d) as [|x l IH]; [reflexivity|].
    cbn [flat_map]. rewrite map_app, IH. f_equal.
    unfold sample_out3, live_of, base_ok, init_state. cbn [sel_matchers sel_pipeline].
    destruct (in_window c x && type_in c (x_type x) && forallb (matcher_ok re_match (series_labels d (x_fp x))) ms); [|reflexivity].
    destruct (RUN ppl (x_line x) _) as [[l0 st]|]; reflexivity.
  Qed.

  Lemma run_app a : forall b line st,
    RUN (a ++ b) line st = match RUN a line st with Some (line', st') => RUN b line' st' | None => None end.
  Proof.
    induction a as [|s a IH]; intros b line st; [reflexivity|]. cbn [app].
    destruct s as [op v rl|f|fn ps|tm| |lb|ps]; cbn [run_lstages]; try reflexivity.
    - destruct (line_ok re_match line op v); [apply IH|reflexivity].
    - destruct (lf_ok re_match parse_float (p_labels st) f); [apply IH|reflexivity].
    - destruct fn; try reflexivity.
      + destruct (json_stage json_get hash_labels ps line st); [apply IH|reflexivity].
      + destruct (regexp_stage hash_labels ps line st); [apply IH|reflexivity].
    - destruct (line_format_stage tm st); [apply IH|reflexivity].
    - apply IH.
  Qed.
  Definition step_of (s : stage) (t : lstate) : list lstate :=
    match RUN [s] (x_line (fst t)) (snd t) with Some (l, st') => [(set_line (fst t) l, st')] | None => [] end.
  Lemma live_snoc a s : live (a ++ [s]) = flat_map (step_of s) (live a).
  Proof.
    unfold live. induction (d_samples d) as [|x l IH]; [reflexivity|].
    cbn [flat_map]. rewrite flat_map_app, IH. f_equal.
    unfold live_of. destruct (base_ok x); [|reflexivity]. rewrite run_app.
    destruct (RUN a (x_line x) (init_state x)) as [[l0 st]|]; [|reflexivity].
    cbn [flat_map]. unfold step_of. cbn [fst snd set_line x_line]. rewrite app_nil_r.
    destruct (RUN [s] l0 st) as [[l1 st1]|]; reflexivity.
  Qed.
  Lemma flat_map_single {A B} (f : A -> B) l : flat_map (fun a => [f a]) l = map f l.
  Proof. induction l as [|a l IH]; [reflexivity|]. cbn [flat_map map app]. now rewrite IH. Qed.
  Lemma flat_map_filter {A} (p : A -> bool) l : flat_map (fun a => if p a then [a] else []) l = filter p l.
  Proof. induction l as [|a l IH]; [reflexivity|]. cbn [flat_map filter]. rewrite IH. destruct (p a); reflexivity. Qed.

  Lemma live_json a ps paths : all_paths ps = Some paths ->
    live (a ++ [PParser PJson ps]) = map (json_state ps paths) (live a).
  Proof.
    intros Hp. rewrite live_snoc, <- flat_map_single. apply flat_map_ext. intros t.
    unfold step_of, json_state. cbn [run_lstages]. unfold json_stage. rewrite Hp. now rewrite set_line_id.
  Qed.
  Lemma live_regexp a ps : regexp_oracle ps ->
    live (a ++ [PParser PRegexp ps]) = map (regexp_state ps) (live a).
  Proof.
    intros Ho. rewrite live_snoc, <- flat_map_single. apply flat_map_ext. intros t.
    unfold step_of. cbn [run_lstages]. rewrite (regexp_stage_state ps t Ho). now rewrite set_line_id.
  Qed.
  Lemma live_drop a ps : live (a ++ [PDrop ps]) = map (drop_state ps) (live a).
  Proof.
    rewrite live_snoc, <- flat_map_single. apply flat_map_ext. intros t. unfold step_of. cbn [run_lstages]. now rewrite set_line_id.
  Qed.
  Lemma live_label_filter a f :
    live (a ++ [PLabelFilter f]) = filter (fun t => lf_ok re_match parse_float (p_labels (snd t)) f) (live a).
  Proof.
    rewrite live_snoc, <- flat_map_filter. apply flat_map_ext. intros t. unfold step_of. cbn [run_lstages].
    destruct (lf_ok re_match parse_float (p_labels (snd t)) f); [rewrite set_line_id; destruct t|]; reflexivity.
  Qed.
  Lemma live_line_filter a op v rl :
    live (a ++ [PLineFilter op v rl]) = filter (fun t => line_ok re_match (x_line (fst t)) op v) (live a).
  Proof.
    rewrite live_snoc, <- flat_map_filter. apply flat_map_ext. intros t. unfold step_of. cbn [run_lstages].
    destruct (line_ok re_match (x_line (fst t)) op v); [rewrite set_line_id; destruct t|]; reflexivity.
  Qed.
  Lemma live_lfmt a tm ns : LogqlTemplate.tpl_parse tm = LogqlTemplate.TOk ns -> tpl_total ns ->
    live (a ++ [PLineFormat tm]) = map (lfmt_state ns) (live a).
  Proof.
    intros Hp Htot. rewrite live_snoc, <- flat_map_single. apply flat_map_ext. intros t.
    unfold step_of, lfmt_state, tpl_out. cbn [run_lstages]. unfold line_format_stage. rewrite Hp.
    destruct (LogqlTemplate.tpl_exec ns (p_labels (snd t))) as [o|] eqn:Eo; [reflexivity|exfalso; now apply (Htot (p_labels (snd t)))].
  Qed.

  (* a prefix of filters only *)
  Lemma run_filters : forall pre line st, forallb stage_supported pre = true ->
    RUN pre line st = if forallb (stage_ok re_match parse_float (p_labels st) line) pre then Some (line, st) else None.
  Proof.
    induction pre as [|s pre IH]; intros line st H; [reflexivity|]. cbn [forallb] in H. apply andb_prop in H. destruct H as [Hs Hl].
    destruct s; try discriminate; cbn [run_lstages forallb stage_ok].
    - destruct (line_ok re_match line op val); [now apply IH|reflexivity].
    - destruct (lf_ok re_match parse_float (p_labels st) f); [now apply IH|reflexivity].
  Qed.
  Lemma live_filters pre : forallb stage_supported pre = true ->
    live pre = map (fun x => (x, init_state x))
                   (filter (sample_ok re_match parse_float {| sel_matchers := ms; sel_pipeline := pre |} c d) (d_samples d)).
  Proof.
    intros H. unfold live. induction (d_samples d) as [|x l IH]; [reflexivity|].
    cbn [flat_map filter]. rewrite IH. unfold live_of at 1, sample_ok at 2, base_ok. cbn [sel_matchers sel_pipeline].
    rewrite (run_filters pre _ _ H). cbn [init_state p_labels].
    destruct (in_window c x && type_in c (x_type x) && forallb (matcher_ok re_match (series_labels d (x_fp x))) ms); [|reflexivity].
    cbn [andb]. destruct (forallb (stage_ok re_match parse_float (series_labels d (x_fp x)) (x_line x)) pre); [now rewrite set_line_id|reflexivity].
  Qed.

  (* ================= Part D: the invariant of the open select ================= *)
  (* MFmt: the string body was replaced by a line_format stage - the source columns no longer hold the current line, the
     select accepts no further stage (the planners close it: renew_after) *)
  Inductive mode := MFresh | MParsed | MDropped | MFilt | MFmt.

  Definition sinv (sel : select) (done : list stage) (m : mode) (swap : bool) : Prop :=
    exists e_ts e_fp e_lab e_str e_val w (T : list lstate) (src : lstate -> row) (out : lstate -> lstate) (keep : lstate -> bool),
      flat5 sel (cols5 swap e_ts e_fp e_lab e_str e_val) w [] None
      /\ src_rows sel = Some (map src T)
      /\ (forall t, List.In t T -> colsem e_ts e_fp e_lab e_str e_val (src t) (out t))
      /\ (m <> MFmt -> forall t, List.In t T -> lookup "string" (src t) = Some (VStr (x_line (fst (out t)))))
      /\ wsem w T src out keep
      /\ Permutation (map out (filter keep T)) (live done)
      /\ (m <> MFilt -> m <> MFmt -> w = None)
      /\ (m = MFresh \/ m = MDropped ->
          forall t, List.In t T -> forall b, alias_env b -> EV e_fp [(b ++ src t)%list] = Some (VInt (p_fp (snd (out t)))))
      /\ (m <> MFmt -> swap = false -> forall t, List.In t T -> lookup "samples.string" (src t) = Some (VStr (x_line (fst (out t)))))
      (* the string body does not read the aliases (a plain column) until a line_format replaces it *)
      /\ (m <> MFmt -> forall t, List.In t T -> forall b, alias_env b -> EV e_str [(b ++ src t)%list] = Some (VStr (x_line (fst (out t)))))
      (* fresh or filtered: the labels body is a plain column too, and the source row carries the current labels as `labels` *)
      /\ (m = MFresh \/ m = MFilt -> forall t, List.In t T ->
            lookup "labels" (src t) = Some (VMap (p_labels (snd (out t))))
            /\ forall b, alias_env b -> EV e_lab [(b ++ src t)%list] = Some (VMap (p_labels (snd (out t))))).

  Ltac sinv_open H :=
    destruct H as [e_ts [e_fp [e_lab [e_str [e_val [w [T [src [out [keep
                  [Hf [Hsrc [Hcs [Hstr [Hw [Hperm [Hm [Hfree [Hss [Hsf Hlf]]]]]]]]]]]]]]]]]]]].
  Ltac sinv_split := split; [|split; [|split; [|split; [|split; [|split; [|split; [|split; [|split; [|split]]]]]]]]].

  Lemma flat5_set_cols q cols w ords lim cols' : flat5 q cols w ords lim -> flat5 (set_cols cols' q) cols' w ords lim.
  Proof. intros [F1 F2 F3 F4 F5 F6 F7 F8 F9 F10]. constructor; cbn; assumption || reflexivity. Qed.
  Lemma flat5_set_where q cols w ords lim w' : flat5 q cols w ords lim -> flat5 (set_where w' q) cols w' ords lim.
  Proof. intros [F1 F2 F3 F4 F5 F6 F7 F8 F9 F10]. constructor; cbn; assumption || reflexivity. Qed.
  Lemma flat5_set_orderby q cols w ords lim o' : flat5 q cols w ords lim -> flat5 (set_orderby o' q) cols w o' lim.
  Proof. intros [F1 F2 F3 F4 F5 F6 F7 F8 F9 F10]. constructor; cbn; assumption || reflexivity. Qed.
  Lemma flat5_set_limit q cols w ords lim l' : flat5 q cols w ords lim -> flat5 (set_limit l' q) cols w ords l'.
  Proof. intros [F1 F2 F3 F4 F5 F6 F7 F8 F9 F10]. constructor; cbn; assumption || reflexivity. Qed.

  Lemma parsed_not_fmt m : (m = MFresh \/ m = MParsed) -> m <> MFmt /\ m <> MFilt.
  Proof. intros [->| ->]; split; discriminate. Qed.

  Definition json_patch (ps : list parser_param) (paths : list (list string)) (req : select) : select :=
    let req1 := set_cols (patch_col (s_cols req) "labels"
                  (fun object => Fn "mapUpdate" [object; sql_json_parser (map pp_label ps) paths])) req in
    set_cols (patch_col (s_cols req1) "fingerprint" (fun _ => fp_of_labels)) req1.

  Lemma sinv_json sel done m swap ps paths : sinv sel done m swap -> (m = MFresh \/ m = MParsed) ->
    all_paths ps = Some paths -> sinv (json_patch ps paths sel) (done ++ [PParser PJson ps]) MParsed swap.
  Proof.
    intros H Hmode Hp. sinv_open H. destruct (parsed_not_fmt m Hmode) as [Hnf Hnfl].
    assert (Ew : w = None) by (now apply Hm). subst w.
    exists e_ts, fp_of_labels, (Fn "mapUpdate" [e_lab; sql_json_parser (map pp_label ps) paths]), e_str, e_val, None,
           T, src, (fun t => json_state ps paths (out t)), keep.
    sinv_split.
    - unfold json_patch. cbn [s_cols set_cols]. rewrite (f_cols _ _ _ _ _ Hf).
      replace (patch_col (patch_col (cols5 swap e_ts e_fp e_lab e_str e_val) "labels"
                 (fun object => Fn "mapUpdate" [object; sql_json_parser (map pp_label ps) paths])) "fingerprint" (fun _ => fp_of_labels))
        with (cols5 swap e_ts fp_of_labels (Fn "mapUpdate" [e_lab; sql_json_parser (map pp_label ps) paths]) e_str e_val)
        by (destruct swap; reflexivity).
      eapply flat5_set_cols. eapply flat5_set_cols. exact Hf.
    - exact Hsrc.
    - intros t Ht. apply (colsem_json e_ts e_fp e_lab e_str e_val); [now apply Hcs|now apply Hstr|now apply Hsf|exact Hp].
    - intros _ t Ht. cbn [json_state fst]. now apply Hstr.
    - exact Hw.
    - rewrite (live_json done ps paths Hp), <- (map_map out (json_state ps paths)). now apply Permutation_map.
    - reflexivity.
    - intros [H|H]; discriminate.
    - intros _ Hs t Ht. cbn [json_state fst]. now apply Hss.
    - intros _ t Ht. cbn [json_state fst]. now apply Hsf.
    - intros [H|H]; discriminate.
  Qed.

  Definition regexp_patch (ps : list parser_param) (req : select) : select :=
    let req1 := set_cols (patch_col (s_cols req) "labels"
                  (fun object => Fn "mapUpdate" [object; regex_map (re_names ps) (re_sent ps)])) req in
    set_cols (patch_col (s_cols req1) "fingerprint" (fun _ => fp_of_labels)) req1.

  Lemma sinv_regexp sel done m swap ps : sinv sel done m swap -> (m = MFresh \/ m = MParsed) ->
    regexp_oracle ps -> sinv (regexp_patch ps sel) (done ++ [PParser PRegexp ps]) MParsed swap.
  Proof.
    intros H Hmode Ho. sinv_open H. destruct (parsed_not_fmt m Hmode) as [Hnf Hnfl].
    assert (Ew : w = None) by (now apply Hm). subst w.
    exists e_ts, fp_of_labels, (Fn "mapUpdate" [e_lab; regex_map (re_names ps) (re_sent ps)]), e_str, e_val, None,
           T, src, (fun t => regexp_state ps (out t)), keep.
    sinv_split.
    - unfold regexp_patch. cbn [s_cols set_cols]. rewrite (f_cols _ _ _ _ _ Hf).
      replace (patch_col (patch_col (cols5 swap e_ts e_fp e_lab e_str e_val) "labels"
                 (fun object => Fn "mapUpdate" [object; regex_map (re_names ps) (re_sent ps)])) "fingerprint" (fun _ => fp_of_labels))
        with (cols5 swap e_ts fp_of_labels (Fn "mapUpdate" [e_lab; regex_map (re_names ps) (re_sent ps)]) e_str e_val)
        by (destruct swap; reflexivity).
      eapply flat5_set_cols. eapply flat5_set_cols. exact Hf.
    - exact Hsrc.
    - intros t Ht. apply (colsem_regexp e_ts e_fp e_lab e_str e_val); [now apply Hcs|now apply Hstr|now apply Hsf|exact Ho].
    - intros _ t Ht. cbn [regexp_state fst]. now apply Hstr.
    - exact Hw.
    - rewrite (live_regexp done ps Ho), <- (map_map out (regexp_state ps)). now apply Permutation_map.
    - reflexivity.
    - intros [H|H]; discriminate.
    - intros _ Hs t Ht. cbn [regexp_state fst]. now apply Hss.
    - intros _ t Ht. cbn [regexp_state fst]. now apply Hsf.
    - intros [H|H]; discriminate.
  Qed.

  Definition drop_patch (ps : list (string * option string)) (req : select) : select :=
    let req1 := set_cols (patch_col (s_cols req) "labels" (fun l => map_drop_filter l ps)) req in
    set_cols (patch_col (s_cols req1) "fingerprint" (fun _ => fp_of_labels)) req1.

  Lemma sinv_drop sel done m swap ps : sinv sel done m swap -> (m = MFresh \/ m = MParsed) ->
    sinv (drop_patch ps sel) (done ++ [PDrop ps]) MParsed swap.
  Proof.
    intros H Hmode. sinv_open H. destruct (parsed_not_fmt m Hmode) as [Hnf Hnfl].
    assert (Ew : w = None) by (now apply Hm). subst w.
    exists e_ts, fp_of_labels, (map_drop_filter e_lab ps), e_str, e_val, None, T, src, (fun t => drop_state ps (out t)), keep.
    sinv_split.
    - unfold drop_patch. cbn [s_cols set_cols]. rewrite (f_cols _ _ _ _ _ Hf).
      replace (patch_col (patch_col (cols5 swap e_ts e_fp e_lab e_str e_val) "labels" (fun l => map_drop_filter l ps))
                 "fingerprint" (fun _ => fp_of_labels))
        with (cols5 swap e_ts fp_of_labels (map_drop_filter e_lab ps) e_str e_val) by (destruct swap; reflexivity).
      eapply flat5_set_cols. eapply flat5_set_cols. exact Hf.
    - exact Hsrc.
    - intros t Ht. apply (colsem_drop e_ts e_fp e_lab e_str e_val); [now apply Hcs|now apply Hsf].
    - intros _ t Ht. cbn [drop_state fst]. now apply Hstr.
    - exact Hw.
    - rewrite (live_drop done ps), <- (map_map out (drop_state ps)). now apply Permutation_map.
    - reflexivity.
    - intros [H|H]; discriminate.
    - intros _ Hs t Ht. cbn [drop_state fst]. now apply Hss.
    - intros _ t Ht. cbn [drop_state fst]. now apply Hsf.
    - intros [H|H]; discriminate.
  Qed.

  (* | line_format "tmpl": the string body becomes the format() call; the select is closed behind it *)
  Definition lfmt_patch (ns : list LogqlTemplate.tnode) (req : select) : select :=
    set_cols (patch_col (s_cols req) "string" (fun _ => LogqlTemplate.tpl_sql ns)) req.
  Lemma sinv_lfmt sel done m swap tm ns : sinv sel done m swap -> (m = MFresh \/ m = MFilt) ->
    LogqlTemplate.tpl_parse tm = LogqlTemplate.TOk ns -> tpl_total ns ->
    sinv (lfmt_patch ns sel) (done ++ [PLineFormat tm]) MFmt swap.
  Proof.
    intros H Hmode Hp Htot. sinv_open H.
    exists e_ts, e_fp, e_lab, (LogqlTemplate.tpl_sql ns), e_val, w, T, src, (fun t => lfmt_state ns (out t)), keep.
    sinv_split.
    - unfold lfmt_patch. cbn [s_cols set_cols]. rewrite (f_cols _ _ _ _ _ Hf).
      replace (patch_col (cols5 swap e_ts e_fp e_lab e_str e_val) "string" (fun _ => LogqlTemplate.tpl_sql ns))
        with (cols5 swap e_ts e_fp e_lab (LogqlTemplate.tpl_sql ns) e_val) by (destruct swap; reflexivity).
      eapply flat5_set_cols. exact Hf.
    - exact Hsrc.
    - intros t Ht. destruct (Hlf Hmode t Ht) as [Hl1 Hl2].
      apply (colsem_lfmt e_ts e_fp e_lab e_str e_val); [now apply Hcs|exact Htot|exact Hl1|exact Hl2].
    - intros Hn. now contradiction Hn.
    - apply (wsem_labels_ext w T src out); [reflexivity|exact Hw].
    - rewrite (live_lfmt done tm ns Hp Htot), <- (map_map out (lfmt_state ns)). now apply Permutation_map.
    - intros _ Hn. now contradiction Hn.
    - intros [H|H]; discriminate.
    - intros Hn. now contradiction Hn.
    - intros Hn. now contradiction Hn.
    - intros [H|H]; discriminate.
  Qed.

  Lemma perm_filter_step (T : list lstate) out keep (ok : lstate -> bool) l :
    Permutation (map out (filter keep T)) l ->
    Permutation (map out (filter (fun t => keep t && ok (out t)) T)) (filter ok l).
  Proof.
    intros H. rewrite <- (filter_filter (fun t => ok (out t)) keep), <- (filter_map_comm out ok).
    now apply Permutation_filter.
  Qed.

  Lemma sinv_filter sel done m cond (ok : lstate -> bool) s :
    sinv sel done m false -> (m = MFresh \/ m = MFilt) ->
    (forall T src out, (forall t, List.In t T -> lookup "samples.string" (src t) = Some (VStr (x_line (fst (out t))))) ->
       forall t : lstate, List.In t T -> forall b, alias_env b -> lookup "labels" b = Some (VMap (p_labels (snd (out t)))) ->
         EV cond [(b ++ src t)%list] = Some (vbool (ok (out t)))) ->
    live (done ++ [s]) = filter ok (live done) ->
    sinv (and_where [cond] sel) (done ++ [s]) MFilt false.
  Proof.
    intros H Hmode Hcond Hlive. sinv_open H.
    assert (Hnf : m <> MFmt) by (destruct Hmode as [->| ->]; discriminate).
    exists e_ts, e_fp, e_lab, e_str, e_val, (and_into w [cond]), T, src, out, (fun t => keep t && ok (out t)).
    sinv_split.
    - unfold and_where. rewrite (f_where _ _ _ _ _ Hf). eapply flat5_set_where. exact Hf.
    - exact Hsrc.
    - exact Hcs.
    - intros _. now apply Hstr.
    - apply (wsem_and w T src out keep cond (fun t => ok (out t)) Hw). apply (Hcond T src out).
      intros t Ht. now apply Hss.
    - rewrite Hlive. now apply perm_filter_step.
    - intros H. congruence.
    - intros [H|H]; discriminate.
    - intros _. now apply Hss.
    - intros _. now apply Hsf.
    - intros _ t Ht. now apply Hlf.
  Qed.

  (* MainRenew: the open select is closed and read as `samples` by a fresh one *)
  Definition renew_select (a : string) (m : select) : select :=
    set_cols ([SimpleCol "samples.timestamp_ns" "timestamp_ns"; SimpleCol "samples.fingerprint" "fingerprint"]
              ++ [SimpleCol "samples.labels" "labels"]
              ++ [SimpleCol "samples.string" "string"; SimpleCol "samples.value" "value"])
      (set_from (Col (WRef a m) "samples") (with_ [(a, m)] empty_select)).
  Definition samples_env (swap : bool) (t : lstate) : row := env_of "samples" (st_row swap t).
  Lemma not_alias k : negb (existsb (String.eqb k) alias5) = true -> ~ List.In k alias5.
  Proof.
    intros H Hin. apply negb_true_iff in H. assert (Hex : existsb (String.eqb k) alias5 = true).
    { apply existsb_exists. exists k. split; [exact Hin|apply String.eqb_refl]. }
    congruence.
  Qed.
  Lemma ev_id_src k b r g : alias_env b -> negb (existsb (String.eqb k) alias5) = true ->
    EV (Id k) ((b ++ r)%list :: g) = lookup k r.
  Proof. intros Hb Hk. cbn [ev]. apply lookup_alias_skip; [exact Hb|now apply not_alias]. Qed.

  Lemma sinv_closed sel done m swap : sinv sel done m swap ->
    exists U, ES sel = Some (map (st_row swap) U) /\ Permutation U (live done).
  Proof.
    intros H. sinv_open H.
    exists (map out (filter keep T)). split; [|exact Hperm].
    apply (es_five_plain sel swap e_ts e_fp e_lab e_str e_val w T src out keep Hf Hsrc Hcs).
    apply (wsem_cond w T src out keep swap Hw).
  Qed.

  Lemma sinv_renew a sel done m swap : sinv sel done m swap -> sinv (renew_select a sel) done MFresh false.
  Proof.
    intros H. destruct (sinv_closed sel done m swap H) as [U [HU Hperm]].
    exists (Id "samples.timestamp_ns"), (Id "samples.fingerprint"), (Id "samples.labels"), (Id "samples.string"), (Id "samples.value"),
           None, U, (samples_env swap), (fun t => t), (fun _ => true).
    sinv_split.
    - constructor; reflexivity.
    - unfold src_rows, renew_select. cbn [s_joins s_from set_cols set_from with_ add_withs set_withs empty_select fold_left].
      change (ET (Col (WRef a sel) "samples")) with (option_map (qualify "samples") (ES sel)).
      rewrite HU. cbn [option_map]. rewrite qualify_map. reflexivity.
    - intros t Ht. unfold samples_env. constructor; intros b Hb; intros; rewrite ev_id_src by (assumption || reflexivity);
        destruct swap; reflexivity.
    - intros _ t Ht. unfold samples_env. destruct swap; reflexivity.
    - intros t Ht. reflexivity.
    - rewrite filter_true, map_id. exact Hperm.
    - reflexivity.
    - intros _ t Ht b Hb. rewrite ev_id_src by (assumption || reflexivity). unfold samples_env. destruct swap; reflexivity.
    - intros _ _ t Ht. unfold samples_env. destruct swap; reflexivity.
    - intros _ t Ht b Hb. rewrite ev_id_src by (assumption || reflexivity). unfold samples_env. destruct swap; reflexivity.
    - intros _ t Ht. split; [unfold samples_env; destruct swap; reflexivity|].
      intros b Hb. rewrite ev_id_src by (assumption || reflexivity). unfold samples_env. destruct swap; reflexivity.
  Qed.
End BRIDGE2.
