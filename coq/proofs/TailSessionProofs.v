(* C12 -- the live-tail session of model/TailSession.v: the tail goroutine never stays blocked in its send, the session
   winds down completely once the client is gone or the database failed, and (since 5d78c0a) it has no busy loop. The
   state space is finite (96 states): the step-wise facts are computed over all_states and lifted. *)
From Coq Require Import List Bool Arith Lia.
From Qryn Require Import model.TailSession.
Import ListNotations.

Lemma all_states_complete : forall s, In s all_states.
Proof. intros [[] [] [] [] []]; vm_compute; tauto. Qed.

Lemma lift : forall f : state -> bool, forallb f all_states = true -> forall s, f s = true.
Proof. intros f H s. rewrite forallb_forall in H. apply H. apply all_states_complete. Qed.

Inductive star (R : state -> state -> Prop) : state -> state -> Prop :=
| star_refl : forall s, star R s s
| star_step : forall s s1 s2, R s s1 -> star R s1 s2 -> star R s s2.

Lemma inv_step : forall fixed s s', inv s = true -> step fixed s s' -> inv s' = true.
Proof.
  intros fixed s s' Hi Hs.
  assert (H : inv_preserved fixed = true) by (destruct fixed; vm_compute; reflexivity).
  pose proof (lift _ H s) as Hl. cbv beta in Hl. rewrite Hi in Hl. cbn [implb] in Hl.
  rewrite forallb_forall in Hl. apply Hl. exact Hs.
Qed.

Lemma inv_reachable : forall fixed s, star (step fixed) init s -> inv s = true.
Proof.
  intros fixed s H. assert (Hi : inv init = true) by reflexivity. revert Hi.
  induction H; intros Hi; [exact Hi|]. apply IHstar. eapply inv_step; eauto.
Qed.

(* with or without the repair, under any schedule: whenever the tail goroutine is blocked in a send on res, a receiver
   is there (the handler's loop, or the drainer it leaves behind) *)
Lemma never_blocked_on_send : forall fixed s, star (step fixed) init s -> send_stuck s = false.
Proof.
  intros fixed s H. pose proof (inv_reachable _ _ H) as Hi.
  pose proof (lift _ (eq_refl : never_stuck = true) s) as Hl. cbv beta in Hl. rewrite Hi in Hl. cbn [implb] in Hl.
  apply negb_true_iff in Hl. exact Hl.
Qed.

Lemma usuccs_succs : forall fixed s s', In s' (usuccs fixed s) -> In s' (succs fixed s).
Proof.
  intros fixed s s' H. unfold usuccs in H.
  destruct (isuccs fixed s) eqn:E; [exact H|]. rewrite <- E in H. clear E.
  apply in_app_or in H. destruct H as [H | H].
  - unfold isuccs in H. unfold succs. apply in_map_iff in H. destruct H as [p [Hp Hin]]. apply filter_In in Hin.
    apply in_map_iff. exists p. tauto.
  - unfold env_succs in H. unfold succs, next. destruct (s_gone s) eqn:G; [destruct H|].
    rewrite !map_app. apply in_or_app. right. apply in_or_app. right. apply in_or_app. right. exact H.
Qed.

Lemma winding_step : forall s s', inv s = true -> winding s = true -> ustep true s s' ->
  inv s' = true /\ winding s' = true /\ measure s' < measure s.
Proof.
  intros s s' Hi Hw Hs.
  split; [eapply inv_step; eauto; apply usuccs_succs; exact Hs|].
  pose proof (lift _ (eq_refl : winding_decreases true = true) s) as Hl. cbv beta in Hl. rewrite Hi, Hw in Hl. cbn [andb implb] in Hl.
  apply andb_true_iff in Hl. destruct Hl as [Hl _]. rewrite forallb_forall in Hl. apply Hl in Hs.
  apply andb_true_iff in Hs. destruct Hs as [H1 H2]. apply Nat.ltb_lt in H2. auto.
Qed.

Lemma winding_acc : forall n s, measure s < n -> inv s = true -> winding s = true -> Acc (fun s' s0 => ustep true s0 s') s.
Proof.
  induction n as [| n IH]; intros s Hm Hi Hw; [lia|].
  constructor. intros s' Hs. destruct (winding_step _ _ Hi Hw Hs) as [Hi' [Hw' Hlt]]. apply IH; auto. lia.
Qed.

Lemma winding_star : forall s s', star (ustep true) s s' -> inv s = true -> winding s = true -> inv s' = true /\ winding s' = true.
Proof.
  intros s s' H. induction H; intros Hi Hw; [auto|]. destruct (winding_step _ _ Hi Hw H) as [Hi' [Hw' _]]. auto.
Qed.

(* once the client is gone, or the tail goroutine has ended after a database error: every schedule (time passes only
   when no channel operation is ready) is finite, and it can only stop with the tail goroutine, the handler and the
   drainer all returned *)
Lemma winds_down : forall s, star (step true) init s -> winding s = true ->
  Acc (fun s' s0 => ustep true s0 s') s /\
  forall s', star (ustep true) s s' -> usuccs true s' = [] -> all_done s' = true.
Proof.
  intros s Hr Hw. pose proof (inv_reachable _ _ Hr) as Hi. split.
  - eapply winding_acc; eauto.
  - intros s' Hs He. destruct (winding_star _ _ Hs Hi Hw) as [Hi' Hw'].
    pose proof (lift _ (eq_refl : winding_decreases true = true) s') as Hl. cbv beta in Hl. rewrite Hi', Hw' in Hl. cbn [andb implb] in Hl.
    apply andb_true_iff in Hl. destruct Hl as [_ Hl]. rewrite He in Hl. exact Hl.
Qed.

Lemma isuccs_succs : forall fixed s s', istep fixed s s' -> step fixed s s'.
Proof.
  intros fixed s s' H. unfold istep in H. unfold step. apply in_map_iff in H. destruct H as [p [Hp Hin]]. apply filter_In in Hin.
  apply in_map_iff. exists p. tauto.
Qed.

Lemma immediate_acc : forall n s, imeasure s < n -> inv s = true -> Acc (fun s' s0 => istep true s0 s') s.
Proof.
  induction n as [| n IH]; intros s Hm Hi; [lia|].
  constructor. intros s' Hs.
  pose proof (lift _ (eq_refl : immediate_decreases true = true) s) as Hl. cbv beta in Hl. rewrite Hi in Hl. cbn [implb] in Hl.
  rewrite forallb_forall in Hl. pose proof (Hl s' Hs) as Hlt. apply Nat.ltb_lt in Hlt.
  apply IH; [lia|]. eapply inv_step; eauto. apply isuccs_succs. exact Hs.
Qed.

(* no busy loop since 5d78c0a: between two ticks (no ticker fires, the client does nothing) only finitely many steps happen *)
Lemma no_busy_loop : forall s, star (step true) init s -> Acc (fun s' s0 => istep true s0 s') s.
Proof. intros s H. eapply immediate_acc; [apply Nat.lt_succ_diag_r|]. eapply inv_reachable; eauto. Qed.

(* ... and before: after a database error the handler received from the closed channel and wrote an empty message, at once,
   again and again, while the client stayed (observed: 2999 empty websocket messages in 14 ms) *)
Definition spinning : state := mkS TDone HLoop DNone false false.
Lemma busy_loop_before_fix : star (step false) init spinning /\ istep false spinning spinning /\ ~ istep true spinning spinning.
Proof.
  split; [| split].
  - eapply star_step; [| apply star_refl]. vm_compute. tauto.
  - vm_compute. tauto.
  - vm_compute. intros [H | H]; [discriminate | exact H].
Qed.

(* the hypotheses are met: a session in which the client leaves while the tail goroutine is blocked in its send *)
Example client_leaves_mid_send :
  let s := mkS TSendRes HLoop DNone false true in
  star (step true) init s /\ winding s = true /\ send_stuck s = false.
Proof.
  cbv zeta. split; [| split; reflexivity].
  apply (star_step _ _ (mkS TSendRes HLoop DNone false false)); [vm_compute; tauto|].
  eapply star_step; [| apply star_refl]. vm_compute; tauto.
Qed.
