(* Proofs about the way from the configuration to Rotate (model/RotateCfg.v): property C19. *)
From Coq Require Import List ZArith Bool String Ascii Lia.
From Qryn Require Import model.Rotate model.RotateCfg proofs.RotateProofs.
Import ListNotations.
Open Scope string_scope.
Open Scope Z_scope.

Section GlueProofs.
Variable parse : string -> option Z.

(* one RotatePolicy per ttl_policy element, in order: the parsed timeout and the element's disk *)
Definition elem_policy (e : ttl_elem) (p : policy) : Prop :=
  parse (e_timeout e) = Some (p_ns p) /\ p_disk p = e_move_to e.

Lemma policies_of_some : forall es ps, policies_of parse es = Some ps <-> Forall2 elem_policy es ps.
Proof.
  induction es as [|e r IH]; intros ps; cbn.
  - split; [intros [= <-]; constructor|intros H; inversion H; reflexivity].
  - destruct (parse (e_timeout e)) as [ns|] eqn:E.
    + destruct (policies_of parse r) as [ps'|] eqn:E'.
      * split.
        -- intros [= <-]. constructor; [split; [exact E|reflexivity]|now apply IH].
        -- intros H. inversion H as [|e0 p es0 ps0 [Hp Hd] Hr]; subst.
           apply IH in Hr. injection Hr as <-. rewrite E in Hp. injection Hp as ->.
           destruct p as [pn pd]; cbn in *; subst. reflexivity.
      * split; [discriminate|]. intros H. inversion H as [|e0 p es0 ps0 _ Hr]; subst.
        apply IH in Hr. discriminate.
    + split; [discriminate|]. intros H. inversion H as [|e0 p es0 ps0 [Hp _] _]; subst. rewrite E in Hp. discriminate.
Qed.

Lemma policies_of_none : forall es, policies_of parse es = None <-> exists e, In e es /\ parse (e_timeout e) = None.
Proof.
  induction es as [|e r IH]; cbn.
  - split; [discriminate|intros [e [[] _]]].
  - destruct (parse (e_timeout e)) as [ns|] eqn:E.
    + destruct (policies_of parse r) as [ps'|] eqn:E'.
      * split; [discriminate|]. intros [e' [[<-|Hin] He']]; [rewrite E in He'; discriminate|].
        assert (H : Some ps' = None) by (apply IH; now exists e'). discriminate.
      * split; [|reflexivity]. intros _. destruct (proj1 IH eq_refl) as [e' [Hin He']]. exists e'. split; [now right|exact He'].
    + split; [|reflexivity]. intros _. exists e. split; [now left|exact E].
Qed.

Lemma config_of_some o cfg : config_of parse o = Some cfg ->
  cluster cfg = o_cluster o /\ distributed cfg = negb (String.eqb (o_cluster o) "") /\
  Forall2 elem_policy (o_ttl_policy o) (days cfg) /\ drop_days cfg = o_ttl_days o /\
  storage_policy cfg = o_storage_policy o.
Proof.
  unfold config_of. destruct (policies_of parse (o_ttl_policy o)) as [ps|] eqn:E; [|discriminate].
  intros [= <-]. cbn. repeat split. now apply policies_of_some.
Qed.

Lemma config_of_none o : config_of parse o = None <-> exists e, In e (o_ttl_policy o) /\ parse (e_timeout e) = None.
Proof.
  unfold config_of. destruct (policies_of parse (o_ttl_policy o)) as [ps|] eqn:E.
  - split; [discriminate|]. intros H. apply policies_of_none in H. rewrite E in H. discriminate.
  - split; [|reflexivity]. intros _. now apply policies_of_none.
Qed.

(* a timeout that does not parse: rotateDB issues nothing, changes nothing and reports an error *)
Lemma rotate_db_bad_timeout o f d : (exists e, In e (o_ttl_policy o) /\ parse (e_timeout e) = None) ->
  rotate_db parse o f d = ({| w_db := d; w_log := []; w_fault := f |}, false).
Proof. intros H. apply config_of_none in H. unfold rotate_db. now rewrite H. Qed.

(* every timeout parses: rotateDB is Rotate on the configuration read off the object; uninterrupted it converges *)
Lemma rotate_db_converges o cfg d : config_of parse o = Some cfg -> consistent d ->
  snd (rotate_db parse o None d) = true /\ converged cfg (w_db (fst (rotate_db parse o None d))) /\
  consistent (w_db (fst (rotate_db parse o None d))).
Proof.
  intros Hc Hd. unfold rotate_db. rewrite Hc. split; [apply run_nofault_ok|]. split.
  - exact (proj2 (run_ok_converged cfg None d (run_nofault_ok cfg d)) Hd).
  - exact (run_consistent cfg None d Hd).
Qed.

(* the tiers of every MODIFY TTL rotateDB issues are the object's ttl_policy elements, one by one *)
Definition elem_tier (t : table) (e : ttl_elem) (tr : tier) : Prop :=
  exists ns, parse (e_timeout e) = Some ns /\
             tr_secs tr = Z.min (Z.max (table_min t) (Z.quot ns 1000000000)) 2147483647 /\ tr_disk tr = e_move_to e.

Lemma Forall2_map_r {A B C} (R : A -> B -> Prop) (Q : A -> C -> Prop) (g : B -> C) :
  (forall a b, R a b -> Q a (g b)) -> forall la lb, Forall2 R la lb -> Forall2 Q la (map g lb).
Proof. intros H la lb F. induction F; cbn; constructor; auto. Qed.

Lemma rotate_db_tiers o f d t c ts dd b :
  In (CTtl t c ts dd, b) (w_log (fst (rotate_db parse o f d))) ->
  Forall2 (elem_tier t) (o_ttl_policy o) ts /\ dd = o_ttl_days o.
Proof.
  unfold rotate_db. destruct (config_of parse o) as [cfg|] eqn:Hc; [|intros []].
  intros Hin. destruct (run_ttl_exact cfg f d _ Hin) as [Hts Hdd]. cbn in Hts, Hdd.
  destruct (config_of_some o cfg Hc) as [_ [_ [Hdays [Hdrop _]]]].
  split; [|now rewrite Hdd]. rewrite Hts. unfold tiers_spec.
  apply (Forall2_map_r elem_policy); [|exact Hdays].
  intros e p [Hp Hd]. exists (p_ns p). cbn. now repeat split.
Qed.

(* RotateAll *)
Lemma rotate_all_consistent : forall os f d, consistent d -> consistent (snd (rotate_all parse os f d)).
Proof.
  induction os as [|o r IH]; intros f d Hd; cbn [rotate_all]; [exact Hd|].
  destruct (config_of parse o) as [cfg|]; [|exact Hd].
  destruct (run cfg f d) as [w ok] eqn:E.
  assert (Hw : consistent (w_db w)).
  { pose proof (run_consistent cfg f d Hd) as H. unfold run_db in H. now rewrite E in H. }
  destruct ok; [|exact Hw].
  specialize (IH (w_fault w) (w_db w) Hw). destruct (rotate_all parse r (w_fault w) (w_db w)) as [[l' ok'] d']. exact IH.
Qed.

Lemma rotate_all_single o f d :
  rotate_all parse [o] f d =
  match config_of parse o with
  | None => ([], false, d)
  | Some cfg => let '(w, ok) := run cfg f d in (map (render cfg) (rev (w_log w)), ok, w_db w)
  end.
Proof.
  cbn [rotate_all]. destruct (config_of parse o) as [cfg|]; [|reflexivity].
  destruct (run cfg f d) as [w ok]. destruct ok; [|reflexivity]. now rewrite app_nil_r.
Qed.

(* a configuration object with a bad timeout stops RotateAll there: the databases after it are not touched *)
Lemma rotate_all_stops o r f d : config_of parse o = None -> rotate_all parse (o :: r) f d = ([], false, d).
Proof. intros H. cbn [rotate_all]. now rewrite H. Qed.
End GlueProofs.

(* ------------------------------------------------------------------ environment *)
Lemma atoi_range s v : atoi s = Some v -> -9223372036854775808 <= v <= 9223372036854775807.
Proof.
  unfold atoi. destruct s as [|c r]; [discriminate|].
  destruct (decimal _) as [n|]; [|discriminate].
  destruct ((-9223372036854775808 <=? _) && (_ <=? 9223372036854775807)) eqn:E; [|discriminate].
  intros [= <-]. apply andb_true_iff in E. destruct E as [A B]. apply Z.leb_le in A. apply Z.leb_le in B. lia.
Qed.

Example atoi_examples :
  map atoi ["7"; "30"; "+14"; "-1"; "007"; "0"; "9223372036854775807"; "-9223372036854775808"] =
  [Some 7; Some 30; Some 14; Some (-1); Some 7; Some 0; Some 9223372036854775807; Some (-9223372036854775808)] /\
  map atoi [""; " 7"; "7 "; "7d"; "1_000"; "1e3"; "3.5"; "-"; "+"; "0x10"; "9223372036854775808"; "-9223372036854775809"] =
  [None; None; None; None; None; None; None; None; None; None; None; None].
Proof. vm_compute. split; reflexivity. Qed.

(* what portCHEnv makes of the environment when no configuration file listed a database: one object without tiers,
   the days of SAMPLES_DAYS (7 when unset), the storage policy and the cluster name as given *)
Lemma port_ch_env_result e os : port_ch_env e [] = Some os ->
  exists days, os = [{| o_cluster := getenv e "CLUSTER_NAME"; o_ttl_policy := []; o_ttl_days := days;
                        o_storage_policy := getenv e "STORAGE_POLICY" |}] /\
    (if String.eqb (getenv e "SAMPLES_DAYS") "" then days = 7 else atoi (getenv e "SAMPLES_DAYS") = Some days).
Proof.
  unfold port_ch_env. destruct (parse_uint32 _); [|discriminate].
  destruct (negb _ && _); [discriminate|].
  destruct (String.eqb (getenv e "SAMPLES_DAYS") "") eqn:E.
  - intros [= <-]. exists 7. split; reflexivity.
  - destruct (atoi (getenv e "SAMPLES_DAYS")) as [days|] eqn:A; [|discriminate].
    intros [= <-]. exists days. split; reflexivity.
Qed.
Lemma port_ch_env_preset e o r : port_ch_env e (o :: r) = Some (o :: r).
Proof. reflexivity. Qed.
(* a SAMPLES_DAYS text that is not a decimal int64 is refused (main panics): no retention is applied at all *)
Lemma port_ch_env_bad_days e : getenv e "SAMPLES_DAYS" <> "" -> atoi (getenv e "SAMPLES_DAYS") = None ->
  port_ch_env e [] = None.
Proof.
  intros Hne Ha. unfold port_ch_env. destruct (parse_uint32 _); [|reflexivity].
  destruct (negb _ && _); [reflexivity|].
  destruct (String.eqb (getenv e "SAMPLES_DAYS") "") eqn:E; [apply String.eqb_eq in E; contradiction|].
  now rewrite Ha.
Qed.

(* environment -> portCHEnv -> RotateAll on a database whose records name only applied values: the run succeeds and
   every table carries toIntervalDay(days) with the days of the environment, the storage policy of the environment *)
Lemma env_end_to_end parse e os d : port_ch_env e [] = Some os -> consistent d ->
  exists days cfg l d',
    (if String.eqb (getenv e "SAMPLES_DAYS") "" then days = 7 else atoi (getenv e "SAMPLES_DAYS") = Some days) /\
    cfg = {| cluster := getenv e "CLUSTER_NAME"; distributed := negb (String.eqb (getenv e "CLUSTER_NAME") "");
             days := []; drop_days := days; storage_policy := getenv e "STORAGE_POLICY" |} /\
    rotate_all parse os None d = (l, true, d') /\ converged cfg d' /\ consistent d'.
Proof.
  intros He Hd. destruct (port_ch_env_result e os He) as [days [-> Hdays]].
  set (cfg := {| cluster := getenv e "CLUSTER_NAME"; distributed := negb (String.eqb (getenv e "CLUSTER_NAME") "");
                 days := []; drop_days := days; storage_policy := getenv e "STORAGE_POLICY" |}).
  exists days, cfg. rewrite rotate_all_single. cbn [config_of policies_of o_ttl_policy o_cluster o_ttl_days o_storage_policy].
  fold cfg. pose proof (run_nofault_ok cfg d) as Hok.
  pose proof (proj2 (run_ok_converged cfg None d Hok) Hd) as Hconv.
  pose proof (run_consistent cfg None d Hd) as Hcons. unfold run_db in Hconv, Hcons.
  destruct (run cfg None d) as [w ok]. cbn in Hok. subst ok.
  exists (map (render cfg) (rev (w_log w))), (w_db w).
  split; [exact Hdays|]. split; [reflexivity|]. split; [reflexivity|]. split; [exact Hconv|exact Hcons].
Qed.

(* non-vacuity *)
Definition ex_parse (s : string) : option Z :=
  if String.eqb s "90m" then Some 5400000000000 else if String.eqb s "876000h" then Some 3153600000000000000 else None.
Definition ex_obj : dbobj :=
  {| o_cluster := "c1"; o_ttl_policy := [ {| e_timeout := "90m"; e_move_to := "warm" |}; {| e_timeout := "876000h"; e_move_to := "cold" |} ];
     o_ttl_days := 30; o_storage_policy := "tiered" |}.
Definition ex_blank : dbobj :=
  {| o_cluster := ""; o_ttl_policy := [ {| e_timeout := ""; e_move_to := "" |} ]; o_ttl_days := 30; o_storage_policy := "" |}.
Example ex_glue :
  (match config_of ex_parse ex_obj with Some c => (distributed c, map p_ns (days c)) | None => (false, []) end,
   List.length (w_log (fst (rotate_db ex_parse ex_obj None fresh))),
   config_of ex_parse ex_blank, List.length (w_log (fst (rotate_db ex_parse ex_blank None fresh))))
  = ((true, [5400000000000; 3153600000000000000]), 37%nat, None, 0%nat).
Proof. vm_compute. reflexivity. Qed.
Example ex_env :
  port_ch_env [("SAMPLES_DAYS", "30"); ("STORAGE_POLICY", "tiered")] [] =
    Some [{| o_cluster := ""; o_ttl_policy := []; o_ttl_days := 30; o_storage_policy := "tiered" |}] /\
  port_ch_env [("SAMPLES_DAYS", "30d")] [] = None /\
  port_ch_env [] [] = Some [{| o_cluster := ""; o_ttl_policy := []; o_ttl_days := 7; o_storage_policy := "" |}].
Proof. vm_compute. repeat split; reflexivity. Qed.
