(* C15 - the TraceQL branch of TempoController.Search drops the error of json.Marshal(trace): a NaN or infinite durationMs
   would leave an empty element (`[,]`). The value is the ClickHouse column
     toFloat64(max(traces.timestamp_ns + traces.duration_ns) - min(traces.timestamp_ns)) / 1000000
   (reader/traceql/transpiler/clickhouse_transpiler/traces_data.go; min() of it per trace): an Int64 converted to Float64 and
   divided by the constant 1000000, which is finite for every Int64 - so the guard of doc_wellformed_search_traceql is met by
   everything the stored data can produce. *)
From Coq Require Import List NArith ZArith Bool Ascii String.
From Qryn Require Import model.GoFloat model.JsonStream proofs.GoMarshalProofs.
Import ListNotations.

Lemma int_quotient_finite : forall z c, fl_finite (fl_div_int (fl_of_int z) c) = true.
Proof.
  intros z c. unfold fl_of_int. destruct (z =? 0)%Z; [reflexivity|].
  destruct (rne (Z.abs z) 1) as [m e]. cbn [fl_div_int]. destruct (rne _ _) as [m' e']. reflexivity.
Qed.

Definition duration_from_store (bits : N) : Prop := exists z : Z, fl_of_bits bits = fl_div_int (fl_of_int z) 1000000.

Theorem search_traceql_stored_bytes : forall ts, (forall t, In t ts -> duration_from_store (ti_dur t)) ->
  parse_bytes (render (enc_search (map trace_info_val ts))) = Some (doc_search_of (map sanitize_doc (map trace_info_val ts))).
Proof.
  intros ts H. apply search_traceql_bytes. apply forallb_forall. intros t Ht. destruct (H t Ht) as [z ->]. apply int_quotient_finite.
Qed.

(* 1.5 ms: 1500000 ns / 1000000 = 0x3FF8000000000000 *)
Example duration_from_store_met : duration_from_store 4609434218613702656.
Proof. exists 1500000%Z. vm_compute. reflexivity. Qed.
