(* sanitizeProfile (coq/model/ProfRewrite.v sanitize) makes EVERY payload sane -- well formed or not: the hypothesis
   payloads_sane of payload_merge_is_sum (evaluated per payload until round 8) is a theorem, and a merge that is not
   refused has one number of sample types; so the merge theorem holds with no hypothesis on the payloads at all. *)
From Coq Require Import List NArith ZArith Bool Lia Permutation.
From Qryn Require Import model.Pprof model.ProfMerge model.ProfRewrite proofs.PprofProofs proofs.ProfMergeProofs
  proofs.ProfRewriteProofs proofs.ProfSanitizeProofs.
Import ListNotations.
Open Scope Z_scope.

(* a Go id map all of whose values are 0 (missing) or in 1..n *)
Definition bounded (t : amap) (n : Z) : Prop := forall k, aget t k = 0 \/ 1 <= aget t k <= n.

Lemma bounded_nil n : bounded [] n.
Proof. intros k. left. reflexivity. Qed.
Lemma bounded_aset t n k v : bounded t n -> 1 <= v <= n -> bounded (aset t k v) n.
Proof. intros H Hv k'. unfold aset. cbn [aget]. destruct (Z.eqb k k'); [right; exact Hv|apply H]. Qed.
Lemma bounded_mono t n m : n <= m -> bounded t n -> bounded t m.
Proof. intros Hnm H k. destruct (H k) as [H0|H1]; [left; exact H0|right; lia]. Qed.

Section Renumber2.
  Context {A : Type} (getid : A -> Z) (setid : A -> Z -> A).

  Lemma renumber_bounded : forall l j t, 1 <= j -> bounded t (j - 1) ->
    bounded (snd (renumber getid setid l j t)) (j - 1 + Z.of_nat (length l)).
  Proof.
    induction l as [|x r IH]; intros j t Hj Ht; cbn [renumber].
    - cbn [snd length]. replace (j - 1 + Z.of_nat 0) with (j - 1) by lia. exact Ht.
    - specialize (IH (j + 1) (aset t (getid x) j) ltac:(lia)).
      destruct (renumber getid setid r (j + 1) (aset t (getid x) j)) as [r' t'] eqn:E. cbn [snd] in *.
      replace (j - 1 + Z.of_nat (length (x :: r))) with (j + 1 - 1 + Z.of_nat (length r)) by (cbn [length]; lia).
      apply IH. apply bounded_aset; [|lia]. eapply bounded_mono; [|exact Ht]. lia.
  Qed.

  Lemma renumber_Forall (Q : A -> Prop) : (forall x j, Q x -> Q (setid x j)) ->
    forall l j t, Forall Q l -> Forall Q (fst (renumber getid setid l j t)).
  Proof.
    intros HQ. induction l as [|x r IH]; intros j t H; cbn [renumber]; [constructor|].
    inversion H as [|? ? Hx Hr]; subst. specialize (IH (j + 1) (aset t (getid x) j) Hr).
    destruct (renumber getid setid r (j + 1) (aset t (getid x) j)) as [r' t'] eqn:E. cbn [fst] in *.
    constructor; [apply HQ; exact Hx|exact IH].
  Qed.
End Renumber2.

Lemma san_str_range z ms i : 0 <= z < ms -> 0 <= san_str z ms i < ms.
Proof.
  intro H. unfold san_str. destruct (Z.eqb i 0 && Z.ltb 0 z) eqn:E1; [lia|].
  destruct (Z.eqb i z || Z.leb ms i || Z.ltb i 0) eqn:E2; [lia|].
  apply orb_false_iff in E2. destruct E2 as [E2 E3]. apply orb_false_iff in E2. destruct E2 as [_ E2].
  apply Z.leb_gt in E2. apply Z.ltb_ge in E3. lia.
Qed.

Lemma san_z_range strs :
  let z0 := index_of0 strs 0 in
  let strs1 := if Z.eqb z0 (-1) then strs ++ [0] else strs in
  let z := if Z.eqb z0 (-1) then Z.of_nat (length strs) else z0 in
  0 <= z < Z.of_nat (length strs1).
Proof.
  cbv zeta. destruct (index_of0_spec strs 0 ltac:(lia)) as [[H1 _]|[H1 _]].
  - rewrite H1. change (Z.eqb (-1) (-1)) with true. cbv iota. rewrite app_length. cbn [length]. lia.
  - destruct (Z.eqb (index_of0 strs 0) (-1)) eqn:E; [apply Z.eqb_eq in E; lia|]. lia.
Qed.

Lemma san_loc_maps_spec t n : 0 <= n -> bounded t n -> forall ls fake, (fake = 0 \/ fake = n + 1) ->
  (fake = n + 1 -> snd (san_loc_maps t n ls fake) = n + 1) /\
  Forall (fun l => 1 <= l_map l <= n \/ (l_map l = n + 1 /\ snd (san_loc_maps t n ls fake) = n + 1))
         (fst (san_loc_maps t n ls fake)).
Proof.
  intros Hn Ht. induction ls as [|x r IH]; intros fake Hf; cbn [san_loc_maps].
  - cbn [fst snd]. split; [intro H; exact H|constructor].
  - destruct (Z.eqb (l_map x) 0).
    + set (fake' := if Z.eqb fake 0 then n + 1 else fake).
      assert (Hf' : fake' = n + 1).
      { unfold fake'. destruct Hf as [-> | ->]; [reflexivity|]. destruct (Z.eqb (n + 1) 0); reflexivity. }
      destruct (IH fake' (or_intror Hf')) as [IH1 IH2].
      destruct (san_loc_maps t n r fake') as [r' f'] eqn:E. cbn [fst snd] in *.
      split; [intros _; apply IH1; exact Hf'|].
      constructor; [right; cbn [set_lmap l_map]; split; [exact Hf'|apply IH1; exact Hf']|exact IH2].
    + destruct (IH fake Hf) as [IH1 IH2].
      destruct (san_loc_maps t n r fake) as [r' f'] eqn:E.
      destruct (Z.eqb (aget t (l_map x)) 0) eqn:Em; cbn [fst snd] in *.
      * split; assumption.
      * split; [exact IH1|]. constructor; [|exact IH2]. left. cbn [set_lmap l_map].
        destruct (Ht (l_map x)) as [H0|H1]; [apply Z.eqb_neq in Em; contradiction|exact H1].
Qed.

Lemma san_lines_spec t n : bounded t n -> forall ls r, san_lines t ls = Some r -> Forall (fun ln => 1 <= ln_fn ln <= n) r.
Proof.
  intros Ht. induction ls as [|x ls IH]; intros r H; cbn [san_lines] in H; [inversion H; constructor|].
  destruct (Z.eqb (aget t (ln_fn x)) 0) eqn:E; [discriminate|].
  destruct (san_lines t ls) as [r'|] eqn:E'; [|discriminate]. inversion H; subst.
  constructor; [|apply IH; reflexivity]. cbn [set_lnfn ln_fn].
  destruct (Ht (ln_fn x)) as [H0|H1]; [apply Z.eqb_neq in E; contradiction|exact H1].
Qed.

Lemma san_loc_funs_spec t n (Q : Z -> Prop) : bounded t n -> forall ls, Forall (fun l => Q (l_map l)) ls ->
  Forall (fun l => Q (l_map l) /\ Forall (fun ln => 1 <= ln_fn ln <= n) (l_lines l)) (san_loc_funs t ls).
Proof.
  intros Ht. induction ls as [|x ls IH]; intros H; cbn [san_loc_funs]; [constructor|].
  inversion H as [|? ? Hx Hr]; subst. destruct (san_lines t (l_lines x)) as [lines|] eqn:E; [|apply IH; exact Hr].
  constructor; [|apply IH; exact Hr]. cbn [set_llines l_map l_lines]. split; [exact Hx|].
  eapply san_lines_spec; eassumption.
Qed.

Lemma san_locids_spec t n : bounded t n -> forall ids r, san_locids t ids = Some r -> Forall (fun i => 1 <= i <= n) r.
Proof.
  intros Ht. induction ids as [|x ids IH]; intros r H; cbn [san_locids] in H; [inversion H; constructor|].
  destruct (Z.eqb (aget t x) 0) eqn:E; [discriminate|].
  destruct (san_locids t ids) as [r'|] eqn:E'; [|discriminate]. inversion H; subst.
  constructor; [|apply IH; reflexivity].
  destruct (Ht x) as [H0|H1]; [apply Z.eqb_neq in E; contradiction|exact H1].
Qed.

Lemma san_samples_spec str t n vs ms : bounded t n -> (forall i, 0 <= str i < ms) -> forall ss,
  Forall (fun s => length (s_vals s) = vs /\ Forall (fun i => 1 <= i <= n) (s_locs s) /\
                   Forall (fun lb => 0 <= lb_key lb < ms /\ 0 <= lb_str lb < ms) (s_labels s))
         (san_samples str t vs ss).
Proof.
  intros Ht Hstr. induction ss as [|x ss IH]; cbn [san_samples]; [constructor|].
  destruct (negb (Nat.eqb (length (s_vals x)) vs)) eqn:E; [exact IH|].
  destruct (san_locids t (s_locs x)) as [ids|] eqn:El; [|exact IH].
  constructor; [|exact IH]. cbn [s_vals s_locs s_labels].
  split; [apply negb_false_iff in E; apply Nat.eqb_eq in E; exact E|].
  split; [eapply san_locids_spec; eassumption|].
  apply Forall_forall. intros lb Hlb. apply in_map_iff in Hlb. destruct Hlb as [lb0 [<- _]].
  cbn [san_label lb_key lb_str]. split; apply Hstr.
Qed.

(* every reference of the sanitized payload resolves and every string index is inside its string table *)
Lemma sanitize_scoped p :
  let q := sanitize p in
  let ms := Z.of_nat (length (p_strs q)) in
  Forall (fun f => 0 <= f_name f < ms /\ 0 <= f_sys f < ms /\ 0 <= f_file f < ms) (p_funs q) /\
  Forall (fun m => 0 <= m_file m < ms /\ 0 <= m_build m < ms) (p_maps q) /\
  Forall (fun l => 1 <= l_map l <= Z.of_nat (length (p_maps q)) /\
                   Forall (fun ln => 1 <= ln_fn ln <= Z.of_nat (length (p_funs q))) (l_lines l)) (p_locs q) /\
  Forall (fun s => length (s_vals s) = length (p_types q) /\
                   Forall (fun i => 1 <= i <= Z.of_nat (length (p_locs q))) (s_locs s) /\
                   Forall (fun lb => 0 <= lb_key lb < ms /\ 0 <= lb_str lb < ms) (s_labels s)) (p_samps q) /\
  Forall (fun v => 0 <= vt_type v < ms /\ 0 <= vt_unit v < ms) (p_types q) /\
  (forall v, p_ptype q = Some v -> 0 <= vt_type v < ms /\ 0 <= vt_unit v < ms).
Proof.
  cbv zeta. unfold sanitize. cbv zeta.
  pose proof (san_z_range (p_strs p)) as Hz. cbv zeta in Hz.
  set (z0 := index_of0 (p_strs p) 0) in *.
  set (strs1 := if Z.eqb z0 (-1) then p_strs p ++ [0] else p_strs p) in *.
  set (z := if Z.eqb z0 (-1) then Z.of_nat (length (p_strs p)) else z0) in *.
  assert (Hms : exists ms, Z.of_nat (length strs1) = ms) by (eexists; reflexivity).
  destruct Hms as [ms Hms]. rewrite Hms in *.
  set (str := san_str z ms).
  assert (Hstr : forall i, 0 <= str i < ms) by (intro i; apply san_str_range; exact Hz).
  clearbody str.
  (* mappings *)
  match goal with |- context [renumber m_id set_mid ?l 1 []] => set (ml := l) end.
  pose proof (renumber_length m_id set_mid ml 1 []) as Hml.
  pose proof (renumber_bounded m_id set_mid ml 1 [] ltac:(lia) (bounded_nil _)) as Hmb.
  assert (Hmq0 : Forall (fun m => 0 <= m_file m < ms /\ 0 <= m_build m < ms) ml).
  { apply Forall_forall. intros m Hm. apply in_map_iff in Hm. destruct Hm as [m0 [<- _]]. cbn [m_file m_build]. split; apply Hstr. }
  pose proof (renumber_Forall m_id set_mid (fun m => 0 <= m_file m < ms /\ 0 <= m_build m < ms) (fun x j H => H) ml 1 [] Hmq0) as Hmq.
  replace (1 - 1 + Z.of_nat (length ml)) with (Z.of_nat (length ml)) in Hmb by lia.
  destruct (renumber m_id set_mid ml 1 []) as [maps1 tm]. cbn [fst snd] in Hml, Hmb, Hmq. rewrite <- Hml in Hmb.
  (* locations, first pass *)
  pose proof (san_loc_maps_spec tm (Z.of_nat (length maps1)) ltac:(lia) Hmb (p_locs p) 0 (or_introl eq_refl)) as [_ Hl1].
  pose proof (san_loc_maps_fake tm (Z.of_nat (length maps1)) (p_locs p) 0 (or_introl eq_refl)) as Hfake.
  destruct (san_loc_maps tm (Z.of_nat (length maps1)) (p_locs p) 0) as [locs1 fake]. cbn [fst snd] in Hl1, Hfake.
  (* functions *)
  match goal with |- context [renumber f_id set_fid ?l 1 []] => set (fl := l) end.
  pose proof (renumber_length f_id set_fid fl 1 []) as Hfl.
  pose proof (renumber_bounded f_id set_fid fl 1 [] ltac:(lia) (bounded_nil _)) as Hfb.
  assert (Hfq0 : Forall (fun f => 0 <= f_name f < ms /\ 0 <= f_sys f < ms /\ 0 <= f_file f < ms) fl).
  { apply Forall_forall. intros f Hf. apply in_map_iff in Hf. destruct Hf as [f0 [<- _]]. cbn [f_name f_sys f_file].
    split; [apply Hstr|split; apply Hstr]. }
  pose proof (renumber_Forall f_id set_fid (fun f => 0 <= f_name f < ms /\ 0 <= f_sys f < ms /\ 0 <= f_file f < ms)
                (fun x j H => H) fl 1 [] Hfq0) as Hfq.
  replace (1 - 1 + Z.of_nat (length fl)) with (Z.of_nat (length fl)) in Hfb by lia.
  destruct (renumber f_id set_fid fl 1 []) as [funs tf]. cbn [fst snd] in Hfl, Hfb, Hfq. rewrite <- Hfl in Hfb.
  (* locations, second pass and renumbering *)
  pose proof (san_loc_funs_spec tf (Z.of_nat (length funs))
                (fun m => 1 <= m <= Z.of_nat (length maps1) \/ (m = Z.of_nat (length maps1) + 1 /\ fake = Z.of_nat (length maps1) + 1))
                Hfb locs1 Hl1) as Hl2.
  set (l2 := san_loc_funs tf locs1) in *.
  pose proof (renumber_length l_id set_lid l2 1 []) as Hll.
  pose proof (renumber_bounded l_id set_lid l2 1 [] ltac:(lia) (bounded_nil _)) as Hlb.
  pose proof (renumber_Forall l_id set_lid
                (fun l => (1 <= l_map l <= Z.of_nat (length maps1) \/ (l_map l = Z.of_nat (length maps1) + 1 /\ fake = Z.of_nat (length maps1) + 1)) /\
                          Forall (fun ln => 1 <= ln_fn ln <= Z.of_nat (length funs)) (l_lines l))
                (fun x j H => H) l2 1 [] Hl2) as Hlq.
  replace (1 - 1 + Z.of_nat (length l2)) with (Z.of_nat (length l2)) in Hlb by lia.
  destruct (renumber l_id set_lid l2 1 []) as [locs tl]. cbn [fst snd] in Hll, Hlb, Hlq. rewrite <- Hll in Hlb.
  cbn [p_strs p_funs p_maps p_locs p_samps p_types p_ptype].
  rewrite !set_nth_length, Hms.
  split; [exact Hfq|]. split; [|split; [|split; [|split]]].
  - destruct (Z.eqb fake 0); [exact Hmq|]. apply Forall_app. split; [exact Hmq|].
    constructor; [cbn [empty_map m_file m_build]; lia|constructor].
  - eapply Forall_impl; [|exact Hlq]. cbv beta. intros l [Hq Hlines]. split; [|exact Hlines].
    destruct (Z.eqb fake 0) eqn:E.
    + apply Z.eqb_eq in E. destruct Hq as [Hq|[_ Hfk]]; [exact Hq|lia].
    + rewrite app_length. cbn [length]. destruct Hq as [Hq|[Hq _]]; lia.
  - rewrite map_length. apply san_samples_spec; assumption.
  - apply Forall_forall. intros v Hv. apply in_map_iff in Hv. destruct Hv as [v0 [<- _]]. cbn [san_vt vt_type vt_unit]. split; apply Hstr.
  - intros v Hv. destruct (p_ptype p) as [v0|]; cbn [option_map] in Hv; [|discriminate]. inversion Hv; subst.
    cbn [san_vt vt_type vt_unit]. split; apply Hstr.
Qed.

(* sanitizeProfile makes every payload sane: all ten conjuncts of sane_b, for EVERY decoded payload *)
Theorem sanitize_sane p : sane_b (sanitize p) = true.
Proof.
  pose proof (sanitize_first_string_empty p) as H1.
  destruct (sanitize_ids_positional p) as [H2 [H3 H4]].
  destruct (sanitize_scoped p) as [S5 [S6 [S7 [S8 [S9 S10]]]]]. cbv zeta in *.
  unfold sane_b. rewrite H1, H2, H3, H4. change (Z.eqb 0 0) with true. cbn [andb].
  set (q := sanitize p) in *.
  assert (B5 : forallb (fun f => in_range (length (p_strs q)) (f_name f) && in_range (length (p_strs q)) (f_sys f) &&
                                 in_range (length (p_strs q)) (f_file f)) (p_funs q) = true).
  { apply forallb_forall. intros f Hf. rewrite Forall_forall in S5. destruct (S5 f Hf) as [A [B C]].
    apply andb_true_iff; split; [apply andb_true_iff; split|]; apply in_range_spec; assumption. }
  assert (B6 : forallb (fun m => in_range (length (p_strs q)) (m_file m) && in_range (length (p_strs q)) (m_build m)) (p_maps q) = true).
  { apply forallb_forall. intros m Hm. rewrite Forall_forall in S6. destruct (S6 m Hm) as [A B].
    apply andb_true_iff; split; apply in_range_spec; assumption. }
  assert (B7 : forallb (fun l => id_in (length (p_maps q)) (l_map l) &&
                                 forallb (fun ln => id_in (length (p_funs q)) (ln_fn ln)) (l_lines l)) (p_locs q) = true).
  { apply forallb_forall. intros l Hl. rewrite Forall_forall in S7. destruct (S7 l Hl) as [A B].
    apply andb_true_iff; split; [apply id_in_spec; exact A|].
    apply forallb_forall. intros ln Hln. apply id_in_spec. rewrite Forall_forall in B. exact (B ln Hln). }
  assert (B8 : forallb (fun s => Nat.eqb (length (s_vals s)) (length (p_types q)) && forallb (id_in (length (p_locs q))) (s_locs s) &&
                    forallb (fun lb => in_range (length (p_strs q)) (lb_key lb) && in_range (length (p_strs q)) (lb_str lb)) (s_labels s))
                  (p_samps q) = true).
  { apply forallb_forall. intros s Hs. rewrite Forall_forall in S8. destruct (S8 s Hs) as [A [B C]].
    apply andb_true_iff; split; [apply andb_true_iff; split|].
    - apply Nat.eqb_eq. exact A.
    - apply forallb_forall. intros i Hi. apply id_in_spec. rewrite Forall_forall in B. exact (B i Hi).
    - apply forallb_forall. intros lb Hlb. rewrite Forall_forall in C. destruct (C lb Hlb) as [C1 C2].
      apply andb_true_iff; split; apply in_range_spec; assumption. }
  assert (B9 : forallb (fun v => in_range (length (p_strs q)) (vt_type v) && in_range (length (p_strs q)) (vt_unit v)) (p_types q) = true).
  { apply forallb_forall. intros v Hv. rewrite Forall_forall in S9. destruct (S9 v Hv) as [A B].
    apply andb_true_iff; split; apply in_range_spec; assumption. }
  rewrite B5, B6, B7, B8, B9. cbn [andb].
  destruct (p_ptype q) as [v|]; [|reflexivity]. destruct (S10 v eq_refl) as [A B].
  apply andb_true_iff; split; apply in_range_spec; assumption.
Qed.

(* ------------------------------------------------------------------ a merge that is not refused has one number of sample types *)
Definition types_n (n : nat) (st : mstate) : Prop :=
  match ms_head st with Some h => length (h_types h) = n | None => True end.

Lemma vts_eqb_length : forall a b, vts_eqb a b = true -> length a = length b.
Proof.
  induction a as [|x a IH]; intros [|y b] H; cbn [vts_eqb] in H; try discriminate; [reflexivity|].
  apply andb_true_iff in H. destruct H as [_ H]. cbn [length]. rewrite (IH _ H). reflexivity.
Qed.

Lemma merge_sane_types q st p st' : merge_sane q st p = inl st' ->
  types_n (length (p_types p)) st /\ types_n (length (p_types p)) st'.
Proof.
  unfold merge_sane. destruct (str_phase _ _ _) as [ix S'].
  destruct (combine_headers _ _ _ _) as [head|e] eqn:Ec; [|discriminate].
  destruct (phase (kq_f q) _ _ _ _ _ _ _) as [fnidx F']. destruct (phase (kq_m q) _ _ _ _ _ _ _) as [mapidx M'].
  destruct (phase (kq_l q) _ _ _ _ _ _ _) as [locidx L']. intro H. inversion H; subst st'; clear H.
  unfold combine_headers in Ec.
  destruct (negb (vt_eqb _ _)); [discriminate|]. destruct (negb (vts_eqb _ _)) eqn:Ev; [discriminate|].
  apply negb_false_iff in Ev. apply vts_eqb_length in Ev. rewrite map_length in Ev.
  inversion Ec; subst head; clear Ec. unfold types_n. cbn [ms_head h_types].
  destruct (ms_head st) as [h|]; cbn [h_types] in Ev; [split; exact Ev|split; [exact I|exact Ev]].
Qed.

Lemma merge_all_types q ps : forall st st', merge_all q st ps = inl st' ->
  exists n, types_n n st /\ types_n n st' /\ Forall (fun p => merged_in p = true -> length (p_types p) = n) ps.
Proof.
  induction ps as [|p r IH]; intros st st' H; cbn [merge_all] in H.
  - inversion H; subst. unfold types_n. destruct (ms_head st') as [h|]; [exists (length (h_types h))|exists O]; repeat split; constructor.
  - destruct (merge_one q st p) as [st1|] eqn:E1; [|discriminate]. destruct (IH _ _ H) as [n [Hn1 [Hn' Hr]]].
    unfold merge_one in E1. destruct (merged_in p) eqn:Em.
    + destruct (merge_sane_types _ _ _ _ E1) as [T0 T1].
      assert (Hlen : length (p_types (sanitize p)) = length (p_types p)).
      { unfold sanitize. destruct (renumber m_id set_mid _ 1 []) as [maps1 tm]. destruct (san_loc_maps tm _ (p_locs p) 0) as [locs1 fake].
        destruct (renumber f_id set_fid _ 1 []) as [funs tf]. destruct (renumber l_id set_lid _ 1 []) as [locs tl].
        cbn [p_types]. apply map_length. }
      rewrite Hlen in T0, T1.
      assert (Hnn : length (p_types p) = n).
      { unfold types_n in T1, Hn1. destruct (ms_head st1) as [h|] eqn:Eh; [congruence|].
        exfalso. revert E1 Eh. unfold merge_sane. destruct (str_phase _ _ _). destruct (combine_headers _ _ _ _); [|discriminate].
        destruct (phase _ _ _ _ _ _ _ _). destruct (phase _ _ _ _ _ _ _ _). destruct (phase _ _ _ _ _ _ _ _).
        intro E. inversion E; subst. cbn [ms_head]. discriminate. }
      exists n. rewrite <- Hnn. split; [exact T0|]. split; [rewrite Hnn; exact Hn'|]. constructor; [intros _; reflexivity|].
      rewrite Hnn. exact Hr.
    + inversion E1; subst st1. exists n. split; [exact Hn1|]. split; [exact Hn'|]. constructor; [intro Hc; rewrite Em in Hc; discriminate Hc|exact Hr].
Qed.

Lemma payloads_sane_all q ps st st' : merge_all q st ps = inl st' ->
  exists n, types_n n st' /\ payloads_sane n ps.
Proof.
  intro H. destruct (merge_all_types q ps st st' H) as [n [_ [Hn Hf]]]. exists n. split; [exact Hn|].
  unfold payloads_sane. eapply Forall_impl; [|exact Hf]. cbv beta. intros p Hp Hm. split; [apply sanitize_sane|].
  rewrite <- (Hp Hm). unfold sanitize. destruct (renumber m_id set_mid _ 1 []) as [maps1 tm]. destruct (san_loc_maps tm _ (p_locs p) 0) as [locs1 fake].
  destruct (renumber f_id set_fid _ 1 []) as [funs tf]. destruct (renumber l_id set_lid _ 1 []) as [locs tl].
  cbn [p_types]. apply map_length.
Qed.

(* payload_merge_is_sum without any hypothesis on the payloads: ANY decoded payloads, well formed or not, any sample types;
   the merge not refused; fewer than 2^32 merged functions; every sample type of the merged profile *)
Theorem payload_merge_is_sum_all (ps : list pprofile) (st : mstate) :
  merge_all exact_keqs mstate0 ps = inl st -> Z.of_nat (length (ms_funs st)) < two32 ->
  forall P k, (k < length (p_types (merged_profile st)))%nat ->
  eqm (weight P k (merged_profile st)) (payload_weights P k ps).
Proof.
  intros H Hb P k Hk. destruct (payloads_sane_all _ _ _ _ H) as [n [Hn Hps]].
  apply (payload_merge_is_sum ps st n H Hps Hb P k).
  unfold merged_profile, types_n in *. destruct (ms_head st) as [h|]; cbn [p_types length] in Hk; [rewrite <- Hn; exact Hk|lia].
Qed.

Theorem payload_merge_order_irrelevant_all (ps ps' : list pprofile) (st st' : mstate) :
  Permutation ps ps' ->
  merge_all exact_keqs mstate0 ps = inl st -> merge_all exact_keqs mstate0 ps' = inl st' ->
  Z.of_nat (length (ms_funs st)) < two32 -> Z.of_nat (length (ms_funs st')) < two32 ->
  forall P k, (k < length (p_types (merged_profile st)))%nat ->
  eqm (weight P k (merged_profile st)) (weight P k (merged_profile st')).
Proof.
  intros Hperm H H' Hb Hb' P k Hk. destruct (payloads_sane_all _ _ _ _ H) as [n [Hn Hps]].
  apply (payload_merge_order_irrelevant ps ps' st st' n Hperm H H' Hps Hb Hb' P k).
  unfold merged_profile, types_n in *. destruct (ms_head st) as [h|]; cbn [p_types length] in Hk; [rewrite <- Hn; exact Hk|lia].
Qed.

(* the hypotheses are met by a malformed input: ex_bad has a dangling function reference, a dangling location reference, a
   sample with a wrong value count, string indices out of range and no empty string; it is not wf_raw, sanitizeProfile drops
   the bad parts, and merged with ex_p1 the stack [main.b] carries 4 + 10 as in payload_merge_is_sum_applies *)
Definition ex_bad : pprofile :=
  {| p_strs := [4; 1; 2; 5]; p_types := [ex_vt 1 2]; p_ptype := Some (ex_vt 1 2);
     p_funs := [{| f_id := 1; f_name := 0; f_sys := 0; f_file := 99; f_start := 0 |}; {| f_id := 2; f_name := 99; f_sys := -3; f_file := 0; f_start := 0 |}]; p_maps := [];
     p_locs := [ex_loc 1 1; ex_loc 2 77; ex_loc 3 2];
     p_samps := [ex_samp [1] 10; ex_samp [2] 100; ex_samp [55] 1000; {| s_locs := [1]; s_vals := [1; 2]; s_labels := [] |}];
     p_drop := 0; p_keep := 0; p_time := 4; p_duration := 1; p_period := 1; p_default := 0; p_comments := [] |}.

Example payload_merge_is_sum_all_applies :
  wf_raw_b ex_bad = false /\ sane_b (sanitize ex_bad) = true /\
  exists st, merge_all exact_keqs mstate0 [ex_p1; ex_bad] = inl st /\
    Z.of_nat (length (ms_funs st)) < two32 /\ length (p_types (merged_profile st)) = 1%nat /\
    weight (stack_eqb ex_main_b) 0 (merged_profile st) = 14 /\
    payload_weights (stack_eqb ex_main_b) 0 [ex_p1; ex_bad] = 14.
Proof.
  split; [vm_compute; reflexivity|]. split; [vm_compute; reflexivity|].
  eexists. split; [vm_compute; reflexivity|]. vm_compute. repeat split; reflexivity.
Qed.

(* ------------------------------------------------------------------ the merged message is closed, whatever the payloads *)
Lemma Inv_closed n st : Inv n st -> forall h, ms_head st = Some h -> length (h_types h) = n ->
  closed_b (length (p_types (merged_profile st))) (merged_profile st) = true.
Proof.
  intros [Ipf Ipl If Il Ia] h Hh Hn. unfold merged_profile. rewrite Hh. unfold closed_b. cbn [p_strs p_funs p_locs p_samps p_types].
  rewrite Ipf, Ipl, Hn. cbn [andb].
  assert (B3 : forallb (fun f => in_range (length (ms_strs st)) (f_name f) && in_range (length (ms_strs st)) (f_sys f) &&
                                 in_range (length (ms_strs st)) (f_file f)) (ms_funs st) = true).
  { apply forallb_forall. intros f Hf. rewrite Forall_forall in If. destruct (If f Hf) as [A [B C]]. rewrite A, B, C. reflexivity. }
  assert (B4 : forallb (fun l => forallb (fun ln => id_in (length (ms_funs st)) (ln_fn ln)) (l_lines l)) (ms_locs st) = true).
  { apply forallb_forall. intros l Hl. rewrite Forall_forall in Il. specialize (Il l Hl). unfold lscoped in Il.
    apply forallb_forall. intros ln Hln. rewrite Forall_forall in Il. exact (Il ln Hln). }
  assert (B5 : forallb (fun s => Nat.eqb (length (s_vals s)) n && forallb (id_in (length (ms_locs st))) (s_locs s)) (ms_samps st) = true).
  { apply forallb_forall. intros s Hs. rewrite Forall_forall in Ia. destruct (Ia s Hs) as [A B].
    apply andb_true_iff; split; [apply Nat.eqb_eq; exact B|]. apply forallb_forall. intros i Hi. rewrite Forall_forall in A. exact (A i Hi). }
  rewrite B3, B4, B5. reflexivity.
Qed.

(* For ANY decoded payloads -- dangling references, duplicate ids, string indices out of range, wrong value counts -- merged
   without a refusal (fewer than 2^32 merged functions): the merged message is closed. *)
Theorem merged_profile_closed (ps : list pprofile) (st : mstate) :
  merge_all exact_keqs mstate0 ps = inl st -> Z.of_nat (length (ms_funs st)) < two32 ->
  closed_b (length (p_types (merged_profile st))) (merged_profile st) = true.
Proof.
  intros H Hb. destruct (payloads_sane_all _ _ _ _ H) as [n [Hn Hps]].
  destruct (merge_all_spec n ps _ _ (Inv0 n) H Hps Hb) as [HI _].
  destruct (ms_head st) as [h|] eqn:Eh.
  - unfold types_n in Hn. rewrite Eh in Hn. exact (Inv_closed n st HI h Eh Hn).
  - unfold merged_profile. rewrite Eh. reflexivity.
Qed.

Example merged_profile_closed_applies :
  closed_b 1 ex_bad = false /\
  exists st, merge_all exact_keqs mstate0 [ex_bad; ex_p1] = inl st /\ Z.of_nat (length (ms_funs st)) < two32 /\
    length (p_samps (merged_profile st)) = 2%nat /\ closed_b 1 (merged_profile st) = true.
Proof. split; [vm_compute; reflexivity|]. eexists. split; [vm_compute; reflexivity|]. vm_compute. repeat split; reflexivity. Qed.
