(* C15, round 8: TempoController.Trace (JSON branch) as a sequence of Write calls.

   The handler may hand the spans to the ResponseWriter in pieces of any size (today: one Write for the
   comma, one per span; seeded change C15-h: a buffer written out and reset when it reaches 256 KiB).
   What the client reads is the concatenation of the Write calls.

   [chunk_loop thr]   the comma is keyed on "a span was already encoded" (the span counter i != 0):
                      for EVERY threshold the concatenation is the unchunked body enc_trace_bytes.
   [chunk_loop_buf]   the comma keyed on "the buffer is not empty" is right only while the buffer is never
                      reset inside the loop: refuted with a threshold that is reached (two spans). *)
From Coq Require Import List Arith Bool Ascii String Lia.
From Qryn Require Import model.JsonStream proofs.JsonStreamProofs.
Import ListNotations.
Open Scope string_scope.

Lemma slen_app : forall a b : string, String.length (a ++ b) = String.length a + String.length b.
Proof. induction a; intros; simpl; [reflexivity | rewrite IHa; reflexivity]. Qed.

Fixpoint sconcat (l : list string) : string :=
  match l with [] => "" | x :: r => x ++ sconcat r end.

Definition trace_ftr : string := "]}]}]}".

(* buf: the bytes collected since the last hand-over; the footer goes out with the last piece *)
Fixpoint chunk_loop (thr : nat) (xs : list string) (i : bool) (buf : string) : list string :=
  match xs with
  | [] => [buf ++ trace_ftr]
  | x :: r =>
      let buf' := buf ++ (if i then "," else "") ++ x in
      if (thr <=? String.length buf')%nat then buf' :: chunk_loop thr r true "" else chunk_loop thr r true buf'
  end.
Definition trace_writes (thr : nat) (xs : list string) : list string := trace_hdr :: chunk_loop thr xs false "".

Fixpoint chunk_loop_buf (thr : nat) (xs : list string) (buf : string) : list string :=
  match xs with
  | [] => [buf ++ trace_ftr]
  | x :: r =>
      let buf' := buf ++ (if (0 <? String.length buf)%nat then "," else "") ++ x in
      if (thr <=? String.length buf')%nat then buf' :: chunk_loop_buf thr r "" else chunk_loop_buf thr r buf'
  end.
Definition trace_writes_buf (thr : nat) (xs : list string) : list string := trace_hdr :: chunk_loop_buf thr xs "".

Lemma chunk_loop_concat : forall thr xs i buf,
  sconcat (chunk_loop thr xs i buf) = buf ++ bytes_loop xs i ++ trace_ftr.
Proof.
  intros thr xs; induction xs as [|x r IH]; intros i buf; simpl.
  - rewrite sapp_nil_r. reflexivity.
  - destruct (thr <=? _)%nat; simpl; rewrite IH; simpl; rewrite ?sapp_assoc; reflexivity.
Qed.

Theorem trace_chunked_is_unchunked : forall thr xs,
  sconcat (trace_writes thr xs) = enc_trace_bytes xs.
Proof.
  intros. unfold trace_writes, enc_trace_bytes. simpl. rewrite chunk_loop_concat. reflexivity.
Qed.

(* the hypothesis is met in both regimes: nothing handed over early / handed over inside the loop *)
Example trace_chunked_two_regimes :
  trace_writes 100 ["{}"; "{}"; "{}"] = [trace_hdr; "{},{},{}]}]}]}"] /\
  trace_writes 5 ["{}"; "{}"; "{}"] = [trace_hdr; "{},{}"; ",{}]}]}]}"] /\
  trace_writes 0 ["{}"; "{}"] = [trace_hdr; "{}"; ",{}"; "]}]}]}"].
Proof. repeat split; reflexivity. Qed.

(* as long as the threshold is never reached the two ways of placing the comma agree (non-empty span texts) *)
Lemma chunk_loop_buf_below : forall thr xs buf,
  (forall x, In x xs -> x <> "") ->
  (String.length (buf ++ bytes_loop xs (0 <? String.length buf)%nat) < thr)%nat ->
  chunk_loop_buf thr xs buf = chunk_loop thr xs (0 <? String.length buf)%nat buf.
Proof.
  intros thr xs; induction xs as [|x r IH]; intros buf Hne Hlen; simpl; [reflexivity|].
  simpl in Hlen.
  set (buf' := buf ++ (if (0 <? String.length buf)%nat then "," else "") ++ x) in *.
  assert (Hb : (0 <? String.length buf')%nat = true).
  { apply Nat.ltb_lt. unfold buf'. rewrite !slen_app.
    assert (String.length x <> 0) by (destruct x; [exfalso; apply (Hne ""); [left|]; reflexivity | simpl; discriminate]).
    lia. }
  assert (Hl' : (String.length (buf' ++ bytes_loop r true) < thr)%nat).
  { unfold buf'. rewrite !sapp_assoc. exact Hlen. }
  assert (Hlt : (thr <=? String.length buf')%nat = false).
  { apply Nat.leb_gt. rewrite slen_app in Hl'. lia. }
  rewrite Hlt. rewrite <- Hb. apply IH.
  - intros y Hy. apply Hne. right. exact Hy.
  - rewrite Hb. exact Hl'.
Qed.

Theorem trace_chunked_by_buffer_refuted :
  exists thr xs, sconcat (trace_writes_buf thr xs) <> enc_trace_bytes xs /\
                 sconcat (trace_writes_buf thr xs) = (trace_hdr ++ "{}{}" ++ trace_ftr).
Proof. exists 2, ["{}"; "{}"]. split; [intro H; vm_compute in H; discriminate | reflexivity]. Qed.
