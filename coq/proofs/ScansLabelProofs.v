(* C13 for the label-values and series planners (model/ScansPlanners.v): every base-table read of the statements
   built for label values / series requests, for every key, selector list and context, carries the API's type
   and an index date range date >= FormatFromDate(From), date <= day(To) that covers the window. *)
From Coq Require Import List ZArith NArith String Ascii Bool Lia.
From Qryn Require Import lib.Strs lib.CivilDate model.Sql model.SqlRender model.Logql model.LogqlPlan model.Scans model.ScansPlanners
  proofs.ScansProofs proofs.ScansPlanProofs.
Import ListNotations.
Open Scope list_scope.

Lemma neutral_key_eq' key : neutral (Eq (Id "key"%string) (StrV key)).
Proof. intros sc. unfold Eq, classify, col_is. cbn. destruct (existsb _ (sc_tsn sc)); reflexivity. Qed.

Lemma bounded_index_hi info c w sc :
  w_type w = api_type c -> (c_from_ns c <= w_from w)%Z -> (w_to w <= c_to_ns c)%Z ->
  info (sc_table sc) = index_typed ->
  bounds sc = [DLo (from_day (c_from_ns c)); DHi (c_to_ns c / (86400 * 1000000000)); Ty [api_type c; 0%Z]] ->
  scan_bounded info w sc.
Proof.
  intros Hty Hlo Hhi Hi Hb. apply scan_bounded_b_iff. unfold scan_bounded_b, scan_failures. rewrite Hi, Hb.
  cbn [ti_class ti_typed index_typed]. unfold date_failures, ts_lower_failures, ts_upper_failures, type_failures.
  cbn [d_los d_his ts_los ts_his tys flat_map app zmax_list zmin_list fold_left andb]. rewrite Hty.
  pose proof (api_type_nz c) as Hnz. apply Z.eqb_neq in Hnz. rewrite Hnz.
  rewrite (types_ok (api_type c) (api_type_nz c)).
  replace (from_day (c_from_ns c) >? day_of_ns (w_from w))%Z with false.
  - replace (c_to_ns c / (86400 * 1000000000) <? day_of_ns (w_to w - 1))%Z with false; [reflexivity|].
    symmetry. apply Z.ltb_ge. unfold day_of_ns, ns_per_day. apply Z.div_le_mono; lia.
  - symmetry. rewrite Z.gtb_ltb. apply Z.ltb_ge.
    transitivity (day_of_ns (c_from_ns c)); [apply from_day_close|].
    unfold day_of_ns, ns_per_day. apply Z.div_le_mono; lia.
Qed.

Section LBL.
  Variable info : string -> tinfo.
  Variable c : pctx.
  Variable W : window.
  Hypothesis Htab : ctx_tables info c.
  Hypothesis Hwin : win_ok false c W.
  Notation Q := (Q info W false).
  Notation good := (good Q).
  Notation egood := (egood Q).

  Lemma good_set_unions us s : good s -> s_unions s = [] -> Forall good us -> good (set_unions us s).
  Proof.
    intros H Hu Hus. apply good_parts in H. destruct H as [A B C D E]. apply good_parts. constructor; fields_all; try assumption.
  Qed.
  Lemma good_set_distinct b s : good s -> good (set_distinct b s).
  Proof.
    intros H. apply good_parts in H. destruct H as [A B C D E]. apply good_parts. constructor; fields_all; assumption.
  Qed.

  Lemma multi_stream_select_good sels q : multi_stream_select c sels = Some q -> good q.
  Proof.
    unfold multi_stream_select. destruct sels as [|ms [|ms2 rest]]; [discriminate| |]; intros [= <-].
    - apply (stream_select_good info c false false W Htab Hwin).
    - apply good_set_unions; [apply (stream_select_good info c false false W Htab Hwin) | reflexivity|].
      assert (Hl : forall l, Forall good (map (stream_select c) l)).
      { intros l. induction l as [|x r IH]; cbn [map]; [apply Forall_nil|].
        apply Forall_cons; [apply (stream_select_good info c false false W Htab Hwin) | exact IH]. }
      apply (Hl (ms2 :: rest)).
  Qed.

  Lemma with_limit_good' s : good s -> good (ScansPlanners.with_limit c s).
  Proof.
    intros H. unfold ScansPlanners.with_limit. destruct (0 <? c_limit c)%Z; [|exact H].
    apply good_set_limit; [exact H | apply egood_nil; reflexivity].
  Qed.

  Lemma values_base_good key :
    good (and_where [Ge (Id "date") (format_from_date c); Le (Id "date") (to_day c); Eq (Id "key") (StrV key); get_types c]
           (set_from (Id (t_gin c)) (set_distinct true (set_cols [Id "val"] empty_select)))).
  Proof.
    unfold and_where, format_from_date, to_day. fields_all.
    apply good_base; try reflexivity.
    - fields_all. unfold And. rewrite conjs_and.
      cbn [flat_map]. rewrite !conjs_other by (unfold get_types, Ge, Le, Eq; intros l H; discriminate).
      cbn [app]. constructor; [|constructor]. split.
      + constructor; [|constructor; [|constructor; [|constructor; [apply types_conj_free | constructor]]]].
        * apply tsn_free_closed. intros a b. reflexivity.
        * apply tsn_free_closed. intros a b. reflexivity.
        * apply neutral_tsn_free, neutral_key_eq'.
      + left. destruct Hwin as [H1 H2 H3 _]. apply (bounded_index_hi info c W); [exact H1 | lia | lia | apply Htab|].
        unfold bounds. cbn [sc_conj flat_map]. rewrite types_bounds. rewrite (neutral_key_eq' key). reflexivity.
    - apply exprs_parts. constructor; fields_all; cbn [ScansPlanProofs.ogood]; repeat constructor; apply egood_nil; reflexivity.
  Qed.

  Lemma values_planner_good key fp : (forall q, fp = Some q -> good q) -> good (values_planner c key fp).
  Proof.
    intros Hfp. unfold values_planner. apply with_limit_good'. destruct fp as [q|]; [|apply values_base_good].
    specialize (Hfp q eq_refl).
    apply good_and_where; [| apply in_fp_cl_neutral, neutral_in_fp3 | constructor; [apply egood_in_wref, Hfp | constructor]].
    apply good_with; [apply values_base_good | constructor; [exact Hfp | constructor]].
  Qed.

  Lemma series_planner_good fp : good fp -> good (series_planner c fp).
  Proof.
    intros Hfp. unfold series_planner. apply with_limit_good'.
    unfold and_where, SimpleCol, format_from_date, to_day. fields_all.
    apply good_parts. unfold with_, add_withs. constructor; fields_all.
    - apply hoist_good; [constructor; [exact Hfp | constructor] | constructor].
    - unfold And. rewrite conjs_and.
      cbn [flat_map]. rewrite !conjs_other by (unfold get_types, Ge, Le; intros l H; discriminate).
      cbn [app]. constructor; [|constructor]. split.
      + constructor; [|constructor; [|constructor; [|constructor; [apply types_conj_free | constructor]]]].
        * apply tsn_free_closed. intros a b. reflexivity.
        * apply tsn_free_closed. intros a b. reflexivity.
        * apply neutral_tsn_free, neutral_in_fp3.
      + left. destruct Hwin as [H1 H2 H3 _].
        apply (bounded_index_hi info c W); [exact H1 | lia | lia | cbn [sc_table]; destruct (c_cluster c); apply Htab|].
        unfold bounds. cbn [sc_conj flat_map]. rewrite types_bounds. rewrite (neutral_in_fp3 [WRef "fp_sel" fp]). reflexivity.
    - constructor.
    - apply exprs_parts. constructor; fields_all; cbn [ScansPlanProofs.ogood]; repeat constructor; try (apply egood_nil; reflexivity).
      unfold ScansPlanProofs.egood, And, Ge, Le, get_types. cbn [escans flat_map app]. rewrite !app_nil_r. exact Hfp.
    - constructor.
  Qed.
End LBL.

Lemma unQ' info W q : good (Q info W false) q -> Forall (scan_bounded info W) (scans q).
Proof.
  intros G. apply (from_good _ _ _ _ true) in G. eapply Forall_impl; [|exact G].
  intros sc [H|[H _]]; [exact H | discriminate H].
Qed.

(* label values with or without match[] selectors, series: every read bounded by the context window *)
Theorem label_values_scans_bounded info c key sels :
  ctx_tables info c ->
  match sels with
  | [] => Forall (scan_bounded info (win c)) (scans (values_planner c key None))
  | _ => forall q, multi_stream_select c sels = Some q -> Forall (scan_bounded info (win c)) (scans (values_planner c key (Some q)))
  end.
Proof.
  intros Ht. destruct sels as [|ms rest].
  - apply unQ'. apply (values_planner_good info c (win c) Ht (win_ok_win c)). intros q H; discriminate H.
  - intros q Hq. apply unQ'. apply (values_planner_good info c (win c) Ht (win_ok_win c)). intros q0 [= <-].
    apply (multi_stream_select_good info c (win c) Ht (win_ok_win c) _ _ Hq).
Qed.
Theorem series_scans_bounded info c sels q :
  ctx_tables info c -> multi_stream_select c sels = Some q ->
  Forall (scan_bounded info (win c)) (scans (series_planner c q)).
Proof.
  intros Ht Hq. apply unQ'. apply (series_planner_good info c (win c) Ht (win_ok_win c)).
  apply (multi_stream_select_good info c (win c) Ht (win_ok_win c) _ _ Hq).
Qed.

(* ------------------------------------------------------------------ label names *)
Definition labels_win (ty start_ms end_ms : Z) : window :=
  {| w_from := start_ms * 1000000; w_to := end_ms * 1000000; w_lo_min := start_ms * 1000000; w_hi_max := end_ms * 1000000; w_type := ty |}.

Theorem labels_query_scans_bounded info table ty start_ms end_ms :
  info table = index_typed -> ty <> 0%Z -> (0 <= start_ms)%Z -> (0 <= end_ms)%Z ->
  Forall (scan_bounded info (labels_win ty start_ms end_ms)) (scans (labels_query table ty start_ms end_ms)).
Proof.
  intros Hi Hty Hs He. rewrite scans_eq. unfold labels_query, and_where, SimpleCol, exprs_scans, wscans, uscans. fields_all.
  cbn [flat_map app oesc escans]. unfold And, Ge, Le. cbn [escans flat_map app]. constructor; [|constructor].
  apply scan_bounded_b_iff. unfold scan_bounded_b, scan_failures. cbn [sc_table]. rewrite Hi. cbn [ti_class ti_typed index_typed].
  assert (Hb : bounds {| sc_table := table; sc_alias := "samples"; sc_tsn := ts_names [Id "key"%string];
                         sc_conj := conjs (LOp OAnd [In (Id "type"%string) [IntV ty; IntV 0]; LOp OGe [Id "date"%string; DateV (from_day (start_ms / 1000 * 1000000000))];
                                                     LOp OLe [Id "date"%string; DateV (end_ms / 1000 / 86400)]]) ++ [] |}
               = [Ty [ty; 0%Z]; DLo (from_day (start_ms / 1000 * 1000000000)); DHi (end_ms / 1000 / 86400)]) by reflexivity.
  cbn [oconjs app] in Hb |- *. rewrite app_nil_r in Hb. rewrite Hb.
  unfold date_failures, ts_lower_failures, ts_upper_failures, type_failures.
  cbn [d_los d_his ts_los ts_his tys flat_map app zmax_list zmin_list fold_left andb labels_win w_type w_from w_to].
  apply Z.eqb_neq in Hty. rewrite Hty. apply Z.eqb_neq in Hty. rewrite (types_ok ty Hty).
  replace (from_day (start_ms / 1000 * 1000000000) >? day_of_ns (start_ms * 1000000))%Z with false.
  - replace (end_ms / 1000 / 86400 <? day_of_ns (end_ms * 1000000 - 1))%Z with false; [reflexivity|].
    symmetry. apply Z.ltb_ge. rewrite Z.div_div by lia. transitivity (day_of_ns (end_ms * 1000000)).
    + unfold day_of_ns, ns_per_day. apply Z.div_le_mono; lia.
    + unfold day_of_ns, ns_per_day. replace (86400 * 1000000000)%Z with (1000 * 86400 * 1000000)%Z by lia.
      rewrite Z.div_mul_cancel_r by lia. lia.
  - symmetry. rewrite Z.gtb_ltb. apply Z.ltb_ge.
    transitivity (day_of_ns (start_ms / 1000 * 1000000000)); [apply from_day_close|].
    unfold day_of_ns, ns_per_day. apply Z.div_le_mono; [lia|].
    pose proof (Z.mul_div_le start_ms 1000 ltac:(lia)). lia.
Qed.

Lemma label_examples :
  (match multi_stream_select cluster_ctx [[m_ab]; [m_ab]] with
   | Some q => Nat.leb 3 (List.length (scans (series_planner cluster_ctx q))) && Nat.leb 3 (List.length (scans (values_planner std_ctx "job"%string (Some q))))
   | None => false end = true)
  /\ List.length (scans (values_planner std_ctx "job"%string None)) = 1%nat
  /\ List.length (scans (labels_query "time_series_gin_dist"%string 2 1704888000123 1704891600456)) = 1%nat.
Proof. repeat split; vm_compute; reflexivity. Qed.
