(* read_back over the stored BYTES of an OTLP payload: decode (encode span) = span (SpansWireProofs.dec_enc_span) composed with
   the read path of Spans.v. *)
From Coq Require Import List ZArith NArith Bool String Ascii Lia.
From Qryn Require Import model.Spans model.SpansChunk model.SpansWire model.SpansStore proofs.SpansProofs proofs.SpansWireProofs.
Import ListNotations.
Open Scope list_scope.
Open Scope Z_scope.

(* every payload span of the rows lies in the domain of the wire round trip (times uint64, kind a non-negative int32, ints
   int64, doubles multiples of 1/8 below 2^53, no missing value directly inside a list) *)
Definition wire_domain (rows : list span_rows) : Prop :=
  forall sr s, In sr rows -> t_payload (fst sr) = POtlp s -> span_wire_ok s = true.

Lemma read_row_wire_eq q elems row :
  (forall s, t_payload row = POtlp s -> span_wire_ok s = true) ->
  read_row_wire q elems row (payload_bytes (t_payload row)) = read_row q elems row.
Proof.
  intros Hok. unfold read_row_wire, read_row. destruct (t_ptype row =? 2) eqn:E2; [|reflexivity].
  apply Z.eqb_eq in E2. rewrite E2. cbn [Z.eqb Pos.eqb].
  destruct (t_payload row) as [| i | s |] eqn:Ep; cbn [payload_bytes]; try reflexivity.
  rewrite (dec_enc_span s (Hok s eq_refl)). reflexivity.
Qed.

Lemma Forall2_imp_in {A B} (R S : A -> B -> Prop) a b :
  (forall x y, In y b -> R x y -> S x y) -> Forall2 R a b -> Forall2 S a b.
Proof.
  intros H F. induction F as [|x y a b Hxy F IH]; constructor.
  - apply H; [left; reflexivity|exact Hxy].
  - apply IH. intros x' y' Hin. apply H. right. exact Hin.
Qed.

(* the stored payload bytes decode to the payload span, for every stored OTLP row *)
Theorem stored_payload_decodes_l : forall rows sr s,
  wire_domain rows -> In sr rows -> t_payload (fst sr) = POtlp s ->
  payload_bytes (t_payload (fst sr)) = Some (enc_span s) /\ dec_span (enc_span s) = Some s.
Proof.
  intros rows sr s Hd Hin Hp. rewrite Hp. split; [reflexivity|]. apply dec_enc_span. apply (Hd sr s Hin Hp).
Qed.

(* read_back with the payload column holding bytes *)
Theorem read_back_wire_l : forall inp rows ps,
  decode fixed inp = Some rows -> pushed_of inp = Some ps -> in_range inp -> wire_domain rows ->
  Forall2 (fun p sr => reads_back p (read_row_wire fixed (in_elems inp) (fst sr) (payload_bytes (t_payload (fst sr))))) ps rows.
Proof.
  intros inp rows ps Hd Hp Hr Hw.
  eapply Forall2_imp_in; [|exact (read_back_l inp rows ps Hd Hp Hr)].
  intros p sr Hin H. cbn beta in *. rewrite read_row_wire_eq; [exact H|]. intros s Hs. apply (Hw sr s Hin Hs).
Qed.

(* the hypotheses are met by the two-span request of SpansProofs (nested list / map attributes, double, resource attributes) *)
Example ex_wire_domain :
  match decode fixed ex_otlp with
  | Some rows => forallb (fun sr => match t_payload (fst sr) with POtlp s => span_wire_ok s | _ => false end) rows = true
                 /\ List.length rows = 2%nat
  | None => False
  end.
Proof. vm_compute. split; reflexivity. Qed.
