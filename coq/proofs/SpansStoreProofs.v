(* read_back over the stored BYTES of an OTLP payload: decode (encode span) = span (SpansWireProofs.dec_enc_span) composed with
   the read path of Spans.v. *)
From Coq Require Import List ZArith NArith Bool String Ascii Lia.
From Qryn Require Import model.Spans model.SpansChunk model.SpansWire model.SpansStore proofs.SpansProofs proofs.SpansWireProofs.
Import ListNotations.
Open Scope list_scope.
Open Scope Z_scope.

(* every payload span of the rows lies in the domain of the wire round trip (times uint64, kind a non-negative int32, ints
   int64, doubles multiples of 1/8 below 2^53, no missing value directly inside a list) *)
Definition wire_domain (rows : list span_rows) : Prop :=
  forall sr s, In sr rows -> t_payload (fst sr) = POtlp s -> span_wire_ok s = true.

Lemma read_row_wire_eq q elems row :
  (forall s, t_payload row = POtlp s -> span_wire_ok s = true) ->
  read_row_wire q elems row (payload_bytes (t_payload row)) = read_row q elems row.
Proof.
  intros Hok. unfold read_row_wire, read_row. destruct (t_ptype row =? 2) eqn:E2; [|reflexivity].
  apply Z.eqb_eq in E2. rewrite E2. cbn [Z.eqb Pos.eqb].
  destruct (t_payload row) as [| i | s |] eqn:Ep; cbn [payload_bytes]; try reflexivity.
  rewrite (dec_enc_span s (Hok s eq_refl)). reflexivity.
Qed.

Lemma Forall2_imp_in {A B} (R S : A -> B -> Prop) a b :
  (forall x y, In y b -> R x y -> S x y) -> Forall2 R a b -> Forall2 S a b.
Proof.
  intros H F. induction F as [|x y a b Hxy F IH]; constructor.
  - apply H; [left; reflexivity|exact Hxy].
  - apply IH. intros x' y' Hin. apply H. right. exact Hin.
Qed.

(* the stored payload bytes decode to the payload span, for every stored OTLP row *)
Theorem stored_payload_decodes_l : forall rows sr s,
  wire_domain rows -> In sr rows -> t_payload (fst sr) = POtlp s ->
  payload_bytes (t_payload (fst sr)) = Some (enc_span s) /\ dec_span (enc_span s) = Some s.
Proof.
  intros rows sr s Hd Hin Hp. rewrite Hp. split; [reflexivity|]. apply dec_enc_span. apply (Hd sr s Hin Hp).
Qed.

(* read_back with the payload column holding bytes *)
Theorem read_back_wire_l : forall inp rows ps,
  decode fixed inp = Some rows -> pushed_of inp = Some ps -> in_range inp -> wire_domain rows ->
  Forall2 (fun p sr => reads_back p (read_row_wire fixed (in_elems inp) (fst sr) (payload_bytes (t_payload (fst sr))))) ps rows.
Proof.
  intros inp rows ps Hd Hp Hr Hw.
  eapply Forall2_imp_in; [|exact (read_back_l inp rows ps Hd Hp Hr)].
  intros p sr Hin H. cbn beta in *. rewrite read_row_wire_eq; [exact H|]. intros s Hs. apply (Hw sr s Hin Hs).
Qed.

(* the hypotheses are met by the two-span request of SpansProofs (nested list / map attributes, double, resource attributes) *)
Example ex_wire_domain :
  match decode fixed ex_otlp with
  | Some rows => forallb (fun sr => match t_payload (fst sr) with POtlp s => span_wire_ok s | _ => false end) rows = true
                 /\ List.length rows = 2%nat
  | None => False
  end.
Proof. vm_compute. split; reflexivity. Qed.

(* ------------------------------------------------------------------ the wire domain, from the pushed request *)
(* an input-level predicate: every pushed OTLP span and every resource attribute lies in the round-trip domain (times uint64, kind
   a non-negative int32, integers int64, doubles multiples of 1/8 below 2^53, no missing value directly inside a list); Zipkin
   requests store their own text and are not concerned *)
Definition attrs_wire_ok (a : attrs) : bool := forallb (fun kv => any_ok (snd kv)) a.
Definition input_wire_ok (i : input) : bool :=
  match i with
  | InOtlp b => forallb (fun r => attrs_wire_ok (res_attrs r) && forallb span_wire_ok (List.concat (r_scopes r))) b
  | InZipkin _ _ => true
  end.

Lemma mapM_in {A B} (f : A -> option B) : forall l ys y, mapM f l = Some ys -> In y ys -> exists x, In x l /\ f x = Some y.
Proof.
  induction l as [|x r IH]; intros ys y H Hin; cbn [mapM] in H.
  - inversion H; subst. destruct Hin.
  - destruct (f x) as [y0|] eqn:Ef; [|discriminate]. destruct (mapM f r) as [ys0|] eqn:Em; [|discriminate].
    inversion H; subst. destruct Hin as [<-|Hin].
    + exists x. split; [left; reflexivity|exact Ef].
    + destruct (IH ys0 y eq_refl Hin) as (x' & Hx & Hf). exists x'. split; [right; exact Hx|exact Hf].
Qed.

Lemma populate_wire_ok a : attrs_wire_ok a = true -> attrs_wire_ok (populate a) = true.
Proof.
  intro H. unfold populate, attrs_wire_ok in *.
  destruct (get_attr k_service a).
  - destruct (get_attr k_remote a); [exact H|]. rewrite forallb_app, H. reflexivity.
  - destruct (get_attr k_remote (a ++ [(k_service, AStr (local_name a))])).
    + rewrite forallb_app, H. reflexivity.
    + rewrite !forallb_app, H. reflexivity.
Qed.

Lemma otlp_span_payload ra s sr : otlp_span fixed ra s = Some sr ->
  t_payload (fst sr) = POtlp (with_attrs s (populate (o_attrs s ++ ra))).
Proof.
  unfold otlp_span. destruct (flat_attrs _ _ []) as [m|]; [|discriminate]. unfold on_span.
  destruct (negb (id_widths_ok (o_trace s) (o_span s))); [discriminate|]. intro H. inversion H; subst. reflexivity.
Qed.

Lemma otlp_span_wire_ok ra s sr p : attrs_wire_ok ra = true -> span_wire_ok s = true ->
  otlp_span fixed ra s = Some sr -> t_payload (fst sr) = POtlp p -> span_wire_ok p = true.
Proof.
  intros Hra Hs Ho Hp. rewrite (otlp_span_payload ra s sr Ho) in Hp. inversion Hp; subst p.
  unfold span_wire_ok in *. cbn [with_attrs o_start o_end o_kind o_attrs].
  apply andb_true_iff in Hs. destruct Hs as [Hs Ha]. rewrite Hs. cbn [andb].
  apply populate_wire_ok. unfold attrs_wire_ok. rewrite forallb_app. fold (attrs_wire_ok (o_attrs s)).
  unfold attrs_wire_ok in *. rewrite Ha, Hra. reflexivity.
Qed.

(* the parser's output lies in the wire domain whenever the pushed request does *)
Theorem wire_domain_of_input_l : forall inp rows,
  decode fixed inp = Some rows -> input_wire_ok inp = true -> wire_domain rows.
Proof.
  intros inp rows Hd Hok sr p Hin Hp. destruct inp as [b|nd es]; cbn [decode input_wire_ok] in *.
  - unfold otlp_decode in Hd. destruct (otlp_utf8_ok b); [|discriminate]. unfold otlp_decode_core in Hd.
    destruct (mapM (otlp_res fixed) b) as [rss|] eqn:Em; [|discriminate].
    cbn [option_map] in Hd. inversion Hd; subst rows. apply in_concat in Hin. destruct Hin as (rs & Hrs & Hin).
    destruct (mapM_in _ _ _ _ Em Hrs) as (r & Hr & Hres).
    rewrite forallb_forall in Hok. specialize (Hok r Hr). apply andb_true_iff in Hok. destruct Hok as [Hra Hss].
    unfold otlp_res in Hres. cbn [fixed q_nil_resource negb] in Hres. rewrite orb_true_r in Hres.
    destruct (mapM_in _ _ _ _ Hres Hin) as (s & Hs & Hspan).
    rewrite forallb_forall in Hss. apply (otlp_span_wire_ok (res_attrs r) s sr p Hra (Hss s Hs) Hspan Hp).
  - apply In_nth_error in Hin. destruct Hin as [k Hk].
    destruct (zipkin_payload_is_own_text nd es rows Hd k sr Hk) as [Hpl _]. rewrite Hpl in Hp. discriminate.
Qed.

(* read_back over the stored bytes with the domain stated on the PUSHED request *)
Theorem read_back_bytes_of_input_l : forall inp rows ps,
  decode fixed inp = Some rows -> pushed_of inp = Some ps -> in_range inp -> input_wire_ok inp = true ->
  Forall2 (fun p sr => reads_back p (read_row_wire fixed (in_elems inp) (fst sr) (payload_bytes (t_payload (fst sr))))) ps rows.
Proof.
  intros inp rows ps Hd Hp Hr Hok. apply (read_back_wire_l inp rows ps Hd Hp Hr (wire_domain_of_input_l inp rows Hd Hok)).
Qed.

Example ex_input_wire_ok : input_wire_ok ex_otlp = true /\ decode fixed ex_otlp <> None.
Proof. split; [vm_compute; reflexivity|vm_compute; discriminate]. Qed.

Local Open Scope list_scope.
(* ------------------------------------------------------------------ every string of a stored OTLP span is UTF-8 *)
Lemma get_attr_str_utf8 k (a : attrs) s : attrs_utf8 a = true -> get_attr k a = Some (AStr s) -> utf8_valid s = true.
Proof.
  unfold attrs_utf8. induction a as [|[k' v] a IH]; cbn [get_attr forallb fst snd]; [discriminate|].
  intro H. apply andb_true_iff in H. destruct H as [H1 H2]. destruct (String.eqb k k').
  - intro E. inversion E; subst v. apply andb_true_iff in H1. destruct H1 as [_ H1]. exact H1.
  - apply IH. exact H2.
Qed.
Lemma last_str_utf8 names (a : attrs) : attrs_utf8 a = true -> utf8_valid (last_str names a) = true.
Proof.
  intro Ha. unfold last_str. assert (G : forall acc, utf8_valid acc = true ->
    utf8_valid (fold_left (fun acc n => match get_attr n a with Some (AStr s) => s | _ => acc end) names acc) = true).
  { induction names as [|n names IH]; intros acc Hacc; cbn [fold_left]; [exact Hacc|].
    apply IH. destruct (get_attr n a) as [[s| | | | | | | |]|] eqn:E; try exact Hacc. apply (get_attr_str_utf8 n a s Ha E). }
  apply G. reflexivity.
Qed.
Lemma populate_utf8 a : attrs_utf8 a = true -> attrs_utf8 (populate a) = true.
Proof.
  intro H.
  assert (Hl : utf8_valid (local_name a) = true).
  { unfold local_name. destruct (String.eqb _ ""); [reflexivity|apply last_str_utf8; exact H]. }
  assert (Hr : utf8_valid (remote_name a) = true) by (apply last_str_utf8; exact H).
  unfold populate, attrs_utf8 in *.
  destruct (get_attr k_service a).
  - destruct (get_attr k_remote a); [exact H|]. rewrite forallb_app, H. cbn [forallb fst snd aval_utf8 k_remote andb]. rewrite Hr. reflexivity.
  - destruct (get_attr k_remote (a ++ [(k_service, AStr (local_name a))])).
    + rewrite forallb_app, H. cbn [forallb fst snd aval_utf8 andb]. rewrite Hl. reflexivity.
    + rewrite !forallb_app, H. cbn [forallb fst snd aval_utf8 andb]. rewrite Hl, Hr. reflexivity.
Qed.
Lemma otlp_span_utf8 ra s sr p : attrs_utf8 ra = true -> ospan_utf8 s = true ->
  otlp_span fixed ra s = Some sr -> t_payload (fst sr) = POtlp p -> ospan_utf8 p = true.
Proof.
  intros Hra Hs Ho Hp. rewrite (otlp_span_payload ra s sr Ho) in Hp. inversion Hp; subst p.
  unfold ospan_utf8 in *. cbn [with_attrs o_name o_attrs].
  apply andb_true_iff in Hs. destruct Hs as [Hn Ha]. rewrite Hn. cbn [andb].
  apply populate_utf8. unfold attrs_utf8 in *. rewrite forallb_app, Ha, Hra. reflexivity.
Qed.

(* Every string of every stored OTLP span is UTF-8: proto.Unmarshal refused the request otherwise, and the names the write path adds
   (service.name, remoteService.name) are values of existing string attributes or the ASCII fallback.  The only failure proto.Marshal has for a
   Span is a string that is not UTF-8, so the error branch after proto.Marshal in OTLPDecoder.Decode is never taken. *)
Theorem stored_strings_are_utf8_l : forall b rows, decode fixed (InOtlp b) = Some rows ->
  forall sr p, In sr rows -> t_payload (fst sr) = POtlp p -> ospan_utf8 p = true.
Proof.
  intros b rows Hd sr p Hin Hp. cbn [decode] in Hd. apply otlp_decode_some in Hd. destruct Hd as [Hd Hu].
  unfold otlp_decode_core in Hd. destruct (mapM (otlp_res fixed) b) as [rss|] eqn:Em; [|discriminate].
  cbn [option_map] in Hd. inversion Hd; subst rows. apply in_concat in Hin. destruct Hin as (rs & Hrs & Hin).
  destruct (mapM_in _ _ _ _ Em Hrs) as (r & Hr & Hres).
  unfold otlp_utf8_ok in Hu. rewrite forallb_forall in Hu. specialize (Hu r Hr). unfold ores_utf8 in Hu.
  apply andb_true_iff in Hu. destruct Hu as [Hra Hss].
  unfold otlp_res in Hres. cbn [fixed q_nil_resource negb] in Hres. rewrite orb_true_r in Hres.
  destruct (mapM_in _ _ _ _ Hres Hin) as (s & Hs & Hspan).
  rewrite forallb_forall in Hss. apply (otlp_span_utf8 (res_attrs r) s sr p Hra (Hss s Hs) Hspan Hp).
Qed.
Theorem non_utf8_refused_l : forall q b, otlp_utf8_ok b = false -> decode q (InOtlp b) = None.
Proof. intros q b H. cbn [decode]. unfold otlp_decode. rewrite H. reflexivity. Qed.

Example ex_utf8_valid :
  map utf8_valid ["caf" ++ String (ascii_of_nat 195) (String (ascii_of_nat 169) ""); String (ascii_of_nat 195) "";
                  String (ascii_of_nat 192) (String (ascii_of_nat 175) ""); String (ascii_of_nat 237) (String (ascii_of_nat 160) (String (ascii_of_nat 128) ""));
                  String (ascii_of_nat 244) (String (ascii_of_nat 143) (String (ascii_of_nat 191) (String (ascii_of_nat 191) "")));
                  String (ascii_of_nat 244) (String (ascii_of_nat 144) (String (ascii_of_nat 128) (String (ascii_of_nat 128) ""))); ""]%string
  = [true; false; false; false; true; false; true].
Proof. vm_compute. reflexivity. Qed.
Definition ex_otlp_badutf8 : input :=
  InOtlp [ {| r_has_res := true; r_attrs := [("service.name", AStr "cart")];
              r_scopes := [[ {| o_trace := hx "a3a3a3a3a3a3a3a3a3a3a3a3a3a3a3a3"; o_span := hx "1313131313131313"; o_parent := "";
                                o_name := "render"; o_start := 1727700000000001000; o_end := 1727700000000002000; o_kind := 2;
                                o_attrs := [("k", AMap [("in", AStr (String (ascii_of_nat 255) ""))])] |} ]] |} ].
Example ex_non_utf8_refused : decode fixed ex_otlp_badutf8 = None.
Proof. vm_compute. reflexivity. Qed.
