(* C09 round 5: a literal between the two anchors under the RE2 meaning of C17 model/PromRegex.v is equality with the literal;
   used by props/C09.v for the in-process regular-expression line filter (seed C09-e: LiteralPrefix fast path drops the anchors) *)
From Coq Require Import List String Ascii Arith Bool NArith Lia.
From Qryn Require Import model.PromRegex proofs.PromRegexProofs.
Import ListNotations.

Fixpoint lit_at (L s : list ascii) : bool :=
  match L with
  | [] => true
  | c :: r => match s with d :: t => Ascii.eqb c d && lit_at r t | [] => false end
  end.

Lemma flat_map_single : forall (l : list nat), flat_map (fun j => [j]) l = l.
Proof. induction l as [|x l IH]; cbn; [reflexivity|now rewrite IH]. Qed.

Lemma ends_seq_cons : forall x rest s i,
  ends (re_seq (x :: rest)) s i = flat_map (ends (re_seq rest) s) (ends x s i).
Proof.
  intros x rest s i. destruct rest as [|y rest]; [|reflexivity].
  cbn [re_seq]. change (ends REps s) with (fun j : nat => [j]). now rewrite flat_map_single.
Qed.

Lemma skipn_nth : forall (s : list ascii) i, skipn i s = match nth_error s i with Some d => d :: skipn (S i) s | None => [] end.
Proof.
  induction s as [|a s IH]; intros [|i]; cbn; try reflexivity.
  rewrite IH. destruct (nth_error s i); reflexivity.
Qed.

Lemma ends_lits : forall L s i,
  ends (re_seq (map RChr L)) s i = if lit_at L (skipn i s) then [i + List.length L] else [].
Proof.
  induction L as [|c L IH]; intros s i.
  - cbn. now rewrite Nat.add_0_r.
  - cbn [map]. rewrite ends_seq_cons. cbn [ends lit_at]. rewrite (skipn_nth s i).
    destruct (nth_error s i) as [d|]; [|reflexivity].
    destruct (Ascii.eqb c d); cbn [flat_map andb]; [|reflexivity].
    rewrite IH, app_nil_r. cbn [List.length]. now rewrite Nat.add_succ_r.
Qed.

Lemma lit_at_eq : forall L s, lit_at L s && Nat.eqb (List.length L) (List.length s) = true <-> L = s.
Proof.
  induction L as [|c L IH]; intros [|d s]; cbn; split; intros H; try reflexivity; try discriminate H.
  - apply andb_true_iff in H. destruct H as [H1 H2]. apply andb_true_iff in H1. destruct H1 as [Hc Hl].
    apply Ascii.eqb_eq in Hc. subst d. f_equal. apply IH. now rewrite Hl, H2.
  - injection H as -> ->. rewrite Ascii.eqb_refl. cbn. apply IH. reflexivity.
Qed.

(* `^L$` (a literal between the two anchors) under RE2 search = the subject IS the literal *)
Lemma anchored_literal_is_equality : forall L v,
  re_search (RCat RBol (RCat (re_seq (re_lits L)) REol)) v = String.eqb L v.
Proof.
  intros L v. rewrite enclosing_anchors. unfold re_whole, re_whole_l, re_lits.
  rewrite ends_lits. cbn [skipn].
  destruct (String.eqb L v) eqn:E.
  - apply String.eqb_eq in E. subst v.
    pose proof (proj2 (lit_at_eq (list_ascii_of_string L) (list_ascii_of_string L)) eq_refl) as H.
    apply andb_true_iff in H. destruct H as [H1 _]. rewrite H1. cbn. now rewrite Nat.eqb_refl.
  - destruct (lit_at (list_ascii_of_string L) (list_ascii_of_string v)) eqn:E1; [|reflexivity].
    cbn. destruct (Nat.eqb (List.length (list_ascii_of_string v)) (List.length (list_ascii_of_string L))) eqn:E2; [|reflexivity].
    exfalso. rewrite Nat.eqb_sym in E2.
    assert (H : list_ascii_of_string L = list_ascii_of_string v) by (apply lit_at_eq; now rewrite E1, E2).
    apply (f_equal string_of_list_ascii) in H. rewrite !string_of_list_ascii_of_string in H.
    subst v. now rewrite String.eqb_refl in E.
Qed.
