(* Lemmas about the pieces of SqlEval.v that do not depend on a particular plan:
   option plumbing, LIKE patterns (like_contains), the stable sort and LIMIT (limit_topk),
   the matcher bitmask (bitmask_having), three-valued and/or over booleans. *)
From Coq Require Import List ZArith NArith QArith String Ascii Bool Lia Permutation Sorted.
From Qryn Require Import lib.Strs model.Sql model.SqlEval.
Import ListNotations.
Open Scope string_scope.

(* ---------- option plumbing ---------- *)
Lemma map_opt_total {A B} (f : A -> option B) (g : A -> B) l :
  (forall a, List.In a l -> f a = Some (g a)) -> map_opt f l = Some (map g l).
Proof.
  induction l as [|a l IH]; intros H; cbn [map_opt map]; [reflexivity|].
  rewrite (H a (or_introl eq_refl)), IH; [reflexivity|].
  intros b Hb. apply H. now right.
Qed.
Lemma filter_opt_total {A} (p : A -> option bool) (b : A -> bool) l :
  (forall a, List.In a l -> p a = Some (b a)) -> filter_opt p l = Some (filter b l).
Proof.
  induction l as [|a l IH]; intros H; cbn [filter_opt filter]; [reflexivity|].
  rewrite (H a (or_introl eq_refl)), IH; [reflexivity|].
  intros x Hx. apply H. now right.
Qed.
Lemma find_opt_total {A} (p : A -> option bool) (b : A -> bool) l :
  (forall a, List.In a l -> p a = Some (b a)) -> find_opt p l = Some (find b l).
Proof.
  induction l as [|a l IH]; intros H; cbn [find_opt find]; [reflexivity|].
  rewrite (H a (or_introl eq_refl)). destruct (b a); [reflexivity|].
  apply IH. intros x Hx. apply H. now right.
Qed.
Lemma filter_map_comm {A B} (f : A -> B) (p : B -> bool) l :
  filter p (map f l) = map f (filter (fun a => p (f a)) l).
Proof.
  induction l as [|a l IH]; cbn [map filter]; [reflexivity|].
  destruct (p (f a)); cbn [map]; now rewrite IH.
Qed.
Lemma find_map_comm {A B} (f : A -> B) (p : B -> bool) l :
  find p (map f l) = option_map f (find (fun a => p (f a)) l).
Proof.
  induction l as [|a l IH]; cbn [map find]; [reflexivity|].
  destruct (p (f a)); [reflexivity|apply IH].
Qed.

(* ---------- three-valued and / or on two-valued arguments ---------- *)
Definition tri_b (b : bool) : tri := if b then T1 else T0.
Lemma tri_of_vbool b : tri_of (vbool b) = Some (tri_b b).
Proof. destruct b; reflexivity. Qed.
Lemma fold_tri_and bs : forall a, fold_left tri_and (map tri_b bs) (tri_b a) = tri_b (a && forallb (fun b => b) bs).
Proof.
  induction bs as [|b bs IH]; intros a; cbn [map fold_left forallb].
  - now rewrite andb_true_r.
  - replace (tri_and (tri_b a) (tri_b b)) with (tri_b (a && b)) by (destruct a, b; reflexivity).
    rewrite IH. now rewrite andb_assoc.
Qed.
Lemma fold_tri_or bs : forall a, fold_left tri_or (map tri_b bs) (tri_b a) = tri_b (a || existsb (fun b => b) bs).
Proof.
  induction bs as [|b bs IH]; intros a; cbn [map fold_left existsb].
  - now rewrite orb_false_r.
  - replace (tri_or (tri_b a) (tri_b b)) with (tri_b (a || b)) by (destruct a, b; reflexivity).
    rewrite IH. now rewrite orb_assoc.
Qed.
Lemma tri_val_b b : tri_val (tri_b b) = vbool b.
Proof. destruct b; reflexivity. Qed.
Lemma vlogic_and_bools (bs : list bool) : bs <> [] ->
  vlogic true (map vbool bs) = Some (vbool (forallb (fun b => b) bs)).
Proof.
  intros Hne. unfold vlogic.
  rewrite (map_opt_total tri_of (fun v => match tri_of v with Some t => t | None => TN end)).
  2:{ intros v Hv. apply in_map_iff in Hv. destruct Hv as [b [<- _]]. now rewrite tri_of_vbool. }
  rewrite map_map.
  rewrite (map_ext (fun b => match tri_of (vbool b) with Some t => t | None => TN end) tri_b)
    by (intros b; now rewrite tri_of_vbool).
  change T1 with (tri_b true). rewrite fold_tri_and, tri_val_b. cbn [andb].
  destruct bs; [congruence|reflexivity].
Qed.
Lemma vlogic_or_bools (bs : list bool) : bs <> [] ->
  vlogic false (map vbool bs) = Some (vbool (existsb (fun b => b) bs)).
Proof.
  intros Hne. unfold vlogic.
  rewrite (map_opt_total tri_of (fun v => match tri_of v with Some t => t | None => TN end)).
  2:{ intros v Hv. apply in_map_iff in Hv. destruct Hv as [b [<- _]]. now rewrite tri_of_vbool. }
  rewrite map_map.
  rewrite (map_ext (fun b => match tri_of (vbool b) with Some t => t | None => TN end) tri_b)
    by (intros b; now rewrite tri_of_vbool).
  change T0 with (tri_b false). rewrite fold_tri_or, tri_val_b. cbn [orb].
  destruct bs; [congruence|reflexivity].
Qed.
Lemma truthy_vbool b : truthy (Some (vbool b)) = Some b.
Proof. destruct b; reflexivity. Qed.

(* ---------- LIKE: '%' ++ escaped v ++ '%' means "contains v" ---------- *)
Fixpoint chars (s : string) : list litem :=
  match s with EmptyString => [] | String c r => LCh c :: chars r end.
(* the escaping of LIKE metacharacters done by LineFilterPlanner.doLike (LogqlPlan.esc_like has this body) *)
Definition esc_like_c (c : ascii) : string :=
  if Ascii.eqb c "\" then "\\" else if Ascii.eqb c "%" then "\%" else if Ascii.eqb c "_" then "\_" else ch c.

Lemma sapp_assoc (a b c : string) : (a ++ b) ++ c = a ++ (b ++ c).
Proof. induction a as [|x a IH]; [reflexivity|]. cbn. now rewrite IH. Qed.

Lemma like_parse_esc v : forall rest,
  like_parse (map_string esc_like_c v ++ rest) = (chars v ++ like_parse rest)%list.
Proof.
  induction v as [|c v IH]; intros rest; [reflexivity|].
  cbn [map_string chars]. rewrite sapp_assoc. unfold esc_like_c at 1.
  destruct (Ascii.eqb c "\") eqn:E1.
  { apply Ascii.eqb_eq in E1. subst c. cbn. now rewrite IH. }
  destruct (Ascii.eqb c "%") eqn:E2.
  { apply Ascii.eqb_eq in E2. subst c. cbn. now rewrite IH. }
  destruct (Ascii.eqb c "_") eqn:E3.
  { apply Ascii.eqb_eq in E3. subst c. cbn. now rewrite IH. }
  unfold ch. cbn [String.append like_parse]. rewrite E1, E2, E3, IH. reflexivity.
Qed.

Lemma lmatch_any_nil s : lmatch [LAny] s = true.
Proof. induction s as [|c s IH]; [reflexivity|]. cbn in *. exact IH. Qed.

Lemma lmatch_prefix v : forall s, lmatch (chars v ++ [LAny]) s = prefixb v s.
Proof.
  induction v as [|c v IH]; intros s.
  - cbn [chars app]. rewrite lmatch_any_nil. destruct s; reflexivity.
  - cbn [chars app lmatch prefixb]. destruct s as [|d s]; [reflexivity|]. now rewrite IH.
Qed.

Lemma lmatch_any_contains (p : list litem) v :
  (forall s, lmatch p s = prefixb v s) -> forall s, lmatch (LAny :: p) s = contains v s.
Proof.
  intros Hp s. unfold contains. induction s as [|c s IH].
  - cbn. rewrite Hp. now rewrite orb_false_r.
  - cbn [lmatch] in *. cbn [String.length containsb]. rewrite Hp. f_equal. exact IH.
Qed.

Theorem like_contains v s : like_sem ("%" ++ map_string esc_like_c v ++ "%") s = contains v s.
Proof.
  unfold like_sem. change ("%" ++ map_string esc_like_c v ++ "%") with (String "%" (map_string esc_like_c v ++ "%")).
  cbn [like_parse]. change (Ascii.eqb "%" "%") with true. cbn iota.
  rewrite like_parse_esc. change (like_parse "%") with [LAny].
  apply lmatch_any_contains. apply lmatch_prefix.
Qed.

(* to_lower commutes with the escaping (it leaves \ % _ alone) *)
Lemma map_string_app f a b : map_string f (a ++ b) = map_string f a ++ map_string f b.
Proof. induction a as [|c a IH]; [reflexivity|]. cbn [String.append map_string]. now rewrite IH, sapp_assoc. Qed.
Lemma to_lower_app a b : to_lower (a ++ b) = to_lower a ++ to_lower b.
Proof. apply map_string_app. Qed.
Lemma to_lower_esc v : to_lower (map_string esc_like_c v) = map_string esc_like_c (to_lower v).
Proof.
  induction v as [|c v IH]; [reflexivity|].
  cbn [map_string]. rewrite to_lower_app, IH.
  change (to_lower (String c v)) with (ch (to_lower_c c) ++ to_lower v).
  cbn [String.append map_string ch]. f_equal.
  unfold esc_like_c, to_lower_c.
  destruct (is_upper c) eqn:Eu.
  2:{ destruct (Ascii.eqb c "\"), (Ascii.eqb c "%"), (Ascii.eqb c "_"); try reflexivity.
      unfold to_lower, ch. cbn [map_string String.append]. unfold to_lower_c. now rewrite Eu. }
  (* an upper-case letter is none of \ % _ and neither is its lower-case form *)
  unfold is_upper in Eu. apply andb_prop in Eu. destruct Eu as [E1 E2].
  apply N.leb_le in E1. apply N.leb_le in E2.
  assert (Hc : c = ascii_of_N (N_of_ascii c)) by (now rewrite ascii_N_embedding).
  assert (Hlt : (N_of_ascii c < 256)%N) by apply N_ascii_bounded.
  remember (N_of_ascii c) as n eqn:En.
  assert (Hne : forall k, (k < 65 \/ 90 < k)%N -> (k < 256)%N -> Ascii.eqb c (ascii_of_N k) = false).
  { intros k Hk Hk2. apply Ascii.eqb_neq. intros Heq. rewrite Hc in Heq.
    apply (f_equal N_of_ascii) in Heq. rewrite !N_ascii_embedding in Heq by assumption. lia. }
  change "\"%char with (ascii_of_N 92). change "%"%char with (ascii_of_N 37). change "_"%char with (ascii_of_N 95).
  rewrite !Hne by lia.
  assert (Hne2 : forall k, (k < 97 \/ 122 < k)%N -> (k < 256)%N -> Ascii.eqb (ascii_of_N (n + 32)) (ascii_of_N k) = false).
  { intros k Hk Hk2. apply Ascii.eqb_neq. intros Heq.
    apply (f_equal N_of_ascii) in Heq. rewrite !N_ascii_embedding in Heq by lia. lia. }
  rewrite !Hne2 by lia. unfold to_lower, ch. cbn [map_string String.append]. unfold to_lower_c, is_upper. rewrite <- En.
  replace (65 <=? n)%N with true by (symmetry; now apply N.leb_le).
  replace (n <=? 90)%N with true by (symmetry; now apply N.leb_le). reflexivity.
Qed.
Theorem ilike_contains v s :
  ilike_sem ("%" ++ map_string esc_like_c v ++ "%") s = contains (to_lower v) (to_lower s).
Proof.
  unfold ilike_sem. rewrite !to_lower_app, to_lower_esc. change (to_lower "%") with "%".
  apply like_contains.
Qed.

(* ---------- ORDER BY ... LIMIT k: the stable sort and the top-k property ---------- *)
Section SORTP.
  Context {A : Type} (leb : A -> A -> bool).
  Lemma insert_perm x l : Permutation (insert_sorted leb x l) (x :: l).
  Proof.
    induction l as [|y l IH]; cbn [insert_sorted]; [apply Permutation_refl|].
    destruct (leb x y); [apply Permutation_refl|].
    eapply Permutation_trans; [apply perm_skip, IH|apply perm_swap].
  Qed.
  Lemma isort_perm l : Permutation (isort leb l) l.
  Proof.
    induction l as [|x l IH]; cbn [isort]; [apply Permutation_refl|].
    eapply Permutation_trans; [apply insert_perm|now apply perm_skip].
  Qed.
  Hypothesis total : forall a b, leb a b = true \/ leb b a = true.
  Hypothesis trans : forall a b c, leb a b = true -> leb b c = true -> leb a c = true.
  Let R a b := leb a b = true.
  Lemma insert_sorted_ok x l : StronglySorted R l -> StronglySorted R (insert_sorted leb x l).
  Proof.
    induction 1 as [|y l Hs IH Hall]; cbn [insert_sorted].
    - constructor; constructor.
    - destruct (leb x y) eqn:E.
      + constructor; [constructor; assumption|]. constructor; [exact E|].
        rewrite Forall_forall in *. intros z Hz. eapply trans; [exact E|now apply Hall].
      + constructor; [exact IH|]. rewrite Forall_forall in *. intros z Hz.
        apply (Permutation_in _ (insert_perm x l)) in Hz. destruct Hz as [<-|Hz]; [|now apply Hall].
        destruct (total y x) as [H|H]; [exact H|unfold R; congruence].
  Qed.
  Lemma isort_sorted l : StronglySorted R (isort leb l).
  Proof. induction l as [|x l IH]; cbn [isort]; [constructor|now apply insert_sorted_ok]. Qed.
  Lemma sorted_app_le a : forall b, StronglySorted R (a ++ b) -> forall x y, List.In x a -> List.In y b -> R x y.
  Proof.
    induction a as [|z a IH]; intros b Hs x y Hx Hy; [destruct Hx|].
    cbn [app] in Hs. inversion Hs as [|? ? Hs' Hall]; subst. destruct Hx as [<-|Hx].
    - rewrite Forall_forall in Hall. apply Hall. apply in_or_app. now right.
    - now apply (IH b Hs').
  Qed.

  (* LIMIT k after ORDER BY keeps min(k, n) rows, and no dropped row comes before a kept one *)
  Theorem limit_topk (l : list A) (k : nat) :
    exists rest, Permutation l (firstn k (isort leb l) ++ rest)
      /\ List.length (firstn k (isort leb l)) = Nat.min k (List.length l)
      /\ forall r o, List.In r (firstn k (isort leb l)) -> List.In o rest -> leb r o = true.
  Proof.
    exists (skipn k (isort leb l)). split; [|split].
    - rewrite firstn_skipn. apply Permutation_sym, isort_perm.
    - rewrite firstn_length. f_equal. apply Permutation_length, isort_perm.
    - intros r o Hr Ho. apply (sorted_app_le (firstn k (isort leb l)) (skipn k (isort leb l))); try assumption.
      rewrite firstn_skipn. apply isort_sorted.
  Qed.
End SORTP.

Lemma isort_map {A B} (f : A -> B) (leb : B -> B -> bool) l :
  isort leb (map f l) = map f (isort (fun a b => leb (f a) (f b)) l).
Proof.
  induction l as [|x l IH]; [reflexivity|]. cbn [map isort]. rewrite IH.
  generalize (isort (fun a b => leb (f a) (f b)) l). intros s.
  induction s as [|y s IHs]; [reflexivity|]. cbn [map insert_sorted].
  destruct (leb (f x) (f y)); cbn [map]; [reflexivity|now rewrite IHs].
Qed.

Lemma keys_leb_1 asc a b :
  keys_leb [asc] [VInt a] [VInt b] = if asc then Z.leb a b else Z.leb b a.
Proof.
  cbn [keys_leb]. destruct (Z.compare_spec a b) as [->|H|H]; destruct asc; cbn [negb];
    symmetry; first [apply Z.leb_le; lia|apply Z.leb_gt; lia].
Qed.

(* ---------- the matcher bitmask: groupBitOr(bitShiftLeft(c0,0) + bitShiftLeft(c1,1) + ...) ---------- *)
Definition b2n (b : bool) : N := if b then 1%N else 0%N.
(* the per-row sum as BitSetAnd computes it (running sum, running bit index) *)
Definition mask_step (acc : N * N) (b : bool) : N * N := (fst acc + shl64 (if b then 1 else 0) (snd acc), snd acc + 1)%N.
Definition row_mask (bs : list bool) : N := fst (fold_left mask_step bs (0, 0)%N).
Fixpoint rowmask (bs : list bool) (i : N) : N :=
  match bs with
  | [] => 0%N
  | b :: bs' => (N.shiftl (b2n b) i + rowmask bs' (i + 1))%N
  end.

Lemma shl64_small b i : (i < 64)%N -> shl64 (b2n b) i = N.shiftl (b2n b) i.
Proof.
  intros Hi. unfold shl64. apply N.mod_small. rewrite N.shiftl_mul_pow2.
  assert (2 ^ i < 2 ^ 64)%N by (apply N.pow_lt_mono_r; lia).
  change (2 ^ 64)%N with 18446744073709551616%N in *.
  destruct b; cbn [b2n]; lia.
Qed.
Lemma fold_mask_step bs : forall acc i, (i + N.of_nat (List.length bs) <= 64)%N ->
  fold_left mask_step bs (acc, i) = ((acc + rowmask bs i)%N, (i + N.of_nat (List.length bs))%N).
Proof.
  induction bs as [|b bs IH]; intros acc i Hle; cbn [fold_left rowmask List.length].
  - f_equal; lia.
  - cbn [List.length] in Hle. rewrite Nat2N.inj_succ in *.
    change (mask_step (acc, i) b) with ((acc + shl64 (b2n b) i)%N, (i + 1)%N).
    rewrite IH by lia. rewrite shl64_small by lia. f_equal; lia.
Qed.
Lemma row_mask_rowmask bs : (List.length bs <= 64)%nat -> row_mask bs = rowmask bs 0.
Proof. intros H. unfold row_mask. rewrite fold_mask_step by lia. reflexivity. Qed.

Lemma rowmask_testbit : forall bs i k,
  N.testbit (rowmask bs i) k =
    match nth_error bs (N.to_nat (k - i)) with
    | Some b => (i <=? k)%N && b
    | None => false
    end.
Proof.
  induction bs as [|c cs IH]; intros i k; cbn [rowmask].
  - rewrite N.bits_0. destruct (N.to_nat (k - i)); reflexivity.
  - assert (Hdis : N.land (N.shiftl (b2n c) i) (rowmask cs (i + 1)) = 0%N).
    { apply N.bits_inj_0. intros m. rewrite N.land_spec, IH.
      destruct (N.ltb_spec m i) as [Hlt|Hge].
      - rewrite N.shiftl_spec_low by lia. reflexivity.
      - rewrite N.shiftl_spec_high' by lia.
        destruct (N.eqb_spec m i) as [->|Hne].
        + replace (i + 1 <=? i)%N with false by (symmetry; apply N.leb_gt; lia).
          destruct (nth_error cs _); rewrite ?andb_false_r; reflexivity.
        + destruct c; cbn [b2n].
          * rewrite N.bits_above_log2; [reflexivity|]. cbn. lia.
          * rewrite N.bits_0. reflexivity. }
    rewrite (N.add_nocarry_lxor _ _ Hdis), N.lxor_spec, IH.
    destruct (N.ltb_spec k i) as [Hlt|Hge].
    + rewrite N.shiftl_spec_low by lia.
      replace (i <=? k)%N with false by (symmetry; apply N.leb_gt; lia).
      replace (i + 1 <=? k)%N with false by (symmetry; apply N.leb_gt; lia).
      replace (N.to_nat (k - i)) with 0%nat by lia. cbn.
      destruct (nth_error cs _); reflexivity.
    + rewrite N.shiftl_spec_high' by lia.
      replace (i <=? k)%N with true by (symmetry; apply N.leb_le; lia).
      destruct (N.eqb_spec k i) as [->|Hne].
      * replace (i - i)%N with 0%N by lia. cbn [N.to_nat nth_error].
        replace (i + 1 <=? i)%N with false by (symmetry; apply N.leb_gt; lia).
        destruct c; cbn; destruct (nth_error cs _); reflexivity.
      * replace (N.to_nat (k - i)) with (S (N.to_nat (k - (i + 1)))) by lia.
        cbn [nth_error].
        replace (i + 1 <=? k)%N with true by (symmetry; apply N.leb_le; lia).
        assert (N.testbit (b2n c) (k - i) = false) as ->.
        { destruct c; cbn [b2n]; [|apply N.bits_0].
          apply N.bits_above_log2. cbn. lia. }
        rewrite xorb_false_l. reflexivity.
Qed.

Lemma fold_lor_testbit : forall (ms : list N) acc k,
  N.testbit (fold_left N.lor ms acc) k = N.testbit acc k || existsb (fun m => N.testbit m k) ms.
Proof.
  induction ms as [|m ms IH]; intros acc k; cbn [fold_left existsb].
  - now rewrite orb_false_r.
  - rewrite IH, N.lor_spec. now rewrite orb_assoc.
Qed.
Lemma ones_testbit n k : N.testbit (2 ^ n - 1) k = (k <? n)%N.
Proof.
  rewrite <- N.pred_sub, <- N.ones_equiv. destruct (N.ltb_spec k n).
  - now apply N.ones_spec_low.
  - now apply N.ones_spec_high.
Qed.

Lemma existsb_map_c {A B} (f : A -> B) (p : B -> bool) l : existsb p (map f l) = existsb (fun a => p (f a)) l.
Proof. induction l as [|a l IH]; [reflexivity|]. cbn [map existsb]. now rewrite IH. Qed.
Lemma existsb_ext_in_c {A} (p q : A -> bool) l : (forall a, List.In a l -> p a = q a) -> existsb p l = existsb q l.
Proof.
  induction l as [|a l IH]; intros H; [reflexivity|]. cbn [existsb].
  rewrite (H a (or_introl eq_refl)), IH; [reflexivity|]. intros b Hb. apply H. now right.
Qed.

(* over any group (one truth vector of the n conditions per row): the OR of the row masks is
   2^n - 1 exactly when every condition holds on some row.  Needs n <= 64: see shl64. *)
Theorem bitmask_having (n : nat) (rows : list (list bool)) :
  (n <= 64)%nat -> (forall bs, List.In bs rows -> List.length bs = n) ->
  (fold_left N.lor (map row_mask rows) 0%N = (2 ^ N.of_nat n - 1)%N
   <-> forall i, (i < n)%nat -> exists bs, List.In bs rows /\ nth i bs false = true).
Proof.
  intros Hn Hlen.
  assert (Hbit : forall k, N.testbit (fold_left N.lor (map row_mask rows) 0%N) k
                           = existsb (fun bs => nth (N.to_nat k) bs false) rows).
  { intros k. rewrite fold_lor_testbit, N.bits_0. cbn [orb]. rewrite existsb_map_c.
    apply existsb_ext_in_c. intros bs Hbs. rewrite row_mask_rowmask by (rewrite (Hlen bs Hbs); exact Hn).
    rewrite rowmask_testbit. replace (k - 0)%N with k by lia.
    destruct (nth_error bs (N.to_nat k)) as [b|] eqn:E.
    - rewrite (nth_error_nth _ _ _ E). replace (0 <=? k)%N with true by (symmetry; apply N.leb_le; lia). reflexivity.
    - apply nth_error_None in E. now rewrite nth_overflow. }
  split.
  - intros H i Hi.
    assert (Hb : N.testbit (2 ^ N.of_nat n - 1) (N.of_nat i) = true) by (rewrite ones_testbit; apply N.ltb_lt; lia).
    rewrite <- H, Hbit, Nat2N.id in Hb. apply existsb_exists in Hb. exact Hb.
  - intros H. apply N.bits_inj. intros k. rewrite Hbit, ones_testbit.
    destruct (N.ltb_spec k (N.of_nat n)) as [Hlt|Hge].
    + destruct (H (N.to_nat k)) as [bs [Hbs Hnth]]; [lia|]. apply existsb_exists. now exists bs.
    + apply not_true_is_false. intros Hex. apply existsb_exists in Hex. destruct Hex as [bs [Hbs Hnth]].
      rewrite nth_overflow in Hnth; [discriminate|]. rewrite (Hlen bs Hbs). lia.
Qed.

(* the same, for a group of rows and a list of conditions on a row *)
Corollary bitmask_having_pred {R C : Type} (p : C -> R -> bool) (cs : list C) (grp : list R) :
  (List.length cs <= 64)%nat ->
  (fold_left N.lor (map (fun r => row_mask (map (fun c => p c r) cs)) grp) 0%N = (2 ^ N.of_nat (List.length cs) - 1)%N
   <-> forall c, List.In c cs -> exists r, List.In r grp /\ p c r = true).
Proof.
  intros Hn. rewrite <- (map_map (fun r => map (fun c => p c r) cs) row_mask).
  rewrite (bitmask_having (List.length cs)); [|exact Hn|].
  2:{ intros bs Hbs. apply in_map_iff in Hbs. destruct Hbs as [r [<- _]]. apply map_length. }
  split.
  - intros H c0 Hc. apply In_nth_error in Hc. destruct Hc as [i Hi].
    assert (Hlt : (i < List.length cs)%nat) by (apply nth_error_Some; congruence).
    destruct (H i Hlt) as [bs [Hbs Hnth]]. apply in_map_iff in Hbs. destruct Hbs as [r [<- Hr]].
    exists r. split; [exact Hr|].
    rewrite (nth_indep _ false (p c0 r)) in Hnth by (now rewrite map_length).
    rewrite (map_nth (fun c => p c r)) in Hnth. now rewrite (nth_error_nth _ _ _ Hi) in Hnth.
  - intros H i Hi. destruct (nth_error cs i) as [c0|] eqn:E; [|apply nth_error_None in E; lia].
    destruct (H c0 (nth_error_In _ _ E)) as [r [Hr Hp]].
    exists (map (fun c => p c r) cs). split; [apply in_map_iff; now exists r|].
    rewrite (nth_indep _ false (p c0 r)) by (now rewrite map_length).
    rewrite (map_nth (fun c => p c r)). now rewrite (nth_error_nth _ _ _ E).
Qed.
