(* C15 — proofs about model/JsonPyro.v: the JSON bodies of the Pyroscope endpoints.

   protojson (LabelNames, LabelValues, Series, ProfileTypes, SelectSeries): for BOTH values of the per-binary coin and
   for every response message whose strings are valid UTF-8 the body is one document, the protojson mapping of the
   message; a message holding a string that is not UTF-8 is answered with ONE JSON string (the error text) and none of
   its rows.  RenderDiff: for every FlamebearerProfileV1 value the body is one document.  defaultError: strconv.Quote is
   JSON exactly on the harmless bytes. *)
From Coq Require Import List NArith ZArith Bool Ascii String Lia.
From Qryn Require Import model.GoFloat model.JsonStream model.JsonPyro
  proofs.JsonStreamProofs proofs.GoFloatProofs proofs.GoMarshalProofs.
Import ListNotations.
Close Scope Z_scope.
Open Scope string_scope.
Open Scope list_scope.

(* ------------------------------------------------------------------------------------------ *)
(* the protojson escaper is inverted by the reader, for every byte string *)

Lemma lex_str_pj_esc_char : forall c r, lex_str (pj_esc_char c ++ r)%string = push (String c EmptyString) (lex_str r).
Proof.
  intros c r. destruct c as [b0 b1 b2 b3 b4 b5 b6 b7].
  destruct b0, b1, b2, b3, b4, b5, b6, b7; reflexivity.
Qed.
Theorem pj_string_escaping : forall s rest, lex_str (pj_body s ++ String (chr 34) rest)%string = Some (s, rest).
Proof.
  induction s as [|c s IH]; intros rest; [reflexivity|].
  cbn [pj_body]. rewrite sapp_assoc, lex_str_pj_esc_char, IH. reflexivity.
Qed.
Lemma lex_pj_str_tok : forall f s r, lex (S f) (pj_quote s ++ r)%string = tcons (TStr s) (lex f r).
Proof.
  intros f s r. unfold pj_quote. cbn [append]. rewrite sapp_assoc.
  change (str1 34 ++ r)%string with (String (chr 34) r).
  change (lex (S f) (String (chr 34) ?x)) with
    (match lex_str x with Some (y, r') => tcons (TStr y) (lex f r') | None => None end).
  rewrite pj_string_escaping. reflexivity.
Qed.

(* render_pj differs from render on TStr only *)
Lemma closes_delim_pj : forall ts, closes ts = true -> delim_start (render_pj ts) = true.
Proof. intros [|t r] H; [reflexivity|]. destruct t; try discriminate H; reflexivity. Qed.
Lemma lex_tok_pj : forall t f r,
  match t with TRaw s => num_ok s = true /\ closes r = true | TWs _ => False | _ => True end ->
  lex (S f) (render_tok_pj t ++ render_pj r)%string = tcons (norm_tok t) (lex f (render_pj r)).
Proof.
  intros t f r H. destruct t; cbn [render_tok_pj render_tok norm_tok]; try reflexivity.
  - apply lex_pj_str_tok.
  - apply lex_strj_tok.
  - destruct H as [Hn Hc]. apply lex_raw; [exact Hn|apply closes_delim_pj, Hc].
  - contradiction.
Qed.
Lemma lex_render_pj_fuel : forall ts f, lexable ts = true -> cost ts < f -> lex f (render_pj ts) = Some (prep ts).
Proof.
  induction ts as [|t r IH]; intros f Hl Hc.
  - destruct f; [lia|]. reflexivity.
  - cbn [lexable] in Hl. apply andb_prop in Hl. destruct Hl as [Ht Hr].
    cbn [render_pj]. destruct (is_ws_tok t) eqn:Hw.
    + destruct t; try discriminate Hw. cbn [cost] in Hc. cbn [render_tok_pj render_tok].
      replace f with (String.length s + (f - String.length s)) by lia.
      rewrite (lex_ws s _ _ Ht). unfold prep, strip. cbn [filter is_ws_tok negb]. apply IH; [exact Hr|lia].
    + rewrite (cost_cons t r Hw) in Hc. destruct f as [|f]; [lia|].
      rewrite lex_tok_pj.
      * rewrite (IH f Hr ltac:(lia)). unfold prep, strip. cbn [filter]. rewrite Hw. reflexivity.
      * destruct t; try exact I; [|discriminate Hw]. apply andb_prop in Ht. exact Ht.
Qed.
Lemma cost_le_length_pj : forall ts, lexable ts = true -> cost ts <= String.length (render_pj ts).
Proof.
  induction ts as [|t r IH]; intros Hl; [cbn; lia|].
  cbn [lexable] in Hl. apply andb_prop in Hl. destruct Hl as [Ht Hr]. specialize (IH Hr).
  cbn [render_pj]. rewrite slength_app.
  destruct t; cbn [cost render_tok_pj render_tok]; try (cbn [str1 String.length]; lia).
  - unfold pj_quote. cbn [String.length]. lia.
  - unfold gojson_quote. cbn [String.length]. lia.
  - apply andb_prop in Ht. destruct Ht as [Hn _]. destruct (num_ok_nonempty s Hn) as [c [s' ->]].
    cbn [String.length]. lia.
Qed.
Theorem lex_render_pj : forall ts, lexable ts = true -> lex_bytes (render_pj ts) = Some (prep ts).
Proof.
  intros ts H. unfold lex_bytes. apply lex_render_pj_fuel; [exact H|]. pose proof (cost_le_length_pj ts H). lia.
Qed.
Lemma parse_bytes_pj_of_prep : forall ts d, lexable ts = true -> prep ts = tokens_of d ->
  parse_bytes (render_pj ts) = Some d.
Proof. intros ts d Hl Hp. unfold parse_bytes. rewrite (lex_render_pj ts Hl), Hp. apply parse_tokens_of. Qed.

(* ------------------------------------------------------------------------------------------ *)
(* the protojson encoder writes the canonical serialisation, up to the optional space after commas *)

Lemma prep_csep : forall sp, prep (csep sp) = [TComma].
Proof. intros [|]; reflexivity. Qed.
Lemma pjoin_one : forall sp x, pjoin sp [x] = x.
Proof. intros sp x. cbn [pjoin]. apply app_nil_r. Qed.
Lemma pjoin_cons2 : forall sp x y r, pjoin sp (x :: y :: r) = x ++ csep sp ++ pjoin sp (y :: r).
Proof. reflexivity. Qed.
Lemma prep_pjoin : forall sp xs, prep (pjoin sp xs) = join (map prep xs).
Proof.
  intros sp. induction xs as [|x r IH]; [reflexivity|]. destruct r as [|y r'].
  - cbn [map]. rewrite pjoin_one, join_one. reflexivity.
  - cbn [map] in *. rewrite pjoin_cons2, join_cons2, !prep_app, prep_csep, IH. reflexivity.
Qed.
Lemma prep_pj_tokens : forall sp d, prep (pj_tokens sp d) = tokens_of d.
Proof.
  intros sp. induction d as [|b|s|s|l HF|l HF] using json_ind2; try reflexivity.
  - destruct b; reflexivity.
  - cbn [pj_tokens]. rewrite tokens_of_arr.
    change (TArrS :: ?x ++ [TArrE]) with ([TArrS] ++ x ++ [TArrE]) at 1. rewrite !prep_app, prep_pjoin.
    change (prep [TArrS]) with [TArrS]. change (prep [TArrE]) with [TArrE]. cbn [app]. f_equal. f_equal.
    rewrite !map_map. f_equal. apply map_ext_in. intros v Hv. rewrite Forall_forall in HF. apply HF, Hv.
  - cbn [pj_tokens]. rewrite tokens_of_obj.
    change (TObjS :: ?x ++ [TObjE]) with ([TObjS] ++ x ++ [TObjE]) at 1. rewrite !prep_app, prep_pjoin.
    change (prep [TObjS]) with [TObjS]. change (prep [TObjE]) with [TObjE]. cbn [app]. f_equal. f_equal.
    rewrite !map_map. f_equal. apply map_ext_in. intros kv Hv. rewrite Forall_forall in HF. unfold member_toks.
    change (TStr (fst kv) :: TColon :: pj_tokens sp (snd kv)) with ([TStr (fst kv); TColon] ++ pj_tokens sp (snd kv)).
    rewrite prep_app, (HF kv Hv). reflexivity.
Qed.

Lemma lexable_pjoin : forall sp xs, Forall LX xs -> LX (pjoin sp xs).
Proof.
  intros sp. induction xs as [|x r IH]; intros HF rest Hl Hc; [exact Hl|].
  inversion HF as [|x' r' Hx Hr]; subst. destruct r as [|y r'].
  - rewrite pjoin_one. apply Hx; assumption.
  - rewrite pjoin_cons2, <- !app_assoc. apply Hx.
    + destruct sp; cbn [csep app lexable andb all_ws is_ws code]; apply (IH Hr); assumption.
    + destruct sp; reflexivity.
Qed.
Lemma lexable_pj_tokens : forall sp d, nums_ok d = true -> LX (pj_tokens sp d).
Proof.
  intros sp. induction d as [|b|s|s|l HF|l HF] using json_ind2; intros Hn rest Hl Hc.
  - exact Hl.
  - destruct b; exact Hl.
  - cbn [pj_tokens tokens_of app lexable]. cbn [nums_ok] in Hn. rewrite Hn, Hc, Hl. reflexivity.
  - exact Hl.
  - cbn [pj_tokens]. cbn [app lexable andb]. rewrite <- app_assoc. cbn [app].
    apply lexable_pjoin; [|cbn [lexable andb]; exact Hl|reflexivity].
    cbn [nums_ok] in Hn. rewrite forallb_forall in Hn. rewrite Forall_forall in HF.
    apply Forall_forall. intros x Hx. apply in_map_iff in Hx. destruct Hx as [v [<- Hv]].
    apply (HF v Hv), (Hn v Hv).
  - cbn [pj_tokens]. cbn [app lexable andb]. rewrite <- app_assoc. cbn [app].
    apply lexable_pjoin; [|cbn [lexable andb]; exact Hl|reflexivity].
    cbn [nums_ok] in Hn. rewrite forallb_forall in Hn. rewrite Forall_forall in HF.
    apply Forall_forall. intros x Hx. apply in_map_iff in Hx. destruct Hx as [kv [<- Hv]].
    intros rest' Hl' Hc'. cbn [app lexable andb].
    apply (HF kv Hv (Hn kv Hv)); assumption.
Qed.

(* whatever tree protojson walks, with or without the spaces: the reader returns the tree *)
Theorem protojson_bytes : forall sp d, nums_ok d = true -> parse_bytes (render_pj (pj_tokens sp d)) = Some d.
Proof.
  intros sp d Hn. apply parse_bytes_pj_of_prep; [|apply prep_pj_tokens].
  rewrite <- (app_nil_r (pj_tokens sp d)). apply (lexable_pj_tokens sp d Hn); reflexivity.
Qed.

(* ------------------------------------------------------------------------------------------ *)
(* induction over protobuf values *)

Section PvInd.
  Variable P : pv -> Prop.
  Hypothesis Hstr : forall f s, P (PStr f s).
  Hypothesis Hi64 : forall z, P (PI64 z).
  Hypothesis Hdbl : forall b, P (PDbl b).
  Hypothesis Hlist : forall l, Forall P l -> P (PList l).
  Hypothesis Hmsg : forall l, Forall (fun kv => P (snd kv)) l -> P (PMsg l).
  Fixpoint pv_ind2 (v : pv) : P v :=
    match v with
    | PStr f s => Hstr f s
    | PI64 z => Hi64 z
    | PDbl b => Hdbl b
    | PList l => Hlist l ((fix go (l : list pv) : Forall P l :=
                             match l with
                             | [] => Forall_nil _
                             | x :: r => Forall_cons x (pv_ind2 x) (go r)
                             end) l)
    | PMsg l => Hmsg l ((fix go (l : list (string * pv)) : Forall (fun kv => P (snd kv)) l :=
                           match l with
                           | [] => Forall_nil _
                           | x :: r => Forall_cons x (pv_ind2 (snd x)) (go r)
                           end) l)
    end.
End PvInd.

(* every number protojson prints is a JSON number: NaN and the infinities travel as strings *)
Lemma nums_ok_pj_double : forall bits, nums_ok (pj_double bits) = true.
Proof.
  intros bits. unfold pj_double. pose proof (gojson_float_text_num_ok bits) as H.
  destruct (fl_of_bits bits) as [|[|]|s|s m e]; try reflexivity; cbn [nums_ok]; apply H; reflexivity.
Qed.
Lemma nums_ok_pj_json : forall v, nums_ok (pj_json v) = true.
Proof.
  induction v as [f s|z|b|l HF|l HF] using pv_ind2; try reflexivity.
  - apply nums_ok_pj_double.
  - cbn [pj_json nums_ok]. apply forallb_forall. intros d Hd. apply in_map_iff in Hd. destruct Hd as [x [<- Hx]].
    rewrite Forall_forall in HF. apply HF, Hx.
  - cbn [pj_json nums_ok]. apply forallb_forall. intros d Hd. apply in_map_iff in Hd. destruct Hd as [x [<- Hx]].
    rewrite Forall_forall in HF. cbn [snd]. apply HF, Hx.
Qed.

(* writeResponse, every message whose strings are UTF-8: one document, the protojson mapping of the message *)
Theorem pyro_ok_bytes : forall sp v, pj_bad v = None -> parse_bytes (pyro_body sp v) = Some (pj_json v).
Proof.
  intros sp v Hb. unfold pyro_body, pyro_ok_tokens. rewrite Hb. apply protojson_bytes, nums_ok_pj_json.
Qed.
(* writeResponse, a message holding a string that is not UTF-8: one JSON string, the text of the failed Marshal *)
Theorem pyro_refusal_bytes : forall sp v f, pj_bad v = Some f ->
  pyro_status v = 500%N /\ parse_bytes (pyro_body sp v) = Some (JStr (pj_err_msg sp f)).
Proof.
  intros sp v f Hb. unfold pyro_body, pyro_status. rewrite Hb. split; [reflexivity|].
  destruct sp; destruct f; vm_compute; reflexivity.
Qed.

(* ------------------------------------------------------------------------------------------ *)
(* the endpoints *)

Lemma first_some_none : forall A (l : list (option A)), (forall x, In x l -> x = None) -> pj_first_some l = None.
Proof.
  intros A. induction l as [|x r IH]; intros H; [reflexivity|]. cbn [pj_first_some].
  rewrite (H x (or_introl eq_refl)). apply IH. intros y Hy. apply H. right. exact Hy.
Qed.
Lemma pj_bad_strs : forall f names, forallb utf8_ok names = true -> pj_bad (PList (map (PStr f) names)) = None.
Proof.
  intros f names H. cbn [pj_bad]. apply first_some_none. intros x Hx. rewrite map_map in Hx.
  apply in_map_iff in Hx. destruct Hx as [s [<- Hs]]. cbn [pj_bad]. rewrite forallb_forall in H. rewrite (H s Hs). reflexivity.
Qed.
Lemma pj_bad_rep_strs : forall k f names, forallb utf8_ok names = true -> pj_bad (PMsg (f_rep k (map (PStr f) names))) = None.
Proof.
  intros k f names H. destruct names as [|n r]; [reflexivity|].
  change (pj_bad (PMsg (f_rep k (map (PStr f) (n :: r))))) with (pj_first_some [pj_bad (PList (map (PStr f) (n :: r)))]).
  rewrite (pj_bad_strs f (n :: r) H). reflexivity.
Qed.

Definition doc_label_names (names : list string) : json := JObj [("names", JArr (map JStr (names_or_blank names)))].
Definition doc_label_values (names : list string) : json :=
  match names with [] => JObj [] | _ => JObj [("names", JArr (map JStr names))] end.

Lemma utf8_ok_names_or_blank : forall names, forallb utf8_ok names = true -> forallb utf8_ok (names_or_blank names) = true.
Proof. intros [|n r] H; [reflexivity|exact H]. Qed.
Lemma pj_json_strs : forall f names, map pj_json (map (PStr f) names) = map JStr names.
Proof. intros f names. rewrite map_map. reflexivity. Qed.

Theorem label_names_bytes : forall sp names, forallb utf8_ok names = true ->
  parse_bytes (pyro_body sp (msg_label_names names)) = Some (doc_label_names names).
Proof.
  intros sp names H. unfold msg_label_names. rewrite pyro_ok_bytes.
  - unfold doc_label_names. destruct names as [|n r]; [reflexivity|]. cbn [names_or_blank map f_rep pj_json fst snd].
    change (pj_json (PStr FNamesN n) :: map pj_json (map (PStr FNamesN) r)) with (map pj_json (map (PStr FNamesN) (n :: r))).
    rewrite pj_json_strs. reflexivity.
  - apply pj_bad_rep_strs, utf8_ok_names_or_blank, H.
Qed.
Theorem label_values_bytes : forall sp names, forallb utf8_ok names = true ->
  parse_bytes (pyro_body sp (msg_label_values names)) = Some (doc_label_values names).
Proof.
  intros sp names H. unfold msg_label_values. rewrite pyro_ok_bytes.
  - unfold doc_label_values. destruct names as [|n r]; [reflexivity|]. cbn [map f_rep pj_json fst snd].
    change (pj_json (PStr FNamesV n) :: map pj_json (map (PStr FNamesV) r)) with (map pj_json (map (PStr FNamesV) (n :: r))).
    rewrite pj_json_strs. reflexivity.
  - apply pj_bad_rep_strs, H.
Qed.
Theorem series_bytes : forall sp rows, pj_bad (msg_series rows) = None ->
  parse_bytes (pyro_body sp (msg_series rows)) = Some (pj_json (msg_series rows)).
Proof. intros sp rows. apply pyro_ok_bytes. Qed.
Theorem profile_types_bytes : forall sp rows, pj_bad (msg_profile_types rows) = None ->
  parse_bytes (pyro_body sp (msg_profile_types rows)) = Some (pj_json (msg_profile_types rows)).
Proof. intros sp rows. apply pyro_ok_bytes. Qed.
Theorem select_series_bytes : forall sp rows, pj_bad (msg_select_series rows) = None ->
  parse_bytes (pyro_body sp (msg_select_series rows)) = Some (pj_json (msg_select_series rows)).
Proof. intros sp rows. apply pyro_ok_bytes. Qed.

(* the property at full strength - any bytes - fails: one name that is not UTF-8 and no name comes back *)
Theorem pyro_any_bytes_refuted : exists names, forall sp,
  parse_bytes (pyro_body sp (msg_label_values names)) <> Some (sanitize_doc (pj_json (msg_label_values names))).
Proof.
  exists ["job"; String (chr 97) (str1 255)]. intros [|]; vm_compute; discriminate.
Qed.

(* SelectSeries: every row's point is in the answer once, in the order of the rows *)
Definition row_point (r : prow) : N * Z := (pr_bits r, pr_ts r).
Lemma flat_points_add : forall acc p, acc <> [] ->
  flat_map ps_points (rev (add_point acc p)) = flat_map ps_points (rev acc) ++ [p].
Proof.
  intros [|s r] p H; [congruence|]. cbn [add_point rev]. rewrite !flat_map_app. cbn [flat_map ps_points].
  rewrite !app_nil_r, app_assoc. reflexivity.
Qed.
Lemma select_loop_points : forall rows lastFp acc, (lastFp <> 0%N -> acc <> []) ->
  flat_map ps_points (select_loop rows lastFp acc) = flat_map ps_points (rev acc) ++ map row_point rows.
Proof.
  induction rows as [|r rest IH]; intros lastFp acc Hinv.
  - cbn [select_loop map]. now rewrite app_nil_r.
  - cbn [select_loop map]. destruct (negb (N.eqb lastFp (pr_fp r)) || N.eqb lastFp 0) eqn:Hc.
    + rewrite IH by (intros _; discriminate). cbn [rev]. rewrite flat_map_app. cbn [flat_map ps_points].
      rewrite app_nil_r, <- app_assoc. reflexivity.
    + apply orb_false_iff in Hc. destruct Hc as [_ Hz]. apply N.eqb_neq in Hz.
      rewrite IH.
      * rewrite (flat_points_add acc _ (Hinv Hz)), <- app_assoc. reflexivity.
      * intros _. destruct acc as [|s a]; [exact (Hinv Hz)|discriminate].
Qed.
Theorem select_series_points : forall rows, flat_map ps_points (select_series rows) = map row_point rows.
Proof. intros rows. unfold select_series. rewrite select_loop_points; [reflexivity|congruence]. Qed.

(* ------------------------------------------------------------------------------------------ *)
(* RenderDiff *)

Lemma nums_ok_jints : forall l, nums_ok (fb_jints l) = true.
Proof. intros l. unfold fb_jints. apply nums_ok_jslice. intros z. cbn [jint nums_ok]. apply int_text_num_ok. Qed.
Lemma nums_ok_rows : forall l, nums_ok (jslice fb_jints l) = true.
Proof. intros l. apply nums_ok_jslice, nums_ok_jints. Qed.
Lemma nums_ok_timeline : forall t, nums_ok (fb_timeline_val t) = true.
Proof.
  intros t. cbn [fb_timeline_val nums_ok forallb snd jint]. rewrite !int_text_num_ok, nums_ok_jints.
  destruct (tl_marks t) as [m|]; [|reflexivity]. cbn [fb_jopt nums_ok andb].
  rewrite (proj2 (forallb_forall _ _)); [reflexivity|]. intros kv Hkv. apply in_map_iff in Hkv.
  destruct Hkv as [x [<- _]]. cbn [snd jint nums_ok]. apply int_text_num_ok.
Qed.
Lemma nums_ok_heatmap : forall h, nums_ok (fb_heatmap_val h) = true.
Proof. intros h. cbn [fb_heatmap_val nums_ok forallb snd jint]. rewrite !int_text_num_ok, nums_ok_rows. reflexivity. Qed.
Lemma nums_ok_fb_v1 : forall f, nums_ok (fb_v1_val f) = true.
Proof.
  intros f. cbn [fb_v1_val nums_ok forallb snd jint]. rewrite !int_text_num_ok, nums_ok_rows.
  rewrite (nums_ok_jslice _ JStr); reflexivity.
Qed.
Lemma nums_ok_fb_meta : forall m, nums_ok (fb_meta_val m) = true.
Proof. intros m. cbn [fb_meta_val nums_ok forallb snd jint]. rewrite int_text_num_ok. reflexivity. Qed.
Lemma nums_ok_jopt : forall A (f : A -> json) o, (forall x, nums_ok (f x) = true) -> nums_ok (fb_jopt f o) = true.
Proof. intros A f [x|] H; [apply H|reflexivity]. Qed.
Lemma nums_ok_fb_profile : forall p, nums_ok (fb_profile_val p) = true.
Proof.
  intros p. cbn [fb_profile_val nums_ok forallb snd jint]. rewrite !int_text_num_ok, nums_ok_fb_meta.
  rewrite (nums_ok_jopt _ fb_v1_val _ nums_ok_fb_v1), (nums_ok_jopt _ fb_timeline_val _ nums_ok_timeline),
    (nums_ok_jopt _ fb_heatmap_val _ nums_ok_heatmap).
  rewrite nums_ok_jopt; [reflexivity|]. intros g. cbn [nums_ok]. apply forallb_forall. intros kv Hkv.
  apply in_map_iff in Hkv. destruct Hkv as [x [<- _]]. cbn [snd]. apply nums_ok_timeline.
Qed.

(* a value written by Encoder.Encode: the value and a line break *)
Lemma lexable_obj_then : forall l rest, nums_ok (JObj l) = true -> lexable rest = true ->
  lexable (tokensJ_of (JObj l) ++ rest) = true.
Proof.
  intros l rest Hn Hl. cbn [tokensJ_of]. cbn [app lexable andb]. rewrite <- app_assoc. cbn [app].
  apply lexable_join; [|cbn [lexable andb]; exact Hl|reflexivity].
  cbn [nums_ok] in Hn. rewrite forallb_forall in Hn.
  apply Forall_forall. intros x Hx. apply in_map_iff in Hx. destruct Hx as [kv [<- Hv]].
  intros rest' Hl' Hc'. cbn [app lexable andb]. apply (lexable_tokensJ (snd kv) (Hn kv Hv)); assumption.
Qed.
Theorem encoder_encode_bytes : forall l, nums_ok (JObj l) = true ->
  parse_bytes (render (tokensJ_of (JObj l) ++ [TWs fb_nl])) = Some (sanitize_doc (JObj l)).
Proof.
  intros l Hn. apply parse_bytes_of_prep.
  - apply lexable_obj_then; [exact Hn|reflexivity].
  - rewrite prep_app. change (prep [TWs fb_nl]) with (@nil token). rewrite app_nil_r. apply prep_tokensJ.
Qed.
Theorem render_diff_bytes : forall p, parse_bytes (render (enc_render_diff p)) = Some (doc_render_diff p).
Proof.
  intros p. unfold enc_render_diff, doc_render_diff. pose proof (nums_ok_fb_profile p) as Hn.
  unfold fb_profile_val in *. apply encoder_encode_bytes, Hn.
Qed.

(* ------------------------------------------------------------------------------------------ *)
(* defaultError: strconv.Quote *)

Lemma lex_str_goq_char : forall c r, goq_json_char c = true ->
  lex_str (goq_char c ++ r)%string = push (String c EmptyString) (lex_str r).
Proof.
  intros c r. destruct c as [b0 b1 b2 b3 b4 b5 b6 b7].
  destruct b0, b1, b2, b3, b4, b5, b6, b7; intros H; try discriminate H; reflexivity.
Qed.
Lemma lex_str_goq_body : forall s rest, goq_json_safe s = true ->
  lex_str (goq_body s ++ String (chr 34) rest)%string = Some (s, rest).
Proof.
  induction s as [|c s IH]; intros rest H; [reflexivity|].
  cbn [goq_json_safe] in H. apply andb_prop in H. destruct H as [Hc Hs].
  cbn [goq_body]. rewrite sapp_assoc, (lex_str_goq_char c _ Hc), (IH rest Hs). reflexivity.
Qed.
(* on messages made of printable ASCII and \b \t \n \f \r what strconv.Quote writes is the JSON string of the message *)
Theorem go_quote_safe_bytes : forall msg, goq_json_safe msg = true -> parse_bytes (go_quote_ascii msg) = Some (JStr msg).
Proof.
  intros msg H. unfold parse_bytes, lex_bytes, go_quote_ascii.
  change (lex (S (String.length (String (chr 34) ?x))) (String (chr 34) ?x)) with
    (match lex_str x with Some (y, r') => tcons (TStr y) (lex (String.length (String (chr 34) x)) r') | None => None end).
  change (str1 34) with (String (chr 34) EmptyString). rewrite (lex_str_goq_body msg EmptyString H).
  reflexivity.
Qed.
(* and not beyond: an echoed control byte makes the error body unreadable *)
Theorem go_quote_not_json : exists msg, ascii_only msg = true /\ parse_bytes (go_quote_ascii msg) = None.
Proof. exists ("invalid query format: " ++ str1 1)%string. split; vm_compute; reflexivity. Qed.

(* ------------------------------------------------------------------------------------------ *)
(* examples: the hypotheses are met by non-trivial values; bytes as the libraries write them *)

Definition ex_names : list string :=
  ["job"; ""; "<b>&"; String (chr 8) (String (chr 1) (str1 127)); String (chr 226) (String (chr 128) (str1 168)); "a""\"].
Example label_names_example :
  forallb utf8_ok ex_names = true /\
  pyro_body true (msg_label_names ex_names) =
    ("{""names"":[""job"", """", ""<b>&"", ""\b\u0001" ++ str1 127 ++ """, """ ++
     String (chr 226) (String (chr 128) (str1 168)) ++ """, ""a\""\\""]}")%string /\
  pyro_body false (msg_label_names []) = "{""names"":[""""]}" /\
  pyro_body false (msg_label_values []) = "{}".
Proof. vm_compute. repeat split. Qed.

Definition ex_srows : list srow :=
  [{| sr_tp := "cpu"; sr_pt := "pt"; sr_pu := ""; sr_st := "st"; sr_su := "su"; sr_tags := [("k", "v"); ("<", str1 1); ("", "")] |};
   {| sr_tp := ""; sr_pt := ""; sr_pu := ""; sr_st := ""; sr_su := ""; sr_tags := [] |}].
Example series_example :
  pj_bad (msg_series ex_srows) = None /\
  pyro_body false (msg_series ex_srows) =
    "{""labelsSet"":[{""labels"":[{""name"":""__name__"",""value"":""cpu""},{""name"":""__period_type__"",""value"":""pt""},{""name"":""__period_unit__""},{""name"":""__sample_type__"",""value"":""st""},{""name"":""__sample_unit__"",""value"":""su""},{""name"":""__profile_type__"",""value"":""cpu:st:su:pt:""},{""name"":""k"",""value"":""v""},{""name"":""<"",""value"":""\u0001""},{}]},{""labels"":[{""name"":""__name__""},{""name"":""__period_type__""},{""name"":""__period_unit__""},{""name"":""__sample_type__""},{""name"":""__sample_unit__""},{""name"":""__profile_type__"",""value"":""::::""}]}]}" /\
  pj_bad (msg_profile_types ex_srows) = None /\
  pyro_body false (msg_profile_types ex_srows) =
    "{""profileTypes"":[{""ID"":""cpu:st:su:pt:"",""name"":""cpu"",""sampleType"":""st"",""sampleUnit"":""su"",""periodType"":""pt""},{""ID"":""::::""}]}" /\
  pyro_body false (msg_profile_types []) = "{""profileTypes"":[{}]}".
Proof. vm_compute. repeat split. Qed.

(* 1.5 at 1000 and 2.5 at 2000 of fingerprint 7; fingerprint 0 opens a series per row; NaN, -Infinity, 1e21, -0 *)
Definition ex_prows : list prow :=
  [{| pr_ts := 1000; pr_fp := 7; pr_labels := [("k", "v")]; pr_bits := 4609434218613702656 |};
   {| pr_ts := 2000; pr_fp := 7; pr_labels := [("k", "v")]; pr_bits := 4612811918334230528 |};
   {| pr_ts := -5; pr_fp := 0; pr_labels := []; pr_bits := 0 |};
   {| pr_ts := 0; pr_fp := 0; pr_labels := []; pr_bits := 9221120237041090560 |};
   {| pr_ts := 9223372036854775807; pr_fp := 1; pr_labels := []; pr_bits := 18442240474082181120 |};
   {| pr_ts := 0; pr_fp := 1; pr_labels := []; pr_bits := 4921056587992461136 |};
   {| pr_ts := 0; pr_fp := 1; pr_labels := []; pr_bits := 9223372036854775808 |}].
Example select_series_example :
  pj_bad (msg_select_series ex_prows) = None /\
  pyro_body true (msg_select_series ex_prows) =
    "{""series"":[{""labels"":[{""name"":""k"", ""value"":""v""}], ""points"":[{""value"":1.5, ""timestamp"":""1000""}, {""value"":2.5, ""timestamp"":""2000""}]}, {""points"":[{""timestamp"":""-5""}]}, {""points"":[{""value"":""NaN""}]}, {""points"":[{""value"":""-Infinity"", ""timestamp"":""9223372036854775807""}, {""value"":1e+21}, {""value"":-0}]}]}".
Proof. vm_compute. split; reflexivity. Qed.

Example refusal_example :
  pj_bad (msg_series [{| sr_tp := "cpu"; sr_pt := ""; sr_pu := ""; sr_st := ""; sr_su := ""; sr_tags := [("k", str1 255)] |}]) = Some FPairValue /\
  pyro_body true (msg_label_values ["a"; str1 255]) =
    (str1 34 ++ "proto:" ++ nbsp ++ "field types.v1.LabelValuesResponse.names contains invalid UTF-8" ++ str1 34)%string /\
  pyro_body false (msg_label_values ["a"; str1 255]) = """proto: field types.v1.LabelValuesResponse.names contains invalid UTF-8""".
Proof. vm_compute. repeat split. Qed.

Definition ex_profile : fb_profile :=
  {| fp_fb := Some {| fb_names := Some ["total"; ("main<" ++ str1 1 ++ str1 255 ++ ">")%string]; fb_levels := Some [Some [0; 5; -1; 9223372036854775807]; Some []; None];
                      fb_ticks := 10; fb_maxself := -4 |};
     fp_meta := {| md_format := "double"; md_spy := ""; md_rate := 1000000000; md_units := "samples"; md_name := "cpu" |};
     fp_timeline := Some {| tl_start := 1; tl_samples := None; tl_delta := 0; tl_marks := Some [(-1, 2); (10, 3)] |};
     fp_groups := Some [("g", {| tl_start := 0; tl_samples := Some [18446744073709551615]; tl_delta := 0; tl_marks := None |})];
     fp_heatmap := None; fp_left := 5; fp_right := 5 |}%Z.
Example render_diff_example :
  render (enc_render_diff ex_profile) =
    ("{""flamebearer"":{""names"":[""total"",""main\u003c\u0001\ufffd\u003e""],""levels"":[[0,5,-1,9223372036854775807],[],null],""numTicks"":10,""maxSelf"":-4},""metadata"":{""format"":""double"",""spyName"":"""",""sampleRate"":1000000000,""units"":""samples"",""name"":""cpu""},""timeline"":{""startTime"":1,""samples"":null,""durationDelta"":0,""watermarks"":{""-1"":2,""10"":3}},""groups"":{""g"":{""startTime"":0,""samples"":[18446744073709551615],""durationDelta"":0,""watermarks"":null}},""heatmap"":null,""leftTicks"":5,""rightTicks"":5}" ++ fb_nl)%string.
Proof. vm_compute. reflexivity. Qed.

Example error_body_examples :
  goq_json_safe "Missing required parameter: leftFrom" = true /\
  go_quote_ascii ("invalid query format: " ++ str1 1 ++ str1 7 ++ str1 11 ++ str1 127) = """invalid query format: \x01\a\v\x7f""" /\
  parse_bytes (go_quote_ascii ("Invalid value for leftFrom: " ++ str1 1 ++ "x")) = None /\
  parse_bytes (gojson_quote ("invalid query format: " ++ str1 1 ++ str1 255)) =
    Some (JStr ("invalid query format: " ++ str1 1 ++ ufffd_bytes)).
Proof. vm_compute. repeat split. Qed.

(* defaultError after the repair: the body is one JSON string, the message (ill-formed UTF-8 replaced by U+FFFD), for EVERY message *)
Theorem error_body_bytes : forall msg, parse_bytes (gojson_quote msg) = Some (JStr (sanitize msg)).
Proof.
  intros msg. pose proof (marshal_value_bytes (JStr msg) eq_refl) as H. cbn [tokensJ_of render render_tok sanitize_doc] in H.
  rewrite app_nil_r_s in H. exact H.
Qed.
