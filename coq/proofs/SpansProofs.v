(* Proofs about the trace write/read path model (model/Spans.v), property C06. *)
From Coq Require Import List ZArith NArith Bool String Ascii Lia Permutation.
From Qryn Require Import model.Spans.
Import ListNotations.
Open Scope string_scope.
Open Scope Z_scope.

(* ================================================================== generic list / option lemmas *)
Lemma mapM_app {A B} (f : A -> option B) (a b : list A) :
  mapM f (a ++ b)%list =
  match mapM f a, mapM f b with Some x, Some y => Some (x ++ y)%list | _, _ => None end.
Proof.
  induction a as [|x a IH]; cbn [mapM app].
  - destruct (mapM f b); reflexivity.
  - destruct (f x) as [y|]; [|reflexivity]. rewrite IH.
    destruct (mapM f a); [|reflexivity]. destruct (mapM f b); reflexivity.
Qed.

Lemma mapM_Forall2 {A B C} (f : A -> option B) (g : A -> option C) (R : C -> B -> Prop) :
  (forall x y z, f x = Some y -> g x = Some z -> R z y) ->
  forall l ys zs, mapM f l = Some ys -> mapM g l = Some zs -> Forall2 R zs ys.
Proof.
  intros H. induction l as [|x l IH]; intros ys zs Hf Hg; cbn [mapM] in Hf, Hg.
  - inversion Hf; inversion Hg. constructor.
  - destruct (f x) as [y|] eqn:Ef; [|discriminate]. destruct (mapM f l) as [ys'|]; [|discriminate].
    destruct (g x) as [z|] eqn:Eg; [|discriminate]. destruct (mapM g l) as [zs'|]; [|discriminate].
    inversion Hf; inversion Hg; subst. constructor; [eapply H; eassumption|]. apply IH; reflexivity.
Qed.

Lemma mapM_map {A B C} (f : B -> option C) (g : A -> B) (l : list A) :
  mapM f (map g l) = mapM (fun x => f (g x)) l.
Proof.
  induction l as [|x l IH]; cbn [mapM map]; [reflexivity|]. rewrite IH. reflexivity.
Qed.

Lemma mapM_length {A B} (f : A -> option B) l ys : mapM f l = Some ys -> List.length ys = List.length l.
Proof.
  revert ys. induction l as [|x l IH]; intros ys H; cbn [mapM] in H.
  - inversion H. reflexivity.
  - destruct (f x); [|discriminate]. destruct (mapM f l) as [ys'|]; [|discriminate].
    inversion H. cbn. f_equal. apply IH. reflexivity.
Qed.

Lemma forallb_app {A} (p : A -> bool) a b : forallb p (a ++ b)%list = forallb p a && forallb p b.
Proof. induction a as [|x a IH]; cbn; [reflexivity|]. rewrite IH. apply andb_assoc. Qed.

(* ================================================================== strings *)
Lemma substring_all (s : string) : substring 0 (String.length s) s = s.
Proof. induction s as [|c s IH]; cbn; [reflexivity|]. now rewrite IH. Qed.

Lemma substring_full n s : String.length s = n -> substring 0 n s = s.
Proof. intros <-. apply substring_all. Qed.

Lemma eqb_refl' s : String.eqb s s = true.
Proof. apply String.eqb_refl. Qed.

(* ================================================================== maps (upsert / lookup / of_list) *)
Section MAPS.
  Context {A : Type}.
  Implicit Types m : list (string * A).

  Lemma lookup_upsert_same k (v : A) m : lookup k (upsert k v m) = Some v.
  Proof.
    induction m as [|[k' v'] m IH]; cbn [upsert lookup].
    - now rewrite String.eqb_refl.
    - destruct (String.eqb k k') eqn:E; cbn [lookup]; rewrite ?String.eqb_refl, ?E; [reflexivity|exact IH].
  Qed.

  Lemma lookup_upsert_other k k' (v : A) m : k <> k' -> lookup k (upsert k' v m) = lookup k m.
  Proof.
    intros Hne. induction m as [|[k2 v2] m IH]; cbn [upsert lookup].
    - destruct (String.eqb_spec k k'); [contradiction|reflexivity].
    - destruct (String.eqb_spec k' k2) as [->|Hn2]; cbn [lookup].
      + destruct (String.eqb_spec k k2); [contradiction|reflexivity].
      + destruct (String.eqb_spec k k2); [reflexivity|exact IH].
  Qed.

  Lemma upsert_keys_in k (v : A) m x : In x (map fst (upsert k v m)) <-> x = k \/ In x (map fst m).
  Proof.
    induction m as [|[k' v'] m IH]; cbn [upsert map fst In].
    - intuition.
    - destruct (String.eqb_spec k k') as [->|Hne]; cbn [map fst In]; [intuition|]. rewrite IH. intuition.
  Qed.

  Lemma upsert_nodup k (v : A) m : NoDup (map fst m) -> NoDup (map fst (upsert k v m)).
  Proof.
    induction m as [|[k' v'] m IH]; cbn [upsert map fst]; intros H.
    - constructor; [intros []|constructor].
    - inversion H as [|? ? Hnin Hnd]; subst.
      destruct (String.eqb_spec k k') as [->|Hne]; cbn [map fst].
      + constructor; assumption.
      + constructor; [|apply IH; assumption]. rewrite upsert_keys_in. intros [E|E]; [congruence|contradiction].
  Qed.

  Lemma of_list_fold_nodup (l : list (string * A)) m :
    NoDup (map fst m) -> NoDup (map fst (fold_left (fun m kv => upsert (fst kv) (snd kv) m) l m)).
  Proof. revert m. induction l as [|[k v] l IH]; intros m H; cbn [fold_left]; [exact H|]. apply IH, upsert_nodup, H. Qed.

  Lemma of_list_nodup (l : list (string * A)) : NoDup (map fst (of_list l)).
  Proof. apply of_list_fold_nodup. constructor. Qed.

  Lemma lookup_some_in k m (v : A) : lookup k m = Some v -> In (k, v) m.
  Proof.
    induction m as [|[k' v'] m IH]; cbn [lookup]; [discriminate|].
    destruct (String.eqb_spec k k') as [->|Hne]; intros H.
    - inversion H. left. reflexivity.
    - right. apply IH, H.
  Qed.

  Lemma lookup_none_notin k m : lookup k m = None <-> ~ In k (map fst m).
  Proof.
    induction m as [|[k' v'] m IH]; cbn [lookup map fst In]; [intuition|].
    destruct (String.eqb_spec k k') as [->|Hne]; [split; [discriminate|intros H; exfalso; apply H; now left]|].
    rewrite IH. intuition congruence.
  Qed.

  Lemma lookup_app k (a b : list (string * A)) :
    lookup k (a ++ b)%list = match lookup k a with Some v => Some v | None => lookup k b end.
  Proof. induction a as [|[k2 v2] a IH]; cbn [app lookup]; [reflexivity|]. destruct (String.eqb k k2); [reflexivity|exact IH]. Qed.

  (* last occurrence wins *)
  Lemma fold_upsert_lookup (l : list (string * A)) m k :
    lookup k (fold_left (fun m kv => upsert (fst kv) (snd kv) m) l m) =
    match lookup k (rev l) with Some v => Some v | None => lookup k m end.
  Proof.
    revert m. induction l as [|[k' v'] l IH]; intros m; cbn [fold_left rev]; [reflexivity|].
    rewrite IH. cbn [fst snd].
    rewrite lookup_app. cbn [lookup]. destruct (lookup k (rev l)); [reflexivity|].
    destruct (String.eqb_spec k k') as [->|Hne]; [apply lookup_upsert_same|apply lookup_upsert_other, Hne].
  Qed.

  Lemma of_list_lookup (l : list (string * A)) k : lookup k (of_list l) = lookup k (rev l).
  Proof. unfold of_list. rewrite fold_upsert_lookup. destruct (lookup k (rev l)); reflexivity. Qed.
End MAPS.

Lemma get_attr_lookup k (a : attrs) : get_attr k a = lookup k a.
Proof. induction a as [|[k' v] a IH]; cbn; [reflexivity|]. now rewrite IH. Qed.

Lemma lookup_in_keys {A} k (m : list (string * A)) : lookup k m <> None <-> In k (map fst m).
Proof.
  rewrite lookup_none_notin. split; [|tauto].
  intros H. destruct (in_dec string_dec k (map fst m)); [assumption|contradiction].
Qed.

Lemma of_list_has_key {A} (l : list (string * A)) k : lookup k l <> None -> lookup k (of_list l) <> None.
Proof.
  rewrite of_list_lookup, !lookup_in_keys, map_rev. intros H. apply in_rev in H. exact H.
Qed.

(* ================================================================== permutation checker *)
Lemma perm_eqb_refl {A} (eqb : A -> A -> bool) : (forall x, eqb x x = true) -> forall l, perm_eqb eqb l l = true.
Proof. intros H. induction l as [|x l IH]; cbn; [reflexivity|]. now rewrite H. Qed.

(* ================================================================== populate *)
Lemma populate_has_service a : get_attr k_service (populate a) <> None.
Proof.
  unfold populate.
  set (a1 := match get_attr k_service a with None => _ | Some _ => a end).
  assert (H1 : get_attr k_service a1 <> None).
  { subst a1. destruct (get_attr k_service a) eqn:E; [congruence|].
    rewrite get_attr_lookup. apply lookup_in_keys. rewrite map_app. apply in_or_app. right. now left. }
  destruct (get_attr k_remote a1); [exact H1|].
  rewrite get_attr_lookup in *. apply lookup_in_keys. apply lookup_in_keys in H1.
  rewrite map_app. apply in_or_app. now left.
Qed.

(* ================================================================== what the property says, as relations *)
Definition kv_of (a : arow) : string * string := (a_key a, a_val a).

(* the trace row of a pushed span *)
Definition row_of (p : pushed) (r : trow) : Prop :=
  t_trace r = p_trace p /\ t_span r = p_span p /\ t_parent r = p_parent p /\ t_name r = p_name p /\
  t_ts r = p_ts p /\ t_dur r = p_dur p /\ t_service r = p_service p /\
  String.length (t_trace r) = 16%nat /\ String.length (t_span r) = 8%nat.

(* the tag rows of a pushed span: every row bears the span's ids and times, and the (key, value) pairs are
   the span's flattened attributes (order immaterial: for OTLP it comes from a Go map) *)
Definition tags_of (p : pushed) (tags : list arow) : Prop :=
  (forall a, In a tags -> a_trace a = p_trace p /\ a_span a = p_span p /\ a_ts a = p_ts p /\ a_dur a = p_dur p /\
                          a_date a = date_of (p_ts p)) /\
  Permutation (map kv_of tags) (p_tags p).

Definition span_rows_of (p : pushed) (sr : span_rows) : Prop := row_of p (fst sr) /\ tags_of p (snd sr).

(* what the read path returns for the stored row of a pushed span *)
Definition reads_back (p : pushed) (o : option rspan) : Prop :=
  exists r, o = Some r /\
    rs_trace r = p_trace p /\ rs_span r = p_span p /\ rs_parent r = p_parent p /\
    rs_name r = p_name p /\ rs_start r = to_u64 (p_ts p) /\ rs_end r = to_u64 (wrap64 (p_ts p + p_dur p)) /\
    (forall k v, In (k, v) (p_attrs p) -> In (k, v) (rs_attrs r)) /\
    (p_ordered p = false -> rs_attrs r = p_attrs p) /\
    (p_ordered p = true -> exists extra, rs_attrs r = (p_attrs p ++ extra)%list /\ Forall (fun kv => synth_key (fst kv) = true) extra).

(* ================================================================== on_span *)
Lemma on_span_some ptype tid sid ts dur parent name svc pl kv row tags :
  on_span ptype tid sid ts dur parent name svc pl kv = Some (row, tags) ->
  String.length tid = 16%nat /\ String.length sid = 8%nat /\
  row = {| t_trace := tid; t_span := sid; t_parent := parent; t_name := name; t_ts := ts; t_dur := dur;
           t_service := svc; t_ptype := ptype; t_payload := pl |} /\
  map kv_of tags = kv /\
  (forall a, In a tags -> a_trace a = tid /\ a_span a = sid /\ a_ts a = ts /\ a_dur a = dur /\ a_date a = date_of ts).
Proof.
  unfold on_span, id_widths_ok. intros H.
  destruct (Nat.eqb_spec (String.length tid) 16) as [Ht|]; [|discriminate].
  destruct (Nat.eqb_spec (String.length sid) 8) as [Hs|]; [|discriminate].
  cbn [andb negb] in H. inversion H; subst. split; [exact Ht|]. split; [exact Hs|]. split; [reflexivity|]. split.
  - rewrite map_map. unfold kv_of. cbn. induction kv as [|[k v] kv IH]; cbn; [reflexivity|]. now rewrite IH.
  - intros a Ha. apply in_map_iff in Ha. destruct Ha as [e [<- _]]. cbn. repeat split.
Qed.

(* ================================================================== OTLP *)
Lemma otlp_span_pushed ra s sr p :
  otlp_span fixed ra s = Some sr -> otlp_pushed ra s = Some p ->
  span_rows_of p sr /\ t_ptype (fst sr) = 2 /\ t_payload (fst sr) = POtlp (with_attrs s (populate (o_attrs s ++ ra)%list)) /\
  p_attrs p = of_list (populate (o_attrs s ++ ra)%list) /\ p_ordered p = false /\
  p_trace p = o_trace s /\ p_span p = o_span s /\ p_parent p = o_parent s /\ p_name p = o_name s /\
  p_ts p = wrap64 (o_start s) /\ p_dur p = wrap64 ((o_end s - o_start s) mod two64).
Proof.
  unfold otlp_span, otlp_pushed. cbn [fixed q_list_drop negb].
  destruct (flat_attrs true (populate (o_attrs s ++ ra)%list) []) as [m|]; [|discriminate].
  intros Hs Hp. destruct sr as [row tags]. apply on_span_some in Hs.
  destruct Hs as [Ht [Hsid [Hrow [Hkv Hall]]]]. inversion Hp; subst p; clear Hp. subst row.
  split; [split|].
  - unfold row_of. cbn. tauto.
  - unfold tags_of. cbn. split; [exact Hall|]. rewrite Hkv. apply Permutation_refl.
  - cbn. tauto.
Qed.

Lemma otlp_decode_some q b rows : otlp_decode q b = Some rows -> otlp_decode_core q b = Some rows /\ otlp_utf8_ok b = true.
Proof. unfold otlp_decode. destruct (otlp_utf8_ok b); [intro H; split; [exact H|reflexivity]|discriminate]. Qed.
Lemma otlp_decode_flat b :
  otlp_decode_core fixed b = mapM (fun x => otlp_span fixed (fst x) (snd x)) (batch_spans b).
Proof.
  unfold otlp_decode_core, batch_spans. induction b as [|r b IH]; [reflexivity|].
  cbn [mapM flat_map]. rewrite mapM_app, mapM_map. cbn [fst snd].
  unfold otlp_res at 1. cbn [fixed q_nil_resource negb]. rewrite orb_true_r.
  destruct (mapM (otlp_span fixed (res_attrs r)) (List.concat (r_scopes r))) as [x|]; [|reflexivity].
  rewrite <- IH. destruct (mapM (otlp_res fixed) b) as [y|]; reflexivity.
Qed.

Lemma otlp_rows b rows ps :
  otlp_decode fixed b = Some rows -> pushed_of (InOtlp b) = Some ps -> Forall2 span_rows_of ps rows.
Proof.
  cbn [pushed_of]. intros Hd Hp. apply otlp_decode_some in Hd. destruct Hd as [Hd _]. rewrite (otlp_decode_flat b) in Hd.
  eapply (mapM_Forall2 _ _ span_rows_of); [|exact Hd|exact Hp].
  intros [ra s] sr p Hs Hpu. cbn [fst snd] in *. apply (otlp_span_pushed ra s sr p Hs Hpu).
Qed.

(* read-back of an OTLP row: the payload is the span with the populated attribute list *)
Lemma parse_otlp_populated s a :
  a = populate (o_attrs s) -> get_attr k_service a <> None ->
  forall s', s' = with_attrs s a ->
  rs_attrs (parse_otlp fixed s') = of_list a.
Proof.
  intros _ Hsvc s' ->. unfold parse_otlp. cbn [fixed q_peer_first with_attrs o_attrs].
  destruct (lookup k_service (of_list a)) eqn:E; [reflexivity|].
  exfalso. rewrite get_attr_lookup in Hsvc. apply (of_list_has_key a k_service Hsvc E).
Qed.

Lemma to_u64_wrap64 z : to_u64 (wrap64 z) = to_u64 z.
Proof.
  unfold to_u64, wrap64, two63, two64.
  rewrite Zminus_mod_idemp_l. replace (z + 9223372036854775808 - 9223372036854775808) with z by lia. reflexivity.
Qed.

Lemma otlp_times s :
  0 <= o_start s < two64 -> 0 <= o_end s < two64 ->
  to_u64 (wrap64 (o_start s)) = o_start s /\
  to_u64 (wrap64 (wrap64 (o_start s) + wrap64 ((o_end s - o_start s) mod two64))) = o_end s.
Proof.
  intros Hs He.
  assert (Hw : forall z, wrap64 z mod two64 = z mod two64) by (intros z; exact (to_u64_wrap64 z)).
  assert (Hne : two64 <> 0) by (unfold two64; lia).
  unfold to_u64. rewrite !Hw. split; [apply Z.mod_small, Hs|].
  rewrite Zplus_mod, !Hw, Z.mod_mod by exact Hne. rewrite <- Zplus_mod.
  replace (o_start s + (o_end s - o_start s)) with (o_end s) by lia. apply Z.mod_small, He.
Qed.

(* ================================================================== Zipkin: one span object *)
Ltac zkey_chain :=
  repeat match goal with
         | |- context [if String.eqb ?a ?b then _ else _] => destruct (String.eqb_spec a b); subst
         end.

Lemma zkey_of_spec k K key :
  In (K, key) [(KTrace, "traceId"); (KId, "id"); (KParent, "parentId"); (KTimestamp, "timestamp"); (KDuration, "duration");
               (KName, "name"); (KLocal, "localEndpoint"); (KRemote, "remoteEndpoint"); (KTags, "tags")] ->
  (zkey_of k = K <-> k = key).
Proof.
  intros Hin. cbn [In] in Hin.
  repeat (destruct Hin as [Hin|Hin]; [inversion Hin; subst K key; clear Hin; unfold zkey_of; split;
                                      [zkey_chain; intros H; try reflexivity; try discriminate H; try congruence
                                      |intros ->; reflexivity]|]).
  contradiction.
Qed.

Lemma nodup_keys_cons k (v : jv) fs :
  nodup_keys ((k, v) :: fs) = negb (existsb (String.eqb k) (map fst fs)) && nodup_keys fs.
Proof. reflexivity. Qed.

Lemma jget_notin k (fs : list (string * jv)) : existsb (String.eqb k) (map fst fs) = false -> jget k fs = None.
Proof.
  induction fs as [|[k' v'] fs IH]; cbn [map fst existsb jget]; [reflexivity|].
  intros H. apply orb_false_elim in H. destruct H as [H1 H2]. rewrite H1. apply IH, H2.
Qed.

Lemma tag_fields_app ts acc : tag_fields ts acc = (acc ++ tag_fields ts [])%list.
Proof.
  revert acc. induction ts as [|[k v] ts IH]; intros acc; cbn [tag_fields app]; [now rewrite app_nil_r|].
  destruct v; try apply IH. rewrite IH, (IH [(k, s)]). now rewrite <- app_assoc.
Qed.

Lemma endpoint_fields_kv prefix ep s kv s' kv' :
  endpoint_fields prefix ep s kv = Some (s', kv') -> kv' = (kv ++ ep_contrib prefix ep)%list.
Proof.
  revert s kv. induction ep as [|[k v] ep IH]; intros s kv H; cbn [endpoint_fields] in H.
  - inversion H. cbn. now rewrite app_nil_r.
  - unfold ep_contrib. cbn [flat_map fst snd]. fold (ep_contrib prefix ep).
    destruct (String.eqb k "serviceName").
    + destruct v; try discriminate. apply IH in H. rewrite H. now rewrite <- app_assoc.
    + cbn [app]. apply IH in H. exact H.
Qed.

Definition ep_svc (ep : list (string * jv)) : string := match jget_str "serviceName" ep with Some x => x | None => "" end.

Lemma endpoint_fields_svc prefix ep s kv s' kv' :
  nodup_keys ep = true -> endpoint_fields prefix ep s kv = Some (s', kv') ->
  s' = match jget "serviceName" ep with Some (JStr x) => x | _ => s end.
Proof.
  revert s kv. induction ep as [|[k v] ep IH]; intros s kv Hnd H; cbn [endpoint_fields] in H.
  - inversion H. reflexivity.
  - rewrite nodup_keys_cons in Hnd. apply andb_prop in Hnd. destruct Hnd as [Hk Hnd]. apply negb_true_iff in Hk.
    cbn [jget]. rewrite String.eqb_sym. destruct (String.eqb_spec k "serviceName") as [->|Hne].
    + destruct v; try discriminate. apply (IH _ _ Hnd) in H. rewrite (jget_notin _ _ Hk) in H. exact H.
    + apply (IH _ _ Hnd) in H. exact H.
Qed.

(* every member's effect on the key/value arrays is its contribution *)
Lemma z_field_kv st k v st1 :
  z_field fixed st (zkey_of k) v = Some st1 -> z_kv st1 = (z_kv st ++ z_contrib (k, v))%list.
Proof.
  unfold z_contrib. cbn [fst snd]. destruct (zkey_of k); cbn [z_field]; intros H.
  - destruct v; try discriminate. destruct (decode_hex_str s 32); inversion H. cbn. now rewrite app_nil_r.
  - destruct v; try discriminate. destruct (decode_hex_str s 16); inversion H. cbn. now rewrite app_nil_r.
  - destruct v; try discriminate. destruct (decode_hex_str s 16); inversion H. cbn. now rewrite app_nil_r.
  - destruct (string_or_int64 v) as [x|]; [|discriminate]. destruct (us_to_ns fixed x); inversion H. cbn. now rewrite app_nil_r.
  - destruct (string_or_int64 v) as [x|]; [|discriminate]. destruct (us_to_ns fixed x); inversion H. cbn. now rewrite app_nil_r.
  - destruct v; try discriminate. inversion H. reflexivity.
  - destruct v; try discriminate. cbn [parse_endpoint] in H.
    destruct (endpoint_fields "local_endpoint_" l "" (z_kv st)) as [[s' kv']|] eqn:E; [|discriminate].
    inversion H. cbn. apply (endpoint_fields_kv _ _ _ _ _ _ E).
  - destruct v; try discriminate. cbn [parse_endpoint] in H.
    destruct (endpoint_fields "remote_endpoint_" l "" (z_kv st)) as [[s' kv']|] eqn:E; [|discriminate].
    inversion H. cbn. apply (endpoint_fields_kv _ _ _ _ _ _ E).
  - destruct v; try discriminate. inversion H. cbn. apply tag_fields_app.
  - inversion H. now rewrite app_nil_r.
Qed.

Lemma z_fields_kv fs : forall st st', z_fields fixed st fs = Some st' -> z_kv st' = (z_kv st ++ flat_map z_contrib fs)%list.
Proof.
  induction fs as [|[k v] fs IH]; intros st st' H; cbn [z_fields] in H.
  - inversion H. cbn. now rewrite app_nil_r.
  - destruct (z_field fixed st (zkey_of k) v) as [st1|] eqn:E; [|discriminate].
    rewrite (IH _ _ H), (z_field_kv _ _ _ _ E). cbn [flat_map]. now rewrite app_assoc.
Qed.

(* a "register" of the decoder state written by exactly one member name *)
Section REG.
  Context {A : Type} (get : zst -> A) (key : string) (K : zkey) (val : jv -> option A).
  Hypothesis HK : forall k, zkey_of k = K <-> k = key.
  Hypothesis Hother : forall st K' v st1, K' <> K -> z_field fixed st K' v = Some st1 -> get st1 = get st.
  Hypothesis Hset : forall st v st1, z_field fixed st K v = Some st1 -> val v = Some (get st1).

  Lemma reg fs : forall st st', nodup_keys fs = true -> z_fields fixed st fs = Some st' ->
    match jget key fs with Some v => val v = Some (get st') | None => get st' = get st end.
  Proof.
    induction fs as [|[k v] fs IH]; intros st st' Hnd H; cbn [z_fields] in H.
    - inversion H. reflexivity.
    - destruct (z_field fixed st (zkey_of k) v) as [st1|] eqn:E; [|discriminate].
      rewrite nodup_keys_cons in Hnd. apply andb_prop in Hnd. destruct Hnd as [Hk Hnd]. apply negb_true_iff in Hk.
      specialize (IH _ _ Hnd H). cbn [jget].
      destruct (String.eqb_spec key k) as [<-|Hne].
      + rewrite (jget_notin _ _ Hk) in IH. rewrite IH. apply (Hset st). rewrite (proj2 (HK key) eq_refl) in E. exact E.
      + assert (HK' : zkey_of k <> K) by (intros E'; apply HK in E'; congruence).
        rewrite (Hother _ _ _ _ HK' E) in IH. exact IH.
  Qed.
End REG.

Ltac field_cases H :=
  cbn [z_field] in H; unfold us_to_ns in H; cbn [fixed q_time_wrap] in H; unfold option_map, parse_endpoint in H;
  repeat match type of H with
         | context [match ?x with _ => _ end] => destruct x; try discriminate H
         end;
  inversion H; reflexivity.

Ltac field_set H :=
  cbn [z_field] in H; unfold us_to_ns in H; cbn [fixed q_time_wrap] in H; unfold option_map, hex_field, time_field in *;
  repeat match type of H with
         | context [match ?x with _ => _ end] => destruct x; try discriminate H
         end;
  inversion H; subst; reflexivity.

Definition name_val (v : jv) : option string := match v with JStr s => Some s | _ => None end.

Lemma reg_tid fs st st' : nodup_keys fs = true -> z_fields fixed st fs = Some st' ->
  match jget "traceId" fs with Some v => hex_field 32 v = Some (z_tid st') | None => z_tid st' = z_tid st end.
Proof.
  apply (reg z_tid "traceId" KTrace (hex_field 32)).
  - intros k. apply zkey_of_spec. cbn. tauto.
  - intros s K' v s1 Hne H. destruct K'; try congruence; field_cases H.
  - intros s v s1 H. field_set H.
Qed.
Lemma reg_sid fs st st' : nodup_keys fs = true -> z_fields fixed st fs = Some st' ->
  match jget "id" fs with Some v => hex_field 16 v = Some (z_sid st') | None => z_sid st' = z_sid st end.
Proof.
  apply (reg z_sid "id" KId (hex_field 16)).
  - intros k. apply zkey_of_spec. cbn. tauto.
  - intros s K' v s1 Hne H. destruct K'; try congruence; field_cases H.
  - intros s v s1 H. field_set H.
Qed.
Lemma reg_parent fs st st' : nodup_keys fs = true -> z_fields fixed st fs = Some st' ->
  match jget "parentId" fs with Some v => hex_field 16 v = Some (z_parent st') | None => z_parent st' = z_parent st end.
Proof.
  apply (reg z_parent "parentId" KParent (hex_field 16)).
  - intros k. apply zkey_of_spec. cbn. tauto.
  - intros s K' v s1 Hne H. destruct K'; try congruence; field_cases H.
  - intros s v s1 H. field_set H.
Qed.
Lemma reg_ts fs st st' : nodup_keys fs = true -> z_fields fixed st fs = Some st' ->
  match jget "timestamp" fs with Some v => time_field v = Some (z_ts st') | None => z_ts st' = z_ts st end.
Proof.
  apply (reg z_ts "timestamp" KTimestamp time_field).
  - intros k. apply zkey_of_spec. cbn. tauto.
  - intros s K' v s1 Hne H. destruct K'; try congruence; field_cases H.
  - intros s v s1 H. field_set H.
Qed.
Lemma reg_dur fs st st' : nodup_keys fs = true -> z_fields fixed st fs = Some st' ->
  match jget "duration" fs with Some v => time_field v = Some (z_dur st') | None => z_dur st' = z_dur st end.
Proof.
  apply (reg z_dur "duration" KDuration time_field).
  - intros k. apply zkey_of_spec. cbn. tauto.
  - intros s K' v s1 Hne H. destruct K'; try congruence; field_cases H.
  - intros s v s1 H. field_set H.
Qed.
Lemma reg_name fs st st' : nodup_keys fs = true -> z_fields fixed st fs = Some st' ->
  match jget "name" fs with Some v => name_val v = Some (z_name st') | None => z_name st' = z_name st end.
Proof.
  apply (reg z_name "name" KName name_val).
  - intros k. apply zkey_of_spec. cbn. tauto.
  - intros s K' v s1 Hne H. destruct K'; try congruence; field_cases H.
  - intros s v s1 H. unfold name_val. field_set H.
Qed.
Lemma reg_payload fs st st' : z_fields fixed st fs = Some st' -> z_payload st' = z_payload st.
Proof.
  revert st st'. induction fs as [|[k v] fs IH]; intros st st' H; cbn [z_fields] in H; [inversion H; reflexivity|].
  destruct (z_field fixed st (zkey_of k) v) as [st1|] eqn:E; [|discriminate].
  rewrite (IH _ _ H). clear H IH. destruct (zkey_of k); field_cases E.
Qed.

(* ---- the service name: local endpoint's if non-empty, else the remote endpoint's, in either member order *)
Definition fL (l s : string) : string := if String.eqb l "" then s else l.
Definition fR (r s : string) : string := if String.eqb s "" then r else s.
Lemma fLR_comm l r s : fL l (fR r s) = fR r (fL l s).
Proof.
  unfold fL, fR. destruct (String.eqb_spec l "") as [->|Hl]; [reflexivity|].
  destruct (String.eqb_spec s ""); destruct (String.eqb_spec l ""); congruence.
Qed.
Definition gL (fs : list (string * jv)) (s : string) : string :=
  match jget "localEndpoint" fs with Some (JObj ep) => fL (ep_svc ep) s | _ => s end.
Definition gR (fs : list (string * jv)) (s : string) : string :=
  match jget "remoteEndpoint" fs with Some (JObj ep) => fR (ep_svc ep) s | _ => s end.
Lemma gR_fL_comm fs l s : gR fs (fL l s) = fL l (gR fs s).
Proof. unfold gR. destruct (jget "remoteEndpoint" fs) as [[]|]; try reflexivity. symmetry. apply fLR_comm. Qed.

Lemma ep_svc_of ep s' kv kv' prefix :
  nodup_keys ep = true -> endpoint_fields prefix ep "" kv = Some (s', kv') -> s' = ep_svc ep.
Proof.
  intros Hnd H. rewrite (endpoint_fields_svc _ _ _ _ _ _ Hnd H). unfold ep_svc, jget_str.
  destruct (jget "serviceName" ep) as [[]|]; reflexivity.
Qed.

Lemma ep_nodup_cons name k (v : jv) fs : name <> k -> ep_nodup name ((k, v) :: fs) = ep_nodup name fs.
Proof. intros Hne. unfold ep_nodup. cbn [jget]. destruct (String.eqb_spec name k); [contradiction|reflexivity]. Qed.

Lemma z_field_svc_other st K v st1 : K <> KLocal -> K <> KRemote -> z_field fixed st K v = Some st1 -> z_svc st1 = z_svc st.
Proof. intros H1 H2 H. destruct K; try congruence; field_cases H. Qed.

Lemma svc_reg fs : forall st st',
  nodup_keys fs = true -> ep_nodup "localEndpoint" fs = true -> ep_nodup "remoteEndpoint" fs = true ->
  z_fields fixed st fs = Some st' -> z_svc st' = gL fs (gR fs (z_svc st)).
Proof.
  induction fs as [|[k v] fs IH]; intros st st' Hnd HL HR H; cbn [z_fields] in H.
  - inversion H. reflexivity.
  - destruct (z_field fixed st (zkey_of k) v) as [st1|] eqn:E; [|discriminate].
    rewrite nodup_keys_cons in Hnd. apply andb_prop in Hnd. destruct Hnd as [Hk Hnd]. apply negb_true_iff in Hk.
    destruct (String.eqb_spec k "localEndpoint") as [->|HnL].
    + (* the local endpoint *)
      rewrite ep_nodup_cons in HR by discriminate.
      assert (HL' : ep_nodup "localEndpoint" fs = true) by (unfold ep_nodup; now rewrite (jget_notin _ _ Hk)).
      rewrite (IH _ _ Hnd HL' HR H).
      unfold gL at 1. rewrite (jget_notin _ _ Hk).
      unfold gL, gR. cbn [jget]. rewrite String.eqb_refl. cbn [String.eqb Ascii.eqb Bool.eqb andb].
      fold (gR fs).
      assert (Hz : zkey_of "localEndpoint" = KLocal) by reflexivity. rewrite Hz in E. cbn [z_field] in E.
      destruct v; try discriminate E. cbn [parse_endpoint] in E.
      destruct (endpoint_fields "local_endpoint_" l "" (z_kv st)) as [[s' kv']|] eqn:Ee; [|discriminate].
      unfold ep_nodup in HL. cbn [jget] in HL. rewrite String.eqb_refl in HL.
      rewrite (ep_svc_of _ _ _ _ _ HL Ee) in E. cbn [fixed q_remote_inverted] in E. inversion E. cbn [z_svc set_svc].
      fold (fL (ep_svc l) (z_svc st)). apply gR_fL_comm.
    + destruct (String.eqb_spec k "remoteEndpoint") as [->|HnR].
      * rewrite ep_nodup_cons in HL by discriminate.
        assert (HR' : ep_nodup "remoteEndpoint" fs = true) by (unfold ep_nodup; now rewrite (jget_notin _ _ Hk)).
        rewrite (IH _ _ Hnd HL HR' H).
        unfold gR at 1. rewrite (jget_notin _ _ Hk).
        unfold gL, gR. cbn [jget]. rewrite String.eqb_refl. cbn [String.eqb Ascii.eqb Bool.eqb andb].
        fold (gL fs).
        assert (Hz : zkey_of "remoteEndpoint" = KRemote) by reflexivity. rewrite Hz in E. cbn [z_field] in E.
        destruct v; try discriminate E. cbn [parse_endpoint] in E.
        destruct (endpoint_fields "remote_endpoint_" l "" (z_kv st)) as [[s' kv']|] eqn:Ee; [|discriminate].
        unfold ep_nodup in HR. cbn [jget] in HR. rewrite String.eqb_refl in HR.
        rewrite (ep_svc_of _ _ _ _ _ HR Ee) in E. cbn [fixed q_remote_inverted] in E. inversion E. cbn [z_svc set_svc].
        reflexivity.
      * rewrite ep_nodup_cons in HL by congruence. rewrite ep_nodup_cons in HR by congruence.
        rewrite (IH _ _ Hnd HL HR H).
        assert (H1 : zkey_of k <> KLocal) by (intros E'; apply (zkey_of_spec k KLocal "localEndpoint") in E'; [congruence|cbn; tauto]).
        assert (H2 : zkey_of k <> KRemote) by (intros E'; apply (zkey_of_spec k KRemote "remoteEndpoint") in E'; [congruence|cbn; tauto]).
        rewrite (z_field_svc_other _ _ _ _ H1 H2 E).
        unfold gL, gR. cbn [jget].
        destruct (String.eqb_spec "localEndpoint" k); [congruence|]. destruct (String.eqb_spec "remoteEndpoint" k); [congruence|].
        reflexivity.
Qed.

Lemma svc_spec fs : gL fs (gR fs "") = spec_zipkin_service fs.
Proof.
  unfold gL, gR, spec_zipkin_service, ep_service, fL, fR, ep_svc. cbn [String.eqb].
  destruct (jget "localEndpoint" fs) as [[]|]; destruct (jget "remoteEndpoint" fs) as [[]|]; cbn [String.eqb]; reflexivity.
Qed.

(* ---- one element: the rows are those of the span the object denotes *)
Lemma decode_span_pushed i e sr st' p :
  decode_span fixed (set_payload z_init (PRef i)) e = Some (sr, st') -> z_wellformed e = true -> zipkin_pushed e = Some p ->
  span_rows_of p sr /\ t_ptype (fst sr) = 1 /\ t_payload (fst sr) = PRef i /\ p_ordered p = true /\
  map kv_of (snd sr) = p_tags p.
Proof.
  unfold decode_span, zipkin_pushed. destruct e as [| | | | |fs|]; try discriminate.
  destruct (z_fields fixed (set_payload z_init (PRef i)) fs) as [st1|] eqn:Ez; [|discriminate].
  intros Hd Hwf Hp. cbn [z_wellformed] in Hwf.
  apply andb_prop in Hwf. destruct Hwf as [Hwf HR]. apply andb_prop in Hwf. destruct Hwf as [Hnd HL].
  pose proof (reg_tid _ _ _ Hnd Ez) as Rt. pose proof (reg_sid _ _ _ Hnd Ez) as Rs.
  pose proof (reg_parent _ _ _ Hnd Ez) as Rp. pose proof (reg_ts _ _ _ Hnd Ez) as Rts.
  pose proof (reg_dur _ _ _ Hnd Ez) as Rd. pose proof (reg_name _ _ _ Hnd Ez) as Rn.
  pose proof (svc_reg _ _ _ Hnd HL HR Ez) as Rsvc. pose proof (z_fields_kv _ _ _ Ez) as Rkv.
  pose proof (reg_payload _ _ _ Ez) as Rpl.
  cbn [set_payload z_init z_tid z_sid z_parent z_ts z_dur z_name z_svc z_kv z_payload] in *.
  rewrite svc_spec in Rsvc. cbn [app] in Rkv.
  destruct (jget "traceId" fs) as [t|]; [|discriminate]. destruct (jget "id" fs) as [i0|]; [|discriminate].
  destruct (hex_field 32 t) as [tid|]; [|discriminate]. destruct (hex_field 16 i0) as [sid|]; [|discriminate].
  injection Rt as Et. injection Rs as Es. subst tid sid.
  unfold opt_field in Hp.
  assert (Hpar : match jget "parentId" fs with Some v => hex_field 16 v | None => Some "" end = Some (z_parent st1)).
  { destruct (jget "parentId" fs); [exact Rp|now rewrite Rp]. }
  assert (Hts : match jget "timestamp" fs with Some v => time_field v | None => Some 0 end = Some (z_ts st1)).
  { destruct (jget "timestamp" fs); [exact Rts|now rewrite Rts]. }
  assert (Hdur : match jget "duration" fs with Some v => time_field v | None => Some 0 end = Some (z_dur st1)).
  { destruct (jget "duration" fs); [exact Rd|now rewrite Rd]. }
  rewrite Hpar, Hts, Hdur in Hp. clear Hpar Hts Hdur Rp Rts Rd.
  set (nm := match jget "name" fs with
             | Some v => match v with JStr s => Some (Some s) | _ => None end
             | None => Some None end) in Hp.
  assert (Hnm : nm = Some (match jget "name" fs with Some _ => Some (z_name st1) | None => None end)
                /\ (jget "name" fs = None -> z_name st1 = "")).
  { subst nm. destruct (jget "name" fs) as [v|]; [|split; [reflexivity|intros _; exact Rn]].
    unfold name_val in Rn. destruct v; try discriminate Rn. inversion Rn. split; [reflexivity|discriminate]. }
  destruct Hnm as [Hnm Hnone]. rewrite Hnm in Hp. clear Hnm.
  destruct (ep_ok "localEndpoint" fs && ep_ok "remoteEndpoint" fs &&
            match jget "tags" fs with None => true | Some (JObj _) => true | Some _ => false end); [|discriminate].
  inversion Hp; subst p; clear Hp.
  destruct sr as [row tags]. unfold option_map in Hd.
  destruct (on_span 1 (z_tid st1) (z_sid st1) (z_ts st1) (z_dur st1) (z_parent st1) (z_name st1) (z_svc st1) (z_payload st1)
                    (z_kv st1 ++ [(k_service, z_svc st1)])%list) as [[row' tags']|] eqn:Eo; [|discriminate].
  inversion Hd; subst row' tags'; clear Hd.
  apply on_span_some in Eo. destruct Eo as [Hwt [Hws [Hrow [Hkv Hall]]]]. subst row.
  split; [split|].
  - unfold row_of. cbn. rewrite Rsvc.
    assert (z_name st1 = match match jget "name" fs with Some _ => Some (z_name st1) | None => None end with Some s => s | None => "" end)
      as <- by (destruct (jget "name" fs); [reflexivity|now apply Hnone]).
    tauto.
  - unfold tags_of. cbn. split; [exact Hall|].
    rewrite Hkv, Rkv, Rsvc. apply Permutation_refl.
  - cbn. rewrite Rpl. split; [reflexivity|]. split; [reflexivity|]. split; [reflexivity|]. now rewrite Hkv, Rkv, Rsvc.
Qed.

(* ---- an accepted span object denotes a span: every member was accepted by its own field decoder *)
Lemma z_fields_each fs : forall st st', z_fields fixed st fs = Some st' ->
  forall k v, In (k, v) fs -> exists s1 s2, z_field fixed s1 (zkey_of k) v = Some s2.
Proof.
  induction fs as [|[k0 v0] fs IH]; intros st st' H k v Hin; [contradiction|]. cbn [z_fields] in H.
  destruct (z_field fixed st (zkey_of k0) v0) as [st1|] eqn:E; [|discriminate].
  destruct Hin as [Heq|Hin]; [inversion Heq; subst; eauto|]. apply (IH _ _ H _ _ Hin).
Qed.

Lemma jget_in k (fs : list (string * jv)) v : jget k fs = Some v -> In (k, v) fs.
Proof.
  induction fs as [|[k' v'] fs IH]; cbn [jget]; [discriminate|].
  destruct (String.eqb_spec k k') as [<-|Hne]; intros H; [inversion H; left; reflexivity|right; apply IH, H].
Qed.

Lemma endpoint_fields_str prefix ep : forall svc kv r, endpoint_fields prefix ep svc kv = Some r ->
  match jget "serviceName" ep with None => True | Some (JStr _) => True | Some _ => False end.
Proof.
  induction ep as [|[k v] ep IH]; intros svc kv r H; cbn [endpoint_fields jget] in *; [exact I|].
  rewrite String.eqb_sym. destruct (String.eqb k "serviceName").
  - destruct v; try discriminate H. exact I.
  - apply (IH _ _ _ H).
Qed.

Lemma accepted_ep_ok name K prefix fs st st' :
  zkey_of name = K -> (K = KLocal /\ prefix = "local_endpoint_" \/ K = KRemote /\ prefix = "remote_endpoint_") ->
  z_fields fixed st fs = Some st' -> ep_ok name fs = true.
Proof.
  intros HK Hcase Hz. unfold ep_ok. destruct (jget name fs) as [v|] eqn:Ej; [|reflexivity].
  destruct (z_fields_each _ _ _ Hz _ _ (jget_in _ _ _ Ej)) as [s1 [s2 Hf]]. rewrite HK in Hf.
  destruct Hcase as [[-> ->]|[-> ->]]; cbn [z_field] in Hf; unfold parse_endpoint in Hf;
    (destruct v as [| | | | |ep|]; try discriminate Hf;
     destruct (endpoint_fields _ ep "" (z_kv s1)) as [r|] eqn:Ee; [|discriminate Hf];
     pose proof (endpoint_fields_str _ _ _ _ _ Ee) as Hs;
     destruct (jget "serviceName" ep) as [[| | | | | |]|]; try reflexivity; contradiction).
Qed.

Lemma accepted_span_denotes i e sr st' :
  decode_span fixed (set_payload z_init (PRef i)) e = Some (sr, st') -> z_wellformed e = true -> zipkin_pushed e <> None.
Proof.
  unfold decode_span, zipkin_pushed. destruct e as [| | | | |fs|]; try discriminate.
  destruct (z_fields fixed (set_payload z_init (PRef i)) fs) as [st1|] eqn:Ez; [|discriminate].
  intros Hd Hwf. cbn [z_wellformed] in Hwf.
  apply andb_prop in Hwf. destruct Hwf as [Hwf HR]. apply andb_prop in Hwf. destruct Hwf as [Hnd HL].
  pose proof (reg_tid _ _ _ Hnd Ez) as Rt. pose proof (reg_sid _ _ _ Hnd Ez) as Rs.
  pose proof (reg_parent _ _ _ Hnd Ez) as Rp. pose proof (reg_ts _ _ _ Hnd Ez) as Rts.
  pose proof (reg_dur _ _ _ Hnd Ez) as Rd. pose proof (reg_name _ _ _ Hnd Ez) as Rn.
  cbn [set_payload z_init z_tid z_sid z_parent z_ts z_dur z_name] in *.
  unfold option_map in Hd.
  destruct (on_span 1 (z_tid st1) (z_sid st1) (z_ts st1) (z_dur st1) (z_parent st1) (z_name st1) (z_svc st1) (z_payload st1)
                    (z_kv st1 ++ [(k_service, z_svc st1)])%list) as [[row tags]|] eqn:Eo; [|discriminate].
  apply on_span_some in Eo. destruct Eo as [Hwt [Hws _]].
  destruct (jget "traceId" fs) as [t|]; [|rewrite Rt in Hwt; discriminate Hwt].
  destruct (jget "id" fs) as [i0|]; [|rewrite Rs in Hws; discriminate Hws].
  rewrite Rt, Rs. unfold opt_field.
  assert (Hpar : match jget "parentId" fs with Some v => hex_field 16 v | None => Some "" end = Some (z_parent st1)).
  { destruct (jget "parentId" fs); [exact Rp|now rewrite Rp]. }
  assert (Hts : match jget "timestamp" fs with Some v => time_field v | None => Some 0 end = Some (z_ts st1)).
  { destruct (jget "timestamp" fs); [exact Rts|now rewrite Rts]. }
  assert (Hdur : match jget "duration" fs with Some v => time_field v | None => Some 0 end = Some (z_dur st1)).
  { destruct (jget "duration" fs); [exact Rd|now rewrite Rd]. }
  rewrite Hpar, Hts, Hdur.
  assert (Hnm : exists n, match jget "name" fs with
                          | Some v => match v with JStr s => Some (Some s) | _ => None end
                          | None => Some None end = Some n).
  { destruct (jget "name" fs) as [v|]; [|eauto]. unfold name_val in Rn. destruct v; try discriminate Rn. eauto. }
  destruct Hnm as [n ->].
  rewrite (accepted_ep_ok "localEndpoint" KLocal "local_endpoint_" fs _ _ eq_refl (or_introl (conj eq_refl eq_refl)) Ez).
  rewrite (accepted_ep_ok "remoteEndpoint" KRemote "remote_endpoint_" fs _ _ eq_refl (or_intror (conj eq_refl eq_refl)) Ez).
  assert (Htags : match jget "tags" fs with None => true | Some (JObj _) => true | Some _ => false end = true).
  { destruct (jget "tags" fs) as [v|] eqn:Ej; [|reflexivity].
    destruct (z_fields_each _ _ _ Ez _ _ (jget_in _ _ _ Ej)) as [s1 [s2 Hf]].
    change (zkey_of "tags") with KTags in Hf. cbn [z_field] in Hf. destruct v; try discriminate Hf. reflexivity. }
  rewrite Htags. cbn [andb]. discriminate.
Qed.


(* ---- framing: every element is decoded from a fresh state, whatever the framing *)
Lemma zipkin_from_fixed nd es : forall i st,
  zipkin_from fixed nd i st es =
  (fix go (i : N) (es : list jv) : option (list span_rows) :=
     match es with
     | [] => Some []
     | e :: r => match decode_span fixed (set_payload z_init (PRef i)) e with
                 | None => None
                 | Some (rows, _) => match go (i + 1)%N r with None => None | Some rs => Some (rows :: rs) end
                 end
     end) i es.
Proof.
  induction es as [|e es IH]; intros i st; cbn [zipkin_from]; [reflexivity|].
  replace (nd && q_nd_stateful fixed) with false by (cbn; now rewrite andb_false_r).
  destruct (decode_span fixed (set_payload z_init (PRef i)) e) as [[rows st']|]; [|reflexivity].
  rewrite IH. reflexivity.
Qed.

Lemma ndjson_same_as_array es : zipkin_decode fixed true es = zipkin_decode fixed false es.
Proof. unfold zipkin_decode. now rewrite !zipkin_from_fixed. Qed.

Lemma zipkin_rows_from nd es : forall i st rows ps,
  zipkin_from fixed nd i st es = Some rows -> forallb z_wellformed es = true -> mapM zipkin_pushed es = Some ps ->
  Forall2 span_rows_of ps rows /\
  Forall2 (fun p sr => p_ordered p = true /\ t_ptype (fst sr) = 1) ps rows /\
  (forall k sr, nth_error rows k = Some sr -> t_payload (fst sr) = PRef (i + N.of_nat k)).
Proof.
  induction es as [|e es IH]; intros i st rows ps Hd Hwf Hp.
  - cbn in Hd, Hp. inversion Hd; inversion Hp. split; [constructor|]. split; [constructor|]. intros [|k] sr H; discriminate H.
  - cbn [zipkin_from] in Hd. replace (nd && q_nd_stateful fixed) with false in Hd by (cbn; now rewrite andb_false_r).
    destruct (decode_span fixed (set_payload z_init (PRef i)) e) as [[sr st']|] eqn:Ed; [|discriminate].
    destruct (zipkin_from fixed nd (i + 1) st' es) as [rs|] eqn:Er; [|discriminate]. inversion Hd; subst rows; clear Hd.
    cbn [forallb] in Hwf. apply andb_prop in Hwf. destruct Hwf as [Hwe Hwf].
    cbn [mapM] in Hp. destruct (zipkin_pushed e) as [p|] eqn:Epu; [|discriminate].
    destruct (mapM zipkin_pushed es) as [ps'|] eqn:Eps; [|discriminate]. inversion Hp; subst ps; clear Hp.
    destruct (decode_span_pushed _ _ _ _ _ Ed Hwe Epu) as [H1 [H2 [H3 [H4 _]]]].
    destruct (IH _ _ _ _ Er Hwf eq_refl) as [I1 [I2 I3]].
    split; [constructor; assumption|]. split; [constructor; [split; assumption|assumption]|].
    intros [|k] sr' Hn; cbn [nth_error] in Hn.
    + inversion Hn; subst sr'. rewrite H3. f_equal. lia.
    + rewrite (I3 _ _ Hn). f_equal. lia.
Qed.

(* ================================================================== the three clauses for every request *)
Lemma accepted_denotes_from nd es : forall i st rows,
  zipkin_from fixed nd i st es = Some rows -> forallb z_wellformed es = true -> mapM zipkin_pushed es <> None.
Proof.
  induction es as [|e es IH]; intros i st rows Hd Hwf; [discriminate|].
  cbn [zipkin_from] in Hd. replace (nd && q_nd_stateful fixed) with false in Hd by (cbn; now rewrite andb_false_r).
  destruct (decode_span fixed (set_payload z_init (PRef i)) e) as [[sr st']|] eqn:Ed; [|discriminate].
  destruct (zipkin_from fixed nd (i + 1) st' es) as [rs|] eqn:Er; [|discriminate].
  cbn [forallb] in Hwf. apply andb_prop in Hwf. destruct Hwf as [Hwe Hwf].
  cbn [mapM]. pose proof (accepted_span_denotes _ _ _ _ Ed Hwe) as Hden.
  destruct (zipkin_pushed e) as [p|]; [|congruence].
  pose proof (IH _ _ _ Er Hwf) as Hrest. destruct (mapM zipkin_pushed es); [discriminate|congruence].
Qed.

(* a Zipkin request without repeated member names that is accepted denotes spans: nothing is stored for a member that is
   not a value of its field (a number outside int64 microseconds or nanoseconds, a fraction, a malformed id ...) *)
Lemma accepted_denotes_l nd es rows :
  decode fixed (InZipkin nd es) = Some rows -> forallb z_wellformed es = true -> pushed_of (InZipkin nd es) <> None.
Proof.
  cbn [decode pushed_of]. unfold zipkin_decode. intros Hd Hwf. rewrite Hwf. apply (accepted_denotes_from nd es _ _ _ Hd Hwf).
Qed.

Lemma rows_of_pushed inp rows ps :
  decode fixed inp = Some rows -> pushed_of inp = Some ps -> Forall2 span_rows_of ps rows.
Proof.
  destruct inp as [b|nd es]; cbn [decode].
  - apply otlp_rows.
  - cbn [pushed_of]. destruct (forallb z_wellformed es) eqn:Hwf; [|discriminate].
    intros Hd Hp. unfold zipkin_decode in Hd. apply (zipkin_rows_from nd es _ _ _ _ Hd Hwf Hp).
Qed.

Lemma Forall2_map_r {A B C} (R : A -> B -> Prop) (S : A -> C -> Prop) (f : B -> C) a b :
  (forall x y, R x y -> S x (f y)) -> Forall2 R a b -> Forall2 S a (map f b).
Proof. intros H F. induction F; cbn [map]; constructor; auto. Qed.

Lemma one_row_per_span_l inp rows ps :
  decode fixed inp = Some rows -> pushed_of inp = Some ps -> Forall2 row_of ps (map fst rows).
Proof.
  intros Hd Hp. apply (Forall2_map_r span_rows_of); [|exact (rows_of_pushed _ _ _ Hd Hp)]. intros x y [H _]. exact H.
Qed.

Lemma tag_rows_of_span_l inp rows ps :
  decode fixed inp = Some rows -> pushed_of inp = Some ps -> Forall2 tags_of ps (map snd rows).
Proof.
  intros Hd Hp. apply (Forall2_map_r span_rows_of); [|exact (rows_of_pushed _ _ _ Hd Hp)]. intros x y [_ H]. exact H.
Qed.

(* ================================================================== read back *)
Lemma read_tags_spec ts : map (fun kv => (fst kv, AStr (snd kv))) (tag_fields ts []) = read_tags ts.
Proof.
  induction ts as [|[k v] ts IH]; cbn [tag_fields read_tags]; [reflexivity|].
  destruct v; try exact IH. cbn [app]. rewrite tag_fields_app. cbn [app map fst snd]. now rewrite IH.
Qed.

Lemma zipkin_pushed_fields fs p :
  zipkin_pushed (JObj fs) = Some p ->
  p_name p = match jget_str "name" fs with Some s => s | None => "" end /\
  match jget "parentId" fs with
  | Some (JStr s) => decode_hex_str s 16 = Some (p_parent p)
  | Some _ => False
  | None => p_parent p = ""
  end /\
  p_attrs p = match jget "tags" fs with Some (JObj ts) => read_tags ts | _ => [] end /\
  p_ordered p = true.
Proof.
  unfold zipkin_pushed.
  destruct (jget "traceId" fs) as [t|]; [|discriminate]. destruct (jget "id" fs) as [i0|]; [|discriminate].
  destruct (hex_field 32 t) as [tid|]; [|discriminate]. destruct (hex_field 16 i0) as [sid|]; [|discriminate].
  unfold opt_field, jget_str.
  destruct (match jget "parentId" fs with Some v => hex_field 16 v | None => Some "" end) as [par|] eqn:Epar; [|discriminate].
  destruct (match jget "timestamp" fs with Some v => time_field v | None => Some 0 end) as [ts|]; [|discriminate].
  destruct (match jget "duration" fs with Some v => time_field v | None => Some 0 end) as [dur|]; [|discriminate].
  destruct (match jget "name" fs with
            | Some v => match v with JStr s => Some (Some s) | _ => None end
            | None => Some None end) as [nm|] eqn:Enm; [|discriminate].
  destruct (ep_ok "localEndpoint" fs && ep_ok "remoteEndpoint" fs &&
            match jget "tags" fs with None => true | Some (JObj _) => true | Some _ => false end); [|discriminate].
  intros H. inversion H; subst p; clear H. cbn [p_name p_parent p_attrs p_ordered].
  split; [|split; [|split; [|reflexivity]]].
  - destruct (jget "name" fs) as [[]|]; inversion Enm; reflexivity.
  - destruct (jget "parentId" fs) as [[]|]; cbn [hex_field] in Epar; try discriminate Epar; [exact Epar|now inversion Epar].
  - unfold str_tags. destruct (jget "tags" fs) as [[]|]; try reflexivity. apply read_tags_spec.
Qed.

Lemma hex_decode_length : forall b s, hex_decode s = Some b -> String.length s = (2 * String.length b)%nat.
Proof.
  induction b as [|c b IH]; intros s H.
  - destruct s as [|a [|a' r]]; cbn [hex_decode] in H; [reflexivity|discriminate|].
    destruct (hexval a), (hexval a'), (hex_decode r); discriminate.
  - destruct s as [|a [|a' r]]; cbn [hex_decode] in H; try discriminate.
    destruct (hexval a), (hexval a'); try discriminate. destruct (hex_decode r) as [t|] eqn:E; [|discriminate].
    inversion H; subst. cbn [String.length]. rewrite (IH r E). lia.
Qed.
Lemma string_app_length a b : String.length (a ++ b) = (String.length a + String.length b)%nat.
Proof. induction a as [|c a IH]; cbn; [reflexivity|]. now rewrite IH. Qed.
Lemma zeros_length n : String.length (zeros n) = n.
Proof. induction n as [|n IH]; cbn; [reflexivity|]. now rewrite IH. Qed.
Lemma substring_length : forall n s, (n <= String.length s)%nat -> String.length (substring 0 n s) = n.
Proof.
  induction n as [|n IH]; intros s H; destruct s as [|c s]; cbn in *; try reflexivity; try lia. rewrite IH; lia.
Qed.
(* a decoded 16-digit id always has 8 bytes *)
Lemma decode_hex16_length s b : decode_hex_str s 16 = Some b -> String.length b = 8%nat.
Proof.
  unfold decode_hex_str. destruct (String.eqb s ""); [discriminate|]. intros H. apply hex_decode_length in H.
  rewrite substring_length in H; [lia|].
  destruct (Nat.ltb_spec (String.length s) 16) as [Hlt|Hge]; [|exact Hge].
  rewrite string_app_length, zeros_length. lia.
Qed.

Lemma read_endpoint_synth name fs :
  (forall x, synth_key (name ++ "." ++ x) = true) ->
  Forall (fun kv => synth_key (fst kv) = true) (fst (read_endpoint name fs)).
Proof.
  intros Hs. unfold read_endpoint. destruct (jget name fs) as [[| | | | |ep|]|]; cbn [fst]; try constructor.
  apply Forall_app. split.
  - apply Forall_forall. intros [k v] Hin. apply in_flat_map in Hin. destruct Hin as [a [_ Hin]].
    destruct (jget_str a ep); [|contradiction]. destruct Hin as [E|[]]. inversion E. cbn [fst]. apply Hs.
  - destruct (jget "port" ep) as [[| | | | | |]|]; try constructor.
    destruct (in_int64 z && negb (z =? 0)); constructor; [apply Hs|constructor].
Qed.

Lemma synth_local x : synth_key ("localEndpoint" ++ "." ++ x) = true.
Proof. reflexivity. Qed.
Lemma synth_remote x : synth_key ("remoteEndpoint" ++ "." ++ x) = true.
Proof. unfold synth_key. apply orb_true_intro. right. reflexivity. Qed.

Lemma zipkin_read_one es_all i e sr st' p :
  decode_span fixed (set_payload z_init (PRef i)) e = Some (sr, st') -> z_wellformed e = true -> zipkin_pushed e = Some p ->
  nth_error es_all (N.to_nat i) = Some e ->
  reads_back p (read_row fixed es_all (fst sr)).
Proof.
  intros Hd Hwf Hp Hn. destruct (decode_span_pushed _ _ _ _ _ Hd Hwf Hp) as [[Hrow _] [Hpt [Hpl [_ _]]]].
  unfold read_row. rewrite Hpt, Hpl, Hn. cbn [Z.eqb Pos.eqb].
  destruct e as [| | | | |fs|]; try discriminate Hp.
  destruct (zipkin_pushed_fields _ _ Hp) as [Fname [Fpar [Fattrs Ford]]].
  destruct Hrow as [Rt [Rs [Rpar [_ [Rts [Rdur [_ [Lt Ls]]]]]]]].
  unfold parse_zipkin. rewrite Lt, Ls. cbn [Nat.ltb Nat.leb orb].
  pose proof (read_endpoint_synth "localEndpoint" fs synth_local) as Sl.
  pose proof (read_endpoint_synth "remoteEndpoint" fs synth_remote) as Sr.
  destruct (read_endpoint "localEndpoint" fs) as [la ls]. destruct (read_endpoint "remoteEndpoint" fs) as [ra rs].
  cbn [fst] in Sl, Sr.
  set (svc0 := match ls with
               | Some s => if String.eqb s "" then match rs with Some s' => s' | None => "" end else s
               | None => match rs with Some s' => s' | None => "" end
               end).
  eexists. split; [reflexivity|]. cbn [rs_trace rs_span rs_parent rs_name rs_start rs_end rs_attrs].
  rewrite (substring_full 16 _ Lt), (substring_full 8 _ Ls), Rts, Rdur.
  split; [exact Rt|]. split; [exact Rs|]. split.
  - cbn [fixed q_parent_payload negb andb]. rewrite Rpar. unfold read_parent, jget_str.
    destruct (jget "parentId" fs) as [[]|]; try contradiction.
    + rewrite (decode_hex16_length _ _ Fpar). reflexivity.
    + rewrite Fpar. reflexivity.
  - split; [now rewrite Fname|]. split; [reflexivity|]. split; [reflexivity|]. split.
    + intros k v Hin. rewrite Fattrs in Hin. apply in_or_app. left. exact Hin.
    + split; [rewrite Ford; discriminate|]. intros _. exists (la ++ ra ++ [(k_service, AStr svc0)])%list.
      rewrite Fattrs. split; [reflexivity|].
      apply Forall_app. split; [exact Sl|]. apply Forall_app. split; [exact Sr|]. constructor; [reflexivity|constructor].
Qed.

Lemma zipkin_read_from nd es_all es : forall i st rows ps,
  (forall k e, nth_error es k = Some e -> nth_error es_all (N.to_nat i + k) = Some e) ->
  zipkin_from fixed nd i st es = Some rows -> forallb z_wellformed es = true -> mapM zipkin_pushed es = Some ps ->
  Forall2 (fun p sr => reads_back p (read_row fixed es_all (fst sr))) ps rows.
Proof.
  induction es as [|e es IH]; intros i st rows ps Hidx Hd Hwf Hp.
  - cbn in Hd, Hp. inversion Hd; inversion Hp. constructor.
  - cbn [zipkin_from] in Hd. replace (nd && q_nd_stateful fixed) with false in Hd by (cbn; now rewrite andb_false_r).
    destruct (decode_span fixed (set_payload z_init (PRef i)) e) as [[sr st']|] eqn:Ed; [|discriminate].
    destruct (zipkin_from fixed nd (i + 1) st' es) as [rs|] eqn:Er; [|discriminate]. inversion Hd; subst rows; clear Hd.
    cbn [forallb] in Hwf. apply andb_prop in Hwf. destruct Hwf as [Hwe Hwf].
    cbn [mapM] in Hp. destruct (zipkin_pushed e) as [p|] eqn:Epu; [|discriminate].
    destruct (mapM zipkin_pushed es) as [ps'|] eqn:Eps; [|discriminate]. inversion Hp; subst ps; clear Hp.
    constructor.
    + apply (zipkin_read_one es_all i e sr st' p Ed Hwe Epu).
      specialize (Hidx 0%nat e eq_refl). now rewrite Nat.add_0_r in Hidx.
    + apply (IH (i + 1)%N st' rs ps'); try assumption; [|reflexivity].
      intros k e' Hk. specialize (Hidx (S k) e' Hk). replace (N.to_nat (i + 1) + k)%nat with (N.to_nat i + S k)%nat by lia. exact Hidx.
Qed.

Lemma zipkin_read_back nd es rows ps :
  zipkin_decode fixed nd es = Some rows -> pushed_of (InZipkin nd es) = Some ps ->
  Forall2 (fun p sr => reads_back p (read_row fixed es (fst sr))) ps rows.
Proof.
  cbn [pushed_of]. destruct (forallb z_wellformed es) eqn:Hwf; [|discriminate]. intros Hd Hp.
  apply (zipkin_read_from nd es es 0%N z_init rows ps); try assumption. intros k e H. exact H.
Qed.

(* OTLP: the payload is the span itself (with the populated attributes); times within uint64 *)
Definition otlp_times_ok (b : list ores) : Prop :=
  forall x, In x (batch_spans b) -> 0 <= o_start (snd x) < two64 /\ 0 <= o_end (snd x) < two64.

Lemma otlp_read_one ra s sr p :
  otlp_span fixed ra s = Some sr -> otlp_pushed ra s = Some p ->
  0 <= o_start s < two64 -> 0 <= o_end s < two64 ->
  reads_back p (read_row fixed [] (fst sr)).
Proof.
  intros Hs Hp Hst Hen.
  destruct (otlp_span_pushed _ _ _ _ Hs Hp) as [_ [Hpt [Hpl [Hattrs [Hord [Ht [Hsp [Hpa [Hn [Hts Hdur]]]]]]]]]].
  unfold read_row. rewrite Hpt, Hpl. cbn [Z.eqb Pos.eqb].
  eexists. split; [reflexivity|].
  assert (Hra : rs_attrs (parse_otlp fixed (with_attrs s (populate (o_attrs s ++ ra)%list))) = of_list (populate (o_attrs s ++ ra)%list)).
  { unfold parse_otlp. cbn [fixed q_peer_first with_attrs o_attrs].
    destruct (lookup k_service (of_list (populate (o_attrs s ++ ra)%list))) eqn:E; [reflexivity|].
    exfalso. pose proof (populate_has_service (o_attrs s ++ ra)%list) as Hsvc. rewrite get_attr_lookup in Hsvc.
    apply (of_list_has_key _ k_service Hsvc E). }
  destruct (otlp_times s Hst Hen) as [T1 T2].
  rewrite Hts, Hdur, T1, T2, Hattrs, Ht, Hsp, Hpa, Hn.
  cbn [parse_otlp rs_trace rs_span rs_parent rs_name rs_start rs_end with_attrs o_trace o_span o_parent o_name o_start o_end].
  split; [reflexivity|]. split; [reflexivity|]. split; [reflexivity|]. split; [reflexivity|]. split; [reflexivity|]. split; [reflexivity|].
  rewrite Hra. split; [intros k v H; exact H|]. split; [reflexivity|]. rewrite Hord. discriminate.
Qed.

Lemma otlp_read_back b rows ps :
  otlp_decode fixed b = Some rows -> pushed_of (InOtlp b) = Some ps -> otlp_times_ok b ->
  Forall2 (fun p sr => reads_back p (read_row fixed [] (fst sr))) ps rows.
Proof.
  cbn [pushed_of]. intros Hd0. apply otlp_decode_some in Hd0. destruct Hd0 as [Hd0 _]. revert Hd0. rewrite (otlp_decode_flat b). unfold otlp_times_ok. generalize (batch_spans b). intros l.
  revert rows ps. induction l as [|[ra s] l IH]; intros rows ps Hd Hp Ht; cbn [mapM fst snd] in Hd, Hp.
  - inversion Hd; inversion Hp. constructor.
  - destruct (otlp_span fixed ra s) as [sr|] eqn:Es; [|discriminate].
    destruct (mapM (fun x => otlp_span fixed (fst x) (snd x)) l) as [rs|]; [|discriminate].
    destruct (otlp_pushed ra s) as [p|] eqn:Ep; [|discriminate].
    destruct (mapM (fun x => otlp_pushed (fst x) (snd x)) l) as [ps'|]; [|discriminate].
    inversion Hd; inversion Hp; subst. constructor.
    + destruct (Ht (ra, s) (or_introl eq_refl)) as [H1 H2]. apply (otlp_read_one ra s sr p Es Ep H1 H2).
    + apply IH; try reflexivity. intros x Hx. apply Ht. now right.
Qed.

(* ================================================================== flattening keeps keys unique *)
Section AVAL_IND.
  Variable P : aval -> Prop.
  Hypothesis HStr : forall s, P (AStr s).
  Hypothesis HInt : forall z, P (AInt z).
  Hypothesis HBool : forall b, P (ABool b).
  Hypothesis HDouble : forall d, P (ADouble d).
  Hypothesis HBytes : forall s, P (ABytes s).
  Hypothesis HEmpty : P AEmpty.
  Hypothesis HNil : P ANil.
  Hypothesis HList : forall l, Forall P l -> P (AList l).
  Hypothesis HMap : forall l, Forall (fun kv => P (snd kv)) l -> P (AMap l).
  Fixpoint aval_ind' (v : aval) : P v :=
    match v with
    | AStr s => HStr s | AInt z => HInt z | ABool b => HBool b | ADouble d => HDouble d | ABytes s => HBytes s
    | AEmpty => HEmpty | ANil => HNil
    | AList l => HList l ((fix go (l : list aval) : Forall P l :=
                             match l with [] => Forall_nil _ | x :: r => Forall_cons x (aval_ind' x) (go r) end) l)
    | AMap l => HMap l ((fix go (l : list (string * aval)) : Forall (fun kv => P (snd kv)) l :=
                           match l with [] => Forall_nil _ | x :: r => Forall_cons x (aval_ind' (snd x)) (go r) end) l)
    end.
End AVAL_IND.

Definition keys_unique (m : amap) : Prop := NoDup (map fst m).

Lemma flat_val_unique v : forall lists name m m', keys_unique m -> flat_val lists name v m = Some m' -> keys_unique m'.
Proof.
  induction v as [s|z|b|d|s| | |l HF|l HF] using aval_ind'; intros lists name m m' Hm H; cbn [flat_val] in H;
    try (inversion H; subst; try apply upsert_nodup; exact Hm); try discriminate.
  - (* list *)
    destruct lists; [|inversion H; subst; exact Hm].
    revert H. generalize 0%N. revert m Hm.
    induction HF as [|x l Hx Hl IHl]; intros m Hm i H.
    + inversion H; subst; exact Hm.
    + destruct (flat_val true (name ++ "." ++ print_N i) x m) as [m1|] eqn:E; [|discriminate].
      apply (IHl m1 (Hx _ _ _ _ Hm E) (i + 1)%N H).
  - (* kvlist *)
    revert m Hm H.
    induction HF as [|x l Hx Hl IHl]; intros m Hm H.
    + inversion H; subst; exact Hm.
    + destruct (flat_val lists (name ++ "." ++ fst x) (snd x) m) as [m1|] eqn:E; [|discriminate].
      apply (IHl m1 (Hx _ _ _ _ Hm E) H).
Qed.

Lemma flat_attrs_unique lists a : forall m m', keys_unique m -> flat_attrs lists a m = Some m' -> keys_unique m'.
Proof.
  induction a as [|[k v] a IH]; intros m m' Hm H; cbn [flat_attrs fst snd] in H.
  - inversion H; subst; exact Hm.
  - destruct (flat_val lists k v m) as [m1|] eqn:E; [|discriminate]. apply (IH m1 m' (flat_val_unique _ _ _ _ _ Hm E) H).
Qed.

Lemma otlp_tag_keys_unique ra s p : otlp_pushed ra s = Some p -> keys_unique (p_tags p).
Proof.
  unfold otlp_pushed. destruct (flat_attrs true (populate (o_attrs s ++ ra)%list) []) as [m|] eqn:E; [|discriminate].
  intros H. inversion H; subst p. cbn [p_tags]. apply upsert_nodup. refine (flat_attrs_unique _ _ [] _ _ E). constructor.
Qed.

Lemma otlp_tags_unique_l b ps : pushed_of (InOtlp b) = Some ps -> Forall (fun p => keys_unique (p_tags p)) ps.
Proof.
  cbn [pushed_of]. generalize (batch_spans b). intros l. revert ps.
  induction l as [|[ra s] l IH]; intros ps H; cbn [mapM fst snd] in H.
  - inversion H. constructor.
  - destruct (otlp_pushed ra s) as [p|] eqn:Ep; [|discriminate].
    destruct (mapM (fun x => otlp_pushed (fst x) (snd x)) l) as [ps'|]; [|discriminate]. inversion H; subst.
    constructor; [apply (otlp_tag_keys_unique _ _ _ Ep)|apply IH; reflexivity].
Qed.

(* ================================================================== read_back for every request *)
Definition in_range (i : input) : Prop := match i with InOtlp b => otlp_times_ok b | InZipkin _ _ => True end.

Lemma read_back_l : forall inp rows ps,
  decode fixed inp = Some rows -> pushed_of inp = Some ps -> in_range inp ->
  Forall2 (fun p sr => reads_back p (read_row fixed (in_elems inp) (fst sr))) ps rows.
Proof.
  intros inp rows ps Hd Hp Hr. destruct inp as [b|nd es]; cbn [decode in_elems] in *.
  - apply (otlp_read_back b rows ps Hd Hp Hr).
  - apply (zipkin_read_back nd es rows ps Hd Hp).
Qed.

(* a Zipkin span whose parentId has 3 hex digits: stored with parent 0x0000000000000abc *)
Definition short_parent_span : jv :=
  JObj [("traceId", JStr "0af7651916cd43dd8448eb211c80319c"); ("id", JStr "b7ad6b7169203331"); ("parentId", JStr "abc");
        ("name", JStr "op"); ("timestamp", JInt 1727700000000000); ("duration", JInt 5)].

(* ================================================================== examples: hypotheses are satisfiable, legacy witnesses *)
Definition model_case (q : quirks) (inp : input) : case :=
  match decode q inp with
  | None => {| c_id := 0; c_in := inp; c_delivery := {| d_mode := 0; d_seed := 0 |}; c_err := true; c_rows := []; c_tags := []; c_read := [] |}
  | Some rs => {| c_id := 0; c_in := inp; c_delivery := {| d_mode := 0; d_seed := 0 |}; c_err := false; c_rows := map fst rs; c_tags := List.concat (map snd rs);
                  c_read := map (read_row q (in_elems inp)) (map fst rs) |}
  end.

Definition ex_otlp : input :=
  InOtlp [ {| r_has_res := true; r_attrs := [("service.name", AStr "frontend"); ("host", AStr "h1")];
              r_scopes := [[ {| o_trace := hx "0af7651916cd43dd8448eb211c80319c"; o_span := hx "b7ad6b7169203331"; o_parent := "";
                                o_name := "GET /x"; o_start := 1727700000000000000; o_end := 1727700000000005000; o_kind := 3;
                                o_attrs := [("peer.service", AStr "db"); ("arr", AList [AStr "x"; AInt 7]);
                                            ("m", AMap [("in", ADouble 1500000); ("deep", AMap [("b", ABool true)])])] |};
                             {| o_trace := hx "0af7651916cd43dd8448eb211c80319c"; o_span := hx "00f067aa0ba902b7";
                                o_parent := hx "b7ad6b7169203331"; o_name := "child"; o_start := 1727700000000001000;
                                o_end := 1727700000000002000; o_kind := 1; o_attrs := [] |} ]] |} ].

Definition ex_zipkin (nd : bool) : input :=
  InZipkin nd [ JObj [("traceId", JStr "0af7651916cd43dd8448eb211c80319c"); ("id", JStr "b7ad6b7169203331");
                      ("parentId", JStr "00f067aa0ba902b7"); ("name", JStr "first"); ("timestamp", JInt 1727700000000000);
                      ("duration", JStr "5");
                      ("localEndpoint", JObj [("serviceName", JStr "frontend"); ("ipv4", JStr "10.0.0.1")]);
                      ("remoteEndpoint", JObj [("serviceName", JStr "db")]);
                      ("tags", JObj [("k1", JStr "v1"); ("n", JInt 3)])];
                JObj [("id", JStr "1"); ("traceId", JStr "abc"); ("name", JStr "second"); ("tags", JObj [("k2", JStr "v2")])] ].

Example ex_otlp_accepted :
  exists rows ps, decode fixed ex_otlp = Some rows /\ pushed_of ex_otlp = Some ps /\ List.length rows = 2%nat /\
                  in_range ex_otlp /\ spec_ok (model_case fixed ex_otlp) = true.
Proof.
  destruct (decode fixed ex_otlp) as [rows|] eqn:Ed; [|vm_compute in Ed; discriminate].
  destruct (pushed_of ex_otlp) as [ps|] eqn:Ep; [|vm_compute in Ep; discriminate].
  exists rows, ps. split; [reflexivity|]. split; [reflexivity|]. split; [vm_compute in Ed; inversion Ed; reflexivity|].
  split; [|vm_compute; reflexivity].
  intros x Hx. vm_compute in Hx. destruct Hx as [<-|[<-|[]]]; vm_compute; repeat split; discriminate.
Qed.

Example ex_zipkin_accepted : forall nd,
  exists rows ps, decode fixed (ex_zipkin nd) = Some rows /\ pushed_of (ex_zipkin nd) = Some ps /\ List.length rows = 2%nat /\
                  spec_ok (model_case fixed (ex_zipkin nd)) = true.
Proof.
  intros nd. destruct nd.
  - destruct (decode fixed (ex_zipkin true)) as [rows|] eqn:Ed; [|vm_compute in Ed; discriminate].
    destruct (pushed_of (ex_zipkin true)) as [ps|] eqn:Ep; [|vm_compute in Ep; discriminate].
    exists rows, ps. split; [reflexivity|]. split; [reflexivity|]. split; [vm_compute in Ed; inversion Ed; reflexivity|].
    vm_compute; reflexivity.
  - destruct (decode fixed (ex_zipkin false)) as [rows|] eqn:Ed; [|vm_compute in Ed; discriminate].
    destruct (pushed_of (ex_zipkin false)) as [ps|] eqn:Ep; [|vm_compute in Ep; discriminate].
    exists rows, ps. split; [reflexivity|]. split; [reflexivity|]. split; [vm_compute in Ed; inversion Ed; reflexivity|].
    vm_compute; reflexivity.
Qed.

(* the behaviour before the four repairs violates the property on these very requests *)
Example legacy_list_attrs_dropped :
  spec_ok (model_case (with_quirk 0) ex_otlp) = false.
Proof. vm_compute. reflexivity. Qed.
Example legacy_peer_service_rewrites :
  spec_ok (model_case (with_quirk 3) ex_otlp) = false.
Proof. vm_compute. reflexivity. Qed.
Example legacy_remote_overrides_local :
  spec_ok (model_case (with_quirk 1) (ex_zipkin false)) = false.
Proof. vm_compute. reflexivity. Qed.
Example legacy_short_parent_lost :
  spec_ok (model_case (with_quirk 4)
                      (InZipkin false [short_parent_span])) = false
  /\ spec_ok (model_case fixed (InZipkin false [short_parent_span])) = true.
Proof. vm_compute. split; reflexivity. Qed.
(* a ResourceSpans entry without the (optional) resource message: a resource without attributes.  Every span of the export gets its
   rows and reads back; before the repair the nil dereference refused the whole export *)
Definition ex_otlp_nores : input :=
  InOtlp [ {| r_has_res := false; r_attrs := [];
              r_scopes := [[]; [ {| o_trace := hx "a2a2a2a2a2a2a2a2a2a2a2a2a2a2a2a2"; o_span := hx "1212121212121212"; o_parent := "";
                                    o_name := "lookup"; o_start := 1727700000000000000; o_end := 1727700000000005000; o_kind := 1;
                                    o_attrs := [("k", AStr "v")] |} ]] |};
           {| r_has_res := true; r_attrs := [("service.name", AStr "cart")];
              r_scopes := [[ {| o_trace := hx "a3a3a3a3a3a3a3a3a3a3a3a3a3a3a3a3"; o_span := hx "1313131313131313"; o_parent := "";
                                o_name := "render"; o_start := 1727700000000001000; o_end := 1727700000000002000; o_kind := 2;
                                o_attrs := [] |} ]] |} ].
Example ex_nil_resource_accepted :
  option_map (map (fun sr => (t_name (fst sr), t_service (fst sr)))) (decode fixed ex_otlp_nores)
    = Some [("lookup", "OTLPResourceNoServiceName"); ("render", "cart")]
  /\ option_map (@List.length _) (pushed_of ex_otlp_nores) = Some 2%nat
  /\ spec_ok (model_case fixed ex_otlp_nores) = true
  /\ decode (with_quirk 6) ex_otlp_nores = None.
Proof. vm_compute. repeat split; reflexivity. Qed.
(* microseconds * 1000 beyond int64: the write path before the repair stored the wrapped-around product (here a span of
   the year 2262 with a NEGATIVE start time); now the request is refused *)
Definition overflow_span : jv :=
  JObj [("traceId", JStr "0af7651916cd43dd8448eb211c80319c"); ("id", JStr "b7ad6b7169203331");
        ("name", JStr "op"); ("timestamp", JInt 9223372036854776); ("duration", JInt 5)].
Example legacy_time_wraps :
  option_map (map (fun sr => t_ts (fst sr))) (decode (with_quirk 5) (InZipkin false [overflow_span])) = Some [-9223372036854775616]
  /\ spec_ok (model_case (with_quirk 5) (InZipkin false [overflow_span])) = false
  /\ decode fixed (InZipkin false [overflow_span]) = None.
Proof. vm_compute. repeat split. Qed.
Example legacy_ndjson_state :
  spec_ok (model_case (with_quirk 2) (ex_zipkin true)) = false
  /\ spec_ok (model_case (with_quirk 2) (ex_zipkin false)) = true.
Proof. vm_compute. split; reflexivity. Qed.

(* ================================================================== the check's oracle accepts the model's own output
   (so that, through the correspondence, it is the theorems above that are tested on the implementation's observations) *)
Lemma aval_eqb_refl v : aval_eqb v v = true.
Proof.
  induction v as [s|z|b|d|s| | |l HF|l HF] using aval_ind'; cbn [aval_eqb];
    try apply String.eqb_refl; try apply Z.eqb_refl; try reflexivity.
  - destruct b; reflexivity.
  - induction HF as [|x l Hx Hl IHl]; [reflexivity|]. now rewrite Hx, IHl.
  - induction HF as [|x l Hx Hl IHl]; [reflexivity|]. now rewrite String.eqb_refl, Hx, IHl.
Qed.
Lemma attr_eqb_refl a : attr_eqb a a = true.
Proof. unfold attr_eqb. now rewrite String.eqb_refl, aval_eqb_refl. Qed.
Lemma kv_eqb_refl a : kv_eqb a a = true.
Proof. unfold kv_eqb. now rewrite !String.eqb_refl. Qed.
Lemma all2_refl {A} (eqb : A -> A -> bool) : (forall x, eqb x x = true) -> forall l, all2 eqb l l = true.
Proof. intros H. induction l as [|x l IH]; cbn; [reflexivity|]. now rewrite H, IH. Qed.

Lemma chunks_concat {A} (ls : list (list A)) : chunks (map (@List.length A) ls) (List.concat ls) = Some ls.
Proof.
  induction ls as [|l ls IH]; cbn [map List.concat chunks]; [reflexivity|].
  rewrite app_length. replace (Nat.ltb (List.length l + List.length (List.concat ls)) (List.length l)) with false
    by (symmetry; apply Nat.ltb_ge; lia).
  rewrite firstn_app, Nat.sub_diag, firstn_all. cbn [firstn]. rewrite app_nil_r.
  rewrite skipn_app, Nat.sub_diag, skipn_all. cbn [skipn app]. now rewrite IH.
Qed.

(* per span: everything the oracle looks at *)
Definition span_checked (inp : input) (elems : list jv) (idx : N) (p : pushed) (sr : span_rows) : Prop :=
  row_ok inp idx p (fst sr) = true /\ tag_group_ok p (snd sr) = true /\
  List.length (snd sr) = List.length (p_tags p) /\ read_ok p (read_row fixed elems (fst sr)) = true.

Lemma row_fields_ok inp idx p r : row_of p r -> payload_ok inp idx p r = true -> row_ok inp idx p r = true.
Proof.
  intros [H1 [H2 [H3 [H4 [H5 [H6 [H7 _]]]]]]] Hp. unfold row_ok.
  now rewrite H1, H2, H3, H4, H5, H6, H7, !String.eqb_refl, !Z.eqb_refl, Hp.
Qed.

Lemma tag_group_checked p tags :
  (forall a, In a tags -> a_trace a = p_trace p /\ a_span a = p_span p /\ a_ts a = p_ts p /\ a_dur a = p_dur p /\ a_date a = date_of (p_ts p)) ->
  map kv_of tags = p_tags p -> tag_group_ok p tags = true.
Proof.
  intros Hall Hkv. unfold tag_group_ok. apply andb_true_intro. split.
  - apply forallb_forall. intros a Ha. destruct (Hall a Ha) as [E1 [E2 [E3 [E4 E5]]]].
    now rewrite E1, E2, E3, E4, E5, !String.eqb_refl, !Z.eqb_refl.
  - fold kv_of. change (fun a : arow => (a_key a, a_val a)) with kv_of. rewrite Hkv. apply perm_eqb_refl, kv_eqb_refl.
Qed.

Lemma read_checked p o : reads_back p o -> read_ok p o = true.
Proof.
  intros [r [-> [H1 [H2 [H3 [H4 [H5 [H6 [_ [H8 H9]]]]]]]]]]. unfold read_ok.
  rewrite H1, H2, H3, H4, H5, H6, !String.eqb_refl, !Z.eqb_refl. cbn [andb]. destruct (p_ordered p) eqn:Eo.
  - destruct (H9 eq_refl) as [extra [-> Hex]].
    rewrite firstn_app, Nat.sub_diag, firstn_all. cbn [firstn]. rewrite app_nil_r.
    rewrite skipn_app, Nat.sub_diag, skipn_all. cbn [skipn app].
    unfold list_eqb. rewrite (all2_refl attr_eqb attr_eqb_refl). cbn [andb].
    apply forallb_forall. intros x Hx. rewrite Forall_forall in Hex. apply Hex, Hx.
  - rewrite (H8 eq_refl). apply perm_eqb_refl, attr_eqb_refl.
Qed.

Lemma otlp_span_checked b ra s sr p :
  otlp_span fixed ra s = Some sr -> otlp_pushed ra s = Some p -> 0 <= o_start s < two64 -> 0 <= o_end s < two64 ->
  forall idx, span_checked (InOtlp b) [] idx p sr.
Proof.
  intros Hs Hp Hst Hen idx. pose proof (otlp_read_one ra s sr p Hs Hp Hst Hen) as Hread.
  destruct (otlp_span_pushed _ _ _ _ Hs Hp) as [[Hrow _] [Hpt [Hpl [Hattrs [_ [Ht [Hsp [Hpa [Hn _]]]]]]]]].
  unfold otlp_span in Hs. cbn [fixed q_list_drop negb] in Hs. unfold otlp_pushed in Hp.
  destruct (flat_attrs true (populate (o_attrs s ++ ra)%list) []) as [m|]; [|discriminate].
  destruct sr as [row tags]. apply on_span_some in Hs. destruct Hs as [_ [_ [_ [Hkv Hall]]]].
  inversion Hp; subst p; clear Hp. unfold span_checked. cbn [fst snd p_tags p_trace p_span p_ts p_dur] in *.
  split; [|split; [|split]].
  - apply row_fields_ok; [exact Hrow|]. unfold payload_ok. rewrite Hpl, Hpt. cbn [Z.eqb Pos.eqb with_attrs o_trace o_span o_parent o_name o_attrs p_trace p_span p_parent p_name p_attrs].
    rewrite !String.eqb_refl. cbn [andb]. apply perm_eqb_refl, attr_eqb_refl.
  - apply tag_group_checked; [exact Hall|exact Hkv].
  - rewrite <- Hkv. now rewrite map_length.
  - apply read_checked, Hread.
Qed.

(* the per-request folds of the oracle *)
Lemma rows_ok_all inp : forall ps (rows : list span_rows) idx,
  Forall2 (fun p sr => forall i, row_ok inp i p (fst sr) = true) ps rows -> rows_ok inp idx ps (map fst rows) = true.
Proof.
  induction ps as [|p ps IH]; intros rows idx F; inversion F; subst; cbn [map rows_ok]; [reflexivity|].
  rewrite H1. cbn [andb]. apply IH. assumption.
Qed.

Lemma tags_ok_all ps (rows : list span_rows) :
  Forall2 (fun p sr => tag_group_ok p (snd sr) = true /\ List.length (snd sr) = List.length (p_tags p)) ps rows ->
  tags_ok ps (List.concat (map snd rows)) = true.
Proof.
  intros F. unfold tags_ok.
  assert (Hl : map (fun p => List.length (p_tags p)) ps = map (@List.length arow) (map snd rows)).
  { induction F as [|p sr ps' rows' [_ Hlen] _ IH]; cbn [map]; [reflexivity|]. now rewrite Hlen, IH. }
  rewrite Hl, chunks_concat.
  induction F as [|p sr ps' rows' [Hg _] F' IH]; cbn [map all2]; [reflexivity|]. rewrite Hg. cbn [andb]. apply IH.
  inversion Hl. reflexivity.
Qed.

Lemma zipkin_checked_from nd es_all es : forall i st rows ps,
  (forall k e, nth_error es k = Some e -> nth_error es_all (N.to_nat i + k) = Some e) ->
  zipkin_from fixed nd i st es = Some rows -> forallb z_wellformed es = true -> mapM zipkin_pushed es = Some ps ->
  rows_ok (InZipkin nd es_all) i ps (map fst rows) = true /\
  Forall2 (fun p sr => tag_group_ok p (snd sr) = true /\ List.length (snd sr) = List.length (p_tags p)) ps rows /\
  reads_ok ps (map (read_row fixed es_all) (map fst rows)) = true.
Proof.
  induction es as [|e es IH]; intros i st rows ps Hidx Hd Hwf Hp.
  - cbn in Hd, Hp. inversion Hd; inversion Hp. cbn. split; [reflexivity|]. split; [constructor|reflexivity].
  - cbn [zipkin_from] in Hd. replace (nd && q_nd_stateful fixed) with false in Hd by (cbn; now rewrite andb_false_r).
    destruct (decode_span fixed (set_payload z_init (PRef i)) e) as [[sr st']|] eqn:Ed; [|discriminate].
    destruct (zipkin_from fixed nd (i + 1) st' es) as [rs|] eqn:Er; [|discriminate]. inversion Hd; subst rows; clear Hd.
    cbn [forallb] in Hwf. apply andb_prop in Hwf. destruct Hwf as [Hwe Hwf].
    cbn [mapM] in Hp. destruct (zipkin_pushed e) as [p|] eqn:Epu; [|discriminate].
    destruct (mapM zipkin_pushed es) as [ps'|] eqn:Eps; [|discriminate]. inversion Hp; subst ps; clear Hp.
    destruct (decode_span_pushed _ _ _ _ _ Ed Hwe Epu) as [[Hrow [Hall _]] [Hpt [Hpl [_ Hkv]]]].
    assert (Hn : nth_error es_all (N.to_nat i) = Some e).
    { specialize (Hidx 0%nat e eq_refl). now rewrite Nat.add_0_r in Hidx. }
    pose proof (zipkin_read_one es_all i e sr st' p Ed Hwe Epu Hn) as Hread.
    assert (Hidx' : forall k e', nth_error es k = Some e' -> nth_error es_all (N.to_nat (i + 1) + k) = Some e').
    { intros k e' Hk. specialize (Hidx (S k) e' Hk). replace (N.to_nat (i + 1) + k)%nat with (N.to_nat i + S k)%nat by lia. exact Hidx. }
    destruct (IH (i + 1)%N st' rs ps' Hidx' Er Hwf eq_refl) as [I1 [I2 I3]].
    unfold reads_ok in *. cbn [map rows_ok all2]. split; [|split].
    + rewrite I1, andb_true_r. apply row_fields_ok; [exact Hrow|]. unfold payload_ok. rewrite Hpl, Hpt, N.eqb_refl. reflexivity.
    + constructor; [|exact I2]. split; [apply tag_group_checked; assumption|]. rewrite <- Hkv. now rewrite map_length.
    + rewrite I3, andb_true_r. apply read_checked, Hread.
Qed.

Lemma otlp_checked_all b : forall l rows ps,
  (forall x, In x l -> 0 <= o_start (snd x) < two64 /\ 0 <= o_end (snd x) < two64) ->
  mapM (fun x => otlp_span fixed (fst x) (snd x)) l = Some rows -> mapM (fun x => otlp_pushed (fst x) (snd x)) l = Some ps ->
  Forall2 (fun p sr => forall i, span_checked (InOtlp b) [] i p sr) ps rows.
Proof.
  induction l as [|[ra s] l IH]; intros rows ps Ht Hd Hp; cbn [mapM fst snd] in Hd, Hp.
  - inversion Hd; inversion Hp. constructor.
  - destruct (otlp_span fixed ra s) as [sr|] eqn:Es; [|discriminate].
    destruct (mapM (fun x => otlp_span fixed (fst x) (snd x)) l) as [rs|]; [|discriminate].
    destruct (otlp_pushed ra s) as [p|] eqn:Ep; [|discriminate].
    destruct (mapM (fun x => otlp_pushed (fst x) (snd x)) l) as [ps'|]; [|discriminate].
    inversion Hd; inversion Hp; subst. constructor.
    + destruct (Ht (ra, s) (or_introl eq_refl)) as [H1 H2]. intros i. apply (otlp_span_checked b ra s sr p Es Ep H1 H2).
    + apply IH; try reflexivity. intros x Hx. apply Ht. now right.
Qed.

Lemma reads_ok_otlp (ps : list pushed) (rows : list span_rows) :
  Forall2 (fun p sr => read_ok p (read_row fixed [] (fst sr)) = true) ps rows ->
  reads_ok ps (map (read_row fixed []) (map fst rows)) = true.
Proof.
  intros F. unfold reads_ok. induction F as [|p sr ps' rows' Hr _ IH]; cbn [map all2]; [reflexivity|]. now rewrite Hr, IH.
Qed.

Lemma Forall2_imp {A B} (R S : A -> B -> Prop) a b : (forall x y, R x y -> S x y) -> Forall2 R a b -> Forall2 S a b.
Proof. intros H F. induction F; constructor; auto. Qed.

(* one OutputQuery call over all rows of an accepted request returns every pushed span, in order: no row ends the output early *)
Theorem one_query_reads_all_l : forall inp rows ps,
  decode fixed inp = Some rows -> pushed_of inp = Some ps -> in_range inp ->
  Forall2 (fun p r => reads_back p (Some r)) ps (output_query fixed (in_elems inp) (map fst rows)).
Proof.
  intros inp rows ps Hd Hp Hr. pose proof (read_back_l inp rows ps Hd Hp Hr) as F. clear Hd Hp Hr.
  induction F as [|p sr ps' rows' H _ IH]; [constructor|].
  cbn [map output_query]. destruct H as (r & Hread & Hrest).
  assert (Ht : (t_ptype (fst sr) =? 1) || (t_ptype (fst sr) =? 2) = true).
  { unfold read_row in Hread. destruct (t_ptype (fst sr) =? 1); [reflexivity|]. destruct (t_ptype (fst sr) =? 2); [reflexivity|discriminate]. }
  rewrite Ht, Hread. constructor; [exists r; split; [reflexivity|exact Hrest]|exact IH].
Qed.
(* ... while a stored row that does not decode ends the output of its trace and a row of an unknown payload type is passed over *)
Example ex_query_loop :
  let rows := match decode fixed ex_otlp with Some rs => map fst rs | None => [] end in
  List.length (output_query fixed [] rows) = 2%nat
  /\ List.length (output_query fixed [] (update_nth 0 (fun r => with_payload r POther) rows)) = 0%nat
  /\ List.length (output_query fixed [] (update_nth 0 (fun r => with_ptype r 3) rows)) = 1%nat.
Proof. vm_compute. repeat split; reflexivity. Qed.

Theorem model_meets_spec_l : forall inp, in_range inp -> spec_ok (model_case fixed inp) = true.
Proof.
  intros inp Hr. unfold model_case. destruct (decode fixed inp) as [rows|] eqn:Ed; [|reflexivity].
  unfold spec_ok. cbn [c_err c_in c_rows c_tags c_read].
  destruct (pushed_of inp) as [ps|] eqn:Ep.
  2: { destruct inp as [b|nd es]; [reflexivity|]. cbn [must_reject].
       destruct (forallb z_wellformed es) eqn:Hwf; [|reflexivity].
       exfalso. apply (accepted_denotes_l nd es rows Ed Hwf Ep). }
  destruct (forallb widths_ok ps); [|reflexivity].
  destruct inp as [b|nd es]; cbn [decode in_elems in_range] in *.
  - cbn [pushed_of] in Ep. apply otlp_decode_some in Ed. destruct Ed as [Ed _]. rewrite (otlp_decode_flat b) in Ed.
    pose proof (otlp_checked_all b _ _ _ Hr Ed Ep) as F.
    assert (F1 : Forall2 (fun p sr => forall i, row_ok (InOtlp b) i p (fst sr) = true) ps rows)
      by (eapply Forall2_imp; [|exact F]; intros p sr H i; apply (H i)).
    assert (F2 : Forall2 (fun p sr => tag_group_ok p (snd sr) = true /\ List.length (snd sr) = List.length (p_tags p)) ps rows)
      by (eapply Forall2_imp; [|exact F]; intros p sr H; destruct (H 0%N) as [_ [H2 [H3 _]]]; tauto).
    assert (F3 : Forall2 (fun p sr => read_ok p (read_row fixed [] (fst sr)) = true) ps rows)
      by (eapply Forall2_imp; [|exact F]; intros p sr H; destruct (H 0%N) as [_ [_ [_ H4]]]; exact H4).
    rewrite (rows_ok_all _ _ _ _ F1), (tags_ok_all _ _ F2). cbn [andb].
    apply reads_ok_otlp, F3.
  - cbn [pushed_of] in Ep. destruct (forallb z_wellformed es) eqn:Hwf; [|discriminate].
    unfold zipkin_decode in Ed.
    destruct (zipkin_checked_from nd es es 0%N z_init rows ps (fun k e H => H) Ed Hwf Ep) as [H1 [H2 H3]].
    now rewrite H1, (tags_ok_all _ _ H2), H3.
Qed.

(* ================================================================== delivery of the body
   What the model predicts and what the oracle demands for a request do not depend on how its body was cut into
   Reads; in particular the payload of the k-th Zipkin span is its own text (PRef k) under every delivery.  This holds
   by construction (delivery is not an argument of the decoders), it is stated so that the check's treatment of the
   segmented-delivery cases is explicit: the same expectation is compared with observations made under all deliveries. *)
Lemma segmentation_irrelevant_l c d :
  model_mismatch (with_delivery c d) = model_mismatch c /\ spec_violation (with_delivery c d) = spec_violation c.
Proof. split; reflexivity. Qed.

Lemma zipkin_payload_from nd es : forall rows st i,
  zipkin_from fixed nd i st es = Some rows ->
  forall k sr, nth_error rows k = Some sr -> t_payload (fst sr) = PRef (i + N.of_nat k) /\ t_ptype (fst sr) = 1.
Proof.
  induction es as [|e es IH]; intros rows st i Hd k sr Hn.
  - cbn in Hd. inversion Hd; subst. destruct k; discriminate Hn.
  - cbn [zipkin_from] in Hd. replace (nd && q_nd_stateful fixed) with false in Hd by (cbn; now rewrite andb_false_r).
    destruct (decode_span fixed (set_payload z_init (PRef i)) e) as [[sr0 st']|] eqn:Ed; [|discriminate].
    destruct (zipkin_from fixed nd (i + 1) st' es) as [rs|] eqn:Er; [|discriminate]. inversion Hd; subst rows; clear Hd.
    destruct k as [|k]; cbn [nth_error] in Hn.
    + inversion Hn; subst sr0. clear IH. unfold decode_span in Ed. destruct e as [| | | | |fs|]; try discriminate.
      destruct (z_fields fixed (set_payload z_init (PRef i)) fs) as [st1|] eqn:Ez; [|discriminate].
      pose proof (reg_payload _ _ _ Ez) as Rpl. cbn [set_payload z_payload] in Rpl. unfold option_map in Ed.
      destruct (on_span 1 (z_tid st1) (z_sid st1) (z_ts st1) (z_dur st1) (z_parent st1) (z_name st1) (z_svc st1) (z_payload st1)
                        (z_kv st1 ++ [(k_service, z_svc st1)])%list) as [[row tags]|] eqn:Eo; [|discriminate].
      inversion Ed; subst. apply on_span_some in Eo. destruct Eo as [_ [_ [-> _]]]. cbn. rewrite Rpl.
      split; [f_equal; lia|reflexivity].
    + destruct (IH rs st' (i + 1)%N Er k sr Hn) as [H1 H2]. split; [|exact H2]. rewrite H1. f_equal. lia.
Qed.

Lemma zipkin_payload_is_own_text nd es rows :
  zipkin_decode fixed nd es = Some rows ->
  forall k sr, nth_error rows k = Some sr -> t_payload (fst sr) = PRef (N.of_nat k) /\ t_ptype (fst sr) = 1.
Proof. intros Hd k sr Hn. apply (zipkin_payload_from nd es rows z_init 0%N Hd k sr Hn). Qed.
