(* Proofs about model/FlushRule.v (property C04): whatever the lengths the rule looks at, every sample of a body has the
   series row of its day and type among the rows the request's chunks carry, or in the cache the body was parsed against. *)
From Coq Require Import List ZArith Lia Bool.
From Qryn Require Import model.SeriesIndex model.FlushRule proofs.SeriesIndexProofs.
Import ListNotations.
Open Scope Z_scope.

(* the rows stored once every chunk sent so far has been inserted *)
Definition ins (c : list row) (out : list chunk) : list row := fold_left (fun rows ch => fst ch ++ rows) out c.

Lemma ins_app c out ch : ins c (out ++ [ch]) = fst ch ++ ins c out.
Proof. unfold ins. now rewrite fold_left_app. Qed.

Lemma ins_incl c : forall out, incl c (ins c out).
Proof.
  intros out. induction out as [|ch out IH] using rev_ind; [apply incl_refl|].
  rewrite ins_app. now apply incl_appr.
Qed.

Lemma ins_origin c : forall out x, In x (ins c out) -> In x (flat_map fst out) \/ In x c.
Proof.
  intros out. induction out as [|ch out IH] using rev_ind; intros x Hx; [now right|].
  rewrite ins_app in Hx. rewrite flat_map_app. cbn [flat_map]. rewrite app_nil_r.
  apply in_app_or in Hx. destruct Hx as [Hx|Hx].
  - left. apply in_or_app. now right.
  - destruct (IH x Hx) as [H|H]; [left; apply in_or_app; now left|now right].
Qed.

Definition rinv (c : list row) (f : flight) (out : list chunk) : Prop :=
  covered (ins c out) f /\ f_ok f = true /\
  (forall x, In x (flat_map snd out) -> In x (f_done f)) /\
  (forall x, In x (f_ann f) -> In x (flat_map fst out)).

Lemma feed_inv c f size out z :
  rinv c f out ->
  let '(f', _, out') := feed c (f, size, out) z in rinv c f' out'.
Proof.
  intros [Hc [Hok [Hd Ha]]]. unfold feed.
  set (st := {| cache := c; ts_rows := ins c out; acked := []; pending := [] |}).
  assert (E : more_req (cache_state c) f [z_stream z] = more_req st f [z_stream z]) by reflexivity.
  rewrite E. set (f1 := more_req st f [z_stream z]).
  assert (H1 : covered (ins c out) f1) by (apply (more_covered st f [z_stream z]); [apply ins_incl|exact Hc]).
  destruct (size + spl_bytes z + (Z.of_nat (length (f_rows f1)) - Z.of_nat (length (f_rows f))) * (14 + z_doc z) >? flush_limit).
  - split; [|split; [|split]].
    + rewrite ins_app. cbn [chunk_of fst]. exact (send_covered (ins c out) f1 true true H1).
    + cbn [send_chunk f_ok]. change (f_ok f1) with (f_ok f). rewrite Hok. now rewrite !orb_true_r.
    + intros x Hx. rewrite flat_map_app in Hx. cbn [flat_map chunk_of snd] in Hx. rewrite app_nil_r in Hx.
      cbn [send_chunk f_done]. apply in_app_or in Hx. apply in_or_app. destruct Hx as [Hx|Hx]; [right|now left].
      change (f_done f1) with (f_done f). now apply Hd.
    + intros x Hx. cbn [send_chunk f_ann] in Hx. rewrite flat_map_app. cbn [flat_map chunk_of fst]. rewrite app_nil_r.
      apply in_app_or in Hx. apply in_or_app. destruct Hx as [Hx|Hx]; [now right|left].
      change (f_ann f1) with (f_ann f) in Hx. now apply Ha.
  - split; [exact H1|]. split; [exact Hok|]. split; [exact Hd|exact Ha].
Qed.

Lemma fold_feed_inv c : forall zs f size out,
  rinv c f out -> let '(f', _, out') := fold_left (feed c) zs (f, size, out) in rinv c f' out'.
Proof.
  induction zs as [|z zs IH]; intros f size out H; cbn [fold_left]; [exact H|].
  pose proof (feed_inv c f size out z H) as H1.
  destruct (feed c (f, size, out) z) as [[f1 size1] out1]. apply IH. exact H1.
Qed.

Theorem rule_body_covered c zs : forall fp d t,
  In (fp, d, t) (flat_map snd (chunks_of c zs)) ->
  In (d, fp, t) (flat_map fst (chunks_of c zs)) \/ In (d, fp, t) c.
Proof.
  intros fp d t Hin. unfold chunks_of in *.
  assert (H0 : rinv c empty_flight []).
  { split; [apply covered_empty|]. split; [reflexivity|]. split; intros x []. }
  pose proof (fold_feed_inv c zs empty_flight 0 [] H0) as H.
  destruct (fold_left (feed c) zs (empty_flight, 0, [])) as [[f size] out].
  destruct H as [[_ Hc] [_ [Hd Ha]]].
  rewrite flat_map_app in *. cbn [flat_map chunk_of fst snd] in *. rewrite app_nil_r in *.
  assert (Hs : In (fp, d, t) (f_spl f ++ f_done f)).
  { apply in_app_or in Hin. apply in_or_app. destruct Hin as [Hin|Hin]; [right; now apply Hd|now left]. }
  destruct (Hc fp d t Hs) as [H|[H|H]].
  - left. apply in_or_app. now right.
  - left. apply in_or_app. left. now apply Ha.
  - destruct (ins_origin c out _ H) as [H'|H']; [left; apply in_or_app; now left|now right].
Qed.

(* three streams of one series: the first crosses the limit alone (its row goes out in chunk 1), the samples of the
   other two follow in later chunks without a row of their own *)
Definition ex_z (len : Z) (ts : Z) : zstream :=
  {| z_stream := {| s_fp := 7; s_entries := [{| e_ts := ts; e_type := TLog |}] |}; z_lens := [len]; z_doc := 11 |}.
Example rule_example :
  chunks_of [] [ex_z 1100000 1704888000000000000; ex_z 600000 1704888060000000000; ex_z 600000 1704888120000000000] =
  [([(19732, 7, 1)], [(7, 19732, 1)]); ([], [(7, 19732, 1); (7, 19732, 1)]); ([], [])].
Proof. vm_compute. reflexivity. Qed.
