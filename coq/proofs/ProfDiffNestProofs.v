(* Nesting of the diff view (property C16): the bars computeFlameGraphDiff lays out for two good trees nest, on the
   left and on the right side, inside the bar of their parent one level up. *)
From Coq Require Import List NArith ZArith Bool Lia Permutation.
From Qryn Require Import model.Pprof model.ProfTree model.ProfDiff model.ProfSql proofs.PprofProofs proofs.ProfTreeProofs proofs.ProfDiffProofs
                         proofs.ProfSqlProofs proofs.ProfNestProofs.
Import ListNotations.
Open Scope Z_scope.

(* ------------------------------------------------------------------ nesting of the diff view (absolute bars) *)
Definition dgood (ns : list (N * list tnode)) : Prop :=
  forall p c, In c (children ns p) ->
    0 <= t_self c /\ 0 <= t_total c /\ t_total c = t_self c + sum_total_of (children ns (t_id c)).
Definition aligned (n1 n2 : list (N * list tnode)) : Prop :=
  forall p, map t_id (children n1 p) = map t_id (children n2 p).

Definition inside_l (b b' : dbar) : Prop := d_xl b' <= d_xl b /\ d_xl b + d_tl b <= d_xl b' + d_tl b'.
Definition inside_r (b b' : dbar) : Prop := d_xr b' <= d_xr b /\ d_xr b + d_tr b <= d_xr b' + d_tr b'.
Definition level_at (levels : list (list dbar)) (k : nat) : list dbar := nth k levels [].
(* every bar of every level but the first lies, on both sides, inside the bar one level up of the node it names as parent *)
Definition dnested (levels : list (list dbar)) : Prop :=
  forall k b, In b (level_at levels (S k)) ->
    exists b', In b' (level_at levels k) /\ d_id b' = d_parent b /\ inside_l b b' /\ inside_r b b'.

Lemma add_at_level : forall lvl levels b k x,
  In x (level_at (add_at levels lvl b) k) <-> In x (level_at levels k) \/ (k = lvl /\ x = b).
Proof.
  unfold level_at. induction lvl as [|lvl IH]; intros levels b k x.
  - destruct levels as [|l r]; destruct k as [|k]; cbn [add_at nth].
    + cbn [In]. intuition congruence.
    + destruct k; cbn [nth In]; intuition congruence.
    + rewrite in_app_iff. cbn [In]. intuition congruence.
    + intuition congruence.
  - destruct levels as [|l r]; destruct k as [|k]; cbn [add_at nth].
    + cbn [In]. intuition congruence.
    + rewrite IH. destruct k; cbn [nth In]; intuition congruence.
    + intuition congruence.
    + rewrite IH. intuition congruence.
Qed.

Lemma sum_total_app a b : sum_total_of (a ++ b) = sum_total_of a + sum_total_of b.
Proof. unfold sum_total_of. rewrite map_app. apply sumZ_app. Qed.
Lemma sum_total_rev l : sum_total_of (rev l) = sum_total_of l.
Proof.
  induction l as [|x l IH]; [reflexivity|]. cbn [rev]. rewrite sum_total_app, IH, !sum_total_cons.
  change (sum_total_of []) with 0. lia.
Qed.

Lemma pair_up_spec : forall cl cr, map t_id cl = map t_id cr ->
  map fst (pair_up cl cr) = cl /\ map snd (pair_up cl cr) = cr /\
  (forall pr, In pr (pair_up cl cr) -> In (fst pr) cl /\ In (snd pr) cr /\ t_id (snd pr) = t_id (fst pr)).
Proof.
  induction cl as [|l cl IH]; intros cr H; destruct cr as [|r cr]; cbn [map] in H; try discriminate.
  - cbn. split; [reflexivity|]. split; [reflexivity|]. intros pr0 [].
  - inversion H as [[Hid Hrest]]. cbn [pair_up hd tl map fst snd].
    destruct (IH cr Hrest) as (H1 & H2 & H3). rewrite H1, H2. split; [reflexivity|]. split; [reflexivity|].
    intros pr [<-|Hpr]; cbn [fst snd].
    + split; [left; reflexivity|]. split; [left; reflexivity|congruence].
    + destruct (H3 pr Hpr) as (A & B & C). split; [right; exact A|]. split; [right; exact B|exact C].
Qed.

Definition pairs_l (ps : list (tnode * tnode)) : Z := sum_total_of (map fst ps).
Definition pairs_r (ps : list (tnode * tnode)) : Z := sum_total_of (map snd ps).

Lemma enqueue_spec : forall ps xl xr lvl par,
  (forall pr, In pr ps -> 0 <= t_total (fst pr) /\ 0 <= t_total (snd pr)) ->
  0 <= xl -> xl + pairs_l ps < two63 -> 0 <= xr -> xr + pairs_r ps < two63 ->
  forall it, In it (enqueue ps xl xr lvl par) ->
    q_level it = lvl /\ q_parent it = par /\ In (q_l it, q_r it) ps /\
    xl <= q_xl it /\ q_xl it + t_total (q_l it) <= xl + pairs_l ps /\
    xr <= q_xr it /\ q_xr it + t_total (q_r it) <= xr + pairs_r ps.
Proof.
  induction ps as [|[l r] ps IH]; intros xl xr lvl par Hnn Hxl Hbl Hxr Hbr it Hit; cbn [enqueue] in Hit; [contradiction|].
  unfold pairs_l, pairs_r in *. cbn [map fst snd] in *. rewrite !sum_total_cons in *.
  destruct (Hnn (l, r) (or_introl eq_refl)) as [Hl Hr]. cbn [fst snd] in Hl, Hr.
  assert (Hrest : forall pr, In pr ps -> 0 <= t_total (fst pr) /\ 0 <= t_total (snd pr)) by (intros pr Hpr; apply Hnn; right; exact Hpr).
  assert (Sl : 0 <= sum_total_of (map fst ps)).
  { clear - Hrest. induction ps as [|pr ps IHp]; [cbn; lia|]. cbn [map]. rewrite sum_total_cons.
    destruct (Hrest pr (or_introl eq_refl)). assert (0 <= sum_total_of (map fst ps)) by (apply IHp; intros q Hq; apply Hrest; right; exact Hq). lia. }
  assert (Sr : 0 <= sum_total_of (map snd ps)).
  { clear - Hrest. induction ps as [|pr ps IHp]; [cbn; lia|]. cbn [map]. rewrite sum_total_cons.
    destruct (Hrest pr (or_introl eq_refl)). assert (0 <= sum_total_of (map snd ps)) by (apply IHp; intros q Hq; apply Hrest; right; exact Hq). lia. }
  destruct Hit as [<-|Hit].
  - cbn [q_level q_parent q_l q_r q_xl q_xr]. split; [reflexivity|]. split; [reflexivity|]. split; [left; reflexivity|]. lia.
  - rewrite !wrap64_small in Hit by (unfold two63 in *; lia).
    destruct (IH (xl + t_total l) (xr + t_total r) lvl par Hrest ltac:(lia) ltac:(lia) ltac:(lia) ltac:(lia) it Hit)
      as (H1 & H2 & H3 & H4 & H5 & H6 & H7).
    split; [exact H1|]. split; [exact H2|]. split; [right; exact H3|]. lia.
Qed.

Section DiffNest.
  Variables n1 n2 : list (N * list tnode).
  Variable nameof : N -> Z.
  Hypothesis G1 : dgood n1.
  Hypothesis G2 : dgood n2.
  Hypothesis Hal : aligned n1 n2.

  Definition node_ok (l r : tnode) : Prop :=
    (0 <= t_self l /\ 0 <= t_total l /\ t_total l = t_self l + sum_total_of (children n1 (t_id l))) /\
    (0 <= t_self r /\ 0 <= t_total r /\ t_total r = t_self r + sum_total_of (children n2 (t_id r))) /\
    t_id r = t_id l.

  Definition item_ok (levels : list (list dbar)) (it : qitem) : Prop :=
    node_ok (q_l it) (q_r it) /\
    0 <= q_xl it /\ q_xl it + t_total (q_l it) < two63 /\ 0 <= q_xr it /\ q_xr it + t_total (q_r it) < two63 /\
    match q_level it with
    | O => True
    | S k => exists b', In b' (level_at levels k) /\ d_id b' = q_parent it /\
                        d_xl b' <= q_xl it /\ q_xl it + t_total (q_l it) <= d_xl b' + d_tl b' /\
                        d_xr b' <= q_xr it /\ q_xr it + t_total (q_r it) <= d_xr b' + d_tr b'
    end.

  Lemma item_ok_mono levels lvl b it : item_ok levels it -> item_ok (add_at levels lvl b) it.
  Proof.
    unfold item_ok. intros (H1 & H2 & H3 & H4 & H5 & H6). repeat (split; [assumption|]).
    destruct (q_level it) as [|k]; [exact I|]. destruct H6 as (b' & Hb' & Hrest). exists b'. split; [|exact Hrest].
    apply add_at_level. left. exact Hb'.
  Qed.

  Lemma diff_loop_nested : forall fuel q st,
    (forall it, In it q -> item_ok (ds_levels st) it) -> dnested (ds_levels st) ->
    dnested (ds_levels (diff_loop fuel n1 n2 nameof q st)).
  Proof.
    induction fuel as [|f IH]; intros q st Hq Hn; cbn [diff_loop]; [exact Hn|].
    destruct q as [|it q']; [exact Hn|].
    destruct (name_index (ds_names st) (nameof (t_fn (q_l it))) 0) as [names idx].
    set (b := {| d_xl := q_xl it; d_tl := t_total (q_l it); d_sl := t_self (q_l it);
                 d_xr := q_xr it; d_tr := t_total (q_r it); d_sr := t_self (q_r it);
                 d_name := idx; d_id := t_id (q_l it); d_parent := q_parent it |}).
    apply IH; cbn [ds_levels].
    - intros x Hx. apply in_app_iff in Hx. destruct Hx as [Hx|Hx].
      + apply item_ok_mono. apply Hq. right. exact Hx.
      + destruct (Hq it (or_introl eq_refl)) as ((Hl & Hr & Hid) & Hxl & Hbl & Hxr & Hbr & _).
        destruct Hl as (Hl1 & Hl2 & Hl3). destruct Hr as (Hr1 & Hr2 & Hr3).
        set (cl := children n1 (t_id (q_l it))) in *. set (cr := children n2 (t_id (q_r it))) in *.
        assert (Hids : map t_id cl = map t_id cr) by (unfold cl, cr; rewrite Hid; apply Hal).
        destruct (pair_up_spec cl cr Hids) as (P1 & P2 & P3).
        assert (Hnnp : forall pr, In pr (rev (pair_up cl cr)) -> 0 <= t_total (fst pr) /\ 0 <= t_total (snd pr)).
        { intros pr Hpr. apply in_rev in Hpr. destruct (P3 pr Hpr) as (A & B & _).
          split; [exact (proj1 (proj2 (G1 _ _ A)))|exact (proj1 (proj2 (G2 _ _ B)))]. }
        assert (EL : pairs_l (rev (pair_up cl cr)) = sum_total_of cl)
          by (unfold pairs_l; rewrite map_rev, P1; apply sum_total_rev).
        assert (ER : pairs_r (rev (pair_up cl cr)) = sum_total_of cr)
          by (unfold pairs_r; rewrite map_rev, P2; apply sum_total_rev).
        destruct (enqueue_spec (rev (pair_up cl cr)) (q_xl it) (q_xr it) (S (q_level it)) (t_id (q_l it)) Hnnp
                    Hxl ltac:(rewrite EL; lia) Hxr ltac:(rewrite ER; lia) x Hx) as (E1 & E2 & E3 & E4 & E5 & E6 & E7).
        rewrite EL in E5. rewrite ER in E7.
        apply in_rev in E3. destruct (P3 _ E3) as (A & B & C). cbn [fst snd] in A, B, C.
        unfold item_ok. split.
        * split; [exact (G1 _ _ A)|]. split; [exact (G2 _ _ B)|exact C].
        * split; [lia|]. split; [lia|]. split; [lia|]. split; [lia|]. rewrite E1.
          exists b. split; [apply add_at_level; right; split; reflexivity|]. unfold b. cbn [d_id d_xl d_tl d_xr d_tr].
          split; [symmetry; exact E2|]. lia.
    - intros k x Hx. apply add_at_level in Hx. destruct Hx as [Hx|[Hk ->]].
      + destruct (Hn k x Hx) as (b' & Hb' & Hrest). exists b'. split; [apply add_at_level; left; exact Hb'|exact Hrest].
      + destruct (Hq it (or_introl eq_refl)) as (_ & _ & _ & _ & _ & Hpar). rewrite <- Hk in Hpar.
        destruct Hpar as (b' & Hb' & Hid' & H1 & H2 & H3 & H4). exists b'.
        split; [apply add_at_level; left; exact Hb'|]. split; [exact Hid'|]. unfold inside_l, inside_r, b. cbn [d_xl d_tl d_xr d_tr]. lia.
  Qed.
End DiffNest.

(* ------------------------------------------------------------------ mergeNodes *)
Lemma children_map_keys (f : N -> list tnode) ks k :
  children (map (fun x => (x, f x)) ks) k = if existsb (N.eqb k) ks then f k else [].
Proof.
  induction ks as [|x ks IH]; [reflexivity|]. cbn [map children existsb].
  rewrite (N.eqb_sym k x). destruct (N.eqb x k) eqn:E; cbn [orb]; [apply N.eqb_eq in E; subst x; reflexivity|exact IH].
Qed.

Lemma children_empty_nokey ns k : existsb (N.eqb k) (map fst ns) = false -> children ns k = [].
Proof.
  intros H. apply children_nokey. intros Hin. assert (existsb (N.eqb k) (map fst ns) = true)
    by (apply existsb_exists; exists k; split; [exact Hin|apply N.eqb_refl]). congruence.
Qed.

Lemma union_keys_mem n1 n2 k :
  existsb (N.eqb k) (union_keys n1 n2) = existsb (N.eqb k) (map fst n1) || existsb (N.eqb k) (map fst n2).
Proof.
  unfold union_keys. rewrite existsb_app.
  destruct (existsb (N.eqb k) (map fst n1)) eqn:E1; cbn [orb]; [reflexivity|].
  induction (map fst n2) as [|x l IH]; [reflexivity|]. cbn [filter existsb].
  destruct (existsb (N.eqb x) (map fst n1)) eqn:Ex; cbn [negb].
  - rewrite IH. destruct (N.eqb k x) eqn:Ek; [|reflexivity]. apply N.eqb_eq in Ek. subst x. congruence.
  - cbn [existsb]. rewrite IH. reflexivity.
Qed.

Definition mc (n1 n2 : list (N * list tnode)) (k : N) : list tnode * list tnode :=
  merge_children (sort_by_id (children n1 k)) (sort_by_id (children n2 k)).

Lemma merge_nodes_children n1 n2 k :
  children (fst (merge_nodes n1 n2)) k = fst (mc n1 n2 k) /\ children (snd (merge_nodes n1 n2)) k = snd (mc n1 n2 k).
Proof.
  unfold merge_nodes. cbn [fst snd]. rewrite !map_map. cbn [fst snd].
  rewrite (children_map_keys (fun x => fst (mc n1 n2 x))), (children_map_keys (fun x => snd (mc n1 n2 x))).
  rewrite union_keys_mem.
  destruct (existsb (N.eqb k) (map fst n1)) eqn:E1; cbn [orb]; [split; reflexivity|].
  destruct (existsb (N.eqb k) (map fst n2)) eqn:E2; [split; reflexivity|].
  unfold mc. rewrite (children_empty_nokey n1 k E1), (children_empty_nokey n2 k E2). split; reflexivity.
Qed.

(* both Nodes maps list the same node ids under every key ... *)
Theorem merge_nodes_aligned n1 n2 : aligned (fst (merge_nodes n1 n2)) (snd (merge_nodes n1 n2)).
Proof.
  intros p. destruct (merge_nodes_children n1 n2 p) as [-> ->]. unfold mc.
  exact (proj1 (merge_children_aligned _ _)).
Qed.

(* ... and each side keeps, under every key, exactly the weight it had *)
Theorem merge_nodes_sums n1 n2 k :
  sum_total_of (children (fst (merge_nodes n1 n2)) k) = sum_total_of (children n1 k) /\
  sum_total_of (children (snd (merge_nodes n1 n2)) k) = sum_total_of (children n2 k).
Proof.
  destruct (merge_nodes_children n1 n2 k) as [-> ->]. unfold mc.
  destruct (merge_children_aligned (sort_by_id (children n1 k)) (sort_by_id (children n2 k))) as (_ & H1 & _ & H2 & _).
  rewrite H1, H2. split; [exact (proj1 (sort_by_id_sums _))|exact (proj1 (sort_by_id_sums _))].
Qed.

(* The levels of the diff view nest on both sides.  For two trees whose aligned Nodes maps (after mergeNodes) are good --
   every node non-negative with total = self + totals of its children, the zero nodes filled in included -- and whose
   totals fit int64: in the bars computeFlameGraphDiff lays out (absolute offsets, before its last pass turns them into
   gaps) every bar of every level but the first lies, in the left AND in the right coordinates, inside the bar one level
   up of the node it names as parent. Holds for whatever the loop has emitted (any fuel). *)
Theorem diff_levels_nest t1 t2 :
  let n12 := merge_nodes (m_nodes t1) (m_nodes t2) in
  dgood (fst n12) -> dgood (snd n12) ->
  tree_good t1 -> root_total t1 < two63 -> tree_good t2 -> root_total t2 < two63 ->
  dnested (ds_levels (diff_bars t1 t2)).
Proof.
  intros n12 D1 D2 Hg1 Hr1 Hg2 Hr2. unfold diff_bars. fold n12.
  destruct n12 as [n1 n2] eqn:E. cbn [fst snd] in D1, D2.
  assert (Hal : aligned n1 n2).
  { pose proof (merge_nodes_aligned (m_nodes t1) (m_nodes t2)) as H. fold n12 in H. rewrite E in H. exact H. }
  assert (S1 : sum_total_of (children n1 0%N) = root_total t1).
  { pose proof (proj1 (merge_nodes_sums (m_nodes t1) (m_nodes t2) 0%N)) as H. fold n12 in H. rewrite E in H. exact H. }
  assert (S2 : sum_total_of (children n2 0%N) = root_total t2).
  { pose proof (proj2 (merge_nodes_sums (m_nodes t1) (m_nodes t2) 0%N)) as H. fold n12 in H. rewrite E in H. exact H. }
  rewrite (total_of_exact t1 Hg1 Hr1), (total_of_exact t2 Hg2 Hr2).
  assert (P1 : 0 <= root_total t1).
  { unfold root_total. apply (proj1 (sum_le_pointwise (fun c => t_total c) (fun c => t_total c) _
      (fun c Hc => conj (proj1 (proj2 (Hg1 0%N c Hc))) (Z.le_refl _)))). }
  assert (P2 : 0 <= root_total t2).
  { unfold root_total. apply (proj1 (sum_le_pointwise (fun c => t_total c) (fun c => t_total c) _
      (fun c Hc => conj (proj1 (proj2 (Hg2 0%N c Hc))) (Z.le_refl _)))). }
  apply (diff_loop_nested n1 n2 _ D1 D2 Hal).
  - intros it [<-|[]]. unfold item_ok, node_ok. cbn [q_l q_r q_xl q_xr q_level t_self t_total t_id].
    rewrite S1, S2. repeat split; lia.
  - intros k b Hb. unfold level_at in Hb. cbn [ds_levels] in Hb. destruct k; destruct Hb.
Qed.

(* ------------------------------------------------------------------ the aligned maps of two good trees are good *)
Fixpoint ssorted (l : list tnode) : Prop :=
  match l with
  | [] => True
  | x :: r => (forall y, In y r -> (t_id x < t_id y)%N) /\ ssorted r
  end.

Lemma insert_by_id_in c l y : In y (insert_by_id c l) <-> y = c \/ In y l.
Proof.
  induction l as [|d r IH]; cbn [insert_by_id]; [cbn; intuition congruence|].
  destruct (N.leb (t_id c) (t_id d)); cbn [In]; [intuition congruence|]. rewrite IH. cbn [In]. intuition congruence.
Qed.

Lemma insert_by_id_sorted c l : ssorted l -> ~ In (t_id c) (map t_id l) -> ssorted (insert_by_id c l).
Proof.
  induction l as [|d r IH]; intros Hs Hn; cbn [insert_by_id]; [cbn; split; [intros y []|exact I]|].
  destruct Hs as [Hd Hr]. cbn [map In] in Hn.
  destruct (N.leb (t_id c) (t_id d)) eqn:E.
  - apply N.leb_le in E. assert (t_id c < t_id d)%N by lia.
    split; [|split; assumption]. intros y [<-|Hy]; [assumption|]. specialize (Hd y Hy). lia.
  - apply N.leb_gt in E. split.
    + intros y Hy. apply insert_by_id_in in Hy. destruct Hy as [->|Hy]; [exact E|exact (Hd y Hy)].
    + apply IH; [exact Hr|tauto].
Qed.

Lemma sort_by_id_spec l : NoDup (map t_id l) -> ssorted (sort_by_id l) /\ (forall y, In y (sort_by_id l) <-> In y l).
Proof.
  induction l as [|c l IH]; intros Hnd; [split; [exact I|intros y; reflexivity]|].
  cbn [map] in Hnd. inversion Hnd as [|? ? Hnot Hnd']; subst. destruct (IH Hnd') as [Hs Hm].
  cbn [sort_by_id fold_right]. fold (sort_by_id l). split.
  - apply insert_by_id_sorted; [exact Hs|]. intros Hin. apply in_map_iff in Hin. destruct Hin as [y [Hy Hin]].
    apply Hm in Hin. apply Hnot. rewrite <- Hy. apply in_map. exact Hin.
  - intros y. rewrite insert_by_id_in, Hm. cbn [In]. intuition congruence.
Qed.

Lemma merge_children_members : forall fuel A B, (length A + length B <= fuel)%nat -> ssorted A -> ssorted B ->
  (forall c, In c (fst (merge_children_f fuel A B)) ->
     In c A \/ exists d, In d B /\ c = empty_like d /\ ~ In (t_id d) (map t_id A)) /\
  (forall c, In c (snd (merge_children_f fuel A B)) ->
     In c B \/ exists d, In d A /\ c = empty_like d /\ ~ In (t_id d) (map t_id B)).
Proof.
  induction fuel as [|f IH]; intros A B Hlen HA HB.
  - destruct A; destruct B; cbn [length] in Hlen; try lia. cbn. split; intros c [].
  - destruct A as [|x A]; destruct B as [|y B]; cbn [merge_children_f].
    + cbn. split; intros c [].
    + destruct (IH [] B ltac:(cbn [length] in *; lia) I (proj2 HB)) as [I1 I2].
      destruct (merge_children_f f [] B) as [r1 r2]. cbn [fst snd] in *. split.
      * intros c [<-|Hc]; [right; exists y; split; [left; reflexivity|split; [reflexivity|intros []]]|].
        destruct (I1 c Hc) as [[]|(d & Hd & Hrest)]. right. exists d. split; [right; exact Hd|exact Hrest].
      * intros c [<-|Hc]; [left; left; reflexivity|]. destruct (I2 c Hc) as [Hc'|(d & [] & _)]. left. right. exact Hc'.
    + destruct (IH A [] ltac:(cbn [length] in *; lia) (proj2 HA) I) as [I1 I2].
      destruct (merge_children_f f A []) as [r1 r2]. cbn [fst snd] in *. split.
      * intros c [<-|Hc]; [left; left; reflexivity|]. destruct (I1 c Hc) as [Hc'|(d & [] & _)]. left. right. exact Hc'.
      * intros c [<-|Hc]; [right; exists x; split; [left; reflexivity|split; [reflexivity|intros []]]|].
        destruct (I2 c Hc) as [[]|(d & Hd & Hrest)]. right. exists d. split; [right; exact Hd|exact Hrest].
    + destruct HA as [HxA HA']. destruct HB as [HyB HB'].
      destruct (N.eqb (t_id x) (t_id y)) eqn:Eid; [|destruct (N.ltb (t_id x) (t_id y)) eqn:Elt].
      * apply N.eqb_eq in Eid.
        destruct (IH A B ltac:(cbn [length] in *; lia) HA' HB') as [I1 I2].
        destruct (merge_children_f f A B) as [r1 r2]. cbn [fst snd] in *. split.
        -- intros c [<-|Hc]; [left; left; reflexivity|]. destruct (I1 c Hc) as [Hc'|(d & Hd & He & Hn)]; [left; right; exact Hc'|].
           right. exists d. split; [right; exact Hd|]. split; [exact He|]. cbn [map In]. intros [H|H]; [|exact (Hn H)].
           specialize (HyB d Hd). lia.
        -- intros c [<-|Hc]; [left; left; reflexivity|]. destruct (I2 c Hc) as [Hc'|(d & Hd & He & Hn)]; [left; right; exact Hc'|].
           right. exists d. split; [right; exact Hd|]. split; [exact He|]. cbn [map In]. intros [H|H]; [|exact (Hn H)].
           specialize (HxA d Hd). lia.
      * apply N.ltb_lt in Elt.
        destruct (IH A (y :: B) ltac:(cbn [length] in *; lia) HA' (conj HyB HB')) as [I1 I2].
        destruct (merge_children_f f A (y :: B)) as [r1 r2]. cbn [fst snd] in *. split.
        -- intros c [<-|Hc]; [left; left; reflexivity|]. destruct (I1 c Hc) as [Hc'|(d & Hd & He & Hn)]; [left; right; exact Hc'|].
           right. exists d. split; [exact Hd|]. split; [exact He|]. cbn [map In]. intros [H|H]; [|exact (Hn H)].
           destruct Hd as [<-|Hd]; [lia|]. specialize (HyB d Hd). lia.
        -- intros c [<-|Hc].
           ++ right. exists x. split; [left; reflexivity|]. split; [reflexivity|]. cbn [map In]. intros [H|H]; [lia|].
              apply in_map_iff in H. destruct H as [z [Hz Hin]]. specialize (HyB z Hin). lia.
           ++ destruct (I2 c Hc) as [Hc'|(d & Hd & He & Hn)]; [left; exact Hc'|]. right. exists d. split; [right; exact Hd|]. split; [exact He|exact Hn].
      * apply N.ltb_ge in Elt. apply N.eqb_neq in Eid. assert (Hgt : (t_id y < t_id x)%N) by lia.
        destruct (IH (x :: A) B ltac:(cbn [length] in *; lia) (conj HxA HA') HB') as [I1 I2].
        destruct (merge_children_f f (x :: A) B) as [r1 r2]. cbn [fst snd] in *. split.
        -- intros c [<-|Hc].
           ++ right. exists y. split; [left; reflexivity|]. split; [reflexivity|]. cbn [map In]. intros [H|H]; [lia|].
              apply in_map_iff in H. destruct H as [z [Hz Hin]]. specialize (HxA z Hin). lia.
           ++ destruct (I1 c Hc) as [Hc'|(d & Hd & He & Hn)]; [left; exact Hc'|]. right. exists d. split; [right; exact Hd|]. split; [exact He|exact Hn].
        -- intros c [<-|Hc]; [left; left; reflexivity|]. destruct (I2 c Hc) as [Hc'|(d & Hd & He & Hn)]; [left; right; exact Hc'|].
           right. exists d. split; [exact Hd|]. split; [exact He|]. cbn [map In]. intros [H|H]; [|exact (Hn H)].
           destruct Hd as [<-|Hd]; [lia|]. specialize (HxA d Hd). lia.
Qed.

Definition ids_nodup (ns : list (N * list tnode)) : Prop := forall p, NoDup (map t_id (children ns p)).
(* a has no children under a node id that b holds under p while a does not *)
Definition no_orphans (a b : list (N * list tnode)) : Prop :=
  forall p d, In d (children b p) -> ~ In (t_id d) (map t_id (children a p)) -> children a (t_id d) = [].
Definition ns_good (ns : list (N * list tnode)) : Prop :=
  forall p c, In c (children ns p) ->
    0 <= t_self c /\ 0 <= t_total c /\ t_total c = t_self c + sum_total_of (children ns (t_id c)).

Lemma sorted_ids_same l : NoDup (map t_id l) -> forall i, In i (map t_id (sort_by_id l)) <-> In i (map t_id l).
Proof.
  intros Hnd i. destruct (sort_by_id_spec l Hnd) as [_ Hm]. rewrite !in_map_iff.
  split; intros [y [Hy Hin]]; exists y; (split; [exact Hy|apply Hm; exact Hin]).
Qed.

Lemma aligned_good_l a b : ns_good a -> ids_nodup a -> ids_nodup b -> no_orphans a b -> dgood (fst (merge_nodes a b)).
Proof.
  intros Hg Ha Hb Hno p c Hc.
  rewrite (proj1 (merge_nodes_sums a b (t_id c))).
  rewrite (proj1 (merge_nodes_children a b p)) in Hc. unfold mc, merge_children in Hc.
  destruct (sort_by_id_spec (children a p) (Ha p)) as [SA MA]. destruct (sort_by_id_spec (children b p) (Hb p)) as [SB MB].
  destruct (proj1 (merge_children_members _ _ _ (Nat.le_refl _) SA SB) c Hc) as [Hin|(d & Hd & -> & Hn)].
  - apply (Hg p). apply MA. exact Hin.
  - cbn [empty_like t_self t_total t_id]. apply MB in Hd.
    rewrite (Hno p d Hd) by (intros H; apply Hn; apply (sorted_ids_same _ (Ha p)); exact H).
    unfold sum_total_of. cbn. lia.
Qed.

Lemma aligned_good_r a b : ns_good b -> ids_nodup a -> ids_nodup b -> no_orphans b a -> dgood (snd (merge_nodes a b)).
Proof.
  intros Hg Ha Hb Hno p c Hc.
  rewrite (proj2 (merge_nodes_sums a b (t_id c))).
  rewrite (proj2 (merge_nodes_children a b p)) in Hc. unfold mc, merge_children in Hc.
  destruct (sort_by_id_spec (children a p) (Ha p)) as [SA MA]. destruct (sort_by_id_spec (children b p) (Hb p)) as [SB MB].
  destruct (proj2 (merge_children_members _ _ _ (Nat.le_refl _) SA SB) c Hc) as [Hin|(d & Hd & -> & Hn)].
  - apply (Hg p). apply MB. exact Hin.
  - cbn [empty_like t_self t_total t_id]. apply MA in Hd.
    rewrite (Hno p d Hd) by (intros H; apply Hn; apply (sorted_ids_same _ (Hb p)); exact H).
    unfold sum_total_of. cbn. lia.
Qed.

(* The diff view of two good trees nests on both sides: tree_good for each tree (what flamegraph_nests_from_ingest
   derives from ingest), totals within int64, node ids distinct under every parent key (true of every tree MergeTrie
   builds: merged_kids), and neither tree holds children under an id the other one has under a parent where it lacks it
   (true when node ids determine the parent across both sides and every non-root parent key is a node). *)
Theorem diff_levels_nest_trees t1 t2 :
  tree_good t1 -> root_total t1 < two63 -> tree_good t2 -> root_total t2 < two63 ->
  ids_nodup (m_nodes t1) -> ids_nodup (m_nodes t2) ->
  no_orphans (m_nodes t1) (m_nodes t2) -> no_orphans (m_nodes t2) (m_nodes t1) ->
  dnested (ds_levels (diff_bars t1 t2)).
Proof.
  intros Hg1 Hr1 Hg2 Hr2 Hn1 Hn2 Ho1 Ho2. apply diff_levels_nest; try assumption.
  - apply aligned_good_l; assumption.
  - apply aligned_good_r; assumption.
Qed.

(* the last pass of computeFlameGraphDiff loses nothing: from the gaps it emits the absolute spans are recovered (what the
   nesting oracle of the check does with the OBSERVED levels), as long as the spans are within int64 *)
Lemma relativise_reconstructs : forall l cl cr,
  (forall b, In b l -> 0 <= d_xl b /\ d_xl b + d_tl b < two63 /\ 0 <= d_tl b /\
                       0 <= d_xr b /\ d_xr b + d_tr b < two63 /\ 0 <= d_tr b) ->
  0 <= cl < two63 -> 0 <= cr < two63 ->
  dabs_values 0 cl (relativise cl cr l) = map (fun b => (d_xl b, d_xl b + d_tl b)) l /\
  dabs_values 3 cr (relativise cl cr l) = map (fun b => (d_xr b, d_xr b + d_tr b)) l.
Proof.
  induction l as [|b l IH]; intros cl cr Hb Hcl Hcr; [split; reflexivity|].
  destruct (Hb b (or_introl eq_refl)) as (A1 & A2 & A3 & B1 & B2 & B3).
  cbn [relativise app dabs_values Nat.eqb map].
  assert (E1 : wrap64 (d_xl b - cl) = d_xl b - cl) by (apply wrap64_small; unfold two63 in *; lia).
  assert (E2 : wrap64 (d_xr b - cr) = d_xr b - cr) by (apply wrap64_small; unfold two63 in *; lia).
  rewrite E1, E2.
  assert (F1 : wrap64 (cl + (d_xl b - cl) + d_tl b) = d_xl b + d_tl b)
    by (replace (cl + (d_xl b - cl) + d_tl b) with (d_xl b + d_tl b) by lia; apply wrap64_small; unfold two63 in *; lia).
  assert (F2 : wrap64 (cr + (d_xr b - cr) + d_tr b) = d_xr b + d_tr b)
    by (replace (cr + (d_xr b - cr) + d_tr b) with (d_xr b + d_tr b) by lia; apply wrap64_small; unfold two63 in *; lia).
  rewrite F1, F2.
  destruct (IH (d_xl b + d_tl b) (d_xr b + d_tr b) (fun x Hx => Hb x (or_intror Hx)) ltac:(lia) ltac:(lia)) as [I1 I2].
  replace (cl + (d_xl b - cl)) with (d_xl b) by lia. replace (cr + (d_xr b - cr)) with (d_xr b) by lia.
  rewrite I1, I2. split; reflexivity.
Qed.

(* the hypotheses are met by the merged tree of ex_profile on both sides *)
Lemma ex_diff_hypotheses :
  tree_good ex_tree /\ root_total ex_tree < two63 /\ ids_nodup (m_nodes ex_tree) /\
  no_orphans (m_nodes ex_tree) (m_nodes ex_tree) /\ length (ds_levels (diff_bars ex_tree ex_tree)) = 5%nat.
Proof.
  destruct ex_tree_hypotheses as (_ & _ & Hg & Hr & _ & _).
  split; [exact Hg|]. split; [exact Hr|]. split; [exact (merged_kids the_limit ex_rows [])|]. split.
  - intros p d Hd Hn. exfalso. apply Hn. apply in_map. exact Hd.
  - vm_compute. reflexivity.
Qed.

(* ------------------------------------------------------------------ a stored tree is closed under parents *)
Definition Closed (t : tree) : Prop := forall n, In n t -> n_parent n = 0%N \/ In (n_parent n) (map n_id t).

Lemma bump_closed t p f i leaf vs zero :
  Closed t -> (p = 0%N \/ In p (map n_id t)) -> Closed (bump t p f i leaf vs zero).
Proof.
  intros Hc Hp m Hm. destruct (bump_in _ _ _ _ _ _ _ _ Hm) as [[n [Hn [Ep Ei]]]|[Ep Ei]].
  - rewrite Ep. destruct (Hc n Hn) as [H|H]; [left; exact H|right; apply bump_keeps; left; exact H].
  - rewrite Ep. destruct Hp as [H|H]; [left; exact H|right; apply bump_keeps; left; exact H].
Qed.

Lemma walk_closed h : forall rest t p d vs zero,
  Closed t -> (p = 0%N \/ In p (map n_id t)) -> Closed (walk h t p d rest vs zero).
Proof.
  induction rest as [|f rest IH]; intros t p d vs zero Hc Hp; cbn [walk]; [exact Hc|].
  apply IH; [apply bump_closed; assumption|]. right. apply bump_keeps. right. reflexivity.
Qed.

Lemma post_process_closed h nt ss : Closed (post_process h nt ss).
Proof.
  unfold post_process.
  assert (G : forall ss t, Closed t -> Closed (fold_left (add_sample h (zero_vals nt)) ss t)).
  { clear ss. induction ss as [|s ss IH]; intros t Hc; [exact Hc|]. cbn [fold_left]. apply IH.
    apply walk_closed; [exact Hc|left; reflexivity]. }
  apply G. intros n [].
Qed.

(* ------------------------------------------------------------------ what ingest gives about the rows of a set of profiles,
   relative to ANY triple set T that contains their walked triples and on which node ids determine the parent *)
Lemma ingest_rows_facts h na T (Ps : list stored) :
  (forall P, In P Ps -> incl (triples h (normalize na (sp_samples P))) T) ->
  parent_determined h T -> Forall sel_ok Ps ->
  sumZ (map (prof_depth_weight na) Ps) < two63 -> Forall (fun P => 0 <= prof_depth_weight na P) Ps ->
  let R := concat (map (stored_rows h na) Ps) in
  (forall r, In r R -> 0 <= r_self r /\ 0 <= r_total r) /\
  sumZ (map r_self R) < two63 /\ sumZ (map r_total R) < two63 /\
  (forall r, In r R -> r_id r <> 0%N) /\ rconserves R /\ Forall row_in_range R /\
  (forall r, In r R -> exists d, In (r_parent r, r_fn r, d) T /\ r_id r = node_id h (r_parent r) (r_fn r) d) /\
  (forall r, In r R -> r_parent r = 0%N \/ exists r'', In r'' R /\ r_id r'' = r_parent r).
Proof.
  intros Hincl Hpd Hsel Hbound Hpos R.
  assert (Hle : forall P, In P Ps -> prof_depth_weight na P <= sumZ (map (prof_depth_weight na) Ps)).
  { clear - Hpos. induction Ps as [|Q Ps IH]; intros P HP; [contradiction|]. inversion Hpos as [|? ? Hq Hrest]; subst.
    cbn [map]. unfold sumZ in *. cbn [fold_right].
    assert (0 <= fold_right Z.add 0 (map (prof_depth_weight na) Ps)).
    { clear - Hrest. induction Hrest as [|x l Hx _ IHl]; cbn [map fold_right]; lia. }
    destruct HP as [->|HP]; [lia|]. specialize (IH Hrest P HP). lia. }
  assert (Hfacts : forall P, In P Ps ->
     (forall r, In r (stored_rows h na P) -> 0 <= r_self r <= r_total r /\ r_id r <> 0%N /\
        exists d, In (r_parent r, r_fn r, d) T /\ r_id r = node_id h (r_parent r) (r_fn r) d) /\
     sumZ (map r_total (stored_rows h na P)) <= prof_depth_weight na P).
  { intros P HP. apply stored_rows_facts; [exact (Hincl P HP)|exact (proj1 (Forall_forall _ _) Hsel P HP)|].
    pose proof (Hle P HP). lia. }
  assert (HinR : forall r, In r R -> exists P, In P Ps /\ In r (stored_rows h na P)).
  { intros r Hr. unfold R in Hr. apply in_concat in Hr. destruct Hr as [l [Hl Hr]]. apply in_map_iff in Hl.
    destruct Hl as [P [<- HP]]. exists P. split; assumption. }
  assert (HRin : forall P r, In P Ps -> In r (stored_rows h na P) -> In r R).
  { intros P r HP Hr. unfold R. apply in_concat. exists (stored_rows h na P). split; [apply in_map; exact HP|exact Hr]. }
  assert (Hbt : sumZ (map r_total R) < two63).
  { assert (G : sumZ (map r_total R) <= sumZ (map (prof_depth_weight na) Ps)).
    { assert (Hsum : forall P, In P Ps -> sumZ (map r_total (stored_rows h na P)) <= prof_depth_weight na P)
        by (intros P HP; exact (proj2 (Hfacts P HP))).
      unfold R. clear - Hsum. induction Ps as [|P Ps IH]; [cbn; lia|].
      cbn [map concat]. rewrite map_app, sumZ_app. unfold sumZ at 3. cbn [fold_right]. fold (sumZ (map (prof_depth_weight na) Ps)).
      pose proof (Hsum P (or_introl eq_refl)).
      assert (sumZ (map r_total (concat (map (stored_rows h na) Ps))) <= sumZ (map (prof_depth_weight na) Ps))
        by (apply IH; intros Q HQ; apply Hsum; right; exact HQ). lia. }
    lia. }
  split; [intros r Hr; destruct (HinR r Hr) as (P & HP & HrP); destruct (proj1 (Hfacts P HP) r HrP) as (H1 & _); lia|].
  split.
  { assert (G : 0 <= sumZ (map r_self R) <= sumZ (map r_total R)).
    { apply sum_le_pointwise. intros r Hr. destruct (HinR r Hr) as (P & HP & HrP). exact (proj1 (proj1 (Hfacts P HP) r HrP)). }
    lia. }
  split; [exact Hbt|].
  split; [intros r Hr; destruct (HinR r Hr) as (P & HP & HrP); exact (proj1 (proj2 (proj1 (Hfacts P HP) r HrP)))|].
  split.
  { unfold R. apply rconserves_concat. apply Forall_map. apply Forall_forall. intros P HP.
    apply (stored_rows_conserve h na P). split.
    - intros p f d p' f' d' H1 H2. apply Hpd; apply (Hincl P HP); assumption.
    - pose proof (proj1 (Forall_forall _ _) Hsel P HP) as Hs. unfold sel_ok in Hs. destruct (sp_sel P); [exact (proj1 Hs)|exact I]. }
  split.
  { apply Forall_forall. intros r Hr. destruct (HinR r Hr) as (P & HP & HrP).
    pose proof (stored_rows_in_range h na P) as HPr. rewrite Forall_forall in HPr. exact (HPr r HrP). }
  split; [intros r Hr; destruct (HinR r Hr) as (P & HP & HrP); exact (proj2 (proj2 (proj1 (Hfacts P HP) r HrP)))|].
  intros r Hr. destruct (HinR r Hr) as (P & HP & HrP). unfold stored_rows, stored_tree in HrP.
  apply in_map_iff in HrP. destruct HrP as [n [<- Hn]].
  destruct (post_process_closed h (sp_nt P) (normalize na (sp_samples P)) n Hn) as [H0|Hin].
  - left. destruct (sp_sel P); exact H0.
  - right. apply in_map_iff in Hin. destruct Hin as [m [Hm Hmin]].
    exists (project_row (sp_sel P) m). split.
    + apply (HRin P); [exact HP|]. unfold stored_rows, stored_tree. apply in_map. exact Hmin.
    + destruct (sp_sel P); exact Hm.
Qed.

(* the rows handed to MergeTrie carry the key sums of R: any order, raw or grouped *)
Lemma handover R rows : Permutation rows R \/ Permutation rows (group_rows R) -> Forall row_in_range R ->
  Forall row_in_range rows /\ (forall p i, has_key rows p i = has_key R p i) /\
  (forall p i, eqm (sum_self rows p i) (sum_self R p i)) /\ (forall p i, eqm (sum_total rows p i) (sum_total R p i)).
Proof.
  intros [Hperm|Hperm] HRr.
  - split; [apply (Permutation_Forall (Permutation_sym Hperm)); exact HRr|].
    split; [intros p i; apply has_key_perm; exact Hperm|].
    split; intros p i; apply eqm_of_eq; [unfold sum_self|unfold sum_total]; apply sumZ_map_perm; exact Hperm.
  - split; [apply (Permutation_Forall (Permutation_sym Hperm)); apply group_rows_range; exact HRr|].
    split; [intros p i; rewrite (has_key_perm _ _ p i Hperm); apply group_rows_has_key|].
    split; intros p i.
    + unfold sum_self at 1. rewrite (sumZ_map_perm _ _ _ Hperm). exact (proj1 (group_key_sums R p i)).
    + unfold sum_total at 1. rewrite (sumZ_map_perm _ _ _ Hperm). exact (proj2 (group_key_sums R p i)).
Qed.

Lemma has_key_row R p i : has_key R p i = true -> exists r, In r R /\ r_parent r = p /\ r_id r = i.
Proof.
  unfold has_key. intros H. apply existsb_exists in H. destruct H as [r [Hr Hk]]. unfold key_eqb in Hk.
  apply andb_prop in Hk. destruct Hk as [H1 H2]. apply N.eqb_eq in H1, H2. exists r. tauto.
Qed.
Lemma row_has_key R r : In r R -> has_key R (r_parent r) (r_id r) = true.
Proof. intros H. unfold has_key. apply existsb_exists. exists r. split; [exact H|]. unfold key_eqb. rewrite !N.eqb_refl. reflexivity. Qed.

(* neither merged tree holds children under an id the other has under a parent where it lacks it *)
Lemma no_orphans_from_rows limit RL rowsL fsL RR rowsR fsR :
  Z.of_nat (length rowsL) <= limit -> Forall row_in_range rowsL ->
  (forall p i, has_key rowsL p i = has_key RL p i) ->
  (forall p i, eqm (sum_self rowsL p i) (sum_self RL p i)) -> (forall p i, eqm (sum_total rowsL p i) (sum_total RL p i)) ->
  (forall r, In r RL -> 0 <= r_self r /\ 0 <= r_total r) -> sumZ (map r_self RL) < two63 -> sumZ (map r_total RL) < two63 ->
  Z.of_nat (length rowsR) <= limit -> Forall row_in_range rowsR ->
  (forall p i, has_key rowsR p i = has_key RR p i) ->
  (forall p i, eqm (sum_self rowsR p i) (sum_self RR p i)) -> (forall p i, eqm (sum_total rowsR p i) (sum_total RR p i)) ->
  (forall r, In r RR -> 0 <= r_self r /\ 0 <= r_total r) -> sumZ (map r_self RR) < two63 -> sumZ (map r_total RR) < two63 ->
  (forall r r', In r RL -> In r' RR -> r_id r = r_id r' -> r_parent r = r_parent r') ->
  (forall r, In r RR -> r_id r <> 0%N) ->
  (forall r, In r RL -> r_parent r = 0%N \/ exists r'', In r'' RL /\ r_id r'' = r_parent r) ->
  no_orphans (m_nodes (merge_trie limit new_tree rowsL fsL)) (m_nodes (merge_trie limit new_tree rowsR fsR)).
Proof.
  intros L1 L2 L3 L4 L5 L6 L7 L8 R1 R2 R3 R4 R5 R6 R7 R8 Hj Hnz Hcl p d Hd Hn.
  destruct (child_vals limit RR rowsR fsR R1 R2 R3 R4 R5 R6 R7 R8 p d Hd) as (Hk & _ & _).
  destruct (has_key_row RR p (t_id d) Hk) as (rd & Hrd & Hrdp & Hrdi).
  destruct (children (m_nodes (merge_trie limit new_tree rowsL fsL)) (t_id d)) as [|c' cs] eqn:E; [reflexivity|].
  exfalso.
  assert (Hc' : In c' (children (m_nodes (merge_trie limit new_tree rowsL fsL)) (t_id d))) by (rewrite E; left; reflexivity).
  destruct (child_vals limit RL rowsL fsL L1 L2 L3 L4 L5 L6 L7 L8 (t_id d) c' Hc') as (Hk' & _ & _).
  destruct (has_key_row RL (t_id d) (t_id c') Hk') as (r' & Hr' & Hr'p & _).
  destruct (Hcl r' Hr') as [H0|(r'' & Hr'' & Hr''i)].
  - apply (Hnz rd Hrd). congruence.
  - assert (Hq : r_parent r'' = p).
    { rewrite <- Hrdp. apply Hj; [exact Hr''|exact Hrd|congruence]. }
    apply Hn. pose proof (covered limit RL rowsL fsL L1 L2 L3 L4 L5 L6 L7 L8 (r_parent r'') (r_id r'') (row_has_key RL r'' Hr'')) as Hcov.
    rewrite Hq in Hcov. replace (t_id d) with (r_id r'') by congruence. exact Hcov.
Qed.

(* From ingest to the nested DIFF view.  Two sets of ingested profiles (the left and the right side of RenderDiff) whose
   node ids determine the parent jointly over BOTH sets, read on a sample type with non-negative values, each side's sum
   of value x stack depth below 2^63; each side's stored rows handed to MergeTrie in any order, raw or grouped: the bars
   computeFlameGraphDiff lays out nest, on the left and on the right side, inside their parent's bar one level up. *)
Theorem diff_nests_from_ingest h na limit (PsL PsR : list stored) rowsL rowsR fsL fsR :
  let RL := concat (map (stored_rows h na) PsL) in
  let RR := concat (map (stored_rows h na) PsR) in
  parent_determined h (all_triples h na (PsL ++ PsR)) ->
  Forall sel_ok PsL -> Forall sel_ok PsR ->
  sumZ (map (prof_depth_weight na) PsL) < two63 -> sumZ (map (prof_depth_weight na) PsR) < two63 ->
  Forall (fun P => 0 <= prof_depth_weight na P) PsL -> Forall (fun P => 0 <= prof_depth_weight na P) PsR ->
  Permutation rowsL RL \/ Permutation rowsL (group_rows RL) ->
  Permutation rowsR RR \/ Permutation rowsR (group_rows RR) ->
  Z.of_nat (length rowsL) <= limit -> Z.of_nat (length rowsR) <= limit ->
  dnested (ds_levels (diff_bars (merge_trie limit new_tree rowsL fsL) (merge_trie limit new_tree rowsR fsR))).
Proof.
  intros RL RR Hpd HsL HsR HbL HbR HpL HpR HrowsL HrowsR HlimL HlimR.
  set (T := all_triples h na (PsL ++ PsR)) in *.
  assert (HiL : forall P, In P PsL -> incl (triples h (normalize na (sp_samples P))) T).
  { intros P HP y Hy. unfold T, all_triples. apply in_flat_map. exists P. split; [apply in_or_app; left; exact HP|exact Hy]. }
  assert (HiR : forall P, In P PsR -> incl (triples h (normalize na (sp_samples P))) T).
  { intros P HP y Hy. unfold T, all_triples. apply in_flat_map. exists P. split; [apply in_or_app; right; exact HP|exact Hy]. }
  destruct (ingest_rows_facts h na T PsL HiL Hpd HsL HbL HpL) as (A1 & A2 & A3 & A4 & A5 & A6 & A7 & A8).
  destruct (ingest_rows_facts h na T PsR HiR Hpd HsR HbR HpR) as (B1 & B2 & B3 & B4 & B5 & B6 & B7 & B8).
  fold RL in A1, A2, A3, A4, A5, A6, A7, A8. fold RR in B1, B2, B3, B4, B5, B6, B7, B8.
  destruct (handover RL rowsL HrowsL A6) as (L2 & L3 & L4 & L5).
  destruct (handover RR rowsR HrowsR B6) as (R2 & R3 & R4 & R5).
  (* ids determine the parent on all rows of both sides *)
  assert (Hj : forall X Y r r', (forall x, In x X -> exists d, In (r_parent x, r_fn x, d) T /\ r_id x = node_id h (r_parent x) (r_fn x) d) ->
                 (forall y, In y Y -> exists d, In (r_parent y, r_fn y, d) T /\ r_id y = node_id h (r_parent y) (r_fn y) d) ->
                 In r X -> In r' Y -> r_id r = r_id r' -> r_parent r = r_parent r').
  { intros X Y r r' HX HY Hr Hr' Hid. destruct (HX r Hr) as (d & HT & Hd). destruct (HY r' Hr') as (d' & HT' & Hd').
    apply (Hpd _ _ _ _ _ _ HT HT'). congruence. }
  destruct (merged_tree_good limit RL rowsL fsL HlimL L2 L3 L4 L5 A1 A2 A3 (fun r r' => Hj RL RL r r' A7 A7) A4 A5) as [G1 T1].
  destruct (merged_tree_good limit RR rowsR fsR HlimR R2 R3 R4 R5 B1 B2 B3 (fun r r' => Hj RR RR r r' B7 B7) B4 B5) as [G2 T2].
  apply diff_levels_nest_trees; try assumption.
  - exact (merged_kids limit rowsL fsL).
  - exact (merged_kids limit rowsR fsR).
  - apply (no_orphans_from_rows limit RL rowsL fsL RR rowsR fsR); try assumption. exact (fun r r' => Hj RL RR r r' A7 B7).
  - apply (no_orphans_from_rows limit RR rowsR fsR RL rowsL fsL); try assumption. exact (fun r r' => Hj RR RL r r' B7 A7).
Qed.

Lemma merge_nodes_facts (n1 n2 : list (N * list tnode)) (k : N) :
  map t_id (children (fst (merge_nodes n1 n2)) k) = map t_id (children (snd (merge_nodes n1 n2)) k) /\
  sum_total_of (children (fst (merge_nodes n1 n2)) k) = sum_total_of (children n1 k) /\
  sum_total_of (children (snd (merge_nodes n1 n2)) k) = sum_total_of (children n2 k).
Proof. split; [apply merge_nodes_aligned|apply merge_nodes_sums]. Qed.

Lemma ex_diff_ingest_hypotheses :
  parent_determined city16 (all_triples city16 0%N (firstn 1 ex_Ps ++ skipn 1 ex_Ps)) /\
  Forall sel_ok (firstn 1 ex_Ps) /\ Forall sel_ok (skipn 1 ex_Ps) /\
  sumZ (map (prof_depth_weight 0%N) (firstn 1 ex_Ps)) < two63 /\ sumZ (map (prof_depth_weight 0%N) (skipn 1 ex_Ps)) < two63.
Proof.
  destruct ex_Ps_hypotheses as (H1 & H2 & _). split; [exact H1|].
  inversion H2 as [|? ? Ha Hb]; subst. inversion Hb as [|? ? Hc Hd]; subst.
  split; [constructor; [exact Ha|constructor]|]. split; [constructor; [exact Hc|constructor]|].
  split; vm_compute; reflexivity.
Qed.
