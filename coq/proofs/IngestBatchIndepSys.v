(* Round 8x.  The statements of proofs/IngestBatchIndep.v (one worker) lifted to the WHOLE system of model/PushHandler.v -- all workers of all
   round robins, promise store, HTTP handlers -- and to every history.  The seeded change C01-h keeps ONE table of queued series rows for all
   workers of the service: a request is then answered by what sits in ANOTHER worker's batch.  In the model
   (1) a request with rows, served by worker s of any system state, completes no promise, changes no worker but s, and what s does with it
       is a function of s's own state and the request (an environment request and the attempt of a sub-push alike);
   (2) over every history from every state: `Request` itself never completes a promise with success for a request that carries a row;
   (3) the variant with the shared table, as a step function of the system, violates ack_sound: witness with two workers of one round robin. *)
From Coq Require Import List NArith ZArith Bool.
From Qryn Require Import model.Ingest model.PushHandler model.IngestSpec proofs.IngestBatchIndep.
Import ListNotations.

Lemma nth_error_upd_other : forall {A} (l : list A) s t x, s <> t -> nth_error (upd s x l) t = nth_error l t.
Proof.
  induction l as [|a l IH]; intros s t x N; [destruct s; reflexivity|].
  destruct s as [|s]; destruct t as [|t]; cbn [upd nth_error].
  - now contradiction N.
  - reflexivity.
  - reflexivity.
  - apply IH. intro X. apply N. now f_equal.
Qed.

(* ---------------------------------------------------------------------------------------------------------------------------------- 1 *)
(* the step of worker s on a request with rows, inside any system state *)
Lemma svc_act_request_with_rows : forall g s sv p r sz r',
  nth_error (svcs g) s = Some sv ->
  running sv = true ->
  eff (kd sv) r = Some r' ->
  nth (keycol (kd sv)) r' [] <> [] ->
  exists sv', sstep sv (SRequest p r sz) = Some (sv', []) /\
              svc_act g s (SRequest p r sz) = Some (set_svcs g (upd s sv' (svcs g)) (store g), [EReq s p (kd sv) r sz None]) /\
              results sv' = results sv ++ [(p, r)] /\ cols sv' = zip_app (cols sv) r' /\ inflight sv' = inflight sv.
Proof.
  intros g s sv p r sz r' N R E K.
  destruct (request_with_rows_joins_the_batch sv p r sz r' R E K) as (sv' & S & Q & C & I).
  exists sv'. split; [exact S|]. split; [|auto].
  unfold svc_act. rewrite N, S. reflexivity.
Qed.

Theorem a_request_with_rows_waits_whatever_is_queued_elsewhere : forall g s sv n r sz r',
  nth_error (svcs g) s = Some sv ->
  running sv = true ->
  rr_pick_ok g s = true ->                                   (* the round robin may pick s *)
  eff (kd sv) r = Some r' ->
  nth (keycol (kd sv)) r' [] <> [] ->
  exists sv' g',
    gstep g (GEnvReq s (kd sv) n r sz) = Some (g', [EReq s (PEnv n) (kd sv) r sz None]) /\     (* no promise is completed *)
    sstep sv (SRequest (PEnv n) r sz) = Some (sv', []) /\                                       (* a function of sv and the request alone *)
    nth_error (svcs g') s = Some sv' /\
    results sv' = results sv ++ [(PEnv n, r)] /\ cols sv' = zip_app (cols sv) r' /\ inflight sv' = inflight sv /\
    (forall t, t <> s -> nth_error (svcs g') t = nth_error (svcs g) t) /\                       (* no other worker is touched *)
    store g' = store g /\ hs g' = hs g.
Proof.
  intros g s sv n r sz r' N R P E K.
  destruct (svc_act_request_with_rows g s sv (PEnv n) r sz r' N R E K) as (sv' & S & A & Q & C & I).
  exists sv', (set_svcs g (upd s sv' (svcs g)) (store g)).
  split; [cbn [gstep]; rewrite N, P; destruct (kd sv); exact A|].
  split; [exact S|]. split.
  - cbn [set_svcs svcs]. clear - N. revert s N. induction (svcs g) as [|a l IH]; intros [|s] N; cbn in *; try discriminate; auto.
  - repeat (split; [assumption|]). split; [|split; reflexivity].
    intros t D. cbn [set_svcs svcs]. apply nth_error_upd_other. auto.
Qed.

(* the same for an attempt of a sub-push of an HTTP handler: the goroutine is then blocked in Get() on a promise nothing has completed *)
Theorem an_attempt_with_rows_waits_whatever_is_queued_elsewhere : forall g h i s hd sp sv r',
  nth_error (hs g) h = Some hd -> nth_error (h_subs hd) i = Some sp ->
  sp_result sp = None -> sp_cur sp = None -> N.ltb (sp_used sp) (attempts g) = true -> may_take g s sp = true ->
  nth_error (svcs g) s = Some sv -> running sv = true ->
  eff (kd sv) (sp_req sp) = Some r' -> nth (keycol (kd sv)) r' [] <> [] ->
  exists sv' g',
    gstep g (GSubReq h i s) = Some (g', [EReq s (PSub h i (sp_used sp)) (kd sv) (sp_req sp) (sp_sz sp) None]) /\
    sstep sv (SRequest (PSub h i (sp_used sp)) (sp_req sp) (sp_sz sp)) = Some (sv', []) /\
    svcs g' = upd s sv' (svcs g) /\
    results sv' = results sv ++ [(PSub h i (sp_used sp), sp_req sp)] /\ cols sv' = zip_app (cols sv) r' /\
    store g' = store g /\
    (exists hd' sp', nth_error (hs g') h = Some hd' /\ nth_error (h_subs hd') i = Some sp' /\
                     sp_cur sp' = Some (sp_used sp) /\ sp_result sp' = None /\
                     lookup_store (PSub h i (sp_used sp)) (store g') = lookup_store (PSub h i (sp_used sp)) (store g)).
Proof.
  intros g h i s hd sp sv r' H I RS CU LT MT N R E K.
  destruct (svc_act_request_with_rows g s sv (PSub h i (sp_used sp)) (sp_req sp) (sp_sz sp) r' N R E K) as (sv' & S & A & Q & C & _).
  eexists sv', _. split.
  - cbn [gstep]. rewrite H, I, RS, CU, LT, MT. cbn [is_none andb]. rewrite A. reflexivity.
  - split; [exact S|]. split; [reflexivity|]. split; [exact Q|]. split; [exact C|]. split; [reflexivity|].
    cbn [set_hs set_svcs hs svcs store].
    assert (U : forall {A} (l : list A) k x y, nth_error l k = Some y -> nth_error (upd k x l) k = Some x).
    { induction l as [|a l IH]; intros [|k] x y Hn; cbn in *; try discriminate; eauto. }
    eexists _, _. split; [eapply U; exact H|]. cbn [h_subs]. split; [eapply U; exact I|].
    cbn. auto.
Qed.

(* ---------------------------------------------------------------------------------------------------------------------------------- 2 *)
(* every history from every state: no event says that Request itself completed the promise of a request with rows with success *)
Lemma apply_sevs_no_req : forall vs s k st st' es s0 p k0 r sz imm,
  apply_sevs s k st vs = (st', es) -> ~ In (EReq s0 p k0 r sz imm) es.
Proof.
  induction vs as [|v vs IH]; intros s k st st' es s0 p k0 r sz imm A.
  - cbn in A. inversion A. auto.
  - cbn [apply_sevs] in A. destruct v.
    + destruct (apply_sevs s k st vs) as [st1 es1] eqn:E1. inversion A; subst. intros [X|X]; [discriminate X|]. eapply IH; eauto.
    + destruct (apply_sevs s k st vs) as [st1 es1] eqn:E1. inversion A; subst. intros [X|X]; [discriminate X|]. eapply IH; eauto.
    + destruct (apply_sevs s k st vs) as [st1 es1] eqn:E1. inversion A; subst. intros [X|X]; [discriminate X|]. eapply IH; eauto.
    + destruct (in_store p0 st); [eapply IH; eauto|].
      destruct (apply_sevs s k ((p0, (k, r0, ok)) :: st) vs) as [st1 es1] eqn:E1. inversion A; subst.
      intros [X|X]; [discriminate X|]. eapply IH; eauto.
Qed.

Lemma svc_act_imm : forall g s a g' es s0 p k r sz r',
  svc_act g s a = Some (g', es) ->
  In (EReq s0 p k r sz (Some true)) es ->
  eff k r = Some r' -> nth (keycol k) r' [] = [].
Proof.
  intros g s a g' es s0 p k r sz r' A I E.
  unfold svc_act in A. destruct (nth_error (svcs g) s) as [sv|]; [|discriminate].
  destruct (sstep sv a) as [[sv' vs]|] eqn:S; [|discriminate].
  destruct (apply_sevs s (kd sv) (store g) vs) as [st' es1] eqn:AS. inversion A; subst g' es; clear A.
  apply in_app_or in I. destruct I as [I|I]; [|exfalso; eapply apply_sevs_no_req; eauto].
  destruct a; try (cbn in I; contradiction); try (cbn in I; destruct I as [I|[]]; discriminate I).
  cbn in I. destruct I as [I|[]]. inversion I; subst; clear I.
  cbn [sstep] in S. destruct (negb (running sv)); [inversion S; subst; cbn in *; discriminate|].
  rewrite E in S. destruct (nth (keycol (kd sv)) r' []) eqn:Key; [reflexivity|].
  cbn [length Nat.eqb] in S. inversion S; subst. cbn in *. discriminate.
Qed.

Lemma gstep_imm : forall g a g' es s0 p k r sz r',
  gstep g a = Some (g', es) ->
  In (EReq s0 p k r sz (Some true)) es ->
  eff k r = Some r' -> nth (keycol k) r' [] = [].
Proof.
  intros g a g' es s0 p k r sz r' G I E.
  destruct a; cbn [gstep] in G.
  - destruct (is_request a); [discriminate|]. eapply svc_act_imm; eauto.
  - destruct (nth_error (svcs g) s); [|discriminate]. destruct (kind_eqb (kd s1) k0 && rr_pick_ok g s); [|discriminate].
    eapply svc_act_imm; eauto.
  - inversion G; subst. contradiction.
  - destruct (nth_error (hs g) h) as [hd|]; [|discriminate]. destruct (h_items hd) as [|[c|] rest]; [discriminate| |].
    + inversion G; subst. contradiction.
    + destruct (h_answer hd); inversion G; subst; [contradiction|]. destruct I as [I|[]]. discriminate I.
  - destruct (nth_error (hs g) h) as [hd|]; [|discriminate]. destruct (nth_error (h_subs hd) i) as [sp|]; [|discriminate].
    destruct (is_none (sp_result sp) && is_none (sp_cur sp) && N.ltb (sp_used sp) (attempts g) && may_take g s sp); [|discriminate].
    destruct (svc_act g s (SRequest (PSub h i (sp_used sp)) (sp_req sp) (sp_sz sp))) as [[g1 es1]|] eqn:A; [|discriminate].
    inversion G; subst. eapply svc_act_imm; eauto.
  - destruct (nth_error (hs g) h) as [hd|]; [|discriminate]. destruct (nth_error (h_subs hd) i) as [sp|]; [|discriminate].
    destruct (sp_cur sp); [|discriminate]. destruct (lookup_store (PSub h i n) (store g)) as [[[? ?] ?]|]; [|discriminate].
    inversion G; subst. contradiction.
  - destruct (nth_error (hs g) h) as [hd|]; [|discriminate].
    destruct (h_items hd); [|discriminate]. destruct (h_answer hd); [discriminate|]. destruct (verdict (h_subs hd)); [|discriminate].
    inversion G; subst. destruct I as [I|[]]. discriminate I.
Qed.

Theorem request_never_acknowledges_rows_by_itself : forall tr g g' es s p k r sz r',
  grun g tr = Some (g', es) ->
  In (EReq s p k r sz (Some true)) es ->
  eff k r = Some r' ->
  nth (keycol k) r' [] = [].
Proof.
  induction tr as [|a tr IH]; intros g g' es s p k r sz r' G I E.
  - cbn in G. inversion G; subst. contradiction.
  - cbn [grun] in G. destruct (gstep g a) as [[g1 e1]|] eqn:S; [|discriminate].
    destruct (grun g1 tr) as [[g2 e2]|] eqn:R; [|discriminate]. inversion G; subst.
    apply in_app_or in I. destruct I as [I|I]; [eapply gstep_imm; eauto|eapply IH; eauto].
Qed.

(* ---------------------------------------------------------------------------------------------------------------------------------- 3 *)
(* the seeded variant at the level of the system: ONE table of queued series rows for all workers of the round robin (the closure's map is
   created once per service, not per worker).  The case the acknowledgement hinges on: every row of the request is queued somewhere in the
   group -- the request appends nothing and Request completes its promise with success. *)
Definition queued_in_group (g : gstate) (gr : nat) (r' : req) : bool :=
  forallb (fun c => existsb (fun sv => Nat.eqb (grp sv) gr &&
                                       existsb (fun c' => N.eqb (fst c) (fst c')) (nth (keycol (kd sv)) (cols sv) [])) (svcs g))
          (nth (keycol KSeries) r' []).

Definition gstep_shared_skip (g : gstate) (a : gact) : option (gstate * list event) :=
  match a with
  | GEnvReq s k n r sz =>
      match nth_error (svcs g) s with
      | Some sv =>
          match kd sv, eff (kd sv) r with
          | KSeries, Some r' =>
              if kind_eqb (kd sv) k && rr_pick_ok g s && running sv && queued_in_group g (grp sv) r' && negb (in_store (PEnv n) (store g))
              then Some (set_svcs g (svcs g) ((PEnv n, (KSeries, r, true)) :: store g),
                         [EReq s (PEnv n) KSeries r sz (Some true); EResolve (PEnv n) KSeries r true])
              else gstep g a
          | _, _ => gstep g a
          end
      | None => None
      end
  | _ => gstep g a
  end.

Fixpoint grun_shared_skip (g : gstate) (tr : list gact) : option (gstate * list event) :=
  match tr with
  | [] => Some (g, [])
  | a :: tr' =>
      match gstep_shared_skip g a with
      | None => None
      | Some (g', e1) =>
          match grun_shared_skip g' tr' with
          | None => None
          | Some (g'', e2) => Some (g'', e1 ++ e2)
          end
      end
  end.

(* two workers of ONE time_series service; request 1 (row 1) lands on worker 0, request 2 (row 1 again) on worker 1: the variant answers it
   success at once; worker 0's INSERT is then refused: row 1 is in no accepted block *)
Definition shared_cfg : list (kind * nat * Z) := [(KSeries, 0, 0%Z); (KSeries, 0, 0%Z)].
Definition shared_trace : list gact :=
  [GEnvReq 0 KSeries 1 row1 10; GEnvReq 1 KSeries 2 row1 10;
   GSvc 0 SPlan; GSvc 0 (SDial true); GSvc 0 SSwap; GSvc 0 SSend; GSvc 0 (SDoReturn false)].

Example shared_skip_answers_for_another_workers_batch :
  exists g es,
    grun_shared_skip (ginit shared_cfg 1) shared_trace = Some (g, es) /\
    In (EResolve (PEnv 2) KSeries row1 true) es /\ In (EDone 0 false) es /\ ~ In (EDone 0 true) es /\ ~ In (EDone 1 true) es /\
    (* the unchanged system on the same actions: promise 2 waits in worker 1, nothing is acknowledged *)
    (exists g0 es0, grun (ginit shared_cfg 1) shared_trace = Some (g0, es0) /\
                    lookup_store (PEnv 2) (store g0) = None /\
                    run_mon (amon_step true) (amon_init 2) es0 <> None).
Proof.
  vm_compute. eexists _, _. split; [reflexivity|].
  split; [auto 10|]. split; [auto 10|].
  split; [intros H; repeat (destruct H as [H|H]; [discriminate H|]); exact H|].
  split; [intros H; repeat (destruct H as [H|H]; [discriminate H|]); exact H|].
  eexists _, _. split; [reflexivity|]. split; [reflexivity|discriminate].
Qed.

Theorem ack_sound_shared_queue_table_refuted :
  ~ (forall cfg n tr g es,
       forallb act_wf tr = true ->
       grun_shared_skip (ginit cfg n) tr = Some (g, es) ->
       run_mon (amon_step true) (amon_init (length cfg)) es <> None).
Proof.
  intro H.
  destruct (grun_shared_skip (ginit shared_cfg 1) shared_trace) as [[g es]|] eqn:R; [|vm_compute in R; discriminate].
  apply (H shared_cfg 1%N shared_trace g es); [reflexivity|exact R|].
  vm_compute in R. inversion R; subst. vm_compute. reflexivity.
Qed.

(* ---------------------------------------------------------------------------------------------------------------- non-vacuity *)
(* hypotheses of (1): worker 0 of the round robin holds row 1 in its open batch; the request with row 1 again is served by worker 1 *)
Definition one_queued : gstate :=
  match grun (ginit shared_cfg 1) [GEnvReq 0 KSeries 1 row1 10] with Some (g, _) => g | None => ginit shared_cfg 1 end.
Example waits_hypotheses_met :
  nth_error (svcs one_queued) 1 = Some (svc_init KSeries 0 0) /\
  running (svc_init KSeries 0 0) = true /\ rr_pick_ok one_queued 1 = true /\
  eff KSeries row1 = Some row1 /\ nth (keycol KSeries) row1 [] <> [] /\
  (exists sv0, nth_error (svcs one_queued) 0 = Some sv0 /\ results sv0 = [(PEnv 1, row1)]).
Proof.
  vm_compute. repeat split; try discriminate. eexists; split; reflexivity.
Qed.

(* hypotheses of the handler form: a push whose parser emitted one chunk with a series request; doParse has received it *)
Definition one_push : gstate :=
  match grun (ginit [(KSeries, 0, 0%Z)] 2) [GNewHandler [IChunk [(0, KSeries, row1, 10%Z)]]; GItem 0] with
  | Some (g, _) => g | None => ginit [] 0 end.
Example attempt_hypotheses_met :
  exists hd sp, nth_error (hs one_push) 0 = Some hd /\ nth_error (h_subs hd) 0 = Some sp /\
    sp_result sp = None /\ sp_cur sp = None /\ N.ltb (sp_used sp) (attempts one_push) = true /\ may_take one_push 0 sp = true /\
    nth_error (svcs one_push) 0 = Some (svc_init KSeries 0 0) /\ sp_req sp = row1.
Proof. vm_compute. eexists _, _. repeat split. Qed.

(* premise of (2): Request itself does complete promises with success -- for requests without rows *)
Example request_acknowledges_an_empty_request :
  exists g es, grun (ginit [(KSeries, 0, 0%Z)] 1) [GEnvReq 0 KSeries 1 (table_of 4 []) 0] = Some (g, es) /\
               In (EReq 0 (PEnv 1) KSeries (table_of 4 []) 0 (Some true)) es.
Proof. vm_compute. eexists _, _. split; [reflexivity|]. left. reflexivity. Qed.
