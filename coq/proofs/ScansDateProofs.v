(* C13: a date literal 'YYYY-MM-DD' printed from a day number is read back as that day, for every day from
   1970-01-01 to 2099-12-31, by exhaustive evaluation inside the kernel (47 482 days).  Kept in a file of its
   own: the evaluation takes ~25 s. *)
From Coq Require Import List ZArith NArith String Ascii Bool Lia.
From Qryn Require Import lib.Strs lib.CivilDate model.Sql model.Scans.
Open Scope Z_scope.

Definition day_roundtrip (d : Z) : bool :=
  match parse_date (date_string d) with Some d' => Z.eqb d d' | None => false end.
Fixpoint days_roundtrip (fuel : nat) (d : Z) : bool :=
  match fuel with O => true | S f => day_roundtrip d && days_roundtrip f (d + 1) end.
Definition max_day : Z := 47482.   (* 2100-01-01 *)
Lemma days_roundtrip_all : days_roundtrip (Z.to_nat max_day) 0 = true.
Proof. vm_compute. reflexivity. Qed.
Lemma days_roundtrip_spec fuel : forall d0 d, days_roundtrip fuel d0 = true -> d0 <= d < d0 + Z.of_nat fuel -> day_roundtrip d = true.
Proof.
  induction fuel as [|f IH]; intros d0 d H Hr; [lia|].
  cbn [days_roundtrip] in H. apply andb_true_iff in H. destruct H as [H1 H2].
  destruct (Z.eq_dec d d0) as [->|Hne]; [exact H1|]. apply (IH (d0 + 1) d H2). lia.
Qed.
Lemma parse_date_string d : 0 <= d < max_day -> parse_date (date_string d) = Some d.
Proof.
  intros H. pose proof (days_roundtrip_spec _ 0 d days_roundtrip_all) as R.
  rewrite Z2Nat.id in R by (unfold max_day; lia). specialize (R ltac:(lia)).
  unfold day_roundtrip in R. destruct (parse_date (date_string d)) as [d'|]; [|discriminate R].
  apply Z.eqb_eq in R. subst. reflexivity.
Qed.
Lemma date_val_string d : 0 <= d < max_day -> date_val (StrV (date_string d)) = Some d.
Proof. intros H. cbn [date_val]. apply parse_date_string, H. Qed.
