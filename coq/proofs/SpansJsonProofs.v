(* Proofs for model/SpansJson.v (property C06): the token-level streaming walk of the Zipkin write path refines the
   tree-level decoder of Spans.v, the token parser inverts the serialisation, and the read-back statement holds with the
   stored payload being a token stream. *)
From Coq Require Import List ZArith NArith Bool String Ascii Lia.
From Qryn Require Import model.Spans model.SpansJson proofs.SpansProofs.
Import ListNotations.
Open Scope string_scope.
Open Scope Z_scope.

Section JT_IND.
  Variable P : jt -> Prop.
  Hypothesis HS : forall s, P (TS s).
  Hypothesis HN : forall r, P (TN r).
  Hypothesis HB : forall b, P (TB b).
  Hypothesis HZ : P TZ.
  Hypothesis HO : forall l, Forall (fun kv => P (snd kv)) l -> P (TO l).
  Hypothesis HA : forall l, Forall P l -> P (TA l).
  Fixpoint jt_ind2 (t : jt) : P t :=
    match t with
    | TS s => HS s | TN r => HN r | TB b => HB b | TZ => HZ
    | TO l => HO l ((fix go (l : list (string * jt)) : Forall (fun kv => P (snd kv)) l :=
                       match l with [] => Forall_nil _ | x :: r => Forall_cons x (jt_ind2 (snd x)) (go r) end) l)
    | TA l => HA l ((fix go (l : list jt) : Forall P l :=
                       match l with [] => Forall_nil _ | x :: r => Forall_cons x (jt_ind2 x) (go r) end) l)
    end.
End JT_IND.

(* ------------------------------------------------------------------ unfoldings *)
Lemma toks_of_TO l : toks_of (TO l) = TObjS :: (toks_members l ++ [TObjE])%list.
Proof.
  cbn [toks_of]. f_equal. induction l as [|p r IH]; [reflexivity|].
  cbn [toks_members flat_map]. rewrite <- app_assoc. fold (toks_members r). rewrite <- IH. reflexivity.
Qed.
Lemma toks_of_TA l : toks_of (TA l) = TArrS :: (toks_elems l ++ [TArrE])%list.
Proof.
  cbn [toks_of]. f_equal. induction l as [|p r IH]; [reflexivity|].
  cbn [toks_elems flat_map]. rewrite <- app_assoc. fold (toks_elems r). rewrite <- IH. reflexivity.
Qed.
Lemma toks_of_TO_app l rest : (toks_of (TO l) ++ rest = TObjS :: toks_members l ++ TObjE :: rest)%list.
Proof. rewrite toks_of_TO. cbn [app]. rewrite <- app_assoc. reflexivity. Qed.
Lemma toks_of_TA_app l rest : (toks_of (TA l) ++ rest = TArrS :: toks_elems l ++ TArrE :: rest)%list.
Proof. rewrite toks_of_TA. cbn [app]. rewrite <- app_assoc. reflexivity. Qed.
Lemma abs_TO l : abs (TO l) = JObj (abs_members l).
Proof. reflexivity. Qed.
Lemma abs_TA l : abs (TA l) = JArr (map abs l).
Proof. reflexivity. Qed.
Lemma jt_ok_TO l : jt_ok (TO l) = forallb (fun p => jt_ok (snd p)) l.
Proof. cbn [jt_ok]. induction l as [|p r IH]; [reflexivity|]. cbn [forallb]. rewrite IH. reflexivity. Qed.
Lemma jt_ok_TA l : jt_ok (TA l) = forallb jt_ok l.
Proof. cbn [jt_ok]. induction l as [|p r IH]; [reflexivity|]. cbn [forallb]. rewrite IH. reflexivity. Qed.

(* ------------------------------------------------------------------ parse inverts toks_of *)
Lemma p_none ts : fold_left p_step ts None = None.
Proof. induction ts as [|t r IH]; [reflexivity|exact IH]. Qed.

Lemma parse_step t : forall s rest, fold_left p_step (toks_of t ++ rest) (Some s) = fold_left p_step rest (push_val s t).
Proof.
  induction t as [x|x|b| |l IH|l IH] using jt_ind2; intros s rest.
  - reflexivity.
  - reflexivity.
  - destruct b; reflexivity.
  - reflexivity.
  - rewrite toks_of_TO_app. cbn [fold_left p_step].
    assert (Hin : forall done stk res rest',
      fold_left p_step (toks_members l ++ TObjE :: rest') (Some {| p_stack := FObj done None :: stk; p_res := res |})
      = fold_left p_step rest' (push_val {| p_stack := stk; p_res := res |} (TO (rev done ++ l)))).
    { induction IH as [|p r Hp _ IHr]; intros done stk res rest'.
      - cbn. rewrite app_nil_r. reflexivity.
      - destruct p as [k v]. cbn [toks_members flat_map fst snd app]. fold (toks_members r). rewrite <- app_assoc.
        cbn [fold_left p_step p_stack p_res]. cbn [snd] in Hp. rewrite Hp. cbn [push_val p_stack p_res].
        rewrite IHr. cbn [rev]. rewrite <- app_assoc. reflexivity. }
    destruct s as [stk res]. apply (Hin [] stk res rest).
  - rewrite toks_of_TA_app. cbn [fold_left p_step].
    assert (Hin : forall done stk res rest',
      fold_left p_step (toks_elems l ++ TArrE :: rest') (Some {| p_stack := FArr done :: stk; p_res := res |})
      = fold_left p_step rest' (push_val {| p_stack := stk; p_res := res |} (TA (rev done ++ l)))).
    { induction IH as [|v r Hp _ IHr]; intros done stk res rest'.
      - cbn. rewrite app_nil_r. reflexivity.
      - cbn [toks_elems flat_map]. fold (toks_elems r). rewrite <- app_assoc.
        rewrite Hp. cbn [push_val p_stack p_res].
        rewrite IHr. cbn [rev]. rewrite <- app_assoc. reflexivity. }
    destruct s as [stk res]. apply (Hin [] stk res rest).
Qed.

Theorem parse_toks_of t : parse (toks_of t) = Some t.
Proof. unfold parse, p_init. rewrite <- (app_nil_r (toks_of t)), parse_step. reflexivity. Qed.

Lemma stream_wf_toks_of t : jt_ok t = true -> stream_wf (toks_of t) = true.
Proof.
  intro H. unfold stream_wf. rewrite parse_toks_of, H. cbn [andb].
  unfold list_eqb. induction (toks_of t) as [|a r IH]; [reflexivity|]. cbn [all2]. rewrite IH, andb_true_r.
  destruct a; cbn; try reflexivity; apply eqb_refl'.
Qed.

(* ------------------------------------------------------------------ numbers *)
Lemma parse_int64_num raw : num_ok raw = true -> parse_int64 raw = string_or_int64 (num_abs raw).
Proof.
  destruct raw as [|c r]; [discriminate|]. cbn [num_ok]. intro H. apply negb_true_iff in H.
  unfold parse_int64, num_abs, int_text. rewrite H.
  destruct (Ascii.eqb c "-") eqn:Em; cbn [orb].
  - destruct (String.eqb r "") eqn:Er; [reflexivity|].
    destruct (digits r 0) as [v|]; cbn [option_map string_or_int64]; reflexivity.
  - replace (String.eqb (String c r) "") with false by reflexivity.
    destruct (digits (String c r) 0) as [v|]; cbn [string_or_int64]; reflexivity.
Qed.

(* ------------------------------------------------------------------ the streaming walk *)
Section WALK.
  Variable q : quirks.
  Variable tl : bool.
  Notation run := (w_run q tl).

  Lemma run_app w a b : run w (a ++ b) = run (run w a) b.
  Proof. apply fold_left_app. Qed.
  Lemma run_fail st ts : run (MFail, st) ts = (MFail, st).
  Proof. induction ts as [|t r IH]; [reflexivity|exact IH]. Qed.
  Lemma fin_fail st ts : w_finish (run (MFail, st) ts) = None.
  Proof. rewrite run_fail. reflexivity. Qed.

  (* jx Skip consumes exactly one value *)
  Lemma skip_value t : forall d r st rest,
    run (MSkip d r, st) (toks_of t ++ rest) = run (match d with O => ret_mode r | _ => MSkip d r end, st) rest.
  Proof.
    induction t as [x|x|b| |l IH|l IH] using jt_ind2; intros d r st rest.
    - destruct d; reflexivity.
    - destruct d; reflexivity.
    - destruct b, d; reflexivity.
    - destruct d; reflexivity.
    - rewrite toks_of_TO_app. unfold w_run. cbn [fold_left w_step skip_step].
      assert (Hin : forall rest', fold_left (w_step q tl) (toks_members l ++ TObjE :: rest') (MSkip (S d) r, st)
                                  = fold_left (w_step q tl) rest' (match d with O => ret_mode r | _ => MSkip d r end, st)).
      { induction IH as [|p l' Hp _ IHl]; intros rest'.
        - cbn. destruct d; reflexivity.
        - cbn [toks_members flat_map app]. fold (toks_members l'). rewrite <- app_assoc.
          cbn [fold_left w_step skip_step]. specialize (Hp (S d) r st). unfold w_run in Hp. rewrite Hp. apply IHl. }
      apply Hin.
    - rewrite toks_of_TA_app. unfold w_run. cbn [fold_left w_step skip_step].
      assert (Hin : forall rest', fold_left (w_step q tl) (toks_elems l ++ TArrE :: rest') (MSkip (S d) r, st)
                                  = fold_left (w_step q tl) rest' (match d with O => ret_mode r | _ => MSkip d r end, st)).
      { induction IH as [|p l' Hp _ IHl]; intros rest'.
        - cbn. destruct d; reflexivity.
        - cbn [toks_elems flat_map]. fold (toks_elems l'). rewrite <- app_assoc.
          specialize (Hp (S d) r st). unfold w_run in Hp. rewrite Hp. apply IHl. }
      apply Hin.
  Qed.

  Lemma run_cons w t ts : run w (t :: ts) = run (w_step q tl w t) ts.
  Proof. reflexivity. Qed.

  (* a value that is skipped wherever it stands *)
  Lemma skip_from m st t rest r :
    (forall s, t <> TS s) ->
    (forall tk, (forall s, tk <> TStr s) -> w_step q tl (m, st) tk = w_step q tl (MSkip 0 r, st) tk) ->
    run (m, st) (toks_of t ++ rest) = run (ret_mode r, st) rest.
  Proof.
    intros Hns H. transitivity (run (MSkip 0 r, st) (toks_of t ++ rest)); [|apply (skip_value t 0 r st rest)].
    destruct t as [s|x|b| |l'|l'].
    - exfalso. apply (Hns s). reflexivity.
    - cbn [toks_of app]. rewrite !run_cons, H by (intro; discriminate). reflexivity.
    - destruct b; cbn [toks_of app]; rewrite !run_cons, H by (intro; discriminate); reflexivity.
    - cbn [toks_of app]. rewrite !run_cons, H by (intro; discriminate). reflexivity.
    - rewrite toks_of_TO_app, !run_cons, H by (intro; discriminate). reflexivity.
    - rewrite toks_of_TA_app, !run_cons, H by (intro; discriminate). reflexivity.
  Qed.

  (* parseTags *)
  Lemma tags_walk l : forall st rest,
    run (MTags, st) (toks_members l ++ TObjE :: rest)
    = run (MTop, set_svc st (z_svc st) (tag_fields (abs_members l) (z_kv st))) rest.
  Proof.
    induction l as [|[k v] r IH]; intros st rest.
    - reflexivity.
    - cbn [toks_members flat_map fst snd app abs_members map]. fold (toks_members r). fold (abs_members r).
      rewrite <- app_assoc. rewrite run_cons. cbn [w_step].
      assert (Hskip : (forall s, v <> TS s) ->
                run (MTagVal k, st) (toks_of v ++ toks_members r ++ TObjE :: rest) = run (MTags, st) (toks_members r ++ TObjE :: rest)).
      { intro Hns. apply (skip_from (MTagVal k) st v _ RTags Hns). intros tk Htk.
        destruct tk; try reflexivity. exfalso. apply (Htk s). reflexivity. }
      destruct v as [s|x|b| |l'|l'].
      + cbn [toks_of app abs]. rewrite run_cons. cbn [w_step]. rewrite IH. reflexivity.
      + rewrite Hskip by discriminate. rewrite IH. cbn [abs]. unfold num_abs. destruct (int_text x); reflexivity.
      + rewrite Hskip by discriminate. rewrite IH. reflexivity.
      + rewrite Hskip by discriminate. rewrite IH. reflexivity.
      + rewrite Hskip by discriminate. rewrite IH. reflexivity.
      + rewrite Hskip by discriminate. rewrite IH. reflexivity.
  Qed.

  (* parseEndpoint and the caller's use of its result *)
  Lemma endpoint_walk rm l : forall svc st rest,
    w_finish (run (MEp rm svc, st) (toks_members l ++ TObjE :: rest))
    = match endpoint_fields (ep_prefix rm) (abs_members l) svc (z_kv st) with
      | Some (svc', kv') => w_finish (run (MTop, ep_close q rm svc' (set_svc st (z_svc st) kv')) rest)
      | None => None
      end.
  Proof.
    induction l as [|[k v] r IH]; intros svc st rest.
    - cbn [toks_members flat_map app abs_members map endpoint_fields]. rewrite run_cons. cbn [w_step].
      replace (ep_close q rm svc (set_svc st (z_svc st) (z_kv st))) with (ep_close q rm svc st) by (unfold ep_close; destruct rm; reflexivity).
      reflexivity.
    - cbn [toks_members flat_map fst snd app abs_members map endpoint_fields]. fold (toks_members r). fold (abs_members r).
      rewrite <- app_assoc. rewrite run_cons. cbn [w_step].
      destruct (String.eqb k "serviceName") eqn:Ek.
      + destruct v as [s|x|b| |l'|l'].
        * cbn [toks_of app abs]. rewrite run_cons. cbn [w_step]. rewrite IH. reflexivity.
        * cbn [toks_of app abs]. rewrite run_cons. cbn [w_step]. rewrite fin_fail.
          unfold num_abs. destruct (int_text x); reflexivity.
        * destruct b; cbn [toks_of app abs]; rewrite run_cons; cbn [w_step]; rewrite fin_fail; reflexivity.
        * cbn [toks_of app abs]. rewrite run_cons. cbn [w_step]. rewrite fin_fail. reflexivity.
        * rewrite toks_of_TO_app, abs_TO. rewrite run_cons. cbn [w_step]. rewrite fin_fail. reflexivity.
        * rewrite toks_of_TA_app, abs_TA. rewrite run_cons. cbn [w_step]. rewrite fin_fail. reflexivity.
      + assert (Hs : run (MEpVal rm svc false, st) (toks_of v ++ toks_members r ++ TObjE :: rest)
                     = run (MEp rm svc, st) (toks_members r ++ TObjE :: rest)).
        { destruct v as [s|x|b| |l'|l'].
          - reflexivity.
          - apply (skip_from _ st (TN x) _ (REp rm svc)); [discriminate|reflexivity].
          - apply (skip_from _ st (TB b) _ (REp rm svc)); [discriminate|reflexivity].
          - apply (skip_from _ st TZ _ (REp rm svc)); [discriminate|reflexivity].
          - apply (skip_from _ st (TO l') _ (REp rm svc)); [discriminate|reflexivity].
          - apply (skip_from _ st (TA l') _ (REp rm svc)); [discriminate|reflexivity]. }
        rewrite Hs. apply IH.
  Qed.

  Definition scalar_key (k : zkey) : bool :=
    match k with KTrace | KId | KParent | KTimestamp | KDuration | KName => true | _ => false end.

  (* the value of one top-level member *)
  Lemma value_walk k v st rest : jt_ok v = true -> k <> KOther ->
    w_finish (run (MVal k, st) (toks_of v ++ rest))
    = match z_field q st k (abs v) with Some st' => w_finish (run (MTop, st') rest) | None => None end.
  Proof.
    intros Hok Hk.
    destruct v as [s|x|b| |l|l].
    - (* string *)
      cbn [toks_of app abs]. rewrite run_cons.
      destruct k; cbn [w_step z_field hex_tok time_tok string_or_int64 parse_endpoint]; try congruence.
      + destruct (decode_hex_str s 32); cbn [option_map ok_or_fail]; [reflexivity|apply fin_fail].
      + destruct (decode_hex_str s 16); cbn [option_map ok_or_fail]; [reflexivity|apply fin_fail].
      + destruct (decode_hex_str s 16); cbn [option_map ok_or_fail]; [reflexivity|apply fin_fail].
      + destruct (parse_int64 s) as [z|]; cbn [option_map ok_or_fail]; [|apply fin_fail].
        destruct (us_to_ns q z); cbn [option_map ok_or_fail]; [reflexivity|apply fin_fail].
      + destruct (parse_int64 s) as [z|]; cbn [option_map ok_or_fail]; [|apply fin_fail].
        destruct (us_to_ns q z); cbn [option_map ok_or_fail]; [reflexivity|apply fin_fail].
      + reflexivity.
      + apply fin_fail.
      + apply fin_fail.
      + apply fin_fail.
    - (* number *)
      cbn [toks_of app]. rewrite run_cons. cbn [jt_ok] in Hok.
      destruct k; cbn [w_step hex_tok option_map ok_or_fail]; try congruence;
        try (rewrite fin_fail; cbn [abs]; unfold num_abs; destruct (int_text x); reflexivity).
      + cbn [z_field abs time_tok]. rewrite <- (parse_int64_num x Hok).
        destruct (parse_int64 x) as [z|]; cbn [option_map ok_or_fail]; [|apply fin_fail].
        destruct (us_to_ns q z); cbn [option_map ok_or_fail]; [reflexivity|apply fin_fail].
      + cbn [z_field abs time_tok]. rewrite <- (parse_int64_num x Hok).
        destruct (parse_int64 x) as [z|]; cbn [option_map ok_or_fail]; [|apply fin_fail].
        destruct (us_to_ns q z); cbn [option_map ok_or_fail]; [reflexivity|apply fin_fail].
    - destruct b; cbn [toks_of app abs]; rewrite run_cons;
        destruct k; cbn [w_step hex_tok time_tok option_map ok_or_fail]; try congruence; rewrite fin_fail; reflexivity.
    - cbn [toks_of app abs]; rewrite run_cons;
        destruct k; cbn [w_step hex_tok time_tok option_map ok_or_fail]; try congruence; rewrite fin_fail; reflexivity.
    - (* object *)
      rewrite toks_of_TO_app, abs_TO. rewrite run_cons.
      destruct k; cbn [w_step hex_tok time_tok option_map ok_or_fail]; try congruence; try (rewrite fin_fail; reflexivity).
      + rewrite (endpoint_walk false l "" st rest). cbn [z_field parse_endpoint ep_prefix].
        destruct (endpoint_fields "local_endpoint_" (abs_members l) "" (z_kv st)) as [[svc' kv']|]; reflexivity.
      + rewrite (endpoint_walk true l "" st rest). cbn [z_field parse_endpoint ep_prefix].
        destruct (endpoint_fields "remote_endpoint_" (abs_members l) "" (z_kv st)) as [[svc' kv']|]; reflexivity.
      + rewrite (tags_walk l st rest). reflexivity.
    - rewrite toks_of_TA_app, abs_TA. rewrite run_cons.
      destruct k; cbn [w_step hex_tok time_tok option_map ok_or_fail]; try congruence; rewrite fin_fail; reflexivity.
  Qed.

  (* dec.Obj over the members of the span object *)
  Lemma members_walk l : forallb (fun p => jt_ok (snd p)) l = true -> forall st rest,
    w_finish (run (MTop, st) (toks_members l ++ TObjE :: rest))
    = match z_fields q st (abs_members l) with Some st' => w_finish (run (MDone, st') rest) | None => None end.
  Proof.
    induction l as [|[k v] r IH]; intros Hok st rest.
    - reflexivity.
    - cbn [forallb snd] in Hok. apply andb_true_iff in Hok. destruct Hok as [Hv Hr].
      cbn [toks_members flat_map fst snd app abs_members map z_fields]. fold (toks_members r). fold (abs_members r).
      rewrite <- app_assoc. rewrite run_cons. cbn [w_step].
      destruct (zkey_of k) eqn:Ek;
        try (rewrite (value_walk _ v st _ Hv) by discriminate;
             match goal with |- context [z_field q st ?K (abs v)] => destruct (z_field q st K (abs v)) as [st1|] end;
             [apply (IH Hr)|reflexivity]).
      rewrite (skip_value v 0 RTop st). cbn [ret_mode z_field]. apply (IH Hr).
  Qed.

  Theorem zt_span_refines t st : jt_ok t = true ->
    zt_span q tl st (toks_of t) = match abs t with JObj fs => z_fields q st fs | _ => None end.
  Proof.
    intro Hok. unfold zt_span. destruct t as [s|x|b| |l|l].
    - reflexivity.
    - cbn [toks_of abs]. unfold num_abs. destruct (int_text x); reflexivity.
    - destruct b; reflexivity.
    - reflexivity.
    - rewrite <- (app_nil_r (toks_of (TO l))). rewrite toks_of_TO_app, abs_TO. fold (run (MStart, st)). rewrite run_cons. cbn [w_step].
      rewrite jt_ok_TO in Hok.
      rewrite (members_walk l Hok st []). destruct (z_fields q st (abs_members l)); reflexivity.
    - rewrite <- (app_nil_r (toks_of (TA l))). rewrite toks_of_TA_app, abs_TA. fold (run (MStart, st)). rewrite run_cons. cbn [w_step].
      apply fin_fail.
  Qed.
End WALK.

(* ------------------------------------------------------------------ Decode in either framing *)
Lemma decode_span_tail q st e :
  decode_span q st e = match e with JObj fs => match z_fields q st fs with Some st' => span_tail st' | None => None end | _ => None end.
Proof. destruct e; reflexivity. Qed.

Lemma decode_span_refines q tl st t : jt_ok t = true -> decode_span_t q tl st (toks_of t) = decode_span q st (abs t).
Proof.
  intro H. unfold decode_span_t. rewrite (zt_span_refines q tl t st H), decode_span_tail.
  destruct (abs t); try reflexivity.
Qed.

Lemma zt_from_refines q tl nd ts : forallb jt_ok ts = true -> forall i st,
  zt_from q tl nd i st (map toks_of ts) = zipkin_from q nd i st (map abs ts).
Proof.
  induction ts as [|t r IH]; intros Hok i st; [reflexivity|].
  cbn [forallb] in Hok. apply andb_true_iff in Hok. destruct Hok as [Ht Hr].
  cbn [map zt_from zipkin_from]. rewrite (decode_span_refines q _ _ t Ht).
  destruct (decode_span q _ (abs t)) as [[rows st']|]; [|reflexivity]. rewrite (IH Hr). reflexivity.
Qed.

(* the streaming walk over the tokens of well-formed elements = the tree-level decoder on what they denote *)
Theorem zt_decode_refines q tl nd ts : forallb jt_ok ts = true ->
  zt_decode q tl nd (map toks_of ts) = zipkin_decode q nd (map abs ts).
Proof. intro H. apply (zt_from_refines q tl nd ts H). Qed.

Lemma es_of_toks_of ts : es_of_toks (map toks_of ts) = map abs ts.
Proof. unfold es_of_toks. rewrite map_map. apply map_ext. intro t. unfold elem_of_toks. rewrite parse_toks_of. reflexivity. Qed.

(* ------------------------------------------------------------------ the read path on stored token streams *)
Lemma read_row_tok_eq q ts row : t_ptype row = 1 ->
  read_row_tok q (map toks_of ts) row = read_row q (map abs ts) row.
Proof.
  intro Hp. unfold read_row_tok, read_row, payload_toks. rewrite Hp. cbn [Z.eqb Pos.eqb].
  destruct (t_payload row) as [|i|s|]; try reflexivity.
  rewrite !nth_error_map. destruct (nth_error ts (N.to_nat i)) as [t|]; [|reflexivity].
  cbn [option_map]. rewrite parse_toks_of. reflexivity.
Qed.

Lemma Forall2_with_r {A B} (R : A -> B -> Prop) (Q : B -> Prop) a b : Forall2 R a b -> Forall Q b -> Forall2 (fun x y => R x y /\ Q y) a b.
Proof. intros HR. induction HR as [|x y a' b' Hxy HR IH]; intro HQ; [constructor|]. inversion HQ; subst. constructor; [split; assumption|auto]. Qed.

Lemma zipkin_rows_ptype nd es rows : zipkin_decode fixed nd es = Some rows -> Forall (fun sr => t_ptype (fst sr) = 1) rows.
Proof.
  intro H. apply Forall_forall. intros sr Hin. apply In_nth_error in Hin. destruct Hin as [k Hk].
  apply (zipkin_payload_is_own_text nd es rows H k sr Hk).
Qed.

(* read_back with the stored Zipkin payload being its token stream: the walk over the tokens produces the rows, the stored
   payload of each row is the span's own tokens, and parsing them and reading the fields returns the pushed span *)
Theorem read_back_tokens_l : forall nd ts rows ps,
  forallb jt_ok ts = true ->
  zt_decode fixed false nd (map toks_of ts) = Some rows ->
  pushed_of (zin nd (map toks_of ts)) = Some ps ->
  Forall2 (fun p sr => reads_back p (read_row_tok fixed (map toks_of ts) (fst sr))) ps rows.
Proof.
  intros nd ts rows ps Hok Hd Hp. unfold zin in Hp. rewrite es_of_toks_of in Hp.
  rewrite (zt_decode_refines fixed false nd ts Hok) in Hd.
  pose proof (read_back_l (InZipkin nd (map abs ts)) rows ps Hd Hp I) as Hrb. cbn [in_elems] in Hrb.
  pose proof (zipkin_rows_ptype nd _ rows Hd) as Hpt.
  pose proof (Forall2_with_r _ _ _ _ Hrb Hpt) as H2.
  eapply Forall2_imp; [|exact H2]. intros p sr [Hr Hq]. cbn beta in *. rewrite (read_row_tok_eq fixed ts (fst sr) Hq). exact Hr.
Qed.

(* the rows themselves: one per pushed span, with its tag rows *)
Theorem rows_of_tokens_l : forall nd ts rows ps,
  forallb jt_ok ts = true ->
  zt_decode fixed false nd (map toks_of ts) = Some rows ->
  pushed_of (zin nd (map toks_of ts)) = Some ps ->
  Forall2 row_of ps (map fst rows) /\ Forall2 tags_of ps (map snd rows).
Proof.
  intros nd ts rows ps Hok Hd Hp. unfold zin in Hp. rewrite es_of_toks_of in Hp.
  rewrite (zt_decode_refines fixed false nd ts Hok) in Hd. split.
  - apply (one_row_per_span_l (InZipkin nd (map abs ts)) rows ps Hd Hp).
  - apply (tag_rows_of_span_l (InZipkin nd (map abs ts)) rows ps Hd Hp).
Qed.

(* what follows the span object on an NDJSON line: with the repaired decoder the request is refused ... *)
Lemma run_done_tail q st ts : ts <> [] -> w_finish (w_run q false (MDone, st) ts) = None.
Proof. destruct ts as [|t r]; [congruence|]. intros _. unfold w_run. cbn [fold_left w_step]. apply fin_fail. Qed.

Theorem trailing_text_refused : forall q st t extra, jt_ok t = true -> extra <> [] ->
  zt_span q false st (toks_of t ++ extra) = None.
Proof.
  intros q st t extra Hok Hne. unfold zt_span.
  destruct t as [s|x|b| |l|l].
  - cbn [toks_of app]. rewrite run_cons. apply fin_fail.
  - cbn [toks_of app]. rewrite run_cons. apply fin_fail.
  - destruct b; cbn [toks_of app]; rewrite run_cons; apply fin_fail.
  - cbn [toks_of app]. rewrite run_cons. apply fin_fail.
  - rewrite toks_of_TO_app. rewrite run_cons. cbn [w_step].
    rewrite jt_ok_TO in Hok. rewrite (members_walk q false l Hok st extra).
    destruct (z_fields q st (abs_members l)); [apply (run_done_tail q _ extra Hne)|reflexivity].
  - rewrite toks_of_TA_app. rewrite run_cons. apply fin_fail.
Qed.

(* ------------------------------------------------------------------ kind and annotations -> events on the read side *)
(* a Zipkin annotation {"timestamp": microseconds, "value": text}: an integer literal 0 < us with us * 1000 below 2^64 *)
Definition anno_denotes (a : jt) (e : Z * string) : Prop :=
  exists m raw, a = TO m /\ jt_get "timestamp" m = Some (TN raw) /\ raw <> "" /\ digits raw 0 = Some (fst e) /\
                0 < fst e /\ fst e * 1000 < two64 /\ jt_get "value" m = Some (TS (snd e)).

Lemma anno_event_denotes a e : anno_denotes a e -> anno_event a = [(fst e * 1000, snd e)].
Proof.
  intros (m & raw & -> & Ht & Hne & Hd & Hpos & Hlt & Hv). unfold anno_event. rewrite Ht, Hv.
  unfold fj_uint64. destruct raw as [|c r]; [congruence|]. rewrite Hd.
  assert (Hlt' : fst e < two64) by (unfold two64 in *; lia).
  apply Z.ltb_lt in Hlt'. rewrite Hlt'.
  rewrite Z.mod_small by (unfold two64 in *; lia).
  destruct (fst e * 1000 =? 0) eqn:E; [apply Z.eqb_eq in E; lia|reflexivity].
Qed.

(* the read path returns every pushed annotation as an event: time = 1000 x its microseconds, name = its value, in order *)
Theorem zipkin_events_read_back_l : forall fs l evs,
  jt_get "annotations" fs = Some (TA l) -> Forall2 anno_denotes l evs ->
  read_events (TO fs) = map (fun e => (fst e * 1000, snd e)) evs.
Proof.
  intros fs l evs Hg H. unfold read_events. rewrite Hg. clear Hg. induction H as [|a e l' evs' Ha _ IH]; [reflexivity|].
  cbn [flat_map map]. rewrite (anno_event_denotes a e Ha), IH. reflexivity.
Qed.

(* ------------------------------------------------------------------ examples *)
(* a span whose text used escapes in names and values (the tokenizer decoded them), "-0" and a decimal string as times, an
   exponent form in a member the decoder skips, nested junk, both endpoints, tags with a non-string member, annotations *)
Definition ex_span_tree (sid : string) : jt :=
  TO [("traceId", TS "0af7651916cd43dd8448eb211c80319c"); ("name", TS "op/é"); ("id", TS sid);
      ("debug", TN "1E2"); ("junk", TO [("a", TA [TN "-0.5e-3"; TZ; TO []])]);
      ("timestamp", TN "-0"); ("duration", TS "1500"); ("kind", TS "CLIENT");
      ("localEndpoint", TO [("ipv4", TS "10.0.0.1"); ("serviceName", TS "front"); ("port", TN "8080")]);
      ("remoteEndpoint", TO [("serviceName", TS "db")]);
      ("tags", TO [("http.path", TS "/x"); ("n", TN "5"); ("k", TS "v")]);
      ("annotations", TA [TO [("timestamp", TN "1700000000000000"); ("value", TS "cs")]])].
Definition ex_trees : list jt := [ex_span_tree "b7ad6b7169203331"; ex_span_tree "2"].

Example ex_tokens_accepted : forall nd,
  forallb jt_ok ex_trees = true /\
  (exists rows ps, zt_decode fixed false nd (map toks_of ex_trees) = Some rows /\ pushed_of (zin nd (map toks_of ex_trees)) = Some ps /\
                   List.length rows = 2%nat /\ List.length ps = 2%nat) /\
  map (fun r => option_map rs_kind (read_row_tok fixed (map toks_of ex_trees) (fst r)))
      (match zt_decode fixed false nd (map toks_of ex_trees) with Some rows => rows | None => [] end) = [Some 3; Some 3] /\
  read_events (ex_span_tree "2") = [(1700000000000000000, "cs")].
Proof.
  intro nd. split; [reflexivity|]. split; [|split; [destruct nd; vm_compute; reflexivity|vm_compute; reflexivity]].
  destruct nd; eexists; eexists; (split; [vm_compute; reflexivity|split; [vm_compute; reflexivity|split; vm_compute; reflexivity]]).
Qed.

Example ex_annotation_denotes :
  anno_denotes (TO [("timestamp", TN "1700000000000000"); ("value", TS "cs")]) (1700000000000000, "cs").
Proof.
  exists [("timestamp", TN "1700000000000000"); ("value", TS "cs")], "1700000000000000".
  split; [reflexivity|]. split; [reflexivity|]. split; [discriminate|]. split; [reflexivity|]. cbn [fst snd]. unfold two64.
  split; [lia|]. split; [lia|reflexivity].
Qed.

(* before the repair (tail_ok = true): an NDJSON line holding a span object followed by anything else was accepted, the whole line
   became the payload, and the read path returns no span for it; the repaired decoder refuses the line *)
Definition ex_tail_line : list tok := (toks_of (ex_span_tree "b7ad6b7169203331") ++ toks_of (ex_span_tree "2"))%list.
Example legacy_nd_tail_unreadable :
  (exists rows, zt_decode fixed true true [ex_tail_line] = Some rows /\
                map (fun r => read_row_tok fixed [ex_tail_line] (fst r)) rows = [None]) /\
  zt_decode fixed false true [ex_tail_line] = None /\
  pushed_of (zin true [ex_tail_line]) = None /\ must_reject (zin true [ex_tail_line]) = true.
Proof.
  split; [eexists; split; [vm_compute; reflexivity|vm_compute; reflexivity]|]. split; [vm_compute; reflexivity|]. split; vm_compute; reflexivity.
Qed.

Example ex_trailing_text_refused : zt_span fixed false z_init (toks_of (ex_span_tree "2") ++ [TBad]) = None.
Proof. apply trailing_text_refused; [reflexivity|discriminate]. Qed.

(* ------------------------------------------------------------------ the check's oracle on kind and events accepts the model *)
Lemma anno_spec_event a e : anno_spec a = Some e -> anno_event a = [e].
Proof.
  unfold anno_spec, anno_event. destruct a as [s|x|b| |m|l]; try discriminate.
  destruct (nodup_names m); [|discriminate].
  destruct (jt_get "timestamp" m) as [[s|raw|b| |l|l]|]; try discriminate.
  destruct (jt_get "value" m) as [[v|x|b| |l|l]|]; try discriminate.
  destruct raw as [|c r]; [discriminate|]. unfold fj_uint64.
  destruct (digits (String c r) 0) as [us|]; [|discriminate].
  destruct ((0 <? us) && (us * 1000 <? two64)) eqn:E; [|discriminate]. intro H. inversion H; subst e.
  apply andb_true_iff in E. destruct E as [E1 E2]. apply Z.ltb_lt in E1. apply Z.ltb_lt in E2.
  assert (Hlt : us <? two64 = true) by (apply Z.ltb_lt; unfold two64 in *; lia). rewrite Hlt.
  rewrite Z.mod_small by (unfold two64 in *; lia).
  destruct (us * 1000 =? 0) eqn:E0; [apply Z.eqb_eq in E0; lia|reflexivity].
Qed.

(* whenever the text demands events (every annotation denotes one), the read path returns exactly those *)
Theorem events_spec_sound_l : forall t evs, events_spec t = Some evs -> read_events t = evs.
Proof.
  intros t evs. unfold events_spec, read_events. destruct t as [s|x|b| |fs|l]; try discriminate.
  destruct (nodup_names fs); [|discriminate].
  destruct (jt_get "annotations" fs) as [[s|x|b| |l|l]|]; try discriminate.
  - revert evs. induction l as [|a r IH]; intros evs H; cbn [mapM] in H.
    + inversion H. reflexivity.
    + destruct (anno_spec a) as [e|] eqn:Ea; [|discriminate]. destruct (mapM anno_spec r) as [es|]; [|discriminate].
      inversion H; subst evs. cbn [flat_map]. rewrite (anno_spec_event a e Ea), (IH es eq_refl). reflexivity.
  - intro H. inversion H. reflexivity.
Qed.

Lemma jget_abs k fs : jget k (abs_members fs) = option_map abs (jt_get k fs).
Proof. induction fs as [|[k' v] r IH]; [reflexivity|]. cbn [abs_members map fst snd jget jt_get]. fold (abs_members r). destruct (String.eqb k k'); [reflexivity|exact IH]. Qed.

(* ... and the kind the text names *)
Theorem kind_spec_sound_l : forall q row t k r, kind_spec t = Some k -> parse_zipkin q row (abs t) = Some r -> rs_kind r = k.
Proof.
  intros q row t k r. unfold kind_spec. destruct t as [s|x|b| |fs|l]; try discriminate.
  destruct (nodup_names fs); [|discriminate]. rewrite abs_TO. unfold parse_zipkin.
  destruct (_ || _); [discriminate|].
  destruct (read_endpoint "localEndpoint" (abs_members fs)) as [la ls]. destruct (read_endpoint "remoteEndpoint" (abs_members fs)) as [ra rs].
  intros Hk Hr. inversion Hr; subst r. cbn [rs_kind]. unfold zipkin_kind, jget_str. rewrite jget_abs.
  destruct (jt_get "kind" fs) as [[s|x|b| |l|l]|]; try discriminate; cbn [option_map abs]; inversion Hk; reflexivity.
Qed.

Example ex_events_spec : events_spec (ex_span_tree "2") = Some [(1700000000000000000, "cs")] /\ kind_spec (ex_span_tree "2") = Some 3.
Proof. split; vm_compute; reflexivity. Qed.

(* ------------------------------------------------------------------ the same statements over raw token streams *)
Lemma tok_eqb_eq a b : tok_eqb a b = true -> a = b.
Proof. destruct a, b; cbn; try discriminate; try reflexivity; intro H; apply String.eqb_eq in H; subst; reflexivity. Qed.
Lemma toks_eqb_eq : forall a b, list_eqb tok_eqb a b = true -> a = b.
Proof.
  unfold list_eqb. induction a as [|x a IH]; destruct b as [|y b]; cbn [all2]; try discriminate; [reflexivity|].
  intro H. apply andb_true_iff in H. destruct H as [H1 H2]. rewrite (tok_eqb_eq x y H1), (IH b H2). reflexivity.
Qed.
(* a stream the check accepts as well formed (stream_wf, evaluated on every observed stream) IS the token list of a JSON value *)
Lemma stream_wf_tree ts : stream_wf ts = true -> exists t, ts = toks_of t /\ jt_ok t = true.
Proof.
  unfold stream_wf. destruct (parse ts) as [t|]; [|discriminate]. intro H. apply andb_true_iff in H. destruct H as [H1 H2].
  exists t. split; [symmetry; apply toks_eqb_eq; exact H2|exact H1].
Qed.
Lemma streams_wf_trees tss : forallb stream_wf tss = true -> exists ts, tss = map toks_of ts /\ forallb jt_ok ts = true.
Proof.
  induction tss as [|x r IH]; intro H; [exists []; split; reflexivity|].
  cbn [forallb] in H. apply andb_true_iff in H. destruct H as [H1 H2].
  destruct (stream_wf_tree x H1) as (t & -> & Ht). destruct (IH H2) as (ts & -> & Hts).
  exists (t :: ts). split; [reflexivity|]. cbn [forallb]. rewrite Ht, Hts. reflexivity.
Qed.

Theorem read_back_token_streams_l : forall nd tss rows ps,
  forallb stream_wf tss = true ->
  zt_decode fixed false nd tss = Some rows -> pushed_of (zin nd tss) = Some ps ->
  Forall2 row_of ps (map fst rows) /\ Forall2 tags_of ps (map snd rows) /\
  Forall2 (fun p sr => reads_back p (read_row_tok fixed tss (fst sr))) ps rows.
Proof.
  intros nd tss rows ps Hwf Hd Hp. destruct (streams_wf_trees tss Hwf) as (ts & -> & Hok).
  destruct (rows_of_tokens_l nd ts rows ps Hok Hd Hp) as [H1 H2].
  split; [exact H1|]. split; [exact H2|]. apply (read_back_tokens_l nd ts rows ps Hok Hd Hp).
Qed.

Example ex_streams_wf : forallb stream_wf (map toks_of ex_trees) = true /\ stream_wf ex_tail_line = false /\ stream_wf [TObjS; TKey "a"; TNum "+1"; TObjE] = false.
Proof. split; [vm_compute; reflexivity|]. split; vm_compute; reflexivity. Qed.

(* ------------------------------------------------------------------ the converse of parse_toks_of: what [parse] accepts IS the token list of
   the tree it returns.  Invariant: the tokens consumed so far are the tokens of the finished top-level value (if any) followed by,
   from the bottom of the stack to its top, the opening bracket of each open frame, its finished members / elements and its pending key. *)
Local Open Scope list_scope.
Definition frame_toks (f : frame) : list tok :=
  match f with
  | FObj done key => TObjS :: toks_members (rev done) ++ match key with Some k => [TKey k] | None => [] end
  | FArr done => TArrS :: toks_elems (rev done)
  end.
Definition state_toks (s : pstate) : list tok :=
  match p_res s with Some v => toks_of v | None => [] end ++ List.concat (map frame_toks (rev (p_stack s))).

Lemma toks_members_app a b : toks_members (a ++ b) = toks_members a ++ toks_members b.
Proof. unfold toks_members. apply flat_map_app. Qed.
Lemma toks_elems_app a b : toks_elems (a ++ b) = toks_elems a ++ toks_elems b.
Proof. unfold toks_elems. apply flat_map_app. Qed.
Lemma concat_snoc {A} (l : list (list A)) x : List.concat (l ++ [x]) = List.concat l ++ x.
Proof. rewrite concat_app. cbn [List.concat]. rewrite app_nil_r. reflexivity. Qed.

Lemma push_val_toks s v s' : push_val s v = Some s' -> state_toks s' = state_toks s ++ toks_of v.
Proof.
  unfold push_val, state_toks. destruct s as [stk res]. cbn [p_stack p_res].
  destruct stk as [|[done [k|]|done] r].
  - destruct res; [discriminate|]. intro H. inversion H; subst s'. cbn [p_stack p_res rev map List.concat app]. rewrite app_nil_r. reflexivity.
  - intro H. inversion H; subst s'. cbn [p_stack p_res rev map]. rewrite !map_app. cbn [map]. rewrite !concat_snoc. cbn [frame_toks rev].
    rewrite toks_members_app. cbn [toks_members flat_map fst snd]. rewrite ?app_nil_r, <- ?app_assoc. cbn [app]. rewrite <- ?app_assoc. reflexivity.
  - discriminate.
  - intro H. inversion H; subst s'. cbn [p_stack p_res rev map]. rewrite !map_app. cbn [map]. rewrite !concat_snoc. cbn [frame_toks rev].
    rewrite toks_elems_app. cbn [toks_elems flat_map]. rewrite ?app_nil_r, <- ?app_assoc. cbn [app]. rewrite <- ?app_assoc. reflexivity.
Qed.

Lemma p_step_toks s t s' : p_step (Some s) t = Some s' -> state_toks s' = state_toks s ++ [t].
Proof.
  destruct t; cbn [p_step]; try (intro H; apply push_val_toks in H; exact H); try discriminate.
  - (* TObjS *) intro H. inversion H; subst s'. unfold state_toks. cbn [p_stack p_res rev]. rewrite map_app. cbn [map]. rewrite concat_snoc. cbn [frame_toks rev toks_members flat_map app].
    rewrite <- ?app_assoc. reflexivity.
  - (* TObjE *) destruct s as [stk res]. cbn [p_stack p_res]. destruct stk as [|[done [k|]|done] r]; try discriminate.
    intro H. apply push_val_toks in H. rewrite H. unfold state_toks. cbn [p_stack p_res rev]. rewrite map_app. cbn [map]. rewrite concat_snoc. cbn [frame_toks].
    rewrite toks_of_TO, app_nil_r, <- ?app_assoc. cbn [app]. rewrite <- ?app_assoc. reflexivity.
  - (* TArrS *) intro H. inversion H; subst s'. unfold state_toks. cbn [p_stack p_res rev]. rewrite map_app. cbn [map]. rewrite concat_snoc. cbn [frame_toks rev toks_elems flat_map app].
    rewrite <- ?app_assoc. reflexivity.
  - (* TArrE *) destruct s as [stk res]. cbn [p_stack p_res]. destruct stk as [|[done [k|]|done] r]; try discriminate.
    intro H. apply push_val_toks in H. rewrite H. unfold state_toks. cbn [p_stack p_res rev]. rewrite map_app. cbn [map]. rewrite concat_snoc. cbn [frame_toks].
    rewrite toks_of_TA, <- ?app_assoc. cbn [app]. rewrite <- ?app_assoc. reflexivity.
  - (* TKey *) destruct s as [stk res]. cbn [p_stack p_res]. destruct stk as [|[done [k|]|done] r]; try discriminate.
    intro H. inversion H; subst s'. unfold state_toks. cbn [p_stack p_res rev]. rewrite !map_app. cbn [map]. rewrite !concat_snoc. cbn [frame_toks].
    rewrite ?app_nil_r, <- ?app_assoc. cbn [app]. rewrite <- ?app_assoc. reflexivity.
Qed.

Lemma fold_p_step_none ts : fold_left p_step ts None = None.
Proof. induction ts as [|t ts IH]; [reflexivity|exact IH]. Qed.
Lemma fold_p_step_toks ts : forall s s', fold_left p_step ts (Some s) = Some s' -> state_toks s' = state_toks s ++ ts.
Proof.
  induction ts as [|t ts IH]; intros s s' H; cbn [fold_left] in H.
  - inversion H; subst. rewrite app_nil_r. reflexivity.
  - destruct (p_step (Some s) t) as [s1|] eqn:E; [|rewrite fold_p_step_none in H; discriminate].
    rewrite (IH s1 s' H), (p_step_toks s t s1 E), <- app_assoc. reflexivity.
Qed.

Theorem parse_only_toks_of ts t : parse ts = Some t -> ts = toks_of t.
Proof.
  unfold parse, p_init. destruct (fold_left p_step ts _) as [s|] eqn:E; [|discriminate].
  destruct s as [stk res]. cbn [p_stack p_res]. destruct stk; [|discriminate]. intros ->.
  apply fold_p_step_toks in E. unfold state_toks in E. cbn [p_stack p_res rev map List.concat app] in E. rewrite app_nil_r in E. symmetry. exact E.
Qed.

(* parse is a bijection between the accepted token lists and the JSON values *)
Corollary parse_iff ts t : parse ts = Some t <-> ts = toks_of t.
Proof. split; [apply parse_only_toks_of|intros ->; apply parse_toks_of]. Qed.

(* hence the "re-serialises to itself" half of stream_wf is implied by the other two: a stream is well formed iff it parses to a
   value whose numbers are JSON numbers *)
Corollary stream_wf_iff ts : stream_wf ts = true <-> exists t, parse ts = Some t /\ jt_ok t = true.
Proof.
  unfold stream_wf. split.
  - destruct (parse ts) as [t|]; [|discriminate]. intro H. apply andb_true_iff in H. exists t. split; [reflexivity|apply H].
  - intros (t & Hp & Hok). rewrite Hp, Hok. rewrite <- (parse_only_toks_of ts t Hp). cbn [andb].
    clear. unfold list_eqb. induction ts as [|a ts IH]; [reflexivity|]. cbn [all2]. rewrite IH, andb_true_r.
    destruct a; try reflexivity; apply String.eqb_refl.
Qed.

(* the check's hypothesis in its weaker form: a stream that parses to one value whose numbers are JSON numbers *)
Lemma stream_ok_wf ts : stream_ok ts = stream_wf ts.
Proof.
  destruct (stream_wf ts) eqn:E.
  - apply stream_wf_iff in E. destruct E as (t & Hp & Hok). unfold stream_ok. rewrite Hp. exact Hok.
  - destruct (stream_ok ts) eqn:E'; [|reflexivity]. exfalso. unfold stream_ok in E'.
    destruct (parse ts) as [t|] eqn:Hp; [|discriminate].
    assert (H : stream_wf ts = true) by (apply stream_wf_iff; exists t; split; [exact Hp|exact E']). congruence.
Qed.
Theorem read_back_parsed_streams_l : forall nd tss rows ps,
  forallb stream_ok tss = true ->
  zt_decode fixed false nd tss = Some rows -> pushed_of (zin nd tss) = Some ps ->
  Forall2 row_of ps (map fst rows) /\ Forall2 tags_of ps (map snd rows) /\
  Forall2 (fun p sr => reads_back p (read_row_tok fixed tss (fst sr))) ps rows.
Proof.
  intros nd tss rows ps H. apply read_back_token_streams_l.
  rewrite <- H. clear. induction tss as [|ts r IH]; [reflexivity|]. cbn [forallb]. rewrite IH, stream_ok_wf. reflexivity.
Qed.
Example ex_streams_ok : forallb stream_ok (map toks_of ex_trees) = true /\ stream_ok ex_tail_line = false
  /\ parse [TObjS; TKey "a"; TObjE] = None /\ parse [TNull; TNull] = None /\ parse [] = None.
Proof. vm_compute. repeat split; reflexivity. Qed.
