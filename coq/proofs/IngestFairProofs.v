(* C01: liveness "while the database keeps answering" with refused connections and failing watchdog pings
   (model/IngestFair.v): the scheduler with an adversary that injects at most b such faults is never stuck, the
   variant mu g + 2 b decreases with every step, and the run ends with every push answered exactly once; and the
   two refutations that show what the database has to do: refusals must be finite, and a Do must return. *)
From Coq Require Import List NArith ZArith Bool Lia Arith.
From Qryn Require Import model.Ingest model.PushHandler model.IngestSpec model.IngestSched model.IngestFresh model.IngestFair
  proofs.IngestBase proofs.IngestAck proofs.IngestSpecProofs proofs.IngestHandler proofs.IngestDrain proofs.IngestLive
  proofs.IngestLiveAll proofs.IngestPromises.
Import ListNotations.

(* ---------------------------------------------------------------- the two fault steps *)
Lemma set_client_same sv : client sv = false -> set_client sv false = sv.
Proof. destruct sv; cbn; intros ->; reflexivity. Qed.

(* a refused connection changes nothing: fetchLoopIteration returns, insertCtx is still done, Run calls it again *)
Lemma refused_dial_stutters g s g' es : gstep g (GSvc s (SDial false)) = Some (g', es) -> g' = g /\ es = [EDial s false].
Proof.
  cbn. unfold svc_act. destruct (nth_error (svcs g) s) as [sv|] eqn:Hs; [|discriminate]. cbn.
  destruct (loop_ready sv && negb (client sv)) eqn:E; [|discriminate]. cbn.
  intros H; inversion H; subst; clear H. split; [|reflexivity].
  apply andb_true_iff in E as [_ C]. apply negb_true_iff in C. rewrite (set_client_same _ C).
  rewrite (upd_same_id _ _ _ Hs). destruct g; reflexivity.
Qed.

(* a failed ping costs at most the dial that has to follow *)
Lemma ping_fail_mu g s g' es : gstep g (GSvc s SPingFail) = Some (g', es) -> mu g' <= mu g + 1.
Proof.
  cbn. intros H. destruct (svc_act_frame _ _ _ _ _ H) as (sv & sv' & vs & es0 & Hs & Hst & _ & Esv & Eh & Ea).
  rewrite (mu_eq g' (set_svcs g (upd s sv' (svcs g)) (store g))) by (cbn; auto).
  pose proof (mu_svc g s sv sv' (store g) Hs) as M.
  assert (W : wm sv' <= wm sv + 1).
  { cbn in Hst. destruct (inflight sv) eqn:I; cbn in Hst; [discriminate|]. inversion Hst; subst. unfold wm, set_client; cbn.
    rewrite I. cbn. destruct (is_nil (results sv)); [lia|]. destruct (planned sv), (client sv); cbn; lia. }
  lia.
Qed.

Lemma fault_live sig f : act_live sig (fault_act f) = true.
Proof. destruct f; reflexivity. Qed.
Lemma fault_is_fault f : is_fault (fault_act f) = true.
Proof. destruct f; reflexivity. Qed.
Lemma internal_not_fault a : internal a = true -> is_fault a = false.
Proof. destruct a as [s a| | | | | |]; cbn; try reflexivity. destruct a as [| |[|]| | | | |]; cbn; try reflexivity; discriminate. Qed.

(* ---------------------------------------------------------------- progress *)
Definition progress_f (sig : list (kind * nat)) (db : gstate -> nat -> bool) (g : gstate) (b : nat) (o : option (gact * nat)) : Prop :=
  match o with
  | Some (a, b') => nonew a = true /\ act_live sig a = true /\
                    (forall s ok, a = GSvc s (SDoReturn ok) -> ok = db g s) /\
                    b = b' + (if is_fault a then 1 else 0) /\
                    exists g' es, gstep g a = Some (g', es) /\ muf g' b' < muf g b
  | None => all_done g = true
  end.

Lemma own_progress sig db g b : PI sig g -> progress_f sig db g b (lift_own b (next_act db g)).
Proof.
  intros P. pose proof (sched_progress sig db g P) as SP. destruct (next_act db g) as [a|]; cbn; [|exact SP].
  destruct SP as (I1 & I2 & DB & g' & es & St & L). unfold nonew. rewrite I1, (internal_not_fault _ I1). cbn.
  split; [reflexivity|]. split; [assumption|]. split; [assumption|]. split; [lia|]. exists g', es. split; [assumption|].
  unfold muf. lia.
Qed.

Theorem sched_f_progress sig db adv g b : PI sig g -> progress_f sig db g b (next_act_f db adv g b).
Proof.
  intros P. unfold next_act_f. destruct b as [|b]; [apply own_progress; assumption|].
  destruct (adv g (S b)) as [f|]; [|apply own_progress; assumption].
  destruct (gstep g (fault_act f)) as [[g1 e1]|] eqn:E; [|apply own_progress; assumption].
  cbn. unfold nonew. rewrite (fault_is_fault f), orb_true_r.
  split; [reflexivity|]. split; [apply fault_live|]. split; [intros s ok X; destruct f; discriminate|]. split; [lia|].
  exists g1, e1. split; [exact E|]. unfold muf. destruct f as [s|s]; cbn [fault_act] in E.
  - destruct (refused_dial_stutters _ _ _ _ E) as [-> _]. lia.
  - pose proof (ping_fail_mu _ _ _ _ E). lia.
Qed.

Theorem sched_f_completes sig db adv : forall fuel g b, PI sig g -> muf g b <= fuel ->
  exists g' b' tr es, run_sched_f db adv fuel g b = (g', b', tr, es) /\ grun g tr = Some (g', es) /\ all_done g' = true /\
    forallb nonew tr = true /\ follows db g tr = true /\ length tr <= muf g b /\ count_faults tr + b' = b /\ PI sig g'.
Proof.
  induction fuel as [|f IH]; intros g b P Hm.
  - exists g, b, [], []. cbn. pose proof (sched_f_progress sig db adv g b P) as SP. destruct (next_act_f db adv g b) as [[a b1]|].
    + destruct SP as (_ & _ & _ & _ & g' & es & _ & L). lia.
    + cbn in SP. repeat (split; [first [reflexivity|exact SP|cbn; lia]|]). exact P.
  - pose proof (sched_f_progress sig db adv g b P) as SP. cbn [run_sched_f]. destruct (next_act_f db adv g b) as [[a b1]|].
    + destruct SP as (I1 & I2 & DB & Eb & g1 & e1 & Hst & L). rewrite Hst.
      assert (P1 : PI sig g1) by (eapply gstep_PI; eauto).
      destruct (IH g1 b1 P1 ltac:(lia)) as (g2 & b2 & tr & e2 & R & Hrun & D & I & F & Len & Cf & P2). rewrite R.
      exists g2, b2, (a :: tr), (e1 ++ e2). split; [reflexivity|]. split; [cbn; rewrite Hst, Hrun; reflexivity|].
      split; [assumption|]. split; [cbn; rewrite I1, I; reflexivity|]. split.
      * cbn [follows]. rewrite (follows_head _ _ _ DB), Hst, F. reflexivity.
      * split; [cbn; lia|]. split; [|assumption]. unfold count_faults in *. cbn [filter]. destruct (is_fault a); cbn [length]; lia.
    + cbn in SP. exists g, b, [], []. repeat (split; [first [reflexivity|exact SP|cbn; lia]|]). exact P.
Qed.

Lemma gstep_hs_length g a g' es : gstep g a = Some (g', es) -> nonew a = true -> length (hs g') = length (hs g).
Proof.
  intros Es Ha. destruct a as [s a|s k n r sz|items|h|h i s|h i|h]; cbn in Es, Ha; try discriminate.
  - destruct (is_request a); [discriminate|]. apply svc_act_hs in Es as [E _]. now rewrite E.
  - destruct (nth_error (hs g) h) as [hd|]; [|discriminate]. destruct (h_items hd) as [|[c|] rest]; [discriminate| |].
    + inversion Es; subst. cbn. apply length_upd.
    + destruct (h_answer hd); inversion Es; subst; cbn; apply length_upd.
  - destruct (nth_error (hs g) h) as [hd|]; [|discriminate]. destruct (nth_error (h_subs hd) i) as [sp|]; [|discriminate].
    destruct (_ && _); [|discriminate]. destruct (svc_act g s _) as [[g3 es3]|] eqn:Hact; [|discriminate].
    inversion Es; subst. cbn. rewrite length_upd. apply svc_act_hs in Hact as [E _]. now rewrite E.
  - destruct (nth_error (hs g) h) as [hd|]; [|discriminate]. destruct (nth_error (h_subs hd) i) as [sp|]; [|discriminate].
    destruct (sp_cur sp); [|discriminate]. destruct (lookup_store _ _) as [[[? ?] ok]|]; [|discriminate].
    inversion Es; subst. cbn. apply length_upd.
  - destruct (nth_error (hs g) h) as [hd|]; [|discriminate]. destruct (h_items hd); [|discriminate].
    destruct (h_answer hd); [discriminate|]. destruct (verdict _); [|discriminate]. inversion Es; subst. cbn. apply length_upd.
Qed.

Lemma grun_hs_length tr : forall g g' es, grun g tr = Some (g', es) -> forallb nonew tr = true -> length (hs g') = length (hs g).
Proof.
  induction tr as [|a t IH]; intros g g' es Hr Hi; cbn in Hr.
  - inversion Hr; subst. reflexivity.
  - cbn in Hi. apply andb_true_iff in Hi as [Ha Hi]. destruct (gstep g a) as [[g1 e1]|] eqn:Es; [|discriminate].
    destruct (grun g1 t) as [[g2 e2]|] eqn:Er; [|discriminate]. inversion Hr; subst. rewrite (IH _ _ _ Er Hi).
    eapply gstep_hs_length; eauto.
Qed.

(* ---------------------------------------------------------------- the statement of props/C01.v *)
Theorem every_push_answered_once_f cfg n tr g es db adv b :
  grun (ginit cfg n) tr = Some (g, es) -> forallb (act_live (sig_of_cfg cfg)) tr = true ->
  exists tr' g' b' es',
    run_sched_f db adv (muf g b) g b = (g', b', tr', es') /\
    grun g tr' = Some (g', es') /\ forallb nonew tr' = true /\ follows db g tr' = true /\ length tr' <= mu g + 2 * b /\
    count_faults tr' + b' = b /\
    all_done g' = true /\ length (hs g') = length (hs g) /\
    forall h, h < length (hs g) -> count_occ Nat.eq_dec (answered (es ++ es')) h = 1.
Proof.
  intros Hrun Hl. pose proof (reachable_PI _ _ _ _ _ Hrun Hl) as P.
  destruct (sched_f_completes _ db adv (muf g b) g b P (le_n _)) as (g' & b' & tr' & es' & R & Hrun' & D & I & F & Len & Cf & _).
  exists tr', g', b', es'. split; [assumption|]. split; [assumption|]. split; [assumption|]. split; [assumption|].
  split; [exact Len|]. split; [assumption|]. split; [assumption|].
  pose proof (grun_app _ _ _ _ _ _ _ Hrun Hrun') as Hall.
  assert (I0 : Inv1 (ginit cfg n) []) by (unfold Inv1; cbn; repeat split; try constructor; intros ? []).
  destruct (grun_Inv1 _ _ _ _ _ Hall I0) as (_ & _ & ND & AH). cbn [app] in ND, AH.
  assert (A0 : InvA (ginit cfg n) []) by (intros h hd Hh; destruct h; discriminate).
  pose proof (grun_InvA _ _ _ _ _ Hall A0) as IA. cbn [app] in IA.
  pose proof (grun_hs_length _ _ _ _ Hrun' I) as Hlen.
  split; [assumption|]. intros h Hh. apply NoDup_count_occ'; [assumption|].
  rewrite <- Hlen in Hh. destruct (nth_error (hs g') h) as [hd|] eqn:E; [|apply nth_error_None in E; lia].
  apply (IA h hd E). unfold all_done in D. apply andb_true_iff in D as [_ D]. rewrite forallb_forall in D.
  specialize (D hd (nth_error_In _ _ E)). unfold handler_done in D. apply andb_true_iff in D as [D _].
  apply andb_true_iff in D as [_ D]. destruct (h_answer hd); [discriminate|discriminate].
Qed.

(* ---------------------------------------------------------------- what the database has to do *)
(* (a) refusals must be finite: in a state in which worker s is dialling, ANY number m of refused connections is a
   schedule of steps that bring no new work, and it leaves the system exactly where it was *)
Theorem refused_dials_lead_nowhere g s g1 e1 : gstep g (GSvc s (SDial false)) = Some (g1, e1) ->
  forall m, grun g (repeat (GSvc s (SDial false)) m) = Some (g, repeat (EDial s false) m) /\
            forallb nonew (repeat (GSvc s (SDial false)) m) = true.
Proof.
  intros E. destruct (refused_dial_stutters _ _ _ _ E) as [-> ->]. induction m as [|m [IH1 IH2]]; [split; reflexivity|].
  split.
  - cbn [repeat grun]. rewrite E, IH1. reflexivity.
  - cbn [repeat forallb]. rewrite IH2. reflexivity.
Qed.

(* (b) a Do must return.  blocked g h k: push h is unanswered, its parser has finished, and its first sub-push is
   blocked in Get() of attempt k whose promise is not completed.  No continuation whatsoever in which no Do returns
   -- new pushes, requests, flushes, dials, stops included -- answers push h. *)
Definition blocked (g : gstate) (h : nat) (k : N) : Prop :=
  exists hd sp, nth_error (hs g) h = Some hd /\ h_items hd = [] /\ h_answer hd = None /\
    nth_error (h_subs hd) 0 = Some sp /\ sp_cur sp = Some k /\ sp_result sp = None /\
    in_store (PSub h 0 k) (store g) = false.

Lemma svc_act_keeps_out g s a g' es q : svc_act g s a = Some (g', es) -> (forall ok, a <> SDoReturn ok) ->
  (forall r sz, a <> SRequest q r sz) -> in_store q (store g) = false -> in_store q (store g') = false.
Proof.
  intros H ND NR Q. destruct (svc_act_frame _ _ _ _ _ H) as (sv & sv' & vs & es0 & Hs & Hst & Ha & _).
  rewrite (apply_sevs_store _ _ _ _ _ _ Ha q), Q. cbn.
  destruct (sstep_shape _ _ _ _ Hst) as [Sh _].
  destruct Sh as [R I V|p r sz Ea R I V|Ea I R R' I' V|po Ea I S R I' V|po ok Ea I S R I' V].
  - destruct V as [->|(p & r & sz & ok & -> & ->)]; [reflexivity|]. cbn. rewrite orb_false_r.
    destruct (pid_eqb q p) eqn:E; [|reflexivity]. apply pid_eqb_eq in E. subst. exfalso. eapply NR; reflexivity.
  - subst vs. reflexivity.
  - subst vs. reflexivity.
  - subst vs. reflexivity.
  - exfalso. eapply ND; exact Ea.
Qed.

Lemma blocked_hs g g' h k : blocked g h k -> hs g' = hs g -> in_store (PSub h 0 k) (store g') = false -> blocked g' h k.
Proof. intros (hd & sp & A & B & C & D & E & E' & F) Eh St. exists hd, sp. rewrite Eh. auto 10. Qed.

Lemma blocked_other g g' h k h' hd' : blocked g h k -> h' <> h -> hs g' = upd h' hd' (hs g) -> store g' = store g -> blocked g' h k.
Proof.
  intros (hd & sp & A & B & C & D & E & E' & F) Hne Eh St. exists hd, sp. rewrite Eh, St, nth_error_upd_other by assumption. auto 10.
Qed.

Lemma gstep_blocked g a g' es h k : blocked g h k -> no_do_return a = true -> gstep g a = Some (g', es) ->
  blocked g' h k /\ ~ In h (answered es).
Proof.
  intros B ND Hstep. pose proof B as (hd & sp & Hh & Hit & Han & Hsp & Hcur & Hres & Hst).
  destruct a as [s a|s kk n r sz|items|h'|h' i' s|h' i'|h']; cbn in Hstep.
  - destruct (is_request a) eqn:IR; [discriminate|]. destruct (svc_act_props _ _ _ _ _ Hstep) as (Eh & _ & _ & An & _).
    split; [|rewrite An; intros []]. apply (blocked_hs g); [assumption|assumption|].
    eapply svc_act_keeps_out; [exact Hstep| | |assumption].
    + intros ok ->. discriminate.
    + intros r0 sz0 ->. discriminate.
  - destruct (nth_error (svcs g) s); [|discriminate]. destruct (_ && _); [|discriminate].
    destruct (svc_act_props _ _ _ _ _ Hstep) as (Eh & _ & _ & An & _).
    split; [|rewrite An; intros []]. apply (blocked_hs g); [assumption|assumption|].
    eapply svc_act_keeps_out; [exact Hstep| | |assumption]; intros; discriminate.
  - inversion Hstep; subst. split; [|intros []]. exists hd, sp. cbn.
    rewrite nth_error_app1 by (eapply nth_error_some_lt; eauto). auto 10.
  - destruct (nth_error (hs g) h') as [hd'|] eqn:Hh'; [|discriminate].
    destruct (Nat.eq_dec h' h) as [->|Hne].
    + rewrite Hh in Hh'. inversion Hh'; subst hd'. rewrite Hit in Hstep. discriminate.
    + destruct (h_items hd') as [|[c|] rest]; [discriminate| |].
      * inversion Hstep; subst. split; [|intros []]. eapply blocked_other; [exact B|exact Hne|reflexivity|reflexivity].
      * destruct (h_answer hd'); inversion Hstep; subst.
        -- split; [|intros []]. eapply blocked_other; [exact B|exact Hne|reflexivity|reflexivity].
        -- split; [eapply blocked_other; [exact B|exact Hne|reflexivity|reflexivity]|]. cbn. intros [X|[]]. congruence.
  - destruct (nth_error (hs g) h') as [hd'|] eqn:Hh'; [|discriminate].
    destruct (nth_error (h_subs hd') i') as [sp'|] eqn:Hi'; [|discriminate].
    destruct (is_none (sp_result sp') && is_none (sp_cur sp') && N.ltb (sp_used sp') (attempts g) && may_take g s sp') eqn:Cnd; [|discriminate].
    destruct (svc_act g s _) as [[g1 es1]|] eqn:Hact; [|discriminate]. inversion Hstep; subst; clear Hstep.
    destruct (svc_act_props _ _ _ _ _ Hact) as (Eh & _ & _ & An & _).
    split; [|rewrite An; intros []].
    assert (NE : ~ (h' = h /\ i' = 0)).
    { intros [-> ->]. rewrite Hh in Hh'. inversion Hh'; subst hd'. rewrite Hsp in Hi'. inversion Hi'; subst sp'.
      rewrite Hcur in Cnd. cbn in Cnd. rewrite andb_false_r in Cnd. discriminate. }
    assert (St1 : in_store (PSub h 0 k) (store g1) = false).
    { eapply svc_act_keeps_out; [exact Hact| | |assumption]; [intros; discriminate|].
      intros r0 sz0 X. inversion X; subst. apply NE. auto. }
    destruct (Nat.eq_dec h' h) as [->|Hne].
    + rewrite Hh in Hh'. inversion Hh'; subst hd'. eexists; exists sp. cbn [hs set_hs store]. rewrite Eh.
      rewrite nth_error_upd_same by (eapply nth_error_some_lt; eauto).
      split; [reflexivity|]. cbn [h_items h_subs h_answer]. split; [assumption|]. split; [assumption|]. split; [|auto].
      rewrite nth_error_upd_other; [assumption|]. intros X. apply NE. auto.
    + exists hd, sp. cbn [hs set_hs store]. rewrite Eh, nth_error_upd_other by assumption. auto 10.
  - destruct (nth_error (hs g) h') as [hd'|] eqn:Hh'; [|discriminate].
    destruct (nth_error (h_subs hd') i') as [sp'|] eqn:Hi'; [|discriminate].
    destruct (sp_cur sp') as [k'|] eqn:Hc'; [|discriminate].
    destruct (lookup_store (PSub h' i' k') (store g)) as [[[? ?] ok]|] eqn:L; [|discriminate].
    inversion Hstep; subst; clear Hstep. split; [|intros []].
    assert (NE : ~ (h' = h /\ i' = 0)).
    { intros [-> ->]. rewrite Hh in Hh'. inversion Hh'; subst hd'. rewrite Hsp in Hi'. inversion Hi'; subst sp'.
      rewrite Hcur in Hc'. inversion Hc'; subst k'. apply lookup_some_in_store in L. congruence. }
    destruct (Nat.eq_dec h' h) as [->|Hne].
    + rewrite Hh in Hh'. inversion Hh'; subst hd'. eexists; exists sp. cbn [hs set_hs store].
      rewrite nth_error_upd_same by (eapply nth_error_some_lt; eauto).
      split; [reflexivity|]. cbn [h_items h_subs h_answer]. split; [assumption|]. split; [assumption|]. split; [|auto].
      rewrite nth_error_upd_other; [assumption|]. intros X. apply NE. auto.
    + exists hd, sp. cbn [hs set_hs store]. rewrite nth_error_upd_other by assumption. auto 10.
  - destruct (nth_error (hs g) h') as [hd'|] eqn:Hh'; [|discriminate].
    destruct (Nat.eq_dec h' h) as [->|Hne].
    + rewrite Hh in Hh'. inversion Hh'; subst hd'. rewrite Hit, Han in Hstep.
      destruct (h_subs hd) as [|sp0 rest]; [discriminate|]. cbn in Hsp. inversion Hsp; subst sp0.
      cbn in Hstep. rewrite Hres in Hstep. discriminate.
    + destruct (h_items hd'); [|discriminate]. destruct (h_answer hd'); [discriminate|].
      destruct (verdict _) as [ok|]; [|discriminate]. inversion Hstep; subst.
      split; [eapply blocked_other; [exact B|exact Hne|reflexivity|reflexivity]|]. cbn. intros [X|[]]. congruence.
Qed.

Theorem grun_blocked tr : forall g g' es h k, blocked g h k -> forallb no_do_return tr = true ->
  grun g tr = Some (g', es) -> blocked g' h k /\ ~ In h (answered es).
Proof.
  induction tr as [|a tr IH]; intros g g' es h k B ND Hrun; cbn in Hrun.
  - inversion Hrun; subst. split; [assumption|intros []].
  - cbn in ND. apply andb_true_iff in ND as [Na ND]. destruct (gstep g a) as [[g1 e1]|] eqn:Es; [|discriminate].
    destruct (grun g1 tr) as [[g2 e2]|] eqn:Er; [|discriminate]. inversion Hrun; subst.
    destruct (gstep_blocked _ _ _ _ _ _ B Na Es) as [B1 N1]. destruct (IH _ _ _ _ _ B1 ND Er) as [B2 N2].
    split; [assumption|]. rewrite answered_app. intros X. apply in_app_iff in X as [X|X]; auto.
Qed.

Lemma blocked_not_done g h k : blocked g h k -> all_done g = false.
Proof.
  intros (hd & sp & Hh & _ & Han & _). unfold all_done. apply andb_false_iff. right.
  apply not_true_iff_false. intros X. rewrite forallb_forall in X. specialize (X hd (nth_error_In _ _ Hh)).
  unfold handler_done in X. rewrite Han in X. cbn in X. rewrite andb_false_r in X. discriminate.
Qed.

(* ---------------------------------------------------------------- non-vacuity *)
(* the state of live_demo (open push behind a failed INSERT), three faults allowed: the ping of the series worker
   fails twice, the samples worker's connection attempt is refused once; the run still ends with the push answered *)
Definition demo_adv (g : gstate) (b : nat) : option fault := if Nat.even b then Some (FDial 0) else Some (FPing 1).
Example live_f_demo :
  let tr := firstn 9 demo_trace in
  exists g es, grun (ginit demo_cfg 2) tr = Some (g, es) /\ all_done g = false /\ muf g 3 = 48 /\
    (let '(g1, b1, tr1, es1) := run_sched_f (fun _ _ => true) demo_adv (muf g 3) g 3 in
       all_done g1 = true /\ b1 = 0 /\ count_faults tr1 = 3 /\ In (EDial 0 false) es1 /\
       In (EAnswer 0 [(KSeries, table_of 4 [5%N]); (KSamples, table_of 5 [1%N; 2%N])] true) es1).
Proof.
  cbv zeta. destruct (grun (ginit demo_cfg 2) (firstn 9 demo_trace)) as [[g es]|] eqn:E; [|vm_compute in E; discriminate].
  exists g, es. split; [reflexivity|]. vm_compute in E. inversion E; subst. clear E.
  split; [vm_compute; reflexivity|]. split; [vm_compute; reflexivity|].
  vm_compute. split; [reflexivity|]. split; [reflexivity|]. split; [reflexivity|].
  split; repeat (first [left; reflexivity|right]).
Qed.

(* a reachable state (no Stop, routed) in which push 0 is blocked behind its series sub-push and the samples worker is
   dialling: the hypotheses of refused_dials_lead_nowhere and of grun_blocked together *)
Definition dial_demo : list gact := firstn 9 demo_trace ++ [GSubGet 0 1; GSubReq 0 1 0; GSvc 0 SPlan].
Example dial_demo_state :
  forallb (act_live (sig_of_cfg demo_cfg)) dial_demo = true /\
  exists g es, grun (ginit demo_cfg 2) dial_demo = Some (g, es) /\ blocked g 0 0 /\
    exists g1 e1, gstep g (GSvc 0 (SDial false)) = Some (g1, e1).
Proof.
  split; [vm_compute; reflexivity|].
  destruct (grun (ginit demo_cfg 2) dial_demo) as [[g es]|] eqn:E; [|vm_compute in E; discriminate].
  exists g, es. split; [reflexivity|]. vm_compute in E. inversion E; subst. clear E. split.
  - eexists; eexists. cbn. repeat (split; [reflexivity|]). reflexivity.
  - eexists; eexists. vm_compute. reflexivity.
Qed.

(* without a bound on the refusals there is no bound on the steps either *)
Theorem bounded_completion_needs_finite_refusals :
  ~ (forall cfg n tr g es, grun (ginit cfg n) tr = Some (g, es) -> forallb (act_live (sig_of_cfg cfg)) tr = true ->
       exists bound, forall tr' g' es', forallb nonew tr' = true -> grun g tr' = Some (g', es') ->
         bound <= length tr' -> all_done g' = true).
Proof.
  intros H. destruct dial_demo_state as (L & g & es & Hrun & B & g1 & e1 & Hd).
  destruct (H _ _ _ _ _ Hrun L) as (bound & Hb).
  destruct (refused_dials_lead_nowhere _ _ _ _ Hd bound) as [R N].
  specialize (Hb _ _ _ N R). rewrite repeat_length in Hb. specialize (Hb (le_n _)).
  rewrite (blocked_not_done _ _ _ B) in Hb. discriminate.
Qed.
