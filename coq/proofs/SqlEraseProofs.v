(* C10 — trees that differ only in their values print statements with the same token structure; value-independence of the
   Pyroscope selector planner model (model/ProfSel.v): for ALL selector lists. *)
From Qryn Require Import lib.Strs model.Sql model.SqlRender.
From Coq Require Import List ZArith NArith String Ascii Bool Lia.
From Qryn Require Import model.Logql model.LogqlPlan model.PromSel model.ProfSel.
From Qryn Require Import model.Quote model.ChLex model.SqlSites model.SqlPieces model.SqlPiecesCases model.SqlPiecesSel.
From Qryn Require Import proofs.QuoteProofs proofs.SqlPiecesProofs.
Import ListNotations.
Open Scope string_scope.
Open Scope list_scope.

Notation K := (fun _ : string => EmptyString).

(* ---------- the generic statement ---------- *)
Lemma pm_K_shape p p' : pm K p' = pm K p -> shape p' = shape p.
Proof. intro H. rewrite <- (shape_pm K p'), <- (shape_pm K p), H. reflexivity. Qed.

Lemma pm_K_rqids p p' : pm K p' = pm K p -> rqids p' = rqids p.
Proof. intro H. rewrite <- (rqids_pm K p'), <- (rqids_pm K p), H. reflexivity. Qed.

Lemma erased_equal_same_structure q q' cluster p :
  erase_sel q = erase_sel q' -> pieces q cluster = Some p -> pok QN p = true ->
  exists p', pieces q' cluster = Some p' /\ pok QN p' = true /\ shape p' = shape p /\
    render q cluster = Some (flat p) /\ render q' cluster = Some (flat p') /\
    skeleton (lex (flat p')) = skeleton (lex (flat p)) /\
    lex (flat p') = etoks QN p' /\ List.length (rvalues p') = List.length (rvalues p).
Proof.
  unfold erase_sel. intros He Hp Hok.
  pose proof (pieces_subst K q cluster) as H1. pose proof (pieces_subst K q' cluster) as H2.
  rewrite He, H2, Hp in H1. cbn [option_map] in H1.
  destruct (pieces q' cluster) as [p'|] eqn:Hp'; [|discriminate]. cbn [option_map] in H1. injection H1 as H1.
  exists p'. split; [reflexivity|].
  pose proof (pm_K_shape p p' H1) as Hsh.
  assert (Hq : forallb (all_chars plain_char) (rqids p') = true)
    by (rewrite (pm_K_rqids p p' H1); exact (pok_plain_qids p QN Hok)).
  destruct (same_shape_same_skeleton p p' (eq_sym Hsh) Hq Hok) as [Hok' Hsk].
  split; [exact Hok'|]. split; [exact Hsh|].
  split; [rewrite render_pieces, Hp; reflexivity|]. split; [rewrite render_pieces, Hp'; reflexivity|].
  split; [exact Hsk|]. split; [exact (lex_pieces p' Hok')|].
  assert (Hl : forall a, List.length (rvalues (pm K a)) = List.length (rvalues a)) by (intro a; rewrite rvalues_pm; apply map_length).
  rewrite <- (Hl p'), <- (Hl p), H1. reflexivity.
Qed.

(* ---------- the record updates commute with a replacement of the values ---------- *)
Section Commute.
  Variable f : string -> string.
  Notation F := (subst f).
  Notation Fs := (subst_sel f).

  Lemma Fs_empty : Fs empty_select = empty_select.
  Proof. reflexivity. Qed.
  Lemma Fs_set_cols c s : Fs (set_cols c s) = set_cols (map F c) (Fs s).
  Proof. destruct s; reflexivity. Qed.
  Lemma Fs_set_from x s : Fs (set_from x s) = set_from (F x) (Fs s).
  Proof. destruct s; reflexivity. Qed.
  Lemma Fs_set_groupby g s : Fs (set_groupby g s) = set_groupby (map F g) (Fs s).
  Proof. destruct s; reflexivity. Qed.

  Lemma F_and_into o cl : map_opt F (and_into o cl) = and_into (map_opt F o) (map F cl).
  Proof.
    destruct o as [e|]; [|reflexivity].
    destruct e; try reflexivity.
    destruct fn; try reflexivity.
    cbn [and_into map_opt And subst]. rewrite map_app. reflexivity.
  Qed.

  Lemma Fs_and_where cl s : Fs (and_where cl s) = and_where (map F cl) (Fs s).
  Proof.
    destruct s as [d cols from wh pw hv gb ob lm off withs joins sett unions].
    unfold and_where, set_where, subst_sel. cbn [s_where s_distinct s_cols s_from s_prewhere s_having s_groupby s_orderby s_limit s_offset s_withs s_joins s_settings s_unions].
    rewrite !map_sel_unfold. cbn [s_where s_distinct s_cols s_from s_prewhere s_having s_groupby s_orderby s_limit s_offset s_withs s_joins s_settings s_unions].
    rewrite F_and_into. reflexivity.
  Qed.

  Lemma Fs_and_having cl s : Fs (and_having cl s) = and_having (map F cl) (Fs s).
  Proof.
    destruct s as [d cols from wh pw hv gb ob lm off withs joins sett unions].
    unfold and_having, set_having, subst_sel. cbn [s_where s_distinct s_cols s_from s_prewhere s_having s_groupby s_orderby s_limit s_offset s_withs s_joins s_settings s_unions].
    rewrite !map_sel_unfold. cbn [s_where s_distinct s_cols s_from s_prewhere s_having s_groupby s_orderby s_limit s_offset s_withs s_joins s_settings s_unions].
    rewrite F_and_into. reflexivity.
  Qed.
End Commute.

(* ---------- the Pyroscope selector planner is value-independent ---------- *)
Lemma E_matcher_clause field op v v' : erase (matcher_clause field op v) = erase (matcher_clause field op v').
Proof. destruct op; reflexivity. Qed.

Lemma E_global_clause p op v v' : erase (global_clause p op v) = erase (global_clause p op v').
Proof. destruct p, op; reflexivity. Qed.

Lemma E_kv_clause s s' : sl_op s = sl_op s' -> erase (kv_clause s) = erase (kv_clause s').
Proof. intro H. unfold kv_clause. rewrite H. destruct (sl_op s'); reflexivity. Qed.

Lemma variant_val s s' : sel_variant s s' -> sel_variant (prof_selector_val s) (prof_selector_val s').
Proof.
  intros [Ho Hp]. unfold prof_selector_val. rewrite Ho. destruct (sl_op s') eqn:E; split; cbn [sl_op sl_name]; try reflexivity; try assumption; congruence.
Qed.

Lemma E_get_matchers sels sels' : Forall2 sel_variant sels sels' ->
  map erase (fst (get_matchers sels)) = map erase (fst (get_matchers sels')) /\
  map erase (snd (get_matchers sels)) = map erase (snd (get_matchers sels')).
Proof.
  induction 1 as [|s s' l l' Hv _ IH]; [split; reflexivity|].
  cbn [get_matchers]. destruct IH as [IHg IHk].
  destruct (get_matchers l) as [g kv]. destruct (get_matchers l') as [g' kv']. cbn [fst snd] in IHg, IHk.
  destruct (variant_val s s' Hv) as [Ho Hp]. rewrite Hp.
  destruct (pseudo_of (sl_name (prof_selector_val s'))) as [p|]; cbn [fst snd map].
  - split; [|exact IHk]. rewrite IHg, Ho. f_equal. apply E_global_clause.
  - split; [exact IHg|]. rewrite IHk. f_equal. apply E_kv_clause. exact Ho.
Qed.

Lemma map_eq_length {A B} (f : A -> B) l l' : map f l = map f l' -> List.length l = List.length l'.
Proof. intro H. rewrite <- (map_length f l), <- (map_length f l'), H. reflexivity. Qed.

Lemma Es_prof_selector t a b sels sels' : Forall2 sel_variant sels sels' ->
  erase_sel (prof_selector t a b sels) = erase_sel (prof_selector t a b sels').
Proof.
  intro H. destruct (E_get_matchers sels sels' H) as [Hg Hk].
  unfold prof_selector. destruct (get_matchers sels) as [g kv]. destruct (get_matchers sels') as [g' kv']. cbn [fst snd] in Hg, Hk.
  set (q0 := set_groupby _ _).
  unfold erase_sel, erase in *.
  assert (H1 : subst_sel K (match g with [] => q0 | _ => and_where [And g] q0 end) =
               subst_sel K (match g' with [] => q0 | _ => and_where [And g'] q0 end)).
  { destruct g as [|x g]; destruct g' as [|x' g']; try discriminate; [reflexivity|].
    rewrite !Fs_and_where. cbn [map subst And]. cbn [map] in Hg. rewrite Hg. reflexivity. }
  destruct kv as [|y kv]; destruct kv' as [|y' kv']; try discriminate; [exact H1|].
  rewrite !Fs_and_having, !Fs_and_where, H1.
  pose proof (map_eq_length _ _ _ Hk) as Hl. rewrite Hl.
  cbn [map subst Or Eq]. cbn [map] in Hk. rewrite Hk. reflexivity.
Qed.

Lemma variant_inverse s s' : sel_variant s s' -> sel_variant (sel_inverse s) (sel_inverse s').
Proof. intros [Ho Hp]. split; cbn [sel_inverse sl_op sl_name]; [rewrite Ho; reflexivity|exact Hp]. Qed.

Lemma E_not_rejected t a b s s' : sel_variant s s' ->
  erase (prof_not_rejected t a b s) = erase (prof_not_rejected t a b s').
Proof.
  intro H. unfold prof_not_rejected, erase. cbn [subst Eq map].
  pose proof (Es_prof_selector t a b [sel_inverse s] [sel_inverse s'] (Forall2_cons _ _ (variant_inverse _ _ H) (Forall2_nil _))) as He.
  unfold erase_sel, subst_sel in He. rewrite He. reflexivity.
Qed.

Lemma Forall2_filter {A} (R : A -> A -> Prop) (P : A -> bool) l l' :
  Forall2 (fun x y => R x y /\ P x = P y) l l' -> Forall2 R (filter P l) (filter P l').
Proof.
  induction 1 as [|x y l l' [Hr Hp] _ IH]; [constructor|].
  cbn [filter]. rewrite Hp. destruct (P y); [constructor; assumption|exact IH].
Qed.

Lemma Forall2_weaken {A} (R R' : A -> A -> Prop) l l' : (forall x y, R x y -> R' x y) -> Forall2 R l l' -> Forall2 R' l l'.
Proof. intros Hw H. induction H; constructor; auto. Qed.

(* requests that differ only in their values (same operators, same pseudo labels, same answers to the one question the planner
   asks about a value: does the selector accept the empty string) are planned into trees with the same erasure *)
Lemma Es_prof_selector_abs re t a b sels sels' :
  Forall2 (fun s s' => sel_variant s s' /\ sel_accepts_absent re s = sel_accepts_absent re s') sels sels' ->
  erase_sel (prof_selector_abs re t a b sels) = erase_sel (prof_selector_abs re t a b sels').
Proof.
  intro H. unfold prof_selector_abs, prof_absent_sels, prof_indexed_sels.
  assert (Hi : Forall2 sel_variant (filter (fun s => negb (sel_accepts_absent re s)) sels) (filter (fun s => negb (sel_accepts_absent re s)) sels')).
  { apply Forall2_filter. eapply Forall2_weaken; [|exact H]. intros x y [Hv He]. split; [exact Hv|]. cbn. now rewrite He. }
  pose proof (Forall2_filter sel_variant (sel_accepts_absent re) sels sels' H) as Ha.
  pose proof (Es_prof_selector t a b _ _ Hi) as H0.
  revert H0. generalize (prof_selector t a b (filter (fun s => negb (sel_accepts_absent re s)) sels)).
  generalize (prof_selector t a b (filter (fun s => negb (sel_accepts_absent re s)) sels')).
  induction Ha as [|s s' l l' Hv _ IH]; intros q' q Hq; [exact Hq|].
  cbn [fold_left]. apply IH. unfold erase_sel in *. rewrite !Fs_and_where, Hq. cbn [map].
  pose proof (E_not_rejected t a b s s' Hv) as He. unfold erase in He. rewrite He. reflexivity.
Qed.

(* the property for the Pyroscope selector planner, for ALL selector lists *)
Lemma profile_selector_value_independent re t a b cluster sels sels' p :
  Forall2 (fun s s' => sel_variant s s' /\ sel_accepts_absent re s = sel_accepts_absent re s') sels sels' ->
  pieces (prof_selector_abs re t a b sels) cluster = Some p -> pok QN p = true ->
  exists p', pieces (prof_selector_abs re t a b sels') cluster = Some p' /\ pok QN p' = true /\ shape p' = shape p /\
    render (prof_selector_abs re t a b sels) cluster = Some (flat p) /\
    render (prof_selector_abs re t a b sels') cluster = Some (flat p') /\
    skeleton (lex (flat p')) = skeleton (lex (flat p)) /\
    lex (flat p') = etoks QN p' /\ List.length (rvalues p') = List.length (rvalues p).
Proof. intros H. exact (erased_equal_same_structure _ _ cluster p (Es_prof_selector_abs re t a b sels sels' H)). Qed.

(* ---------- WITH lists: AddWith commutes with a replacement of the values (nested induction over the select) ---------- *)
Definition hoist : list (string * select) -> list (string * select) -> list (string * select) :=
  fix go (ws : list (string * select)) (cur : list (string * select)) : list (string * select) :=
     match ws with
     | [] => cur
     | (a', q') :: r => go r (add_with q' a' cur)
     end.
Lemma add_with_unfold q a cur :
  add_with q a cur = if existsb (fun x => String.eqb (fst x) a) cur then cur else hoist (s_withs q) cur ++ [(a, q)].
Proof. destruct q; reflexivity. Qed.

Section W.
  Variable f : string -> string.
  Notation F := (subst f).
  Notation Fs := (subst_sel f).
  Notation mw := (mwiths_of (map_sel F)).

  Lemma mw_app l r : mw (l ++ r) = mw l ++ mw r.
  Proof. induction l as [|[a q] l IH]; [reflexivity|]. cbn [app mwiths_of]. fold mw. now rewrite IH. Qed.
  Lemma mw_exists a l : existsb (fun x => String.eqb (fst x) a) (mw l) = existsb (fun x => String.eqb (fst x) a) l.
  Proof. induction l as [|[b q] l IH]; [reflexivity|]. cbn [mwiths_of existsb fst]. fold mw. now rewrite IH. Qed.
  Lemma Fs_withs q : s_withs (Fs q) = mw (s_withs q).
  Proof. destruct q. unfold subst_sel. rewrite map_sel_unfold. reflexivity. Qed.

  Lemma mw_add_with : forall q a cur, mw (add_with q a cur) = add_with (Fs q) a (mw cur).
  Proof.
    intro q.
    apply (sel_ind_gen (fun _ : expr => True) (fun q => forall a cur, mw (add_with q a cur) = add_with (Fs q) a (mw cur)) (fun _ => I)).
    intros d cols from wh pw hv gb ob lm off withs joins sett unions _ _ _ _ _ _ _ _ _ Hw _ _ a cur.
    rewrite !add_with_unfold, mw_exists, Fs_withs.
    unfold select in *. destruct (existsb (fun x : string * select_ expr => String.eqb (fst x) a) cur) eqn:Ex; [reflexivity|].
    rewrite mw_app. cbn [mwiths_of]. f_equal.
    cbn [s_withs]. clear - Hw. revert cur. induction Hw as [|[a' q'] ws Hq _ IH]; intro cur; [reflexivity|].
    cbn [hoist mwiths_of]. fold hoist. fold mw. cbn [snd] in Hq. rewrite IH, Hq. reflexivity.
  Qed.
End W.

Section W2.
  Variable f : string -> string.
  Notation F := (subst f).
  Notation Fs := (subst_sel f).
  Notation mw := (mwiths_of (map_sel F)).

  Lemma Fs_set_withs l s : Fs (set_withs l s) = set_withs (mw l) (Fs s).
  Proof. destruct s; reflexivity. Qed.
  Lemma Fs_set_limit l s : Fs (set_limit l s) = set_limit (map_opt F l) (Fs s).
  Proof. destruct s; reflexivity. Qed.
  Lemma Fs_set_orderby l s : Fs (set_orderby l s) = set_orderby (map F l) (Fs s).
  Proof. destruct s; reflexivity. Qed.

  Lemma mw_fold ws : forall cur,
    mw (fold_left (fun cur w => add_with (snd w) (fst w) cur) ws cur) =
    fold_left (fun cur w => add_with (snd w) (fst w) cur) (mw ws) (mw cur).
  Proof.
    induction ws as [|[a q] ws IH]; intro cur; [reflexivity|].
    cbn [fold_left mwiths_of fst snd]. fold mw. rewrite IH, mw_add_with. reflexivity.
  Qed.

  Lemma Fs_add_withs ws s : Fs (add_withs ws s) = add_withs (mw ws) (Fs s).
  Proof. unfold add_withs. rewrite Fs_set_withs, mw_fold, Fs_withs. reflexivity. Qed.

  Lemma Fs_with_ ws s : Fs (with_ ws s) = with_ (mw ws) (Fs s).
  Proof. unfold with_. rewrite Fs_add_withs, Fs_set_withs. reflexivity. Qed.
End W2.


(* ---------- the LogQL stream selector planner (used by the PromQL transpiler) ---------- *)

Lemma E_val_clause m m' : matcher_variant m m' -> erase (val_clause m) = erase (val_clause m').
Proof. unfold matcher_variant, val_clause. intro H. rewrite H. destruct (m_op m'); reflexivity. Qed.

Lemma E_sel_clause m m' : matcher_variant m m' -> erase (sel_clause m) = erase (sel_clause m').
Proof.
  intro H. unfold sel_clause, erase. cbn [subst And Eq map]. fold erase.
  change (subst K (val_clause m)) with (erase (val_clause m)). change (subst K (val_clause m')) with (erase (val_clause m')).
  rewrite (E_val_clause m m' H). reflexivity.
Qed.

Lemma E_sel_clauses ms ms' : Forall2 matcher_variant ms ms' -> map erase (map sel_clause ms) = map erase (map sel_clause ms').
Proof. induction 1 as [|m m' l l' H _ IH]; [reflexivity|]. cbn [map]. now rewrite IH, (E_sel_clause m m' H). Qed.

Lemma Es_stream_select c ms ms' : Forall2 matcher_variant ms ms' -> erase_sel (stream_select c ms) = erase_sel (stream_select c ms').
Proof.
  intro H. pose proof (E_sel_clauses ms ms' H) as Hc. unfold stream_select, erase_sel, erase in *.
  rewrite !Fs_and_having, !Fs_set_groupby, !Fs_and_where.
  pose proof (map_eq_length _ _ _ Hc) as Hl. rewrite Hl.
  cbn [map subst Eq Or]. rewrite Hc. reflexivity.
Qed.

(* ---------- the PromQL matcher planner: fingerprintsQuery and TranspileLabelMatchers ---------- *)
Lemma variant_prom_matcher m m' : matcher_variant m m' -> matcher_variant (prom_matcher m) (prom_matcher m').
Proof.
  unfold matcher_variant, prom_matcher. intro H. rewrite H.
  destruct (m_op m') eqn:E; cbn [m_op]; try reflexivity; congruence.
Qed.
Lemma variant_inverse_m m m' : matcher_variant m m' -> matcher_variant (inverse m) (inverse m').
Proof. unfold matcher_variant, inverse. intro H. cbn [m_op]. now rewrite H. Qed.

Lemma E_not_rejected_m c m m' : matcher_variant m m' -> erase (not_rejected c m) = erase (not_rejected c m').
Proof.
  intro H. unfold not_rejected, rejected_query, erase. cbn [subst Eq map].
  pose proof (Es_stream_select c [prom_matcher (inverse m)] [prom_matcher (inverse m')]
                (Forall2_cons _ _ (variant_prom_matcher _ _ (variant_inverse_m _ _ H)) (Forall2_nil _))) as He.
  unfold erase_sel, subst_sel in He. rewrite He. reflexivity.
Qed.

Lemma Forall2_map {A} (R : A -> A -> Prop) (g : A -> A) l l' :
  (forall x y, R x y -> R (g x) (g y)) -> Forall2 R l l' -> Forall2 R (map g l) (map g l').
Proof. intros Hg H. induction H; constructor; auto. Qed.

Lemma Es_fingerprints_query re c ms ms' :
  Forall2 (fun m m' => matcher_variant m m' /\ accepts_empty re m = accepts_empty re m') ms ms' ->
  erase_sel (fingerprints_query re c ms) = erase_sel (fingerprints_query re c ms').
Proof.
  intro H. unfold fingerprints_query.
  assert (Hi : Forall2 matcher_variant (filter (fun m => negb (accepts_empty re m)) ms) (filter (fun m => negb (accepts_empty re m)) ms')).
  { apply Forall2_filter. eapply Forall2_weaken; [|exact H]. intros x y [Hv He]. split; [exact Hv|]. cbn. now rewrite He. }
  pose proof (Forall2_filter matcher_variant (accepts_empty re) ms ms' H) as Ha.
  pose proof (Es_stream_select c _ _ (Forall2_map _ prom_matcher _ _ variant_prom_matcher Hi)) as H0.
  revert H0. generalize (stream_select c (map prom_matcher (filter (fun m => negb (accepts_empty re m)) ms))).
  generalize (stream_select c (map prom_matcher (filter (fun m => negb (accepts_empty re m)) ms'))).
  induction Ha as [|m m' l l' Hv _ IH]; intros q' q Hq; [exact Hq|].
  cbn [fold_left]. apply IH. unfold erase_sel in *. rewrite !Fs_and_where, Hq. cbn [map].
  pose proof (E_not_rejected_m c m m' Hv) as He. unfold erase in He. rewrite He. reflexivity.
Qed.

Lemma Es_process_hints q q' h : erase_sel q = erase_sel q' -> erase_sel (process_hints q h) = erase_sel (process_hints q' h).
Proof.
  intro H. unfold process_hints, erase_sel in *.
  assert (H1 : subst_sel K (if is_instant (h_func h) then
      set_orderby [Ord (Id "fingerprint") true; Ord (Id "timestamp_ms") true]
       (set_groupby [Id "timestamp_ms"; Id "fingerprint"]
        (set_from (WRef "spls" q)
         (set_cols [Id "fingerprint";
                    Col (Fn "argMax" [Id "spls.value"; Id "spls.timestamp_ms"]) "value";
                    Col (bucket_expr h) "timestamp_ms"]
          (with_ [("spls", q)] empty_select)))) else q) =
               subst_sel K (if is_instant (h_func h) then
      set_orderby [Ord (Id "fingerprint") true; Ord (Id "timestamp_ms") true]
       (set_groupby [Id "timestamp_ms"; Id "fingerprint"]
        (set_from (WRef "spls" q')
         (set_cols [Id "fingerprint";
                    Col (Fn "argMax" [Id "spls.value"; Id "spls.timestamp_ms"]) "value";
                    Col (bucket_expr h) "timestamp_ms"]
          (with_ [("spls", q')] empty_select)))) else q')).
  { destruct (is_instant (h_func h)); [|exact H].
    rewrite !Fs_set_orderby, !Fs_set_groupby, !Fs_set_from, !Fs_set_cols, !Fs_with_.
    cbn [subst mwiths_of]. unfold subst_sel in H. rewrite H. reflexivity. }
  destruct (is_range (h_func h) && (h_range h <? h_step h)%Z); [|exact H1].
  rewrite !Fs_and_where, H1. reflexivity.
Qed.

Lemma Es_transpile re h c ms ms' :
  Forall2 (fun m m' => matcher_variant m m' /\ accepts_empty re m = accepts_empty re m') ms ms' ->
  erase_sel (transpile_label_matchers re h c ms) = erase_sel (transpile_label_matchers re h c ms').
Proof.
  intro H. pose proof (Es_fingerprints_query re c ms ms' H) as Hf. unfold transpile_label_matchers.
  set (fpq := fingerprints_query re c ms) in *. set (fpq' := fingerprints_query re c ms') in *.
  assert (Hq : erase_sel (and_where [Sql.In (Id "samples.fingerprint") [WRef "fp_sel" fpq]] (add_withs [("fp_sel", fpq)] (init_clickhouse c))) =
               erase_sel (and_where [Sql.In (Id "samples.fingerprint") [WRef "fp_sel" fpq']] (add_withs [("fp_sel", fpq')] (init_clickhouse c)))).
  { unfold erase_sel in *. rewrite !Fs_and_where, !Fs_add_withs. cbn [map subst mwiths_of]. unfold subst_sel in Hf. rewrite Hf. reflexivity. }
  destruct (Z.eqb (h_step h) 0); [exact Hq|]. apply Es_process_hints. exact Hq.
Qed.

(* the property for the PromQL matcher planner, for ALL matcher lists *)
Lemma promql_matchers_value_independent re h c cluster ms ms' p :
  Forall2 (fun m m' => matcher_variant m m' /\ accepts_empty re m = accepts_empty re m') ms ms' ->
  pieces (transpile_label_matchers re h c ms) cluster = Some p -> pok QN p = true ->
  exists p', pieces (transpile_label_matchers re h c ms') cluster = Some p' /\ pok QN p' = true /\ shape p' = shape p /\
    render (transpile_label_matchers re h c ms) cluster = Some (flat p) /\
    render (transpile_label_matchers re h c ms') cluster = Some (flat p') /\
    skeleton (lex (flat p')) = skeleton (lex (flat p)) /\
    lex (flat p') = etoks QN p' /\ List.length (rvalues p') = List.length (rvalues p).
Proof. intros H. exact (erased_equal_same_structure _ _ cluster p (Es_transpile re h c ms ms' H)). Qed.

(* ---------- the down-sampled path and the querier's choice between the two ---------- *)
Lemma Fs_cols f q : s_cols (subst_sel f q) = map (subst f) (s_cols q).
Proof. destruct q. unfold subst_sel. rewrite map_sel_unfold. reflexivity. Qed.

Lemma Fs_patch_field f alias nf q :
  subst_sel f (patch_field alias nf q) = patch_field alias (subst f nf) (subst_sel f q).
Proof.
  unfold patch_field. rewrite Fs_set_cols, Fs_cols, !map_map. f_equal. apply map_ext. intro c.
  destruct c as [| | | | | | | | | | | | | |x a| | | | | | |]; try reflexivity. cbn [alias_of subst]. destruct (String.eqb a alias); reflexivity.
Qed.

Lemma Es_downsample_hints q q' h : erase_sel q = erase_sel q' -> erase_sel (downsample_hints q h) = erase_sel (downsample_hints q' h).
Proof.
  intro H. unfold downsample_hints, erase_sel in *. destruct (Z.eqb (h_step h) 0); [exact H|].
  destruct (is_range (h_func h) && (h_range h <? h_step h)%Z).
  - rewrite !Fs_and_where, !Fs_patch_field, H. reflexivity.
  - rewrite !Fs_patch_field, H. reflexivity.
Qed.

Lemma Es_transpile_downsample re h c ms ms' :
  Forall2 (fun m m' => matcher_variant m m' /\ accepts_empty re m = accepts_empty re m') ms ms' ->
  erase_sel (transpile_label_matchers_downsample re h c ms) = erase_sel (transpile_label_matchers_downsample re h c ms').
Proof.
  intro H. pose proof (Es_fingerprints_query re c ms ms' H) as Hf. unfold transpile_label_matchers_downsample, stream_select_combiner.
  apply Es_downsample_hints.
  set (fpq := fingerprints_query re c ms) in *. set (fpq' := fingerprints_query re c ms') in *.
  unfold erase_sel in *. rewrite !Fs_and_where, !Fs_add_withs. cbn [map subst mwiths_of]. unfold subst_sel in Hf. rewrite Hf. reflexivity.
Qed.

Lemma Es_querier_transpile re cluster db h ms ms' :
  Forall2 (fun m m' => matcher_variant m m' /\ accepts_empty re m = accepts_empty re m') ms ms' ->
  erase_sel (fst (querier_transpile re cluster db h ms)) = erase_sel (fst (querier_transpile re cluster db h ms')).
Proof.
  intro H. unfold querier_transpile. destruct (use_raw_data h); cbn [fst]; [apply Es_transpile|apply Es_transpile_downsample]; exact H.
Qed.

(* what CLokiQuerier.Select sends for a list of matchers, for ALL matcher lists *)
Lemma promql_querier_value_independent re cluster db h ms ms' p :
  Forall2 (fun m m' => matcher_variant m m' /\ accepts_empty re m = accepts_empty re m') ms ms' ->
  pieces (fst (querier_transpile re cluster db h ms)) cluster = Some p -> pok QN p = true ->
  exists p', pieces (fst (querier_transpile re cluster db h ms')) cluster = Some p' /\ pok QN p' = true /\ shape p' = shape p /\
    select_sql re cluster db h ms = Some (flat p) /\ select_sql re cluster db h ms' = Some (flat p') /\
    skeleton (lex (flat p')) = skeleton (lex (flat p)) /\
    lex (flat p') = etoks QN p' /\ List.length (rvalues p') = List.length (rvalues p).
Proof. intros H. exact (erased_equal_same_structure _ _ cluster p (Es_querier_transpile re cluster db h ms ms' H)). Qed.

(* the LogQL stream selector planner (StreamSelectPlanner: the fingerprint sub-select of every LogQL request) *)
Lemma logql_stream_select_value_independent c cluster ms ms' p :
  Forall2 matcher_variant ms ms' -> pieces (stream_select c ms) cluster = Some p -> pok QN p = true ->
  exists p', pieces (stream_select c ms') cluster = Some p' /\ pok QN p' = true /\ shape p' = shape p /\
    render (stream_select c ms) cluster = Some (flat p) /\ render (stream_select c ms') cluster = Some (flat p') /\
    skeleton (lex (flat p')) = skeleton (lex (flat p)) /\
    lex (flat p') = etoks QN p' /\ List.length (rvalues p') = List.length (rvalues p).
Proof. intros H. exact (erased_equal_same_structure _ _ cluster p (Es_stream_select c ms ms' H)). Qed.
