(* Round 7 (seed C17-g): what the oracle PromSelDup.select_dup_exact_ok guarantees about a series set it accepts, for
   EVERY row list and labels answer (label sets may be shared by any number of fingerprints): no series carries a sample
   that is not a row of a fingerprint under its own label set, and no row is lost.  The seed's observation (series Y
   handed samples of the merged series X) is rejected; the old counting oracle accepted it. *)
From Coq Require Import List ZArith NArith String Bool.
From Qryn Require Import lib.Strs model.PromSelect model.PromSelDup proofs.PromSelProofs.
Import ListNotations.

Lemma dup_samples_eqb_eq : forall a b : list sample, samples_eqb a b = true -> a = b.
Proof.
  unfold samples_eqb. induction a as [|x a IH]; destruct b as [|y b]; simpl; try discriminate; auto.
  intros H. apply andb_prop in H as [H1 H2]. unfold pair_eqb in H1. apply andb_prop in H1 as [Ha Hb].
  apply Z.eqb_eq in Ha. apply Z.eqb_eq in Hb. destruct x, y; simpl in *; subst. f_equal. now apply IH.
Qed.

Lemma own_samples_in rows fp smp :
  List.In smp (own_samples false rows fp) <-> exists r, List.In r rows /\ r_fp r = fp /\ (r_ts r, r_val r) = smp.
Proof.
  unfold own_samples, rows_of. rewrite in_map_iff. split.
  - intros [r [E H]]. apply filter_In in H as [H1 H2]. apply N.eqb_eq in H2. now exists r.
  - intros [r [H1 [H2 E]]]. exists r. split; [exact E|]. apply filter_In. split; [exact H1|]. now apply N.eqb_eq.
Qed.

Lemma group_fps_in rows fetch l fp :
  List.In fp (group_fps rows fetch l) <-> List.In fp (fps_of rows) /\ labels_get fetch fp = l.
Proof. unfold group_fps. rewrite filter_In, labels_eqb_spec. tauto. Qed.

Lemma fps_of_in rows r : List.In r rows -> List.In (r_fp r) (fps_of rows).
Proof. intros H. unfold fps_of. apply nodup_In. now apply in_map. Qed.

Lemma series_own_sound rows fetch o smp :
  series_own_ok false rows fetch o = true -> List.In smp (o_samples o) ->
  exists r, List.In r rows /\ labels_get fetch (r_fp r) = o_labels o /\ (r_ts r, r_val r) = smp.
Proof.
  unfold series_own_ok. intros H Hin.
  destruct (group_fps rows fetch (o_labels o)) as [|fp [|fp2 rest]] eqn:G; [discriminate| |].
  - apply andb_prop in H as [_ H]. apply dup_samples_eqb_eq in H. rewrite H in Hin.
    apply own_samples_in in Hin as [r [H1 [H2 H3]]]. exists r. repeat split; auto.
    assert (Hg : List.In fp (group_fps rows fetch (o_labels o))) by (rewrite G; now left).
    apply group_fps_in in Hg as [_ Hg]. now rewrite H2.
  - apply andb_prop in H as [H _]. apply andb_prop in H as [_ H]. apply dup_samples_eqb_eq in H.
    unfold canon_samples in H. apply (isort_in sample_lt) in Hin. rewrite H in Hin. apply isort_in in Hin.
    apply in_flat_map in Hin as [fp' [Hfp' Hin]].
    apply own_samples_in in Hin as [r [H1 [H2 H3]]]. exists r. repeat split; auto.
    rewrite <- G in Hfp'. apply group_fps_in in Hfp' as [_ Hg]. now rewrite H2.
Qed.

Lemma series_own_complete rows fetch o r :
  series_own_ok false rows fetch o = true -> List.In r rows -> labels_get fetch (r_fp r) = o_labels o ->
  List.In (r_ts r, r_val r) (o_samples o).
Proof.
  unfold series_own_ok. intros H Hr Hl.
  assert (Hg : List.In (r_fp r) (group_fps rows fetch (o_labels o))).
  { apply group_fps_in. split; [now apply fps_of_in | exact Hl]. }
  assert (Hown : List.In (r_ts r, r_val r) (own_samples false rows (r_fp r))).
  { apply own_samples_in. now exists r. }
  destruct (group_fps rows fetch (o_labels o)) as [|fp [|fp2 rest]] eqn:G; [discriminate| |].
  - apply andb_prop in H as [_ H]. apply dup_samples_eqb_eq in H. rewrite H.
    destruct Hg as [Hg|[]]. now rewrite Hg.
  - apply andb_prop in H as [H _]. apply andb_prop in H as [_ H]. apply dup_samples_eqb_eq in H.
    unfold canon_samples in H. apply (isort_in sample_lt). rewrite H. apply isort_in.
    apply in_flat_map. now exists (r_fp r).
Qed.

(* every series of an accepted answer carries only rows of fingerprints stored under ITS OWN label set *)
Theorem accepted_series_carry_only_their_own_rows_lemma : forall rows fetch obs,
  select_dup_exact_ok false rows fetch obs = true ->
  forall o smp, List.In o obs -> List.In smp (o_samples o) ->
  exists r, List.In r rows /\ labels_get fetch (r_fp r) = o_labels o /\ (r_ts r, r_val r) = smp.
Proof.
  intros rows fetch obs H o smp Ho Hs. unfold select_dup_exact_ok in H. apply andb_prop in H as [_ H].
  rewrite forallb_forall in H. eapply series_own_sound; eauto.
Qed.

(* and every row reaches the engine inside the series of its fingerprint's label set *)
Theorem accepted_answers_lose_no_row_lemma : forall rows fetch obs,
  select_dup_exact_ok false rows fetch obs = true ->
  forall r, List.In r rows ->
  exists o, List.In o obs /\ o_labels o = labels_get fetch (r_fp r) /\ List.In (r_ts r, r_val r) (o_samples o).
Proof.
  intros rows fetch obs H r Hr. unfold select_dup_exact_ok in H. apply andb_prop in H as [Hd H].
  unfold select_dup_ok in Hd. apply andb_prop in Hd as [Hd _]. apply andb_prop in Hd as [_ Hd].
  rewrite forallb_forall in Hd. specialize (Hd _ (fps_of_in _ _ Hr)).
  apply existsb_exists in Hd as [o [Ho Hl]]. apply labels_eqb_spec in Hl.
  exists o. split; [exact Ho|]. split; [exact Hl|].
  rewrite forallb_forall in H. eapply series_own_complete; eauto.
Qed.

(* seed C17-g on its witness (label set X under fingerprints 11 and 33, Y under 22 between them): the series set observed
   with one shared sample buffer is rejected - the counting oracle of rounds 1..6 accepted it - and the model's is accepted *)
Lemma shared_sample_buffer_witness :
  select_dup_ok false dupw_rows dupw_fetch dupw_obs_shared_buffer = true
  /\ select_dup_exact_ok false dupw_rows dupw_fetch dupw_obs_shared_buffer = false
  /\ select_dup_exact_ok false dupw_rows dupw_fetch (select_series false dupw_rows dupw_fetch) = true
  /\ (exists o, List.In o dupw_obs_shared_buffer /\ o_labels o = dupw_y /\ List.In (2500, 302)%Z (o_samples o)
                /\ forall r, List.In r dupw_rows -> (r_ts r, r_val r) = (2500, 302)%Z -> labels_get dupw_fetch (r_fp r) = dupw_x).
Proof.
  split; [vm_compute; reflexivity|]. split; [vm_compute; reflexivity|]. split; [vm_compute; reflexivity|].
  eexists. split; [right; left; reflexivity|]. split; [reflexivity|]. split; [left; reflexivity|].
  intros r Hr E. simpl in Hr.
  repeat (destruct Hr as [Hr|Hr]; [subst r; simpl in E; try discriminate E; try (vm_compute; reflexivity)|]). destruct Hr.
Qed.
