(* Connection faults inside concurrent Rotate runs (model/RotateConc.v, last part): a faulty schedule does to the
   database and the instances exactly what a fault-free schedule with crashes does.  Property C19. *)
From Coq Require Import List ZArith Bool String Ascii Lia.
From Qryn Require Import model.Rotate model.RotateConc proofs.RotateProofs proofs.RotateConcProofs.
Import ListNotations.
Open Scope string_scope.
Open Scope Z_scope.

Lemma sched_step_no_call s k : next_call s k = None -> sched_step s k = s.
Proof.
  unfold next_call, sched_step. destruct (nth_error (s_insts s) k) as [i|]; [|reflexivity].
  destruct (step (s_db s) i) as [[[c d'] i']|]; [discriminate|reflexivity].
Qed.

Lemma faults_are_crashes : forall evs s,
  f_sys (fsched_run evs s) = sched_run (effective evs s) (f_sys s).
Proof.
  induction evs as [|e r IH]; intros s; [reflexivity|].
  unfold fsched_run in *. cbn [fold_left effective]. rewrite IH.
  assert (Hs : f_sys (fsched_step s e) = sched_run
     (if is_dead (f_dead s) (sev_inst e) then [] else
      match next_call (f_sys s) (sev_inst e), e with
      | None, _ => [] | Some _, SStep _ => [sev_inst e] | Some _, SFail _ true => [sev_inst e] | Some _, SFail _ false => []
      end) (f_sys s)).
  { unfold fsched_step. destruct (is_dead (f_dead s) (sev_inst e)); [reflexivity|].
    destruct (next_call (f_sys s) (sev_inst e)) as [c|] eqn:E; [|reflexivity].
    destruct e as [k|k [|]]; reflexivity. }
  rewrite Hs. unfold sched_run. rewrite <- fold_left_app. f_equal.
  destruct (is_dead (f_dead s) (sev_inst e)); [reflexivity|].
  destruct (next_call (f_sys s) (sev_inst e)) as [c|]; [|reflexivity].
  destruct e as [k|k [|]]; reflexivity.
Qed.

(* any number of instances with the same configuration, any interleaving, any statement of any instance failing (with or
   without effect), instances stopping anywhere *)
Lemma conc_faults_same_config cfg n evs d cfg' : (0 < n)%nat -> consistent d ->
  let s := f_sys (fsched_run evs (finit d (repeat cfg n))) in
  consistent (s_db s) /\ (all_done s = true -> converged cfg (s_db s)) /\
  snd (run cfg' None (s_db s)) = true /\ converged cfg' (run_db cfg' None (s_db s)).
Proof.
  intros Hn Hd s. unfold s. rewrite faults_are_crashes. cbn [finit f_sys].
  destruct (conc_same_config cfg n (effective evs (finit d (repeat cfg n))) d Hn Hd) as [A B].
  split; [exact A|]. split; [exact B|]. split; [apply run_nofault_ok|].
  apply (proj2 (run_ok_converged cfg' None _ (run_nofault_ok cfg' _))). exact A.
Qed.

(* a dead instance issues nothing more, and only a dead instance has a failed statement in the log *)
Lemma dead_is_silent s e : is_dead (f_dead s) (sev_inst e) = true -> fsched_step s e = s.
Proof. intro H. unfold fsched_step. now rewrite H. Qed.

(* non-vacuity: three instances, the second fails at its 5th statement having taken effect, the third at its 9th without;
   the first finishes; the work is complete *)
Definition ex_fevs : list sev :=
  (map SStep [0; 1; 2; 1; 1; 2; 0; 1]%nat ++ [SFail 1%nat true] ++ map SStep [2; 2; 1; 1; 2; 2; 0; 2; 2]%nat ++ [SFail 2%nat false] ++
   map SStep (repeat 0%nat 40 ++ [1; 2]%nat))%list.
Example ex_conc_faults :
  let s := fsched_run ex_fevs (finit fresh (repeat ex_b 3)) in
  f_dead s = [2; 1]%nat /\ List.length (f_log s) = 51%nat /\ map done (s_insts (f_sys s)) = [true; false; false] /\
  converged_b ex_b (s_db (f_sys s)) = true.
Proof. vm_compute. repeat split. Qed.
