(* line_format on the ClickHouse planner, executed: C07's evaluator (model/SqlEval.v) over C07's example database.
   {b="1", b!="2"} | line_format "zzz" |= "zzz" over one stored line "hello": LogQL rewrites the line to zzz, the filter
   keeps it. The statement the planners print evaluates to exactly that row. Before the repair 42297ce of /repo that closes the
   select behind a line_format (analyze.go renewMainAfter) the filter stood in the select that joins the labels and tested
   samples.string, a column that select does not have: the evaluator - like ClickHouse - refused the statement (None). *)
From Coq Require Import List ZArith NArith QArith String Ascii Bool.
From Qryn Require Import lib.Strs model.Sql model.SqlRender model.SqlEval model.Logql model.LogqlPlan model.LogqlSem proofs.LogqlSemProofs.
Import ListNotations.
Open Scope string_scope.

Definition lff_query : strsel :=
  {| sel_matchers := [{| m_name := "b"; m_op := MEq; m_val := "1" |}; {| m_name := "b"; m_op := MNeq; m_val := "2" |}];
     sel_pipeline := [PLineFormat "zzz"; PLineFilter LFContains "zzz" None] |}.
Definition lff_rows (q : strsel) : option (list (option outrow)) :=
  match log_select q ex_ctx with
  | Some sel => option_map (map row_out) (eval no_re no_float no_json no_hash tie_id (to_sqldb ex_ctx w_db) sel)
  | None => None
  end.
Example line_filter_behind_line_format_reads_the_formatted_line :
  lff_rows lff_query = Some [Some {| o_fp := 7; o_labels := [("b", "1")]; o_line := "zzz"; o_ts := 1700000000000000005 |}].
Proof. vm_compute. reflexivity. Qed.
(* a filter the formatted line does not pass drops the row, whatever the stored line ("hello" contains "ell") *)
Example line_filter_behind_line_format_ignores_the_stored_line :
  lff_rows {| sel_matchers := sel_matchers lff_query; sel_pipeline := [PLineFormat "zzz"; PLineFilter LFContains "ell" None] |} = Some [].
Proof. vm_compute. reflexivity. Qed.
