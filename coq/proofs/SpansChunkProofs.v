(* Proofs about the chunked emission of the trace write path (model/SpansChunk.v): for every threshold and every
   payload-size function the parser's responses are groups of whole spans whose concatenation is the unchunked
   decoder's output. *)
From Coq Require Import List ZArith NArith Bool String Ascii Lia Permutation.
From Qryn Require Import model.Spans model.SpansChunk proofs.SpansProofs.
Import ListNotations.
Open Scope list_scope.
Open Scope Z_scope.

(* ------------------------------------------------------------------ groups of whole spans *)
Definition gsize (psz : payload -> Z) (g : list span_rows) : Z := fold_right (fun sr acc => span_size psz sr + acc) 0 g.
Definition chunk_of_group (g : list span_rows) : chunk := {| k_rows := map fst g; k_tags := List.concat (map snd g) |}.

Definition inv (psz : payload -> Z) (st : est) (g : list span_rows) : Prop :=
  e_rows st = map fst g /\ e_tags st = List.concat (map snd g) /\ e_asize st + e_ssize st = gsize psz g.

Lemma gsize_app psz a b : gsize psz (a ++ b) = gsize psz a + gsize psz b.
Proof.
  induction a as [|x a IH]; [cbn [app]; change (gsize psz []) with 0; lia|].
  change (gsize psz ((x :: a) ++ b)) with (span_size psz x + gsize psz (a ++ b)).
  change (gsize psz (x :: a)) with (span_size psz x + gsize psz a). lia.
Qed.

Lemma gsize_one psz sr : gsize psz [sr] = span_size psz sr.
Proof. cbn [gsize fold_right]. lia. Qed.

Lemma inv_e0 psz : inv psz e0 [].
Proof. repeat split. Qed.

Lemma on_span_acc_spec thr psz st g sr :
  inv psz st g ->
  (gsize psz (g ++ [sr]) >? thr = true -> on_span_acc thr psz st sr = (e0, [chunk_of_group (g ++ [sr])])) /\
  (gsize psz (g ++ [sr]) >? thr = false -> exists st', on_span_acc thr psz st sr = (st', []) /\ inv psz st' (g ++ [sr])).
Proof.
  intros [Hr [Ht Hs]].
  assert (Hsz : e_asize st + tags_size (snd sr) + (e_ssize st + row_size psz (fst sr)) = gsize psz (g ++ [sr])).
  { rewrite gsize_app, gsize_one. unfold span_size. lia. }
  unfold on_span_acc. cbn [e_asize e_ssize e_rows e_tags]. rewrite Hsz.
  split; intros Hc; rewrite Hc.
  - f_equal. f_equal. unfold chunk_of, chunk_of_group. cbn [e_rows e_tags].
    rewrite Hr, Ht, !map_app, concat_app. cbn [map List.concat]. rewrite app_nil_r. reflexivity.
  - eexists. split; [reflexivity|]. unfold inv. cbn [e_rows e_tags e_asize e_ssize].
    rewrite Hr, Ht, !map_app, concat_app. cbn [map List.concat]. rewrite app_nil_r.
    split; [reflexivity|]. split; [reflexivity|]. exact Hsz.
Qed.

(* the flushed responses of [run] and the state it leaves *)
Lemma run_groups thr psz : forall xs st g,
  inv psz st g ->
  exists groups gfin,
    fst (run thr psz st xs) = map chunk_of_group groups /\ inv psz (snd (run thr psz st xs)) gfin /\
    (g ++ xs)%list = (List.concat groups ++ gfin)%list /\
    Forall (fun gr => gsize psz gr > thr) groups /\
    (0 <= thr -> gsize psz g <= thr ->
       gsize psz gfin <= thr /\ Forall (fun gr => gr <> [] /\ gsize psz (removelast gr) <= thr) groups).
Proof.
  induction xs as [|x r IH]; intros st g Hinv.
  - exists [], g. cbn [run fst snd map List.concat app]. rewrite app_nil_r.
    split; [reflexivity|]. split; [exact Hinv|]. split; [reflexivity|]. split; [constructor|].
    intros _ Hg. split; [exact Hg|constructor].
  - destruct (on_span_acc_spec thr psz st g x Hinv) as [Hflush Hkeep].
    cbn [run]. destruct (gsize psz (g ++ [x]) >? thr) eqn:Hc.
    + rewrite (Hflush eq_refl).
      destruct (IH e0 [] (inv_e0 psz)) as [groups [gfin [H1 [H2 [H3 [H4 H5]]]]]].
      destruct (run thr psz e0 r) as [cs fin] eqn:Er. cbn [fst snd] in *.
      exists ((g ++ [x]) :: groups), gfin. cbn [fst snd map List.concat app].
      split; [f_equal; exact H1|]. split; [exact H2|].
      split; [cbn [app] in H3; rewrite <- app_assoc, <- H3, <- app_assoc; reflexivity|].
      split; [constructor; [lia|exact H4]|].
      intros Hthr Hg. destruct (H5 Hthr) as [H6 H7]; [cbn; lia|].
      split; [exact H6|]. constructor; [|exact H7].
      split; [destruct g; discriminate|]. rewrite removelast_last. exact Hg.
    + destruct (Hkeep eq_refl) as [st' [Hs Hinv']]. rewrite Hs.
      destruct (IH st' (g ++ [x])%list Hinv') as [groups [gfin [H1 [H2 [H3 [H4 H5]]]]]].
      destruct (run thr psz st' r) as [cs fin] eqn:Er. cbn [fst snd] in *.
      exists groups, gfin. cbn [app].
      split; [exact H1|]. split; [exact H2|].
      split; [rewrite <- H3, <- app_assoc; reflexivity|]. split; [exact H4|].
      intros Hthr _. apply (H5 Hthr). lia.
Qed.

Lemma concat_groups_rows (groups : list (list span_rows)) :
  List.concat (map k_rows (map chunk_of_group groups)) = map fst (List.concat groups).
Proof.
  induction groups as [|g gs IH]; [reflexivity|].
  cbn [map List.concat chunk_of_group k_rows]. rewrite IH, map_app. reflexivity.
Qed.

Lemma concat_groups_tags (groups : list (list span_rows)) :
  List.concat (map k_tags (map chunk_of_group groups)) = List.concat (map snd (List.concat groups)).
Proof.
  induction groups as [|g gs IH]; [reflexivity|].
  cbn [map List.concat chunk_of_group k_tags]. rewrite IH, map_app, concat_app. reflexivity.
Qed.

(* every response of a request, the last one included, is a group of whole spans *)
Lemma responses_groups thr psz rows :
  exists groups,
    responses thr psz (rows, false) = (map chunk_of_group groups, false) /\ List.concat groups = rows /\
    groups <> [] /\
    Forall (fun gr => gsize psz gr > thr) (removelast groups) /\
    (0 <= thr -> gsize psz (last groups []) <= thr /\
                 Forall (fun gr => gr <> [] /\ gsize psz (removelast gr) <= thr) (removelast groups)).
Proof.
  destruct (run_groups thr psz rows e0 [] (inv_e0 psz)) as [groups [gfin [H1 [H2 [H3 [H4 H5]]]]]].
  unfold responses. cbn [fst snd]. destruct (run thr psz e0 rows) as [cs fin]. cbn [fst snd] in *.
  exists (groups ++ [gfin])%list.
  split.
  { f_equal. rewrite map_app, H1. cbn [map]. do 2 f_equal.
    destruct H2 as [Hr [Ht _]]. unfold chunk_of, chunk_of_group. rewrite Hr, Ht. reflexivity. }
  split; [rewrite concat_app; cbn [List.concat]; rewrite app_nil_r; cbn [app] in H3; symmetry; exact H3|].
  split; [destruct groups; discriminate|].
  rewrite removelast_last, last_last. split; [exact H4|].
  intros Hthr. apply (H5 Hthr). cbn. lia.
Qed.

(* after a failure only the flushed responses exist: whole spans of a prefix of the stream *)
Lemma responses_error thr psz rows :
  exists groups rest,
    responses thr psz (rows, true) = (map chunk_of_group groups, true) /\ rows = (List.concat groups ++ rest)%list /\
    Forall (fun gr => gsize psz gr > thr) groups.
Proof.
  destruct (run_groups thr psz rows e0 [] (inv_e0 psz)) as [groups [gfin [H1 [_ [H3 [H4 _]]]]]].
  unfold responses. cbn [fst snd]. destruct (run thr psz e0 rows) as [cs fin]. cbn [fst snd] in *.
  exists groups, gfin. split; [f_equal; exact H1|]. split; [exact H3|exact H4].
Qed.

(* ------------------------------------------------------------------ streams *)
Lemma mapM_pre_some {A B} (f : A -> option B) l ys : mapM f l = Some ys -> mapM_pre f l = (ys, false).
Proof.
  revert ys. induction l as [|x r IH]; intros ys H; cbn [mapM mapM_pre] in *.
  - inversion H. reflexivity.
  - destruct (f x) as [y|]; [|discriminate]. destruct (mapM f r) as [ys'|]; [|discriminate].
    inversion H; subst. rewrite (IH ys' eq_refl). reflexivity.
Qed.

Lemma mapM_pre_none {A B} (f : A -> option B) l : mapM f l = None -> snd (mapM_pre f l) = true.
Proof.
  induction l as [|x r IH]; intros H; cbn [mapM mapM_pre] in *; [discriminate|].
  destruct (f x) as [y|]; [|reflexivity]. destruct (mapM f r) as [ys'|]; [discriminate|].
  destruct (mapM_pre f r) as [ys e]. cbn [snd] in *. apply IH. reflexivity.
Qed.

(* what has been handed on before a failure are the rows of a prefix of the list *)
Lemma mapM_pre_prefix {A B} (f : A -> option B) l :
  mapM f (firstn (List.length (fst (mapM_pre f l))) l) = Some (fst (mapM_pre f l)).
Proof.
  induction l as [|x r IH]; [reflexivity|]. cbn [mapM_pre].
  destruct (f x) as [y|] eqn:E; [|reflexivity].
  destruct (mapM_pre f r) as [ys e]. cbn [fst List.length firstn mapM] in *. rewrite E, IH. reflexivity.
Qed.

Lemma otlp_res_stream_some q r rows : otlp_res q r = Some rows -> otlp_res_stream q r = (rows, false).
Proof.
  unfold otlp_res, otlp_res_stream. destruct (r_has_res r || negb (q_nil_resource q)).
  - apply mapM_pre_some.
  - destruct (List.concat (r_scopes r)); [|discriminate]. intros H; inversion H. reflexivity.
Qed.

Lemma otlp_res_stream_none q r : otlp_res q r = None -> snd (otlp_res_stream q r) = true.
Proof.
  unfold otlp_res, otlp_res_stream. destruct (r_has_res r || negb (q_nil_resource q)).
  - apply mapM_pre_none.
  - destruct (List.concat (r_scopes r)); [discriminate|reflexivity].
Qed.

Lemma otlp_stream_core_some q b : forall rows, otlp_decode_core q b = Some rows -> otlp_stream_core q b = (rows, false).
Proof.
  unfold otlp_decode_core. induction b as [|r rest IH]; intros rows H; cbn [mapM option_map otlp_stream_core] in *.
  - inversion H. reflexivity.
  - destruct (otlp_res q r) as [x|] eqn:Er; [|discriminate].
    destruct (mapM (otlp_res q) rest) as [xs|]; [|discriminate]. cbn [option_map] in *. inversion H; subst.
    rewrite (otlp_res_stream_some _ _ _ Er), (IH _ eq_refl). reflexivity.
Qed.

Lemma otlp_stream_core_none q b : otlp_decode_core q b = None -> snd (otlp_stream_core q b) = true.
Proof.
  unfold otlp_decode_core. induction b as [|r rest IH]; intros H; cbn [mapM option_map otlp_stream_core] in *; [discriminate|].
  destruct (otlp_res q r) as [x|] eqn:Er.
  - rewrite (otlp_res_stream_some _ _ _ Er).
    destruct (mapM (otlp_res q) rest) as [xs|]; [discriminate|].
    destruct (otlp_stream_core q rest) as [rows' e']. cbn [snd] in *. apply IH. reflexivity.
  - pose proof (otlp_res_stream_none _ _ Er) as Hn. destruct (otlp_res_stream q r) as [rows e]. cbn [snd] in Hn. subst. reflexivity.
Qed.
Lemma otlp_stream_some q b rows : otlp_decode q b = Some rows -> otlp_stream q b = (rows, false).
Proof. unfold otlp_decode, otlp_stream. destruct (otlp_utf8_ok b); [apply otlp_stream_core_some|discriminate]. Qed.
Lemma otlp_stream_none q b : otlp_decode q b = None -> snd (otlp_stream q b) = true.
Proof. unfold otlp_decode, otlp_stream. destruct (otlp_utf8_ok b); [apply otlp_stream_core_none|reflexivity]. Qed.

Lemma zipkin_stream_some q nd : forall es i st rows,
  zipkin_from q nd i st es = Some rows -> zipkin_stream_from q nd i st es = (rows, false).
Proof.
  induction es as [|e r IH]; intros i st rows H; cbn [zipkin_from zipkin_stream_from] in *.
  - inversion H. reflexivity.
  - destruct (decode_span q _ e) as [[x st']|]; [|discriminate].
    destruct (zipkin_from q nd (i + 1)%N st' r) as [rs|] eqn:Er; [|discriminate]. inversion H; subst.
    rewrite (IH _ _ _ Er). reflexivity.
Qed.

Lemma zipkin_stream_none q nd : forall es i st,
  zipkin_from q nd i st es = None -> snd (zipkin_stream_from q nd i st es) = true.
Proof.
  induction es as [|e r IH]; intros i st H; cbn [zipkin_from zipkin_stream_from] in *; [discriminate|].
  destruct (decode_span q _ e) as [[x st']|]; [|reflexivity].
  destruct (zipkin_from q nd (i + 1)%N st' r) as [rs|] eqn:Er; [discriminate|].
  pose proof (IH _ _ Er) as Hn. destruct (zipkin_stream_from q nd (i + 1)%N st' r) as [rs e']. exact Hn.
Qed.

Lemma decode_stream_some q inp rows : decode q inp = Some rows -> decode_stream q inp = (rows, false).
Proof.
  destruct inp as [b|nd es]; cbn [decode decode_stream].
  - apply otlp_stream_some.
  - apply zipkin_stream_some.
Qed.

Lemma decode_stream_none q inp : decode q inp = None -> snd (decode_stream q inp) = true.
Proof.
  destruct inp as [b|nd es]; cbn [decode decode_stream].
  - apply otlp_stream_none.
  - apply zipkin_stream_none.
Qed.

(* the spans handed to onSpan before a Zipkin element fails are exactly the rows of the elements before it *)
Lemma zipkin_stream_prefix nd : forall es i st,
  zipkin_from fixed nd i st (firstn (List.length (fst (zipkin_stream_from fixed nd i st es))) es)
  = Some (fst (zipkin_stream_from fixed nd i st es)).
Proof.
  induction es as [|e r IH]; intros i st; [reflexivity|]. cbn [zipkin_stream_from].
  destruct (decode_span fixed _ e) as [[x st']|] eqn:E; [|reflexivity].
  specialize (IH (i + 1)%N st'). destruct (zipkin_stream_from fixed nd (i + 1)%N st' r) as [rs er].
  cbn [fst List.length firstn zipkin_from] in *. rewrite E, IH. reflexivity.
Qed.

(* ------------------------------------------------------------------ the property under every chunking *)
Definition span_rows_ok (p : pushed) (sr : span_rows) : Prop := row_of p (fst sr) /\ tags_of p (snd sr).

Lemma Forall2_and {A B} (R S : A -> B -> Prop) a b : Forall2 R a b -> Forall2 S a b -> Forall2 (fun x y => R x y /\ S x y) a b.
Proof. intros H. induction H; intros H2; inversion H2; subst; constructor; auto. Qed.

Lemma Forall2_map_r2 {A B C} (R : A -> C -> Prop) (f : B -> C) a b : Forall2 R a (map f b) -> Forall2 (fun x y => R x (f y)) a b.
Proof.
  revert a. induction b as [|y b IH]; intros a H; inversion H; subst; constructor; auto.
Qed.

Theorem chunked_rows_of_spans_l : forall thr psz inp rows ps,
  decode fixed inp = Some rows -> pushed_of inp = Some ps ->
  exists groups,
    decode_chunked thr psz fixed inp = (map chunk_of_group groups, false) /\
    Forall2 span_rows_ok ps (List.concat groups).
Proof.
  intros thr psz inp rows ps Hd Hp.
  destruct (responses_groups thr psz rows) as [groups [H1 [H2 _]]].
  exists groups. unfold decode_chunked. rewrite (decode_stream_some _ _ _ Hd). split; [exact H1|].
  rewrite H2. apply Forall2_and.
  - apply Forall2_map_r2. apply (one_row_per_span_l inp rows ps Hd Hp).
  - apply Forall2_map_r2. apply (tag_rows_of_span_l inp rows ps Hd Hp).
Qed.

(* the rows of all responses, concatenated, do not depend on the threshold or on the payload sizes *)
Theorem chunking_irrelevant_l : forall thr psz thr' psz' inp rows,
  decode fixed inp = Some rows ->
  let cs := fst (decode_chunked thr psz fixed inp) in
  let cs' := fst (decode_chunked thr' psz' fixed inp) in
  List.concat (map k_rows cs) = map fst rows /\ List.concat (map k_tags cs) = List.concat (map snd rows) /\
  List.concat (map k_rows cs) = List.concat (map k_rows cs') /\ List.concat (map k_tags cs) = List.concat (map k_tags cs').
Proof.
  intros thr psz thr' psz' inp rows Hd. unfold decode_chunked. rewrite (decode_stream_some _ _ _ Hd).
  destruct (responses_groups thr psz rows) as [g [H1 [H2 _]]].
  destruct (responses_groups thr' psz' rows) as [g' [H1' [H2' _]]].
  cbn zeta. rewrite H1, H1'. cbn [fst]. rewrite !concat_groups_rows, !concat_groups_tags, H2, H2'.
  repeat split.
Qed.

(* when a flush happens: every response but the last is above the threshold and was not before its last span;
   the last response is at most the threshold; a request at most the threshold is answered in one response *)
Theorem flush_exactly_when_needed_l : forall thr psz inp rows,
  0 <= thr -> decode fixed inp = Some rows ->
  exists groups,
    decode_chunked thr psz fixed inp = (map chunk_of_group groups, false) /\ List.concat groups = rows /\ groups <> [] /\
    Forall (fun gr => gr <> [] /\ gsize psz gr > thr /\ gsize psz (removelast gr) <= thr) (removelast groups) /\
    gsize psz (last groups []) <= thr.
Proof.
  intros thr psz inp rows Hthr Hd.
  destruct (responses_groups thr psz rows) as [groups [H1 [H2 [H3 [H4 H5]]]]].
  exists groups. unfold decode_chunked. rewrite (decode_stream_some _ _ _ Hd).
  split; [exact H1|]. split; [exact H2|]. split; [exact H3|]. destruct (H5 Hthr) as [H6 H7]. split; [|exact H6].
  rewrite Forall_forall in *. intros gr Hin. destruct (H7 gr Hin) as [Ha Hb]. split; [exact Ha|]. split; [apply (H4 gr Hin)|exact Hb].
Qed.

Lemma zlen_acc_ge s : forall acc, acc <= zlen_acc s acc.
Proof. induction s as [|c s IH]; intros acc; cbn [zlen_acc]; [lia|]. specialize (IH (acc + 1)). lia. Qed.
Lemma zlen_nonneg s : 0 <= zlen s.
Proof. apply zlen_acc_ge. Qed.

Lemma tags_size_nonneg l : 0 <= tags_size l.
Proof.
  induction l as [|a l IH]; cbn [tags_size fold_right]; [lia|]. fold (tags_size l).
  unfold tag_size, tag_overhead. pose proof (zlen_nonneg (a_key a)). pose proof (zlen_nonneg (a_val a)). lia.
Qed.

Lemma gsize_nonneg psz : (forall p, 0 <= psz p) -> forall g, 0 <= gsize psz g.
Proof.
  intros Hp g. induction g as [|sr g IH]; cbn [gsize fold_right]; [lia|]. fold (gsize psz g).
  unfold span_size, row_size, row_overhead. pose proof (Hp (t_payload (fst sr))). pose proof (tags_size_nonneg (snd sr)).
  pose proof (zlen_nonneg (t_parent (fst sr))). pose proof (zlen_nonneg (t_name (fst sr))). pose proof (zlen_nonneg (t_service (fst sr))). lia.
Qed.

Lemma run_small thr psz : (forall p, 0 <= psz p) -> forall xs st g,
  inv psz st g -> gsize psz (g ++ xs) <= thr ->
  exists st', run thr psz st xs = ([], st') /\ inv psz st' (g ++ xs).
Proof.
  intros Hp. induction xs as [|x r IH]; intros st g Hinv Hsz.
  - exists st. rewrite app_nil_r. split; [reflexivity|exact Hinv].
  - destruct (on_span_acc_spec thr psz st g x Hinv) as [_ Hkeep].
    assert (Hc : gsize psz (g ++ [x]) >? thr = false).
    { replace (g ++ x :: r)%list with ((g ++ [x]) ++ r)%list in Hsz by (rewrite <- app_assoc; reflexivity).
      rewrite gsize_app in Hsz. pose proof (gsize_nonneg psz Hp r). lia. }
    destruct (Hkeep Hc) as [st1 [Hs Hinv1]]. cbn [run]. rewrite Hs.
    replace (g ++ x :: r)%list with ((g ++ [x]) ++ r)%list in * by (rewrite <- app_assoc; reflexivity).
    destruct (IH st1 _ Hinv1 Hsz) as [st' [Hr Hinv']]. rewrite Hr. exists st'. split; [reflexivity|exact Hinv'].
Qed.

Theorem small_request_one_response_l : forall thr psz inp rows,
  (forall p, 0 <= psz p) -> decode fixed inp = Some rows -> gsize psz rows <= thr ->
  decode_chunked thr psz fixed inp = ([chunk_of_group rows], false).
Proof.
  intros thr psz inp rows Hp Hd Hsz. unfold decode_chunked, responses. rewrite (decode_stream_some _ _ _ Hd). cbn [fst snd].
  destruct (run_small thr psz Hp rows e0 [] (inv_e0 psz) Hsz) as [st' [Hr [H1 [H2 _]]]].
  rewrite Hr. cbn [app]. unfold chunk_of, chunk_of_group. rewrite H1, H2. reflexivity.
Qed.

(* a request that fails after a flush: the responses already sent hold whole spans of the spans decoded before the failure *)
Theorem error_after_flush_l : forall thr psz inp,
  decode fixed inp = None ->
  exists groups rest,
    decode_chunked thr psz fixed inp = (map chunk_of_group groups, true) /\
    fst (decode_stream fixed inp) = (List.concat groups ++ rest)%list /\
    Forall (fun gr => gsize psz gr > thr) groups.
Proof.
  intros thr psz inp Hd. pose proof (decode_stream_none _ _ Hd) as He.
  unfold decode_chunked. destruct (decode_stream fixed inp) as [rows e]. cbn [snd fst] in *. subst e.
  apply responses_error.
Qed.

(* ------------------------------------------------------------------ examples: the hypotheses are met by non-trivial values *)
(* the two-span requests of SpansProofs under a 300-byte threshold: a flush after every span (OTLP: the final response is
   empty; Zipkin: the second span stays below the threshold and travels in the final response) *)
Example ex_chunked_otlp :
  decode fixed ex_otlp <> None /\ pushed_of ex_otlp <> None /\
  map (fun k => (List.length (k_rows k), List.length (k_tags k))) (fst (decode_chunked 300 (fun _ => 50) fixed ex_otlp))
  = [(1, 9); (1, 4); (0, 0)]%nat /\
  snd (decode_chunked 300 (fun _ => 50) fixed ex_otlp) = false.
Proof. vm_compute. repeat split; discriminate. Qed.

Example ex_chunked_zipkin :
  decode fixed (ex_zipkin true) <> None /\
  map (fun k => (List.length (k_rows k), List.length (k_tags k))) (fst (decode_chunked 300 (fun _ => 50) fixed (ex_zipkin true)))
  = [(1, 5); (1, 3)]%nat.
Proof. vm_compute. split; [discriminate|reflexivity]. Qed.

(* small_request_one_response: sizes 926 <= 1 MiB *)
Example ex_small_request :
  option_map (gsize (fun _ => 50)) (decode fixed ex_otlp) = Some 926 /\
  List.length (fst (decode_chunked flush_threshold (fun _ => 50) fixed ex_otlp)) = 1%nat.
Proof. vm_compute. split; reflexivity. Qed.

(* error_after_flush: the request of ex_zipkin followed by an element that is not an object: error, the first span was
   flushed (and stays), the second was decoded but never sent *)
Definition ex_zipkin_then_bad : input :=
  match ex_zipkin false with InZipkin nd es => InZipkin nd (es ++ [JNull]) | i => i end.
Example ex_error_after_flush :
  decode fixed ex_zipkin_then_bad = None /\
  map (fun k => (List.length (k_rows k), List.length (k_tags k))) (fst (decode_chunked 300 (fun _ => 50) fixed ex_zipkin_then_bad))
  = [(1, 5)]%nat /\
  snd (decode_chunked 300 (fun _ => 50) fixed ex_zipkin_then_bad) = true /\
  List.length (fst (decode_stream fixed ex_zipkin_then_bad)) = 2%nat.
Proof. vm_compute. repeat split. Qed.
