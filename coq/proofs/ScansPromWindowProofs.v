(* C13, round 8: the hint window of a Prometheus Select as a function of the REQUEST (model/ScansPromWindow.v =
   PromQueryRangeController's snapping + promql.Engine.getTimeRangesForSelector), for every request, query shape and
   selector: it covers the window the request asks the selector to see and is wider by less than one 15-second storage
   slot on either side; composed with prom_select_scans_bounded this takes the Prometheus theorems from "every hint record"
   to "every request". *)
From Coq Require Import List ZArith NArith String Ascii Bool Lia.
From Qryn Require Import lib.Strs model.Sql model.Logql model.LogqlPlan model.PromSel model.Scans model.ScansPromWindow
  proofs.ScansProofs proofs.ScansPlanProofs proofs.ScansPromProofs.
Import ListNotations.
Open Scope Z_scope.

(* ---------------------------------------------------------------- the loop of subqueryTimes is two sums *)
Lemma subq_times_acc path a b :
  fold_left (fun acc q => (fst acc + sq_offset q, snd acc + sq_range q)) path (a, b)
  = (a + zsum (map sq_offset path), b + zsum (map sq_range path)).
Proof.
  revert a b. induction path as [|q path IH]; intros a b; cbn [fold_left map zsum fold_right fst snd].
  - f_equal; lia.
  - rewrite IH. cbn [fst snd]. f_equal; unfold zsum; lia.
Qed.

Lemma sel_window_eq lookback w p :
  sel_window lookback w p
  = (fst w - (zsum (map sq_range (ps_path p)) + (if ps_range p =? 0 then lookback else ps_range p)) - shift_ms p,
     snd w - shift_ms p).
Proof.
  unfold sel_window, subq_times, shift_ms. rewrite subq_times_acc.
  destruct (ps_range p =? 0); f_equal; lia.
Qed.

Lemma req_hint_eq r p :
  req_hint r p = (fst (eval_window r) - back_ms p - shift_ms p, snd (eval_window r) - shift_ms p).
Proof. unfold req_hint. rewrite sel_window_eq. reflexivity. Qed.

(* ---------------------------------------------------------------- the snapping of the controller is the oracle's slot rounding *)
Lemma snap_start_is_slot_floor s : 0 <= s -> snap_start s * 1000000000 = fl_slot slot15 s.
Proof.
  intros Hs. unfold snap_start, unix_s, fl_slot, slot15.
  rewrite Z.quot_div_nonneg by (try lia; apply Z.div_pos; lia).
  rewrite Z.div_div by lia. replace (1000000000 * 15) with 15000000000 by lia. lia.
Qed.

Lemma snap_end_is_slot_ceiling e : snap_end e * 1000000000 = cl_slot slot15 (unix_s e * 1000000000).
Proof.
  unfold snap_end, cl_slot, slot15.
  replace (- (unix_s e * 1000000000)) with ((- unix_s e) * 1000000000) by lia.
  replace 15000000000 with (15 * 1000000000) by lia.
  rewrite Z.div_mul_cancel_r by lia. lia.
Qed.

(* a request the controllers take without losing the sign of the start: the range API snaps with a division that
   truncates toward zero, right only from 1970 on (prom_range_start_before_1970_refuted) *)
Definition req_ok (r : preq) : Prop := match r with PRange s _ => 0 <= s | PInstant _ => True end.

(* ---------------------------------------------------------------- coverage and confinement *)
(* every instant the request asks the selector to see lies in [hints.Start, hints.End] *)
Lemma request_window_covered r p t : req_ok r ->
  req_from_ns r p <= t <= req_to_ns r p ->
  fst (req_hint r p) * 1000000 <= t <= snd (req_hint r p) * 1000000.
Proof.
  intros Hok Ht. rewrite req_hint_eq. cbn [fst snd]. unfold req_from_ns, req_to_ns in Ht.
  destruct r as [s e|t0]; cbn [eval_window fst snd req_ok] in *.
  - pose proof (snap_start_is_slot_floor s Hok) as Hs. pose proof (snap_end_is_slot_ceiling e) as He.
    destruct (fl_slot_spec slot15 s slot15_pos) as [[F1 _] _].
    destruct (cl_slot_spec slot15 (unix_s e * 1000000000) slot15_pos) as [[C1 _] _]. lia.
  - lia.
Qed.

(* ... and the hint window is that window widened to the 15-second boundaries and no further: exactly so below (the
   start is the slot floor of the requested start minus the reach of the selector), exactly so above *)
Lemma request_window_exact r p : req_ok r ->
  fst (req_hint r p) * 1000000
    = match r with PRange s _ => fl_slot slot15 s | PInstant t => unix_ms t * 1000000 end - (back_ms p + shift_ms p) * 1000000
  /\ snd (req_hint r p) * 1000000
    = match r with PRange _ e => cl_slot slot15 (unix_s e * 1000000000) | PInstant t => unix_ms t * 1000000 end - shift_ms p * 1000000.
Proof.
  intros Hok. rewrite req_hint_eq. cbn [fst snd].
  destruct r as [s e|t0]; cbn [eval_window fst snd req_ok] in *.
  - pose proof (snap_start_is_slot_floor s Hok). pose proof (snap_end_is_slot_ceiling e). lia.
  - lia.
Qed.

Lemma request_window_widened_by_less_than_a_slot r p : req_ok r ->
  req_from_ns r p - slot15 < fst (req_hint r p) * 1000000 <= req_from_ns r p
  /\ req_to_ns r p <= snd (req_hint r p) * 1000000 < req_to_ns r p + slot15.
Proof.
  intros Hok. destruct (request_window_exact r p Hok) as [E1 E2]. rewrite E1, E2. unfold req_from_ns, req_to_ns.
  destruct r as [s e|t0]; cbn [req_ok] in *.
  - destruct (fl_slot_spec slot15 s slot15_pos) as [[F1 F2] _].
    destruct (cl_slot_spec slot15 (unix_s e * 1000000000) slot15_pos) as [[C1 C2] _]. lia.
  - unfold slot15. lia.
Qed.

(* an instant query is not widened at all *)
Lemma instant_window_exact t p :
  fst (req_hint (PInstant t) p) * 1000000 = req_from_ns (PInstant t) p
  /\ snd (req_hint (PInstant t) p) * 1000000 = req_to_ns (PInstant t) p.
Proof. rewrite req_hint_eq. cbn [fst snd eval_window]. unfold req_from_ns, req_to_ns. lia. Qed.

(* ---------------------------------------------------------------- from every request to every read of its statements *)
Lemma request_select_scans_bounded re_full cluster db r p step func ms :
  let h := req_hints r p step func in
  Forall (scan_bounded table_info (prom_win h)) (scans (fst (querier_transpile re_full cluster db h ms)))
  /\ (req_ok r ->
      req_from_ns r p - slot15 < w_lo_min (prom_win h) /\ w_from (prom_win h) <= req_from_ns r p
      /\ req_to_ns r p < w_to (prom_win h) /\ w_hi_max (prom_win h) < req_to_ns r p + slot15 + 1000000).
Proof.
  intros h. split; [apply prom_select_scans_bounded|].
  intros Hok. destruct (request_window_widened_by_less_than_a_slot r p Hok) as [[A1 A2] [B1 B2]].
  unfold h, prom_win, req_hints. cbn [w_lo_min w_from w_to w_hi_max h_start h_end]. lia.
Qed.

(* the roll-up table is reachable from a range request only when the reach of the selector (range or lookback, ranges
   and offsets of the subqueries around it, its own offset) is a multiple of 15 s: the controller puts the start of the
   evaluation on a slot boundary, getTimeRangesForSelector moves it by the reach *)
Lemma request_rollup_needs_slot_aligned_reach s e p step func : 0 <= s ->
  use_raw_data (req_hints (PRange s e) p step func) = false -> (back_ms p + shift_ms p) mod 15000 = 0.
Proof.
  intros Hs H. apply rollup_start_aligned in H. unfold req_hints in H. cbn [h_start] in H.
  rewrite req_hint_eq in H. cbn [fst eval_window] in H.
  pose proof (snap_start_is_slot_floor s Hs) as E. destruct (fl_slot_spec slot15 s slot15_pos) as [_ M].
  rewrite <- E in M. unfold slot15 in *.
  apply Z.mod_divide in H; [|lia]. apply Z.mod_divide in M; [|lia]. apply Z.mod_divide; [lia|].
  destruct H as [a Ha]. destruct M as [b Hb]. exists (b - a).  (* from 15e9 | snap*1e9 and 15e9 | (snap*1000 - back - shift)*1e6 *)
  lia.
Qed.

(* ---------------------------------------------------------------- why the hypotheses are there *)
(* a start before 1970: Go's division truncates toward zero, the start is snapped UP (23:59:59 of 1969-12-31 becomes
   00:00:00): the first second of the requested window is outside the hint window *)
Lemma range_start_before_1970_not_covered :
  let r := PRange (-1000000000) 0 in let p := {| ps_path := []; ps_range := 0; ps_offset := 0 |} in
  req_from_ns r p < fst (req_hint r p) * 1000000.
Proof. vm_compute. reflexivity. Qed.

(* an end with a sub-second part (only RFC 3339 parameters can carry one: numeric ones are cut to whole seconds by
   ParseTimeSecOrRFC): End.Unix() drops it before the ceiling, so for end = hh:mm:15.5 the half second after the slot
   boundary is asked for and not selected.  The window "the request asks for" of the theorems is therefore cut to the
   whole second the API keeps (req_to_ns). *)
Lemma range_subsecond_end_is_cut :
  let r := PRange 0 15500000000 in let p := {| ps_path := []; ps_range := 0; ps_offset := 0 |} in
  snd (req_hint r p) * 1000000 < 15500000000 /\ req_to_ns r p = 15000000000.
Proof. vm_compute. split; reflexivity. Qed.

(* ---------------------------------------------------------------- the hypotheses are satisfiable, the model computes *)
(* 2024-01-10 12:00:07.25 .. 12:10:03 UTC, max_over_time(rate(up[1m] offset 1d)[30m:5m] offset 10s): the selector sits under
   one subquery; Start = 12:00:00 - 30 m - 10 s - 1 m - 1 d, End = 12:10:15 - 10 s - 1 d *)
Example request_window_example :
  let r := PRange 1704888007250000000 1704888603000000000 in
  let p := {| ps_path := [{| sq_offset := 10000; sq_range := 1800000 |}]; ps_range := 60000; ps_offset := 86400000 |} in
  req_ok r /\ req_hint r p = (1704799730000, 1704802205000)
  /\ req_from_ns r p = 1704799737250000000 /\ req_to_ns r p = 1704802193000000000.
Proof. vm_compute. repeat split; reflexivity || discriminate. Qed.

(* a request that does reach the roll-up table: plain selector, step 15 s (reach = lookback = 20 slots) *)
Example request_rollup_reachable :
  use_raw_data (req_hints (PRange 1704888007250000000 1704888603000000000) {| ps_path := []; ps_range := 0; ps_offset := 0 |} 15000 "") = false.
Proof. vm_compute. reflexivity. Qed.
