(* C01: the parsers' read of the announcement cache (model/PushRead.v).  The system in which pushes arrive through a parser
   that leaves out the series rows it finds in the cache is a refinement of the wrapped system (every theorem of props/C01.v
   holds of it), and a row the parser leaves out was confirmed before: it was in a block whose Do returned without error. *)
From Coq Require Import List NArith ZArith Bool Lia.
From Qryn Require Import model.Ingest model.PushHandler model.IngestSpec model.PushConfirm model.PushRead proofs.IngestBase proofs.IngestAck
  proofs.IngestSpecProofs proofs.IngestHandler proofs.IngestConfirm.
Import ListNotations.

Lemma rstep_cstep c a c' es : rstep c a = Some (c', es) -> cstep c (cact_of a) = Some (c', es).
Proof. destruct a as [b|full omit]; cbn [rstep cact_of]; [auto|]. destruct (forallb _ omit); [auto|discriminate]. Qed.

Theorem rrun_refines tr : forall c c' es, rrun c tr = Some (c', es) -> crun c (map cact_of tr) = Some (c', es).
Proof.
  induction tr as [|a tr IH]; intros c c' es H; cbn in H |- *; [exact H|].
  destruct (rstep c a) as [[c1 e1]|] eqn:Es; [|discriminate]. rewrite (rstep_cstep _ _ _ _ Es).
  destruct (rrun c1 tr) as [[c2 e2]|] eqn:Er; [|discriminate]. rewrite (IH _ _ _ Er). exact H.
Qed.

Lemma rrun_split tr1 : forall c a tr2 c' es, rrun c (tr1 ++ a :: tr2) = Some (c', es) ->
  exists c1 es1 c2 es2 es3, rrun c tr1 = Some (c1, es1) /\ rstep c1 a = Some (c2, es2) /\ rrun c2 tr2 = Some (c', es3) /\
    es = es1 ++ es2 ++ es3.
Proof.
  induction tr1 as [|b tr1 IH]; intros c a tr2 c' es H; cbn in H.
  - destruct (rstep c a) as [[c2 e2]|] eqn:Es; [|discriminate]. destruct (rrun c2 tr2) as [[c3 e3]|] eqn:Er; [|discriminate].
    inversion H; subst. exists c, [], c2, e2, e3. cbn. auto.
  - destruct (rstep c b) as [[c1 e1]|] eqn:Es; [|discriminate].
    destruct (rrun c1 (tr1 ++ a :: tr2)) as [[c3 e3]|] eqn:Er; [|discriminate]. inversion H; subst.
    destruct (IH _ _ _ _ _ Er) as (d1 & f1 & d2 & f2 & f3 & R1 & S & R2 & ->).
    exists d1, (e1 ++ f1), d2, f2, f3. cbn. rewrite Es, R1. split; [reflexivity|]. split; [exact S|]. split; [exact R2|].
    now rewrite <- app_assoc.
Qed.

Lemma memN_in x l : memN x l = true -> In x l.
Proof. unfold memN. intros H. apply existsb_exists in H as (y & Hy & E). apply N.eqb_eq in E. now subst. Qed.

Lemma in_confirm_events h keys es : In (h, keys) (confirm_events es) -> In (EConfirm h keys) es.
Proof.
  induction es as [|e es IH]; cbn; [intros []|]. destruct e as [e|h0 k0]; cbn; [intros H; right; auto|].
  intros [X|H]; [inversion X; subst; now left|right; auto].
Qed.

(* A series row the parser leaves out of a push had been entered into the cache by the confirmation loop of an EARLIER push
   (and never by anything else): the events before the arrival hold that confirmation. *)
Theorem omitted_rows_were_confirmed cfg n tr1 full omit tr2 c ces :
  rrun (cinit cfg n) (tr1 ++ RPush full omit :: tr2) = Some (c, ces) ->
  exists c1 ces1, rrun (cinit cfg n) tr1 = Some (c1, ces1) /\
    forall id, In id omit -> exists h keys, In (EConfirm h keys) ces1 /\ In id keys.
Proof.
  intros H. destruct (rrun_split _ _ _ _ _ _ H) as (c1 & es1 & c2 & es2 & es3 & R1 & S & _ & _).
  exists c1, es1. split; [exact R1|]. intros id Hid. cbn [rstep] in S.
  destruct (forallb (fun id0 => memN id0 (fpcache c1)) omit) eqn:G; [|discriminate].
  rewrite forallb_forall in G. pose proof (memN_in _ _ (G id Hid)) as Hin.
  rewrite (cache_grows_only_by_confirmations _ _ _ _ (rrun_refines _ _ _ _ R1)) in Hin. cbn [cinit fpcache app] in Hin.
  apply in_concat in Hin as (keys & Hk & Hx). apply in_map_iff in Hk as ([h k0] & E & Hc). cbn in E. subst k0.
  exists h, keys. split; [apply in_confirm_events; exact Hc|exact Hx].
Qed.

(* ... hence it is stored: when that confirmation ran, every sub-request of the confirming push -- the series request holding
   the row among them -- was covered by blocks whose Do had returned without error (m: the acknowledgement monitor on the
   events up to the confirmation). *)
Theorem omitted_rows_are_stored cfg n tr1 full omit tr2 c ces :
  forallb act_wf (base_trace (map cact_of tr1)) = true ->
  rrun (cinit cfg n) (tr1 ++ RPush full omit :: tr2) = Some (c, ces) ->
  forall id, In id omit ->
  exists c1 ces1 cesa h keys cesb reqs m, rrun (cinit cfg n) tr1 = Some (c1, ces1) /\ ces1 = cesa ++ EConfirm h keys :: cesb /\ In id keys /\
    series_keys reqs = Some keys /\
    run_mon (amon_step true) (amon_init (length cfg)) (base_events cesa) = Some m /\
    forallb (fun kr => covered true (a_acked m) (fst kr) (snd kr)) reqs = true.
Proof.
  intros W H id Hid. destruct (omitted_rows_were_confirmed _ _ _ _ _ _ _ _ H) as (c1 & ces1 & R1 & Hc).
  destruct (Hc id Hid) as (h & keys & Hin & Hk). apply in_split in Hin as (cesa & cesb & E).
  destruct (confirm_only_after_all_inserts cfg n _ _ _ W (rrun_refines _ _ _ _ R1) _ _ _ _ E) as (reqs & m & K & M & Cv).
  exists c1, ces1, cesa, h, keys, cesb, reqs, m. auto 10.
Qed.

(* ================================================================ the full request of a push is stored *)
From Qryn Require Import proofs.IngestConfirmInv proofs.IngestShapes proofs.IngestLive proofs.IngestLiveAll.

(* ---------------------------------------------------------------- tables, strips, rows *)
Lemma rids_table k ids : rids_of (table_of (ncols k) ids) = ids.
Proof.
  unfold rids_of, table_of. assert (E : exists n, ncols k = S n) by (destruct k; eexists; reflexivity).
  destruct E as [n E]. rewrite E. cbn [seq map hd]. rewrite map_map. cbn [fst]. apply map_id.
Qed.
Lemma wf_table_of k ids : wf_reqb k (table_of (ncols k) ids) = true.
Proof. unfold wf_reqb. rewrite rids_table. apply block_eqb_refl. Qed.
Lemma wf_is_table k r : wf_reqb k r = true -> r = table_of (ncols k) (rids_of r).
Proof. unfold wf_reqb. intros H. now apply block_eqb_eq in H. Qed.

Lemma strip_table n omit rids : strip_req omit (table_of n rids) = table_of n (filter (fun x => negb (memN x omit)) rids).
Proof.
  unfold strip_req, table_of. rewrite map_map. apply map_ext. intros j.
  induction rids as [|x l IH]; cbn; [reflexivity|]. destruct (memN x omit); cbn; now rewrite IH.
Qed.
Lemma strip_wf k omit r : wf_reqb k r = true -> wf_reqb k (strip_req omit r) = true.
Proof. intros H. rewrite (wf_is_table _ _ H), strip_table. apply wf_table_of. Qed.
Lemma filter_all {A} (f : A -> bool) l : (forall x, f x = true) -> filter f l = l.
Proof. intros H. induction l as [|x l IH]; [reflexivity|]. cbn [filter]. now rewrite H, IH. Qed.
Lemma strip_nil_req r : strip_req [] r = r.
Proof.
  unfold strip_req. rewrite <- (map_id r) at 2. apply map_ext. intros c. apply filter_all. reflexivity.
Qed.
Lemma strip_nil_items items : strip_items [] items = items.
Proof.
  unfold strip_items. rewrite <- (map_id items) at 2. apply map_ext. intros [c|]; [|reflexivity]. cbn. f_equal.
  rewrite <- (map_id c) at 2. apply map_ext. intros [[[s k] r] sz]. cbn. destruct k; try reflexivity. now rewrite strip_nil_req.
Qed.
Lemma strip_item_wf omit it : item_wf it = true -> item_wf (strip_item omit it) = true.
Proof.
  destruct it as [c|]; [|reflexivity]. cbn [item_wf strip_item]. rewrite !forallb_forall. intros H x Hx.
  apply in_map_iff in Hx as ([[[s k] r] sz] & <- & Hy). specialize (H _ Hy). cbn [fst snd] in H.
  destruct k; cbn [strip_sub fst snd]; try exact H. now apply strip_wf.
Qed.
Lemma strip_items_wf omit items : forallb item_wf items = true -> forallb item_wf (strip_items omit items) = true.
Proof.
  rewrite !forallb_forall. intros H x Hx. apply in_map_iff in Hx as (y & <- & Hy). apply strip_item_wf, H, Hy.
Qed.

Definition strip_kr (omit : list N) (kr : kind * req) : kind * req :=
  match fst kr with KSeries => (fst kr, strip_req omit (snd kr)) | _ => kr end.
Lemma item_reqs_strip omit items : item_reqs (strip_items omit items) = map (strip_kr omit) (item_reqs items).
Proof.
  induction items as [|[c|] t IH]; cbn; [reflexivity| |reflexivity]. rewrite map_app, <- IH. f_equal.
  rewrite !map_map. apply map_ext. intros [[[s k] r] sz]. unfold strip_kr. cbn. destruct k; reflexivity.
Qed.

(* one row of a table that is in a block *)
Lemma col_sub_one (c d : col) x : In x c -> col_sub c d = true -> col_sub [x] d = true.
Proof.
  intros Hin H. apply col_sub_iff in H. apply col_sub_iff. unfold col_sub_def in *. cbn. rewrite andb_true_r.
  rewrite forallb_forall in H. exact (H x Hin).
Qed.
Lemma cells_subb_row_gen rids rid (Hin : In rid rids) : forall l (b : block),
  cells_subb (map (fun k => map (fun r => (r, k)) rids) l) b = true -> cells_subb (map (fun k : nat => [(rid, k)]) l) b = true.
Proof.
  induction l as [|j l IH]; intros b H; [reflexivity|]. destruct b as [|d b]; cbn [map cells_subb] in H |- *; [discriminate|].
  destruct (col_sub (map (fun r => (r, j)) rids) d) eqn:E; [|discriminate].
  assert (X : In (rid, j) (map (fun r : N => (r, j)) rids)) by (apply (in_map (fun r : N => (r, j))); exact Hin).
  pose proof (col_sub_one _ d (rid, j) X E) as Y. unfold cell in Y. rewrite Y. apply IH. exact H.
Qed.
Lemma cells_subb_row n rids rid b : In rid rids -> cells_subb (table_of n rids) b = true -> cells_subb (table_of n [rid]) b = true.
Proof. intros Hin H. unfold table_of in *. cbn [map]. exact (cells_subb_row_gen rids rid Hin _ _ H). Qed.

Lemma no_cells_table k rids : no_cells (table_of (ncols k) rids) = true -> rids = [].
Proof.
  unfold no_cells, table_of. assert (E : exists n, ncols k = S n) by (destruct k; eexists; reflexivity). destruct E as [n E]. rewrite E.
  cbn [seq map forallb]. destruct rids; [reflexivity|discriminate].
Qed.
Lemma covered_rows_stored acked k r : wf_reqb k r = true -> covered true acked k r = true -> rows_stored acked k r = true.
Proof.
  intros W C. rewrite (wf_is_table _ _ W) in C |- *. rewrite covered_unfold, eff_table in C. unfold rows_stored. rewrite rids_table.
  apply forallb_forall. intros rid Hin. unfold trivial in C. apply orb_true_iff in C as [C|C].
  - apply no_cells_table in C. rewrite C in Hin. destruct Hin.
  - unfold row_stored, row_cells. apply existsb_exists in C as (b & Hb & S). apply existsb_exists. exists b. split; [exact Hb|].
    eapply cells_subb_row; eauto.
Qed.

(* accepted blocks are never forgotten *)
Lemma amon_acked_mono strict es : forall m m', run_mon (amon_step strict) m es = Some m' -> incl (a_acked m) (a_acked m').
Proof.
  induction es as [|e es IH]; intros m m' H; cbn in H; [inversion H; subst; apply incl_refl|].
  destruct (amon_step strict m e) as [m1|] eqn:S; [|discriminate]. apply incl_tran with (a_acked m1); [|eauto].
  clear IH H. destruct e; cbn in S.
  - inversion S; subst; apply incl_refl.
  - inversion S; subst; apply incl_refl.
  - inversion S; subst; apply incl_refl.
  - destruct (nth_error (a_infl m) s); [|discriminate]. inversion S; subst; apply incl_refl.
  - destruct (nth_error (a_infl m) s) as [[b|]|]; try discriminate. inversion S; subst. cbn. destruct ok; [apply incl_tl|]; apply incl_refl.
  - destruct ok; [destruct (covered strict (a_acked m) k r); [|discriminate]|]; inversion S; subst; apply incl_refl.
  - destruct ok; [destruct (forallb _ reqs); [|discriminate]|]; inversion S; subst; apply incl_refl.
Qed.
Lemma row_stored_mono a a' k rid : incl a a' -> row_stored a k rid = true -> row_stored a' k rid = true.
Proof. unfold row_stored. intros I H. apply existsb_exists in H as (b & Hb & S). apply existsb_exists. exists b. auto. Qed.

(* ---------------------------------------------------------------- what the handlers hold of what arrived *)
Lemma arrivals_app a b : arrivals (a ++ b) = arrivals a ++ arrivals b.
Proof.
  induction a as [|x a IH]; [reflexivity|]. destruct x as [[g|h]|full omit]; cbn; rewrite ?IH; try reflexivity.
  destruct g; cbn; rewrite ?IH; reflexivity.
Qed.
Lemma reqs_of_app a b : reqs_of (a ++ b) = reqs_of a ++ reqs_of b.
Proof. unfold reqs_of. apply map_app. Qed.
Lemma reqs_of_mk att c : reqs_of (map (mk_sub att) c) = map (fun x : nat * kind * req * Z => (snd (fst (fst x)), snd (fst x))) c.
Proof. unfold reqs_of. rewrite map_map. apply map_ext. intros [[[s k] r] sz]. reflexivity. Qed.
Lemma reqs_of_upd l : forall i sp sp', nth_error l i = Some sp -> sp_kind sp' = sp_kind sp -> sp_req sp' = sp_req sp ->
  reqs_of (upd i sp' l) = reqs_of l.
Proof.
  induction l as [|x l IH]; intros i sp sp' Hi Hk Hr; [destruct i; discriminate|]. destruct i as [|i]; cbn in Hi |- *.
  - inversion Hi; subst. unfold reqs_of. cbn. now rewrite Hk, Hr.
  - unfold reqs_of in *. cbn. f_equal. eapply IH; eauto.
Qed.

Record J (c : cstate) (m : amon) (arr : list (list item * list N)) : Prop := {
  j_len : length (hs (base c)) = length arr;
  j_cache : forall id, In id (fpcache c) -> row_stored (a_acked m) KSeries id = true;
  j_omit : forall h full omit id, nth_error arr h = Some (full, omit) -> In id omit -> row_stored (a_acked m) KSeries id = true;
  j_reqs : forall h hd full omit, nth_error (hs (base c)) h = Some hd -> nth_error arr h = Some (full, omit) -> h_answer hd = None ->
             reqs_of (h_subs hd) ++ item_reqs (h_items hd) = item_reqs (strip_items omit full)
}.

Lemma J_mono c m m' arr : J c m arr -> incl (a_acked m) (a_acked m') -> J c m' arr.
Proof.
  intros [A B C D] I. split; [exact A| | |exact D].
  - intros id H. eapply row_stored_mono; eauto.
  - intros h full omit id H1 H2. eapply row_stored_mono; eauto.
Qed.

Lemma J_arrive c m arr full omit : J c m arr -> (forall id, In id omit -> In id (fpcache c)) ->
  J {| base := set_hs (base c) (hs (base c) ++ [new_handler (strip_items omit full)]); fpcache := fpcache c; confirmed := confirmed c |} m
    (arr ++ [(full, omit)]).
Proof.
  intros [A B C D] Ho. split; cbn [base fpcache set_hs hs].
  - rewrite !app_length, A. reflexivity.
  - exact B.
  - intros h f o id Hn Hi. destruct (Nat.lt_ge_cases h (length arr)) as [L|L].
    + rewrite nth_error_app1 in Hn by assumption. eauto.
    + rewrite nth_error_app2 in Hn by assumption. destruct (h - length arr)%nat as [|[|?]]; cbn in Hn; try discriminate.
      inversion Hn; subst. apply B, Ho, Hi.
  - intros h hd f o Hh Hn Ha. destruct (Nat.lt_ge_cases h (length arr)) as [L|L].
    + rewrite nth_error_app1 in Hn by assumption. rewrite nth_error_app1 in Hh by (rewrite A; assumption). eauto.
    + rewrite nth_error_app2 in Hn by assumption. rewrite nth_error_app2 in Hh by (rewrite A; assumption). rewrite A in Hh.
      destruct (h - length arr)%nat as [|[|?]]; cbn in Hn, Hh; try discriminate. inversion Hn; inversion Hh; subst. reflexivity.
Qed.

(* a step of the plain system other than an arrival *)
Lemma J_gstep c m arr b g' eb : J c m arr -> gstep (base c) b = Some (g', eb) -> (forall items, b <> GNewHandler items) ->
  J {| base := g'; fpcache := fpcache c; confirmed := confirmed c |} m arr.
Proof.
  intros [A B C D] G Nn. destruct (gstep_hs _ _ _ _ G) as [[E _]|[(items & -> & _)|(h1 & hd1 & hd1' & Hh1 & E & S)]].
  - split; cbn [base fpcache]; rewrite ?E; auto.
  - exfalso. eapply Nn. reflexivity.
  - split; cbn [base fpcache]; rewrite ?E; auto; [now rewrite length_upd|].
    intros h hd f o Hh Hn Ha. apply nth_error_upd_cases in Hh as [[-> ->]|[Hne Hh]]; [|eauto].
    destruct S as [_ _ _ [(c0 & rest & att & Hit & Hit' & Hs' & Ea)|(rest & _ & _ & _ & Na)]
                  |i s sp sp' _ Hi _ -> _ [Hk Hr]|i sp sp' k _ Hi _ -> _ [Hk Hr]|ok _ _ _ _ -> _].
    + rewrite Ea in Ha. rewrite Hit', Hs', reqs_of_app, reqs_of_mk, <- app_assoc, <- (D _ _ _ _ Hh1 Hn Ha), Hit. reflexivity.
    + contradiction.
    + cbn [h_subs h_items h_answer] in Ha |- *. rewrite (reqs_of_upd _ _ _ _ Hi Hk Hr). eauto.
    + cbn [h_subs h_items h_answer] in Ha |- *. rewrite (reqs_of_upd _ _ _ _ Hi Hk Hr). eauto.
    + discriminate.
Qed.

(* the series rows a confirmation enters into the cache *)
Lemma series_keys_in l : forall keys id, Forall (fun sp => wf_reqb (sp_kind sp) (sp_req sp) = true) l ->
  series_keys (reqs_of l) = Some keys -> In id keys ->
  exists sp, In sp l /\ sp_kind sp = KSeries /\ In id (rids_of (sp_req sp)).
Proof.
  induction l as [|sp l IH]; intros keys id W K Hin; cbn in K; [inversion K; subst; destruct Hin|].
  inversion W as [|? ? Wsp Wl]; subst. destruct (sp_kind sp) eqn:Ek;
    try (destruct (IH _ _ Wl K Hin) as (x & Hx & R); exists x; split; [now right|exact R]).
  destruct (IngestShapes.tables_reach_no_panic _ _ Wsp) as [_ Ck]. rewrite (Ck eq_refl) in K.
  fold (reqs_of l) in K. destruct (series_keys (reqs_of l)) as [k2|] eqn:K2; [|discriminate]. inversion K; subst.
  apply in_app_iff in Hin as [Hin|Hin].
  - exists sp. split; [now left|]. split; [exact Ek|exact Hin].
  - destruct (IH _ _ Wl eq_refl Hin) as (x & Hx & R). exists x. split; [now right|exact R].
Qed.

Lemma forallb_ract_wf tr : forallb ract_wf tr = true -> forallb act_wf (base_trace (map cact_of tr)) = true.
Proof.
  induction tr as [|a tr IH]; [reflexivity|]. cbn [forallb]. intros H. apply andb_true_iff in H as [Ha Ht].
  destruct a as [[b|h]|full omit]; cbn [map cact_of base_trace forallb]; [|exact (IH Ht)|].
  - now rewrite (IH Ht), andb_true_r.
  - rewrite (IH Ht), andb_true_r. cbn in Ha |- *. now apply strip_items_wf.
Qed.

Lemma base_trace_app a b : base_trace (a ++ b) = base_trace a ++ base_trace b.
Proof. induction a as [|[x|h] a IH]; cbn; rewrite ?IH; reflexivity. Qed.

(* all sub-requests the handlers hold are tables *)
Lemma reach_HQ cfg n tr : forall g es, forallb act_wf tr = true -> grun (ginit cfg n) tr = Some (g, es) -> HQ wf_reqb g.
Proof.
  assert (H0 : HQ wf_reqb (ginit cfg n)) by apply HQ_init. revert H0. generalize (ginit cfg n).
  induction tr as [|a t IH]; intros g0 H0 g es W G; cbn in G; [inversion G; subst; exact H0|].
  cbn in W. apply andb_true_iff in W as [Wa Wt]. destruct (gstep g0 a) as [[g1 e1]|] eqn:Es; [|discriminate].
  destruct (grun g1 t) as [[g2 e2]|] eqn:Er; [|discriminate]. inversion G; subst. eapply IH; [|exact Wt|exact Er].
  eapply (HQ_step wf_reqb); eauto.
Qed.

(* ---------------------------------------------------------------- the invariant along every run *)
Theorem read_invariant cfg n tr : forall c ces, forallb ract_wf tr = true -> rrun (cinit cfg n) tr = Some (c, ces) ->
  exists m, run_mon (amon_step true) (amon_init (length cfg)) (base_events ces) = Some m /\ J c m (arrivals tr).
Proof.
  induction tr as [|a tr IH] using rev_ind; intros c ces W R.
  - cbn in R. inversion R; subst. exists (amon_init (length cfg)). split; [reflexivity|].
    split; cbn; [reflexivity|intros ? []|intros h ? ? ? Hn; destruct h; discriminate|intros h ? ? ? Hn; destruct h; discriminate].
  - rewrite forallb_app in W. apply andb_true_iff in W as [Wt Wa]. cbn [forallb] in Wa. rewrite andb_true_r in Wa.
    destruct (rrun_split _ _ _ _ _ _ R) as (c1 & es1 & c2 & es2 & es3 & R1 & S & R2 & ->). cbn in R2. inversion R2; subst c2 es3. clear R2.
    rewrite app_nil_r. destruct (IH _ _ Wt R1) as (m1 & M1 & J1).
    (* the whole run as a run of the plain system: the acknowledgement monitor accepts it *)
    pose proof (crun_refines _ _ _ _ (rrun_refines _ _ _ _ R)) as G. cbn [cinit base] in G. rewrite app_nil_r in G.
    assert (Wall : forallb act_wf (base_trace (map cact_of (tr ++ [a]))) = true).
    { apply forallb_ract_wf. rewrite forallb_app, Wt. cbn. now rewrite Wa. }
    pose proof (ack_sound_gen _ _ _ _ _ _ (trace_wf_ok _ Wall) G) as A.
    rewrite base_events_app, run_mon_app, M1 in A.
    destruct (run_mon (amon_step true) m1 (base_events es2)) as [m2|] eqn:M2; [|congruence].
    exists m2. split; [rewrite base_events_app, run_mon_app, M1; exact M2|].
    pose proof (amon_acked_mono _ _ _ _ M2) as Inc. rewrite arrivals_app.
    destruct a as [[b|h]|full omit].
    + (* a step of the plain system *)
      destruct (cstep_base _ _ _ _ S) as (eb & Gb & -> & Ec & Ecf).
      assert (Ec2 : c = {| base := base c; fpcache := fpcache c1; confirmed := confirmed c1 |}) by (destruct c; cbn in *; congruence).
      destruct b as [s sa|s k n0 r sz|items|hh|hh i s|hh i|hh];
        try (cbn [arrivals]; rewrite app_nil_r, Ec2; apply (J_mono _ m1); [|exact Inc];
             eapply J_gstep; [exact J1|exact Gb|intros ? ?; discriminate]).
      cbn [arrivals]. cbn in Gb. inversion Gb; subst. rewrite Ec2. apply (J_mono _ m1); [|exact Inc].
      rewrite <- H0. pose proof (J_arrive c1 m1 (arrivals tr) items [] J1 (fun id (H : In id []) => match H with end)) as X.
      rewrite strip_nil_items in X. exact X.
    + (* the confirmation loop of push h *)
      destruct (confirm_as_answer _ _ _ _ S) as (keys & hd & -> & K & Hh & Hit & Han & V & Mn & Eb & Ec & Ecf & g' & Ga).
      cbn [arrivals]. rewrite app_nil_r. cbn [base_events] in M2. inversion M2; subst m2.
      destruct J1 as [A1 B1 C1 D1]. split; rewrite ?Eb; auto. intros id Hid. rewrite Ec in Hid. apply in_app_iff in Hid as [Hid|Hid]; [auto|].
      (* the success answer is enabled here: replayed through ack_sound, every sub-request of the push is covered *)
      pose proof (crun_refines _ _ _ _ (rrun_refines _ _ _ _ R1)) as G1. cbn [cinit base] in G1.
      assert (G2 : grun (ginit cfg n) (base_trace (map cact_of tr) ++ [GAnswer h]) = Some (g', base_events es1 ++ [EAnswer h (reqs_of (h_subs hd)) true])).
      { eapply grun_app; [exact G1|]. cbn [grun]. rewrite Ga. reflexivity. }
      assert (W2 : forallb act_wf (base_trace (map cact_of tr) ++ [GAnswer h]) = true) by (rewrite forallb_app, (forallb_ract_wf _ Wt); reflexivity).
      pose proof (ack_sound_gen _ _ _ _ _ _ (trace_wf_ok _ W2) G2) as A2. rewrite run_mon_app, M1 in A2. cbn in A2.
      destruct (forallb (fun kr => covered true (a_acked m1) (fst kr) (snd kr)) (reqs_of (h_subs hd))) eqn:Cv; [|congruence].
      destruct (reach_HQ _ _ _ _ _ (forallb_ract_wf _ Wt) G1 _ _ Hh) as [Qs _].
      destruct (series_keys_in _ _ _ Qs K Hid) as (sp & Hsp & Ek & Hr).
      rewrite forallb_forall in Cv. specialize (Cv (sp_kind sp, sp_req sp) (in_map _ _ _ Hsp)). cbn in Cv.
      rewrite Forall_forall in Qs. pose proof (covered_rows_stored _ _ _ (Qs _ Hsp) Cv) as RS. rewrite Ek in RS.
      unfold rows_stored in RS. rewrite forallb_forall in RS. exact (RS _ Hr).
    + (* a push arrives through its parser *)
      cbn [rstep] in S. destruct (forallb (fun id => memN id (fpcache c1)) omit) eqn:Gd; [|discriminate].
      destruct (cstep_base _ _ _ _ S) as (eb & Gb & -> & Ec & Ecf). cbn in Gb. inversion Gb; subst eb.
      assert (Ec2 : c = {| base := base c; fpcache := fpcache c1; confirmed := confirmed c1 |}) by (destruct c; cbn in *; congruence).
      cbn [arrivals]. rewrite Ec2, <- H0. apply (J_mono _ m1); [|exact Inc]. apply J_arrive; [exact J1|].
      intros id Hid. rewrite forallb_forall in Gd. exact (memN_in _ _ (Gd _ Hid)).
Qed.

Lemma arrivals_wf tr : forallb ract_wf tr = true -> forall h full omit, nth_error (arrivals tr) h = Some (full, omit) ->
  forallb item_wf full = true.
Proof.
  induction tr as [|x tr IH]; intros W h full omit Hn; [destruct h; discriminate|].
  cbn [forallb] in W. apply andb_true_iff in W as [Wx Wt]. destruct x as [[g|h0]|f o]; cbn [arrivals] in Hn.
  - destruct g; try (exact (IH Wt _ _ _ Hn)). destruct h as [|h]; cbn in Hn; [|exact (IH Wt _ _ _ Hn)]. inversion Hn; subst. exact Wx.
  - exact (IH Wt _ _ _ Hn).
  - destruct h as [|h]; cbn in Hn; [|exact (IH Wt _ _ _ Hn)]. inversion Hn; subst. exact Wx.
Qed.
Lemma item_reqs_wf full : forallb item_wf full = true -> forallb (fun kr : kind * req => wf_reqb (fst kr) (snd kr)) (item_reqs full) = true.
Proof.
  induction full as [|[c|] t IH]; cbn [forallb item_reqs]; [reflexivity| |reflexivity]. intros W. apply andb_true_iff in W as [W1 W2].
  rewrite forallb_app, (IH W2), andb_true_r. clear - W1. cbn [item_wf] in W1.
  induction c as [|x c IHc]; [reflexivity|]. cbn [forallb map] in W1 |- *. apply andb_true_iff in W1 as [A B]. cbn [fst snd]. now rewrite A, (IHc B).
Qed.

(* THE ACKNOWLEDGEMENT WITH THE READ.  For every configuration and every run in which pushes arrive through parsers that
   leave out series rows found in the announcement cache (full emissions and direct requests being tables): whenever a push
   answers success, every request its body gives rise to -- the FULL emission, rows left out included -- is stored: every
   row of its series requests has all its cells in one block whose Do returned without error (this push's, or the earlier
   push's whose confirmation put the row into the cache), and every other request is covered by one such block. *)
Theorem full_request_is_stored cfg n tr a c1 ces1 c2 es2 h reqs full omit :
  forallb ract_wf (tr ++ [a]) = true ->
  rrun (cinit cfg n) tr = Some (c1, ces1) -> rstep c1 a = Some (c2, es2) -> In (CE (EAnswer h reqs true)) es2 ->
  nth_error (arrivals tr) h = Some (full, omit) ->
  exists m, run_mon (amon_step true) (amon_init (length cfg)) (base_events ces1) = Some m /\
    forallb (stored_req (a_acked m)) (item_reqs full) = true.
Proof.
  intros W R1 S Hin Hn. rewrite forallb_app in W. apply andb_true_iff in W as [Wt Wa].
  destruct (read_invariant _ _ _ _ _ Wt R1) as (m & M & [A B C D]). exists m. split; [exact M|].
  (* the step is the success answer of push h *)
  assert (exists hd, a = RBase (CBase (GAnswer h)) /\ nth_error (hs (base c1)) h = Some hd /\ h_items hd = [] /\ h_answer hd = None /\
                     reqs = reqs_of (h_subs hd)) as (hd & -> & Hh & Hit & Han & ->).
  { destruct a as [[b|h0]|f o].
    - destruct (cstep_base _ _ _ _ S) as (eb & Gb & -> & _). apply in_map_CE in Hin.
      destruct (gstep_hs _ _ _ _ Gb) as [[_ An]|[(items & _ & _ & ->)|(h1 & hd1 & hd1' & Hh1 & _ & St)]].
      + apply in_answered in Hin. rewrite An in Hin. destruct Hin.
      + destruct Hin.
      + destruct St as [_ _ [[_ ->]|(_ & _ & ->)] _|? ? ? ? _ _ _ _ An _|? ? ? ? _ _ _ _ -> _|ok -> Hit Han _ _ ->].
        * destruct Hin.
        * destruct Hin as [X|[]]. discriminate.
        * apply in_answered in Hin. rewrite An in Hin. destruct Hin.
        * destruct Hin.
        * destruct Hin as [X|[]]. inversion X; subst. exists hd1. auto.
    - destruct (confirm_as_answer _ _ _ _ S) as (keys & hd & -> & _). destruct Hin as [X|[]]. discriminate.
    - cbn [rstep] in S. destruct (forallb _ o); [|discriminate]. cbn in S. inversion S; subst. destruct Hin. }
  (* replayed through ack_sound: what the handler holds is covered *)
  pose proof (crun_refines _ _ _ _ (rrun_refines _ _ _ _ R1)) as G1. cbn [cinit base] in G1.
  destruct (cstep_base _ _ _ _ S) as (eb & Gb & Ees & _).
  assert (Eeb : eb = [EAnswer h (reqs_of (h_subs hd)) true]).
  { cbn in Gb. rewrite Hh, Hit, Han in Gb. destruct (verdict (h_subs hd)) as [ok|]; [|discriminate]. inversion Gb; subst.
    apply in_map_CE in Hin. destruct Hin as [X|[]]. inversion X; subst. reflexivity. }
  subst eb.
  assert (G2 : grun (ginit cfg n) (base_trace (map cact_of tr) ++ [GAnswer h]) = Some (base c2, base_events ces1 ++ [EAnswer h (reqs_of (h_subs hd)) true])).
  { eapply grun_app; [exact G1|]. cbn [grun]. rewrite Gb. reflexivity. }
  assert (W2 : forallb act_wf (base_trace (map cact_of tr) ++ [GAnswer h]) = true) by (rewrite forallb_app, (forallb_ract_wf _ Wt); reflexivity).
  pose proof (ack_sound_gen _ _ _ _ _ _ (trace_wf_ok _ W2) G2) as A2. rewrite run_mon_app, M in A2. cbn in A2.
  destruct (forallb (fun kr => covered true (a_acked m) (fst kr) (snd kr)) (reqs_of (h_subs hd))) eqn:Cv; [|congruence].
  pose proof (D _ _ _ _ Hh Hn Han) as Eq. rewrite Hit in Eq. cbn [item_reqs] in Eq. rewrite app_nil_r, item_reqs_strip in Eq.
  rewrite Eq in Cv.
  (* the full emissions are tables *)
  pose proof (item_reqs_wf _ (arrivals_wf _ Wt _ _ _ Hn)) as Wf.
  apply forallb_forall. intros [k r] Hkr. rewrite forallb_forall in Cv, Wf. pose proof (Wf _ Hkr) as Wr. cbn in Wr.
  pose proof (Cv _ (in_map (strip_kr omit) _ _ Hkr)) as Cr. unfold strip_kr, stored_req in *. cbn [fst snd] in *.
  destruct k; cbn [is_series]; try exact Cr. cbn [fst snd] in Cr.
  (* a series request: the rows kept are in this push's block, the rows left out were stored before *)
  pose proof (covered_rows_stored _ _ _ (strip_wf _ omit _ Wr) Cr) as RS. unfold rows_stored in *.
  rewrite (wf_is_table _ _ Wr), strip_table, rids_table in RS. rewrite forallb_forall in RS.
  apply forallb_forall. intros rid Hrid. destruct (memN rid omit) eqn:Mo.
  - eapply C; [exact Hn|apply memN_in; exact Mo].
  - apply RS. apply filter_In. split; [exact Hrid|now rewrite Mo].
Qed.

(* ---------------------------------------------------------------- non-vacuity *)
(* the same series pushed twice: push 0 stores and confirms series row 5; the parser of push 1, whose body gives rise to the
   series rows 5 and 6, finds 5 in the cache: only row 6 is sent, and when push 1 answers success its FULL request is stored
   -- row 5 in the block of push 0, row 6 in its own.  Leaving out a row that was not confirmed (7) is not a behaviour. *)
Definition read_cfg : list (kind * nat * Z) := [(KSeries, 0%nat, 0%Z); (KSamples, 1%nat, 0%Z)].
Definition read_full0 : list item := [IChunk [(0%nat, KSeries, table_of 4 [5%N], 10%Z); (1%nat, KSamples, table_of 5 [1%N; 2%N], 20%Z)]].
Definition read_full1 : list item := [IChunk [(0%nat, KSeries, table_of 4 [5%N; 6%N], 10%Z); (1%nat, KSamples, table_of 5 [7%N], 20%Z)]].
Definition rb (a : gact) : ract := RBase (CBase a).
Definition read_demo : list ract :=
  [RPush read_full0 []; rb (GItem 0); rb (GSubReq 0 0 0); rb (GSubReq 0 1 1);
   rb (GSvc 0 SPlan); rb (GSvc 0 (SDial true)); rb (GSvc 0 SSwap); rb (GSvc 0 SSend); rb (GSvc 0 (SDoReturn true));
   rb (GSvc 1 SPlan); rb (GSvc 1 (SDial true)); rb (GSvc 1 SSwap); rb (GSvc 1 SSend); rb (GSvc 1 (SDoReturn true));
   rb (GSubGet 0 0); rb (GSubGet 0 1); RBase (CConfirm 0); rb (GAnswer 0);
   RPush read_full1 [5%N]; rb (GItem 1); rb (GSubReq 1 0 0); rb (GSubReq 1 1 1);
   rb (GSvc 0 SPlan); rb (GSvc 0 SSwap); rb (GSvc 0 SSend); rb (GSvc 0 (SDoReturn true));
   rb (GSvc 1 SPlan); rb (GSvc 1 SSwap); rb (GSvc 1 SSend); rb (GSvc 1 (SDoReturn true));
   rb (GSubGet 1 0); rb (GSubGet 1 1); RBase (CConfirm 1)].
Example read_demo_runs :
  forallb ract_wf (read_demo ++ [rb (GAnswer 1)]) = true /\
  nth_error (arrivals read_demo) 1 = Some (read_full1, [5%N]) /\
  exists c1 ces1 c2 es2, rrun (cinit read_cfg 1) read_demo = Some (c1, ces1) /\ rstep c1 (rb (GAnswer 1)) = Some (c2, es2) /\
    fpcache c1 = [5%N; 6%N] /\
    In (CE (ESend 0 KSeries (table_of 4 [6%N]))) ces1 /\ ~ In (CE (ESend 0 KSeries (table_of 4 [5%N; 6%N]))) ces1 /\
    In (CE (EAnswer 1 [(KSeries, table_of 4 [6%N]); (KSamples, table_of 5 [7%N])] true)) es2 /\
    rrun (cinit read_cfg 1) (firstn 18 read_demo ++ [RPush read_full1 [7%N]]) = None.
Proof.
  split; [vm_compute; reflexivity|]. split; [reflexivity|].
  destruct (rrun (cinit read_cfg 1) read_demo) as [[c1 ces1]|] eqn:E; [|vm_compute in E; discriminate].
  vm_compute in E. inversion E; subst; clear E. eexists _, _, _, _. split; [reflexivity|]. split; [vm_compute; reflexivity|].
  split; [reflexivity|]. split; [repeat (first [left; reflexivity|right])|]. split.
  - intros H. repeat (destruct H as [H|H]; [discriminate H|]). exact H.
  - split; [left; reflexivity|vm_compute; reflexivity].
Qed.
