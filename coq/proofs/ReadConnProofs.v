(* C12 -- proofs about model/ReadConn.v.
   Part 1: threads that never ask the pool for a connection while holding one cannot wedge it (any pool size >= 1, any
   number of threads, every interleaving); hold-and-wait threads as many as the pool has connections do wedge it.
   Part 2: the analysis cpost is sound for every path of cexec (any number of loop iterations). *)
From Coq Require Import List Bool Arith Lia String Wellfounded Relations.
From Qryn Require Import model.ReadConn.
Import ListNotations.

(* ------------------------------------------------------------------ Part 2: soundness of the flow analysis *)
Lemma ceqb_eq : forall a b, ceqb a b = true -> a = b.
Proof. intros [] [] H; cbn in H; congruence. Qed.
Lemma ceqb_refl : forall a, ceqb a a = true.
Proof. intros []; reflexivity. Qed.

Lemma cmem_in : forall x l, cmem x l = true <-> In x l.
Proof.
  intros x l. unfold cmem. rewrite existsb_exists. split.
  - intros [y [Hy He]]. apply ceqb_eq in He. subst. exact Hy.
  - intros H. exists x. split; [exact H | apply ceqb_refl].
Qed.

Lemma csubset_in : forall a b x, csubset a b = true -> In x a -> In x b.
Proof. intros a b x Hs Hx. unfold csubset in Hs. rewrite forallb_forall in Hs. apply cmem_in. apply Hs. exact Hx. Qed.

Lemma cnone_in : forall (f : cst -> bool) X x, existsb f X = false -> In x X -> f x = false.
Proof.
  intros f X x H Hx. destruct (f x) eqn:E; [| reflexivity].
  assert (existsb f X = true) by (apply existsb_exists; exists x; auto). congruence.
Qed.

Lemma cdedup_in : forall l x, In x l -> In x (cdedup l).
Proof.
  induction l as [| y tl IH]; intros x H; [destruct H|]. cbn [cdedup].
  destruct H as [H | H].
  - subst. destruct (cmem x (cdedup tl)) eqn:E; [apply cmem_in; exact E | left; reflexivity].
  - destruct (cmem y (cdedup tl)); [apply IH; exact H | right; apply IH; exact H].
Qed.

Lemma csel_mk : forall o n b c r bad x, In x (csel o (mkCRes n b c r false)) -> In x (csel o (mkCR n b c r bad)).
Proof. intros o n b c r bad x H. destruct o; cbn [csel mkCR cr_n cr_b cr_c cr_r] in *; try apply cdedup_in; auto. Qed.

Lemma cbad_mk : forall n b c r bad, cr_bad (mkCR n b c r bad) = bad.
Proof. reflexivity. Qed.

(* on a path that starts in a state of X, with the analysis not alarmed: the path does not wait, and ends in a state the
   analysis has for its outcome *)
Definition csound (s : cstmt) : Prop :=
  forall st o st', cexec s st o st' -> forall X, In st X -> cr_bad (cpost s X) = false ->
    o <> COWait /\ o <> COJump /\ In st' (csel o (cpost s X)).

Lemma corb_f : forall a b, a || b = false -> a = false /\ b = false.
Proof. intros [] []; cbn; auto. Qed.

Lemma free_of_none : forall X st, some_not_free X = false -> In st X -> st = Free.
Proof.
  intros X st H Hin. pose proof (cnone_in _ _ _ H Hin) as Hf. cbn in Hf. destruct st; cbn in Hf; congruence.
Qed.

Lemma cloop_sound : forall k b, csound b -> forall l st o st', cexec l st o st' -> l = CLoop k b ->
  forall inv r, r = cpost b inv -> In st inv -> cr_bad r = false -> csubset (cr_n r ++ cr_c r) inv = true ->
  o <> COWait /\ o <> COJump /\ In st' (csel o (mkCRes (map (exit_of k) inv ++ cr_b r) [] [] (cr_r r) false)).
Proof.
  intros k b Hb l st o st' He. induction He; intros Hl inv r Hr Hin Hbad Hsub; try discriminate; inversion Hl; subst.
  - split; [discriminate | split; [discriminate |]]. cbn [csel cr_n]. apply in_or_app. left. apply in_map. exact Hin.
  - apply (IHHe2 eq_refl inv (cpost b inv) eq_refl); auto.
    destruct (Hb _ _ _ He1 inv Hin Hbad) as [_ [_ H1]].
    apply (csubset_in _ _ _ Hsub). apply in_or_app. destruct H as [H | H]; subst o; cbn [csel] in H1; [left | right]; exact H1.
  - destruct (Hb _ _ _ He inv Hin Hbad) as [_ [_ H1]]. split; [discriminate | split; [discriminate |]].
    cbn [csel cr_n] in *. apply in_or_app. right. exact H1.
  - destruct (Hb _ _ _ He inv Hin Hbad) as [W [J H1]].
    destruct H as [H | [H | H]]; subst o; try congruence.
    split; [discriminate | split; [discriminate |]]. cbn [csel cr_r] in *. exact H1.
Qed.

Lemma cpost_sound : forall s, csound s.
Proof.
  induction s as [| a IHa b IHb | | | | | | | | | | | | a IHa b IHb | k b IHb | b IHb]; unfold csound; intros st o st' He X Hin Hbad;
    cbn [cpost] in *; rewrite cbad_mk in Hbad.
  - inversion He; subst. split; [discriminate | split; [discriminate | apply csel_mk; exact Hin]].
  - apply corb_f in Hbad. destruct Hbad as [Hba Hbb].
    inversion He; subst.
    + match goal with Ha : cexec a _ CONormal _, Hb : cexec b _ _ _ |- _ =>
        destruct (IHa _ _ _ Ha X Hin Hba) as [_ [_ Q1]]; cbn [csel] in Q1; destruct (IHb _ _ _ Hb _ Q1 Hbb) as [W [J Q2]] end.
      split; [exact W | split; [exact J | apply csel_mk]].
      destruct o; cbn [csel cr_n cr_b cr_c cr_r] in *; auto using in_or_app.
    + match goal with Ha : cexec a _ _ _ |- _ => destruct (IHa _ _ _ Ha X Hin Hba) as [W [J Q1]] end.
      split; [exact W | split; [exact J | apply csel_mk]].
      destruct o; cbn [csel cr_n cr_b cr_c cr_r] in *; auto using in_or_app; congruence.
  - (* CAcq *) pose proof (free_of_none _ _ Hbad Hin) as Hf. subst st.
    inversion He; subst; try (cbn in *; discriminate).
    + split; [discriminate | split; [discriminate | apply csel_mk]]. cbn [csel cr_n]. destruct X; [destruct Hin | left; reflexivity].
    + split; [discriminate | split; [discriminate | apply csel_mk]]. cbn [csel cr_n]. destruct X; [destruct Hin | right; left; reflexivity].
  - (* CRel *) inversion He; subst. split; [discriminate | split; [discriminate | apply csel_mk]]. cbn [csel cr_n]. apply in_map. exact Hin.
  - (* CAsk *) pose proof (free_of_none _ _ Hbad Hin) as Hf. subst st.
    inversion He; subst; try (cbn in *; discriminate).
    split; [discriminate | split; [discriminate | apply csel_mk]]. exact Hin.
  - (* CCallL *) pose proof (free_of_none _ _ Hbad Hin) as Hf. subst st.
    inversion He; subst; try (cbn in *; discriminate).
    + split; [discriminate | split; [discriminate | apply csel_mk]]. cbn [csel cr_n]. destruct X; [destruct Hin | left; reflexivity].
    + split; [discriminate | split; [discriminate | apply csel_mk]]. cbn [csel cr_n]. destruct X; [destruct Hin | right; left; reflexivity].
  - (* CHand *) inversion He; subst. split; [discriminate | split; [discriminate | apply csel_mk]]. cbn [csel cr_n]. apply in_map. exact Hin.
  - (* CGiveUp *) inversion He; subst. split; [discriminate | split; [discriminate | apply csel_mk]]. cbn [csel cr_n].
    apply (in_map (fun _ => Free) X st). exact Hin.
  - (* COther *) inversion He; subst. split; [discriminate | split; [discriminate | apply csel_mk; exact Hin]].
  - inversion He; subst. split; [discriminate | split; [discriminate | apply csel_mk; exact Hin]].
  - inversion He; subst. split; [discriminate | split; [discriminate | apply csel_mk; exact Hin]].
  - inversion He; subst. split; [discriminate | split; [discriminate | apply csel_mk; exact Hin]].
  - discriminate.
  - apply corb_f in Hbad. destruct Hbad as [Hba Hbb].
    inversion He; subst.
    + match goal with Ha : cexec a _ _ _ |- _ => destruct (IHa _ _ _ Ha X Hin Hba) as [W [J Q1]] end.
      split; [exact W | split; [exact J | apply csel_mk]].
      destruct o; cbn [csel cr_n cr_b cr_c cr_r] in *; auto using in_or_app.
    + match goal with Ha : cexec b _ _ _ |- _ => destruct (IHb _ _ _ Ha X Hin Hbb) as [W [J Q1]] end.
      split; [exact W | split; [exact J | apply csel_mk]].
      destruct o; cbn [csel cr_n cr_b cr_c cr_r] in *; auto using in_or_app.
  - set (inv := citer (fun Y => let r := cpost b Y in cdedup (Y ++ cr_n r ++ cr_c r)) cloop_rounds X) in *.
    apply corb_f in Hbad. destruct Hbad as [Hbad Hs2]. apply corb_f in Hbad. destruct Hbad as [Hb1 Hs1].
    apply negb_false_iff in Hs1. apply negb_false_iff in Hs2.
    destruct (cloop_sound k b IHb _ _ _ _ He eq_refl inv (cpost b inv) eq_refl (csubset_in _ _ _ Hs1 Hin) Hb1 Hs2) as [W [J Q]].
    split; [exact W | split; [exact J | apply csel_mk; exact Q]].
  - inversion He; subst.
    + match goal with Ha : cexec b _ _ _ |- _ => destruct (IHb _ _ _ Ha X Hin Hbad) as [W [J Q1]] end.
      split; [discriminate | split; [discriminate | apply csel_mk]]. cbn [csel cr_n] in *. apply in_or_app. right. exact Q1.
    + match goal with Ha : cexec b _ _ _ |- _ => destruct (IHb _ _ _ Ha X Hin Hbad) as [W [J Q1]] end.
      split; [exact W | split; [exact J | apply csel_mk]].
      destruct o; cbn [csel cr_n cr_b cr_c cr_r] in *; auto using in_or_app; congruence.
Qed.

(* a body that passes: on no path through it (branches, any number of loop iterations, break / continue / return) is a
   connection asked for while the variable holds one; the path is fully analysed and leaves by falling off the end or return *)
Theorem cbody_ok_sound : forall body, cbody_ok body = true ->
  forall o st', cexec body Free o st' -> o <> COWait /\ (o = CONormal \/ o = COReturn).
Proof.
  intros body Hok o st' He. unfold cbody_ok in Hok. cbv zeta in Hok.
  apply andb_true_iff in Hok. destruct Hok as [Hbad Hbc]. apply negb_true_iff in Hbad.
  destruct (cpost_sound body _ _ _ He [Free] (or_introl eq_refl) Hbad) as [W [J Hin]].
  split; [exact W|].
  destruct (cr_b (cpost body [Free])) eqn:Eb; [| discriminate].
  destruct (cr_c (cpost body [Free])) eqn:Ec; [| discriminate].
  destruct o; cbn [csel] in Hin; auto; try congruence.
  - rewrite Eb in Hin. destruct Hin.
  - rewrite Ec in Hin. destruct Hin.
Qed.

(* ... and leaves the variable in a state its caller knows about *)
Theorem cexit_ok_sound : forall held_ok lent_ok body, cbody_ok body = true -> cexit_ok held_ok lent_ok body = true ->
  forall o st', cexec body Free o st' -> exit_state_ok held_ok lent_ok st' = true.
Proof.
  intros h l body Hok Hex o st' He. destruct (cbody_ok_sound body Hok o st' He) as [_ Ho].
  unfold cbody_ok in Hok. cbv zeta in Hok. apply andb_true_iff in Hok. destruct Hok as [Hbad _]. apply negb_true_iff in Hbad.
  destruct (cpost_sound body _ _ _ He [Free] (or_introl eq_refl) Hbad) as [_ [_ Hin]].
  unfold cexit_ok in Hex. cbv zeta in Hex. apply andb_true_iff in Hex. destruct Hex as [Hn Hr].
  rewrite forallb_forall in Hn, Hr.
  destruct Ho as [Ho | Ho]; subst o; cbn [csel] in Hin; auto.
Qed.

Theorem cflows_ok_sound : forall fs, cflows_ok fs = true -> forall f, In f fs ->
  forall o st', cexec (cf_body f) Free o st' ->
    o <> COWait /\ (o = CONormal \/ o = COReturn) /\
    (exit_is_reviewed f = false -> exit_state_ok (cf_deferred_close f) (cf_returns_chan f) st' = true).
Proof.
  intros fs H f Hin o st' He. unfold cflows_ok in H. rewrite forallb_forall in H. apply H in Hin.
  unfold cflow_ok in Hin. apply andb_true_iff in Hin. destruct Hin as [Hb Hx].
  destruct (cbody_ok_sound _ Hb o st' He) as [W N]. split; [exact W | split; [exact N |]].
  intros Hr. rewrite Hr in Hx. cbn [orb] in Hx. exact (cexit_ok_sound _ _ _ Hb Hx o st' He).
Qed.

(* ---- the analysis is not vacuous *)
(* TraceQLComplexityEvaluator.Process as the code is: the rows are read to the end (Next() = false), then the processor is called *)
Definition evaluator_fine : cstmt :=
  CSeq CAsk (CSeq CAcq (CSeq (CIf CReturn CSkip) (CSeq COther
    (CSeq (CLoop LRows (CSeq COther (CIf CReturn CSkip))) (CIf (CSeq CAsk CReturn) (CSeq CAsk CReturn)))))).
(* seeded change C12-f: the processor is called from inside the rows loop *)
Definition evaluator_seeded : cstmt :=
  CSeq CAsk (CSeq CAcq (CSeq (CIf CReturn CSkip) (CSeq COther
    (CSeq (CLoop LRows (CSeq COther (CSeq (CIf CReturn CSkip) (CIf (CSeq CAsk CReturn) CSkip)))) (CSeq CAsk CReturn))))).

Example evaluator_fine_accepted : cbody_ok evaluator_fine = true.
Proof. vm_compute. reflexivity. Qed.

Example evaluator_seeded_rejected : cbody_ok evaluator_seeded = false /\ cexec evaluator_seeded Free COWait Held.
Proof.
  split; [vm_compute; reflexivity|]. unfold evaluator_seeded.
  eapply CESeqN; [apply CEAsk|]. eapply CESeqN; [apply CEAcq|]. eapply CESeqN; [apply CEIfR; apply CESkip|].
  eapply CESeqN; [apply CEOther|]. eapply CESeqX; [| discriminate].
  eapply CELoopExit; [| right; left; reflexivity].
  eapply CESeqN; [apply CEOther|]. eapply CESeqN; [apply CEIfR; apply CESkip|].
  apply CEIfL. eapply CESeqX; [| discriminate]. apply CEAskWait. reflexivity.
Qed.

(* leaving the rows loop by break keeps the connection; a Close before the next statement is fine; a channel of a lending call
   must be read until closed before the next statement (the portion loop of ComplexRequestProcessor) *)
Example break_keeps_the_connection :
  cbody_ok (CSeq CAcq (CSeq (CLoop LRows (CIf CBreak CSkip)) CAsk)) = false /\
  cbody_ok (CSeq CAcq (CSeq (CLoop LRows (CIf CBreak CSkip)) (CSeq CRel CAsk))) = true /\
  cbody_ok (CLoop LPlain (CSeq CCallL (CSeq (CIf CReturn CSkip) (CLoop LDrain (CIf CReturn CSkip))))) = true /\
  cbody_ok (CLoop LPlain (CSeq CCallL (CSeq (CIf CReturn CSkip) (CLoop LDrain (CIf CBreak CSkip))))) = false /\
  cbody_ok (CSeq CAcq (CSeq CHand CAsk)) = false.
Proof. vm_compute. auto 6. Qed.

(* leaving the drain loop by break and returning a slice (not the channel): the caller cannot know that a connection is still
   out (mutation m2 of round 6); returning an error gives up; a result set may be left to a deferred Close *)
Example exit_states :
  cexit_ok false false (CSeq CCallL (CSeq (CLoop LDrain (CIf CBreak CSkip)) CReturn)) = false /\
  cexit_ok false false (CSeq CCallL (CSeq (CLoop LDrain (CIf (CSeq CGiveUp CReturn) CSkip)) CReturn)) = true /\
  cexit_ok false true (CSeq CAcq (CSeq CHand CReturn)) = true /\
  cexit_ok false false (CSeq CAcq (CSeq (CLoop LRows (CIf CReturn CSkip)) CReturn)) = false /\
  cexit_ok true false (CSeq CAcq (CSeq (CLoop LRows (CIf CReturn CSkip)) CReturn)) = true.
Proof. vm_compute. auto 6. Qed.

(* ------------------------------------------------------------------ Part 1: the pool *)
Lemma kheld_app : forall a b, kheld (a ++ b) = kheld a + kheld b.
Proof. induction a as [| t a IH]; intros b; cbn [kheld fold_right app]; [reflexivity|]. fold (kheld (a ++ b)). fold (kheld a). rewrite IH. lia. Qed.

Lemma kmeasure_app : forall a b, kmeasure (a ++ b) = kmeasure a + kmeasure b.
Proof. induction a as [| t a IH]; intros b; cbn [kmeasure fold_right app]; [reflexivity|]. fold (kmeasure (a ++ b)). fold (kmeasure a). rewrite IH. lia. Qed.

Lemma kstep_measure : forall cap a b, kstep cap a b -> kmeasure b < kmeasure a.
Proof.
  intros cap a b H. destruct H as [pre t t' post H1]. rewrite !kmeasure_app. cbn [kmeasure fold_right].
  destruct H1; cbn [snd List.length]; lia.
Qed.

(* every interleaving is finite, whatever the threads do *)
Theorem pool_schedules_finite : forall cap ts, Acc (fun b a => kstep cap a b) ts.
Proof.
  intros cap ts. remember (kmeasure ts) as n eqn:En. revert ts En.
  induction n as [n IH] using lt_wf_ind. intros ts En. constructor. intros b Hb.
  apply (IH (kmeasure b)); [subst; exact (kstep_measure _ _ _ Hb) | reflexivity].
Qed.

(* the discipline is kept by every step *)
Lemma kstep1_ok : forall cap others t t', kstep1 cap others t t' -> kt_ok t = true -> kt_ok t' = true.
Proof.
  intros cap others t t' H Hok. destruct H; unfold kt_ok in *; cbn [fst snd kn_ok] in *; auto.
  apply andb_true_iff in Hok. destruct Hok as [Hh Hq]. apply Nat.eqb_eq in Hh. subst. exact Hq.
Qed.

Lemma forallb_app_ : forall (A : Type) (f : A -> bool) a b, forallb f (a ++ b) = forallb f a && forallb f b.
Proof. intros. apply forallb_app. Qed.

Lemma kstep_ok : forall cap a b, kstep cap a b -> forallb kt_ok a = true -> forallb kt_ok b = true.
Proof.
  intros cap a b H Hok. destruct H as [pre t t' post H1]. rewrite forallb_app in *. cbn [forallb] in *.
  apply andb_true_iff in Hok. destruct Hok as [Hp Hr]. apply andb_true_iff in Hr. destruct Hr as [Ht Hpo].
  rewrite Hp, Hpo, (kstep1_ok _ _ _ _ H1 Ht). reflexivity.
Qed.

(* a disciplined thread that cannot move on its own account is finished and holds nothing, or waits for a connection holding none *)
Definition kwaits (t : kthread) : bool := match t with (0, KAcq :: _) => true | _ => false end.
Definition kdone (t : kthread) : bool := match t with (0, []) => true | _ => false end.

Lemma disciplined_cases : forall t, kt_ok t = true ->
  kdone t = true \/ kwaits t = true \/ exists t', forall cap others, kstep1 cap others t t'.
Proof.
  intros [h p] Hok. unfold kt_ok in Hok. cbn [fst snd] in Hok. destruct p as [| [] q]; cbn [kn_ok] in Hok.
  - apply Nat.eqb_eq in Hok. subst. left. reflexivity.
  - apply andb_true_iff in Hok. destruct Hok as [Hh _]. apply Nat.eqb_eq in Hh. subst. right. left. reflexivity.
  - right. right. exists (pred h, q). intros. apply KSRel.
  - right. right. exists (h, q). intros. apply KSWork.
Qed.

Lemma all_idle_hold_nothing : forall ts, forallb (fun t => kdone t || kwaits t) ts = true -> kheld ts = 0.
Proof.
  induction ts as [| t ts IH]; intros H; [reflexivity|]. cbn [forallb] in H. apply andb_true_iff in H. destruct H as [Ht Hr].
  cbn [kheld fold_right]. fold (kheld ts). rewrite (IH Hr).
  destruct t as [h p]. cbn [fst]. destruct h; [reflexivity|]. cbn in Ht. destruct p as [| [] q]; cbn in Ht; discriminate.
Qed.

Lemma split_at : forall (A : Type) (f : A -> bool) l, forallb f l = false -> exists pre x post, l = pre ++ x :: post /\ f x = false.
Proof.
  intros A f. induction l as [| y l IH]; intros H; [discriminate|]. cbn [forallb] in H. destruct (f y) eqn:E.
  - destruct (IH H) as [pre [x [post [El Hx]]]]. exists (y :: pre), x, post. subst. split; [reflexivity | exact Hx].
  - exists [], y, l. split; [reflexivity | exact E].
Qed.

(* the theorem: any pool size >= 1, any number of disciplined threads; a state in which nobody can move has every thread
   through and every connection back in the pool *)
Theorem disciplined_threads_never_wedge : forall cap ts, 1 <= cap -> forallb kt_ok ts = true ->
  (forall ts', ~ kstep cap ts ts') -> forallb kdone ts = true /\ kheld ts = 0.
Proof.
  intros cap ts Hcap Hok Hstuck.
  (* no thread can move on its own account *)
  assert (Hidle : forallb (fun t => kdone t || kwaits t) ts = true).
  { destruct (forallb (fun t => kdone t || kwaits t) ts) eqn:E; [reflexivity|]. exfalso.
    destruct (split_at _ _ _ E) as [pre [x [post [El Hx]]]]. subst ts.
    rewrite forallb_app in Hok. cbn [forallb] in Hok. apply andb_true_iff in Hok. destruct Hok as [_ Hr].
    apply andb_true_iff in Hr. destruct Hr as [Hxo _].
    destruct (disciplined_cases x Hxo) as [Hd | [Hw | [t' Ht']]].
    - rewrite Hd in Hx. discriminate.
    - rewrite Hw, orb_true_r in Hx. discriminate.
    - apply (Hstuck (pre ++ t' :: post)). constructor. apply Ht'. }
  pose proof (all_idle_hold_nothing ts Hidle) as Hh.
  split; [| exact Hh].
  destruct (forallb kdone ts) eqn:E; [reflexivity|]. exfalso.
  destruct (split_at _ _ _ E) as [pre [x [post [El Hx]]]]. subst ts.
  rewrite forallb_app in Hidle. cbn [forallb] in Hidle. apply andb_true_iff in Hidle. destruct Hidle as [_ Hr].
  apply andb_true_iff in Hr. destruct Hr as [Hxi _]. rewrite Hx in Hxi. cbn [orb] in Hxi.
  destruct x as [h p]. destruct h; [| cbn in Hxi; discriminate]. destruct p as [| [] q]; cbn in Hxi; try discriminate.
  apply (Hstuck (pre ++ (1, q) :: post)). constructor. apply KSAcq.
  rewrite kheld_app in Hh. cbn [kheld fold_right fst] in Hh. fold (kheld post) in Hh. lia.
Qed.

Corollary disciplined_threads_reach_the_end : forall cap ts, 1 <= cap -> forallb kt_ok ts = true ->
  forall ts', clos_refl_trans_1n _ (kstep cap) ts ts' -> (forall ts'', ~ kstep cap ts' ts'') -> forallb kdone ts' = true /\ kheld ts' = 0.
Proof.
  intros cap ts Hcap Hok ts' Hr. induction Hr as [| a b c Hab Hbc IH]; intros Hstuck.
  - exact (disciplined_threads_never_wedge cap _ Hcap Hok Hstuck).
  - apply IH; [exact (kstep_ok _ _ _ Hab Hok) | exact Hstuck].
Qed.

(* hold and wait: as many threads as the pool has connections, each holding one and asking for another: nobody moves, ever *)
Lemma kheld_repeat : forall n q, kheld (repeat (1, KAcq :: q) n) = n.
Proof. induction n as [| n IH]; intros q; cbn [repeat kheld fold_right fst]; [reflexivity|]. fold (kheld (repeat (1, KAcq :: q) n)). rewrite IH. reflexivity. Qed.

Lemma in_repeat_split : forall (A : Type) (x : A) n pre y post, repeat x n = pre ++ y :: post ->
  y = x /\ pre = repeat x (List.length pre) /\ post = repeat x (List.length post) /\ n = List.length pre + S (List.length post).
Proof.
  intros A x. induction n as [| n IH]; intros pre y post H; cbn [repeat] in H.
  - destruct pre; discriminate.
  - destruct pre as [| p pre]; cbn [app] in H.
    + inversion H; subst. split; [reflexivity|]. split; [reflexivity|]. rewrite repeat_length. split; reflexivity.
    + inversion H; subst. destruct (IH _ _ _ H2) as [Hy [Hp [Hpo Hn]]]. split; [exact Hy|]. cbn [List.length repeat].
      split; [rewrite <- Hp; reflexivity|]. split; [exact Hpo | lia].
Qed.

Theorem hold_and_wait_wedges_the_pool : forall cap q, 1 <= cap ->
  let ts := repeat (1, KAcq :: q) cap in
  (forall ts', ~ kstep cap ts ts') /\ forallb kdone ts = false /\ kheld ts = cap.
Proof.
  intros cap q Hcap ts. split; [| split].
  - intros ts' H. subst ts. inversion H as [pre t t' post H1 Ets Ets'].
    destruct (in_repeat_split _ _ _ _ _ _ (eq_sym Ets)) as [Hy [Hp [Hpo Hn]]]. subst t.
    inversion H1 as [h p Hlt | |]; subst. rewrite Hp, Hpo, !kheld_repeat, !repeat_length in Hlt. lia.
  - subst ts. destruct cap; [lia|]. reflexivity.
  - apply kheld_repeat.
Qed.

(* and that state is reached: every request of the seeded change gets its first connection (pool of 1: one request; pool of 4:
   four requests), after which nobody can move; the requests as the code is run to the end on a pool of 1 *)
Example seeded_requests_wedge :
  clos_refl_trans_1n _ (kstep 1) [(0, k_hold_and_wait)] [(1, [KAcq; KRel; KWork; KRel])] /\
  (forall ts', ~ kstep 1 [(1, [KAcq; KRel; KWork; KRel])] ts') /\
  kn_ok 0 k_hold_and_wait = false /\ kn_ok 0 k_one_at_a_time = true.
Proof.
  split; [| split; [| split; reflexivity]].
  - eapply Relation_Operators.rt1n_trans; [apply (KStep 1 [] (0, k_hold_and_wait) (1, [KWork; KAcq; KRel; KWork; KRel]) []); apply KSAcq; cbn; lia|].
    eapply Relation_Operators.rt1n_trans; [apply (KStep 1 [] (1, [KWork; KAcq; KRel; KWork; KRel]) (1, [KAcq; KRel; KWork; KRel]) []); apply KSWork|].
    apply Relation_Operators.rt1n_refl.
  - exact (proj1 (hold_and_wait_wedges_the_pool 1 [KRel; KWork; KRel] (le_n 1))).
Qed.

Example disciplined_hypothesis_met : forallb kt_ok [(0, k_one_at_a_time); (0, k_one_at_a_time); (0, [KWork])] = true.
Proof. reflexivity. Qed.
