(* The label document after the fix of encodeLabels (property C04): jsonQuote is read back by the strict
   RFC 8259 reader of model/LabelJson.v for EVERY byte string (ill-formed bytes read U+FFFD), sanitizeLabels
   leaves only valid UTF-8, and on the strings for which strconv.Quote happened to write JSON the new
   quoter writes the same bytes. *)
From Coq Require Import List ZArith Lia String Ascii Bool.
From Qryn Require Import model.GoQuote model.LabelJson model.Fingerprint model.Labels
  proofs.Utf8Proofs proofs.LabelsProofs.
Import ListNotations.
Open Scope Z_scope.

(* ------------------------------------------------------------------ reading back one quoted unit *)
Lemma not_surrogate b : 0 <= b < 128 -> in_rng 55296 56319 b = false /\ in_rng 56320 57343 b = false.
Proof.
  intros H. unfold in_rng. split; apply andb_false_iff; left; apply Z.leb_gt; lia.
Qed.

Lemma encode_rune_ascii b : b < 128 -> encode_rune b = str1 (chr b).
Proof. intros H. unfold encode_rune. replace (b <? 128) with true by (symmetry; apply Z.ltb_lt; lia). reflexivity. Qed.

Lemma parse_str_u4 f cp rest : 0 <= cp < 65536 -> in_rng 55296 56319 cp = false -> in_rng 56320 57343 cp = false ->
  parse_str (S f) (String bs (String "u" (append (hexn 4 cp) rest))) = omap (prepend (encode_rune cp)) (parse_str f rest).
Proof.
  intros Hr H1 H2. rewrite parse_str_unfold. cbv zeta. rewrite byte_bs.
  change (92 =? 34) with false. change (92 =? 92) with true. cbv iota.
  rewrite byte_u. change (simple_escape 117) with (@None ascii). cbv iota. change (117 =? 117) with true. cbv iota.
  rewrite hex4_hexn by lia. now rewrite H1, H2.
Qed.

Lemma parse_str_jq_ascii c f rest : byte c < 128 ->
  parse_str (S f) (append (jq_ascii c) rest) = omap (prepend (str1 c)) (parse_str f rest).
Proof.
  intros Hlt. unfold jq_ascii. pose proof (byte_range c) as Hr.
  remember (byte c) as b eqn:Hb. symmetry in Hb.
  destruct ((b =? 34) || (b =? 92)) eqn:E1.
  - cbn [append str1]. apply parse_str_simple_esc.
    apply orb_true_iff in E1. destruct E1 as [E|E]; apply Z.eqb_eq in E; subst b.
    + apply (esc_denotes c 34 c E). rewrite E. reflexivity.
    + apply (esc_denotes c 92 c E). rewrite E. reflexivity.
  - apply orb_false_iff in E1. destruct E1 as [E34 E92].
    destruct (in_rng 32 126 b) eqn:E2.
    + cbn [append str1]. rewrite parse_str_unfold. cbv zeta. rewrite Hb, E34, E92.
      unfold in_rng in E2. apply andb_true_iff in E2. destruct E2 as [Ea Eb].
      apply Z.leb_le in Ea. apply Z.leb_le in Eb.
      replace (b <? 32) with false by (symmetry; apply Z.ltb_ge; lia).
      replace (b <? 128) with true by (symmetry; apply Z.ltb_lt; lia). reflexivity.
    + destruct (b =? 8) eqn:E8.
      { cbn [append]. apply parse_str_simple_esc. apply Z.eqb_eq in E8. subst b. apply (esc_denotes c 8 _ E8). reflexivity. }
      destruct (b =? 12) eqn:E12.
      { cbn [append]. apply parse_str_simple_esc. apply Z.eqb_eq in E12. subst b. apply (esc_denotes c 12 _ E12). reflexivity. }
      destruct (b =? 10) eqn:E10.
      { cbn [append]. apply parse_str_simple_esc. apply Z.eqb_eq in E10. subst b. apply (esc_denotes c 10 _ E10). reflexivity. }
      destruct (b =? 13) eqn:E13.
      { cbn [append]. apply parse_str_simple_esc. apply Z.eqb_eq in E13. subst b. apply (esc_denotes c 13 _ E13). reflexivity. }
      destruct (b =? 9) eqn:E9.
      { cbn [append]. apply parse_str_simple_esc. apply Z.eqb_eq in E9. subst b. apply (esc_denotes c 9 _ E9). reflexivity. }
      (* any other control character, 0x7f: \u00XX *)
      cbn [append]. destruct (not_surrogate b ltac:(lia)) as [S1 S2].
      rewrite (parse_str_u4 f b rest ltac:(lia) S1 S2), (encode_rune_ascii b Hlt).
      now rewrite <- (byte_inj c b Hb).
Qed.

Lemma parse_str_jq_rune ip c r rn w p v' f t :
  128 <= byte c -> rune_at c r rn w p v' ->
  parse_str (S f) (append (jq_rune ip rn p) t) = omap (prepend p) (parse_str f t).
Proof.
  intros Hc R. unfold jq_rune.
  destruct (ra_again _ _ _ _ _ _ R t) as [A1 [A2 A3]].
  destruct (ip rn || (65536 <=? rn)) eqn:Ep.
  - (* copied: the raw bytes *)
    destruct (ra_head _ _ _ _ _ _ R) as [q Hq]. rewrite Hq in *. cbn [append] in *.
    rewrite parse_str_unfold. cbv zeta.
    replace (byte c =? 34) with false by (symmetry; apply Z.eqb_neq; lia).
    replace (byte c =? 92) with false by (symmetry; apply Z.eqb_neq; lia).
    replace (byte c <? 32) with false by (symmetry; apply Z.ltb_ge; lia).
    replace (byte c <? 128) with false by (symmetry; apply Z.ltb_ge; lia).
    rewrite A1, A2, A3. reflexivity.
  - (* not printable, below U+10000: \uXXXX *)
    apply orb_false_iff in Ep. destruct Ep as [_ Hk]. apply Z.leb_gt in Hk.
    destruct (ra_bmp _ _ _ _ _ _ R Hk) as [B1 [B2 B3]].
    cbn [append]. rewrite parse_str_u4; [now rewrite B1|lia| |].
    + unfold in_rng. apply andb_false_iff. rewrite Z.leb_gt, Z.leb_gt. lia.
    + unfold in_rng. apply andb_false_iff. rewrite Z.leb_gt, Z.leb_gt. lia.
Qed.

Lemma decode_fffd t : decode_rune (append fffd t) = Some (65533, 3%nat).
Proof. reflexivity. Qed.

Lemma parse_str_fffd f t : parse_str (S f) (append fffd t) = omap (prepend fffd) (parse_str f t).
Proof.
  unfold fffd at 1. cbn [append str1]. rewrite parse_str_unfold. cbv zeta.
  change (byte (chr 239)) with 239.
  change (239 =? 34) with false. change (239 =? 92) with false. change (239 <? 32) with false. change (239 <? 128) with false.
  cbv iota.
  change (String (chr 239) (String (chr 191) (String (chr 189) t))) with (append fffd t).
  rewrite decode_fffd. reflexivity.
Qed.

(* ------------------------------------------------------------------ skipping continuation bytes *)
Lemma jqb_skip ip : forall k s, jquote_body ip k s = jquote_body ip 0 (sdrop k s).
Proof.
  induction k as [|k IH]; intros s; [destruct s; reflexivity|].
  destruct s as [|c r]; [reflexivity|]. cbn [jquote_body sdrop]. apply IH.
Qed.

Lemma fix_skip : forall k s, utf8_fix k s = append (stake k s) (utf8_fix 0 (sdrop k s)).
Proof.
  induction k as [|k IH]; intros s; [destruct s; reflexivity|].
  destruct s as [|c r]; [reflexivity|]. cbn [utf8_fix sdrop stake append]. now rewrite IH.
Qed.

Lemma valid_skip : forall k s, utf8_valid k s = utf8_valid 0 (sdrop k s).
Proof.
  induction k as [|k IH]; intros s; [destruct s; reflexivity|].
  destruct s as [|c r]; [reflexivity|]. cbn [utf8_valid sdrop]. apply IH.
Qed.

Lemma rune_at_width c r rn w p v' : rune_at c r rn w p v' ->
  exists k, w = S k /\ p = String c (stake k r) /\ sdrop k r = v'.
Proof.
  intros R. destruct (ra_head _ _ _ _ _ _ R) as [q Hq]. pose proof (ra_take _ _ _ _ _ _ R) as Ht.
  pose proof (ra_drop_tail _ _ _ _ _ _ R) as Hd.
  destruct w as [|k]; [cbn in Ht; rewrite Hq in Ht; discriminate Ht|].
  exists k. split; [reflexivity|]. split; [now rewrite <- Ht|exact Hd].
Qed.

(* the three ways a non-empty string starts *)
Lemma jq_cases ip c r :
  (byte c < 128 /\ jquote_body ip 0 (String c r) = append (jq_ascii c) (jquote_body ip 0 r) /\
   utf8_fix 0 (String c r) = String c (utf8_fix 0 r)) \/
  (exists rn w p v', 128 <= byte c /\ rune_at c r rn w p v' /\
   jquote_body ip 0 (String c r) = append (jq_rune ip rn p) (jquote_body ip 0 v') /\
   utf8_fix 0 (String c r) = append p (utf8_fix 0 v')) \/
  (128 <= byte c /\ decode_rune (String c r) = None /\
   jquote_body ip 0 (String c r) = append fffd (jquote_body ip 0 r) /\
   utf8_fix 0 (String c r) = append fffd (utf8_fix 0 r)).
Proof.
  destruct (byte c <? 128) eqn:E.
  - left. apply Z.ltb_lt in E. split; [assumption|]. cbn [jquote_body utf8_fix].
    replace (byte c <? 128) with true by (symmetry; apply Z.ltb_lt; lia). split; reflexivity.
  - right. apply Z.ltb_ge in E. destruct (decode_rune (String c r)) as [[rn w]|] eqn:D.
    + left. destruct (decode_rune_multibyte c r rn w E D) as [p [v' R]].
      exists rn, w, p, v'. split; [assumption|]. split; [assumption|].
      destruct (rune_at_width _ _ _ _ _ _ R) as [k [-> [Hp Hv]]].
      cbn [jquote_body utf8_fix]. replace (byte c <? 128) with false by (symmetry; apply Z.ltb_ge; lia).
      rewrite D. cbn [Nat.pred]. split.
      * rewrite (ra_take _ _ _ _ _ _ R). f_equal. rewrite jqb_skip. now rewrite Hv.
      * rewrite fix_skip, Hv, Hp. reflexivity.
    + right. split; [assumption|]. split; [reflexivity|].
      cbn [jquote_body utf8_fix]. replace (byte c <? 128) with false by (symmetry; apply Z.ltb_ge; lia).
      rewrite D. split; reflexivity.
Qed.

(* ------------------------------------------------------------------ one string literal *)
Lemma parse_str_jquote_body ip : forall n v, (String.length v <= n)%nat ->
  forall fuel rest, (String.length v < fuel)%nat ->
  parse_str fuel (append (jquote_body ip 0 v) (String dq rest)) = Some (utf8_fix 0 v, rest).
Proof.
  induction n as [|n IH]; intros v Hn fuel rest Hf.
  - destruct v; [|cbn in Hn; lia]. destruct fuel as [|f]; [cbn in Hf; lia|].
    cbn [jquote_body append utf8_fix]. rewrite parse_str_unfold. cbv zeta. rewrite byte_dq. reflexivity.
  - destruct v as [|c r].
    + destruct fuel as [|f]; [cbn in Hf; lia|].
      cbn [jquote_body append utf8_fix]. rewrite parse_str_unfold. cbv zeta. rewrite byte_dq. reflexivity.
    + destruct fuel as [|f]; [cbn in Hf; lia|]. cbn [String.length] in Hn, Hf.
      destruct (jq_cases ip c r) as [[Hc [Hq Hx]]|[[rn [w [p [v' [Hc [R [Hq Hx]]]]]]]|[Hc [D [Hq Hx]]]]].
      * rewrite Hq, Hx, append_assoc, (parse_str_jq_ascii c f _ Hc).
        rewrite (IH r) by lia. reflexivity.
      * rewrite Hq, Hx, append_assoc, (parse_str_jq_rune ip c r rn w p v' f _ Hc R).
        pose proof (ra_len _ _ _ _ _ _ R) as Hl. cbn [String.length] in Hl.
        rewrite (IH v') by lia. reflexivity.
      * rewrite Hq, Hx, append_assoc, parse_str_fffd.
        rewrite (IH r) by lia. reflexivity.
Qed.

Lemma jq_ascii_nonempty c : (1 <= String.length (jq_ascii c))%nat.
Proof.
  unfold jq_ascii.
  repeat match goal with |- context [if ?x then _ else _] => destruct x end; cbn [String.length str1]; lia.
Qed.

Lemma jquote_body_length ip : forall n v, (String.length v <= n)%nat ->
  (String.length v <= String.length (jquote_body ip 0 v))%nat.
Proof.
  induction n as [|n IH]; intros v Hn.
  - destruct v; [cbn; lia|cbn in Hn; lia].
  - destruct v as [|c r]; [cbn; lia|]. cbn [String.length] in Hn.
    destruct (jq_cases ip c r) as [[Hc [Hq Hx]]|[[rn [w [p [v' [Hc [R [Hq Hx]]]]]]]|[Hc [D [Hq Hx]]]]].
    + rewrite Hq, length_append. cbn [String.length].
      pose proof (jq_ascii_nonempty c). specialize (IH r ltac:(lia)). lia.
    + rewrite Hq, length_append, (rune_at_plen _ _ _ _ _ _ R).
      pose proof (ra_len _ _ _ _ _ _ R) as Hl. cbn [String.length] in Hl.
      specialize (IH v' ltac:(lia)).
      assert (String.length p <= String.length (jq_rune ip rn p))%nat; [|lia].
      unfold jq_rune. destruct (ip rn || (65536 <=? rn)) eqn:Ep; [lia|].
      apply orb_false_iff in Ep. destruct Ep as [_ Hk]. apply Z.leb_gt in Hk.
      pose proof (rune_at_pmax _ _ _ _ _ _ Hc R Hk).
      cbn [String.length]. rewrite hexn_length. lia.
    + rewrite Hq, length_append. change (String.length fffd) with 3%nat. cbn [String.length].
      specialize (IH r ltac:(lia)). lia.
Qed.

Lemma json_quote_append ip v rest :
  append (json_quote ip v) rest = String dq (append (jquote_body ip 0 v) (String dq rest)).
Proof. unfold json_quote. cbn [append]. now rewrite append_assoc. Qed.

Lemma parse_str_after_jquote ip v rest :
  parse_str (S (String.length (append (jquote_body ip 0 v) (String dq rest))))
            (append (jquote_body ip 0 v) (String dq rest)) = Some (utf8_fix 0 v, rest).
Proof.
  apply (parse_str_jquote_body ip (String.length v)); [lia|].
  rewrite length_append. pose proof (jquote_body_length ip _ v (le_n _)). lia.
Qed.

(* ------------------------------------------------------------------ members *)
Lemma jenc_pair_append ip l tail :
  append (enc_pair ip l) tail =
  String dq (append (jquote_body ip 0 (fst l)) (String dq (String ":"
    (String dq (append (jquote_body ip 0 (snd l)) (String dq tail)))))).
Proof.
  unfold enc_pair. rewrite append_assoc, json_quote_append. cbn [append]. now rewrite json_quote_append.
Qed.

Lemma parse_members_jstep ip l tail f :
  parse_members (S f) (append (enc_pair ip l) tail) =
    match skip_ws tail with
    | String d r5 =>
      if byte d =? 44 then omap (cons (fix_label l)) (parse_members f r5)
      else if byte d =? 125 then match skip_ws r5 with EmptyString => Some [fix_label l] | _ => None end
      else None
    | EmptyString => None
    end.
Proof.
  destruct l as [k v]. unfold fix_label. cbn [fst snd].
  rewrite jenc_pair_append. cbn [fst snd].
  cbn [parse_members]. rewrite (skip_ws_nonws dq) by reflexivity. rewrite byte_dq. change (34 =? 34) with true. cbv iota.
  rewrite (parse_str_after_jquote ip k _).
  rewrite (skip_ws_nonws ":"%char) by reflexivity. change (byte ":" =? 58) with true. cbv iota.
  rewrite (skip_ws_nonws dq) by reflexivity. rewrite byte_dq. change (34 =? 34) with true. cbv iota.
  rewrite (parse_str_after_jquote ip v _). reflexivity.
Qed.

Lemma jenc_join_cons2 ip l m r :
  enc_join ip (l :: m :: r) = append (enc_pair ip l) (String "," (enc_join ip (m :: r))).
Proof. reflexivity. Qed.

Lemma jenc_pair_head ip l tail : exists r, append (enc_pair ip l) tail = String dq r.
Proof. rewrite jenc_pair_append. eexists. reflexivity. Qed.

Lemma parse_members_jenc_join ip : forall ls, ls <> [] ->
  forall fuel, (List.length ls <= fuel)%nat ->
  parse_members fuel (append (enc_join ip ls) "}") = Some (map fix_label ls).
Proof.
  induction ls as [|l ls IH]; intros Hne fuel Hf; [congruence|].
  destruct fuel as [|f]; [cbn in Hf; lia|].
  destruct ls as [|m r].
  - cbn [enc_join map]. rewrite (parse_members_jstep ip l "}" f).
    rewrite (skip_ws_nonws "}"%char) by reflexivity.
    change (byte "}" =? 44) with false. change (byte "}" =? 125) with true. reflexivity.
  - rewrite jenc_join_cons2, append_assoc. rewrite (parse_members_jstep ip l _ f).
    cbn [append]. rewrite (skip_ws_nonws ","%char) by reflexivity.
    change (byte "," =? 44) with true. cbv iota.
    rewrite IH; [reflexivity|discriminate|cbn [List.length] in *; lia].
Qed.

Lemma jenc_join_length ip ls : (List.length ls <= String.length (enc_join ip ls))%nat.
Proof.
  induction ls as [|l ls IH]; [cbn; lia|].
  assert (Hp : forall l, (1 <= String.length (enc_pair ip l))%nat).
  { intros x. destruct (jenc_pair_head ip x EmptyString) as [r Hr].
    assert (E : enc_pair ip x = append (enc_pair ip x) EmptyString).
    { clear. induction (enc_pair ip x) as [|c s IHs]; cbn [append]; [reflexivity|now rewrite <- IHs]. }
    rewrite E, Hr. cbn [String.length]. lia. }
  destruct ls as [|m r].
  - cbn [enc_join List.length]. apply Hp.
  - rewrite jenc_join_cons2, length_append. cbn [String.length List.length] in *. specialize (Hp l). lia.
Qed.

(* the document is JSON for EVERY label list and every IsPrint; what it denotes is the list with
   ill-formed bytes read as U+FFFD *)
Lemma label_document_decodes ip ls : json_decode (encode_labels ip ls) = Some (map fix_label ls).
Proof.
  unfold encode_labels, json_decode.
  rewrite (skip_ws_nonws "{"%char) by reflexivity. change (byte "{" =? 123) with true. cbv iota.
  destruct ls as [|l r].
  - reflexivity.
  - destruct (jenc_pair_head ip l (append (match r with [] => EmptyString | _ => String "," (enc_join ip r) end) "}")) as [x Hx].
    assert (E : append (enc_join ip (l :: r)) "}" = String dq x).
    { rewrite <- Hx. destruct r as [|m r]; [reflexivity|]. rewrite jenc_join_cons2, append_assoc. reflexivity. }
    rewrite E. rewrite (skip_ws_nonws dq) by reflexivity. rewrite byte_dq. change (34 =? 125) with false. cbv iota.
    rewrite <- E. apply parse_members_jenc_join; [discriminate|].
    rewrite length_append. pose proof (jenc_join_length ip (l :: r)). lia.
Qed.

(* ------------------------------------------------------------------ valid UTF-8 is read back exactly *)
Lemma fix_valid : forall s k, utf8_valid k s = true -> utf8_fix k s = s.
Proof.
  induction s as [|c r IH]; intros k H; [destruct k; reflexivity|].
  destruct k as [|k]; cbn [utf8_valid utf8_fix] in *.
  - destruct (byte c <? 128); [now rewrite IH|].
    destruct (decode_rune (String c r)) as [[rn w]|]; [now rewrite IH|discriminate H].
  - now rewrite IH.
Qed.

Lemma fix_label_valid l : label_valid l = true -> fix_label l = l.
Proof.
  destruct l as [k v]. unfold label_valid, fix_label. cbn [fst snd]. intros H.
  apply andb_true_iff in H. destruct H as [H1 H2]. now rewrite (fix_valid k 0 H1), (fix_valid v 0 H2).
Qed.

Lemma map_fix_valid ls : forallb label_valid ls = true -> map fix_label ls = ls.
Proof.
  induction ls as [|l ls IH]; intros H; [reflexivity|]. cbn [forallb map] in *.
  apply andb_true_iff in H. destruct H as [H1 H2]. now rewrite (fix_label_valid l H1), IH.
Qed.

Lemma label_document_roundtrip_valid ip ls :
  forallb label_valid ls = true -> json_decode (encode_labels ip ls) = Some ls.
Proof. intros H. now rewrite label_document_decodes, map_fix_valid. Qed.

(* ------------------------------------------------------------------ sanitizeLabels leaves valid UTF-8 *)
Lemma to_valid_skip : forall k s b, to_valid b (S k) s = append (stake (S k) s) (to_valid false 0 (sdrop (S k) s)).
Proof.
  induction k as [|k IH]; intros s b.
  - destruct s as [|c r]; [reflexivity|]. cbn [to_valid stake sdrop append]. destruct r; reflexivity.
  - destruct s as [|c r]; [reflexivity|]. cbn [to_valid]. rewrite IH. reflexivity.
Qed.

Lemma valid_ascii_cons c s : byte c < 128 -> utf8_valid 0 (String c s) = utf8_valid 0 s.
Proof. intros H. cbn [utf8_valid]. now replace (byte c <? 128) with true by (symmetry; apply Z.ltb_lt; lia). Qed.

Lemma valid_fffd s : utf8_valid 0 (append fffd s) = utf8_valid 0 s.
Proof. reflexivity. Qed.

Lemma valid_rune c r rn w p v' X : 128 <= byte c -> rune_at c r rn w p v' ->
  utf8_valid 0 (append p X) = utf8_valid 0 X.
Proof.
  intros Hc R. destruct (ra_again _ _ _ _ _ _ R X) as [A1 [_ A3]].
  destruct (ra_head _ _ _ _ _ _ R) as [q Hq]. rewrite Hq in *. cbn [append] in *.
  cbn [utf8_valid]. replace (byte c <? 128) with false by (symmetry; apply Z.ltb_ge; lia).
  rewrite A1. rewrite valid_skip.
  destruct w as [|k]; [destruct (rune_at_width _ _ _ _ _ _ R) as [k [E _]]; discriminate E|].
  cbn [Nat.pred]. cbn [sdrop] in A3. now rewrite A3.
Qed.

Lemma to_valid_is_valid : forall n s b, (String.length s <= n)%nat -> utf8_valid 0 (to_valid b 0 s) = true.
Proof.
  induction n as [|n IH]; intros s b Hn.
  - destruct s; [reflexivity|cbn in Hn; lia].
  - destruct s as [|c r]; [reflexivity|]. cbn [String.length] in Hn. cbn [to_valid].
    destruct (byte c <? 128) eqn:E.
    + apply Z.ltb_lt in E. rewrite (valid_ascii_cons c _ E). apply IH. lia.
    + apply Z.ltb_ge in E. destruct (decode_rune (String c r)) as [[rn w]|] eqn:D.
      * destruct (decode_rune_multibyte c r rn w E D) as [p [v' R]].
        destruct (rune_at_width _ _ _ _ _ _ R) as [k [-> [Hp Hv]]]. cbn [Nat.pred].
        assert (Eo : String c (to_valid false k r) = append p (to_valid false 0 v')).
        { destruct k as [|k].
          - cbn [stake] in Hp. cbn [sdrop] in Hv. rewrite Hp. cbn [append].
            assert (r = v') by (destruct r; exact Hv). now subst.
          - rewrite to_valid_skip, Hv, Hp. reflexivity. }
        rewrite Eo, (valid_rune c r rn _ p v' _ E R).
        pose proof (ra_len _ _ _ _ _ _ R) as Hl. cbn [String.length] in Hl. apply IH. lia.
      * destruct b; [apply IH; lia|]. rewrite valid_fffd. apply IH. lia.
Qed.

Lemma san_value_valid v : utf8_valid 0 (san_value v) = true.
Proof. unfold san_value. apply (to_valid_is_valid _ _ false (le_n _)). Qed.

Lemma us_ascii : byte us < 128.
Proof. vm_compute. reflexivity. Qed.

Lemma san_name_valid : forall s first k, utf8_valid 0 (san_name first k s) = true.
Proof.
  induction s as [|c r IH]; intros first k; [destruct k; reflexivity|].
  destruct k as [|k]; cbn [san_name]; [|apply IH].
  destruct (byte c <? 128) eqn:E.
  - apply Z.ltb_lt in E.
    destruct (if first then is_alpha_us (byte c) else is_alnum_us (byte c)).
    + rewrite (valid_ascii_cons c _ E). apply IH.
    + rewrite (valid_ascii_cons us _ us_ascii). apply IH.
  - destruct (decode_rune (String c r)) as [[rn w]|]; rewrite (valid_ascii_cons us _ us_ascii); apply IH.
Qed.

Lemma sanitize_valid raw : forallb label_valid (sanitize raw) = true.
Proof.
  induction raw as [|l raw IH]; [reflexivity|]. cbn [sanitize map forallb]. fold (sanitize raw). rewrite IH, andb_true_r.
  unfold label_valid, sanitize1. cbn [fst snd]. now rewrite san_name_valid, san_value_valid.
Qed.

(* THE round trip: for every label list a client can send, through every protocol that sanitizes, for
   every IsPrint: the stored document is JSON and decodes to exactly the sanitized label list *)
Lemma label_document_roundtrip_all ip raw :
  json_decode (encode_labels ip (sanitize raw)) = Some (sanitize raw).
Proof. apply label_document_roundtrip_valid, sanitize_valid. Qed.

(* ------------------------------------------------------------------ no stored text changes where it was JSON *)
Lemma jq_ascii_safe c : json_safe_byte (byte c) = true -> jq_ascii c = esc_ascii c.
Proof.
  unfold json_safe_byte, jq_ascii, esc_ascii. intros H.
  destruct ((byte c =? 34) || (byte c =? 92)); [reflexivity|].
  destruct (in_rng 32 126 (byte c)); [reflexivity|]. cbn [orb] in H.
  destruct (byte c =? 8) eqn:E8; [apply Z.eqb_eq in E8; rewrite E8; reflexivity|].
  destruct (byte c =? 9) eqn:E9; [apply Z.eqb_eq in E9; rewrite E9; reflexivity|].
  destruct (byte c =? 10) eqn:E10; [apply Z.eqb_eq in E10; rewrite E10; reflexivity|].
  destruct (byte c =? 12) eqn:E12; [apply Z.eqb_eq in E12; rewrite E12; reflexivity|].
  destruct (byte c =? 13) eqn:E13; [apply Z.eqb_eq in E13; rewrite E13; reflexivity|].
  discriminate H.
Qed.

Lemma jq_rune_ok ip rn p : isprint_or_bmp ip rn = true -> jq_rune ip rn p = esc_rune ip rn p.
Proof.
  unfold isprint_or_bmp, jq_rune, esc_rune. intros H. destruct (ip rn); [reflexivity|]. cbn [orb] in *.
  rewrite H. apply Z.ltb_lt in H. now replace (65536 <=? rn) with false by (symmetry; apply Z.leb_gt; lia).
Qed.

Lemma jquote_body_compat ip : forall s k, json_ok_str ip k s = true -> jquote_body ip k s = quote_body ip k s.
Proof.
  induction s as [|c r IH]; intros k H; [destruct k; reflexivity|].
  destruct k as [|k]; cbn [json_ok_str jquote_body quote_body] in *; [|now apply IH].
  destruct (byte c <? 128).
  - apply andb_true_iff in H. destruct H as [H1 H2]. now rewrite (jq_ascii_safe c H1), (IH 0%nat H2).
  - destruct (decode_rune (String c r)) as [[rn w]|]; [|discriminate H].
    apply andb_true_iff in H. destruct H as [H1 H2]. now rewrite (jq_rune_ok ip rn _ H1), (IH _ H2).
Qed.

Lemma encode_labels_compat ip ls : labels_json_ok ip ls = true -> encode_labels ip ls = encode_labels_quote ip ls.
Proof.
  intros H. unfold encode_labels, encode_labels_quote. f_equal. f_equal.
  induction ls as [|l ls IH]; [reflexivity|]. cbn [labels_json_ok forallb] in H.
  apply andb_true_iff in H. destruct H as [Hl Hr]. apply andb_true_iff in Hl. destruct Hl as [Hk Hv].
  assert (Ep : enc_pair ip l = enc_pair_q ip l).
  { unfold enc_pair, enc_pair_q, json_quote, go_quote.
    now rewrite (jquote_body_compat ip _ _ Hk), (jquote_body_compat ip _ _ Hv). }
  destruct ls as [|m r]; [cbn [enc_join enc_join_q]; exact Ep|].
  change (enc_join ip (l :: m :: r)) with (append (enc_pair ip l) (String "," (enc_join ip (m :: r)))).
  change (enc_join_q ip (l :: m :: r)) with (append (enc_pair_q ip l) (String "," (enc_join_q ip (m :: r)))).
  rewrite Ep. f_equal. f_equal. apply IH. exact Hr.
Qed.

(* ------------------------------------------------------------------ witnesses *)
Lemma quote_document_refuted : exists isprint ls, json_decode (encode_labels_quote isprint ls) <> Some ls.
Proof.
  exists (isprint_tbl []), [("a"%string, String (chr 1) EmptyString)].
  rewrite (label_document_roundtrip_fails _ (or_introl eq_refl)). discriminate.
Qed.

(* the label sets of the old refutation: now JSON, and read back exactly *)
Example former_failures_read_back :
  forallb (fun ls => olabels_eqb (json_decode (encode_labels (isprint_tbl []) (sanitize ls))) (sanitize ls)) bad_label_sets = true.
Proof. vm_compute. reflexivity. Qed.

(* a value cut inside a three-byte rune at byte 100, an ill-formed byte, a control byte, an astral
   non-printable rune: what the document looks like *)
Definition ex_hard_labels : list label :=
  [("a b"%string, String (chr 1) (String (chr 255) "x")); ("1n"%string, String (chr 243) (String (chr 160) (String (chr 128) (str1 (chr 129)))))].
Example hard_document :
  encode_labels (isprint_tbl [(65533, true)]) (sanitize ex_hard_labels) =
  append "{""a_b"":""\u0001" (append fffd (append "x"",""_n"":""" (append (String (chr 243) (String (chr 160) (String (chr 128) (str1 (chr 129))))) """}"))).
Proof. vm_compute. reflexivity. Qed.
