From Coq Require Import List Ascii String Bool Arith Lia.
From Qryn Require Import model.ReadLabelDoc.
Import ListNotations.
Open Scope char_scope.

(* what the theorem needs of strconv.QuotedPrefix: it returns a prefix of its argument *)
Definition returns_a_prefix (qp : bytes -> option nat) : Prop := forall s n, qp s = Some n -> n <= List.length s.

Lemma take_quoted_main_no_panic : forall qp, returns_a_prefix qp -> forall name rest, take_quoted qp VMain name rest <> SPanic.
Proof.
  intros qp H name rest. unfold take_quoted. destruct (qp rest) as [n|] eqn:E; [|discriminate].
  unfold slice_from. apply H in E. apply Nat.leb_le in E. rewrite E. discriminate.
Qed.

Lemma take_quoted_guarded_no_panic : forall qp, returns_a_prefix qp -> forall name rest, take_quoted qp VSeededGuarded name rest <> SPanic.
Proof.
  intros qp H name rest. unfold take_quoted. destruct (qp rest) as [n|] eqn:E; [|discriminate].
  unfold slice_from. apply H in E. apply Nat.leb_le in E. rewrite E.
  destruct name; [|discriminate]. destruct (trim_left is_blank (skipn n rest)); [discriminate|]. destruct (a =? ":"); discriminate.
Qed.

Lemma finish_no_panic : forall rest n, finish rest n <> Panic.
Proof. intros rest n. unfold finish. destruct rest as [|c [|]]; try discriminate;
  destruct c as [[] [] [] [] [] [] [] []]; discriminate. Qed.

Lemma pairs_loop_no_panic : forall qp v, (forall name rest, take_quoted qp v name rest <> SPanic) ->
  forall fuel rest n, pairs_loop qp v fuel rest n <> Panic.
Proof.
  intros qp v H fuel. induction fuel as [|f IH]; intros rest n; simpl; [discriminate|].
  destruct rest as [|c t]; [apply finish_no_panic|].
  destruct (c =? """"); [|apply finish_no_panic].
  destruct (take_quoted qp v true (c :: t)) eqn:E1; [exfalso; eapply H; eauto|discriminate|].
  destruct (take_quoted qp v false rest) eqn:E2; [exfalso; eapply H; eauto|discriminate|]. apply IH.
Qed.

(* every stored text, every QuotedPrefix that returns a prefix: the decoder on main answers Malformed or Decoded, never panics *)
Theorem stored_labels_never_panics : forall qp, returns_a_prefix qp -> forall doc, stored_labels_fallback qp VMain doc <> Panic.
Proof. intros qp H doc. apply pairs_loop_no_panic. apply take_quoted_main_no_panic, H. Qed.

Theorem guarded_check_never_panics : forall qp, returns_a_prefix qp -> forall doc, stored_labels_fallback qp VSeededGuarded doc <> Panic.
Proof. intros qp H doc. apply pairs_loop_no_panic. apply take_quoted_guarded_no_panic, H. Qed.

Lemma qp_scan_from_le : forall s k e n, qp_scan_from s k e = Some n -> n <= k + List.length s.
Proof.
  induction s as [|c t IH]; intros k e n; simpl; [discriminate|].
  destruct e; [intro H; apply IH in H; lia|].
  destruct (c =? "\"); [intro H; apply IH in H; lia|].
  destruct (c =? """"); [intro H; inversion H; lia|intro H; apply IH in H; lia].
Qed.

(* the hypothesis is satisfiable: the concrete scanner of the tie returns a prefix *)
Lemma qp_scan_returns_a_prefix : returns_a_prefix qp_scan.
Proof.
  intros s n. destruct s as [|c t]; simpl; [discriminate|]. destruct (c =? """"); [|discriminate].
  intro H. apply qp_scan_from_le in H. simpl. lia.
Qed.

Definition bytes_of (s : String.string) : bytes := String.list_ascii_of_string s.
Arguments bytes_of s%string_scope.

(* the seeded variant panics on a document that ends right after a quoted label name; the same text is Malformed on main *)
Definition seeded_variant_panics_main_does_not : Prop :=
  stored_labels_fallback qp_scan VSeeded (bytes_of "{""job"":""b"",""level""") = Panic /\
  stored_labels_fallback qp_scan VMain (bytes_of "{""job"":""b"",""level""") = Malformed /\
  stored_labels_fallback qp_scan VSeededGuarded (bytes_of "{""job"":""b"",""level""") = Malformed /\
  stored_labels_fallback qp_scan VSeeded (bytes_of "{""a""") = Panic.
Theorem unguarded_index_panics : seeded_variant_panics_main_does_not.
Proof. repeat split; vm_compute; reflexivity. Qed.

(* non-trivial values: both stored forms decode (the JSON form would not reach the fallback; it reads it all the same) *)
Example decodes_quoted_documents :
  stored_labels_fallback qp_scan VMain (bytes_of "{""job"":""b"",""level"":""info""}") = Decoded 2 /\
  stored_labels_fallback qp_scan VMain (bytes_of "{""a\x01"": ""b\a"", ""c"": ""\U000e0001""}") = Decoded 2 /\
  stored_labels_fallback qp_scan VMain (bytes_of " {""a"":""}""}") = Decoded 1 /\
  stored_labels_fallback qp_scan VMain (bytes_of "{""a"":""b""") = Malformed /\
  stored_labels_fallback qp_scan VMain (bytes_of "v0""\") = Malformed.
Proof. repeat split; vm_compute; reflexivity. Qed.

(* ---------------------------------------------------------------------------------------------------------------------
   Round 8: termination of the decoder loop (was: tested on fuel len(doc)+1, not proved). *)

Definition consumes_something (qp : bytes -> option nat) : Prop := forall s n, qp s = Some n -> 1 <= n <= List.length s.

Lemma consumes_returns_a_prefix : forall qp, consumes_something qp -> returns_a_prefix qp.
Proof. intros qp H s n E. apply H in E. lia. Qed.

Lemma trim_left_length : forall cut s, List.length (trim_left cut s) <= List.length s.
Proof. intros cut s. induction s as [|c t IH]; simpl; [lia|]. destruct (cut c); simpl; lia. Qed.

Lemma trim_space_length : forall s, List.length (trim_space s) <= List.length s.
Proof.
  intros s. unfold trim_space. rewrite rev_length.
  pose proof (trim_left_length is_space (rev (trim_left is_space s))) as H1. rewrite rev_length in H1.
  pose proof (trim_left_length is_space s). lia.
Qed.

Lemma decoder_start_length : forall doc, List.length (decoder_start doc) <= List.length doc.
Proof.
  intros doc. unfold decoder_start, trim_prefix_brace. pose proof (trim_space_length doc) as H.
  destruct (trim_space doc) as [|c t]; [exact H|]. destruct (Ascii.eqb c "{") eqn:E.
  - apply Ascii.eqb_eq in E. subst c. simpl in *. lia.
  - destruct c as [[] [] [] [] [] [] [] []]; try exact H; simpl in *; lia.
Qed.

(* every successful QuotedPrefix round makes the text shorter *)
Lemma take_quoted_shrinks : forall qp v, consumes_something qp -> forall name rest r,
  take_quoted qp v name rest = SGo r -> List.length r < List.length rest.
Proof.
  intros qp v H name rest r. unfold take_quoted. destruct (qp rest) as [n|] eqn:E; [|discriminate].
  apply H in E. unfold slice_from. destruct (Nat.leb n (List.length rest)) eqn:L; [|discriminate].
  assert (SK : List.length (skipn n rest) < List.length rest)  by (rewrite skipn_length; lia).
  pose proof (trim_left_length is_sep (skipn n rest)) as T1.
  pose proof (trim_left_length is_blank (skipn n rest)) as T2.
  pose proof (trim_left_length is_sep (trim_left is_blank (skipn n rest))) as T3.
  destruct v.
  - intro Q. inversion Q. lia.
  - destruct name.
    + unfold index. destruct (nth_error (trim_left is_blank (skipn n rest)) 0); [|discriminate].
      destruct (a =? ":"); [|discriminate]. intro Q. inversion Q. lia.
    + intro Q. inversion Q. lia.
  - destruct name.
    + destruct (trim_left is_blank (skipn n rest)) as [|a l] eqn:R; [discriminate|].
      destruct (a =? ":"); [|discriminate]. intro Q. injection Q as Q1. rewrite <- Q1. change (List.length (trim_left is_sep (a :: l)) < List.length rest). lia.
    + intro Q. inversion Q. lia.
Qed.

(* the loop with fuel IS the loop without, whenever the fuel exceeds the text; completed rounds are at most half its length *)
Lemma pairs_loop_is_loop_run : forall qp v, consumes_something qp -> forall fuel rest n, List.length rest < fuel ->
  exists k, loop_run qp v rest n k (pairs_loop qp v fuel rest n) /\ 2 * k <= List.length rest.
Proof.
  intros qp v H fuel. induction fuel as [|f IH]; intros rest n L; [lia|]. simpl.
  destruct rest as [|c t].
  - exists 0. split; [apply LR_exit; reflexivity|lia].
  - destruct (c =? """") eqn:Q.
    + destruct (take_quoted qp v true (c :: t)) as [| |r1] eqn:E1.
      * exists 0. split; [apply LR_panic1; [simpl; exact Q|exact E1]|lia].
      * exists 0. split; [apply LR_err1; [simpl; exact Q|exact E1]|lia].
      * pose proof (take_quoted_shrinks qp v H _ _ _ E1) as S1.
        destruct (take_quoted qp v false r1) as [| |r2] eqn:E2.
        -- exists 0. split; [eapply LR_panic2; [simpl; exact Q|exact E1|exact E2]|lia].
        -- exists 0. split; [eapply LR_err2; [simpl; exact Q|exact E1|exact E2]|lia].
        -- pose proof (take_quoted_shrinks qp v H _ _ _ E2) as S2.
           destruct (IH r2 (S n)) as [k [R B]]; [lia|].
           exists (S k). split; [eapply LR_round; [simpl; exact Q|exact E1|exact E2|exact R]|lia].
    + exists 0. split; [apply LR_exit; simpl; exact Q|lia].
Qed.

Lemma loop_run_deterministic : forall qp v rest n k o, loop_run qp v rest n k o ->
  forall k' o', loop_run qp v rest n k' o' -> k' = k /\ o' = o.
Proof.
  intros qp v rest n k o R. induction R as [rest n Q|rest n Q E1|rest n Q E1|rest n r1 Q E1 E2|rest n r1 Q E1 E2|rest n r1 r2 k o Q E1 E2 R IH];
    intros k' o' R'; inversion R'; subst;
    repeat match goal with
    | A : take_quoted ?q ?w ?b ?r = SGo ?x, B : take_quoted ?q ?w ?b ?r = SGo ?y |- _ =>
        assert (x = y) by congruence; try subst y; clear B
    end; try congruence; try (split; reflexivity).
  match goal with X : loop_run _ _ _ (S _) _ _ |- _ => apply IH in X; destruct X; subst; split; reflexivity end.
Qed.

(* TERMINATION: for every text and every QuotedPrefix that consumes at least one byte of its argument, Go's loop (no fuel) ends,
   after at most len(doc)/2 completed rounds, in exactly the outcome the executable model computes -- for all three variants *)
Theorem decoder_loop_terminates : forall qp v, consumes_something qp -> forall doc,
  exists k, loop_run qp v (decoder_start doc) 0 k (stored_labels_fallback qp v doc) /\ 2 * k <= List.length doc /\
            forall k' o', loop_run qp v (decoder_start doc) 0 k' o' -> k' = k /\ o' = stored_labels_fallback qp v doc.
Proof.
  intros qp v H doc. pose proof (decoder_start_length doc) as L.
  destruct (pairs_loop_is_loop_run qp v H (S (List.length doc)) (decoder_start doc) 0) as [k [R B]]; [lia|].
  exists k. split; [exact R|]. split; [lia|]. intros k' o' R'. eapply loop_run_deterministic; eauto.
Qed.

(* main's decoder: ends, and not in a panic *)
Theorem series_decoder_total_on_main : forall qp, consumes_something qp -> forall doc,
  exists k o, loop_run qp VMain (decoder_start doc) 0 k o /\ o <> Panic /\ 2 * k <= List.length doc.
Proof.
  intros qp H doc. destruct (decoder_loop_terminates qp VMain H doc) as [k [R [B _]]].
  exists k, (stored_labels_fallback qp VMain doc). split; [exact R|]. split; [|exact B].
  apply stored_labels_never_panics, consumes_returns_a_prefix, H.
Qed.

(* the hypothesis is needed: a QuotedPrefix that reports success on an empty prefix makes the loop spin on one quote forever *)
Theorem decoder_needs_a_consuming_quoted_prefix : forall n k o, ~ loop_run qp_nothing VMain [""""] n k o.
Proof.
  intros n k o R. remember [""""] as rest eqn:E. induction R; subst.
  - discriminate.
  - vm_compute in H0. discriminate.
  - vm_compute in H0. discriminate.
  - vm_compute in H0. inversion H0. subst. vm_compute in H1. discriminate.
  - vm_compute in H0. inversion H0. subst. vm_compute in H1. discriminate.
  - vm_compute in H0. inversion H0. subst. vm_compute in H1. inversion H1. subst. apply IHR. reflexivity.
Qed.

Lemma qp_scan_from_ge : forall s k e n, qp_scan_from s k e = Some n -> k < n.
Proof.
  induction s as [|c t IH]; intros k e n; simpl; [discriminate|].
  destruct e; [intro H; apply IH in H; lia|].
  destruct (c =? "\"); [intro H; apply IH in H; lia|].
  destruct (c =? """"); [intro H; inversion H; lia|intro H; apply IH in H; lia].
Qed.

(* the hypothesis is satisfiable: the scanner of the tie takes at least the two quotes *)
Lemma qp_scan_consumes : consumes_something qp_scan.
Proof.
  intros s n E. split; [|apply qp_scan_returns_a_prefix in E; exact E].
  destruct s as [|c t]; simpl in E; [discriminate|]. destruct (c =? """"); [|discriminate].
  apply qp_scan_from_ge in E. lia.
Qed.

Example decoder_runs_two_rounds :
  exists k, loop_run qp_scan VMain (decoder_start (bytes_of "{""job"":""b"",""level"":""info""}")) 0 k (Decoded 2) /\ k = 2.
Proof.
  destruct (decoder_loop_terminates qp_scan VMain qp_scan_consumes (bytes_of "{""job"":""b"",""level"":""info""}")) as [k [R [B U]]].
  assert (E : stored_labels_fallback qp_scan VMain (bytes_of "{""job"":""b"",""level"":""info""}") = Decoded 2) by (vm_compute; reflexivity).
  rewrite E in R. exists k. split; [exact R|].
  assert (R2 : loop_run qp_scan VMain (decoder_start (bytes_of "{""job"":""b"",""level"":""info""}")) 0 2 (Decoded 2)).
  { eapply LR_round; [reflexivity|vm_compute; reflexivity|vm_compute; reflexivity|].
    eapply LR_round; [reflexivity|vm_compute; reflexivity|vm_compute; reflexivity|].
    apply (LR_exit qp_scan VMain ["}"] 2). reflexivity. }
  apply U in R2. destruct R2 as [K _]. symmetry. exact K.
Qed.
