From Coq Require Import List Ascii String Bool Arith Lia.
From Qryn Require Import model.ReadLabelDoc.
Import ListNotations.
Open Scope char_scope.

(* what the theorem needs of strconv.QuotedPrefix: it returns a prefix of its argument *)
Definition returns_a_prefix (qp : bytes -> option nat) : Prop := forall s n, qp s = Some n -> n <= List.length s.

Lemma take_quoted_main_no_panic : forall qp, returns_a_prefix qp -> forall name rest, take_quoted qp VMain name rest <> SPanic.
Proof.
  intros qp H name rest. unfold take_quoted. destruct (qp rest) as [n|] eqn:E; [|discriminate].
  unfold slice_from. apply H in E. apply Nat.leb_le in E. rewrite E. discriminate.
Qed.

Lemma take_quoted_guarded_no_panic : forall qp, returns_a_prefix qp -> forall name rest, take_quoted qp VSeededGuarded name rest <> SPanic.
Proof.
  intros qp H name rest. unfold take_quoted. destruct (qp rest) as [n|] eqn:E; [|discriminate].
  unfold slice_from. apply H in E. apply Nat.leb_le in E. rewrite E.
  destruct name; [|discriminate]. destruct (trim_left is_blank (skipn n rest)); [discriminate|]. destruct (a =? ":"); discriminate.
Qed.

Lemma finish_no_panic : forall rest n, finish rest n <> Panic.
Proof. intros rest n. unfold finish. destruct rest as [|c [|]]; try discriminate;
  destruct c as [[] [] [] [] [] [] [] []]; discriminate. Qed.

Lemma pairs_loop_no_panic : forall qp v, (forall name rest, take_quoted qp v name rest <> SPanic) ->
  forall fuel rest n, pairs_loop qp v fuel rest n <> Panic.
Proof.
  intros qp v H fuel. induction fuel as [|f IH]; intros rest n; simpl; [discriminate|].
  destruct rest as [|c t]; [apply finish_no_panic|].
  destruct (c =? """"); [|apply finish_no_panic].
  destruct (take_quoted qp v true (c :: t)) eqn:E1; [exfalso; eapply H; eauto|discriminate|].
  destruct (take_quoted qp v false rest) eqn:E2; [exfalso; eapply H; eauto|discriminate|]. apply IH.
Qed.

(* every stored text, every QuotedPrefix that returns a prefix: the decoder on main answers Malformed or Decoded, never panics *)
Theorem stored_labels_never_panics : forall qp, returns_a_prefix qp -> forall doc, stored_labels_fallback qp VMain doc <> Panic.
Proof. intros qp H doc. apply pairs_loop_no_panic. apply take_quoted_main_no_panic, H. Qed.

Theorem guarded_check_never_panics : forall qp, returns_a_prefix qp -> forall doc, stored_labels_fallback qp VSeededGuarded doc <> Panic.
Proof. intros qp H doc. apply pairs_loop_no_panic. apply take_quoted_guarded_no_panic, H. Qed.

Lemma qp_scan_from_le : forall s k e n, qp_scan_from s k e = Some n -> n <= k + List.length s.
Proof.
  induction s as [|c t IH]; intros k e n; simpl; [discriminate|].
  destruct e; [intro H; apply IH in H; lia|].
  destruct (c =? "\"); [intro H; apply IH in H; lia|].
  destruct (c =? """"); [intro H; inversion H; lia|intro H; apply IH in H; lia].
Qed.

(* the hypothesis is satisfiable: the concrete scanner of the tie returns a prefix *)
Lemma qp_scan_returns_a_prefix : returns_a_prefix qp_scan.
Proof.
  intros s n. destruct s as [|c t]; simpl; [discriminate|]. destruct (c =? """"); [|discriminate].
  intro H. apply qp_scan_from_le in H. simpl. lia.
Qed.

Definition bytes_of (s : String.string) : bytes := String.list_ascii_of_string s.
Arguments bytes_of s%string_scope.

(* the seeded variant panics on a document that ends right after a quoted label name; the same text is Malformed on main *)
Definition seeded_variant_panics_main_does_not : Prop :=
  stored_labels_fallback qp_scan VSeeded (bytes_of "{""job"":""b"",""level""") = Panic /\
  stored_labels_fallback qp_scan VMain (bytes_of "{""job"":""b"",""level""") = Malformed /\
  stored_labels_fallback qp_scan VSeededGuarded (bytes_of "{""job"":""b"",""level""") = Malformed /\
  stored_labels_fallback qp_scan VSeeded (bytes_of "{""a""") = Panic.
Theorem unguarded_index_panics : seeded_variant_panics_main_does_not.
Proof. repeat split; vm_compute; reflexivity. Qed.

(* non-trivial values: both stored forms decode (the JSON form would not reach the fallback; it reads it all the same) *)
Example decodes_quoted_documents :
  stored_labels_fallback qp_scan VMain (bytes_of "{""job"":""b"",""level"":""info""}") = Decoded 2 /\
  stored_labels_fallback qp_scan VMain (bytes_of "{""a\x01"": ""b\a"", ""c"": ""\U000e0001""}") = Decoded 2 /\
  stored_labels_fallback qp_scan VMain (bytes_of " {""a"":""}""}") = Decoded 1 /\
  stored_labels_fallback qp_scan VMain (bytes_of "{""a"":""b""") = Malformed /\
  stored_labels_fallback qp_scan VMain (bytes_of "v0""\") = Malformed.
Proof. repeat split; vm_compute; reflexivity. Qed.
